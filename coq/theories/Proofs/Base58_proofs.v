(* Proofs/Base58_proofs.v — lemmas about Codec/Base58.v (property C09). *)
From Coq Require Import String List NArith Bool Arith Lia.
From Coq.Strings Require Import Byte.
From PV Require Import Base.Bytes Base.Result Codec.Base58.
Import ListNotations.
Local Open Scope list_scope.

(* ========================================================================================== *)
(* positional notation in base B                                                               *)

Section Radix.
  Variable B : N.
  Hypothesis HB : (1 < B)%N.

  Definition digits_ok (l : list N) : Prop := Forall (fun d => (d < B)%N) l.
  (* canonical: digits in range and the most significant one (the last) is not zero *)
  Definition canon (l : list N) : Prop := digits_ok l /\ last l 1%N <> 0%N.

  Lemma pow_pos_B k : (0 < B ^ k)%N.
  Proof. apply N.neq_0_lt_0, N.pow_nonzero. lia. Qed.

  Lemma lsf_digits_ok f n : digits_ok (lsf_digits B f n).
  Proof.
    revert n. induction f as [|f IH]; intro n; simpl.
    - constructor.
    - destruct (n =? 0)%N; [constructor|].
      constructor; [apply N.mod_lt; lia | apply IH].
  Qed.

  Lemma lsf_value_digits f n : (n < B ^ N.of_nat f)%N -> lsf_value B (lsf_digits B f n) = n.
  Proof.
    revert n. induction f as [|f IH]; intros n Hn.
    - simpl in *. change (B ^ 0)%N with 1%N in Hn. lia.
    - cbn [lsf_digits]. destruct (n =? 0)%N eqn:E.
      + apply N.eqb_eq in E. subst. reflexivity.
      + cbn [lsf_value]. rewrite IH.
        * rewrite N.add_comm. symmetry. apply N.div_mod. lia.
        * rewrite Nat2N.inj_succ, N.pow_succ_r' in Hn.
          apply N.div_lt_upper_bound; lia.
  Qed.

  Lemma lsf_digits_last f n : (n < B ^ N.of_nat f)%N -> last (lsf_digits B f n) 1%N <> 0%N.
  Proof.
    revert n. induction f as [|f IH]; intros n Hn.
    - simpl. discriminate.
    - cbn [lsf_digits]. destruct (n =? 0)%N eqn:E; [simpl; discriminate|].
      apply N.eqb_neq in E.
      assert (Hq : (n / B < B ^ N.of_nat f)%N).
      { rewrite Nat2N.inj_succ, N.pow_succ_r' in Hn. apply N.div_lt_upper_bound; lia. }
      specialize (IH _ Hq).
      destruct (lsf_digits B f (n / B)) as [|d r] eqn:Er.
      + (* n / B has no digits: it is 0 *)
        assert (Hz : (n / B = 0)%N).
        { pose proof (lsf_value_digits f (n / B) Hq) as Hv. rewrite Er in Hv. simpl in Hv. lia. }
        simpl. pose proof (N.div_mod n B ltac:(lia)) as Hdm. rewrite Hz in Hdm. lia.
      + change (last (n mod B :: d :: r) 1)%N with (last (d :: r) 1%N). exact IH.
  Qed.

  Lemma lsf_digits_canon f n : (n < B ^ N.of_nat f)%N -> canon (lsf_digits B f n).
  Proof. intro H. split; [apply lsf_digits_ok | apply lsf_digits_last, H]. Qed.

  Lemma canon_tail d r : canon (d :: r) -> r <> [] -> canon r.
  Proof.
    intros [Hok Hl] Hr. split.
    - inversion Hok; assumption.
    - destruct r as [|d' r']; [contradiction|]. exact Hl.
  Qed.

  Lemma canon_pos l : canon l -> l <> [] -> (0 < lsf_value B l)%N.
  Proof.
    induction l as [|d r IH]; intros Hc Hne; [contradiction|].
    cbn [lsf_value]. destruct r as [|d' r'].
    - destruct Hc as [_ Hl]. simpl in Hl. simpl. lia.
    - assert (Hr : (0 < lsf_value B (d' :: r'))%N).
      { apply IH; [eapply canon_tail; eauto|]; discriminate. }
      nia.
  Qed.

  Lemma canon_unique l1 l2 :
    canon l1 -> canon l2 -> lsf_value B l1 = lsf_value B l2 -> l1 = l2.
  Proof.
    revert l2. induction l1 as [|d1 r1 IH]; intros l2 H1 H2 Hv.
    - destruct l2 as [|d2 r2]; [reflexivity|].
      pose proof (canon_pos _ H2 ltac:(discriminate)) as Hp. cbn [lsf_value] in *. lia.
    - destruct l2 as [|d2 r2].
      + pose proof (canon_pos _ H1 ltac:(discriminate)) as Hp. cbn [lsf_value] in *. lia.
      + cbn [lsf_value] in Hv.
        assert (Hd1 : (d1 < B)%N) by (destruct H1 as [Hok _]; inversion Hok; assumption).
        assert (Hd2 : (d2 < B)%N) by (destruct H2 as [Hok _]; inversion Hok; assumption).
        assert (Hdd : d1 = d2 /\ lsf_value B r1 = lsf_value B r2).
        { assert (E1 : ((d1 + B * lsf_value B r1) mod B = d1)%N).
          { rewrite N.mul_comm, N.mod_add by lia. apply N.mod_small, Hd1. }
          assert (E2 : ((d2 + B * lsf_value B r2) mod B = d2)%N).
          { rewrite N.mul_comm, N.mod_add by lia. apply N.mod_small, Hd2. }
          assert (Hd : d1 = d2) by (rewrite <- E1, <- E2, Hv; reflexivity).
          split; [exact Hd|]. subst d2.
          assert (HBr : (B * lsf_value B r1 = B * lsf_value B r2)%N) by lia.
          apply N.mul_cancel_l in HBr; [exact HBr | lia]. }
        destruct Hdd as [-> Hvr]. f_equal.
        destruct r1 as [|a1 s1], r2 as [|a2 s2]; try reflexivity.
        * pose proof (canon_pos (a2 :: s2) (canon_tail _ _ H2 ltac:(discriminate)) ltac:(discriminate)).
          cbn [lsf_value] in *. lia.
        * pose proof (canon_pos (a1 :: s1) (canon_tail _ _ H1 ltac:(discriminate)) ltac:(discriminate)).
          cbn [lsf_value] in *. lia.
        * apply IH; [eapply canon_tail; eauto; discriminate | eapply canon_tail; eauto; discriminate | exact Hvr].
  Qed.

  Lemma lsf_value_app l1 l2 :
    lsf_value B (l1 ++ l2) = (lsf_value B l1 + B ^ N.of_nat (length l1) * lsf_value B l2)%N.
  Proof.
    induction l1 as [|d r IH].
    - cbn [app lsf_value length]. change (N.of_nat 0) with 0%N. rewrite N.pow_0_r. lia.
    - cbn [app lsf_value length]. rewrite IH, Nat2N.inj_succ, N.pow_succ_r'. lia.
  Qed.

  Lemma lsf_value_lt l : digits_ok l -> (lsf_value B l < B ^ N.of_nat (length l))%N.
  Proof.
    induction 1 as [|d r Hd Hr IH].
    - cbn [lsf_value length]. change (N.of_nat 0) with 0%N. rewrite N.pow_0_r. lia.
    - cbn [lsf_value length]. rewrite Nat2N.inj_succ, N.pow_succ_r'. nia.
  Qed.

  (* a canonical list of L digits is at least B^(L-1) *)
  Lemma canon_lower l : canon l -> l <> [] -> (B ^ N.of_nat (length l - 1) <= lsf_value B l)%N.
  Proof.
    induction l as [|d r IH]; intros Hc Hne; [contradiction|].
    destruct r as [|d' r'].
    - destruct Hc as [_ Hl]. simpl in *. change (B ^ 0)%N with 1%N. lia.
    - assert (Hr : canon (d' :: r')) by (eapply canon_tail; eauto; discriminate).
      specialize (IH Hr ltac:(discriminate)).
      cbn [lsf_value length] in *.
      replace (S (S (length r')) - 1)%nat with (S (length r')) by lia.
      replace (S (length r') - 1)%nat with (length r') in IH by lia.
      rewrite Nat2N.inj_succ, N.pow_succ_r'. nia.
  Qed.

  Lemma lsf_fixed_length j n : length (lsf_fixed B j n) = j.
  Proof. revert n. induction j as [|j IH]; intro n; simpl; [reflexivity | rewrite IH; reflexivity]. Qed.

  Lemma lsf_fixed_ok j n : digits_ok (lsf_fixed B j n).
  Proof.
    revert n. induction j as [|j IH]; intro n; simpl; constructor; [apply N.mod_lt; lia | apply IH].
  Qed.

  Lemma lsf_fixed_value j n : (n < B ^ N.of_nat j)%N -> lsf_value B (lsf_fixed B j n) = n.
  Proof.
    revert n. induction j as [|j IH]; intros n Hn.
    - simpl in *. change (B ^ 0)%N with 1%N in Hn. lia.
    - cbn [lsf_fixed lsf_value]. rewrite IH.
      + rewrite N.add_comm. symmetry. apply N.div_mod. lia.
      + rewrite Nat2N.inj_succ, N.pow_succ_r' in Hn. apply N.div_lt_upper_bound; lia.
  Qed.

  Lemma last_app_ne (a b : list N) d : b <> [] -> last (a ++ b) d = last b d.
  Proof.
    intro Hb. induction a as [|x a IH]; [reflexivity|].
    simpl. destruct (a ++ b) eqn:E; [|exact IH].
    apply app_eq_nil in E. destruct E; contradiction.
  Qed.

  (* the digits of  T·B^j + b  are the j digits of b followed by the digits of T *)
  Lemma lsf_digits_split f k j T b :
    (0 < T)%N -> (T < B ^ N.of_nat k)%N -> (b < B ^ N.of_nat j)%N ->
    (T * B ^ N.of_nat j + b < B ^ N.of_nat f)%N ->
    lsf_digits B f (T * B ^ N.of_nat j + b) = lsf_fixed B j b ++ lsf_digits B k T.
  Proof.
    intros HT HTk Hb Hf.
    assert (HdT : lsf_digits B k T <> []).
    { intro E. pose proof (lsf_value_digits k T HTk) as Hv. rewrite E in Hv. simpl in Hv. lia. }
    apply canon_unique.
    - apply lsf_digits_canon, Hf.
    - split.
      + apply Forall_app. split; [apply lsf_fixed_ok | apply lsf_digits_ok].
      + rewrite last_app_ne by exact HdT. apply lsf_digits_last, HTk.
    - rewrite lsf_value_digits by exact Hf.
      rewrite lsf_value_app, lsf_fixed_length, lsf_fixed_value by exact Hb.
      rewrite lsf_value_digits by exact HTk. lia.
  Qed.
End Radix.

(* ========================================================================================== *)
(* bytes as base-256 numbers                                                                   *)

Lemma be_to_N_acc_app acc a b : be_to_N_acc acc (a ++ b) = be_to_N_acc (be_to_N_acc acc a) b.
Proof. revert acc. induction a as [|x a IH]; intro acc; simpl; [reflexivity | apply IH]. Qed.

Lemma be_to_N_acc_shift acc l :
  be_to_N_acc acc l = (acc * 256 ^ N.of_nat (length l) + be_to_N l)%N.
Proof.
  unfold be_to_N. revert acc. induction l as [|x l IH]; intro acc.
  - simpl. change (256 ^ 0)%N with 1%N. lia.
  - cbn [be_to_N_acc length]. rewrite IH, (IH (0 * 256 + Byte.to_N x)%N).
    rewrite Nat2N.inj_succ, N.pow_succ_r'. lia.
Qed.

Lemma be_to_N_app a b : be_to_N (a ++ b) = (be_to_N a * 256 ^ N.of_nat (length b) + be_to_N b)%N.
Proof. unfold be_to_N at 1. rewrite be_to_N_acc_app, be_to_N_acc_shift. reflexivity. Qed.

Lemma be_to_N_lsf l : be_to_N l = lsf_value 256 (rev (map Byte.to_N l)).
Proof.
  induction l as [|x l IH]; [reflexivity|].
  change (x :: l) with ([x] ++ l). rewrite be_to_N_app, map_app, rev_app_distr.
  rewrite (lsf_value_app 256), rev_length, map_length, <- IH by lia.
  assert (E1 : be_to_N [x] = Byte.to_N x) by (unfold be_to_N; cbn [be_to_N_acc]; lia).
  assert (E2 : lsf_value 256 (rev (map Byte.to_N [x])) = Byte.to_N x) by (cbn [map rev app lsf_value]; lia).
  rewrite E1, E2. lia.
Qed.

Lemma bytes_digits_ok l : digits_ok 256 (rev (map Byte.to_N l)).
Proof.
  apply Forall_rev, Forall_forall. intros d Hd. apply in_map_iff in Hd.
  destruct Hd as [b [<- _]]. apply to_N_lt_256.
Qed.

Lemma be_to_N_lt l : (be_to_N l < 256 ^ N.of_nat (length l))%N.
Proof.
  rewrite be_to_N_lsf.
  pose proof (lsf_value_lt 256 ltac:(lia) _ (bytes_digits_ok l)) as H.
  rewrite rev_length, map_length in H. exact H.
Qed.

Lemma map_b8_to_N l : map b8 (map Byte.to_N l) = l.
Proof. induction l as [|x l IH]; simpl; [reflexivity | rewrite b8_to_N, IH; reflexivity]. Qed.

(* a byte string without leading zero byte is the minimal big-endian form of its number *)
Lemma min_be_be_to_N f l :
  (match l with x00 :: _ => False | _ => True end) ->
  (be_to_N l < 256 ^ N.of_nat f)%N ->
  min_be f (be_to_N l) = l.
Proof.
  intros Hhd Hf. unfold min_be.
  assert (E : lsf_digits 256 f (be_to_N l) = rev (map Byte.to_N l)).
  { apply (canon_unique 256 ltac:(lia)).
    - apply lsf_digits_canon; [lia | exact Hf].
    - split; [apply bytes_digits_ok|].
      destruct l as [|x l]; [simpl; discriminate|].
      cbn [map rev]. rewrite last_last.
      intro Hz. destruct x; simpl in Hz; try discriminate. exact Hhd.
    - rewrite lsf_value_digits by (try lia; exact Hf). apply be_to_N_lsf. }
  rewrite E, rev_involutive. apply map_b8_to_N.
Qed.

(* ========================================================================================== *)
(* the alphabet                                                                                *)

Lemma digit_char_roundtrip d : (d < 58)%N -> digit_of_char (char_of_digit d) = Some d.
Proof.
  intro Hd.
  assert (H : forallb (fun d => match digit_of_char (char_of_digit d) with Some d' => N.eqb d' d | None => false end)
                      (map N.of_nat (seq 0 58)) = true) by (vm_compute; reflexivity).
  rewrite forallb_forall in H.
  specialize (H d).
  assert (Hin : In d (map N.of_nat (seq 0 58))).
  { apply in_map_iff. exists (N.to_nat d). split; [lia|]. apply in_seq. lia. }
  specialize (H Hin). destruct (digit_of_char (char_of_digit d)) as [d'|]; [|discriminate].
  apply N.eqb_eq in H. subst. reflexivity.
Qed.

Lemma index_of_some c l i d : index_of c l i = Some d ->
  (i <= d)%N /\ nth_error l (N.to_nat (d - i)) = Some c.
Proof.
  revert i. induction l as [|x l IH]; intros i H; simpl in H; [discriminate|].
  destruct (byte_eqb c x) eqn:E.
  - injection H as <-. apply byte_eqb_spec in E. subst. split; [lia|].
    replace (i - i)%N with 0%N by lia. reflexivity.
  - apply IH in H. destruct H as [Hle Hn]. split; [lia|].
    replace (N.to_nat (d - i)) with (S (N.to_nat (d - (i + 1)))) by lia. exact Hn.
Qed.

Lemma char_digit_roundtrip c d : digit_of_char c = Some d -> (d < 58)%N /\ char_of_digit d = c.
Proof.
  intro H. unfold digit_of_char in H. apply index_of_some in H. destruct H as [_ Hn].
  rewrite N.sub_0_r in Hn.
  assert (Hlt : (N.to_nat d < length alphabet)%nat) by (apply nth_error_Some; rewrite Hn; discriminate).
  change (length alphabet) with 58%nat in Hlt. split; [lia|].
  unfold char_of_digit. apply nth_error_nth. exact Hn.
Qed.

Lemma char_not_ws d : (d < 58)%N -> ws_byte (char_of_digit d) = false.
Proof.
  intro Hd.
  assert (H : forallb (fun d => negb (ws_byte (char_of_digit d))) (map N.of_nat (seq 0 58)) = true)
    by (vm_compute; reflexivity).
  rewrite forallb_forall in H. specialize (H d).
  assert (Hin : In d (map N.of_nat (seq 0 58))).
  { apply in_map_iff. exists (N.to_nat d). split; [lia|]. apply in_seq. lia. }
  apply H in Hin. apply negb_true_iff in Hin. exact Hin.
Qed.

Lemma char_of_digit_one d : (d < 58)%N -> char_of_digit d = one_char -> d = 0%N.
Proof.
  intros Hd E. pose proof (digit_char_roundtrip d Hd) as H. rewrite E in H.
  vm_compute in H. injection H as <-. reflexivity.
Qed.

(* chars_value over most-significant-first text = lsf_value of the reversed digit list *)
Lemma chars_value_app acc a b :
  chars_value acc (a ++ b) = match chars_value acc a with Some x => chars_value x b | None => None end.
Proof.
  revert acc. induction a as [|c a IH]; intro acc; simpl; [reflexivity|].
  destruct (digit_of_char c); [apply IH | reflexivity].
Qed.

Lemma chars_value_digits acc l :
  digits_ok 58 l ->
  chars_value acc (map char_of_digit (rev l)) = Some (acc * 58 ^ N.of_nat (length l) + lsf_value 58 l)%N.
Proof.
  intro H. revert acc. induction H as [|d r Hd Hr IH]; intro acc.
  - simpl. change (58 ^ 0)%N with 1%N. f_equal. lia.
  - cbn [rev]. rewrite map_app, chars_value_app, IH. cbn [map chars_value].
    rewrite digit_char_roundtrip by exact Hd. cbn [length lsf_value].
    rewrite Nat2N.inj_succ, N.pow_succ_r'. f_equal. lia.
Qed.

(* ========================================================================================== *)
(* stripping                                                                                   *)

Lemma rstrip_no_ws s : Forall (fun c => ws_byte c = false) s -> rstrip_ws s = s.
Proof.
  induction 1 as [|c r Hc Hr IH]; [reflexivity|].
  cbn [rstrip_ws]. rewrite IH. destruct r; [rewrite Hc|]; reflexivity.
Qed.

Lemma lstrip_repeat c n s :
  (match s with x :: _ => x <> c | [] => True end) -> lstrip c (repeat c n ++ s) = s.
Proof.
  intro Hs. induction n as [|n IH]; simpl.
  - destruct s as [|x s]; [reflexivity|]. simpl.
    destruct (byte_eqb x c) eqn:E; [apply byte_eqb_spec in E; contradiction | reflexivity].
  - assert (E : byte_eqb c c = true) by (apply byte_eqb_spec; reflexivity). rewrite E. exact IH.
Qed.

Lemma lstrip_decompose c v : v = repeat c (length v - length (lstrip c v)) ++ lstrip c v.
Proof.
  induction v as [|x v IH]; [reflexivity|].
  cbn [lstrip]. destruct (byte_eqb x c) eqn:E.
  - apply byte_eqb_spec in E. subst x.
    assert (Hle : (length (lstrip c v) <= length v)%nat).
    { clear IH. induction v as [|y v IHv]; simpl; [lia|]. destruct (byte_eqb y c); simpl; lia. }
    replace (length (c :: v) - length (lstrip c v))%nat with (S (length v - length (lstrip c v))).
    + cbn [repeat app]. f_equal. exact IH.
    + cbn [length]. lia.
  - replace (length (x :: v) - length (x :: v))%nat with 0%nat by lia. reflexivity.
Qed.

Lemma lstrip_head c v : match lstrip c v with x :: _ => x <> c | [] => True end.
Proof.
  induction v as [|x v IH]; simpl; [exact I|].
  destruct (byte_eqb x c) eqn:E; [exact IH|].
  intro H. subst. assert (byte_eqb c c = true) by (apply byte_eqb_spec; reflexivity). congruence.
Qed.

(* ========================================================================================== *)
(* b58_enc / b58_dec                                                                           *)

Lemma pow256_le_pow58 n : (256 ^ N.of_nat n <= 58 ^ N.of_nat (2 * n))%N.
Proof.
  induction n as [|n IH].
  - simpl. change (256 ^ 0)%N with 1%N. change (58 ^ 0)%N with 1%N. lia.
  - replace (2 * S n)%nat with (S (S (2 * n))) by lia.
    rewrite !Nat2N.inj_succ, !N.pow_succ_r'. nia.
Qed.

Lemma pow58_le_pow256 n : (58 ^ N.of_nat n <= 256 ^ N.of_nat n)%N.
Proof. apply N.pow_le_mono_l. lia. Qed.

Lemma b58_of_N_chars f n : Forall (fun c => ws_byte c = false) (b58_of_N f n).
Proof.
  unfold b58_of_N. apply Forall_forall. intros c Hc. apply in_map_iff in Hc.
  destruct Hc as [d [<- Hd]]. apply in_rev in Hd.
  pose proof (lsf_digits_ok 58 ltac:(lia) f n) as Hok. unfold digits_ok in Hok.
  rewrite Forall_forall in Hok. apply char_not_ws, Hok, Hd.
Qed.

(* the first character of the expansion of a number is not "1" *)
Lemma b58_of_N_head f n : (n < 58 ^ N.of_nat f)%N ->
  match b58_of_N f n with x :: _ => x <> one_char | [] => True end.
Proof.
  intro Hf. unfold b58_of_N.
  pose proof (lsf_digits_canon 58 ltac:(lia) f n Hf) as [Hok Hl].
  remember (lsf_digits 58 f n) as l eqn:El. clear El.
  induction l as [|d r _] using rev_ind; [exact I|].
  rewrite rev_app_distr. cbn [rev app map].
  rewrite last_last in Hl. intro Hc.
  unfold digits_ok in Hok. apply Forall_app in Hok. destruct Hok as [_ Hd]. inversion Hd as [|? ? Hd' _]; subst.
  apply char_of_digit_one in Hc; [contradiction | exact Hd'].
Qed.

Theorem b58_dec_enc v : b58_dec (b58_enc v) = Some v.
Proof.
  unfold b58_enc, b58_dec.
  set (body := lstrip x00 v). set (z := (length v - length body)%nat).
  set (n := be_to_N body).
  assert (Hn : (n < 58 ^ N.of_nat (2 * length body))%N).
  { eapply N.lt_le_trans; [apply be_to_N_lt | apply pow256_le_pow58]. }
  set (digs := b58_of_N (2 * length body) n).
  assert (Hws : rstrip_ws (repeat one_char z ++ digs) = repeat one_char z ++ digs).
  { apply rstrip_no_ws, Forall_app. split; [|apply b58_of_N_chars].
    apply Forall_forall. intros c Hc. apply repeat_spec in Hc. subst. reflexivity. }
  rewrite Hws.
  assert (Hls : lstrip one_char (repeat one_char z ++ digs) = digs).
  { apply lstrip_repeat. apply b58_of_N_head, Hn. }
  rewrite Hls.
  assert (Hlen : (length (repeat one_char z ++ digs) - length digs = z)%nat).
  { rewrite app_length, repeat_length. lia. }
  rewrite Hlen.
  unfold digs at 1. unfold b58_of_N.
  rewrite chars_value_digits by (apply lsf_digits_ok; lia).
  rewrite lsf_value_digits by (try lia; exact Hn).
  rewrite N.mul_0_l, N.add_0_l. f_equal.
  unfold n at 1. rewrite min_be_be_to_N.
  - unfold z, body. symmetry. apply lstrip_decompose.
  - pose proof (lstrip_head x00 v) as Hh. fold body in Hh. destruct body as [|x b]; [exact I|].
    destruct x; try exact I. apply Hh. reflexivity.
  - (* fuel: the number is below 58^(#digits) <= 256^(#digits) *)
    fold n. unfold digs, b58_of_N. rewrite map_length, rev_length.
    eapply N.lt_le_trans; [|apply pow58_le_pow256].
    pose proof (lsf_value_lt 58 ltac:(lia) _ (lsf_digits_ok 58 ltac:(lia) (2 * length body) n)) as Hv.
    rewrite lsf_value_digits in Hv by (try lia; exact Hn). exact Hv.
Qed.

(* ========================================================================================== *)
(* prefixes                                                                                    *)

Lemma is_prefix_app p s : is_prefix p (p ++ s) = true.
Proof.
  induction p as [|x p IH]; [reflexivity|]. cbn [app is_prefix].
  rewrite IH. replace (byte_eqb x x) with true; [reflexivity|].
  symmetry. apply byte_eqb_spec. reflexivity.
Qed.

Lemma is_prefix_spec p s : is_prefix p s = true <-> exists r, s = p ++ r.
Proof.
  split.
  - revert s. induction p as [|x p IH]; intros s H.
    + exists s. reflexivity.
    + destruct s as [|y s]; [discriminate|]. cbn [is_prefix] in H.
      apply andb_true_iff in H. destruct H as [Hxy Hp]. apply byte_eqb_spec in Hxy. subst y.
      destruct (IH _ Hp) as [r ->]. exists r. reflexivity.
  - intros [r ->]. apply is_prefix_app.
Qed.

(* two prefixes of the same string are comparable *)
Lemma is_prefix_comparable a b s :
  is_prefix a s = true -> is_prefix b s = true -> is_prefix a b = true \/ is_prefix b a = true.
Proof.
  revert b s. induction a as [|x a IH]; intros b s Ha Hb; [left; reflexivity|].
  destruct b as [|y b]; [right; reflexivity|].
  destruct s as [|z s]; [discriminate|].
  cbn [is_prefix] in *. apply andb_true_iff in Ha, Hb. destruct Ha as [Hxz Ha], Hb as [Hyz Hb].
  apply byte_eqb_spec in Hxz, Hyz. subst.
  assert (E : byte_eqb z z = true) by (apply byte_eqb_spec; reflexivity). rewrite E.
  destruct (IH _ _ Ha Hb) as [H|H]; [left | right]; exact H.
Qed.

Lemma skipn_app_exact {A} (a b : list A) : skipn (length a) (a ++ b) = b.
Proof. induction a as [|x a IH]; [reflexivity | exact IH]. Qed.

Lemma firstn_app_exact {A} (a b : list A) : firstn (length a) (a ++ b) = a.
Proof. induction a as [|x a IH]; [reflexivity | simpl; rewrite IH; reflexivity]. Qed.

Lemma row_eqb_spec a b : row_eqb a b = true <-> a = b.
Proof.
  unfold row_eqb. destruct a as [t1 e1 b1 p1], b as [t2 e2 b2 p2]. cbn [tpre elen bpre plen].
  rewrite !andb_true_iff, !bytes_eqb_spec, !Nat.eqb_eq. split.
  - intros [[[-> ->] ->] ->]. reflexivity.
  - intro H. injection H as -> -> -> ->. auto.
Qed.

(* ========================================================================================== *)
(* the interval argument: every payload of a row gets the row's length and textual prefix     *)

Lemma row_ok_enc r p c :
  row_ok r = true -> length p = plen r -> length c = 4%nat ->
  length (b58_enc (bpre r ++ p ++ c)) = elen r /\ is_prefix (tpre r) (b58_enc (bpre r ++ p ++ c)) = true.
Proof.
  intros Hok Hp Hc. unfold row_ok in Hok.
  destruct (tpre_value r) as [T|] eqn:ET; [|discriminate].
  repeat (apply andb_true_iff in Hok; destruct Hok as [Hok ?]).
  rename H into Hhi, H0 into Hlo, H1 into Hb0, H2 into Htp, H3 into HTk, H4 into HT0, Hok into Hk.
  apply Nat.leb_le in Hk. apply N.ltb_lt in HT0, HTk. apply N.leb_le in Hlo, Hhi.
  apply bytes_eqb_spec in Htp.
  set (k := length (tpre r)) in *. set (j := (elen r - k)%nat) in *.
  set (b := be_to_N (bpre r)) in *.
  set (v := bpre r ++ p ++ c).
  (* no leading zero byte: nothing is stripped *)
  assert (Hstrip : lstrip x00 v = v).
  { unfold v. destruct (bpre r) as [|b0 bs]; [discriminate|].
    cbn [app lstrip]. destruct b0; try reflexivity. discriminate. }
  unfold b58_enc. rewrite Hstrip, Nat.sub_diag. cbn [repeat app].
  set (f := (2 * length v)%nat).
  set (n := be_to_N v).
  assert (Hlen_pc : length (p ++ c) = (plen r + 4)%nat) by (rewrite app_length; lia).
  assert (En : n = (b * 256 ^ N.of_nat (plen r + 4) + be_to_N (p ++ c))%N).
  { unfold n, v. rewrite be_to_N_app, Hlen_pc. reflexivity. }
  assert (Hx : (be_to_N (p ++ c) < 256 ^ N.of_nat (plen r + 4))%N).
  { rewrite <- Hlen_pc. apply be_to_N_lt. }
  assert (Hf : (n < 58 ^ N.of_nat f)%N).
  { unfold n, f. eapply N.lt_le_trans; [apply be_to_N_lt | apply pow256_le_pow58]. }
  set (P := (58 ^ N.of_nat j)%N) in *.
  assert (Hn1 : (T * P <= n)%N) by lia.
  assert (Hn2 : (n < (T + 1) * P)%N) by lia.
  set (y := (n - T * P)%N).
  assert (Ey : n = (T * P + y)%N) by (unfold y; lia).
  assert (Hy : (y < P)%N) by (unfold y; lia).
  assert (Hd : lsf_digits 58 f n = lsf_fixed 58 j y ++ lsf_digits 58 k T).
  { rewrite Ey. apply lsf_digits_split; lia. }
  assert (Es : b58_of_N f n = tpre r ++ map char_of_digit (rev (lsf_fixed 58 j y))).
  { unfold b58_of_N at 1. rewrite Hd, rev_app_distr, map_app.
    fold (b58_of_N k T). rewrite Htp. reflexivity. }
  rewrite Es. split.
  - rewrite app_length, map_length, rev_length, lsf_fixed_length. fold k. unfold j. lia.
  - apply is_prefix_app.
Qed.

(* ========================================================================================== *)
(* checksummed encoding and the typed functions                                                *)

Section Table.
  Variable sha256 : bytes -> bytes.
  Hypothesis sha256_len : forall x, length (sha256 x) = 32%nat.

  Lemma checksum_length x : length (checksum sha256 x) = 4%nat.
  Proof. unfold checksum. rewrite firstn_length, sha256_len. reflexivity. Qed.

  Lemma b58check_dec_enc v : b58check_dec sha256 (b58check_enc sha256 v) = Some v.
  Proof.
    unfold b58check_dec, b58check_enc. rewrite b58_dec_enc.
    rewrite app_length, checksum_length.
    replace (length v + 4 - 4)%nat with (length v) by lia.
    rewrite firstn_app_exact, skipn_app_exact.
    replace (bytes_eqb (checksum sha256 v) (checksum sha256 v)) with true; [reflexivity|].
    symmetry. apply bytes_eqb_spec. reflexivity.
  Qed.

  Variable t : list row.

  (* what a successful base58_encode returns *)
  Lemma encode_ok_inv p tp s :
    base58_encode sha256 t p tp = Ok s ->
    exists r, In r t /\ tpre r = tp /\ plen r = length p /\ s = b58check_enc sha256 (bpre r ++ p).
  Proof.
    unfold base58_encode, find_enc. intro H.
    destruct (find _ t) as [r|] eqn:E; [|discriminate]. injection H as <-.
    apply find_some in E. destruct E as [Hin Hpred].
    apply andb_true_iff in Hpred. destruct Hpred as [Hl Ht].
    apply Nat.eqb_eq in Hl. apply bytes_eqb_spec in Ht.
    exists r. repeat split; auto.
  Qed.

  (* it succeeds whenever the table has a row for (prefix, length) *)
  Lemma encode_total r p :
    In r t -> length p = plen r -> exists s, base58_encode sha256 t p (tpre r) = Ok s.
  Proof.
    intros Hin Hp. unfold base58_encode, find_enc.
    destruct (find _ t) as [r'|] eqn:E; [eexists; reflexivity|].
    exfalso. eapply find_none in E; [|exact Hin]. cbn beta in E.
    rewrite Hp, Nat.eqb_refl in E.
    replace (bytes_eqb (tpre r) (tpre r)) with true in E; [discriminate|].
    symmetry. apply bytes_eqb_spec. reflexivity.
  Qed.

  Hypothesis Hrows : forallb row_ok t = true.
  Hypothesis Hunamb : table_unamb t = true.

  Lemma row_ok_in r : In r t -> row_ok r = true.
  Proof. intro H. rewrite forallb_forall in Hrows. apply Hrows, H. Qed.

  (* a string matches at most one row *)
  Lemma find_dec_unique r s :
    In r t -> length s = elen r -> is_prefix (tpre r) s = true -> find_dec t s = Some r.
  Proof.
    intros Hin Hl Hp. unfold find_dec.
    destruct (find _ t) as [r'|] eqn:E.
    - apply find_some in E. destruct E as [Hin' Hpred].
      apply andb_true_iff in Hpred. destruct Hpred as [Hl' Hp']. apply Nat.eqb_eq in Hl'.
      unfold table_unamb in Hunamb. rewrite forallb_forall in Hunamb.
      specialize (Hunamb r' Hin'). rewrite forallb_forall in Hunamb. specialize (Hunamb r Hin).
      assert (Hc : rows_compatible r' r = true).
      { unfold rows_compatible. apply andb_true_iff. split.
        - apply Nat.eqb_eq. lia.
        - apply orb_true_iff. eapply is_prefix_comparable; eauto. }
      rewrite Hc in Hunamb. cbn [negb orb] in Hunamb. apply row_eqb_spec in Hunamb. subst. reflexivity.
    - exfalso. eapply find_none in E; [|exact Hin]. cbn beta in E.
      rewrite Hl, Nat.eqb_refl, Hp in E. discriminate.
  Qed.

  Lemma encode_prefix_and_length p tp s :
    base58_encode sha256 t p tp = Ok s ->
    exists r, In r t /\ tpre r = tp /\ plen r = length p /\
              length s = elen r /\ is_prefix tp s = true.
  Proof.
    intro H. apply encode_ok_inv in H. destruct H as [r [Hin [Ht [Hp ->]]]].
    exists r. repeat split; auto.
    - unfold b58check_enc. rewrite <- app_assoc.
      apply row_ok_enc; [apply row_ok_in, Hin | auto | apply checksum_length].
    - subst tp. unfold b58check_enc. rewrite <- app_assoc.
      apply row_ok_enc; [apply row_ok_in, Hin | auto | apply checksum_length].
  Qed.

  Lemma decode_encode p tp s :
    base58_encode sha256 t p tp = Ok s -> base58_decode sha256 t s = Ok p.
  Proof.
    intro H. pose proof (encode_prefix_and_length _ _ _ H) as [r0 [_ [_ [_ _]]]].
    apply encode_ok_inv in H. destruct H as [r [Hin [Ht [Hp Es]]]].
    assert (Hlp : length s = elen r /\ is_prefix (tpre r) s = true).
    { subst s. unfold b58check_enc. rewrite <- app_assoc.
      apply row_ok_enc; [apply row_ok_in, Hin | auto | apply checksum_length]. }
    destruct Hlp as [Hl Hpre].
    unfold base58_decode. rewrite (find_dec_unique r s Hin Hl Hpre).
    subst s. rewrite b58check_dec_enc, is_prefix_app, skipn_app_exact. reflexivity.
  Qed.

  (* ---- rejections ---- *)

  Lemma decode_reject_no_row s :
    (forall r, In r t -> length s <> elen r \/ is_prefix (tpre r) s = false) ->
    base58_decode sha256 t s = Reject.
  Proof.
    intro H. unfold base58_decode, find_dec.
    destruct (find _ t) as [r|] eqn:E; [|reflexivity].
    apply find_some in E. destruct E as [Hin Hpred].
    apply andb_true_iff in Hpred. destruct Hpred as [Hl Hp]. apply Nat.eqb_eq in Hl.
    destruct (H r Hin) as [Hn|Hn]; [contradiction | congruence].
  Qed.

  Lemma decode_reject_checksum s body chk :
    b58_dec s = Some (body ++ chk) -> length chk = 4%nat -> chk <> checksum sha256 body ->
    base58_decode sha256 t s = Reject.
  Proof.
    intros Hd Hc Hne. unfold base58_decode.
    destruct (find_dec t s) as [r|]; [|reflexivity].
    unfold b58check_dec. rewrite Hd, app_length, Hc.
    replace (length body + 4 - 4)%nat with (length body) by lia.
    rewrite firstn_app_exact, skipn_app_exact.
    destruct (bytes_eqb chk (checksum sha256 body)) eqn:E; [|reflexivity].
    apply bytes_eqb_spec in E. contradiction.
  Qed.

  Lemma decode_reject_bad_char s : b58_dec s = None -> base58_decode sha256 t s = Reject.
  Proof.
    intro H. unfold base58_decode, b58check_dec. rewrite H.
    destruct (find_dec t s); reflexivity.
  Qed.

  Lemma decode_reject_binary_prefix s r d :
    find_dec t s = Some r -> b58check_dec sha256 s = Some d -> is_prefix (bpre r) d = false ->
    base58_decode sha256 t s = Reject.
  Proof. intros Hf Hd Hp. unfold base58_decode. rewrite Hf, Hd, Hp. reflexivity. Qed.

  (* what an accepted string looks like *)
  Lemma decode_ok_inv s p :
    base58_decode sha256 t s = Ok p ->
    exists r, In r t /\ length s = elen r /\ is_prefix (tpre r) s = true /\
              b58check_dec sha256 s = Some (bpre r ++ p).
  Proof.
    unfold base58_decode. intro H.
    destruct (find_dec t s) as [r|] eqn:E; [|discriminate].
    destruct (b58check_dec sha256 s) as [d|] eqn:Ed; [|discriminate].
    destruct (is_prefix (bpre r) d) eqn:Ep; [|discriminate]. injection H as <-.
    unfold find_dec in E. apply find_some in E. destruct E as [Hin Hpred].
    apply andb_true_iff in Hpred. destruct Hpred as [Hl Hp]. apply Nat.eqb_eq in Hl.
    exists r. repeat split; auto.
    apply is_prefix_spec in Ep. destruct Ep as [q ->]. rewrite skipn_app_exact. reflexivity.
  Qed.

  (* unambiguity: a string valid for two rows of the table — the rows are the same *)
  Definition valid_for (r : row) (s : bytes) : Prop :=
    length s = elen r /\ is_prefix (tpre r) s = true /\
    exists d, b58check_dec sha256 s = Some d /\ is_prefix (bpre r) d = true.

  Lemma valid_unambiguous r1 r2 s :
    In r1 t -> In r2 t -> valid_for r1 s -> valid_for r2 s -> r1 = r2.
  Proof.
    intros H1 H2 [Hl1 [Hp1 _]] [Hl2 [Hp2 _]].
    pose proof (find_dec_unique r1 s H1 Hl1 Hp1) as E1.
    pose proof (find_dec_unique r2 s H2 Hl2 Hp2) as E2. congruence.
  Qed.

  Lemma decode_valid_iff s :
    (exists p, base58_decode sha256 t s = Ok p) <-> (exists r, In r t /\ valid_for r s).
  Proof.
    split.
    - intros [p H]. apply decode_ok_inv in H. destruct H as [r [Hin [Hl [Hp Hd]]]].
      exists r. split; [exact Hin|]. repeat split; auto.
      exists (bpre r ++ p). split; [exact Hd | apply is_prefix_app].
    - intros [r [Hin [Hl [Hp [d [Hd Hb]]]]]].
      unfold base58_decode. rewrite (find_dec_unique r s Hin Hl Hp), Hd, Hb. eexists. reflexivity.
  Qed.
End Table.

(* ========================================================================================== *)
(* closed forms used by Properties/C09.v and by the file generated from /repo's table          *)

Definition sha_ok (sha256 : bytes -> bytes) : Prop := forall x, length (sha256 x) = 32%nat.

Lemma table_ok_split t : table_ok t = true -> forallb row_ok t = true /\ table_unamb t = true.
Proof. unfold table_ok. intro H. apply andb_true_iff in H. exact H. Qed.

Lemma table43_ok : table_ok table43 = true.
Proof. vm_compute. reflexivity. Qed.

Lemma any_prefix_and_length sha256 t : sha_ok sha256 -> table_ok t = true ->
  forall p tp s, base58_encode sha256 t p tp = Ok s ->
  exists r, In r t /\ tpre r = tp /\ plen r = length p /\ length s = elen r /\ is_prefix tp s = true.
Proof.
  intros Hs Ht. apply table_ok_split in Ht. destruct Ht as [Hr Hu].
  intros p tp s. apply encode_prefix_and_length; assumption.
Qed.

Lemma any_roundtrip sha256 t : sha_ok sha256 -> table_ok t = true ->
  forall p tp s, base58_encode sha256 t p tp = Ok s -> base58_decode sha256 t s = Ok p.
Proof.
  intros Hs Ht. apply table_ok_split in Ht. destruct Ht as [Hr Hu].
  intros p tp s. apply decode_encode; assumption.
Qed.

Lemma any_rejects sha256 t :
  (forall s, (forall r, In r t -> length s <> elen r \/ is_prefix (tpre r) s = false) ->
             base58_decode sha256 t s = Reject) /\
  (forall s body chk, b58_dec s = Some (body ++ chk) -> length chk = 4%nat ->
             chk <> checksum sha256 body -> base58_decode sha256 t s = Reject) /\
  (forall s, b58_dec s = None -> base58_decode sha256 t s = Reject) /\
  (forall s r d, find_dec t s = Some r -> b58check_dec sha256 s = Some d ->
             is_prefix (bpre r) d = false -> base58_decode sha256 t s = Reject).
Proof.
  repeat split.
  - apply decode_reject_no_row.
  - apply decode_reject_checksum.
  - apply decode_reject_bad_char.
  - apply decode_reject_binary_prefix.
Qed.

Lemma any_unambiguous sha256 t : table_ok t = true ->
  forall r1 r2 s, In r1 t -> In r2 t -> valid_for sha256 r1 s -> valid_for sha256 r2 s -> r1 = r2.
Proof.
  intro Ht. apply table_ok_split in Ht. destruct Ht as [_ Hu].
  intros r1 r2 s. apply valid_unambiguous. exact Hu.
Qed.

Lemma any_decode_valid_iff sha256 t : table_ok t = true ->
  forall s, (exists p, base58_decode sha256 t s = Ok p) <-> (exists r, In r t /\ valid_for sha256 r s).
Proof.
  intro Ht. apply table_ok_split in Ht. destruct Ht as [_ Hu].
  intro s. apply decode_valid_iff. exact Hu.
Qed.
