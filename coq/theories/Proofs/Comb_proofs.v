(* Proofs/Comb_proofs.v — every comb operation of Michelson/Comb.v is natural in the annotations:
   re-annotating the inputs (in particular erasing all annotations) and then operating is the same as
   operating and then re-annotating. *)
From Coq Require Import List ZArith Bool Arith Lia.
From Coq.Strings Require Import Byte.
From PV Require Import Base.Bytes Base.Result Codec.Micheline Michelson.Comb.
Import ListNotations.

Section Nat.
Context {A B : Type} (f : A -> B) (d : A).
Notation g := (gmap f).

Lemma is_pair_gmap : forall v, is_pair (g v) = is_pair v.
Proof. destruct v; reflexivity. Qed.

Lemma leaves_of_gmap : forall v, leaves_of (g v) = map g (leaves_of v).
Proof. induction v; try reflexivity. simpl. rewrite IHv2. reflexivity. Qed.

Lemma nodes_of_gmap : forall v, nodes_of (g v) = map g (nodes_of v).
Proof. induction v; try reflexivity. simpl. rewrite IHv2. reflexivity. Qed.

Lemma unpairn_gmap : forall v c, unpairn c (g v) = map g (unpairn c v).
Proof.
  induction v as [| | | | |a x IHx y IHy| | | | |]; intro c; try reflexivity.
  change (g (GPair a x y)) with (GPair (f a) (g x) (g y)).
  destruct c as [|c]; [reflexivity|].
  change (unpairn (S c) (GPair (f a) (g x) (g y))) with (g x :: (if is_pair (g y) then unpairn c (g y) else [g y])).
  change (unpairn (S c) (GPair a x y)) with (x :: (if is_pair y then unpairn c y else [y])).
  rewrite is_pair_gmap. destruct (is_pair y); [rewrite IHy|]; reflexivity.
Qed.

Lemma from_comb_gmap : forall l, from_comb (f d) (map g l) = option_map g (from_comb d l).
Proof.
  induction l as [|x l IH]; [reflexivity|].
  destruct l as [|y l]; [reflexivity|].
  destruct l as [|z l]; [reflexivity|].
  change (from_comb (f d) (map g (x :: y :: z :: l)))
    with (match from_comb (f d) (map g (y :: z :: l)) with Some c => Some (GPair (f d) (g x) c) | None => None end).
  change (from_comb d (x :: y :: z :: l))
    with (match from_comb d (y :: z :: l) with Some c => Some (GPair d x c) | None => None end).
  rewrite IH. destruct (from_comb d (y :: z :: l)); reflexivity.
Qed.

Lemma access_comb_gmap : forall n v, access_comb n (g v) = option_map g (access_comb n v).
Proof. intros. unfold access_comb. rewrite nodes_of_gmap. apply nth_error_map. Qed.

Lemma replace_nth_gmap : forall l i e, replace_nth i (g e) (map g l) = map g (replace_nth i e l).
Proof. induction l as [|x l IH]; intros [|i] e; simpl; try reflexivity. rewrite IH. reflexivity. Qed.

Lemma update_comb_gmap : forall n e v, update_comb (f d) n (g e) (g v) = option_map g (update_comb d n e v).
Proof.
  intros. unfold update_comb. destruct (n =? 0); [reflexivity|].
  rewrite !leaves_of_gmap. destruct (Nat.odd n).
  - rewrite replace_nth_gmap. apply from_comb_gmap.
  - rewrite firstn_map, <- map_app. apply from_comb_gmap.
Qed.

Lemma to_mich_pair : forall m a (x y : gval A),
  to_mich m (GPair a x y) =
  match m with
  | LegacyOptimized => NPrim P_Pair [to_mich m x; to_mich m y] []
  | _ => comb_node m (to_mich m x :: spine_of m y)
  end.
Proof.
  intros m a x y.
  assert (H : forall w, (fix spine (w : gval A) : list node :=
                           match w with
                           | GPair _ x' y' => to_mich m x' :: spine y'
                           | _ => [to_mich m w]
                           end) w = spine_of m w).
  { induction w; try reflexivity. simpl. rewrite IHw2. reflexivity. }
  destruct m; simpl; try rewrite H; reflexivity.
Qed.

Lemma spine_of_leaves : forall m (v : gval A), spine_of m v = map (to_mich m) (leaves_of v).
Proof. induction v; try reflexivity. simpl. rewrite IHv2. reflexivity. Qed.

Lemma vcmp_gmap : forall a b, vcmp (g a) (g b) = vcmp a b.
Proof.
  induction a as [| | | | |a0 x IHx y IHy| | | | |]; intro w; destruct w; simpl; try reflexivity; auto.
  rewrite IHx, IHy. reflexivity.
Qed.

Lemma ty_shape_tmap : forall t u, ty_shape_eqb (tmap f t) (tmap f u) = ty_shape_eqb t u.
Proof.
  induction t as [a p|a l IHl r IHr|a x IHx|a l IHl r IHr]; intro u; destruct u; simpl; try reflexivity; auto.
  - rewrite IHl, IHr. reflexivity.
  - rewrite IHl, IHr. reflexivity.
Qed.

Lemma type_of_gmap : forall v, type_of (g v) = tmap f (type_of v).
Proof.
  induction v as [| | | | |a x IHx y IHy|a t|a w IHw|a w IHw rt|a lt w IHw|]; simpl; try reflexivity.
  - rewrite IHx, IHy. reflexivity.
  - rewrite IHw. reflexivity.
  - rewrite IHw. reflexivity.
  - rewrite IHw. reflexivity.
Qed.

Lemma compare_checked_gmap : forall a b, compare_checked (g a) (g b) = compare_checked a b.
Proof.
  intros a b. unfold compare_checked. rewrite !type_of_gmap, ty_shape_tmap, vcmp_gmap. reflexivity.
Qed.
End Nat.

Section Nat2.
Context {A B : Type} (f : A -> B) (d : A).
Notation g := (gmap f).

Lemma to_mich_spine_gmap : forall m v,
  to_mich m (g v) = to_mich m v /\ spine_of m (g v) = spine_of m v.
Proof.
  induction v; try (split; reflexivity).
  - destruct IHv1 as [H1 _]. destruct IHv2 as [H2 S2].
    assert (Hm : to_mich m (g (GPair a v1 v2)) = to_mich m (GPair a v1 v2)).
    { change (g (GPair a v1 v2)) with (GPair (f a) (g v1) (g v2)).
      rewrite !to_mich_pair, H1, H2, S2. reflexivity. }
    split; [exact Hm|].
    change (g (GPair a v1 v2)) with (GPair (f a) (g v1) (g v2)).
    simpl spine_of. rewrite H1, S2. reflexivity.
  - destruct IHv as [H _]. split; simpl; rewrite H; reflexivity.
  - destruct IHv as [H _]. split; simpl; rewrite H; reflexivity.
  - destruct IHv as [H _]. split; simpl; rewrite H; reflexivity.
Qed.

Lemma to_mich_gmap : forall m v, to_mich m (g v) = to_mich m v.
Proof. intros. apply to_mich_spine_gmap. Qed.

Lemma read_prim_gmap : forall a p n, read_prim (f a) p n = option_map g (read_prim a p n).
Proof.
  intros a p n. unfold read_prim.
  repeat match goal with |- context [if byte_eqb p ?t then _ else _] => destruct (byte_eqb p t) end;
    try reflexivity; destruct n as [z|s|b|q args an|items]; try reflexivity.
  - destruct (z <? 0)%Z; reflexivity.
  - destruct ((z <? 0)%Z || (9223372036854775807 <? z)%Z); reflexivity.
  - destruct args; [|reflexivity]. destruct (byte_eqb q P_True); [reflexivity|]. destruct (byte_eqb q P_False); reflexivity.
  - destruct args; [|reflexivity]. destruct (byte_eqb q P_Unit); reflexivity.
Qed.

Lemma read_gmap : forall t n, read (tmap f t) n = option_map g (read t n).
Proof.
  induction t as [a p|a l IHl r IHr|a u IHu|a l IHl r IHr]; intro n.
  - apply read_prim_gmap.
  - simpl. destruct (pair_args n) as [[|x [|y [|z rest]]]|]; try reflexivity.
    + rewrite IHl, IHr. destruct (read l x) as [vx|]; [|reflexivity]. destruct (read r y) as [vy|]; reflexivity.
    + rewrite IHl, IHr. destruct (read l x) as [vx|]; [|reflexivity].
      destruct (read r (NSeq (y :: z :: rest))) as [vy|]; reflexivity.
  - simpl. destruct n as [z|s|b|q args an|items]; try reflexivity.
    destruct args as [|x [|y args]]; try reflexivity.
    + destruct (byte_eqb q P_None); reflexivity.
    + destruct (byte_eqb q P_Some); [|reflexivity]. rewrite IHu. destruct (read u x) as [vx|]; reflexivity.
  - simpl. destruct n as [z|s|b|q args an|items]; try reflexivity.
    destruct args as [|x [|y args]]; try reflexivity.
    destruct (byte_eqb q P_Left).
    + rewrite IHl. destruct (read l x) as [vx|]; reflexivity.
    + destruct (byte_eqb q P_Right); [|reflexivity]. rewrite IHr. destruct (read r x) as [vx|]; reflexivity.
Qed.

Lemma step_gmap : forall i s,
  step (f d) (imap f i) (map g s) = rmap (map g) (step d i s).
Proof.
  intros i s. destruct i.
  - reflexivity.
  - simpl. rewrite read_gmap. destruct (read t lit); reflexivity.
  - destruct s as [|v s]; [reflexivity|]. destruct v; try reflexivity.
    simpl. rewrite read_gmap. destruct (read t m); reflexivity.
  - destruct s as [|v s]; [reflexivity|]. destruct v; try reflexivity.
    change (map g (GPair a v1 v2 :: s)) with (g (GPair a v1 v2) :: map g s).
    change (step (f d) (imap f (IGet n)) (g (GPair a v1 v2) :: map g s))
      with (match access_comb n (g (GPair a v1 v2)) with Some r => Ok (r :: map g s) | None => Reject end).
    rewrite access_comb_gmap.
    change (step d (IGet n) (GPair a v1 v2 :: s))
      with (match access_comb n (GPair a v1 v2) with Some r => Ok (r :: s) | None => Reject end).
    destruct (access_comb n (GPair a v1 v2)); reflexivity.
  - destruct s as [|e s]; [reflexivity|]. destruct s as [|v s]; [destruct e; reflexivity|].
    destruct v; try (destruct e; reflexivity).
    change (map g (e :: GPair a v1 v2 :: s)) with (g e :: g (GPair a v1 v2) :: map g s).
    change (step (f d) (imap f (IUpdate n)) (g e :: g (GPair a v1 v2) :: map g s))
      with (match update_comb (f d) n (g e) (g (GPair a v1 v2)) with Some r => Ok (r :: map g s) | None => Reject end).
    rewrite update_comb_gmap.
    change (step d (IUpdate n) (e :: GPair a v1 v2 :: s))
      with (match update_comb d n e (GPair a v1 v2) with Some r => Ok (r :: s) | None => Reject end).
    destruct (update_comb d n e (GPair a v1 v2)); reflexivity.
  - simpl. rewrite map_length. destruct ((n <? 2) || (length s <? n)); [reflexivity|].
    rewrite firstn_map, from_comb_gmap. destruct (from_comb d (firstn n s)); simpl; [rewrite skipn_map|]; reflexivity.
  - destruct s as [|v s]; [reflexivity|]. destruct v; try reflexivity.
    change (map g (GPair a v1 v2 :: s)) with (g (GPair a v1 v2) :: map g s).
    change (step (f d) (imap f (IUnpairN n)) (g (GPair a v1 v2) :: map g s))
      with (if n <? 2 then Reject else Ok (unpairn (n - 2) (g (GPair a v1 v2)) ++ map g s)).
    change (step d (IUnpairN n) (GPair a v1 v2 :: s))
      with (if n <? 2 then Reject else Ok (unpairn (n - 2) (GPair a v1 v2) ++ s)).
    destruct (n <? 2); [reflexivity|]. rewrite unpairn_gmap. simpl. rewrite map_app. reflexivity.
  - destruct s as [|v s]; [reflexivity|]. destruct v; reflexivity.
  - destruct s as [|v s]; [reflexivity|]. destruct v; reflexivity.
  - destruct s as [|x [|y s]]; reflexivity.
  - destruct s as [|v s]; [reflexivity|]. destruct v; reflexivity.
  - destruct s as [|x [|y s]]; try reflexivity.
    simpl. rewrite compare_checked_gmap. destruct (compare_checked x y); reflexivity.
  - destruct s as [|v s]; [reflexivity|]. simpl. rewrite to_mich_gmap. reflexivity.
  - destruct s as [|v s]; reflexivity.
  - destruct s as [|x [|y s]]; reflexivity.
  - destruct s as [|v s]; reflexivity.
  - destruct s as [|v s]; reflexivity.
  - reflexivity.
  - destruct s as [|v s]; reflexivity.
  - destruct s as [|v s]; reflexivity.
  - reflexivity.
  - destruct s as [|v s]; [reflexivity|]. destruct v; try reflexivity.
    simpl. destruct (byte_eqb p T_int); reflexivity.
  - reflexivity.
  - reflexivity.
  - reflexivity.
  - reflexivity.
  - reflexivity.
  - reflexivity.
Qed.

Lemma run_gmap : forall i s,
  run (f d) (imap f i) (map g s) = rmap (map g) (run d i s).
Proof.
  induction i as [ | | | | | | | | | | | | | | | | | | | | | | x IHx y IHy | | x IHx y IHy | x IHx y IHy | x IHx y IHy | n x IHx ]; intro s;
    try (match goal with |- run _ (imap f ?i) _ = _ => exact (step_gmap i s) end).
  - simpl. rewrite IHx. destruct (run d x s); simpl; [apply IHy | reflexivity].
  - reflexivity.
  - destruct s as [|v s]; [reflexivity|]. destruct v; try reflexivity.
    simpl. destruct b; [apply IHx | apply IHy].
  - destruct s as [|v s]; [reflexivity|]. destruct v; try reflexivity.
    + apply IHx.
    + apply (IHy (v :: s)).
  - destruct s as [|v s]; [reflexivity|]. destruct v; try reflexivity.
    + apply (IHx (v :: s)).
    + apply (IHy (v :: s)).
  - simpl. rewrite map_length. destruct (length s <? n); [reflexivity|].
    rewrite skipn_map, IHx. destruct (run d x (skipn n s)); simpl; [|reflexivity].
    rewrite firstn_map, map_app. reflexivity.
Qed.

Lemma exec_gmap : forall p s,
  exec (f d) (map (imap f) p) (map g s) = rmap (map g) (exec d p s).
Proof.
  induction p as [|i p IH]; intro s; [reflexivity|].
  simpl. rewrite run_gmap. destruct (run d i s); simpl; [apply IH | reflexivity].
Qed.
End Nat2.

(* ---- erasure ------------------------------------------------------------------------------------ *)
Definition er : ann -> unit := fun _ => tt.

Lemma exec_erase : forall p s,
  exec tt (map (imap er) p) (map erase s) = rmap (map erase) (exec no_ann p s).
Proof. intros. apply (exec_gmap er no_ann). Qed.

Lemma exec_twins : forall p p' s s',
  map (imap er) p = map (imap er) p' -> map erase s = map erase s' ->
  rmap (map erase) (exec no_ann p s) = rmap (map erase) (exec no_ann p' s').
Proof. intros p p' s s' Hp Hs. rewrite <- !exec_erase, Hp, Hs. reflexivity. Qed.

Lemma pack_shape : forall {A} (a : A) (x y : gval A),
  to_mich Optimized (GPair a x y) =
  comb_node Optimized (map (to_mich Optimized) (leaves_of (GPair a x y))).
Proof. intros. rewrite to_mich_pair, spine_of_leaves. reflexivity. Qed.

Lemma comb_node_cases : forall a b c e l,
  comb_node Optimized [a; b] = NPrim P_Pair [a; b] [] /\
  comb_node Optimized [a; b; c] = NPrim P_Pair [a; NPrim P_Pair [b; c] []] [] /\
  comb_node Optimized (a :: b :: c :: e :: l) = NSeq (a :: b :: c :: e :: l).
Proof. intros. repeat split. Qed.
