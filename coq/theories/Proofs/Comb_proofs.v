(* Proofs/Comb_proofs.v — every comb operation of Michelson/Comb.v is natural in the annotations:
   re-annotating the inputs (in particular erasing all annotations) and then operating is the same as
   operating and then re-annotating. *)
From Coq Require Import List ZArith Bool Arith Lia.
From Coq.Strings Require Import Byte.
From PV Require Import Base.Bytes Base.Result Codec.Micheline Michelson.Comb.
Import ListNotations.

Section Nat.
Context {A B : Type} (f : A -> B) (d : A).
Notation g := (gmap f).

Lemma is_pair_gmap : forall v, is_pair (g v) = is_pair v.
Proof. destruct v; reflexivity. Qed.

Lemma leaves_of_gmap : forall v, leaves_of (g v) = map g (leaves_of v).
Proof.
  induction v as [| | | | |a x IHx y IHy| | | | | | | |]; try reflexivity.
  change (g (GPair a x y)) with (GPair (f a) (g x) (g y)). cbn [leaves_of map]. rewrite IHy. reflexivity.
Qed.

Lemma nodes_of_gmap : forall v, nodes_of (g v) = map g (nodes_of v).
Proof.
  induction v as [| | | | |a x IHx y IHy| | | | | | | |]; try reflexivity.
  change (g (GPair a x y)) with (GPair (f a) (g x) (g y)). cbn [nodes_of map]. rewrite IHy. reflexivity.
Qed.

Lemma unpairn_gmap : forall v c, unpairn c (g v) = map g (unpairn c v).
Proof.
  induction v as [| | | | |a x IHx y IHy| | | | | | | |]; intro c; try reflexivity.
  change (g (GPair a x y)) with (GPair (f a) (g x) (g y)).
  destruct c as [|c]; [reflexivity|].
  change (unpairn (S c) (GPair (f a) (g x) (g y))) with (g x :: (if is_pair (g y) then unpairn c (g y) else [g y])).
  change (unpairn (S c) (GPair a x y)) with (x :: (if is_pair y then unpairn c y else [y])).
  rewrite is_pair_gmap. destruct (is_pair y); [rewrite IHy|]; reflexivity.
Qed.

Lemma from_comb_gmap : forall l, from_comb (f d) (map g l) = option_map g (from_comb d l).
Proof.
  induction l as [|x l IH]; [reflexivity|].
  destruct l as [|y l]; [reflexivity|].
  destruct l as [|z l]; [reflexivity|].
  change (from_comb (f d) (map g (x :: y :: z :: l)))
    with (match from_comb (f d) (map g (y :: z :: l)) with Some c => Some (GPair (f d) (g x) c) | None => None end).
  change (from_comb d (x :: y :: z :: l))
    with (match from_comb d (y :: z :: l) with Some c => Some (GPair d x c) | None => None end).
  rewrite IH. destruct (from_comb d (y :: z :: l)); reflexivity.
Qed.

Lemma access_comb_gmap : forall n v, access_comb n (g v) = option_map g (access_comb n v).
Proof. intros. unfold access_comb. rewrite nodes_of_gmap. apply nth_error_map. Qed.

Lemma replace_nth_gmap : forall l i e, replace_nth i (g e) (map g l) = map g (replace_nth i e l).
Proof. induction l as [|x l IH]; intros [|i] e; simpl; try reflexivity. rewrite IH. reflexivity. Qed.

Lemma update_comb_gmap : forall n e v, update_comb (f d) n (g e) (g v) = option_map g (update_comb d n e v).
Proof.
  intros. unfold update_comb. destruct (n =? 0); [reflexivity|].
  rewrite !leaves_of_gmap. destruct (Nat.odd n).
  - rewrite replace_nth_gmap. apply from_comb_gmap.
  - rewrite firstn_map, <- map_app. apply from_comb_gmap.
Qed.

Lemma to_mich_pair : forall m a (x y : gval A),
  to_mich m (GPair a x y) =
  match m with
  | LegacyOptimized => NPrim P_Pair [to_mich m x; to_mich m y] []
  | _ => comb_node m (to_mich m x :: spine_of m y)
  end.
Proof.
  intros m a x y.
  assert (H : forall w, (fix spine (w : gval A) : list node :=
                           match w with
                           | GPair _ x' y' => to_mich m x' :: spine y'
                           | _ => [to_mich m w]
                           end) w = spine_of m w).
  { induction w; try reflexivity. simpl. rewrite IHw2. reflexivity. }
  destruct m; simpl; try rewrite H; reflexivity.
Qed.

Lemma spine_of_leaves : forall m (v : gval A), spine_of m v = map (to_mich m) (leaves_of v).
Proof. induction v; try reflexivity. simpl. rewrite IHv2. reflexivity. Qed.

Lemma vcmp_gmap : forall a b, vcmp (g a) (g b) = vcmp a b.
Proof.
  induction a as [| | | | |a0 x IHx y IHy| | | | | | | |]; intro w; destruct w; simpl; try reflexivity; auto.
  rewrite IHx, IHy. reflexivity.
Qed.

Lemma ty_shape_tmap : forall t u, ty_shape_eqb (tmap f t) (tmap f u) = ty_shape_eqb t u.
Proof.
  induction t as [a p|a l IHl r IHr|a x IHx|a l IHl r IHr|a x IHx|a l IHl r IHr]; intro u; destruct u; simpl; try reflexivity; auto.
  - rewrite IHl, IHr. reflexivity.
  - rewrite IHl, IHr. reflexivity.
  - rewrite IHl, IHr. reflexivity.
Qed.

Lemma type_of_gmap : forall v, type_of (g v) = tmap f (type_of v).
Proof.
  induction v as [| | | | |a x IHx y IHy|a t|a w IHw|a w IHw rt|a lt w IHw| | | |]; cbn; try reflexivity.
  - rewrite IHx, IHy. reflexivity.
  - rewrite IHw. reflexivity.
  - rewrite IHw. reflexivity.
  - rewrite IHw. reflexivity.
Qed.

Lemma compare_checked_gmap : forall a b, compare_checked (g a) (g b) = compare_checked a b.
Proof.
  intros a b. unfold compare_checked. rewrite !type_of_gmap, ty_shape_tmap, vcmp_gmap. reflexivity.
Qed.

Lemma strip_tmap : forall t, strip (f d) (tmap f t) = tmap f (strip d t).
Proof.
  unfold strip. induction t; simpl; congruence.
Qed.

Lemma anon_tmap : forall t, anon (f d) (tmap f t) = tmap f (anon d t).
Proof. destruct t; reflexivity. Qed.

Lemma list_class_gmap : forall v,
  list_class (g v) = option_map (fun p => (f (fst p), tmap f (snd p))) (list_class v).
Proof. destruct v; reflexivity. Qed.

Lemma build_list_gmap : forall acc t tail,
  build_list (f d) (tmap f t) (map g acc) (g tail) = option_map g (build_list d t acc tail).
Proof.
  induction acc as [|v r IH]; intros t tail; [reflexivity|].
  simpl. rewrite type_of_gmap, ty_shape_tmap. destruct (ty_shape_eqb t (type_of v)); [|reflexivity].
  apply (IH t (GCons d t v tail)).
Qed.

Lemma from_items_gmap : forall acc, from_items (f d) (map g acc) = option_map g (from_items d acc).
Proof.
  intro acc. unfold from_items. rewrite <- map_rev. destruct (rev acc) as [|v0 r]; [reflexivity|].
  simpl map. cbv beta iota. rewrite type_of_gmap, anon_tmap.
  apply (build_list_gmap acc (anon d (type_of v0)) (GNil d (anon d (type_of v0)))).
Qed.
End Nat.

Section Nat2.
Context {A B : Type} (f : A -> B) (d : A).
Notation g := (gmap f).

Lemma to_mich_cons : forall {X} m (a : X) t (h tl : gval X),
  to_mich m (GCons a t h tl) = NSeq (to_mich m h :: elems_of m tl).
Proof.
  intros X m a t h tl.
  assert (H : forall w, (fix els (w : gval X) : list node :=
                           match w with
                           | GCons _ _ h' tl' => to_mich m h' :: els tl'
                           | _ => []
                           end) w = elems_of m w).
  { induction w; try reflexivity. simpl. rewrite IHw2. reflexivity. }
  simpl. rewrite H. reflexivity.
Qed.

Lemma to_mich_spine_gmap : forall m v,
  to_mich m (g v) = to_mich m v /\ spine_of m (g v) = spine_of m v /\ elems_of m (g v) = elems_of m v.
Proof.
  induction v as [| | | | |a x IHx y IHy|a t|a w IHw|a w IHw rt|a lt w IHw| |a t|a t h IHh tl IHtl|];
    try (repeat split; reflexivity).
  - destruct IHx as [H1 _]. destruct IHy as (H2 & S2 & _).
    assert (Hm : to_mich m (g (GPair a x y)) = to_mich m (GPair a x y)).
    { change (g (GPair a x y)) with (GPair (f a) (g x) (g y)).
      rewrite !to_mich_pair, H1, H2, S2. reflexivity. }
    split; [exact Hm|]. split; [|reflexivity].
    change (g (GPair a x y)) with (GPair (f a) (g x) (g y)).
    simpl spine_of. rewrite H1, S2. reflexivity.
  - destruct IHw as [H _]. repeat split; cbn; rewrite H; reflexivity.
  - destruct IHw as [H _]. repeat split; cbn; rewrite H; reflexivity.
  - destruct IHw as [H _]. repeat split; cbn; rewrite H; reflexivity.
  - destruct IHh as [H1 _]. destruct IHtl as (_ & _ & E2).
    change (g (GCons a t h tl)) with (GCons (f a) (tmap f t) (g h) (g tl)).
    assert (Hm : to_mich m (GCons (f a) (tmap f t) (g h) (g tl)) = to_mich m (GCons a t h tl)).
    { rewrite !to_mich_cons, H1, E2. reflexivity. }
    split; [exact Hm|]. split.
    + change (spine_of m (GCons (f a) (tmap f t) (g h) (g tl))) with [to_mich m (GCons (f a) (tmap f t) (g h) (g tl))].
      rewrite Hm. reflexivity.
    + simpl elems_of. rewrite H1, E2. reflexivity.
Qed.

Lemma to_mich_gmap : forall m v, to_mich m (g v) = to_mich m v.
Proof. intros. apply to_mich_spine_gmap. Qed.

Lemma read_prim_gmap : forall a p n, read_prim (f a) p n = option_map g (read_prim a p n).
Proof.
  intros a p n. unfold read_prim.
  repeat match goal with |- context [if byte_eqb p ?t then _ else _] => destruct (byte_eqb p t) end;
    try reflexivity; destruct n as [z|s|b|q args an|items]; try reflexivity.
  - destruct (z <? 0)%Z; reflexivity.
  - destruct ((z <? 0)%Z || (9223372036854775807 <? z)%Z); reflexivity.
  - destruct args; [|reflexivity]. destruct (byte_eqb q P_True); [reflexivity|]. destruct (byte_eqb q P_False); reflexivity.
  - destruct args; [|reflexivity]. destruct (byte_eqb q P_Unit); reflexivity.
Qed.

Lemma read_gmap : forall t n, read (tmap f t) n = option_map g (read t n).
Proof.
  induction t as [a p|a l IHl r IHr|a u IHu|a l IHl r IHr|a u IHu|a l IHl r IHr]; intro n.
  - apply read_prim_gmap.
  - simpl. destruct (pair_args n) as [[|x [|y [|z rest]]]|]; try reflexivity.
    + rewrite IHl, IHr. destruct (read l x) as [vx|]; [|reflexivity]. destruct (read r y) as [vy|]; reflexivity.
    + rewrite IHl, IHr. destruct (read l x) as [vx|]; [|reflexivity].
      destruct (read r (NSeq (y :: z :: rest))) as [vy|]; reflexivity.
  - simpl. destruct n as [z|s|b|q args an|items]; try reflexivity.
    destruct args as [|x [|y args]]; try reflexivity.
    + destruct (byte_eqb q P_None); reflexivity.
    + destruct (byte_eqb q P_Some); [|reflexivity]. rewrite IHu. destruct (read u x) as [vx|]; reflexivity.
  - simpl. destruct n as [z|s|b|q args an|items]; try reflexivity.
    destruct args as [|x [|y args]]; try reflexivity.
    destruct (byte_eqb q P_Left).
    + rewrite IHl. destruct (read l x) as [vx|]; reflexivity.
    + destruct (byte_eqb q P_Right); [|reflexivity]. rewrite IHr. destruct (read r x) as [vx|]; reflexivity.
  - simpl. destruct n as [z|s0|b|q args an|items]; try reflexivity.
    induction items as [|x r IHitems]; [reflexivity|].
    rewrite IHu. destruct (read u x) as [vx|]; [|reflexivity].
    simpl option_map. cbv beta iota.
    match goal with |- match ?X with _ => _ end = _ => rewrite IHitems end.
    match goal with |- context [option_map g ?Y] => destruct Y end; reflexivity.
  - reflexivity.
Qed.

Lemma step_gmap : forall i s,
  step (f d) (imap f i) (map g s) = rmap (map g) (step d i s).
Proof.
  intros i s. destruct i.
  - reflexivity.
  - simpl. rewrite read_gmap. destruct (read t lit); reflexivity.
  - destruct s as [|v s]; [reflexivity|]. destruct v; try reflexivity.
    simpl. rewrite read_gmap, anon_tmap. destruct (read t m); reflexivity.
  - destruct s as [|v s]; [reflexivity|]. destruct v; try reflexivity.
    change (map g (GPair a v1 v2 :: s)) with (g (GPair a v1 v2) :: map g s).
    change (step (f d) (imap f (IGet n)) (g (GPair a v1 v2) :: map g s))
      with (match access_comb n (g (GPair a v1 v2)) with Some r => Ok (r :: map g s) | None => Reject end).
    rewrite access_comb_gmap.
    change (step d (IGet n) (GPair a v1 v2 :: s))
      with (match access_comb n (GPair a v1 v2) with Some r => Ok (r :: s) | None => Reject end).
    destruct (access_comb n (GPair a v1 v2)); reflexivity.
  - destruct s as [|e s]; [reflexivity|]. destruct s as [|v s]; [destruct e; reflexivity|].
    destruct v; try (destruct e; reflexivity).
    change (map g (e :: GPair a v1 v2 :: s)) with (g e :: g (GPair a v1 v2) :: map g s).
    change (step (f d) (imap f (IUpdate n)) (g e :: g (GPair a v1 v2) :: map g s))
      with (match update_comb (f d) n (g e) (g (GPair a v1 v2)) with Some r => Ok (r :: map g s) | None => Reject end).
    rewrite update_comb_gmap.
    change (step d (IUpdate n) (e :: GPair a v1 v2 :: s))
      with (match update_comb d n e (GPair a v1 v2) with Some r => Ok (r :: s) | None => Reject end).
    destruct (update_comb d n e (GPair a v1 v2)); reflexivity.
  - simpl. rewrite map_length. destruct ((n <? 2) || (length s <? n)); [reflexivity|].
    rewrite firstn_map, from_comb_gmap. destruct (from_comb d (firstn n s)); simpl; [rewrite skipn_map|]; reflexivity.
  - destruct s as [|v s]; [reflexivity|]. destruct v; try reflexivity.
    change (map g (GPair a v1 v2 :: s)) with (g (GPair a v1 v2) :: map g s).
    change (step (f d) (imap f (IUnpairN n)) (g (GPair a v1 v2) :: map g s))
      with (if n <? 2 then Reject else Ok (unpairn (n - 2) (g (GPair a v1 v2)) ++ map g s)).
    change (step d (IUnpairN n) (GPair a v1 v2 :: s))
      with (if n <? 2 then Reject else Ok (unpairn (n - 2) (GPair a v1 v2) ++ s)).
    destruct (n <? 2); [reflexivity|]. rewrite unpairn_gmap. simpl. rewrite map_app. reflexivity.
  - destruct s as [|v s]; [reflexivity|]. destruct v; reflexivity.
  - destruct s as [|v s]; [reflexivity|]. destruct v; reflexivity.
  - destruct s as [|x [|y s]]; reflexivity.
  - destruct s as [|v s]; [reflexivity|]. destruct v; reflexivity.
  - destruct s as [|x [|y s]]; try reflexivity.
    simpl. rewrite compare_checked_gmap. destruct (compare_checked x y); reflexivity.
  - destruct s as [|v s]; [reflexivity|]. simpl. rewrite to_mich_gmap. reflexivity.
  - destruct s as [|v s]; reflexivity.
  - destruct s as [|x [|y s]]; reflexivity.
  - destruct s as [|v s]; reflexivity.
  - destruct s as [|v s]; reflexivity.
  - change (step (f d) (imap f (INone t)) (map g s)) with (Ok (GNone (f d) (anon (f d) (tmap f t)) :: map g s)). rewrite anon_tmap. reflexivity.
  - destruct s as [|v s]; reflexivity.
  - destruct s as [|v s]; reflexivity.
  - reflexivity.
  - destruct s as [|v s]; [reflexivity|]. destruct v; try reflexivity.
    simpl. destruct (zero_test op); [|reflexivity]. destruct (byte_eqb p T_int); reflexivity.
  - destruct s as [|x s]; [reflexivity|]. destruct x; try reflexivity.
    destruct s as [|y s]; [reflexivity|]. destruct y; try reflexivity.
    simpl. destruct (arith op p z p0 z0) as [[r w]|]; reflexivity.
  - reflexivity.
  - destruct s as [|e s]; [reflexivity|]. destruct s as [|l s]; [reflexivity|].
    change (step (f d) (imap f ICons) (map g (e :: l :: s)))
      with (match list_class (g l) with
            | Some (a, t) => if ty_shape_eqb t (type_of (g e)) then Ok (GCons a t (g e) (g l) :: map g s) else Reject
            | None => Reject end).
    change (step d ICons (e :: l :: s))
      with (match list_class l with
            | Some (a, t) => if ty_shape_eqb t (type_of e) then Ok (GCons a t e l :: s) else Reject
            | None => Reject end).
    rewrite list_class_gmap. destruct (list_class l) as [[a t]|]; [|reflexivity].
    simpl option_map. cbv beta iota. simpl fst. simpl snd.
    rewrite type_of_gmap, ty_shape_tmap. destruct (ty_shape_eqb t (type_of e)); reflexivity.
  - reflexivity.
  - reflexivity.
  - reflexivity.
  - reflexivity.
  - reflexivity.
  - reflexivity.
  - reflexivity.
  - reflexivity.
  - reflexivity.
  - reflexivity.
  - reflexivity.
  - destruct s as [|v0 [|v1 s]]; try reflexivity; destruct v0; reflexivity.
  - destruct s as [|x s]; [reflexivity|]. destruct s as [|l s]; [destruct x; reflexivity|].
    destruct l as [| | | | | | | | | | | | |a p r body]; try (destruct x; reflexivity).
    destruct p as [| a0 lt rt | | | |]; try (destruct x; reflexivity).
    change (step (f d) (imap f IApply) (map g (x :: GLam a (TyPair a0 lt rt) r body :: s)))
      with (if ty_shape_eqb (type_of (g x)) (tmap f lt)
            then Ok (GLam (f d) (anon (f d) (tmap f rt)) (tmap f r)
                       (ISeq (IPushT (strip (f d) (tmap f lt)) (to_mich LegacyOptimized (g x))) (ISeq IPair (imap f body))) :: map g s)
            else Reject).
    change (step d IApply (x :: GLam a (TyPair a0 lt rt) r body :: s))
      with (if ty_shape_eqb (type_of x) lt
            then Ok (GLam d (anon d rt) r (ISeq (IPushT (strip d lt) (to_mich LegacyOptimized x)) (ISeq IPair body)) :: s)
            else Reject).
    rewrite type_of_gmap, ty_shape_tmap, anon_tmap, strip_tmap, to_mich_gmap.
    destruct (ty_shape_eqb (type_of x) lt); reflexivity.
Qed.

Lemma of_result_rmap : forall (r : result (gstack (A:=A))),
  of_result (rmap (map g) r) = omap (map g) (of_result r).
Proof. destruct r; reflexivity. Qed.

Lemma run_gmap : forall n i s,
  run (f d) n (imap f i) (map g s) = omap (map g) (run d n i s).
Proof.
  induction n as [|n IHn]; [reflexivity|].
  induction i as [ | | | | | | | | | | | | | | | | | | | | | | | | | x IHx y IHy | | x IHx y IHy | x IHx y IHy | x IHx y IHy | x IHx y IHy | k x IHx | x IHx | x IHx | x IHx | p r x IHx | | ]; intro s;
    try (match goal with |- run _ _ (imap f ?i) _ = _ =>
           change (of_result (step (f d) (imap f i) (map g s)) = omap (map g) (of_result (step d i s)));
           rewrite step_gmap; apply of_result_rmap end).
  - change (match run (f d) (S n) (imap f x) (map g s) with Done s' => run (f d) (S n) (imap f y) s' | o => o end
            = omap (map g) (match run d (S n) x s with Done s' => run d (S n) y s' | o => o end)).
    rewrite IHx. destruct (run d (S n) x s); simpl; [apply IHy | reflexivity | reflexivity].
  - reflexivity.
  - destruct s as [|v s]; [reflexivity|]. destruct v; try reflexivity.
    destruct b; [apply IHx | apply IHy].
  - destruct s as [|v s]; [reflexivity|]. destruct v; try reflexivity.
    + apply IHx.
    + apply (IHy (v :: s)).
  - destruct s as [|v s]; [reflexivity|]. destruct v; try reflexivity.
    + apply (IHx (v :: s)).
    + apply (IHy (v :: s)).
  - destruct s as [|v s]; [reflexivity|]. destruct v; try reflexivity.
    + apply IHy.
    + apply (IHx (v1 :: v2 :: s)).
  - change (run (f d) (S n) (imap f (IDip k x)) (map g s))
      with (if length (map g s) <? k then Fail
            else match run (f d) (S n) (imap f x) (skipn k (map g s)) with
                 | Done s' => Done (firstn k (map g s) ++ s') | o => o end).
    change (run d (S n) (IDip k x) s)
      with (if length s <? k then Fail
            else match run d (S n) x (skipn k s) with Done s' => Done (firstn k s ++ s') | o => o end).
    rewrite map_length. destruct (length s <? k); [reflexivity|].
    rewrite skipn_map, IHx. destruct (run d (S n) x (skipn k s)); simpl; try reflexivity.
    rewrite firstn_map, map_app. reflexivity.
  - (* ITER *)
    destruct s as [|l s]; [reflexivity|].
    change (run (f d) (S n) (imap f (IIter x)) (map g (l :: s)))
      with ((fix iter (l : gval B) (s : gstack) {struct l} : outcome B :=
               match l with
               | GNil _ _ => Done s
               | GCons _ _ h tl => match run (f d) (S n) (imap f x) (h :: s) with Done s1 => iter tl s1 | o => o end
               | _ => Fail
               end) (g l) (map g s)).
    change (run d (S n) (IIter x) (l :: s))
      with ((fix iter (l : gval A) (s : gstack) {struct l} : outcome A :=
               match l with
               | GNil _ _ => Done s
               | GCons _ _ h tl => match run d (S n) x (h :: s) with Done s1 => iter tl s1 | o => o end
               | _ => Fail
               end) l s).
    revert s. induction l as [| | | | | | | | | | |a t|a t h IHh tl IHtl|]; intro st; try reflexivity.
    change (g (GCons a t h tl)) with (GCons (f a) (tmap f t) (g h) (g tl)). cbv beta iota.
    change (g h :: map g st) with (map g (h :: st)).
    rewrite (IHx (h :: st)). destruct (run d (S n) x (h :: st)); simpl; try reflexivity. apply IHtl.
  - (* MAP *)
    destruct s as [|l s]; [reflexivity|].
    change (run (f d) (S n) (imap f (IMap x)) (map g (l :: s)))
      with ((fix iter (l : gval B) (acc : list (gval B)) (s : gstack) {struct l} : outcome B :=
               match l with
               | GNil _ _ =>
                   match acc with
                   | [] => Done (l :: s)
                   | _ => match from_items (f d) acc with Some r => Done (r :: s) | None => Fail end
                   end
               | GCons _ _ h tl =>
                   match run (f d) (S n) (imap f x) (h :: s) with
                   | Done (r :: s1) => iter tl (r :: acc) s1
                   | Done [] => Fail
                   | o => o
                   end
               | _ => Fail
               end) (g l) (map g []) (map g s)).
    change (run d (S n) (IMap x) (l :: s))
      with ((fix iter (l : gval A) (acc : list (gval A)) (s : gstack) {struct l} : outcome A :=
               match l with
               | GNil _ _ =>
                   match acc with
                   | [] => Done (l :: s)
                   | _ => match from_items d acc with Some r => Done (r :: s) | None => Fail end
                   end
               | GCons _ _ h tl =>
                   match run d (S n) x (h :: s) with
                   | Done (r :: s1) => iter tl (r :: acc) s1
                   | Done [] => Fail
                   | o => o
                   end
               | _ => Fail
               end) l [] s).
    generalize (@nil (gval A)) as acc. revert s.
    induction l as [| | | | | | | | | | |a t|a t h IHh tl IHtl|]; intros st acc; try reflexivity.
    + change (g (GNil a t)) with (GNil (f a) (tmap f t)). cbv beta iota.
      destruct acc as [|r0 acc]; [reflexivity|].
      change (map g (r0 :: acc)) with (g r0 :: map g acc). cbv beta iota.
      change (g r0 :: map g acc) with (map g (r0 :: acc)).
      rewrite from_items_gmap. destruct (from_items d (r0 :: acc)); reflexivity.
    + change (g (GCons a t h tl)) with (GCons (f a) (tmap f t) (g h) (g tl)). cbv beta iota.
      change (g h :: map g st) with (map g (h :: st)).
      rewrite (IHx (h :: st)). destruct (run d (S n) x (h :: st)) as [[|r s1]| |]; simpl; try reflexivity.
      apply (IHtl s1 (r :: acc)).
  - (* LOOP *)
    destruct s as [|v s]; [reflexivity|]. destruct v; try reflexivity.
    destruct b; [|reflexivity].
    change (match run (f d) (S n) (imap f x) (map g s) with Done s1 => run (f d) n (imap f (ILoop x)) s1 | o => o end
            = omap (map g) (match run d (S n) x s with Done s1 => run d n (ILoop x) s1 | o => o end)).
    rewrite IHx. destruct (run d (S n) x s); simpl; try reflexivity. apply (IHn (ILoop x)).
  - (* EXEC *)
    destruct s as [|x s]; [reflexivity|]. destruct s as [|l s]; [destruct x; reflexivity|].
    destruct l as [| | | | | | | | | | | | |a p r body]; try (destruct x; reflexivity).
    change (run (f d) (S n) (imap f IExec) (map g (x :: GLam a p r body :: s)))
      with (if ty_shape_eqb (type_of (g x)) (tmap f p) then
              match run (f d) n (imap f body) [g x] with
              | Done [res] => if ty_shape_eqb (type_of res) (tmap f r) then Done (res :: map g s) else Fail
              | Done _ => Fail
              | o => o
              end
            else Fail).
    change (run d (S n) IExec (x :: GLam a p r body :: s))
      with (if ty_shape_eqb (type_of x) p then
              match run d n body [x] with
              | Done [res] => if ty_shape_eqb (type_of res) r then Done (res :: s) else Fail
              | Done _ => Fail
              | o => o
              end
            else Fail).
    rewrite type_of_gmap, ty_shape_tmap. destruct (ty_shape_eqb (type_of x) p); [|reflexivity].
    change [g x] with (map g [x]). rewrite IHn.
    destruct (run d n body [x]) as [[|res [|y rest]]| |]; try reflexivity.
    simpl omap. cbv beta iota. simpl map. cbv beta iota.
    rewrite type_of_gmap, ty_shape_tmap. destruct (ty_shape_eqb (type_of res) r); reflexivity.
Qed.

Lemma exec_gmap : forall n p s,
  exec (f d) n (map (imap f) p) (map g s) = omap (map g) (exec d n p s).
Proof.
  intros n. induction p as [|i p IH]; intro s; [reflexivity|].
  simpl. rewrite run_gmap. destruct (run d n i s); simpl; [apply IH | reflexivity | reflexivity].
Qed.
End Nat2.

(* ---- erasure ------------------------------------------------------------------------------------ *)
Definition er : ann -> unit := fun _ => tt.

Lemma exec_erase : forall n p s,
  exec tt n (map (imap er) p) (map erase s) = omap (map erase) (exec no_ann n p s).
Proof. intros. apply (exec_gmap er no_ann). Qed.

Lemma exec_twins : forall n p p' s s',
  map (imap er) p = map (imap er) p' -> map erase s = map erase s' ->
  omap (map erase) (exec no_ann n p s) = omap (map erase) (exec no_ann n p' s').
Proof. intros n p p' s s' Hp Hs. rewrite <- !exec_erase, Hp, Hs. reflexivity. Qed.

(* fuel: a run that finishes keeps its result with more fuel is not needed for blindness; what matters is that the
   twin needs exactly the same fuel *)
Lemma exec_same_fuel : forall {A B} (f : A -> B) d n p s,
  exec d n p s <> OutOfFuel -> exec (f d) n (map (imap f) p) (map (gmap f) s) <> OutOfFuel.
Proof. intros A B f d n p s H. rewrite exec_gmap. destruct (exec d n p s); simpl; congruence. Qed.

Lemma pack_shape : forall {A} (a : A) (x y : gval A),
  to_mich Optimized (GPair a x y) =
  comb_node Optimized (map (to_mich Optimized) (leaves_of (GPair a x y))).
Proof. intros. rewrite to_mich_pair, spine_of_leaves. reflexivity. Qed.

Lemma comb_node_cases : forall a b c e l,
  comb_node Optimized [a; b] = NPrim P_Pair [a; b] [] /\
  comb_node Optimized [a; b; c] = NPrim P_Pair [a; NPrim P_Pair [b; c] []] [] /\
  comb_node Optimized (a :: b :: c :: e :: l) = NSeq (a :: b :: c :: e :: l).
Proof. intros. repeat split. Qed.
