(* Proofs/Ops_proofs.v — lemmas about Codec/Ops.v (C06). *)
From Coq.Strings Require Import Byte String.
From Coq Require Import List NArith ZArith Bool Arith Lia.
From PV Require Import Base.Bytes Codec.Zarith Proofs.Zarith_proofs Codec.Ops.
Import ListNotations.
Local Open Scope N_scope.

Definition codec_ok {A} (c : codec A) : Prop :=
  forall a r, wf c a -> dec c (enc c a ++ r) = Some (a, r).

(* ---------------------------------------------------------------- lists *)

Lemma firstn_len_app {A} (a r : list A) : firstn (length a) (a ++ r) = a.
Proof. induction a; simpl; [reflexivity | f_equal; assumption]. Qed.

Lemma skipn_len_app {A} (a r : list A) : skipn (length a) (a ++ r) = r.
Proof. induction a; simpl; [reflexivity | assumption]. Qed.

Lemma take_app n (a r : bytes) : length a = n -> take n (a ++ r) = Some (a, r).
Proof.
  intros <-. unfold take. rewrite app_length.
  destruct (Nat.ltb_spec (length a + length r) (length a)) as [H|H]; [lia|].
  rewrite firstn_len_app, skipn_len_app. reflexivity.
Qed.

(* ---------------------------------------------------------------- big-endian integers *)

Lemma be_to_N_acc_snoc l : forall acc b, be_to_N_acc acc (l ++ [b]) = be_to_N_acc acc l * 256 + Byte.to_N b.
Proof. induction l as [|x l IH]; intros acc b; simpl; [reflexivity | apply IH]. Qed.

Lemma N_to_be_length w : forall n, length (N_to_be w n) = w.
Proof. induction w as [|w IH]; intro n; simpl; [reflexivity|]. rewrite app_length, IH. simpl. lia. Qed.

Lemma be_N_to_be w : forall n, be_to_N (N_to_be w n) = n mod 256 ^ N.of_nat w.
Proof.
  induction w as [|w IH]; intro n.
  - simpl. rewrite N.mod_1_r. reflexivity.
  - cbn [N_to_be]. unfold be_to_N. rewrite be_to_N_acc_snoc. fold (be_to_N (N_to_be w (n / 256))).
    rewrite IH, to_N_b8, Nat2N.inj_succ, N.pow_succ_r'.
    rewrite (N.mod_mul_r n 256 (256 ^ N.of_nat w)); [lia | lia | apply N.pow_nonzero; lia].
Qed.

Lemma be_N_to_be_small w n : n < 256 ^ N.of_nat w -> be_to_N (N_to_be w n) = n.
Proof. intro H. rewrite be_N_to_be. apply N.mod_small, H. Qed.

(* ---------------------------------------------------------------- primitive codecs *)

Lemma c_fix_ok n : codec_ok (c_fix n).
Proof. intros a r H. simpl in *. apply take_app, H. Qed.

Lemma c_nat_ok : codec_ok c_nat.
Proof. intros a r _. simpl. apply dec_enc_nat. Qed.

Lemma c_uint_ok w : codec_ok (c_uint w).
Proof.
  intros a r H. simpl in *. rewrite take_app by apply N_to_be_length. simpl.
  rewrite be_N_to_be_small by exact H. reflexivity.
Qed.

Lemma dec_enc_dyn b r : nlength b < two32 -> dec_dyn (enc_dyn b ++ r) = Some (b, r).
Proof.
  intro H. unfold dec_dyn, enc_dyn. rewrite <- app_assoc.
  rewrite take_app by apply N_to_be_length.
  rewrite be_N_to_be_small by exact H.
  unfold nlength. rewrite app_length.
  destruct (N.ltb_spec (N.of_nat (length b + length r)) (N.of_nat (length b))) as [H1|H1]; [lia|].
  rewrite Nat2N.id, firstn_len_app, skipn_len_app. reflexivity.
Qed.

Lemma c_dyn_ok : codec_ok c_dyn.
Proof. intros a r H. apply dec_enc_dyn, H. Qed.

Lemma c_opt_ok {A} (c : codec A) : codec_ok c -> codec_ok (c_opt c).
Proof.
  intros Hc [a|] r H; simpl in *.
  - rewrite (Hc a r H). reflexivity.
  - reflexivity.
Qed.

Lemma c_pair_ok {A B} (ca : codec A) (cb : codec B) : codec_ok ca -> codec_ok cb -> codec_ok (c_pair ca cb).
Proof.
  intros Ha Hb [a b] r [H1 H2]; simpl in *. rewrite <- app_assoc, (Ha a _ H1). simpl.
  rewrite (Hb b r H2). reflexivity.
Qed.

Lemma c_map_ok {A B} (to : B -> A) (from : A -> B) (c : codec A) :
  (forall b, from (to b) = b) -> codec_ok c -> codec_ok (c_map to from c).
Proof. intros Hft Hc b r H; simpl in *. rewrite (Hc (to b) r H). simpl. rewrite Hft. reflexivity. Qed.

Lemma curve_of_tag_tag k : curve_of_tag (Byte.to_N (b8 (curve_tag k))) = Some k.
Proof. destruct k; reflexivity. Qed.

Lemma c_pkh_ok : codec_ok c_pkh.
Proof.
  intros [k h] r H; simpl in *. rewrite curve_of_tag_tag, take_app by exact H. reflexivity.
Qed.

Lemma c_pk_ok : codec_ok c_pk.
Proof.
  intros [k h] r H; simpl in *. rewrite curve_of_tag_tag, take_app by exact H. reflexivity.
Qed.

Lemma c_address_ok : codec_ok c_address.
Proof.
  intros [k|h|h] r H; cbn [enc dec c_address wf wf_address] in *.
  - cbn [app]. rewrite (c_pkh_ok k r H). reflexivity.
  - cbn [app]. rewrite <- app_assoc, take_app by exact H. reflexivity.
  - cbn [app]. rewrite <- app_assoc, take_app by exact H. reflexivity.
Qed.

(* entrypoints *)
Lemma find_tag_of_name_spec : forall name t, find_name spec_reserved name = Some t ->
  find_tag spec_reserved t = Some name /\ t < 10.
Proof.
  intros name t H. unfold spec_reserved in H. cbn [find_name] in H.
  repeat match type of H with
  | (if bytes_eqb ?a name then _ else _) = _ =>
      let E := fresh "E" in
      destruct (bytes_eqb a name) eqn:E;
      [apply bytes_eqb_spec in E; subst name; injection H as <-; split; [reflexivity | reflexivity] |]
  end.
  discriminate.
Qed.

Lemma c_entrypoint_ok : codec_ok c_entrypoint.
Proof.
  intros name r [H1 H2]. cbn [enc dec c_entrypoint]. unfold enc_entrypoint.
  destruct (find_name spec_reserved name) as [t|] eqn:E.
  - destruct (find_tag_of_name_spec name t E) as [Ht Hlt].
    cbn [app]. unfold dec_entrypoint.
    assert (Hb : Byte.to_N (b8 t) = t) by (rewrite to_N_b8; apply N.mod_small; lia).
    assert (Hff : b8 t <> xff).
    { intro Hx. apply (f_equal Byte.to_N) in Hx. rewrite Hb in Hx. cbn in Hx. lia. }
    destruct (b8 t) eqn:Eb; try (rewrite Hb, Ht; reflexivity).
    contradiction.
  - cbn [app]. unfold dec_entrypoint.
    assert (Hl : Byte.to_N (b8 (nlength name)) = nlength name).
    { rewrite to_N_b8. apply N.mod_small. unfold nlength. lia. }
    rewrite Hl. unfold nlength. rewrite Nat2N.id, take_app by reflexivity. rewrite E.
    destruct (Nat.leb_spec 1 (length name)); [|lia]. destruct (Nat.leb_spec (length name) 31); [|lia]. reflexivity.
Qed.

(* sequences *)
Lemma dec_many_ok {A} (e : A -> bytes) (d : bytes -> option (A * bytes)) (P : A -> Prop) :
  (forall a r, P a -> d (e a ++ r) = Some (a, r)) ->
  (forall a, e a <> []) ->
  forall l fuel, Forall P l -> (length l <= fuel)%nat -> dec_many d fuel (concat (map e l)) = Some l.
Proof.
  intros Hd Hne l. induction l as [|a l IH]; intros fuel HP Hf.
  - destruct fuel; reflexivity.
  - inversion HP as [|? ? Pa Pl]; subst. cbn [map concat].
    destruct (e a ++ concat (map e l)) as [|x xs] eqn:E.
    { exfalso. apply app_eq_nil in E. destruct E as [E _]. exact (Hne a E). }
    rewrite <- E. clear E x xs.
    destruct fuel as [|f]; [simpl in Hf; lia|].
    assert (Hstep : forall bs, bs = e a ++ concat (map e l) -> dec_many d (S f) bs = Some (a :: l)).
    { intros bs ->. destruct (e a ++ concat (map e l)) as [|x xs] eqn:E.
      { exfalso. apply app_eq_nil in E. destruct E as [E _]. exact (Hne a E). }
      cbn [dec_many]. rewrite <- E, (Hd a _ Pa), (IH f Pl) by (simpl in Hf; lia). reflexivity. }
    apply Hstep. reflexivity.
Qed.

Lemma enc_dyn_nonempty b : enc_dyn b <> [].
Proof.
  unfold enc_dyn. intro H. apply (f_equal (@length _)) in H.
  rewrite app_length, N_to_be_length in H. simpl in H. lia.
Qed.

Lemma concat_length_ge {A} (e : A -> bytes) l : (forall a, e a <> []) -> (length l <= length (concat (map e l)))%nat.
Proof.
  intro Hne. induction l as [|a l IH]; simpl; [lia|]. rewrite app_length.
  specialize (Hne a). destruct (e a); [contradiction | simpl; lia].
Qed.

Lemma c_msgs_ok : codec_ok c_msgs.
Proof.
  intros l r [H1 H2]. cbn [enc dec c_msgs]. unfold enc_msgs, dec_msgs.
  rewrite dec_enc_dyn by exact H2.
  rewrite (dec_many_ok enc_dyn dec_dyn (fun m => nlength m < two32)).
  - reflexivity.
  - intros; apply dec_enc_dyn; assumption.
  - apply enc_dyn_nonempty.
  - exact H1.
  - apply concat_length_ge, enc_dyn_nonempty.
Qed.

(* ---------------------------------------------------------------- per kind *)

Lemma c_header_ok : codec_ok c_header.
Proof.
  apply c_map_ok.
  - intros [s f c g st]. reflexivity.
  - repeat apply c_pair_ok; try apply c_nat_ok. apply c_pkh_ok.
Qed.

Local Hint Resolve c_fix_ok c_nat_ok c_uint_ok c_dyn_ok c_pkh_ok c_pk_ok c_address_ok c_entrypoint_ok c_msgs_ok c_header_ok : codec.
Local Hint Extern 1 (codec_ok (c_opt _)) => apply c_opt_ok : codec.
Local Hint Extern 1 (codec_ok (c_pair _ _)) => apply c_pair_ok : codec.

Lemma c_reveal_ok : codec_ok c_reveal. Proof. unfold c_reveal. auto with codec. Qed.
Lemma c_transaction_ok : codec_ok c_transaction. Proof. unfold c_transaction, c_params. auto 10 with codec. Qed.
Lemma c_origination_ok : codec_ok c_origination. Proof. unfold c_origination. auto 10 with codec. Qed.
Lemma c_delegation_ok : codec_ok c_delegation. Proof. unfold c_delegation. auto with codec. Qed.
Lemma c_transfer_ticket_ok : codec_ok c_transfer_ticket. Proof. unfold c_transfer_ticket. auto 12 with codec. Qed.
Lemma c_sr_execute_ok : codec_ok c_sr_execute. Proof. unfold c_sr_execute. auto 10 with codec. Qed.
Lemma c_activate_ok : codec_ok c_activate. Proof. unfold c_activate. auto with codec. Qed.

Lemma wf_reveal pk pr : wf_mop (MReveal pk pr) -> wf c_reveal (pk, pr).
Proof.
  intros [H1 H2]. split; [exact H1|]. destruct pr as [p|]; [|exact I].
  cbn. unfold nlength. cbn in H2. rewrite H2. reflexivity.
Qed.

Lemma dec_enc_mop op r : wf_mop op -> norm_mop op = op -> dec_mop (mop_tag op) (enc_mop op ++ r) = Some (op, r).
Proof.
  intros H Hn. destruct op; cbn [mop_tag dec_mop enc_mop].
  - rewrite (c_reveal_ok _ r (wf_reveal _ _ H)). reflexivity.
  - rewrite (c_transaction_ok _ r H). cbn [fst snd].
    cbn [norm_mop] in Hn. injection Hn as Hn. rewrite Hn. destruct params; reflexivity.
  - rewrite (c_origination_ok _ r H). reflexivity.
  - rewrite (c_delegation_ok _ r H). reflexivity.
  - unfold c_register in *. rewrite (c_dyn_ok _ r H). reflexivity.
  - rewrite (c_transfer_ticket_ok _ r H). reflexivity.
  - rewrite (c_msgs_ok _ r H). reflexivity.
  - rewrite (c_sr_execute_ok _ r H). reflexivity.
Qed.

(* normalisation keeps well-formedness and is idempotent *)
Lemma norm_params_idem p : norm_params (norm_params p) = norm_params p.
Proof.
  destruct p as [[ep v]|]; [|reflexivity]. simpl.
  destruct (bytes_eqb ep default_name && bytes_eqb v unit_value) eqn:E; [reflexivity|].
  simpl. rewrite E. reflexivity.
Qed.

Lemma normalise_idem c : normalise (normalise c) = normalise c.
Proof. destruct c as [| | |h op]; try reflexivity. destruct op; try reflexivity. simpl. rewrite norm_params_idem. reflexivity. Qed.

Lemma wf_norm_mop op : wf_mop op -> wf_mop (norm_mop op).
Proof.
  destruct op; try (intro H; exact H). intros [Ha [Hd Hp]]. split; [exact Ha|]. split; [exact Hd|].
  destruct params as [[ep v]|]; [|exact I]. simpl.
  destruct (bytes_eqb ep default_name && bytes_eqb v unit_value); [exact I | exact Hp].
Qed.

Lemma mop_tag_norm op : mop_tag (norm_mop op) = mop_tag op.
Proof. destruct op; reflexivity. Qed.

Lemma content_tag_byte c : Byte.to_N (b8 (content_tag c)) = content_tag c.
Proof. rewrite to_N_b8. apply N.mod_small. destruct c as [| | |h op]; try (cbn; lia). destruct op; cbn; lia. Qed.

Lemma dec_enc_content c r : wf_content c -> dec_content (enc_content c ++ r) = Some (normalise c, r).
Proof.
  intro H. unfold enc_content, dec_content. cbn [app]. rewrite content_tag_byte.
  destruct c as [l|p s|a|h op]; cbn [normalise content_tag].
  - rewrite (c_uint_ok 4 l r H). reflexivity.
  - rewrite (c_activate_ok (p, s) r H). reflexivity.
  - rewrite (c_dyn_ok a r H). reflexivity.
  - destruct H as [Hh Hop].
    assert (Hm : dec c_header ((enc c_header h ++ enc_mop (norm_mop op)) ++ r) = Some (h, enc_mop (norm_mop op) ++ r)).
    { rewrite <- app_assoc. apply c_header_ok, Hh. }
    assert (Hidem : norm_mop (norm_mop op) = norm_mop op) by (destruct op; try reflexivity; cbn; rewrite norm_params_idem; reflexivity).
    pose proof (dec_enc_mop (norm_mop op) r (wf_norm_mop _ Hop) Hidem) as D. rewrite mop_tag_norm in D.
    destruct op; cbn [mop_tag] in *; cbv beta iota; rewrite Hm; cbn [omap]; rewrite D; reflexivity.
Qed.

Lemma enc_content_nonempty c : enc_content c <> [].
Proof. unfold enc_content. discriminate. Qed.

Lemma dec_enc_group g : wf_group g -> dec_group (enc_group g) = Some (norm_group g).
Proof.
  intros [Hb Hc]. unfold dec_group, enc_group. rewrite take_app by exact Hb.
  pose proof (dec_many_ok enc_content (fun bs => omap normalise (dec_content bs)) wf_content) as H.
  (* decode then normalise = decode (decode already returns normalised contents) *)
  assert (Hd : dec_many dec_content (length (concat (map enc_content (contents g)))) (concat (map enc_content (contents g)))
               = Some (map normalise (contents g))).
  { clear H. generalize (concat_length_ge enc_content (contents g) enc_content_nonempty).
    generalize (length (concat (map enc_content (contents g)))). intros fuel Hf.
    revert fuel Hf. induction (contents g) as [|c l IH]; intros fuel Hf.
    - destruct fuel; reflexivity.
    - inversion Hc as [|? ? Pc Pl]; subst. cbn [map concat].
      destruct fuel as [|f]; [simpl in Hf; lia|].
      destruct (enc_content c ++ concat (map enc_content l)) as [|x xs] eqn:E.
      { exfalso. apply app_eq_nil in E. destruct E as [E _]. exact (enc_content_nonempty c E). }
      cbn [dec_many]. rewrite <- E, (dec_enc_content c _ Pc), (IH Pl f) by (simpl in Hf; lia). reflexivity. }
  rewrite Hd. reflexivity.
Qed.

(* distinct (normalised) groups forge differently *)
Lemma enc_group_inj g1 g2 : wf_group g1 -> wf_group g2 -> enc_group g1 = enc_group g2 -> norm_group g1 = norm_group g2.
Proof.
  intros H1 H2 E. pose proof (dec_enc_group g1 H1) as D1. pose proof (dec_enc_group g2 H2) as D2.
  rewrite E in D1. rewrite D1 in D2. congruence.
Qed.

(* a normalised group is a fixed point: the decoder's answer re-encodes to the same bytes *)
Lemma enc_content_norm c : enc_content (normalise c) = enc_content c.
Proof.
  unfold enc_content. rewrite normalise_idem. f_equal.
  destruct c as [| | |h op]; try reflexivity. cbn. f_equal. apply mop_tag_norm.
Qed.

Lemma enc_group_norm g : enc_group (norm_group g) = enc_group g.
Proof.
  unfold enc_group, norm_group. cbn. f_equal. f_equal. rewrite map_map.
  apply map_ext. apply enc_content_norm.
Qed.

(* ---------------------------------------------------------------- PY = SPEC *)

Lemma py_reserved_is_spec : py_reserved = spec_reserved.
Proof. reflexivity. Qed.

Lemma forge_key_hash_spec k : forge_key_hash k = enc c_pkh k.
Proof. destruct k as [[] h]; reflexivity. Qed.

Lemma forge_address_spec a : forge_address a = enc c_address a.
Proof. destruct a as [[[] h]|h|h]; reflexivity. Qed.

Lemma forge_public_key_spec k : forge_public_key k = enc c_pk k.
Proof. destruct k as [[] h]; reflexivity. Qed.

Lemma forge_entrypoint_spec n : forge_entrypoint n = enc c_entrypoint n.
Proof.
  unfold forge_entrypoint. cbn [enc c_entrypoint]. unfold enc_entrypoint. rewrite py_reserved_is_spec.
  destruct (find_name spec_reserved n); reflexivity.
Qed.

Lemma forge_header_spec t h : forge_header t h = b8 t :: enc c_header h.
Proof.
  unfold forge_header, forge_tag, forge_nat. rewrite forge_key_hash_spec. reflexivity.
Qed.

Lemma forge_opt_key_hash_spec d : forge_opt_key_hash d = enc (c_opt c_pkh) d.
Proof. destruct d as [k|]; cbn; [rewrite forge_key_hash_spec|]; reflexivity. Qed.

Ltac mgr_prefix :=
  cbn [forge_manager norm_mop mop_tag enc_mop]; rewrite forge_header_spec; cbn [app];
  rewrite ?forge_public_key_spec, ?forge_address_spec, ?forge_opt_key_hash_spec.

Lemma forge_manager_spec h op : forge_manager h op = enc_content (CManager h op).
Proof.
  unfold enc_content. cbn [normalise content_tag].
  destruct op.
  - (* reveal *) mgr_prefix. destruct proof; reflexivity.
  - (* transaction *)
    mgr_prefix. do 2 f_equal.
    destruct params as [[ep v]|]; [|reflexivity].
    cbn [has_parameters norm_params].
    destruct (bytes_eqb ep default_name && bytes_eqb v unit_value); cbn [negb]; [reflexivity|].
    rewrite forge_entrypoint_spec. reflexivity.
  - (* origination *) mgr_prefix. reflexivity.
  - (* delegation *) mgr_prefix. reflexivity.
  - (* register *) mgr_prefix. reflexivity.
  - (* transfer_ticket *) mgr_prefix. first [reflexivity | cbn; rewrite <- ?app_assoc; reflexivity | do 2 f_equal; cbn; rewrite <- ?app_assoc; reflexivity].
  - (* add_messages *) mgr_prefix. reflexivity.
  - (* execute outbox *) mgr_prefix. first [reflexivity | cbn; rewrite <- ?app_assoc; reflexivity | do 2 f_equal; cbn; rewrite <- ?app_assoc; reflexivity].
Qed.

Lemma forge_operation_spec c : forge_operation c = enc_content c.
Proof.
  destruct c as [l|p s|a|h op].
  - reflexivity.
  - reflexivity.
  - reflexivity.
  - apply forge_manager_spec.
Qed.

Lemma forge_operation_group_spec g : forge_operation_group g = enc_group g.
Proof.
  unfold forge_operation_group, enc_group. f_equal. f_equal. apply map_ext, forge_operation_spec.
Qed.

(* ---------------------------------------------------------------- boolean well-formedness *)

Lemma wf_optb_spec {A} (f : A -> bool) (P : A -> Prop) o :
  (forall a, f a = true -> P a) -> wf_optb f o = true -> match o with Some a => P a | None => True end.
Proof. intros H. destruct o; simpl; auto. Qed.

Lemma wf_dynb_spec b : wf_dynb b = true -> nlength b < two32.
Proof. unfold wf_dynb. intro H. apply N.ltb_lt, H. Qed.

Lemma wf_addressb_spec a : wf_addressb a = true -> wf_address a.
Proof. destruct a; simpl; apply Nat.eqb_eq. Qed.

Lemma wf_epb_spec n : wf_epb n = true -> (1 <= length n <= 31)%nat.
Proof. unfold wf_epb. intro H. apply andb_true_iff in H. destruct H as [H1 H2]. apply Nat.leb_le in H1, H2. lia. Qed.

Lemma wf_mopb_spec op : wf_mopb op = true -> wf_mop op.
Proof.
  destruct op; cbn [wf_mopb wf_mop]; intro H; repeat (apply andb_true_iff in H; destruct H as [H ?]).
  - split; [apply Nat.eqb_eq, H|]. destruct proof; [apply Nat.eqb_eq; assumption | exact I].
  - cbn. split; [exact I|]. split; [apply wf_addressb_spec, H|].
    destruct params as [[ep v]|]; [|exact I]. cbn in *.
    apply andb_true_iff in H0. destruct H0 as [He Hv]. split; [apply wf_epb_spec, He | apply wf_dynb_spec, Hv].
  - cbn. split; [exact I|]. split; [destruct delegate; [apply Nat.eqb_eq, H | exact I]|].
    split; apply wf_dynb_spec; assumption.
  - cbn. destruct delegate; [apply Nat.eqb_eq, H | exact I].
  - apply wf_dynb_spec, H.
  - cbn. repeat split; try (apply wf_dynb_spec; assumption); try (apply wf_addressb_spec; assumption).
  - cbn. split; [|apply wf_dynb_spec; assumption].
    apply Forall_forall. intros m Hm. apply wf_dynb_spec. rewrite forallb_forall in H. apply H, Hm.
  - cbn. repeat split; try (apply Nat.eqb_eq; assumption). apply wf_dynb_spec; assumption.
Qed.

Lemma wf_contentb_spec c : wf_contentb c = true -> wf_content c.
Proof.
  destruct c as [l|p s|a|h op]; cbn [wf_contentb wf_content]; intro H.
  - apply N.ltb_lt, H.
  - apply andb_true_iff in H. destruct H as [H1 H2]. split; apply Nat.eqb_eq; assumption.
  - apply wf_dynb_spec, H.
  - apply andb_true_iff in H. destruct H as [H1 H2]. split; [|apply wf_mopb_spec, H2].
    cbn. repeat split. apply Nat.eqb_eq, H1.
Qed.

Lemma wf_groupb_spec g : wf_groupb g = true -> wf_group g.
Proof.
  unfold wf_groupb, wf_group. intro H. apply andb_true_iff in H. destruct H as [H1 H2].
  split; [apply Nat.eqb_eq, H1|]. apply Forall_forall. intros c Hc. apply wf_contentb_spec.
  rewrite forallb_forall in H2. apply H2, Hc.
Qed.

(* ---------------------------------------------------------------- sizes (bridge to Client/Fees.v) *)

(* byte length of the zarith natural = N.log2 n / 7 + 1 *)
Lemma enc_nat_length : forall n, N.of_nat (length (enc_nat n)) = if n =? 0 then 1 else N.log2 n / 7 + 1.
Proof.
  intro n. induction n as [n IH] using (well_founded_induction N.lt_wf_0).
  destruct (N.ltb_spec n 128) as [Hs|Hb].
  - rewrite enc_nat_small by exact Hs. simpl length.
    destruct (N.eqb_spec n 0) as [->|Hn]; [reflexivity|].
    assert (N.log2 n < 7) by (apply N.log2_lt_pow2; [lia | exact Hs]).
    rewrite N.div_small by lia. reflexivity.
  - rewrite enc_nat_big by exact Hb. simpl length. rewrite Nat2N.inj_succ, IH.
    2:{ apply N.div_lt; lia. }
    assert (Hq : 1 <= n / 128) by (apply N.div_le_lower_bound; lia).
    destruct (N.eqb_spec (n / 128) 0) as [E|_]; [lia|].
    destruct (N.eqb_spec n 0) as [E|_]; [lia|].
    assert (HL : N.log2 n = N.log2 (n / 128) + 7).
    { change 128 with (2 ^ 7). rewrite <- N.shiftr_div_pow2, N.log2_shiftr.
      assert (7 <= N.log2 n) by (apply N.log2_le_pow2; [lia | exact Hb]). lia. }
    rewrite HL. replace (N.log2 (n / 128) + 7) with (N.log2 (n / 128) + 1 * 7) by lia.
    rewrite N.div_add by lia. lia.
Qed.

(* ---------------------------------------------------------------- bridge to Client/Fees.v (C24):
   the abstract content of the fee model has exactly the forged size of the operation *)
From PV Require Client.Fees.

Definition fees_kind (op : manager_op) : Fees.mkind :=
  match op with
  | MReveal _ _ => Fees.KReveal | MTransaction _ _ _ => Fees.KTransaction | MOrigination _ _ _ _ => Fees.KOrigination
  | MDelegation _ => Fees.KDelegation | MRegisterGlobalConstant _ => Fees.KRegisterGlobalConstant
  | MTransferTicket _ _ _ _ _ _ => Fees.KTransferTicket | MSrAddMessages _ => Fees.KSrAddMessages
  | MSrExecuteOutbox _ _ _ => Fees.KSrExecuteOutbox
  end.

(* content.get('destination', '').startswith('KT') *)
Definition fees_to_kt (op : manager_op) : bool :=
  match op with
  | MTransaction _ (AOriginated _) _ => true
  | MTransferTicket _ _ _ _ (AOriginated _) _ => true
  | _ => false
  end.

Definition fees_abstract (h : header) (op : manager_op) : Fees.mcontent :=
  Fees.mkc (fees_kind op) (fees_to_kt op) (fee h) (counter h) (gas_limit h) (storage_limit h)
           (N.of_nat (22 + length (enc_mop (norm_mop op)))).

Lemma zlen_is_enc_nat_length n : N.of_nat (length (enc_nat n)) = Fees.zlen n.
Proof. rewrite enc_nat_length. reflexivity. Qed.

Lemma fees_size_is_forged_size h op :
  length (snd (source h)) = 20%nat ->
  N.of_nat (length (forge_operation (CManager h op))) = Fees.size (fees_abstract h op).
Proof.
  intro Hs. rewrite forge_operation_spec. unfold enc_content. cbn [normalise].
  unfold Fees.size, fees_abstract. cbn [Fees.mkc Fees.rest Fees.fee Fees.counter Fees.gas_limit Fees.storage_limit].
  rewrite <- !zlen_is_enc_nat_length.
  cbn [length]. rewrite app_length.
  assert (Hh : length (enc c_header h) =
               (21 + length (enc_nat (fee h)) + length (enc_nat (counter h)) + length (enc_nat (gas_limit h))
                + length (enc_nat (storage_limit h)))%nat).
  { destruct h as [[k hs] f c g st]. cbn in *. rewrite !app_length, Hs. lia. }
  rewrite Hh. lia.
Qed.

(* ================================================================ strictness: the decoder accepts only canonical bytes *)

Definition codec_strict {A} (c : codec A) : Prop :=
  forall bs a r, dec c bs = Some (a, r) -> bs = enc c a ++ r.

Lemma take_some n bs a r : take n bs = Some (a, r) -> bs = a ++ r /\ length a = n.
Proof.
  unfold take. destruct (Nat.ltb_spec (length bs) n) as [H|H]; [discriminate|].
  intro E. injection E as <- <-. split; [symmetry; apply firstn_skipn | apply firstn_length_le, H].
Qed.

Lemma omap_some {A B} (f : A -> B) o b r : omap f o = Some (b, r) -> exists a, o = Some (a, r) /\ b = f a.
Proof. destruct o as [[a r']|]; simpl; [|discriminate]. intro E. injection E as <- <-. eauto. Qed.

Lemma snoc_decompose {A} (l : list A) w : length l = S w -> exists l' b, l = l' ++ [b] /\ length l' = w.
Proof.
  intro H. destruct (exists_last (l := l)) as [l' [b E]]; [intro E; subst; discriminate|].
  exists l', b. split; [exact E|]. subst l. rewrite app_length in H. simpl in H. lia.
Qed.

Lemma N_to_be_be_to_N w : forall l, length l = w -> N_to_be w (be_to_N l) = l.
Proof.
  induction w as [|w IH]; intros l H.
  - destruct l; [reflexivity | discriminate].
  - destruct (snoc_decompose l w H) as [l' [b [-> Hl]]].
    unfold be_to_N. rewrite be_to_N_acc_snoc. fold (be_to_N l'). cbn [N_to_be].
    pose proof (to_N_lt_256 b) as Hb.
    replace ((be_to_N l' * 256 + Byte.to_N b) / 256) with (be_to_N l').
    2:{ rewrite N.div_add_l by lia. rewrite N.div_small by exact Hb. lia. }
    rewrite (IH l' Hl). f_equal. f_equal.
    rewrite <- (b8_to_N b) at 2. apply to_N_inj. rewrite !to_N_b8.
    rewrite N.add_comm, N.mod_add by lia. reflexivity.
Qed.

Lemma c_fix_strict n : codec_strict (c_fix n).
Proof. intros bs a r H. simpl in *. apply take_some in H. apply H. Qed.

Lemma c_nat_strict : codec_strict c_nat.
Proof. intros bs a r H. simpl in *. apply enc_dec_nat, H. Qed.

Lemma c_uint_strict w : codec_strict (c_uint w).
Proof.
  intros bs a r H. simpl in *. apply omap_some in H. destruct H as [l [H ->]].
  apply take_some in H. destruct H as [-> Hl]. rewrite (N_to_be_be_to_N w l Hl). reflexivity.
Qed.

Lemma dec_dyn_strict bs b r : dec_dyn bs = Some (b, r) -> bs = enc_dyn b ++ r.
Proof.
  unfold dec_dyn, enc_dyn. destruct (take 4 bs) as [[l rest]|] eqn:E; [|discriminate].
  apply take_some in E. destruct E as [-> Hl].
  destruct (N.ltb_spec (nlength rest) (be_to_N l)) as [H|H]; [discriminate|].
  intro E. injection E as <- <-.
  assert (Hn : (N.to_nat (be_to_N l) <= length rest)%nat) by (unfold nlength in H; lia).
  assert (Hb : nlength (firstn (N.to_nat (be_to_N l)) rest) = be_to_N l).
  { unfold nlength. rewrite firstn_length_le by exact Hn. apply N2Nat.id. }
  rewrite Hb, (N_to_be_be_to_N 4 l Hl), <- app_assoc, firstn_skipn. reflexivity.
Qed.

Lemma c_dyn_strict : codec_strict c_dyn.
Proof. intros bs a r H. apply dec_dyn_strict, H. Qed.

Lemma c_opt_strict {A} (c : codec A) : codec_strict c -> codec_strict (c_opt c).
Proof.
  intros Hc bs o r H. cbn [dec c_opt] in H. destruct bs as [|t bs]; [discriminate|].
  destruct t; try discriminate.
  - injection H as <- <-. reflexivity.
  - apply omap_some in H. destruct H as [a [H ->]]. apply Hc in H. subst bs. reflexivity.
Qed.

Lemma c_pair_strict {A B} (ca : codec A) (cb : codec B) : codec_strict ca -> codec_strict cb -> codec_strict (c_pair ca cb).
Proof.
  intros Ha Hb bs [a b] r H. cbn [dec c_pair] in H.
  destruct (dec ca bs) as [[a' r1]|] eqn:E1; [|discriminate].
  apply omap_some in H. destruct H as [b' [E2 E]]. injection E as -> ->.
  apply Ha in E1. apply Hb in E2. subst. cbn. rewrite <- app_assoc. reflexivity.
Qed.

Lemma c_map_strict {A B} (to : B -> A) (from : A -> B) (c : codec A) :
  (forall a, to (from a) = a) -> codec_strict c -> codec_strict (c_map to from c).
Proof.
  intros Htf Hc bs b r H. cbn [dec c_map] in H. apply omap_some in H. destruct H as [a [H ->]].
  apply Hc in H. subst bs. cbn. rewrite Htf. reflexivity.
Qed.

Lemma curve_of_tag_some t k : curve_of_tag (Byte.to_N t) = Some k -> t = b8 (curve_tag k).
Proof.
  intro H. rewrite <- (b8_to_N t). f_equal.
  destruct (Byte.to_N t) as [|p]; [injection H as <-; reflexivity|].
  destruct p as [[|[]|]|[[]|[]|]|]; try discriminate; injection H as <-; reflexivity.
Qed.

Lemma c_pkh_strict : codec_strict c_pkh.
Proof.
  intros bs [k h] r H. cbn [dec c_pkh] in H. destruct bs as [|t bs]; [discriminate|].
  destruct (curve_of_tag (Byte.to_N t)) as [k'|] eqn:E; [|discriminate].
  apply omap_some in H. destruct H as [h' [H E2]]. injection E2 as -> ->.
  apply take_some in H. destruct H as [-> _]. apply curve_of_tag_some in E. subst t. reflexivity.
Qed.

Lemma c_pk_strict : codec_strict c_pk.
Proof.
  intros bs [k h] r H. cbn [dec c_pk] in H. destruct bs as [|t bs]; [discriminate|].
  destruct (curve_of_tag (Byte.to_N t)) as [k'|] eqn:E; [|discriminate].
  apply omap_some in H. destruct H as [h' [H E2]]. injection E2 as -> ->.
  apply take_some in H. destruct H as [-> _]. apply curve_of_tag_some in E. subst t. reflexivity.
Qed.

Lemma c_address_strict : codec_strict c_address.
Proof.
  intros bs a r H. cbn [dec c_address] in H. destruct bs as [|t bs]; [discriminate|].
  destruct t; try discriminate.
  - apply omap_some in H. destruct H as [k [H ->]]. apply c_pkh_strict in H. subst bs. reflexivity.
  - destruct (take 20 bs) as [[h rest]|] eqn:E; [|discriminate].
    destruct rest as [|z rest]; [discriminate|]. destruct z; try discriminate.
    injection H as <- <-. apply take_some in E. destruct E as [-> _]. cbn. rewrite <- app_assoc. reflexivity.
  - destruct (take 20 bs) as [[h rest]|] eqn:E; [|discriminate].
    destruct rest as [|z rest]; [discriminate|]. destruct z; try discriminate.
    injection H as <- <-. apply take_some in E. destruct E as [-> _]. cbn. rewrite <- app_assoc. reflexivity.
Qed.

Lemma find_name_of_tag_spec : forall t name, find_tag spec_reserved t = Some name -> find_name spec_reserved name = Some t /\ t < 10.
Proof.
  intros t name H. unfold spec_reserved in H. cbn [find_tag] in H.
  repeat match type of H with
  | (if ?a =? t then _ else _) = _ =>
      let E := fresh "E" in
      destruct (N.eqb_spec a t) as [E|E];
      [subst t; injection H as <-; split; reflexivity |]
  end.
  discriminate.
Qed.

Lemma c_entrypoint_strict : codec_strict c_entrypoint.
Proof.
  intros bs name r H. cbn [dec enc c_entrypoint] in *. unfold dec_entrypoint, enc_entrypoint in *.
  destruct bs as [|t bs]; [discriminate|].
  assert (Htag : forall bs', match find_tag spec_reserved (Byte.to_N t) with Some nm => Some (nm, bs') | None => None end = Some (name, r) ->
                 t :: bs' = match find_name spec_reserved name with Some t0 => [b8 t0] | None => xff :: b8 (nlength name) :: name end ++ r).
  { intros bs' H'. destruct (find_tag spec_reserved (Byte.to_N t)) as [nm|] eqn:E; [|discriminate].
    injection H' as -> ->. destruct (find_name_of_tag_spec _ _ E) as [E2 _]. rewrite E2, b8_to_N. reflexivity. }
  destruct t; try (apply Htag; exact H).
  destruct bs as [|l bs]; [apply (Htag []); exact H|].
  destruct (take (N.to_nat (Byte.to_N l)) bs) as [[nm r']|] eqn:E; [|discriminate].
  destruct (find_name spec_reserved nm) eqn:En; [discriminate|].
  destruct ((1 <=? length nm)%nat && (length nm <=? 31)%nat); [|discriminate].
  injection H as -> ->. rewrite En. apply take_some in E. destruct E as [-> Hl].
  unfold nlength. rewrite Hl, N2Nat.id, b8_to_N. reflexivity.
Qed.

Lemma dec_many_strict {A} (e : A -> bytes) (d : bytes -> option (A * bytes)) :
  (forall bs a r, d bs = Some (a, r) -> bs = e a ++ r) ->
  forall fuel bs l, dec_many d fuel bs = Some l -> bs = concat (map e l).
Proof.
  intros Hd fuel. induction fuel as [|f IH]; intros bs l H.
  - destruct bs; [injection H as <-; reflexivity | discriminate].
  - destruct bs as [|x xs]; [injection H as <-; reflexivity|].
    cbn [dec_many] in H. destruct (d (x :: xs)) as [[a r]|] eqn:E; [|discriminate].
    destruct (dec_many d f r) as [l'|] eqn:E2; [|discriminate]. injection H as <-.
    apply Hd in E. apply IH in E2. rewrite E, E2. reflexivity.
Qed.

Lemma c_msgs_strict : codec_strict c_msgs.
Proof.
  intros bs l r H. cbn [dec enc c_msgs] in *. unfold dec_msgs, enc_msgs in *.
  destruct (dec_dyn bs) as [[blob r']|] eqn:E; [|discriminate].
  destruct (dec_many dec_dyn (length blob) blob) as [l'|] eqn:E2; [|discriminate].
  injection H as -> ->. apply dec_dyn_strict in E. apply (dec_many_strict enc_dyn) in E2; [|apply dec_dyn_strict].
  subst blob. exact E.
Qed.

Lemma c_header_strict : codec_strict c_header.
Proof.
  apply c_map_strict.
  - intros [s [f [c [g st]]]]. reflexivity.
  - repeat apply c_pair_strict; try apply c_nat_strict. apply c_pkh_strict.
Qed.

Local Hint Resolve c_fix_strict c_nat_strict c_uint_strict c_dyn_strict c_pkh_strict c_pk_strict c_address_strict c_entrypoint_strict
  c_msgs_strict c_header_strict : strict.
Local Hint Extern 1 (codec_strict (c_opt _)) => apply c_opt_strict : strict.
Local Hint Extern 1 (codec_strict (c_pair _ _)) => apply c_pair_strict : strict.

Lemma c_reveal_strict : codec_strict c_reveal. Proof. unfold c_reveal. auto with strict. Qed.
Lemma c_transaction_strict : codec_strict c_transaction. Proof. unfold c_transaction, c_params. auto 10 with strict. Qed.
Lemma c_origination_strict : codec_strict c_origination. Proof. unfold c_origination. auto 10 with strict. Qed.
Lemma c_delegation_strict : codec_strict c_delegation. Proof. unfold c_delegation. auto with strict. Qed.
Lemma c_transfer_ticket_strict : codec_strict c_transfer_ticket. Proof. unfold c_transfer_ticket. auto 12 with strict. Qed.
Lemma c_sr_execute_strict : codec_strict c_sr_execute. Proof. unfold c_sr_execute. auto 10 with strict. Qed.
Lemma c_activate_strict : codec_strict c_activate. Proof. unfold c_activate. auto with strict. Qed.

(* a decoded manager operation is in normal form and re-encodes to the bytes read *)
Lemma dec_mop_strict tag bs op r :
  dec_mop tag bs = Some (op, r) -> bs = enc_mop op ++ r /\ mop_tag op = tag /\ norm_mop op = op.
Proof.
  unfold dec_mop.
  destruct (N.eq_dec tag 107) as [->|N1]; [|destruct (N.eq_dec tag 108) as [->|N2]; [|destruct (N.eq_dec tag 109) as [->|N3];
    [|destruct (N.eq_dec tag 110) as [->|N4]; [|destruct (N.eq_dec tag 111) as [->|N5]; [|destruct (N.eq_dec tag 158) as [->|N6];
    [|destruct (N.eq_dec tag 201) as [->|N7]; [|destruct (N.eq_dec tag 206) as [->|N8]]]]]]]].
  - intro H. apply omap_some in H. destruct H as [[pk pr] [H ->]]. apply c_reveal_strict in H. auto.
  - destruct (dec c_transaction bs) as [[[a [d p]] r']|] eqn:E; [|discriminate]. cbn [fst snd].
    intro H. apply c_transaction_strict in E.
    destruct (norm_params p) as [q|] eqn:En.
    + injection H as <- <-. repeat split; [exact E|]. cbn. f_equal.
      destruct p as [[ep v]|]; [|discriminate]. unfold norm_params in *.
      destruct (bytes_eqb ep default_name && bytes_eqb v unit_value); [discriminate | reflexivity].
    + destruct p as [x|]; [discriminate|]. injection H as <- <-. repeat split. exact E.
  - intro H. apply omap_some in H. destruct H as [[b [dl [c s]]] [H ->]]. apply c_origination_strict in H. auto.
  - intro H. apply omap_some in H. destruct H as [dl [H ->]]. apply c_delegation_strict in H. auto.
  - intro H. apply omap_some in H. destruct H as [v [H ->]]. apply c_dyn_strict in H. auto.
  - intro H. apply omap_some in H. destruct H as [[c [t [tk [a [d e]]]]] [H ->]]. apply c_transfer_ticket_strict in H. auto.
  - intro H. apply omap_some in H. destruct H as [ms [H ->]]. apply c_msgs_strict in H. auto.
  - intro H. apply omap_some in H. destruct H as [[rl [c p]] [H ->]]. apply c_sr_execute_strict in H. auto.
  - (* unknown tag *)
    destruct tag as [|p]; [discriminate|].
    repeat (destruct p as [p|p|]; try discriminate; try (exfalso; lia)).
Qed.

Lemma byte_of_to_N t k : Byte.to_N t = k -> t = b8 k.
Proof. intros <-. symmetry. apply b8_to_N. Qed.

Lemma dec_content_strict bs c r : dec_content bs = Some (c, r) -> bs = enc_content c ++ r /\ normalise c = c.
Proof.
  unfold dec_content. destruct bs as [|t bs]; [discriminate|].
  destruct (N.eq_dec (Byte.to_N t) 0) as [E0|N0]; [rewrite E0|destruct (N.eq_dec (Byte.to_N t) 4) as [E4|N4];
    [rewrite E4|destruct (N.eq_dec (Byte.to_N t) 17) as [E17|N17]; [rewrite E17|]]].
  - intro H. apply omap_some in H. destruct H as [l [H ->]]. apply (c_uint_strict 4) in H. subst bs.
    apply byte_of_to_N in E0. subst t. split; reflexivity.
  - intro H. apply omap_some in H. destruct H as [[p s] [H ->]]. apply c_activate_strict in H. subst bs.
    apply byte_of_to_N in E4. subst t. split; reflexivity.
  - intro H. apply omap_some in H. destruct H as [a [H ->]]. apply c_dyn_strict in H. subst bs.
    apply byte_of_to_N in E17. subst t. split; reflexivity.
  - assert (Hm : forall X0 X4 X17 Y : option (content * bytes), match Byte.to_N t with 0 => X0 | 4 => X4 | 17 => X17 | _ => Y end = Y).
    { intros. destruct (Byte.to_N t) as [|p]; [contradiction|].
      repeat (destruct p as [p|p|]; try reflexivity; try contradiction). }
    rewrite Hm. destruct (dec c_header bs) as [[h r1]|] eqn:E; [|discriminate].
    intro H. apply omap_some in H. destruct H as [op [H ->]].
    apply c_header_strict in E. apply dec_mop_strict in H. destruct H as [H1 [H2 H3]].
    split.
    + unfold enc_content. cbn [content_tag normalise]. rewrite H3, H2, b8_to_N. subst. cbn [app]. rewrite <- app_assoc. reflexivity.
    + cbn [normalise]. rewrite H3. reflexivity.
Qed.

Lemma dec_group_strict bs g : dec_group bs = Some g -> enc_group g = bs /\ norm_group g = g.
Proof.
  unfold dec_group. destruct (take 32 bs) as [[b r]|] eqn:E; [|discriminate].
  destruct (dec_many dec_content (length r) r) as [cs|] eqn:E2; [|discriminate].
  intro H. injection H as <-. apply take_some in E. destruct E as [-> _].
  unfold enc_group, norm_group. cbn.
  assert (Hall : forall fuel bs cs, dec_many dec_content fuel bs = Some cs ->
                 bs = concat (map enc_content cs) /\ map normalise cs = cs).
  { clear. induction fuel as [|f IH]; intros bs cs H.
    - destruct bs; [injection H as <-; split; reflexivity | discriminate].
    - destruct bs as [|x xs]; [injection H as <-; split; reflexivity|].
      cbn [dec_many] in H. destruct (dec_content (x :: xs)) as [[c r]|] eqn:E; [|discriminate].
      destruct (dec_many dec_content f r) as [l'|] eqn:E2; [|discriminate]. injection H as <-.
      apply dec_content_strict in E. destruct E as [E En]. apply IH in E2. destruct E2 as [E2 En2].
      split; [rewrite E, E2; reflexivity | cbn; rewrite En, En2; reflexivity]. }
  destruct (Hall _ _ _ E2) as [H1 H2]. split; [rewrite H1; reflexivity | rewrite H2; reflexivity].
Qed.
