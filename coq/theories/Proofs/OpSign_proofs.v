(* Proofs/OpSign_proofs.v — lemmas about Client/OpSign.v (C23). *)
From Coq.Strings Require Import Byte.
From Coq Require Import List NArith ZArith Bool Lia.
From PV Require Import Base.Bytes Base.Result Codec.Ops Proofs.Ops_proofs Client.OpSign.
Import ListNotations.

Lemma existsb_neg_Forall (l : list content) p :
  existsb (fun c => negb (Z.eqb (validation_pass c) p)) l = false <-> Forall (fun c => validation_pass c = p) l.
Proof.
  induction l as [|c l IH]; simpl.
  - split; [constructor | reflexivity].
  - rewrite orb_false_iff, IH, negb_false_iff, Z.eqb_eq, Forall_cons_iff. tauto.
Qed.

Section Laws.
  Variables sk pk : Type.
  Variable pk_of : kcurve -> sk -> pk.
  Variable sign_raw : kcurve -> sk -> bytes -> bytes.
  Variable verify_raw : kcurve -> pk -> bytes -> bytes -> bool.
  Variable blake2b32 : bytes -> bytes.
  Variable b58 : b58kind -> bytes -> bytes.
  Variable unb58 : bytes -> option bytes.

  (* the laws assumed of the oracles *)
  Hypothesis sign_verifies : forall c k m, verify_raw c (pk_of c k) m (sign_raw c k m) = true.
  Hypothesis sign_length : forall c k m, length (sign_raw c k m) = b58_len (sig_kind c).
  Hypothesis b58_roundtrip : forall kd raw, length raw = b58_len kd -> unb58 (b58 kd raw) = Some raw.

  Definition chain_bytes (chain : option bytes) : bytes := match chain with Some ch => ch | None => [] end.

  (* soundness of the watermark choice *)
  Lemma watermark_sound g chain w :
    watermark g chain = Ok w ->
    uniform_pass g /\ (consensus_group g = true -> chain <> None) /\ w = spec_watermark g (chain_bytes chain).
  Proof.
    unfold watermark, uniform_pass, spec_watermark, consensus_group, is_consensus.
    destruct (contents g) as [|c0 l] eqn:E; [discriminate|].
    destruct (existsb _ (c0 :: l)) eqn:Ex; [discriminate|].
    apply existsb_neg_Forall in Ex. intro H.
    destruct (Z.eqb (validation_pass c0) 0) eqn:Ep.
    - destruct chain as [ch|]; [|discriminate]. injection H as <-.
      split; [exact Ex|]. split; [discriminate | reflexivity].
    - injection H as <-. split; [exact Ex|]. split; [discriminate | reflexivity].
  Qed.

  Lemma watermark_complete g chain :
    uniform_pass g -> (consensus_group g = true -> chain <> None) ->
    watermark g chain = Ok (spec_watermark g (chain_bytes chain)).
  Proof.
    unfold watermark, uniform_pass, spec_watermark, consensus_group, is_consensus.
    destruct (contents g) as [|c0 l] eqn:E; [contradiction|].
    intros HU HC. apply existsb_neg_Forall in HU. rewrite HU.
    destruct (Z.eqb (validation_pass c0) 0) eqn:Ep; [|reflexivity].
    destruct chain as [ch|]; [reflexivity|]. exfalso. apply HC; reflexivity.
  Qed.

  Lemma watermark_rejects g chain :
    ~ (uniform_pass g /\ (consensus_group g = true -> chain <> None)) -> watermark g chain = Reject.
  Proof.
    intro H. destruct (watermark g chain) as [w|] eqn:E; [|reflexivity].
    exfalso. apply H. destruct (watermark_sound g chain w E) as [H1 [H2 _]]. split; assumption.
  Qed.

  (* signing succeeds for every curve and the signature verifies over watermark ++ canonical bytes *)
  Lemma sign_group_verifies cv key g chain :
    uniform_pass g -> (consensus_group g = true -> chain <> None) ->
    exists s, sign_group sk sign_raw b58 cv key g chain = Ok s /\
              s_msg s = spec_watermark g (chain_bytes chain) ++ enc_group g /\
              verify_raw cv (pk_of cv key) (s_msg s) (s_sig s) = true /\
              s_kind s = sig_kind cv /\ s_text s = b58 (sig_kind cv) (s_sig s).
  Proof.
    intros HU HC. unfold sign_group. rewrite (watermark_complete g chain HU HC).
    rewrite sign_length, PeanoNat.Nat.eqb_refl. eexists. split; [reflexivity|]. cbn.
    rewrite forge_operation_group_spec. repeat split. apply sign_verifies.
  Qed.

  (* whatever sign returns was made under the prescribed watermark; mixed groups are refused *)
  Lemma sign_group_sound cv key g chain s :
    sign_group sk sign_raw b58 cv key g chain = Ok s ->
    uniform_pass g /\ (consensus_group g = true -> chain <> None) /\
    s_msg s = spec_watermark g (chain_bytes chain) ++ enc_group g /\
    s_sig s = sign_raw cv key (s_msg s) /\ s_text s = b58 (s_kind s) (s_sig s) /\ length (s_sig s) = b58_len (s_kind s).
  Proof.
    unfold sign_group. destruct (watermark g chain) as [w|] eqn:E; [|discriminate].
    destruct (watermark_sound g chain w E) as [H1 [H2 H3]].
    destruct (Nat.eqb _ _) eqn:EL; [|discriminate]. intro H. injection H as <-. cbn.
    apply PeanoNat.Nat.eqb_eq in EL. rewrite forge_operation_group_spec in *. subst w. repeat split; try assumption; try reflexivity.
  Qed.

  Lemma sign_group_rejects cv key g chain :
    ~ (uniform_pass g /\ (consensus_group g = true -> chain <> None)) ->
    sign_group sk sign_raw b58 cv key g chain = Reject.
  Proof. intro H. unfold sign_group. rewrite (watermark_rejects g chain H). reflexivity. Qed.

  (* hash = base58 "o" (Blake2b-256 (canonical bytes ++ raw signature)) *)
  Lemma op_hash_formula cv key g chain s :
    sign_group sk sign_raw b58 cv key g chain = Ok s ->
    binary_payload unb58 g s = Ok (enc_group g ++ s_sig s) /\
    op_hash blake2b32 b58 unb58 g s = Ok (b58 KOpHash (blake2b32 (enc_group g ++ s_sig s))).
  Proof.
    intro H. destruct (sign_group_sound cv key g chain s H) as [_ [_ [_ [_ [Ht Hl]]]]].
    unfold op_hash, binary_payload. rewrite Ht, (b58_roundtrip _ _ Hl), forge_operation_group_spec.
    split; reflexivity.
  Qed.
End Laws.

(* non-vacuity of the hypotheses: they are satisfiable (trivial scheme) *)
Lemma laws_satisfiable :
  exists (sign_raw : kcurve -> unit -> bytes -> bytes) (verify_raw : kcurve -> unit -> bytes -> bytes -> bool)
         (b58 : b58kind -> bytes -> bytes) (unb58 : bytes -> option bytes),
    (forall c k m, verify_raw c tt m (sign_raw c k m) = true) /\
    (forall c k m, length (sign_raw c k m) = b58_len (sig_kind c)) /\
    (forall kd raw, length raw = b58_len kd -> unb58 (b58 kd raw) = Some raw).
Proof.
  exists (fun c _ _ => repeat x00 (b58_len (sig_kind c))), (fun _ _ _ _ => true), (fun _ b => b), Some.
  repeat split. intros c k m. apply repeat_length.
Qed.
