(* Proofs/Collections_proofs.v — pytezos' sets and maps (Michelson/Collections.v) are sorted
   dictionaries: strict sortedness is an invariant of every history, every observation agrees
   with the reference dictionary, and literals are accepted iff strictly increasing.
   Hypotheses: [eqb] decides equality of keys and [ltb] is a strict total order (for the
   comparable Michelson types this is Compare_proofs). *)
From Coq Require Import List Bool Arith Sorted Lia ZArith Permutation.
From PV Require Import Base.Bytes Base.Result Michelson.Collections.
Import ListNotations.

Section CollProofs.
  Variables K V : Type.
  Variable eqb : K -> K -> bool.
  Variable ltb : K -> K -> bool.
  Hypothesis eqb_spec : forall a b, eqb a b = true <-> a = b.
  Hypothesis ltb_irrefl : forall a, ltb a a = false.
  Hypothesis ltb_trans : forall a b c, ltb a b = true -> ltb b c = true -> ltb a c = true.
  Hypothesis ltb_total : forall a b, a = b \/ ltb a b = true \/ ltb b a = true.

  Definition lt (a b : K) : Prop := ltb a b = true.
  Definition SS (l : list K) : Prop := StronglySorted lt l.

  Lemma eqb_refl a : eqb a a = true.
  Proof. apply eqb_spec. reflexivity. Qed.

  Lemma eqb_false a b : eqb a b = false <-> a <> b.
  Proof.
    split.
    - intros E H. apply eqb_spec in H. congruence.
    - intro H. destruct (eqb a b) eqn:E; [|reflexivity]. apply eqb_spec in E. contradiction.
  Qed.

  Lemma eqb_sym a b : eqb a b = eqb b a.
  Proof.
    destruct (eqb a b) eqn:E.
    - apply eqb_spec in E. subst. symmetry. apply eqb_refl.
    - apply eqb_false in E. symmetry. apply eqb_false. congruence.
  Qed.

  Lemma lt_asym a b : lt a b -> ltb b a = false.
  Proof.
    intro H. destruct (ltb b a) eqn:E; [|reflexivity].
    pose proof (ltb_trans _ _ _ H E) as X. rewrite ltb_irrefl in X. discriminate.
  Qed.

  Lemma lt_neq a b : lt a b -> a <> b.
  Proof. intros H ->. unfold lt in H. rewrite ltb_irrefl in H. discriminate. Qed.

  Lemma not_lt_neq_lt a b : ltb a b = false -> a <> b -> lt b a.
  Proof. intros H N. destruct (ltb_total a b) as [E|[E|E]]; [contradiction | congruence | exact E]. Qed.

  (* ------------------------------------------------------------ sortedness facts *)

  Lemma SS_inv x l : SS (x :: l) -> SS l /\ Forall (lt x) l.
  Proof. intro H. inversion H; subst. split; assumption. Qed.

  Lemma SS_NoDup l : SS l -> NoDup l.
  Proof.
    induction l as [|x l IH]; intro H; constructor.
    - apply SS_inv in H. destruct H as [_ F]. intro I.
      rewrite Forall_forall in F. apply F in I. apply lt_neq in I. congruence.
    - apply IH. apply SS_inv in H. tauto.
  Qed.

  Lemma NoDup_snoc (x : K) l : NoDup l -> ~ In x l -> NoDup (l ++ [x]).
  Proof.
    induction l as [|y l IH]; simpl; intros N I.
    - constructor; [intros []|constructor].
    - inversion N; subst. constructor.
      + rewrite in_app_iff. simpl. intuition congruence.
      + apply IH; [assumption|]. tauto.
  Qed.

  Lemma SS_filter p l : SS l -> SS (filter p l).
  Proof.
    induction l as [|x l IH]; simpl; intro H; [constructor|].
    apply SS_inv in H. destruct H as [H F].
    destruct (p x); [|apply IH, H]. constructor; [apply IH, H|].
    rewrite Forall_forall in *. intros y I. apply filter_In in I. apply F. tauto.
  Qed.

  Lemma incr_SS l : incr ltb l = true <-> SS l.
  Proof.
    induction l as [|x l IH]; simpl.
    - split; [constructor | reflexivity].
    - destruct l as [|y r].
      + split; [intros _; constructor; constructor | reflexivity].
      + rewrite andb_true_iff, IH. split.
        * intros [L S]. constructor; [exact S|]. apply SS_inv in S. destruct S as [_ F].
          constructor; [exact L|]. eapply Forall_impl; [|exact F].
          intros z Hz. eapply ltb_trans; eauto.
        * intro S. apply SS_inv in S. destruct S as [S F]. split; [|exact S].
          inversion F; assumption.
  Qed.

  Lemma SS_Sorted l : SS l <-> Sorted lt l.
  Proof.
    split; [apply StronglySorted_Sorted|]. apply Sorted_StronglySorted.
    intros a b c. apply ltb_trans.
  Qed.

  (* ------------------------------------------------------------ the stable insertion sort *)

  Section Keyed.
    Variable A : Type.
    Variable key : A -> K.

    Lemma insert_by_In x l z : In z (insert_by ltb key x l) <-> z = x \/ In z l.
    Proof.
      induction l as [|y r IH]; simpl.
      - intuition.
      - destruct (ltb (key y) (key x)); simpl; rewrite ?IH; intuition.
    Qed.

    Lemma insert_by_SS x l : SS (map key l) -> ~ In (key x) (map key l) ->
      SS (map key (insert_by ltb key x l)).
    Proof.
      induction l as [|y r IH]; simpl; intros S N.
      - constructor; constructor.
      - apply SS_inv in S. destruct S as [S F].
        destruct (ltb (key y) (key x)) eqn:E; simpl.
        + constructor.
          * apply IH; [exact S | tauto].
          * rewrite Forall_forall in *. intros k I. apply in_map_iff in I.
            destruct I as [z [<- I]]. apply insert_by_In in I. destruct I as [->|I]; [exact E|].
            apply F. apply in_map, I.
        + assert (L : lt (key x) (key y)) by (apply not_lt_neq_lt; [exact E | intuition congruence]).
          constructor; [constructor; assumption|].
          constructor; [exact L|]. eapply Forall_impl; [|exact F].
          intros z Hz. eapply ltb_trans; eauto.
    Qed.

    Lemma sorted_by_In l z : In z (sorted_by ltb key l) <-> In z l.
    Proof.
      induction l as [|y r IH]; simpl; [tauto|].
      unfold sorted_by in *. simpl. rewrite insert_by_In, IH. intuition.
    Qed.

    Lemma sorted_by_SS l : NoDup (map key l) -> SS (map key (sorted_by ltb key l)).
    Proof.
      induction l as [|y r IH]; simpl; intro N; [constructor|].
      inversion N; subst. unfold sorted_by in *. simpl. apply insert_by_SS; [apply IH; assumption|].
      intro I. apply in_map_iff in I. destruct I as [z [E I]].
      apply (sorted_by_In r z) in I. match goal with H : ~ In _ _ |- _ => apply H end.
      rewrite <- E. apply in_map, I.
    Qed.

    Lemma sorted_by_id l : SS (map key l) -> sorted_by ltb key l = l.
    Proof.
      induction l as [|y r IH]; simpl; intro S; [reflexivity|].
      apply SS_inv in S. destruct S as [S F]. unfold sorted_by in *. simpl. rewrite (IH S).
      destruct r as [|z r']; simpl; [reflexivity|].
      inversion F; subst. rewrite (lt_asym _ _ H1). reflexivity.
    Qed.
  End Keyed.

  (* ------------------------------------------------------------ membership, duplicates, literals *)

  Lemma existsb_eq_In x l : existsb (fun y => eqb y x) l = true <-> In x l.
  Proof.
    rewrite existsb_exists. split.
    - intros [y [I E]]. apply eqb_spec in E. subst. exact I.
    - intro I. exists x. split; [exact I | apply eqb_refl].
  Qed.

  Lemma existsb_eq_In' x l : existsb (fun y => eqb x y) l = true <-> In x l.
  Proof.
    rewrite <- existsb_eq_In.
    assert (E : existsb (fun y => eqb x y) l = existsb (fun y => eqb y x) l).
    { induction l as [|y l IH]; simpl; [reflexivity|]. rewrite IH, (eqb_sym x y). reflexivity. }
    rewrite E. tauto.
  Qed.

  Lemma contains_In x s : set_contains eqb x s = true <-> In x s.
  Proof. apply existsb_eq_In. Qed.

  Lemma nodupb_spec l : nodupb eqb l = true <-> NoDup l.
  Proof.
    induction l as [|x l IH]; simpl.
    - split; [constructor | reflexivity].
    - rewrite andb_true_iff, negb_true_iff, IH. split.
      + intros [E N]. constructor; [|exact N]. intro I. apply existsb_eq_In' in I. congruence.
      + intro N. inversion N; subst. split; [|assumption].
        destruct (existsb (fun y => eqb x y) l) eqn:E; [|reflexivity].
        apply existsb_eq_In' in E. contradiction.
  Qed.

  Lemma map_id_eq (l : list K) : map (fun x => x) l = l.
  Proof. apply map_id. Qed.

  Lemma check_constraints_SS l : check_constraints eqb ltb l = true <-> SS l.
  Proof.
    unfold check_constraints, py_sorted. rewrite andb_true_iff, nodupb_spec, (list_eqb_spec eqb eqb_spec).
    split.
    - intros [N E]. rewrite E. rewrite <- (map_id_eq (sorted_by _ _ _)).
      apply sorted_by_SS. rewrite map_id_eq. exact N.
    - intro S. split; [apply SS_NoDup, S|]. symmetry. apply sorted_by_id. rewrite map_id_eq. exact S.
  Qed.

  Lemma check_constraints_incr l : check_constraints eqb ltb l = incr ltb l.
  Proof.
    destruct (check_constraints eqb ltb l) eqn:C, (incr ltb l) eqn:I; try reflexivity.
    - apply check_constraints_SS, incr_SS in C. congruence.
    - apply incr_SS, check_constraints_SS in I. congruence.
  Qed.

  (* ------------------------------------------------------------ sets *)

  Lemma set_add_SS x s : SS s -> SS (set_add eqb ltb x s).
  Proof.
    intro S. unfold set_add. destruct (set_contains eqb x s) eqn:C; [exact S|].
    unfold py_sorted. rewrite <- (map_id_eq (sorted_by _ _ _)). apply sorted_by_SS.
    rewrite map_id_eq. constructor; [|apply SS_NoDup, S].
    intro I. apply contains_In in I. congruence.
  Qed.

  Lemma set_remove_SS x s : SS s -> SS (set_remove eqb x s).
  Proof. intro S. unfold set_remove. destruct (set_contains eqb x s); [apply SS_filter, S | exact S]. Qed.

  Lemma set_step_SS s op : SS s -> SS (set_step eqb ltb s op).
  Proof.
    intro S. destruct op as [x b|l]; simpl.
    - destruct b; [apply set_add_SS | apply set_remove_SS]; exact S.
    - unfold set_literal. destruct (check_constraints eqb ltb l) eqn:C; [|exact S].
      apply check_constraints_SS, C.
  Qed.

  Lemma fold_left_inv {S O} (step : S -> O -> S) (P : S -> Prop) :
    (forall s o, P s -> P (step s o)) -> forall ops s, P s -> P (fold_left step ops s).
  Proof. intros H ops. induction ops as [|o ops IH]; simpl; intros s Ps; [exact Ps | apply IH, H, Ps]. Qed.

  Lemma set_history_sorted ops : SS (set_run eqb ltb ops).
  Proof.
    unfold set_run. apply (fold_left_inv (set_step eqb ltb) SS); [|constructor].
    intros s o. apply set_step_SS.
  Qed.

  Lemma set_add_In x s y : In y (set_add eqb ltb x s) <-> y = x \/ In y s.
  Proof.
    unfold set_add. destruct (set_contains eqb x s) eqn:C.
    - apply contains_In in C. split; [tauto | intros [->|I]; assumption].
    - unfold py_sorted. rewrite sorted_by_In. simpl. intuition.
  Qed.

  Lemma set_remove_In x s y : In y (set_remove eqb x s) <-> y <> x /\ In y s.
  Proof.
    unfold set_remove. destruct (set_contains eqb x s) eqn:C.
    - rewrite filter_In, negb_true_iff, eqb_false. tauto.
    - split; [|tauto]. intro I. split; [|exact I]. intros ->.
      apply contains_In in I. congruence.
  Qed.

  Lemma bool_eq_iff (a b : bool) : (a = true <-> b = true) -> a = b.
  Proof. destruct a, b; intuition congruence. Qed.

  Lemma set_step_refines s (m : mset K) op :
    (forall y, set_contains eqb y s = m y) ->
    forall y, set_contains eqb y (set_step eqb ltb s op) = ms_step eqb ltb m op y.
  Proof.
    intros R y. destruct op as [x b|l]; simpl.
    - destruct (eqb y x) eqn:E.
      + apply eqb_spec in E. subst y. destruct b; simpl.
        * apply contains_In, set_add_In. left. reflexivity.
        * destruct (set_contains eqb x (set_remove eqb x s)) eqn:C; [|reflexivity].
          apply contains_In, set_remove_In in C. tauto.
      + rewrite <- R. apply eqb_false in E. apply bool_eq_iff. rewrite !contains_In.
        destruct b; simpl; [rewrite set_add_In | rewrite set_remove_In]; tauto.
    - unfold set_literal. rewrite check_constraints_incr. destruct (incr ltb l); [reflexivity | apply R].
  Qed.

  Lemma set_refines ops y : set_contains eqb y (set_run eqb ltb ops) = ms_run eqb ltb ops y.
  Proof.
    unfold set_run, ms_run.
    assert (G : forall ops s (m : mset K), (forall y, set_contains eqb y s = m y) ->
              forall y, set_contains eqb y (fold_left (set_step eqb ltb) ops s) = fold_left (ms_step eqb ltb) ops m y).
    { clear ops y. induction ops as [|o ops IH]; simpl; intros s m R y; [apply R|].
      apply IH. apply set_step_refines, R. }
    apply G. reflexivity.
  Qed.

  (* two strictly sorted lists with the same members are the same list *)
  Lemma SS_canonical a : forall b, SS a -> SS b -> (forall x, In x a <-> In x b) -> a = b.
  Proof.
    induction a as [|x a IH]; intros [|y b] Sa Sb E.
    - reflexivity.
    - exfalso. apply (E y). left. reflexivity.
    - exfalso. apply (E x). left. reflexivity.
    - apply SS_inv in Sa. destruct Sa as [Sa Fa]. apply SS_inv in Sb. destruct Sb as [Sb Fb].
      rewrite Forall_forall in Fa, Fb.
      assert (x = y).
      { destruct (proj1 (E x) (or_introl eq_refl)) as [->|I1]; [reflexivity|].
        destruct (proj2 (E y) (or_introl eq_refl)) as [->|I2]; [reflexivity|].
        apply Fb in I1. apply Fa in I2. apply lt_asym in I1. congruence. }
      subst y. f_equal. apply IH; try assumption.
      intro z. split; intro I.
      + destruct (proj1 (E z) (or_intror I)) as [<-|J]; [|exact J].
        apply Fa, lt_neq in I. congruence.
      + destruct (proj2 (E z) (or_intror I)) as [<-|J]; [|exact J].
        apply Fb, lt_neq in I. congruence.
  Qed.

  Lemma set_canonical ops r : SS r -> (forall y, set_contains eqb y r = ms_run eqb ltb ops y) ->
    set_run eqb ltb ops = r.
  Proof.
    intros S R. apply SS_canonical; [apply set_history_sorted | exact S|].
    intro x. rewrite <- !contains_In, R, set_refines. tauto.
  Qed.

  Lemma set_literal_spec l :
    set_literal eqb ltb l = if incr ltb l then Ok l else Reject.
  Proof. unfold set_literal. rewrite check_constraints_incr. reflexivity. Qed.

  (* ------------------------------------------------------------ maps *)

  Lemma map_get_None k (m : list (K * V)) : map_get eqb k m = None <-> ~ In k (keys m).
  Proof.
    induction m as [|[k' v] m IH]; simpl; [tauto|].
    destruct (eqb k' k) eqn:E.
    - apply eqb_spec in E. subst. split; [discriminate | intro H; exfalso; apply H; left; reflexivity].
    - apply eqb_false in E. rewrite IH. tauto.
  Qed.

  Lemma map_get_In k v (m : list (K * V)) : NoDup (keys m) ->
    (map_get eqb k m = Some v <-> In (k, v) m).
  Proof.
    induction m as [|[k' v'] m IH]; simpl; intro N; [split; [discriminate | tauto]|].
    inversion N; subst. destruct (eqb k' k) eqn:E.
    - apply eqb_spec in E. subst. split.
      + intro H. injection H as ->. left. reflexivity.
      + intros [H|H]; [injection H as ->; reflexivity|].
        exfalso. match goal with X : ~ In _ _ |- _ => apply X end.
        change k with (fst (k, v)). apply in_map, H.
    - apply eqb_false in E. rewrite IH by assumption. split; [tauto|].
      intros [H|H]; [injection H as -> ->; congruence | exact H].
  Qed.

  Lemma keys_filter p (m : list (K * V)) :
    keys (filter (fun kv => p (fst kv)) m) = filter p (keys m).
  Proof.
    induction m as [|[k v] m IH]; simpl; [reflexivity|].
    destruct (p k); simpl; rewrite IH; reflexivity.
  Qed.

  Lemma keys_map_snd (g : K * V -> V) (m : list (K * V)) :
    keys (map (fun kv => (fst kv, g kv)) m) = keys m.
  Proof. unfold keys. rewrite List.map_map. apply map_ext. reflexivity. Qed.

  Lemma map_update_SS k vo (m : list (K * V)) : SS (keys m) -> SS (keys (snd (map_update eqb ltb k vo m))).
  Proof.
    intro S. unfold map_update. simpl.
    destruct (map_get eqb k m) as [pv|] eqn:G; destruct vo as [v|].
    - rewrite (keys_map_snd (fun kv => if negb (eqb (fst kv) k) then snd kv else v)). exact S.
    - rewrite (keys_filter (fun k' => negb (eqb k' k))). apply SS_filter, S.
    - unfold keys. apply sorted_by_SS. rewrite map_app. simpl.
      apply map_get_None in G. apply SS_NoDup in S.
      apply NoDup_snoc; assumption.
    - exact S.
  Qed.

  Lemma map_literal_SS (l m' : list (K * V)) : map_literal eqb ltb l = Ok m' -> SS (keys m').
  Proof.
    unfold map_literal. destruct (check_constraints eqb ltb (keys l)) eqn:C; [|discriminate].
    intro H. injection H as <-. apply check_constraints_SS, C.
  Qed.

  Lemma map_step_SS (m : list (K * V)) op : SS (keys m) -> SS (keys (map_step eqb ltb m op)).
  Proof.
    intro S. destruct op as [k vo|k vo|f|l]; simpl; try (apply map_update_SS, S).
    - destruct (map_map eqb ltb f m) as [m'|] eqn:E; [|exact S].
      unfold map_map in E. destruct m; [injection E as <-; exact S|].
      apply (map_literal_SS _ _ E).
    - destruct (map_literal eqb ltb l) as [m'|] eqn:E; [|exact S].
      apply (map_literal_SS _ _ E).
  Qed.

  Lemma map_history_sorted (ops : list (map_op K V)) : SS (keys (map_run eqb ltb ops)).
  Proof.
    unfold map_run. apply (fold_left_inv (map_step eqb ltb) (fun m : list (K * V) => SS (keys m))); [|constructor].
    intros s o. apply map_step_SS.
  Qed.

  (* MAP never rejects on a sorted map: keys are unchanged *)
  Lemma map_map_ok f (m : list (K * V)) : SS (keys m) ->
    map_map eqb ltb f m = Ok (map (fun kv => (fst kv, f (fst kv) (snd kv))) m).
  Proof.
    intro S. unfold map_map. destruct m as [|kv m]; [reflexivity|].
    unfold map_literal. rewrite (keys_map_snd (fun kv => f (fst kv) (snd kv))).
    apply check_constraints_SS in S. rewrite S. reflexivity.
  Qed.

  Lemma map_get_replace k v k' (m : list (K * V)) : map_get eqb k m <> None ->
    map_get eqb k' (map (fun kv => (fst kv, if negb (eqb (fst kv) k) then snd kv else v)) m)
    = if eqb k' k then Some v else map_get eqb k' m.
  Proof.
    induction m as [|[k0 v0] m IH]; simpl; intro H; [congruence|].
    destruct (eqb k0 k') eqn:E1.
    - apply eqb_spec in E1. subst k0. destruct (eqb k' k); reflexivity.
    - destruct (eqb k0 k) eqn:E2.
      + apply eqb_spec in E2. subst k0. rewrite (eqb_sym k' k), E1.
        clear IH H. induction m as [|[k1 v1] m IH]; simpl; [reflexivity|].
        destruct (eqb k1 k') eqn:E3; [|exact IH].
        apply eqb_spec in E3. subst k1. rewrite (eqb_sym k' k), E1. reflexivity.
      + apply IH, H.
  Qed.

  Lemma map_get_filter k k' (m : list (K * V)) :
    map_get eqb k' (filter (fun kv => negb (eqb (fst kv) k)) m)
    = if eqb k' k then None else map_get eqb k' m.
  Proof.
    induction m as [|[k0 v0] m IH]; simpl; [destruct (eqb k' k); reflexivity|].
    destruct (eqb k0 k) eqn:E2; simpl.
    - apply eqb_spec in E2. subst k0. rewrite IH. rewrite (eqb_sym k k').
      destruct (eqb k' k); reflexivity.
    - destruct (eqb k0 k') eqn:E1; [|exact IH].
      apply eqb_spec in E1. subst k0. rewrite E2. reflexivity.
  Qed.

  Lemma map_get_map (f : K -> V -> V) k' (m : list (K * V)) :
    map_get eqb k' (map (fun kv => (fst kv, f (fst kv) (snd kv))) m)
    = match map_get eqb k' m with Some v => Some (f k' v) | None => None end.
  Proof.
    induction m as [|[k0 v0] m IH]; simpl; [reflexivity|].
    destruct (eqb k0 k') eqn:E; [|exact IH]. apply eqb_spec in E. subst. reflexivity.
  Qed.

  Lemma map_get_insert_new k v k' (m : list (K * V)) : SS (keys m) -> map_get eqb k m = None ->
    map_get eqb k' (sorted_by ltb fst (m ++ [(k, v)])) = if eqb k' k then Some v else map_get eqb k' m.
  Proof.
    intros S G.
    assert (N : NoDup (keys (m ++ [(k, v)]))).
    { unfold keys. rewrite map_app. simpl.
      apply NoDup_snoc; [apply SS_NoDup, S | apply map_get_None, G]. }
    assert (N' : NoDup (keys (sorted_by ltb fst (m ++ [(k, v)])))).
    { apply SS_NoDup. unfold keys. apply sorted_by_SS, N. }
    destruct (eqb k' k) eqn:E.
    - apply eqb_spec in E. subst k'. apply map_get_In; [exact N'|].
      apply sorted_by_In, in_or_app. right. left. reflexivity.
    - destruct (map_get eqb k' m) as [v'|] eqn:G'.
      + apply map_get_In; [exact N'|]. apply sorted_by_In, in_or_app. left.
        apply map_get_In; [apply SS_NoDup, S | exact G'].
      + apply map_get_None. intro I. unfold keys in I. apply in_map_iff in I.
        destruct I as [[k1 v1] [E1 I]]. simpl in E1. subst k1.
        apply sorted_by_In, in_app_or in I. destruct I as [I|[I|[]]].
        * apply map_get_None in G'. apply G'. change k' with (fst (k', v1)). apply in_map, I.
        * injection I as -> _. rewrite eqb_refl in E. discriminate.
  Qed.

  Lemma map_update_refines k vo (m : list (K * V)) k' : SS (keys m) ->
    map_get eqb k' (snd (map_update eqb ltb k vo m)) = d_update eqb k vo (fun x => map_get eqb x m) k'.
  Proof.
    intro S. unfold map_update, d_update. simpl.
    destruct (map_get eqb k m) as [pv|] eqn:G; destruct vo as [v|].
    - apply map_get_replace. congruence.
    - apply map_get_filter.
    - apply map_get_insert_new; assumption.
    - destruct (eqb k' k) eqn:E; [|reflexivity]. apply eqb_spec in E. subst. exact G.
  Qed.

  (* the simulation relation: sorted, and lookups agree pointwise *)
  Definition refines (m : list (K * V)) (d : dict K V) : Prop :=
    SS (keys m) /\ forall k, map_get eqb k m = d k.

  Lemma map_step_refines m d op : refines m d -> refines (map_step eqb ltb m op) (d_step eqb ltb d op).
  Proof.
    intros [S R]. split; [apply map_step_SS, S|]. intro k'.
    destruct op as [k vo|k vo|f|l]; cbn [map_step d_step].
    - rewrite map_update_refines by exact S. unfold d_update. rewrite R. reflexivity.
    - rewrite map_update_refines by exact S. unfold d_update. rewrite R. reflexivity.
    - rewrite map_map_ok by exact S. rewrite map_get_map. unfold d_map. rewrite R. reflexivity.
    - unfold map_literal. rewrite check_constraints_incr.
      destruct (incr ltb (keys l)); [reflexivity | apply R].
  Qed.

  Lemma map_run_refines (ops : list (map_op K V)) : refines (map_run eqb ltb ops) (d_run eqb ltb ops).
  Proof.
    unfold map_run, d_run.
    assert (G : forall ops m d, refines m d -> refines (fold_left (map_step eqb ltb) ops m) (fold_left (d_step eqb ltb) ops d)).
    { clear ops. induction ops as [|o ops IH]; simpl; intros m d R; [exact R|].
      apply IH, map_step_refines, R. }
    apply G. split; [constructor | reflexivity].
  Qed.

  Lemma map_refines (ops : list (map_op K V)) k : map_get eqb k (map_run eqb ltb ops) = d_run eqb ltb ops k.
  Proof. apply map_run_refines. Qed.

  (* GET_AND_UPDATE returns what the reference held before the update *)
  Lemma get_and_update_prev (ops : list (map_op K V)) k vo :
    fst (map_update eqb ltb k vo (map_run eqb ltb ops)) = d_run eqb ltb ops k.
  Proof. simpl. apply map_refines. Qed.

  Lemma map_mem_refines (ops : list (map_op K V)) k :
    map_mem eqb k (map_run eqb ltb ops) = match d_run eqb ltb ops k with Some _ => true | None => false end.
  Proof. unfold map_mem. rewrite map_refines. reflexivity. Qed.

  Lemma map_get_lt_None k (m : list (K * V)) : Forall (lt k) (keys m) -> map_get eqb k m = None.
  Proof.
    intro F. apply map_get_None. intro I. rewrite Forall_forall in F. apply F, lt_neq in I. congruence.
  Qed.

  (* a strictly sorted association list is determined by its lookup function *)
  Lemma map_canonical_lists a : forall b : list (K * V), SS (keys a) -> SS (keys b) ->
    (forall k, map_get eqb k a = map_get eqb k b) -> a = b.
  Proof.
    induction a as [|[k1 v1] a IH]; intros [|[k2 v2] b] Sa Sb E.
    - reflexivity.
    - specialize (E k2). simpl in E. rewrite eqb_refl in E. discriminate.
    - specialize (E k1). simpl in E. rewrite eqb_refl in E. discriminate.
    - simpl in Sa, Sb. apply SS_inv in Sa. destruct Sa as [Sa Fa]. apply SS_inv in Sb. destruct Sb as [Sb Fb].
      assert (k1 = k2).
      { destruct (ltb_total k1 k2) as [H|[H|H]]; [exact H | |].
        - pose proof (E k1) as X. simpl in X. rewrite eqb_refl in X.
          destruct (eqb k2 k1) eqn:E2; [apply eqb_spec in E2; congruence|].
          rewrite map_get_lt_None in X; [discriminate|].
          eapply Forall_impl; [|exact Fb]. intros z Hz. eapply ltb_trans; eauto.
        - pose proof (E k2) as X. simpl in X. rewrite eqb_refl in X.
          destruct (eqb k1 k2) eqn:E2; [apply eqb_spec in E2; congruence|].
          rewrite map_get_lt_None in X; [discriminate|].
          eapply Forall_impl; [|exact Fa]. intros z Hz. eapply ltb_trans; eauto. }
      subst k2. pose proof (E k1) as X. simpl in X. rewrite eqb_refl in X. injection X as ->.
      f_equal. apply IH; try assumption. intro k. specialize (E k). simpl in E.
      destruct (eqb k1 k) eqn:E1; [|exact E]. apply eqb_spec in E1. subst k.
      rewrite !map_get_lt_None by assumption. reflexivity.
  Qed.

  (* iteration order, SIZE, every GET/MEM: the items list *is* the sorted listing of the reference *)
  Lemma map_canonical (ops : list (map_op K V)) r : SS (keys r) -> (forall k, map_get eqb k r = d_run eqb ltb ops k) ->
    map_run eqb ltb ops = r.
  Proof.
    intros S R. apply map_canonical_lists; [apply map_history_sorted | exact S|].
    intro k. rewrite R. apply map_refines.
  Qed.

  Lemma map_literal_spec (l : list (K * V)) :
    map_literal eqb ltb l = if incr ltb (keys l) then Ok l else Reject.
  Proof. unfold map_literal. rewrite check_constraints_incr. reflexivity. Qed.

  (* "unsorted or duplicate": not strictly increasing means an adjacent pair is out of order or equal *)
  Lemma incr_false l : incr ltb l = false <->
    exists p x y q, l = p ++ x :: y :: q /\ (x = y \/ lt y x).
  Proof.
    induction l as [|x l IH]; simpl.
    - split; [discriminate|]. intros [p [x [y [q [H _]]]]]. destruct p; discriminate.
    - destruct l as [|y r].
      + split; [discriminate|]. intros [p [a [b [q [H _]]]]]. destruct p as [|? [|]]; discriminate.
      + rewrite andb_false_iff. split.
        * intros [L|I].
          -- exists [], x, y, r. split; [reflexivity|].
             destruct (ltb_total x y) as [H|[H|H]]; [left; exact H | congruence | right; exact H].
          -- apply IH in I. destruct I as [p [a [b [q [H D]]]]].
             exists (x :: p), a, b, q. split; [simpl; rewrite H; reflexivity | exact D].
        * intros [p [a [b [q [H D]]]]]. destruct p as [|z p]; simpl in H.
          -- injection H as -> -> ->. left. destruct D as [->|D]; [apply ltb_irrefl | apply lt_asym, D].
          -- injection H as -> H. right. apply IH. exists p, a, b, q. split; assumption.
  Qed.

  (* ------------------------------------------------------------ what is assumed of Python's sorted()
     Only this: on a list whose keys are pairwise distinct it returns a PERMUTATION of its input whose keys
     are non-descending ([sort_ok]).  For a strict total order that determines the result, so any such
     function computes what the model's insertion sort computes, at every place the code calls sorted(). *)

  Definition wsorted (l : list K) : Prop := StronglySorted (fun a b => ltb b a = false) l.

  Lemma wsorted_NoDup_SS l : wsorted l -> NoDup l -> SS l.
  Proof.
    induction l as [|x l IH]; intros W N; [constructor|].
    inversion W as [|? ? W' F]; subst. inversion N as [|? ? Nx N']; subst.
    constructor; [apply IH; assumption|].
    rewrite Forall_forall in *. intros y Hy. apply not_lt_neq_lt; [apply F, Hy|].
    intros ->. contradiction.
  Qed.

  Lemma keyed_canonical {A} (key : A -> K) (a : list A) : forall b,
    SS (map key a) -> SS (map key b) -> (forall x, In x a <-> In x b) -> a = b.
  Proof.
    induction a as [|x a IH]; intros [|y b] Sa Sb E.
    - reflexivity.
    - exfalso. apply (E y). left. reflexivity.
    - exfalso. apply (E x). left. reflexivity.
    - simpl in Sa, Sb. apply SS_inv in Sa. destruct Sa as [Sa Fa]. apply SS_inv in Sb. destruct Sb as [Sb Fb].
      rewrite Forall_forall in Fa, Fb.
      assert (x = y).
      { destruct (proj1 (E x) (or_introl eq_refl)) as [->|I1]; [reflexivity|].
        destruct (proj2 (E y) (or_introl eq_refl)) as [->|I2]; [reflexivity|].
        pose proof (Fb _ (in_map key _ _ I1)) as L1. pose proof (Fa _ (in_map key _ _ I2)) as L2.
        apply lt_asym in L1. congruence. }
      subst y. f_equal. apply IH; try assumption.
      intro z. split; intro I.
      + destruct (proj1 (E z) (or_intror I)) as [<-|J]; [|exact J].
        pose proof (Fa _ (in_map key _ _ I)) as L. apply lt_neq in L. congruence.
      + destruct (proj2 (E z) (or_intror I)) as [<-|J]; [|exact J].
        pose proof (Fb _ (in_map key _ _ I)) as L. apply lt_neq in L. congruence.
  Qed.

  (* uniqueness of the sorted permutation *)
  Lemma sorted_perm_unique {A} (key : A -> K) (l l' : list A) :
    NoDup (map key l) -> Permutation l' l -> wsorted (map key l') -> l' = sorted_by ltb key l.
  Proof.
    intros N P W. apply (keyed_canonical key).
    - apply wsorted_NoDup_SS; [exact W|].
      apply (Permutation_NoDup (l := map key l)); [apply Permutation_map, Permutation_sym, P | exact N].
    - apply sorted_by_SS, N.
    - intro x. rewrite sorted_by_In. split; intro I.
      + apply (Permutation_in x P), I.
      + apply (Permutation_in x (Permutation_sym P)), I.
  Qed.

  Section AnySort.
    Variable srt : forall A : Type, (A -> K) -> list A -> list A.
    Hypothesis sort_ok : forall A (key : A -> K) l, NoDup (map key l) ->
      Permutation (srt A key l) l /\ wsorted (map key (srt A key l)).

    Lemma srt_is_sorted_by {A} (key : A -> K) l : NoDup (map key l) -> srt A key l = sorted_by ltb key l.
    Proof. intro N. destruct (sort_ok A key l N) as [P W]. apply sorted_perm_unique; assumption. Qed.

    (* the operations of set.py / map.py written with the assumed sorted() *)
    Definition check_g (ks : list K) : bool := nodupb eqb ks && list_eqb eqb ks (srt K (fun x => x) ks).
    Definition set_add_g (x : K) (s : list K) : list K :=
      if set_contains eqb x s then s else srt K (fun y => y) (x :: s).
    Definition set_step_g (s : list K) (op : set_op K) : list K :=
      match op with
      | SUpdate x b => if b then set_add_g x s else set_remove eqb x s
      | SLiteral l => if check_g l then l else s
      end.
    Definition map_update_g (k : K) (vo : option V) (m : list (K * V)) : option V * list (K * V) :=
      let prev := map_get eqb k m in
      (prev,
       match prev, vo with
       | Some _, Some v => map (fun kv => (fst kv, if negb (eqb (fst kv) k) then snd kv else v)) m
       | Some _, None => filter (fun kv => negb (eqb (fst kv) k)) m
       | None, Some v => srt (K * V) fst (m ++ [(k, v)])
       | None, None => m
       end).
    Definition map_step_g (m : list (K * V)) (op : map_op K V) : list (K * V) :=
      match op with
      | MUpdate k vo => snd (map_update_g k vo m)
      | MGetAndUpdate k vo => snd (map_update_g k vo m)
      | MMap f => match m with
                  | [] => m
                  | _ => let m' := map (fun kv => (fst kv, f (fst kv) (snd kv))) m in if check_g (keys m') then m' else m
                  end
      | MLiteral l => if check_g (keys l) then l else m
      end.

    Lemma check_g_eq ks : check_g ks = check_constraints eqb ltb ks.
    Proof.
      unfold check_g, check_constraints, py_sorted. destruct (nodupb eqb ks) eqn:N; [|reflexivity].
      apply nodupb_spec in N. rewrite srt_is_sorted_by by (rewrite map_id; exact N). reflexivity.
    Qed.

    Lemma set_step_g_eq s op : SS s -> set_step_g s op = set_step eqb ltb s op.
    Proof.
      intro S. destruct op as [x b|l]; simpl.
      - destruct b; [|reflexivity]. unfold set_update, set_add_g, set_add, py_sorted.
        destruct (set_contains eqb x s) eqn:C; [reflexivity|].
        apply srt_is_sorted_by. rewrite map_id. constructor; [|apply SS_NoDup, S].
        intro I. apply contains_In in I. congruence.
      - unfold set_literal. rewrite check_g_eq. destruct (check_constraints eqb ltb l); reflexivity.
    Qed.

    Lemma set_run_g_eq ops : fold_left set_step_g ops [] = set_run eqb ltb ops.
    Proof.
      unfold set_run. assert (S0 : SS []) by constructor. revert S0. generalize (@nil K).
      induction ops as [|o ops IH]; intros s S; simpl; [reflexivity|].
      rewrite set_step_g_eq by exact S. apply IH, set_step_SS, S.
    Qed.

    Lemma map_step_g_eq (m : list (K * V)) op : SS (keys m) -> map_step_g m op = map_step eqb ltb m op.
    Proof.
      intro S.
      assert (U : forall k vo, map_update_g k vo m = map_update eqb ltb k vo m).
      { intros k vo. unfold map_update_g, map_update. destruct (map_get eqb k m) eqn:G; [reflexivity|].
        destruct vo as [v|]; [|reflexivity]. f_equal. apply srt_is_sorted_by.
        rewrite map_app. simpl. apply NoDup_snoc; [apply SS_NoDup, S | apply map_get_None, G]. }
      destruct op as [k vo|k vo|f|l]; cbn [map_step_g map_step]; rewrite ?U; try reflexivity.
      - unfold map_map, map_literal. destruct m as [|kv m]; [reflexivity|]. rewrite check_g_eq.
        destruct (check_constraints eqb ltb _); reflexivity.
      - unfold map_literal. rewrite check_g_eq. destruct (check_constraints eqb ltb (keys l)); reflexivity.
    Qed.

    Lemma map_run_g_eq (ops : list (map_op K V)) : fold_left map_step_g ops [] = map_run eqb ltb ops.
    Proof.
      unfold map_run. assert (S0 : SS (keys (@nil (K * V)))) by constructor. revert S0. generalize (@nil (K * V)).
      induction ops as [|o ops IH]; intros m S; simpl; [reflexivity|].
      rewrite map_step_g_eq by exact S. apply IH, map_step_SS, S.
    Qed.
  End AnySort.

  (* ------------------------------------------------------------ instruction-level scripts *)

  Lemma set_instr_state s i :
    fst (set_instr_step eqb ltb s i) =
    match set_instr_op i with Some o => set_step eqb ltb s o | None => s end.
  Proof.
    destruct i; simpl; try reflexivity.
    destruct (set_literal eqb ltb l); reflexivity.
  Qed.

  (* the (state, observation) pair recorded for the instruction after prefix [p] is the step taken
     from the state the history of [p] leads to *)
  Lemma set_script_nth p : forall s i q,
    nth_error (set_script eqb ltb s (p ++ i :: q)) (length p)
    = Some (set_instr_step eqb ltb (fold_left (set_step eqb ltb) (ops_of (@set_instr_op K) p) s) i).
  Proof.
    induction p as [|j p IH]; intros s i q; simpl; [reflexivity|].
    rewrite IH. rewrite set_instr_state. destruct (set_instr_op j); reflexivity.
  Qed.

  Lemma map_instr_state (m : list (K * Z)) i :
    fst (map_instr_step eqb ltb m i) =
    match map_instr_op i with Some o => map_step eqb ltb m o | None => m end.
  Proof.
    destruct i; simpl; try reflexivity.
    - destruct (map_map eqb ltb (fun _ v => (v + c)%Z) m); reflexivity.
    - destruct (map_map eqb ltb (fun _ _ => c) m); reflexivity.
    - destruct (map_literal eqb ltb l); reflexivity.
  Qed.

  Lemma map_script_nth p : forall (m : list (K * Z)) i q,
    nth_error (map_script eqb ltb m (p ++ i :: q)) (length p)
    = Some (map_instr_step eqb ltb (fold_left (map_step eqb ltb) (ops_of (@map_instr_op K) p) m) i).
  Proof.
    induction p as [|j p IH]; intros m i q; simpl; [reflexivity|].
    rewrite IH. rewrite map_instr_state. destruct (map_instr_op j); reflexivity.
  Qed.
End CollProofs.

(* ------------------------------------------------------------ erasure
   The model functions are parametric in the key type.  If K' is mapped into K by [f] and K' is
   compared through [f] (eqb' a b = eqb (f a) (f b), same for ltb), every operation commutes with
   [map f].  Used with K' = { v | has_type t v = true }, f = proj1_sig: theorems proved at the
   subtype (where == and < form a key order) transfer to the raw values the correspondence runs on. *)
Section Erase.
  Variables K K' V : Type.
  Variable f : K' -> K.
  Variables eqb ltb : K -> K -> bool.
  Notation eqb' := (fun a b : K' => eqb (f a) (f b)).
  Notation ltb' := (fun a b : K' => ltb (f a) (f b)).
  Notation g := (fun kv : K' * V => (f (fst kv), snd kv)).

  Lemma erase_insert_by {A' A} (key' : A' -> K') (key : A -> K) (h : A' -> A) :
    (forall a, key (h a) = f (key' a)) ->
    forall x l, map h (insert_by ltb' key' x l) = insert_by ltb key (h x) (map h l).
  Proof.
    intros Hk x l. induction l as [|y r IH]; simpl; [reflexivity|].
    rewrite !Hk. destruct (ltb (f (key' y)) (f (key' x))); simpl; [rewrite IH|]; reflexivity.
  Qed.

  Lemma erase_sorted_by {A' A} (key' : A' -> K') (key : A -> K) (h : A' -> A) :
    (forall a, key (h a) = f (key' a)) ->
    forall l, map h (sorted_by ltb' key' l) = sorted_by ltb key (map h l).
  Proof.
    intros Hk l. induction l as [|y r IH]; simpl; [reflexivity|].
    unfold sorted_by in *. simpl. rewrite (erase_insert_by key' key h Hk), IH. reflexivity.
  Qed.

  Lemma erase_existsb x l :
    existsb (fun y => eqb' y x) l = existsb (fun y => eqb y (f x)) (map f l).
  Proof. induction l as [|y r IH]; simpl; [reflexivity|]. rewrite IH. reflexivity. Qed.

  Lemma erase_existsb' x l :
    existsb (fun y => eqb' x y) l = existsb (fun y => eqb (f x) y) (map f l).
  Proof. induction l as [|y r IH]; simpl; [reflexivity|]. rewrite IH. reflexivity. Qed.

  Lemma erase_nodupb l : nodupb eqb' l = nodupb eqb (map f l).
  Proof. induction l as [|y r IH]; simpl; [reflexivity|]. rewrite erase_existsb', IH. reflexivity. Qed.

  Lemma erase_list_eqb a : forall b, list_eqb eqb' a b = list_eqb eqb (map f a) (map f b).
  Proof. induction a as [|x a IH]; intros [|y b]; simpl; try reflexivity. rewrite IH. reflexivity. Qed.

  Lemma erase_check l : check_constraints eqb' ltb' l = check_constraints eqb ltb (map f l).
  Proof.
    unfold check_constraints, py_sorted. rewrite erase_nodupb, erase_list_eqb.
    rewrite (erase_sorted_by (fun x => x) (fun x => x) f) by reflexivity. reflexivity.
  Qed.

  Lemma erase_filter x l :
    map f (filter (fun y => negb (eqb' y x)) l) = filter (fun y => negb (eqb y (f x))) (map f l).
  Proof.
    induction l as [|y r IH]; simpl; [reflexivity|].
    destruct (eqb (f y) (f x)); simpl; rewrite IH; reflexivity.
  Qed.

  (* ---- sets *)
  Definition erase_set_op (o : set_op K') : set_op K :=
    match o with SUpdate x b => SUpdate (f x) b | SLiteral l => SLiteral (map f l) end.

  Lemma erase_set_step s o :
    map f (set_step eqb' ltb' s o) = set_step eqb ltb (map f s) (erase_set_op o).
  Proof.
    destruct o as [x b|l]; simpl.
    - destruct b; simpl.
      + unfold set_add, set_contains. rewrite erase_existsb.
        destruct (existsb (fun y => eqb y (f x)) (map f s)); [reflexivity|].
        unfold py_sorted. rewrite (erase_sorted_by (fun x => x) (fun x => x) f) by reflexivity. reflexivity.
      + unfold set_remove, set_contains. rewrite erase_existsb.
        destruct (existsb (fun y => eqb y (f x)) (map f s)); [apply erase_filter | reflexivity].
    - unfold set_literal. rewrite erase_check. destruct (check_constraints eqb ltb (map f l)); reflexivity.
  Qed.

  Lemma erase_set_run ops :
    map f (set_run eqb' ltb' ops) = set_run eqb ltb (map erase_set_op ops).
  Proof.
    unfold set_run. change (@nil K) with (map f []). generalize (@nil K').
    induction ops as [|o ops IH]; intro s; simpl; [reflexivity|]. rewrite IH, erase_set_step. reflexivity.
  Qed.

  (* ---- maps *)
  Lemma erase_keys (m : list (K' * V)) : keys (map g m) = map f (keys m).
  Proof. unfold keys. rewrite !List.map_map. reflexivity. Qed.

  Lemma erase_map_get k (m : list (K' * V)) : map_get eqb' k m = map_get eqb (f k) (map g m).
  Proof. induction m as [|[k0 v0] m IH]; simpl; [reflexivity|]. rewrite IH. reflexivity. Qed.

  Lemma erase_map_update k vo (m : list (K' * V)) :
    fst (map_update eqb' ltb' k vo m) = fst (map_update eqb ltb (f k) vo (map g m)) /\
    map g (snd (map_update eqb' ltb' k vo m)) = snd (map_update eqb ltb (f k) vo (map g m)).
  Proof.
    unfold map_update. simpl. rewrite <- erase_map_get. split; [reflexivity|].
    destruct (map_get eqb' k m) as [pv|]; destruct vo as [v|].
    - rewrite !List.map_map. apply map_ext. intros [k0 v0]. simpl. destruct (eqb (f k0) (f k)); reflexivity.
    - induction m as [|[k0 v0] m IH]; simpl; [reflexivity|].
      destruct (eqb (f k0) (f k)); simpl; rewrite IH; reflexivity.
    - rewrite (erase_sorted_by fst fst g) by reflexivity. rewrite map_app. reflexivity.
    - reflexivity.
  Qed.

  Lemma erase_map_literal (l : list (K' * V)) :
    match map_literal eqb' ltb' l with Ok x => Ok (map g x) | Reject => Reject end
    = map_literal eqb ltb (map g l).
  Proof.
    unfold map_literal. rewrite erase_keys, erase_check.
    destruct (check_constraints eqb ltb (map f (keys l))); reflexivity.
  Qed.

  Lemma erase_map_map phi (m : list (K' * V)) :
    match map_map eqb' ltb' (fun k' v => phi (f k') v) m with Ok x => Ok (map g x) | Reject => Reject end
    = map_map eqb ltb phi (map g m).
  Proof.
    destruct m as [|kv m]; [reflexivity|].
    assert (X : map (fun kv0 : K * V => (fst kv0, phi (fst kv0) (snd kv0))) (map g (kv :: m))
                = map g (map (fun kv0 : K' * V => (fst kv0, phi (f (fst kv0)) (snd kv0))) (kv :: m)))
      by (rewrite !List.map_map; reflexivity).
    change (map_map eqb ltb phi (map g (kv :: m)))
      with (map_literal eqb ltb (map (fun kv0 : K * V => (fst kv0, phi (fst kv0) (snd kv0))) (map g (kv :: m)))).
    rewrite X, <- erase_map_literal. reflexivity.
  Qed.

  Inductive mop_rel : map_op K' V -> map_op K V -> Prop :=
  | MR_upd k vo : mop_rel (MUpdate k vo) (MUpdate (f k) vo)
  | MR_gau k vo : mop_rel (MGetAndUpdate k vo) (MGetAndUpdate (f k) vo)
  | MR_map phi : mop_rel (MMap (fun k' v => phi (f k') v)) (MMap phi)
  | MR_lit l : mop_rel (MLiteral l) (MLiteral (map g l)).

  Lemma erase_map_step (m : list (K' * V)) o' o : mop_rel o' o ->
    map g (map_step eqb' ltb' m o') = map_step eqb ltb (map g m) o.
  Proof.
    intro R. destruct R as [k vo|k vo|phi|l]; simpl.
    - apply erase_map_update.
    - apply erase_map_update.
    - rewrite <- erase_map_map. destruct (map_map eqb' ltb' (fun k' v => phi (f k') v) m); reflexivity.
    - rewrite <- erase_map_literal. destruct (map_literal eqb' ltb' l); reflexivity.
  Qed.

  Lemma erase_map_run ops' ops : Forall2 mop_rel ops' ops ->
    map g (map_run eqb' ltb' ops') = map_run eqb ltb ops.
  Proof.
    unfold map_run. change (@nil (K * V)) with (map g []). generalize (@nil (K' * V)).
    intros m R. revert m. induction R as [|o' o ops' ops Ro _ IH]; intro m; simpl; [reflexivity|].
    rewrite IH, (erase_map_step m o' o Ro). reflexivity.
  Qed.

  Lemma StronglySorted_map (R' : K' -> K' -> Prop) (R : K -> K -> Prop) :
    (forall a b, R' a b -> R (f a) (f b)) -> forall l, StronglySorted R' l -> StronglySorted R (map f l).
  Proof.
    intros HR l S. induction S as [|x l S IH F]; simpl; constructor; [exact IH|].
    rewrite Forall_forall in *. intros y Hy. apply in_map_iff in Hy. destruct Hy as [z [<- Hz]]. apply HR, F, Hz.
  Qed.
End Erase.

(* the hypotheses in one word *)
Definition key_order {K} (eqb ltb : K -> K -> bool) : Prop :=
  (forall a b, eqb a b = true <-> a = b) /\
  (forall a, ltb a a = false) /\
  (forall a b c, ltb a b = true -> ltb b c = true -> ltb a c = true) /\
  (forall a b, a = b \/ ltb a b = true \/ ltb b a = true).
