(* Proofs/Zarith_proofs.v — lemmas about Codec/Zarith.v.
   Main exports (stable names):
     enc_nat_eqn                 unfolding equation of the LEB128 encoder
     dec_enc_nat, dec_enc_int    decode (encode v ++ rest) = Some (v, rest)
     enc_dec_nat, enc_dec_int    what decodes is the canonical encoding (+ "-0")
     enc_nat_inj, enc_int_inj
     enc_nat_prefix_free, enc_int_prefix_free
     dec_nat_nonminimal, dec_int_nonminimal   trailing-zero encodings are rejected
     dec_nat_iff, dec_int_iff    decoders accept exactly the declarative format
     dec_nat_shorter, dec_int_shorter         decoders consume at least one byte *)
From Coq Require Import List NArith ZArith Bool Lia ZifyBool ZifyN.
From Coq.Strings Require Import Byte.
From PV Require Import Base.Bytes Codec.Zarith.
Import ListNotations.
Local Open Scope N_scope.

Ltac Zify.zify_post_hook ::= Z.to_euclidean_division_equations.

(* ---------------------------------------------------------------- bytes *)

Lemma to_N_b8_small n : n < 256 -> Byte.to_N (b8 n) = n.
Proof. intro H. rewrite to_N_b8. apply N.mod_small, H. Qed.

Lemma byte_x00 b : Byte.to_N b = 0 <-> b = x00.
Proof.
  split.
  - intro H. apply to_N_inj. rewrite H. reflexivity.
  - intros ->. reflexivity.
Qed.

(* ---------------------------------------------------------------- unfolding equations *)

Lemma some_pair_inj {A B} (a a' : A) (b b' : B) : Some (a, b) = Some (a', b') -> a = a' /\ b = b'.
Proof. intro H. inversion H. split; reflexivity. Qed.

Lemma dec_nat_cons b r :
  dec_nat (b :: r) =
  if Byte.to_N b <? 128 then Some (Byte.to_N b, r)
  else match dec_nat r with
       | Some (hi, r') => if hi =? 0 then None else Some (Byte.to_N b - 128 + 128 * hi, r')
       | None => None
       end.
Proof. reflexivity. Qed.

Lemma dec_int_cons b r :
  dec_int (b :: r) =
  let mk (a : N) : Z := if 64 <=? Byte.to_N b mod 128 then (- Z.of_N a)%Z else Z.of_N a in
  if Byte.to_N b <? 128 then Some (mk (Byte.to_N b mod 64), r)
  else match dec_nat r with
       | Some (hi, r') => if hi =? 0 then None else Some (mk (Byte.to_N b mod 64 + 64 * hi), r')
       | None => None
       end.
Proof. reflexivity. Qed.

(* ---------------------------------------------------------------- mask/shift = mod/div *)

Lemma lo7_mod n : lo7 n = n mod 128.
Proof. unfold lo7. change 127 with (N.ones 7). rewrite N.land_ones. reflexivity. Qed.
Lemma hi7_div n : hi7 n = n / 128.
Proof. unfold hi7. rewrite N.shiftr_div_pow2. reflexivity. Qed.
Lemma lo6_mod n : lo6 n = n mod 64.
Proof. unfold lo6. change 63 with (N.ones 6). rewrite N.land_ones. reflexivity. Qed.
Lemma hi6_div n : hi6 n = n / 64.
Proof. unfold hi6. rewrite N.shiftr_div_pow2. reflexivity. Qed.

(* ---------------------------------------------------------------- fuel of enc_nat *)

Lemma size_nat_div128 n : 128 <= n -> (N.size_nat (n / 128) + 7 <= N.size_nat n)%nat.
Proof.
  intro H.
  assert (E : forall m, N.size_nat m = N.to_nat (N.size m)).
  { intros [|p]; simpl; [reflexivity|].
    induction p; simpl; rewrite ?IHp; lia. }
  rewrite !E.
  assert (Hq : 0 < n / 128) by lia.
  rewrite !N.size_log2 by lia.
  change 128 with (2 ^ 7). rewrite <- N.shiftr_div_pow2, N.log2_shiftr.
  assert (7 <= N.log2 n). { apply N.log2_le_pow2; [lia|]. exact H. }
  lia.
Qed.

Lemma size_nat_0 n : N.size_nat n = 0%nat -> n = 0.
Proof. destruct n as [|p]; [reflexivity|]. destruct p; simpl; discriminate. Qed.

Lemma enc_nat_fuel_indep : forall f1 f2 n,
  (N.size_nat n <= f1)%nat -> (N.size_nat n <= f2)%nat ->
  enc_nat_fuel f1 n = enc_nat_fuel f2 n.
Proof.
  induction f1 as [|f1 IH]; intros f2 n H1 H2.
  - assert (n = 0) by (apply size_nat_0; lia). subst. destruct f2; reflexivity.
  - destruct f2 as [|f2].
    + assert (n = 0) by (apply size_nat_0; lia). subst. reflexivity.
    + cbn [enc_nat_fuel]. destruct (n <? 128) eqn:E; [reflexivity|].
      rewrite hi7_div. f_equal. assert (128 <= n) by lia.
      pose proof (size_nat_div128 n H). apply IH; lia.
Qed.

Lemma enc_nat_eqn n :
  enc_nat n = if n <? 128 then [b8 n] else b8 (128 + n mod 128) :: enc_nat (n / 128).
Proof.
  unfold enc_nat. destruct (N.size_nat n) as [|f] eqn:Ef.
  - apply size_nat_0 in Ef. subst. reflexivity.
  - cbn [enc_nat_fuel]. destruct (n <? 128) eqn:E; [reflexivity|].
    rewrite lo7_mod, hi7_div. f_equal. assert (128 <= n) by lia. pose proof (size_nat_div128 n H).
    apply enc_nat_fuel_indep; lia.
Qed.

Lemma enc_nat_small n : n < 128 -> enc_nat n = [b8 n].
Proof. intro H. rewrite enc_nat_eqn. destruct (n <? 128) eqn:E; [reflexivity|lia]. Qed.

Lemma enc_nat_big n : 128 <= n -> enc_nat n = b8 (128 + n mod 128) :: enc_nat (n / 128).
Proof. intro H. rewrite enc_nat_eqn. destruct (n <? 128) eqn:E; [lia|reflexivity]. Qed.

Lemma enc_nat_nonempty n : enc_nat n <> [].
Proof. rewrite enc_nat_eqn. destruct (n <? 128); discriminate. Qed.

(* ---------------------------------------------------------------- nat round trips *)

Lemma dec_enc_nat : forall n r, dec_nat (enc_nat n ++ r) = Some (n, r).
Proof.
  intro n. induction n as [n IH] using (well_founded_induction N.lt_wf_0). intro r.
  destruct (N.lt_ge_cases n 128) as [H|H].
  - rewrite enc_nat_small by exact H. cbn [app]; rewrite dec_nat_cons.
    rewrite to_N_b8_small by lia.
    destruct (n <? 128) eqn:E; [reflexivity|lia].
  - rewrite enc_nat_big by exact H. cbn [app]; rewrite dec_nat_cons.
    rewrite to_N_b8_small by lia.
    destruct (128 + n mod 128 <? 128) eqn:E; [lia|].
    rewrite IH by lia.
    destruct (n / 128 =? 0) eqn:E0; [lia|].
    f_equal. f_equal. lia.
Qed.

Lemma enc_dec_nat : forall bs n r, dec_nat bs = Some (n, r) -> bs = enc_nat n ++ r.
Proof.
  induction bs as [|b bs IH]; intros n r H; [discriminate|]; rewrite dec_nat_cons in H.
  pose proof (to_N_lt_256 b) as Hb.
  destruct (Byte.to_N b <? 128) eqn:E.
  - apply some_pair_inj in H; destruct H as [<- <-]. rewrite enc_nat_small by lia. rewrite b8_to_N. reflexivity.
  - destruct (dec_nat bs) as [[hi r']|] eqn:D; [|discriminate].
    destruct (hi =? 0) eqn:E0; [discriminate|]. apply some_pair_inj in H; destruct H as [<- <-].
    rewrite enc_nat_big by lia.
    replace (128 + (Byte.to_N b - 128 + 128 * hi) mod 128) with (Byte.to_N b) by lia.
    replace ((Byte.to_N b - 128 + 128 * hi) / 128) with hi by lia.
    rewrite b8_to_N. cbn [app]. f_equal. apply IH. reflexivity.
Qed.

Lemma enc_nat_prefix_free a b r r' : enc_nat a ++ r = enc_nat b ++ r' -> a = b /\ r = r'.
Proof.
  intro H. pose proof (dec_enc_nat a r) as Ha. rewrite H, dec_enc_nat in Ha.
  injection Ha as -> ->. split; reflexivity.
Qed.

Lemma enc_nat_inj a b : enc_nat a = enc_nat b -> a = b.
Proof.
  intro H. apply (enc_nat_prefix_free a b [] []). rewrite H. reflexivity.
Qed.

Lemma dec_nat_shorter bs n r : dec_nat bs = Some (n, r) -> (length r < length bs)%nat.
Proof.
  intro H. apply enc_dec_nat in H. subst. rewrite app_length.
  pose proof (enc_nat_nonempty n). destruct (enc_nat n); [congruence|simpl; lia].
Qed.

Lemma dec_nat_full_enc n : dec_nat_full (enc_nat n) = Some n.
Proof.
  unfold dec_nat_full. rewrite <- (app_nil_r (enc_nat n)), dec_enc_nat. reflexivity.
Qed.

(* a group string that goes on after all value bits and ends in 00 is rejected *)
Lemma dec_nat_nonminimal : forall pre r,
  pre <> [] -> Forall (fun b => cont b = true) pre -> dec_nat (pre ++ x00 :: r) = None.
Proof.
  induction pre as [|b pre IH]; intros r Hne HF; [congruence|].
  inversion HF as [|? ? Hb HF']; subst. unfold cont in Hb.
  cbn [app]; rewrite dec_nat_cons. destruct (Byte.to_N b <? 128) eqn:E; [lia|].
  destruct pre as [|b' pre'].
  - cbn [app]; rewrite dec_nat_cons. change (Byte.to_N x00 <? 128) with true. cbn iota.
    reflexivity.
  - rewrite IH; [reflexivity|discriminate|exact HF'].
Qed.

(* ---------------------------------------------------------------- declarative format (nat) *)

Lemma leb_shape_cons_cont b bs :
  cont b = true -> (leb_shape (b :: bs) <-> leb_shape bs /\ bs <> [x00]).
Proof.
  intro Hb. split.
  - intros (pre & l & E & HF & Hl & Hmin). destruct pre as [|p pre].
    + cbn in E. injection E as -> <-. congruence.
    + cbn in E. injection E as <- ->. inversion HF as [|? ? _ HF']; subst. split.
      * exists pre, l. repeat split; try assumption. intro Hne. apply Hmin. discriminate.
      * intro E. destruct pre as [|q pre]; cbn in E.
        -- injection E as ->. apply Hmin; [discriminate|reflexivity].
        -- injection E as _ E. destruct pre; discriminate.
  - intros [(pre & l & -> & HF & Hl & Hmin) Hne]. exists (b :: pre), l. repeat split.
    + constructor; assumption.
    + assumption.
    + intros _ ->. destruct pre as [|q pre]; [apply Hne; reflexivity|].
      apply Hmin; [discriminate|reflexivity].
Qed.

Lemma leb_shape_single b : cont b = false -> leb_shape [b].
Proof. intro H. exists [], b. repeat split; [constructor|exact H|congruence]. Qed.

Lemma leb_shape_stop b bs : cont b = false -> leb_shape (b :: bs) -> bs = [].
Proof.
  intros Hb (pre & l & E & HF & _ & _). destruct pre as [|p pre]; cbn in E.
  - injection E as _ <-. reflexivity.
  - injection E as <- _. inversion HF; subst. congruence.
Qed.

Lemma leb_shape_value_0 : forall bs, leb_shape bs -> leb_value bs = 0 -> bs = [x00].
Proof.
  induction bs as [|b bs IH]; intros Hs Hv.
  - destruct Hs as (pre & l & E & _). destruct pre; discriminate.
  - cbn [leb_value] in Hv. destruct (cont b) eqn:Hb.
    + apply leb_shape_cons_cont in Hs; [|exact Hb]. destruct Hs as [Hs Hne].
      exfalso. apply Hne, IH; [exact Hs|lia].
    + pose proof (leb_shape_stop b bs Hb Hs). subst. unfold cont in Hb.
      f_equal. apply byte_x00. cbn [leb_value] in Hv. lia.
Qed.

Lemma dec_nat_iff bs n r :
  dec_nat bs = Some (n, r) <-> exists e, bs = e ++ r /\ LebNat n e.
Proof.
  split.
  - revert n r. induction bs as [|b bs IH]; intros n r H; [discriminate|]; rewrite dec_nat_cons in H.
    pose proof (to_N_lt_256 b) as Hlt.
    destruct (Byte.to_N b <? 128) eqn:E.
    + apply some_pair_inj in H; destruct H as [<- <-]. exists [b]. split; [reflexivity|]. split.
      * apply leb_shape_single. unfold cont. lia.
      * cbn [leb_value]. lia.
    + destruct (dec_nat bs) as [[hi r']|] eqn:D; [|discriminate].
      destruct (hi =? 0) eqn:E0; [discriminate|]. apply some_pair_inj in H; destruct H as [<- <-].
      destruct (IH _ _ eq_refl) as (e & -> & Hs & Hv).
      exists (b :: e). split; [reflexivity|]. split.
      * apply leb_shape_cons_cont; [unfold cont; lia|]. split; [exact Hs|].
        intros ->. cbn in Hv. lia.
      * cbn [leb_value]. rewrite Hv. lia.
  - intros (e & -> & Hs & Hv). revert n Hv.
    induction e as [|b e IH]; intros n Hv.
    + destruct Hs as (pre & l & E & _). destruct pre; discriminate.
    + cbn [app]. rewrite dec_nat_cons. pose proof (to_N_lt_256 b) as Hlt.
      rewrite <- Hv. cbn [leb_value].
      destruct (Byte.to_N b <? 128) eqn:E.
      * assert (Hc : cont b = false) by (unfold cont; lia).
        pose proof (leb_shape_stop b e Hc Hs). subst e. cbn [leb_value].
        f_equal. f_equal. lia.
      * assert (Hc : cont b = true) by (unfold cont; lia).
        apply leb_shape_cons_cont in Hs; [|exact Hc]. destruct Hs as [Hs Hne].
        rewrite (IH Hs _ eq_refl).
        destruct (leb_value e =? 0) eqn:E0.
        -- exfalso. apply Hne, leb_shape_value_0; [exact Hs|lia].
        -- f_equal. f_equal. lia.
Qed.

Lemma LebNat_enc n : LebNat n (enc_nat n).
Proof.
  pose proof (dec_enc_nat n []) as H. apply dec_nat_iff in H.
  destruct H as (e & E & H). rewrite !app_nil_r in E. rewrite E. exact H.
Qed.

Lemma LebNat_unique n bs : LebNat n bs -> bs = enc_nat n.
Proof.
  intro H. assert (D : dec_nat bs = Some (n, [])).
  { apply dec_nat_iff. exists bs. rewrite app_nil_r. split; [reflexivity|exact H]. }
  apply enc_dec_nat in D. rewrite app_nil_r in D. exact D.
Qed.

(* ---------------------------------------------------------------- int *)

Lemma dec_enc_int z r : dec_int (enc_int z ++ r) = Some (z, r).
Proof.
  unfold enc_int. rewrite lo6_mod, hi6_div.
  destruct (Z.abs_N z <? 64) eqn:Ea.
  - cbn [app]; rewrite dec_int_cons; cbv zeta. destruct (z <? 0)%Z eqn:Es.
    + rewrite to_N_b8_small by lia.
      destruct (64 + Z.abs_N z <? 128) eqn:E1; [|lia].
      destruct (64 <=? (64 + Z.abs_N z) mod 128) eqn:E2; [|lia].
      f_equal. f_equal. lia.
    + rewrite to_N_b8_small by lia.
      destruct (0 + Z.abs_N z <? 128) eqn:E1; [|lia].
      destruct (64 <=? (0 + Z.abs_N z) mod 128) eqn:E2; [lia|].
      f_equal. f_equal. lia.
  - cbn [app]; rewrite dec_int_cons; cbv zeta. rewrite dec_enc_nat.
    destruct (Z.abs_N z / 64 =? 0) eqn:E0; [lia|].
    destruct (z <? 0)%Z eqn:Es.
    + rewrite to_N_b8_small by lia.
      destruct (128 + 64 + Z.abs_N z mod 64 <? 128) eqn:E1; [lia|].
      destruct (64 <=? (128 + 64 + Z.abs_N z mod 64) mod 128) eqn:E2; [|lia].
      f_equal. f_equal. lia.
    + rewrite to_N_b8_small by lia.
      destruct (128 + 0 + Z.abs_N z mod 64 <? 128) eqn:E1; [lia|].
      destruct (64 <=? (128 + 0 + Z.abs_N z mod 64) mod 128) eqn:E2; [lia|].
      f_equal. f_equal. lia.
Qed.

(* what decodes is the canonical encoding of the value, or the one extra spelling "-0" = 40 *)
Lemma enc_dec_int bs z r :
  dec_int bs = Some (z, r) -> bs = enc_int z ++ r \/ (z = 0%Z /\ bs = x40 :: r).
Proof.
  destruct bs as [|b bs]; [discriminate|]; rewrite dec_int_cons; cbv zeta.
  pose proof (to_N_lt_256 b) as Hlt. intro H.
  destruct (Byte.to_N b <? 128) eqn:E.
  - apply some_pair_inj in H; destruct H as [<- <-].
    destruct (64 <=? Byte.to_N b mod 128) eqn:E2.
    + destruct (N.eq_dec (Byte.to_N b) 64) as [E64|N64].
      * right. split; [rewrite E64; reflexivity|]. f_equal. apply to_N_inj. exact E64.
      * left. unfold enc_int. rewrite lo6_mod, hi6_div.
        replace (Z.abs_N (- Z.of_N (Byte.to_N b mod 64))) with (Byte.to_N b mod 64) by lia.
        destruct (Byte.to_N b mod 64 <? 64) eqn:E3; [|lia].
        destruct (- Z.of_N (Byte.to_N b mod 64) <? 0)%Z eqn:E4; [|lia].
        replace (64 + Byte.to_N b mod 64) with (Byte.to_N b) by lia.
        rewrite b8_to_N. reflexivity.
    + left. unfold enc_int. rewrite lo6_mod, hi6_div.
      replace (Z.abs_N (Z.of_N (Byte.to_N b mod 64))) with (Byte.to_N b mod 64) by lia.
      destruct (Byte.to_N b mod 64 <? 64) eqn:E3; [|lia].
      destruct (Z.of_N (Byte.to_N b mod 64) <? 0)%Z eqn:E4; [lia|].
      replace (0 + Byte.to_N b mod 64) with (Byte.to_N b) by lia.
      rewrite b8_to_N. reflexivity.
  - destruct (dec_nat bs) as [[hi r']|] eqn:D; [|discriminate].
    destruct (hi =? 0) eqn:E0; [discriminate|]. apply some_pair_inj in H; destruct H as [<- <-].
    apply enc_dec_nat in D. subst bs. left. unfold enc_int. rewrite lo6_mod, hi6_div.
    destruct (64 <=? Byte.to_N b mod 128) eqn:E2.
    + replace (Z.abs_N (- Z.of_N (Byte.to_N b mod 64 + 64 * hi))) with (Byte.to_N b mod 64 + 64 * hi) by lia.
      destruct (Byte.to_N b mod 64 + 64 * hi <? 64) eqn:E3; [lia|].
      destruct (- Z.of_N (Byte.to_N b mod 64 + 64 * hi) <? 0)%Z eqn:E4; [|lia].
      replace (128 + 64 + (Byte.to_N b mod 64 + 64 * hi) mod 64) with (Byte.to_N b) by lia.
      replace ((Byte.to_N b mod 64 + 64 * hi) / 64) with hi by lia.
      rewrite b8_to_N. reflexivity.
    + replace (Z.abs_N (Z.of_N (Byte.to_N b mod 64 + 64 * hi))) with (Byte.to_N b mod 64 + 64 * hi) by lia.
      destruct (Byte.to_N b mod 64 + 64 * hi <? 64) eqn:E3; [lia|].
      destruct (Z.of_N (Byte.to_N b mod 64 + 64 * hi) <? 0)%Z eqn:E4; [lia|].
      replace (128 + 0 + (Byte.to_N b mod 64 + 64 * hi) mod 64) with (Byte.to_N b) by lia.
      replace ((Byte.to_N b mod 64 + 64 * hi) / 64) with hi by lia.
      rewrite b8_to_N. reflexivity.
Qed.

Lemma enc_int_prefix_free a b r r' : enc_int a ++ r = enc_int b ++ r' -> a = b /\ r = r'.
Proof.
  intro H. pose proof (dec_enc_int a r) as Ha. rewrite H, dec_enc_int in Ha.
  injection Ha as -> ->. split; reflexivity.
Qed.

Lemma enc_int_inj a b : enc_int a = enc_int b -> a = b.
Proof.
  intro H. apply (enc_int_prefix_free a b [] []). rewrite H. reflexivity.
Qed.

Lemma enc_int_nonempty z : enc_int z <> [].
Proof. unfold enc_int. destruct (Z.abs_N z <? 64); discriminate. Qed.

Lemma dec_int_shorter bs z r : dec_int bs = Some (z, r) -> (length r < length bs)%nat.
Proof.
  destruct bs as [|b bs]; [discriminate|]; rewrite dec_int_cons; cbv zeta.
  destruct (Byte.to_N b <? 128).
  - intros [= _ <-]. simpl. lia.
  - destruct (dec_nat bs) as [[hi r']|] eqn:D; [|discriminate].
    destruct (hi =? 0); [discriminate|]. intros [= _ <-].
    apply dec_nat_shorter in D. simpl. lia.
Qed.

Lemma dec_int_full_enc z : dec_int_full (enc_int z) = Some z.
Proof.
  unfold dec_int_full. rewrite <- (app_nil_r (enc_int z)), dec_enc_int. reflexivity.
Qed.

(* non-minimal signed encodings: the first byte announces a continuation, every further
   byte too, and the string ends with 00 *)
Lemma dec_int_nonminimal b0 mid r :
  cont b0 = true -> Forall (fun b => cont b = true) mid -> dec_int (b0 :: mid ++ x00 :: r) = None.
Proof.
  intros H0 HF. unfold cont in H0. rewrite dec_int_cons; cbv zeta.
  destruct (Byte.to_N b0 <? 128) eqn:E; [lia|].
  destruct mid as [|m mid].
  - cbn [app]; rewrite dec_nat_cons. change (Byte.to_N x00 <? 128) with true. cbn iota. reflexivity.
  - rewrite dec_nat_nonminimal; [reflexivity|discriminate|exact HF].
Qed.

Lemma dec_int_iff bs z r :
  dec_int bs = Some (z, r) <-> exists e, bs = e ++ r /\ ZarithInt z e.
Proof.
  split.
  - destruct bs as [|b bs]; [discriminate|]; rewrite dec_int_cons; cbv zeta.
    pose proof (to_N_lt_256 b) as Hlt. intro H.
    destruct (Byte.to_N b <? 128) eqn:E.
    + apply some_pair_inj in H; destruct H as [<- <-]. exists [b]. split; [reflexivity|].
      exists b, []. split; [reflexivity|]. split.
      * unfold cont. destruct (128 <=? Byte.to_N b) eqn:E1; [lia|reflexivity].
      * cbn [leb_value]. cbv zeta. rewrite N.mul_0_r, N.add_0_r. reflexivity.
    + destruct (dec_nat bs) as [[hi r']|] eqn:D; [|discriminate].
      destruct (hi =? 0) eqn:E0; [discriminate|]. apply some_pair_inj in H; destruct H as [<- <-].
      apply dec_nat_iff in D. destruct D as (e & -> & Hs & Hv).
      exists (b :: e). split; [reflexivity|]. exists b, e. split; [reflexivity|]. split.
      * unfold cont. destruct (128 <=? Byte.to_N b) eqn:E1; [|lia]. split; [exact Hs|lia].
      * cbv zeta. rewrite Hv. reflexivity.
  - intros (e & -> & b0 & tl & -> & Hsh & Hz). cbv zeta in Hz. cbn [app]; rewrite dec_int_cons; cbv zeta.
    unfold cont in Hsh. destruct (128 <=? Byte.to_N b0) eqn:E1.
    + destruct (Byte.to_N b0 <? 128) eqn:E; [lia|]. destruct Hsh as [Hs Hv].
      assert (D : dec_nat (tl ++ r) = Some (leb_value tl, r)).
      { apply dec_nat_iff. exists tl. split; [reflexivity|]. split; [exact Hs|reflexivity]. }
      rewrite D. destruct (leb_value tl =? 0) eqn:E0; [lia|]. rewrite Hz. reflexivity.
    + destruct (Byte.to_N b0 <? 128) eqn:E; [|lia]. subst tl. cbn [app].
      rewrite Hz. cbn [leb_value]. rewrite N.mul_0_r, N.add_0_r. reflexivity.
Qed.

Lemma ZarithInt_enc z : ZarithInt z (enc_int z).
Proof.
  pose proof (dec_enc_int z []) as H. apply dec_int_iff in H.
  destruct H as (e & E & H). rewrite !app_nil_r in E. rewrite E. exact H.
Qed.

Lemma ZarithInt_canonical z bs : ZarithInt z bs -> bs = enc_int z \/ (z = 0%Z /\ bs = [x40]).
Proof.
  intro H. assert (D : dec_int bs = Some (z, [])).
  { apply dec_int_iff. exists bs. rewrite app_nil_r. split; [reflexivity|exact H]. }
  apply enc_dec_int in D. rewrite app_nil_r in D. exact D.
Qed.
