(* Proofs/Counter_proofs.v — lemmas about Client/Counter.v (C25). *)
From Coq Require Import List NArith Bool Arith Lia.
From PV Require Import Client.Counter.
Import ListNotations.
Local Open Scope N_scope.

(* ---------------------------------------------------------------- association lists *)

Lemma lookup_clear l k cs : lookup l (clear k cs) = if Nat.eqb k l then None else lookup l cs.
Proof.
  induction cs as [|[k' v] r IH]; simpl.
  - destruct (Nat.eqb k l); reflexivity.
  - destruct (Nat.eqb k' k) eqn:E1; simpl.
    + apply Nat.eqb_eq in E1. subst k'. rewrite IH. destruct (Nat.eqb k l); reflexivity.
    + rewrite IH. destruct (Nat.eqb k' l) eqn:E2; [|reflexivity].
      apply Nat.eqb_eq in E2. subst k'. rewrite Nat.eqb_sym, E1. reflexivity.
Qed.

Lemma lookup_update l k v cs : lookup l (update k v cs) = if Nat.eqb k l then Some v else lookup l cs.
Proof.
  unfold update. simpl. destruct (Nat.eqb k l) eqn:E; [reflexivity|].
  rewrite lookup_clear, E. reflexivity.
Qed.

Lemma memb_cons l k d : memb l (k :: d) = Nat.eqb l k || memb l d.
Proof. reflexivity. Qed.

Lemma memb_remove l k d : memb l (remove_lin k d) = negb (Nat.eqb l k) && memb l d.
Proof.
  induction d as [|x d IH]; simpl.
  - rewrite andb_false_r. reflexivity.
  - destruct (Nat.eqb x k) eqn:E; simpl.
    + apply Nat.eqb_eq in E. subst x. rewrite IH.
      destruct (Nat.eqb l k); simpl; reflexivity.
    + rewrite IH. destruct (Nat.eqb l x) eqn:E2; simpl; [|reflexivity].
      apply Nat.eqb_eq in E2. subst x. rewrite E. reflexivity.
Qed.

(* ---------------------------------------------------------------- the invariant *)

Definition fresh_right (s : state) (gh : ghost) : Prop :=
  forall g gr st, nth_error (groups s) g = Some gr -> nth_error (stamps gh) g = Some st ->
                  st = ninj gh -> g_start gr = nc s + pend s + 1.

Record Inv (s : state) (gh : ghost) : Prop := {
  inv_len : length (stamps gh) = length (groups s);
  inv_clean : forall l, memb l (dirty gh) = false -> lookup l (caches s) = None;
  inv_fresh : fresh_right s gh;
  inv_stamps : Forall (fun st => st <= ninj gh) (stamps gh);
  inv_log : Forall inj_right (log s)
}.

Lemma Inv_init nc0 pend0 : Inv (init nc0 pend0) ghost0.
Proof.
  constructor; simpl; auto.
  intros g gr st H. destruct g; discriminate.
Qed.

Lemma nth_error_snoc {A} (l : list A) x g y :
  nth_error (l ++ [x]) g = Some y ->
  (nth_error l g = Some y /\ (g < length l)%nat) \/ (g = length l /\ y = x).
Proof.
  intro H. destruct (Nat.lt_ge_cases g (length l)) as [Hlt|Hge].
  - left. rewrite nth_error_app1 in H by exact Hlt. auto.
  - right. rewrite nth_error_app2 in H by exact Hge.
    destruct (g - length l)%nat eqn:E; simpl in H.
    + injection H as <-. split; [lia | reflexivity].
    + destruct n; discriminate.
Qed.

Ltac proj := cbn [add_group with_cache caches groups log nc pend dirty stamps ninj g_lin g_start g_len fst snd] in *.

Lemma base_clean s gh l : Inv s gh -> memb l (dirty gh) = false -> base s l = nc s.
Proof. intros HI Hd. unfold base. rewrite (inv_clean s gh HI l Hd). reflexivity. Qed.

(* adding a group that is right, on a lineage that becomes dirty *)
Lemma Inv_add s gh l n start v :
  Inv s gh -> start = nc s + pend s + 1 ->
  Inv (add_group (with_cache s (update l v (caches s))) {| g_lin := l; g_start := start; g_len := n |})
      {| dirty := l :: dirty gh; stamps := stamps gh ++ [ninj gh]; ninj := ninj gh |}.
Proof.
  intros HI Hstart. destruct HI as [Hlen Hclean Hfresh Hst Hlog].
  constructor; proj.
  - rewrite !app_length. simpl. lia.
  - intros l' Hd. rewrite memb_cons in Hd. apply orb_false_iff in Hd. destruct Hd as [Hne Hd].
    rewrite lookup_update. rewrite Nat.eqb_sym, Hne. apply Hclean, Hd.
  - intros g gr st Hg Hs Heq. proj.
    apply nth_error_snoc in Hg. destruct Hg as [[Hg Hlt]|[-> ->]].
    + rewrite nth_error_app1 in Hs by lia. exact (Hfresh g gr st Hg Hs Heq).
    + simpl. exact Hstart.
  - apply Forall_app. split; [exact Hst|]. constructor; [lia | constructor].
  - exact Hlog.
Qed.

Lemma Inv_step s gh c :
  Inv s gh -> wb_call s gh c = true -> Inv (fst (step s c)) (ghost_step s gh c).
Proof.
  intros HI Hwb. destruct c as [l n|l n c0|l n sim_ok|g|g ok|]; cbn [step ghost_step wb_call] in *.
  - (* Fill *)
    apply andb_true_iff in Hwb. destruct Hwb as [Hwb Hp]. apply andb_true_iff in Hwb. destruct Hwb as [Hn Hd].
    apply negb_true_iff in Hn, Hd. rewrite Hn. proj. apply N.eqb_eq in Hp.
    apply Inv_add; [exact HI|]. rewrite (base_clean s gh l HI Hd). lia.
  - (* FillAt *)
    apply andb_true_iff in Hwb. destruct Hwb as [Hn Hc]. apply negb_true_iff in Hn. rewrite Hn. proj.
    apply N.eqb_eq in Hc. apply Inv_add; [exact HI|]. lia.
  - (* Autofill *)
    apply andb_true_iff in Hwb. destruct Hwb as [Hn Hd].
    apply negb_true_iff in Hn, Hd. rewrite Hn. destruct sim_ok; proj.
    + apply Inv_add; [exact HI|]. rewrite (base_clean s gh l HI Hd). lia.
    + destruct HI as [Hlen Hclean Hfresh Hst Hlog]. constructor; proj; auto.
      intros l' Hd'. rewrite memb_cons in Hd'. apply orb_false_iff in Hd'. destruct Hd' as [Hne Hd'].
      rewrite lookup_update. rewrite Nat.eqb_sym, Hne. apply Hclean, Hd'.
  - (* Sign *) exact HI.
  - (* Inject *)
    destruct (nth_error (stamps gh) g) as [st|] eqn:Est; [|discriminate].
    apply N.eqb_eq in Hwb.
    destruct (nth_error (groups s) g) as [gr|] eqn:Eg; proj.
    2:{ exfalso. apply nth_error_None in Eg. pose proof (inv_len s gh HI).
        assert (nth_error (stamps gh) g <> None) by (rewrite Est; discriminate).
        apply nth_error_Some in H0. lia. }
    pose proof (inv_fresh s gh HI g gr st Eg Est Hwb) as Hright.
    destruct HI as [Hlen Hclean Hfresh Hst Hlog]. constructor; proj.
    + exact Hlen.
    + intros l' Hd. rewrite memb_remove in Hd. rewrite lookup_clear.
      destruct (Nat.eqb (g_lin gr) l') eqn:E; [reflexivity|].
      rewrite Nat.eqb_sym, E in Hd. simpl in Hd. apply Hclean, Hd.
    + intros g' gr' st' Hg' Hs' Heq. proj. destruct ok.
      * (* accepted: every older group is now stale *)
        exfalso. rewrite Forall_forall in Hst.
        assert (st' <= ninj gh) by (apply Hst; eapply nth_error_In; exact Hs'). lia.
      * exact (Hfresh g' gr' st' Hg' Hs' Heq).
    + destruct ok; [|exact Hst]. eapply Forall_impl; [|exact Hst]. simpl. intros; lia.
    + constructor; [|exact Hlog]. intros _. simpl. exact Hright.
  - (* Bake *)
    destruct HI as [Hlen Hclean Hfresh Hst Hlog]. constructor; proj; auto.
    intros g gr st Hg Hs Heq. proj. rewrite (Hfresh g gr st Hg Hs Heq). lia.
Qed.

Lemma wb_from_right s gh h :
  Inv s gh -> wb_from s gh h = true -> Forall inj_right (log (fst (run_from s h))).
Proof.
  revert s gh. induction h as [|c r IH]; intros s gh HI Hwb; simpl in *.
  - exact (inv_log s gh HI).
  - apply andb_true_iff in Hwb. destruct Hwb as [Hc Hr].
    pose proof (Inv_step s gh c HI Hc) as HI'.
    destruct (step s c) as [s1 o] eqn:Es. simpl in *.
    specialize (IH s1 _ HI' Hr).
    destruct (run_from s1 r) as [s2 os]. simpl in *. exact IH.
Qed.

Lemma counters_right nc0 pend0 h :
  well_behaved nc0 pend0 h = true -> Forall inj_right (log (run nc0 pend0 h)).
Proof. intro H. unfold run. apply (wb_from_right _ ghost0); [apply Inv_init | exact H]. Qed.

(* the same with the boolean verdict the harness compares *)
Lemma inj_rightb_spec e : inj_rightb e = true <-> inj_right e.
Proof.
  unfold inj_rightb, inj_right. destruct (i_ok e); simpl.
  - rewrite N.eqb_eq. split; auto.
  - split; [discriminate | reflexivity].
Qed.

Lemma all_right_spec s : all_right s = true <-> Forall inj_right (log s).
Proof.
  unfold all_right. rewrite forallb_forall, Forall_forall.
  split; intros H e He; apply inj_rightb_spec, H, He.
Qed.

Lemma counters_right_b nc0 pend0 h : well_behaved nc0 pend0 h = true -> all_right (run nc0 pend0 h) = true.
Proof. intro H. apply all_right_spec, counters_right, H. Qed.

(* every attempt, accepted or not, of a well-behaved history carries the expected counters *)
Lemma wb_from_all s gh h :
  Inv s gh -> Forall (fun e => i_start e = i_expect e) (log s) -> wb_from s gh h = true ->
  Forall (fun e => i_start e = i_expect e) (log (fst (run_from s h))).
Proof.
  revert s gh. induction h as [|c r IH]; intros s gh HI HL Hwb; simpl in *.
  - exact HL.
  - apply andb_true_iff in Hwb. destruct Hwb as [Hc Hr].
    pose proof (Inv_step s gh c HI Hc) as HI'.
    assert (HL' : Forall (fun e => i_start e = i_expect e) (log (fst (step s c)))).
    { destruct c as [l n|l n c0|l n sim_ok|g|g ok|]; simpl in *.
      - destruct (n =? 0); simpl; exact HL.
      - destruct (n =? 0); simpl; exact HL.
      - destruct (n =? 0); simpl; [exact HL|]. destruct sim_ok; simpl; exact HL.
      - exact HL.
      - destruct (nth_error (stamps gh) g) as [st|] eqn:Est; [|discriminate].
        apply N.eqb_eq in Hc.
        destruct (nth_error (groups s) g) as [gr|] eqn:Eg; simpl; [|exact HL].
        constructor; [|exact HL]. simpl. exact (inv_fresh s gh HI g gr st Eg Est Hc).
      - exact HL. }
    destruct (step s c) as [s1 o] eqn:Es. simpl in *.
    specialize (IH s1 _ HI' HL' Hr).
    destruct (run_from s1 r) as [s2 os]. simpl in *. exact IH.
Qed.

Lemma counters_right_all nc0 pend0 h :
  well_behaved nc0 pend0 h = true ->
  Forall (fun e => i_start e = i_expect e) (log (run nc0 pend0 h)).
Proof. intro H. unfold run. apply (wb_from_all _ ghost0); [apply Inv_init | constructor | exact H]. Qed.

(* the number of log entries = number of Inject calls on existing groups: the theorem is not about an
   empty log *)
Lemma run_from_app s h1 h2 :
  fst (run_from s (h1 ++ h2)) = fst (run_from (fst (run_from s h1)) h2).
Proof.
  revert s. induction h1 as [|c r IH]; intro s; simpl; [reflexivity|].
  destruct (step s c) as [s1 o]. specialize (IH s1).
  destruct (run_from s1 (r ++ h2)) as [s2 os]. destruct (run_from s1 r) as [s3 os3]. simpl in *. exact IH.
Qed.

(* ---------------------------------------------------------------- refutations (known finding #24) *)

(* the same unfilled group is filled twice, the second result is injected: counters shifted by n *)
Lemma refill_shifts :
  let h := [Fill 0 1; Fill 0 1; Inject 1 true] in
  all_right (run 10 0 h) = false /\ log (run 10 0 h) = [{| i_start := 12; i_len := 1; i_expect := 11; i_ok := true |}].
Proof. vm_compute. split; reflexivity. Qed.

(* an autofill whose simulation fails leaves the cache advanced; the corrected retry is shifted *)
Lemma failed_simulation_shifts :
  all_right (run 10 0 [Autofill 0 2 false; Autofill 0 2 true; Inject 0 true]) = false.
Proof. vm_compute. reflexivity. Qed.

(* fill() ignores the mempool: one operation pending, the next group repeats its counter *)
Lemma fill_ignores_mempool :
  let h := [Autofill 0 1 true; Inject 0 true; Fill 1 1; Inject 1 true] in
  all_right (run 10 0 h) = false /\
  log (run 10 0 h) = [{| i_start := 11; i_len := 1; i_expect := 12; i_ok := true |};
                      {| i_start := 11; i_len := 1; i_expect := 11; i_ok := true |}].
Proof. vm_compute. split; reflexivity. Qed.

(* non-vacuity: a well-behaved history with accepted, refused and repeated work *)
Lemma wb_example :
  let h := [Autofill 0 2 true; Sign 0; Inject 0 true; Autofill 0 1 true; Inject 1 false; Bake;
            Autofill 1 3 true; Inject 2 true; Bake; Fill 0 1; Inject 3 true] in
  well_behaved 10 0 h = true /\ all_right (run 10 0 h) = true /\
  map (fun e => (i_start e, i_len e, i_ok e)) (log (run 10 0 h)) = [(16, 1, true); (13, 3, true); (13, 1, false); (11, 2, true)].
Proof. vm_compute. repeat split; reflexivity. Qed.
