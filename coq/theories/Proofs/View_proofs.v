(* Proofs/View_proofs.v — lemmas about Michelson/View.v *)
From Coq Require Import List NArith Bool Lia Arith.
From Coq.Strings Require Import Byte.
From PV Require Import Base.Bytes Codec.Micheline Codec.Prims Michelson.View.
Import ListNotations.

(* ================================================================ the specification *)

(* [Occ intro t b n]: the primitive [t] occurs in [n] at a position where [b] tells whether
   some proper ancestor (inside n) is a lambda-introducing node *)
Inductive Occ (intro : byte -> bool) (t : byte) : bool -> node -> Prop :=
| OccHere args annots : Occ intro t false (NPrim t args annots)
| OccArg t' args annots a b : In a args -> Occ intro t b a -> Occ intro t (b || intro t') (NPrim t' args annots)
| OccItem items a b : In a items -> Occ intro t b a -> Occ intro t b (NSeq items).

Definition bad_name (name : bytes) : Prop :=
  31 < length name \/ exists c, In c name /\ allowed_char c = false.

(* the rejection rule of the property, with [intro] = which nodes open a lambda body *)
Definition spec_reject_gen (intro : byte -> bool) (name : bytes) (code : node) : Prop :=
  bad_name name
  \/ (exists b, Occ intro T_SELF b code)
  \/ (exists t, restricted t = true /\ Occ intro t false code).

Definition spec_reject := spec_reject_gen lambda_intro.

(* the three introducers named by the property: LAMBDA, LAMBDA_REC and PUSH (pushed lambda literal) *)
Definition lambda_intro3 (t : byte) : bool :=
  byte_eqb t T_LAMBDA || byte_eqb t T_LAMBDA_REC || byte_eqb t T_PUSH.

(* ================================================================ equations *)

Lemma check_code_prim t args annots inl :
  check_code (NPrim t args annots) inl =
  negb (is_self t) && negb (restricted t && negb inl)
  && forallb (fun x => check_code x (inl || lambda_intro t)) args.
Proof. reflexivity. Qed.

Lemma check_code_seq items inl :
  check_code (NSeq items) inl = forallb (fun x => check_code x inl) items.
Proof. reflexivity. Qed.

(* ================================================================ names *)

Lemma check_name_iff name : check_name name = true <-> ~ bad_name name.
Proof.
  unfold check_name, bad_name. rewrite andb_true_iff, Nat.ltb_lt, forallb_forall. split.
  - intros [Hl Hc] [H|(c & Hin & Hb)]; [lia|]. rewrite (Hc c Hin) in Hb. discriminate.
  - intro H. split.
    + destruct (Nat.lt_ge_cases (length name) 32) as [L|L]; [exact L|]. exfalso. apply H. left. lia.
    + intros c Hin. destruct (allowed_char c) eqn:E; [reflexivity|]. exfalso. apply H. right. eauto.
Qed.

(* ================================================================ code *)

(* what makes check_code fail, for an arbitrary inherited flag *)
Definition Offends (n : node) (inl : bool) : Prop :=
  (exists b, Occ lambda_intro T_SELF b n) \/
  (exists t b, restricted t = true /\ Occ lambda_intro t b n /\ b || inl = false).

Lemma self_restricted_disjoint t : is_self t = true -> restricted t = false.
Proof.
  unfold is_self, restricted. intro H. apply byte_eqb_spec in H. subst. reflexivity.
Qed.

Lemma check_code_false_iff : forall n inl, check_code n inl = false <-> Offends n inl.
Proof.
  induction n as [z|s|b|t args annots IH|items IH] using node_ind'; intro inl.
  - split; [discriminate|]. intros [[b H]|(t & b & _ & H & _)]; inversion H.
  - split; [discriminate|]. intros [[b H]|(t & b & _ & H & _)]; inversion H.
  - split; [discriminate|]. intros [[b0 H]|(t & b0 & _ & H & _)]; inversion H.
  - rewrite check_code_prim. split.
    + intro H. apply andb_false_iff in H. destruct H as [H|H].
      * apply andb_false_iff in H. destruct H as [H|H].
        -- apply negb_false_iff in H. unfold is_self in H. apply byte_eqb_spec in H. subst t.
           left. exists false. constructor.
        -- apply negb_false_iff, andb_true_iff in H. destruct H as [Hr Hi].
           apply negb_true_iff in Hi. subst inl. right. exists t, false.
           repeat split; [exact Hr|constructor].
      * assert (E : exists a, In a args /\ check_code a (inl || lambda_intro t) = false).
        { clear IH. induction args as [|x l IHl]; [discriminate|]. cbn [forallb] in H.
          apply andb_false_iff in H. destruct H as [H|H].
          - exists x. split; [left; reflexivity|exact H].
          - destruct (IHl H) as (a & Hin & Ha). exists a. split; [right; exact Hin|exact Ha]. }
        destruct E as (a & Hin & Ha). rewrite Forall_forall in IH.
        apply (IH a Hin) in Ha. destruct Ha as [[b Hb]|(t0 & b & Hr & Ho & Hf)].
        -- left. exists (b || lambda_intro t). econstructor; eassumption.
        -- right. exists t0, (b || lambda_intro t). repeat split; [exact Hr|econstructor; eassumption|].
           destruct b, inl, (lambda_intro t); cbn in *; congruence.
    + intros [[b H]|(t0 & b & Hr & H & Hf)].
      * inversion H as [? ?|t' ? ? a b' Hin Ho|]; subst.
        -- unfold is_self. replace (byte_eqb T_SELF T_SELF) with true by reflexivity. reflexivity.
        -- apply andb_false_iff. right. rewrite Forall_forall in IH.
           assert (Ha : check_code a (inl || lambda_intro t) = false).
           { apply (IH a Hin). left. eauto. }
           destruct (forallb (fun x => check_code x (inl || lambda_intro t)) args) eqn:F; [|reflexivity].
           rewrite forallb_forall in F. rewrite (F a Hin) in Ha. discriminate.
      * inversion H as [? ?|t' ? ? a b' Hin Ho|]; subst.
        -- cbn [orb] in Hf. subst inl. rewrite Hr. cbn [negb andb].
           rewrite andb_false_r. reflexivity.
        -- apply andb_false_iff. right. rewrite Forall_forall in IH.
           assert (Ha : check_code a (inl || lambda_intro t) = false).
           { apply (IH a Hin). right. exists t0, b'. repeat split; try assumption.
             destruct b', inl, (lambda_intro t); cbn in *; congruence. }
           destruct (forallb (fun x => check_code x (inl || lambda_intro t)) args) eqn:F; [|reflexivity].
           rewrite forallb_forall in F. rewrite (F a Hin) in Ha. discriminate.
  - rewrite check_code_seq. split.
    + intro H.
      assert (E : exists a, In a items /\ check_code a inl = false).
      { clear IH. induction items as [|x l IHl]; [discriminate|]. cbn [forallb] in H.
        apply andb_false_iff in H. destruct H as [H|H].
        - exists x. split; [left; reflexivity|exact H].
        - destruct (IHl H) as (a & Hin & Ha). exists a. split; [right; exact Hin|exact Ha]. }
      destruct E as (a & Hin & Ha). rewrite Forall_forall in IH.
      apply (IH a Hin) in Ha. destruct Ha as [[b Hb]|(t0 & b & Hr & Ho & Hf)].
      * left. exists b. econstructor; eassumption.
      * right. exists t0, b. repeat split; [exact Hr|econstructor; eassumption|exact Hf].
    + intro H. rewrite Forall_forall in IH.
      assert (E : exists a, In a items /\ check_code a inl = false).
      { destruct H as [[b H]|(t0 & b & Hr & H & Hf)];
          inversion H as [| |? a b' Hin Ho]; subst; exists a; (split; [exact Hin|]);
          apply (IH a Hin); [left; eauto|right; eauto 6]. }
      destruct E as (a & Hin & Ha).
      destruct (forallb (fun x => check_code x inl) items) eqn:F; [|reflexivity].
      rewrite forallb_forall in F. rewrite (F a Hin) in Ha. discriminate.
Qed.

Lemma accept_iff name code : view_accepts name code = true <-> ~ spec_reject name code.
Proof.
  unfold view_accepts, spec_reject, spec_reject_gen. rewrite andb_true_iff, check_name_iff. split.
  - intros [Hn Hc] [H|H]; [exact (Hn H)|].
    assert (check_code code false = false); [|congruence].
    apply check_code_false_iff. destruct H as [H|(t & Hr & Ho)]; [left; exact H|].
    right. exists t, false. auto.
  - intro H. split; [intro Hb; apply H; left; exact Hb|].
    destruct (check_code code false) eqn:E; [reflexivity|]. exfalso. apply H. right.
    apply check_code_false_iff in E. destruct E as [E|(t & b & Hr & Ho & Hf)]; [left; exact E|].
    right. exists t. rewrite orb_false_r in Hf. subst b. auto.
Qed.

(* ================================================================ programs: `lambda` is a type *)

(* [types_clean n]: below a `lambda` type constructor there is no SELF and no restricted
   instruction (types contain no instructions at all in syntactically valid Michelson) *)
Fixpoint mentions (p : byte -> bool) (n : node) : bool :=
  match n with
  | NPrim t args _ =>
      p t || (fix go (l : list node) : bool :=
                match l with [] => false | x :: r => mentions p x || go r end) args
  | NSeq items =>
      (fix go (l : list node) : bool :=
         match l with [] => false | x :: r => mentions p x || go r end) items
  | _ => false
  end.

Fixpoint types_clean (n : node) : bool :=
  match n with
  | NPrim t args _ =>
      (if byte_eqb t T_lambda
       then negb ((fix go (l : list node) : bool :=
                     match l with [] => false | x :: r => mentions restricted x || go r end) args)
       else true)
      && (fix go (l : list node) : bool :=
            match l with [] => true | x :: r => types_clean x && go r end) args
  | NSeq items =>
      (fix go (l : list node) : bool :=
         match l with [] => true | x :: r => types_clean x && go r end) items
  | _ => true
  end.

Lemma mentions_prim p t args annots :
  mentions p (NPrim t args annots) = p t || existsb (mentions p) args.
Proof. reflexivity. Qed.
Lemma mentions_seq p items : mentions p (NSeq items) = existsb (mentions p) items.
Proof. reflexivity. Qed.

Lemma types_clean_prim t args annots :
  types_clean (NPrim t args annots) =
  (if byte_eqb t T_lambda then negb (existsb (mentions restricted) args) else true)
  && forallb types_clean args.
Proof. reflexivity. Qed.
Lemma types_clean_seq items : types_clean (NSeq items) = forallb types_clean items.
Proof. reflexivity. Qed.

Lemma Occ_mentions intro t : forall n b, Occ intro t b n -> mentions (byte_eqb t) n = true.
Proof.
  induction n as [z|s|b0|t' args annots IH|items IH] using node_ind'; intros b H;
    inversion H; subst.
  - rewrite mentions_prim. apply orb_true_iff. left. apply byte_eqb_spec. reflexivity.
  - rewrite mentions_prim. apply orb_true_iff. right. apply existsb_exists.
    rewrite Forall_forall in IH. eauto.
  - rewrite mentions_seq. apply existsb_exists. rewrite Forall_forall in IH. eauto.
Qed.

Lemma mentions_weaken (p q : byte -> bool) :
  (forall t, p t = true -> q t = true) -> forall n, mentions p n = true -> mentions q n = true.
Proof.
  intro Hpq. induction n as [z|s|b0|t' args annots IH|items IH] using node_ind'; try discriminate.
  - rewrite !mentions_prim, !orb_true_iff, !existsb_exists. rewrite Forall_forall in IH.
    intros [H|(a & Hin & Ha)]; [left; auto|right; eauto].
  - rewrite !mentions_seq, !existsb_exists. rewrite Forall_forall in IH.
    intros (a & Hin & Ha). eauto.
Qed.

(* on clean trees an occurrence of a restricted instruction has the same "below a lambda body"
   status whether or not the type constructor `lambda` counts as an introducer *)
Lemma Occ_intro3 t : restricted t = true ->
  forall n, types_clean n = true ->
  forall b, Occ lambda_intro t b n <-> Occ lambda_intro3 t b n.
Proof.
  intro Hr.
  assert (Hm : forall intro n b, Occ intro t b n -> mentions restricted n = true).
  { intros intro n b H. apply (mentions_weaken (byte_eqb t)); [|eapply Occ_mentions; exact H].
    intros t0 E. apply byte_eqb_spec in E. subst. exact Hr. }
  induction n as [z|s|b0|t' args annots IH|items IH] using node_ind'; intros Hc b.
  - split; intro H; inversion H.
  - split; intro H; inversion H.
  - split; intro H; inversion H.
  - rewrite types_clean_prim in Hc. apply andb_true_iff in Hc. destruct Hc as [Hl Hc].
    rewrite forallb_forall in Hc. rewrite Forall_forall in IH.
    assert (Hx : forall a bb intro, In a args -> Occ intro t bb a -> lambda_intro t' = lambda_intro3 t').
    { intros a bb intro Hin Ho. unfold lambda_intro, lambda_intro3.
      destruct (byte_eqb t' T_lambda) eqn:E; [|rewrite orb_false_r; reflexivity].
      exfalso. apply negb_true_iff in Hl.
      assert (existsb (mentions restricted) args = true); [|congruence].
      apply existsb_exists. exists a. split; [exact Hin|]. eapply Hm. exact Ho. }
    split; intro H; inversion H as [? ?|? ? ? a bb Hin Ho|]; subst; try constructor.
    + rewrite (Hx a bb _ Hin Ho). econstructor; [exact Hin|]. apply (IH a Hin (Hc a Hin)), Ho.
    + rewrite <- (Hx a bb _ Hin Ho). econstructor; [exact Hin|]. apply (IH a Hin (Hc a Hin)), Ho.
  - rewrite types_clean_seq in Hc. rewrite forallb_forall in Hc. rewrite Forall_forall in IH.
    split; intro H; inversion H as [| |? a bb Hin Ho]; subst;
      (econstructor; [exact Hin|]); apply (IH a Hin (Hc a Hin)), Ho.
Qed.

(* SELF: its mere occurrence matters, not the flag *)
Lemma Occ_any_intro intro1 intro2 t :
  forall n b, Occ intro1 t b n -> exists b', Occ intro2 t b' n.
Proof.
  induction n as [z|s|b0|t' args annots IH|items IH] using node_ind'; intros b H;
    inversion H as [? ?|? ? ? a bb Hin Ho|? a bb Hin Ho].
  - exists false. constructor.
  - rewrite Forall_forall in IH. destruct (IH a Hin _ Ho) as [b' Hb'].
    exists (b' || intro2 t'). econstructor; eassumption.
  - rewrite Forall_forall in IH. destruct (IH a Hin _ Ho) as [b' Hb'].
    exists b'. econstructor; eassumption.
Qed.

Lemma accept_iff_programs name code :
  types_clean code = true ->
  (view_accepts name code = true <-> ~ spec_reject_gen lambda_intro3 name code).
Proof.
  intro Hc. rewrite accept_iff. unfold spec_reject, spec_reject_gen.
  assert (E : (exists b, Occ lambda_intro T_SELF b code) <-> (exists b, Occ lambda_intro3 T_SELF b code)).
  { split; intros [b H]; eapply Occ_any_intro; exact H. }
  assert (F : (exists t, restricted t = true /\ Occ lambda_intro t false code) <->
              (exists t, restricted t = true /\ Occ lambda_intro3 t false code)).
  { split; intros (t & Hr & H); exists t; (split; [exact Hr|]); apply (Occ_intro3 t Hr code Hc); exact H. }
  rewrite E, F. reflexivity.
Qed.

Lemma allowed_chars_list c :
  allowed_char c = true <->
  In c [x61;x62;x63;x64;x65;x66;x67;x68;x69;x6a;x6b;x6c;x6d;x6e;x6f;x70;x71;x72;x73;x74;x75;x76;x77;x78;x79;x7a;
        x41;x42;x43;x44;x45;x46;x47;x48;x49;x4a;x4b;x4c;x4d;x4e;x4f;x50;x51;x52;x53;x54;x55;x56;x57;x58;x59;x5a;
        x30;x31;x32;x33;x34;x35;x36;x37;x38;x39; x5f; x2e; x25; x40].
Proof.
  split.
  - destruct c; vm_compute; intro H; try discriminate H; tauto.
  - intro H. repeat (destruct H as [<-|H]; [reflexivity|]). destruct H.
Qed.

Lemma name_rule name :
  check_name name = true <-> (length name <= 31 /\ forall c, In c name -> allowed_char c = true).
Proof.
  rewrite check_name_iff. unfold bad_name. split.
  - intro H. split.
    + destruct (Nat.le_gt_cases (length name) 31) as [L|L]; [exact L|]. exfalso. apply H. left. exact L.
    + intros c Hin. destruct (allowed_char c) eqn:E; [reflexivity|]. exfalso. apply H. right. eauto.
  - intros [Hl Hc] [H|(c & Hin & Hb)]; [lia|]. rewrite (Hc c Hin) in Hb. discriminate.
Qed.
