(* Proofs/Instr_proofs.v — lemmas about Michelson/Instr.v: decidable type equality, induction principles for
   the nested value types, run-time typing vs rt_type, literals, stack shuffles. *)
From Coq Require Import List ZArith Bool Arith Lia.
From PV Require Import Base.Bytes Michelson.Instr Michelson.Typing.
Import ListNotations.

Lemma ty_eqb_refl t : ty_eqb t t = true.
Proof. induction t; simpl; rewrite ?IHt, ?IHt1, ?IHt2; reflexivity. Qed.

Lemma ty_eqb_eq a b : ty_eqb a b = true -> a = b.
Proof.
  revert b. induction a; intros [] H; simpl in H; try discriminate; try reflexivity.
  - apply andb_prop in H as [H1 H2]. f_equal; auto.
  - f_equal; auto.
  - apply andb_prop in H as [H1 H2]. f_equal; auto.
  - f_equal; auto.
  - f_equal; auto.
  - apply andb_prop in H as [H1 H2]. f_equal; auto.
  - apply andb_prop in H as [H1 H2]. f_equal; auto.
Qed.

Lemma ty_eqb_spec a b : ty_eqb a b = true <-> a = b.
Proof. split; [apply ty_eqb_eq | intros ->; apply ty_eqb_refl]. Qed.

Lemma sty_eqb_eq (a b : list ty) : list_eqb ty_eqb a b = true -> a = b.
Proof. apply (list_eqb_spec ty_eqb ty_eqb_spec). Qed.

Lemma sty_eqb_refl (a : list ty) : list_eqb ty_eqb a a = true.
Proof. apply (list_eqb_spec ty_eqb ty_eqb_spec). reflexivity. Qed.

(* ---- induction principles with the hypothesis for every list element ---- *)
Section PvalInd.
  Variable P : pval -> Prop.
  Hypothesis HInt : forall z, P (PInt z).
  Hypothesis HNat : forall z, P (PNat z).
  Hypothesis HMutez : forall z, P (PMutez z).
  Hypothesis HTimestamp : forall z, P (PTimestamp z).
  Hypothesis HAddress : forall s, P (PAddress s).
  Hypothesis HChainId : forall s, P (PChainId s).
  Hypothesis HStr : forall s, P (PStr s).
  Hypothesis HBytes : forall s, P (PBytes s).
  Hypothesis HBool : forall b, P (PBool b).
  Hypothesis HUnit : P PUnit.
  Hypothesis HPair : forall a b, P a -> P b -> P (PPair a b).
  Hypothesis HNone : forall t, P (PNone t).
  Hypothesis HSome : forall v, P v -> P (PSome v).
  Hypothesis HLeft : forall v t, P v -> P (PLeft v t).
  Hypothesis HRight : forall t v, P v -> P (PRight t v).
  Hypothesis HList : forall t l, Forall P l -> P (PList t l).
  Hypothesis HSet : forall t l, Forall P l -> P (PSet t l).
  Hypothesis HMap : forall kt vt l, Forall P l -> P (PMap kt vt l).
  Hypothesis HLam : forall a b body, P (PLam a b body).

  Fixpoint pval_ind' (v : pval) : P v :=
    match v with
    | PInt z => HInt z
    | PNat z => HNat z
    | PMutez z => HMutez z
    | PTimestamp z => HTimestamp z
    | PAddress s => HAddress s
    | PChainId s => HChainId s
    | PStr s => HStr s
    | PBytes s => HBytes s
    | PBool b => HBool b
    | PUnit => HUnit
    | PPair a b => HPair a b (pval_ind' a) (pval_ind' b)
    | PNone t => HNone t
    | PSome x => HSome x (pval_ind' x)
    | PLeft x t => HLeft x t (pval_ind' x)
    | PRight t x => HRight t x (pval_ind' x)
    | PList t l =>
        HList t l ((fix go (l : list pval) : Forall P l :=
                      match l with
                      | [] => Forall_nil P
                      | x :: r => Forall_cons x (pval_ind' x) (go r)
                      end) l)
    | PSet t l =>
        HSet t l ((fix go (l : list pval) : Forall P l :=
                     match l with
                     | [] => Forall_nil P
                     | x :: r => Forall_cons x (pval_ind' x) (go r)
                     end) l)
    | PMap kt vt l =>
        HMap kt vt l ((fix go (l : list pval) : Forall P l :=
                         match l with
                         | [] => Forall_nil P
                         | x :: r => Forall_cons x (pval_ind' x) (go r)
                         end) l)
    | PLam a b body => HLam a b body
    end.
End PvalInd.

Section DataInd.
  Variable P : data -> Prop.
  Hypothesis HInt : forall z, P (DInt z).
  Hypothesis HMutez : forall z, P (DMutez z).
  Hypothesis HStr : forall s, P (DStr s).
  Hypothesis HBytes : forall s, P (DBytes s).
  Hypothesis HBool : forall b, P (DBool b).
  Hypothesis HUnit : P DUnit.
  Hypothesis HPair : forall a b, P a -> P b -> P (DPair a b).
  Hypothesis HNone : P DNone.
  Hypothesis HSome : forall v, P v -> P (DSome v).
  Hypothesis HLeft : forall v, P v -> P (DLeft v).
  Hypothesis HRight : forall v, P v -> P (DRight v).
  Hypothesis HList : forall l, Forall P l -> P (DList l).
  Hypothesis HSet : forall l, Forall P l -> P (DSet l).
  Hypothesis HMap : forall l, Forall P l -> P (DMap l).

  Fixpoint data_ind' (v : data) : P v :=
    match v with
    | DInt z => HInt z
    | DMutez z => HMutez z
    | DStr s => HStr s
    | DBytes s => HBytes s
    | DBool b => HBool b
    | DUnit => HUnit
    | DPair a b => HPair a b (data_ind' a) (data_ind' b)
    | DNone => HNone
    | DSome x => HSome x (data_ind' x)
    | DLeft x => HLeft x (data_ind' x)
    | DRight x => HRight x (data_ind' x)
    | DList l =>
        HList l ((fix go (l : list data) : Forall P l :=
                    match l with
                    | [] => Forall_nil P
                    | x :: r => Forall_cons x (data_ind' x) (go r)
                    end) l)
    | DSet l =>
        HSet l ((fix go (l : list data) : Forall P l :=
                   match l with
                   | [] => Forall_nil P
                   | x :: r => Forall_cons x (data_ind' x) (go r)
                   end) l)
    | DMap l =>
        HMap l ((fix go (l : list data) : Forall P l :=
                   match l with
                   | [] => Forall_nil P
                   | x :: r => Forall_cons x (data_ind' x) (go r)
                   end) l)
    end.
End DataInd.

(* ---- run-time typing ---- *)
Definition typed (v : pval) (t : ty) : Prop := pv_typedb v t = true.

Lemma typed_rt_type v : forall t, typed v t -> rt_type v = t.
Proof.
  unfold typed.
  induction v as [z|z|z|z|s|s|s|s|b| |x y IHx IHy|t0|x IHx|x t0 IHx|t0 x IHx|t0 l IHl|t0 l IHl|kt vt l IHl|ta tb body] using pval_ind';
    intros [] Ht; simpl in Ht; try discriminate; simpl; try reflexivity.
  - apply andb_prop in Ht as [H1 H2]. f_equal; auto.
  - apply ty_eqb_eq in Ht. congruence.
  - f_equal; auto.
  - apply andb_prop in Ht as [H1 H2]. apply ty_eqb_eq in H2. f_equal; auto.
  - apply andb_prop in Ht as [H1 H2]. apply ty_eqb_eq in H1. f_equal; auto.
  - apply andb_prop in Ht as [H1 H2]. apply ty_eqb_eq in H1. congruence.
  - apply andb_prop in Ht as [H1 H2]. apply andb_prop in H1 as [H1 H3]. apply ty_eqb_eq in H1. congruence.
  - apply andb_prop in Ht as [H1 H2]. apply andb_prop in H1 as [H1 H3]. apply andb_prop in H1 as [H1 H4].
    apply ty_eqb_eq in H1. apply ty_eqb_eq in H4. congruence.
  - apply andb_prop in Ht as [H1 H3]. apply andb_prop in H1 as [H1 H2]. apply ty_eqb_eq in H1. apply ty_eqb_eq in H2. congruence.
Qed.

Lemma typed_list_inv t' l a : typed (PList t' l) (TList a) -> t' = a /\ Forall (fun x => typed x a) l.
Proof.
  unfold typed. simpl. intros H. apply andb_prop in H as [H1 H2]. apply ty_eqb_eq in H1. split; [assumption|].
  apply Forall_forall. intros x Hx. rewrite forallb_forall in H2. auto.
Qed.

Lemma typed_list_intro a l : Forall (fun x => typed x a) l -> typed (PList a l) (TList a).
Proof.
  unfold typed. simpl. intros H. rewrite ty_eqb_refl. simpl. apply forallb_forall. intros x Hx.
  rewrite Forall_forall in H. auto.
Qed.

(* shape of a well-typed value, by type *)
Lemma typed_int_inv v : typed v TInt -> exists z, v = PInt z.
Proof. destruct v; unfold typed; simpl; try discriminate; eauto. Qed.
Lemma typed_nat_inv v : typed v TNat -> exists z, v = PNat z /\ (0 <= z)%Z.
Proof. destruct v; unfold typed; simpl; try discriminate. intros H. apply Z.leb_le in H. eauto. Qed.
Lemma typed_string_inv v : typed v TString -> exists s, v = PStr s.
Proof. destruct v; unfold typed; simpl; try discriminate; eauto. Qed.
Lemma typed_mutez_inv v : typed v TMutez -> exists z, v = PMutez z /\ (0 <= z < mutez_bound)%Z.
Proof.
  destruct v; unfold typed; simpl; try discriminate. intros H. apply andb_prop in H as [H1 H2].
  apply Z.leb_le in H1. apply Z.ltb_lt in H2. eauto.
Qed.
Lemma typed_timestamp_inv v : typed v TTimestamp -> exists z, v = PTimestamp z.
Proof. destruct v; unfold typed; simpl; try discriminate; eauto. Qed.
Lemma typed_address_inv v : typed v TAddress -> exists s, v = PAddress s.
Proof. destruct v; unfold typed; simpl; try discriminate; eauto. Qed.
Lemma typed_chain_id_inv v : typed v TChainId -> exists s, v = PChainId s.
Proof. destruct v; unfold typed; simpl; try discriminate; eauto. Qed.
Lemma typed_bytes_inv v : typed v TBytes -> exists s, v = PBytes s.
Proof. destruct v; unfold typed; simpl; try discriminate; eauto. Qed.
Lemma typed_bool_inv v : typed v TBool -> exists b, v = PBool b.
Proof. destruct v; unfold typed; simpl; try discriminate; eauto. Qed.
Lemma typed_unit_inv v : typed v TUnit -> v = PUnit.
Proof. destruct v; unfold typed; simpl; try discriminate; eauto. Qed.
Lemma typed_operation_inv v : typed v TOperation -> False.
Proof. destruct v; unfold typed; simpl; discriminate. Qed.
Lemma typed_pair_inv v a b : typed v (TPair a b) -> exists x y, v = PPair x y /\ typed x a /\ typed y b.
Proof. destruct v; unfold typed; simpl; try discriminate. intros H. apply andb_prop in H as [H1 H2]. eauto. Qed.
Lemma typed_option_inv v a : typed v (TOption a) -> v = PNone a \/ exists x, v = PSome x /\ typed x a.
Proof.
  destruct v; unfold typed; simpl; try discriminate; intros H.
  - apply ty_eqb_eq in H. subst. auto.
  - eauto.
Qed.
Lemma typed_or_inv v a b : typed v (TOr a b) ->
  (exists x, v = PLeft x b /\ typed x a) \/ (exists y, v = PRight a y /\ typed y b).
Proof.
  destruct v; unfold typed; simpl; try discriminate; intros H; apply andb_prop in H as [H1 H2].
  - apply ty_eqb_eq in H2. subst. eauto.
  - apply ty_eqb_eq in H1. subst. eauto.
Qed.
Lemma typed_lambda_inv v a b : typed v (TLambda a b) -> exists body, v = PLam a b body /\ lam_body_ok a b body = true.
Proof.
  destruct v; unfold typed; simpl; try discriminate. intros H.
  apply andb_prop in H as [H1 H3]. apply andb_prop in H1 as [H1 H2]. apply ty_eqb_eq in H1. apply ty_eqb_eq in H2. subst. eauto.
Qed.
Lemma typed_set_inv v a : typed v (TSet a) -> exists l, v = PSet a l /\ Forall (fun x => typed x a) l.
Proof.
  destruct v; unfold typed; try (simpl; discriminate). simpl. intros H.
  apply andb_prop in H as [H _]. apply andb_prop in H as [H1 H2]. apply ty_eqb_eq in H1. subst.
  eexists; split; [reflexivity|]. apply Forall_forall. intros x Hx. rewrite forallb_forall in H2. auto.
Qed.
Definition entry_typed (kt vt : ty) (x : pval) : Prop := exists k v, x = PPair k v /\ typed k kt /\ typed v vt.
Lemma typed_map_inv v a b : typed v (TMap a b) -> exists l, v = PMap a b l /\ Forall (entry_typed a b) l.
Proof.
  destruct v; unfold typed; try (simpl; discriminate). simpl. intros H.
  apply andb_prop in H as [H _]. apply andb_prop in H as [H H3]. apply andb_prop in H as [H1 H2].
  apply ty_eqb_eq in H1. apply ty_eqb_eq in H2. subst.
  eexists; split; [reflexivity|]. apply Forall_forall. intros x Hx. rewrite forallb_forall in H3. specialize (H3 x Hx).
  destruct x; try discriminate. apply andb_prop in H3 as [Hk Hv]. unfold entry_typed. eauto.
Qed.
Lemma entry_typed_pair a b x : entry_typed a b x -> typed x (TPair a b).
Proof. intros (k & v & -> & Hk & Hv). unfold typed in *. simpl. rewrite Hk, Hv. reflexivity. Qed.
Lemma typed_list_inv' v a : typed v (TList a) -> exists l, v = PList a l /\ Forall (fun x => typed x a) l.
Proof.
  destruct v; unfold typed; try (simpl; discriminate). intros H. apply typed_list_inv in H as [-> H]. eauto.
Qed.

(* ---- literals ---- *)
(* literals without sets and maps ([has_coll t = false]: set/map literals are outside the proved fragment) *)
Lemma py_of_data_typed d : forall t, data_has_type t d = true -> has_coll t = false ->
  exists v, py_of_data t d = Some v /\ typed v t /\ erase v = value_of_data d.
Proof.
  unfold typed.
  induction d as [z|z|s|s|b| |x y IHx IHy| |x IHx|x IHx|x IHx|l IHl|l IHl|l IHl] using data_ind';
    intros [] Ht Hn; simpl in Ht; try discriminate; simpl in Hn; try discriminate; simpl.
  - eexists; repeat split.
  - apply Z.leb_le in Ht. destruct (z <? 0)%Z eqn:E; [apply Z.ltb_lt in E; lia|].
    eexists; repeat split. simpl. apply Z.leb_le. assumption.
  - eexists; repeat split.
  - apply andb_prop in Ht as [H1 H2]. pose proof H1 as H1'. apply Z.leb_le in H1'.
    destruct (z <? 0)%Z eqn:E; [apply Z.ltb_lt in E; lia|]. rewrite H2.
    eexists; repeat split. simpl. rewrite H1, H2. reflexivity.
  - eexists; repeat split.
  - eexists; repeat split.
  - eexists; repeat split.
  - eexists; repeat split.
  - apply andb_prop in Ht as [H1 H2]. apply orb_false_elim in Hn as [N1 N2].
    destruct (IHx _ H1 N1) as (v1 & E1 & T1 & R1). destruct (IHy _ H2 N2) as (v2 & E2 & T2 & R2).
    rewrite E1, E2. eexists; repeat split; simpl; [rewrite T1, T2; reflexivity | congruence].
  - eexists; repeat split. simpl. apply ty_eqb_refl.
  - destruct (IHx _ Ht Hn) as (v & E & T & R). rewrite E. simpl. eexists; repeat split; simpl; [assumption | congruence].
  - apply orb_false_elim in Hn as [N1 N2]. destruct (IHx _ Ht N1) as (v & E & T & R). rewrite E. simpl. eexists; repeat split; simpl.
    + rewrite T, ty_eqb_refl. reflexivity.
    + congruence.
  - apply orb_false_elim in Hn as [N1 N2]. destruct (IHx _ Ht N2) as (v & E & T & R). rewrite E. simpl. eexists; repeat split; simpl.
    + rewrite T, ty_eqb_refl. reflexivity.
    + congruence.
  - (* lists *)
    assert (G : exists vs,
      (fix go (l0 : list data) : option (list pval) :=
         match l0 with
         | [] => Some []
         | x :: r => match py_of_data a x with
                     | Some u => match go r with Some us => Some (u :: us) | None => None end
                     | None => None
                     end
         end) l = Some vs /\ forallb (fun x => pv_typedb x a) vs = true /\ map erase vs = map value_of_data l).
    { induction l as [|x r IHr]; [exists []; auto|].
      simpl in Ht. apply andb_prop in Ht as [Hx Hr]. inversion IHl as [|? ? Px Pr]; subst.
      destruct (Px _ Hx Hn) as (v & E & T & R). destruct (IHr Pr Hr) as (vs & Es & Ts & Rs).
      rewrite E, Es. exists (v :: vs). repeat split; simpl; [rewrite T, Ts; reflexivity | congruence]. }
    destruct G as (vs & Es & Ts & Rs). rewrite Es. simpl. eexists; repeat split; simpl.
    + rewrite ty_eqb_refl, Ts. reflexivity.
    + congruence.
Qed.

(* ---- stack shuffles are natural ---- *)
Lemma nth_error_map' {A B} (f : A -> B) l n : nth_error (map f l) n = option_map f (nth_error l n).
Proof. revert n; induction l; intros [|n]; simpl; auto. Qed.

Lemma shuffle_map {A B} (f : A -> B) i (s : list A) :
  shuffle i (map f s) = option_map (map f) (shuffle i s).
Proof.
  destruct i; simpl; try reflexivity.
  - rewrite map_length. destruct (n <=? length s); simpl; [rewrite skipn_map|]; reflexivity.
  - destruct n; [reflexivity|]. rewrite nth_error_map'. destruct (nth_error s n); reflexivity.
  - rewrite nth_error_map'. destruct (nth_error s n); simpl; [|reflexivity].
    rewrite map_app, firstn_map. f_equal. f_equal. f_equal.
    destruct s as [|x r]; [reflexivity|]. simpl. apply skipn_map.
  - destruct s as [|t r]; [reflexivity|]. simpl. rewrite map_length.
    destruct (n <=? length r); simpl; [|reflexivity].
    rewrite map_app, firstn_map. simpl. rewrite skipn_map. reflexivity.
Qed.

Lemma Forall2_firstn {A B} (R : A -> B -> Prop) n a b : Forall2 R a b -> Forall2 R (firstn n a) (firstn n b).
Proof. intros H. revert n. induction H; intros [|n]; simpl; constructor; auto. Qed.
Lemma Forall2_skipn {A B} (R : A -> B -> Prop) n a b : Forall2 R a b -> Forall2 R (skipn n a) (skipn n b).
Proof. intros H. revert n. induction H; intros [|n]; simpl; try constructor; auto. Qed.
Lemma Forall2_nth_error {A B} (R : A -> B -> Prop) n a b : Forall2 R a b ->
  match nth_error a n, nth_error b n with
  | Some x, Some y => R x y
  | None, None => True
  | _, _ => False
  end.
Proof. intros H. revert n. induction H; intros [|n]; simpl; auto. apply IHForall2. Qed.

Lemma Forall2_length' {A B} (R : A -> B -> Prop) a b : Forall2 R a b -> length a = length b.
Proof. induction 1; simpl; congruence. Qed.

Lemma shuffle_Forall2 {A B} (R : A -> B -> Prop) i a b : Forall2 R a b ->
  match shuffle i a, shuffle i b with
  | Some a', Some b' => Forall2 R a' b'
  | None, None => True
  | _, _ => False
  end.
Proof.
  intros H. pose proof (Forall2_length' _ _ _ H) as L.
  destruct i; simpl; auto.
  - rewrite L. destruct (n <=? length b); [apply Forall2_skipn; assumption | exact I].
  - destruct n; [exact I|]. pose proof (Forall2_nth_error R n _ _ H) as N.
    destruct (nth_error a n), (nth_error b n); try contradiction; auto.
  - pose proof (Forall2_nth_error R n _ _ H) as N.
    destruct (nth_error a n), (nth_error b n); try contradiction; auto.
    constructor; [assumption|]. apply Forall2_app; [apply Forall2_firstn | apply (Forall2_skipn R (S n))]; assumption.
  - destruct H as [|x y a b Hxy H]; [exact I|]. simpl in L. injection L as L. rewrite L.
    destruct (n <=? length b); [|exact I].
    apply Forall2_app; [apply Forall2_firstn; assumption|]. constructor; [assumption | apply Forall2_skipn; assumption].
Qed.
