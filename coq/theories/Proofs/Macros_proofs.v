(* Proofs/Macros_proofs.v — lemmas about Michelson/Macros.v *)
From Coq Require Import List ZArith Bool String Ascii Arith Lia.
From Coq.Strings Require Import Byte.
From PV Require Import Base.Bytes Codec.Micheline Michelson.Macros.
Import ListNotations.
Local Open Scope list_scope.

Lemma fail_meaning : forall ext (annots : list bytes) s,
  expand "FAIL" [] [] = Some ref_fail /\ eval ext (NSeq ref_fail) s = RFailed VUnit.
Proof. intros. split; reflexivity. Qed.
