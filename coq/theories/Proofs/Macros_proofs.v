(* Proofs/Macros_proofs.v — lemmas about Michelson/Macros.v: the model of expand_macro produces code
   that the reference evaluator cannot distinguish from the reference definition of each macro. *)
From Coq Require Import List ZArith Bool String Ascii Arith Lia.
From Coq.Strings Require Import Byte.
From PV Require Import Base.Bytes Codec.Micheline Michelson.Macros.
Import ListNotations.
Local Open Scope list_scope.

Section WithExt.
Variable ext : byte -> list node -> stack -> res.

Notation ev := (eval ext).
Notation evl := (eval_list ext).

(* ---------------------------------------------------------------------------------------------- *)
(* evaluator basics                                                                                *)

Lemma eval_seq : forall l s, ev (NSeq l) s = evl l s.
Proof.
  induction l as [|i r IH]; intro s; [reflexivity|].
  change (ev (NSeq (i :: r)) s) with (match ev i s with ROk s' => ev (NSeq r) s' | e => e end).
  simpl. destruct (ev i s); auto.
Qed.

Lemma evl_app : forall a b s,
  evl (a ++ b) s = match evl a s with ROk s' => evl b s' | e => e end.
Proof.
  induction a as [|i a IH]; intros b s; simpl; [reflexivity|].
  destruct (ev i s); auto.
Qed.

Lemma eval_singleton : forall n s, ev (NSeq [n]) s = ev n s.
Proof. intros. rewrite eval_seq. simpl. destruct (ev n s); reflexivity. Qed.

Lemma eval_seqn : forall n s, ev (seqn n) s = ev n s.
Proof. intros n s. unfold seqn. destruct (is_seq n); [reflexivity | apply eval_singleton]. Qed.

Lemma dip_ext : forall k f g s, (forall x, f x = g x) -> dip k f s = dip k g s.
Proof. intros k f g s H. unfold dip. rewrite H. reflexivity. Qed.

Lemma dip_dip : forall n f s, dip 1 (dip n f) s = dip (S n) f s.
Proof.
  intros n f [|v s]; [reflexivity|].
  unfold dip. simpl List.length. simpl skipn. simpl firstn.
  change (S (List.length s) <? S n) with (List.length s <? n).
  destruct (List.length s <? n); [reflexivity|].
  destruct (f (skipn n s)); reflexivity.
Qed.

Lemma dip_app : forall pre s f, dip (List.length pre) f (pre ++ s) =
  match f s with ROk s' => ROk (pre ++ s') | e => e end.
Proof.
  intros pre s f. unfold dip.
  rewrite app_length.
  replace (List.length pre + List.length s <? List.length pre) with false
    by (symmetry; apply Nat.ltb_ge; lia).
  rewrite skipn_app, Nat.sub_diag, skipn_all. simpl.
  rewrite firstn_app, Nat.sub_diag, firstn_all. simpl. rewrite app_nil_r. reflexivity.
Qed.

Lemma dip1_cons : forall a s f, dip 1 f (a :: s) = match f s with ROk s' => ROk (a :: s') | e => e end.
Proof. intros. apply (dip_app [a]). Qed.

Lemma dip_short : forall k f s, List.length s < k -> dip k f s = RErr.
Proof. intros k f s H. unfold dip. apply Nat.ltb_lt in H. rewrite H. reflexivity. Qed.

Lemma eval_dip_nat : forall (n : nat) body an s,
  ev (NPrim T_DIP [NInt (Z.of_nat n); body] an) s = dip n (ev body) s.
Proof.
  intros. cbn [eval byte_eqb Byte.eqb T_DIP].
  change (byte_eqb T_DIP T_DIP) with true. cbv iota.
  destruct (Z.of_nat n <? 0)%Z eqn:E; [apply Z.ltb_lt in E; lia|].
  rewrite Nat2Z.id. reflexivity.
Qed.

Lemma eval_dip_n : forall body d pre s, List.length pre = d ->
  ev (dip_n body d) (pre ++ s) = match ev body s with ROk s' => ROk (pre ++ s') | e => e end.
Proof.
  intros body d pre s H. destruct d as [|[|d]].
  - destruct pre; [|discriminate]. simpl. destruct (ev body s); reflexivity.
  - unfold dip_n. change (ev (NPrim T_DIP [seqn body] []) (pre ++ s)) with (dip 1 (ev (seqn body)) (pre ++ s)).
    rewrite <- H, dip_app, eval_seqn. reflexivity.
  - unfold dip_n. rewrite eval_dip_nat, <- H, dip_app, eval_seqn. reflexivity.
Qed.

Lemma eval_dip_n_short : forall body d s, List.length s < d -> ev (dip_n body d) s = RErr.
Proof.
  intros body d s H. destruct d as [|[|d]]; [lia| |].
  - unfold dip_n. change (ev (NPrim T_DIP [seqn body] []) s) with (dip 1 (ev (seqn body)) s).
    apply dip_short; assumption.
  - unfold dip_n. rewrite eval_dip_nat. apply dip_short; assumption.
Qed.

(* annotations of an instruction never matter *)
Lemma eval_annots : forall t args a1 a2 s, ev (NPrim t args a1) s = ev (NPrim t args a2) s.
Proof. reflexivity. Qed.

(* ---------------------------------------------------------------------------------------------- *)
(* comparison / conditional / assertion macros                                                     *)

Lemma seq_flatten : forall l1 l2 s, ev (NSeq (NSeq l1 :: l2)) s = ev (NSeq (l1 ++ l2)) s.
Proof.
  intros. rewrite !eval_seq, evl_app.
  change (evl (NSeq l1 :: l2) s) with (match ev (NSeq l1) s with ROk s' => evl l2 s' | e => e end).
  rewrite eval_seq. destruct (evl l1 s); reflexivity.
Qed.

Lemma seq_congr_last : forall l b b', (forall st, ev b st = ev b' st) ->
  forall s, ev (NSeq (l ++ [b])) s = ev (NSeq (l ++ [b'])) s.
Proof.
  intros l b b' H s. rewrite !eval_seq, !evl_app. destruct (evl l s); try reflexivity.
  simpl. rewrite H. reflexivity.
Qed.

Lemma if_fail_branch : forall st,
  ev (NPrim T_IF [NSeq []; FAIL_branch] []) st = ev (NPrim T_IF [NSeq []; ref_fail_b] []) st.
Proof. intros [|[] st]; reflexivity. Qed.

Lemma cmp_dispatch : forall nm t, In (nm, t) cmp_ops -> forall (annots : list bytes) (bt bf : node),
  expand ("CMP" ++ nm)%string annots [] = Some [I_COMPARE; primA t annots] /\
  expand ("IF" ++ nm)%string annots [bt; bf] = Some [primA t annots; NPrim T_IF [bt; bf] []] /\
  expand ("IFCMP" ++ nm)%string annots [bt; bf] = Some [NSeq [I_COMPARE; primA t annots]; NPrim T_IF [bt; bf] []] /\
  expand ("ASSERT_" ++ nm)%string [] [] = Some [prim0 t; NPrim T_IF [NSeq []; FAIL_branch] []] /\
  expand ("ASSERT_CMP" ++ nm)%string [] [] = Some [NSeq [I_COMPARE; prim0 t]; NPrim T_IF [NSeq []; FAIL_branch] []].
Proof.
  intros nm t H annots bt bf. simpl in H.
  repeat (destruct H as [H|H]; [injection H as <- <-; repeat split; reflexivity|]). contradiction.
Qed.

Lemma cmp_sem : forall t (annots : list bytes) (bt bf : node) (s : stack),
  ev (NSeq [I_COMPARE; primA t annots]) s = ev (NSeq (ref_cmp t)) s /\
  ev (NSeq [primA t annots; NPrim T_IF [bt; bf] []]) s = ev (NSeq (ref_if t bt bf)) s /\
  ev (NSeq [NSeq [I_COMPARE; primA t annots]; NPrim T_IF [bt; bf] []]) s = ev (NSeq (ref_ifcmp t bt bf)) s /\
  ev (NSeq [prim0 t; NPrim T_IF [NSeq []; FAIL_branch] []]) s = ev (NSeq (ref_assert_op t)) s /\
  ev (NSeq [NSeq [I_COMPARE; prim0 t]; NPrim T_IF [NSeq []; FAIL_branch] []]) s = ev (NSeq (ref_assert_cmp t)) s.
Proof.
  intros. split; [reflexivity|]. split; [reflexivity|]. split; [|split].
  - rewrite seq_flatten. reflexivity.
  - apply (seq_congr_last [prim0 t]). apply if_fail_branch.
  - rewrite seq_flatten. apply (seq_congr_last [I_COMPARE; prim0 t]). apply if_fail_branch.
Qed.

(* ---------------------------------------------------------------------------------------------- *)
(* FAIL, ASSERT, ASSERT_NONE/SOME/LEFT/RIGHT, IF_SOME, IF_RIGHT                                     *)

Lemma fixed_dispatch : forall (annots : list bytes) (bt bf : node),
  expand "FAIL" [] [] = Some [I_UNIT; I_FAILWITH] /\
  expand "ASSERT" [] [] = Some [NPrim T_IF [NSeq []; FAIL_branch] []] /\
  expand "ASSERT_NONE" [] [] = Some [NPrim T_IF_NONE [NSeq []; FAIL_branch] []] /\
  expand "ASSERT_SOME" annots [] = Some [NPrim T_IF_NONE [FAIL_branch; NSeq [primA T_RENAME annots]] []] /\
  expand "ASSERT_LEFT" annots [] = Some [NPrim T_IF_LEFT [NSeq [primA T_RENAME annots]; FAIL_branch] []] /\
  expand "ASSERT_RIGHT" annots [] = Some [NPrim T_IF_LEFT [FAIL_branch; NSeq [primA T_RENAME annots]] []] /\
  expand "IF_SOME" [] [bt; bf] = Some [NPrim T_IF_NONE [bf; bt] []] /\
  expand "IF_RIGHT" [] [bt; bf] = Some [NPrim T_IF_LEFT [bf; bt] []].
Proof. intros. repeat split. Qed.

Lemma fixed_sem : forall (annots : list bytes) (bt bf : node) (s : stack),
  ev (NSeq [I_UNIT; I_FAILWITH]) s = ev (NSeq ref_fail) s /\
  ev (NSeq [NPrim T_IF [NSeq []; FAIL_branch] []]) s = ev (NSeq ref_assert) s /\
  ev (NSeq [NPrim T_IF_NONE [NSeq []; FAIL_branch] []]) s = ev (NSeq ref_assert_none) s /\
  ev (NSeq [NPrim T_IF_NONE [FAIL_branch; NSeq [primA T_RENAME annots]] []]) s = ev (NSeq ref_assert_some) s /\
  ev (NSeq [NPrim T_IF_LEFT [NSeq [primA T_RENAME annots]; FAIL_branch] []]) s = ev (NSeq ref_assert_left) s /\
  ev (NSeq [NPrim T_IF_LEFT [FAIL_branch; NSeq [primA T_RENAME annots]] []]) s = ev (NSeq ref_assert_right) s /\
  ev (NSeq [NPrim T_IF_NONE [bf; bt] []]) s = ev (NSeq (ref_if_some bt bf)) s /\
  ev (NSeq [NPrim T_IF_LEFT [bf; bt] []]) s = ev (NSeq (ref_if_right bt bf)) s.
Proof.
  intros. split; [reflexivity|].
  repeat split; destruct s as [|[] s]; reflexivity.
Qed.

(* the meaning in words: FAIL always fails with Unit; the assertions either continue or fail with Unit *)
Lemma fail_always : forall s, ev (NSeq ref_fail) s = RFailed VUnit.
Proof. reflexivity. Qed.

Lemma assert_meaning : forall b s,
  ev (NSeq ref_assert) (VBool b :: s) = if b then ROk s else RFailed VUnit.
Proof. intros [] s; reflexivity. Qed.

(* ---------------------------------------------------------------------------------------------- *)
(* DII+P and DUU+P                                                                                 *)

Lemma run_rep : forall (c : ascii) (cs : string) n rest,
  cs = String c EmptyString ->
  (match rest with String a _ => Ascii.eqb a c = false | EmptyString => True end) ->
  run c (rep cs n ++ rest)%string = (n, rest).
Proof.
  intros c cs n rest -> Hr. induction n as [|n IH]; simpl.
  - destruct rest as [|a r]; [reflexivity|]. simpl. rewrite Hr. reflexivity.
  - rewrite Ascii.eqb_refl, IH. reflexivity.
Qed.

Lemma dixp_dispatch : forall n code,
  expand (dixp_name (S (S n))) [] [code] = Some [NPrim T_DIP [NInt (Z.of_nat (S (S n))); NSeq [code]] []].
Proof.
  intros n code. unfold dixp_name, expand, m_op, m_fixed, m_dxp. cbn -[run Z.of_nat Nat.leb].
  change (String "I" (String "I" (rep "I" n ++ "P")))%string with (rep "I" (S (S n)) ++ "P")%string.
  rewrite (run_rep "I" "I" (S (S n)) "P" eq_refl eq_refl). reflexivity.
Qed.

Lemma duxp_dispatch : forall n (annots : list bytes),
  expand (duxp_name (S (S n))) annots [] = Some [NPrim T_DUP [NInt (Z.of_nat (S (S n)))] annots].
Proof.
  intros n annots. unfold duxp_name, expand, m_op, m_fixed, m_dxp. cbn -[run Z.of_nat Nat.leb].
  change (String "U" (String "U" (rep "U" n ++ "P")))%string with (rep "U" (S (S n)) ++ "P")%string.
  rewrite (run_rep "U" "U" (S (S n)) "P" eq_refl eq_refl). reflexivity.
Qed.

Lemma ref_dixp_eval : forall n code s, ev (ref_dixp (S n) code) s = dip (S n) (ev code) s.
Proof.
  induction n as [|n IH]; intros code s; [reflexivity|].
  change (ev (ref_dixp (S (S n)) code) s) with (dip 1 (ev (NSeq [ref_dixp (S n) code])) s).
  rewrite <- (dip_dip (S n) (ev code) s). apply dip_ext. intro x. rewrite eval_singleton. apply IH.
Qed.

Lemma dixp_sem : forall n code s,
  ev (NSeq [NPrim T_DIP [NInt (Z.of_nat (S n)); NSeq [code]] []]) s = ev (ref_dixp (S n) code) s.
Proof.
  intros. rewrite eval_singleton, eval_dip_nat, ref_dixp_eval. apply dip_ext. intro x. apply eval_singleton.
Qed.

Definition dup_n (n : nat) (s : stack) : res :=
  match nth_error s n with Some v => ROk (v :: s) | None => RErr end.

Lemma ref_duxp_eval : forall n s, ev (NSeq (ref_duxp (S n))) s = dup_n n s.
Proof.
  induction n as [|n IH]; intro s.
  - destruct s; reflexivity.
  - change (ref_duxp (S (S n))) with [NPrim T_DIP [NSeq (ref_duxp (S n))] []; I_SWAP].
    rewrite eval_seq.
    change (evl [NPrim T_DIP [NSeq (ref_duxp (S n))] []; I_SWAP] s)
      with (match dip 1 (ev (NSeq (ref_duxp (S n)))) s with ROk s' => evl [I_SWAP] s' | e => e end).
    destruct s as [|a s]; [reflexivity|].
    unfold dip. simpl List.length. simpl skipn. simpl firstn. cbv iota beta. simpl Nat.ltb. cbv iota.
    rewrite IH. unfold dup_n. simpl nth_error. destruct (nth_error s n); reflexivity.
Qed.

Lemma duxp_sem : forall n (annots : list bytes) s,
  ev (NSeq [NPrim T_DUP [NInt (Z.of_nat (S n))] annots]) s = ev (NSeq (ref_duxp (S n))) s.
Proof.
  intros. rewrite ref_duxp_eval, eval_singleton.
  cbn [eval]. change (byte_eqb T_DUP T_DIP) with false. change (byte_eqb T_DUP T_IF) with false.
  change (byte_eqb T_DUP T_IF_NONE) with false. change (byte_eqb T_DUP T_IF_LEFT) with false. cbv iota.
  unfold step. change (byte_eqb T_DUP T_DROP) with false. change (byte_eqb T_DUP T_DUP) with true. cbv iota.
  unfold nat_arg. destruct (Z.of_nat (S n) <? 0)%Z eqn:E; [apply Z.ltb_lt in E; lia|].
  rewrite Nat2Z.id. reflexivity.
Qed.

(* ---------------------------------------------------------------------------------------------- *)
(* C[AD]+R, SET_C[AD]+R, MAP_C[AD]+R                                                               *)

Lemma parse_ad_letters : forall path, parse_ad (ad_letters path ++ "R")%string = Some path.
Proof.
  induction path as [|b r IH]; [reflexivity|].
  destruct b; simpl; rewrite IH; reflexivity.
Qed.

Lemma cxr_dispatch : forall a b path (annots : list bytes),
  expand (cxr_name (a :: b :: path)) annots [] = Some (cxr (a :: b :: path) annots).
Proof.
  intros a b path annots. unfold cxr_name, expand, m_op, m_fixed, m_dxp, m_pxr, m_cxr.
  destruct a, b; cbn -[cxr]; rewrite parse_ad_letters; reflexivity.
Qed.

Lemma set_cxr_dispatch : forall a path (annots : list bytes),
  expand (set_cxr_name (a :: path)) annots [] = Some (set_cxr (a :: path) annots).
Proof.
  intros a path annots. unfold set_cxr_name, expand, m_op, m_fixed, m_dxp, m_pxr, m_cxr.
  destruct a; cbn -[set_cxr]; rewrite parse_ad_letters; reflexivity.
Qed.

Lemma map_cxr_dispatch : forall a path (annots : list bytes) args,
  expand (map_cxr_name (a :: path)) annots args = map_cxr (a :: path) annots args.
Proof.
  intros a path annots args. unfold map_cxr_name, expand, m_op, m_fixed, m_dxp, m_pxr, m_cxr.
  destruct a; cbn -[map_cxr]; rewrite parse_ad_letters; reflexivity.
Qed.

Lemma cxr_sem : forall path (annots : list bytes) s, path <> [] ->
  ev (NSeq (cxr path annots)) s = ev (NSeq (ref_cxr path)) s.
Proof.
  induction path as [|b r IH]; intros annots s Hne; [contradiction|].
  destruct r as [|c r].
  - destruct b; reflexivity.
  - rewrite !eval_seq.
    change (evl (cxr (b :: c :: r) annots) s)
      with (match ev (prim0 (cxr_tag b)) s with ROk s' => evl (cxr (c :: r) annots) s' | e => e end).
    change (evl (ref_cxr (b :: c :: r)) s)
      with (match ev (prim0 (cxr_tag b)) s with ROk s' => evl (ref_cxr (c :: r)) s' | e => e end).
    destruct (ev (prim0 (cxr_tag b)) s); try reflexivity.
    rewrite <- !eval_seq. apply IH. discriminate.
Qed.

(* what the path macros compute *)
Lemma ref_cxr_access : forall path v s,
  ev (NSeq (ref_cxr path)) (v :: s) = match access path v with Some x => ROk (x :: s) | None => RErr end.
Proof.
  induction path as [|b r IH]; intros v s; [reflexivity|].
  rewrite eval_seq.
  change (evl (ref_cxr (b :: r)) (v :: s))
    with (match ev (prim0 (cxr_tag b)) (v :: s) with ROk s' => evl (ref_cxr r) s' | e => e end).
  destruct v; try (destruct b; reflexivity).
  destruct b; simpl access; rewrite <- IH, eval_seq; reflexivity.
Qed.

(* one unfolding step of SET_C?(rest)R / MAP_C?(rest)R, generic in the inner code *)
Lemma set_step_a : forall X Y a1 a2 a3 a4, (forall st, ev X st = ev Y st) -> forall s,
  ev (NSeq [I_DUP; NPrim T_DIP [NSeq [NPrim T_CAR [] a1; X]] a2; NPrim T_CDR [] a3; I_SWAP; NPrim T_PAIR [] a4]) s =
  ev (NSeq [I_DUP; NPrim T_DIP [NSeq [I_CAR; Y]] []; I_CDR; I_SWAP; I_PAIR]) s.
Proof.
  intros X Y a1 a2 a3 a4 H [|v s]; [reflexivity|].
  destruct v; try reflexivity.
  cbn. rewrite H. reflexivity.
Qed.

Lemma set_step_d : forall X Y a1 a2 a3 a4, (forall st, ev X st = ev Y st) -> forall s,
  ev (NSeq [I_DUP; NPrim T_DIP [NSeq [NPrim T_CDR [] a1; X]] a2; NPrim T_CAR [] a3; NPrim T_PAIR [] a4]) s =
  ev (NSeq [I_DUP; NPrim T_DIP [NSeq [I_CDR; Y]] []; I_CAR; I_PAIR]) s.
Proof.
  intros X Y a1 a2 a3 a4 H [|v s]; [reflexivity|].
  destruct v; try reflexivity.
  cbn. rewrite H. reflexivity.
Qed.

Lemma set_cxr_sem : forall path (annots : list bytes) s, path <> [] ->
  ev (NSeq (set_cxr path annots)) s = ev (NSeq (ref_set_cxr path)) s.
Proof.
  induction path as [|b r IH]; intros annots s Hne; [contradiction|].
  destruct r as [|c r].
  - destruct b; destruct s as [|x [|y s]]; try reflexivity; destruct x; reflexivity.
  - destruct b.
    + apply set_step_a. intro st. apply IH. discriminate.
    + apply set_step_d. intro st. apply IH. discriminate.
Qed.

Lemma ref_set_cxr_meaning : forall path v x s, path <> [] ->
  ev (NSeq (ref_set_cxr path)) (v :: x :: s) =
  match set_path path v x with Some v' => ROk (v' :: s) | None => RErr end.
Proof.
  induction path as [|b r IH]; intros v x s Hne; [contradiction|].
  destruct r as [|c r].
  - destruct b; destruct v; reflexivity.
  - destruct v; try (destruct b; reflexivity).
    destruct b.
    + change (ref_set_cxr (true :: c :: r))
        with [I_DUP; NPrim T_DIP [NSeq [I_CAR; NSeq (ref_set_cxr (c :: r))]] []; I_CDR; I_SWAP; I_PAIR].
      cbn -[ref_set_cxr set_path].
      change ((fix go (l : list node) (s0 : stack) {struct l} : res :=
                 match l with [] => ROk s0 | i :: r0 => match ev i s0 with ROk s' => go r0 s' | e => e end end)
                (ref_set_cxr (c :: r)) (v1 :: x :: s))
        with (ev (NSeq (ref_set_cxr (c :: r))) (v1 :: x :: s)).
      rewrite IH by discriminate.
      change (set_path (true :: c :: r) (VPair v1 v2) x) with (match set_path (c :: r) v1 x with Some p' => Some (VPair p' v2) | None => None end).
      destruct (set_path (c :: r) v1 x); reflexivity.
    + change (ref_set_cxr (false :: c :: r))
        with [I_DUP; NPrim T_DIP [NSeq [I_CDR; NSeq (ref_set_cxr (c :: r))]] []; I_CAR; I_PAIR].
      cbn -[ref_set_cxr set_path].
      change ((fix go (l : list node) (s0 : stack) {struct l} : res :=
                 match l with [] => ROk s0 | i :: r0 => match ev i s0 with ROk s' => go r0 s' | e => e end end)
                (ref_set_cxr (c :: r)) (v2 :: x :: s))
        with (ev (NSeq (ref_set_cxr (c :: r))) (v2 :: x :: s)).
      rewrite IH by discriminate.
      change (set_path (false :: c :: r) (VPair v1 v2) x) with (match set_path (c :: r) v2 x with Some q' => Some (VPair v1 q') | None => None end).
      destruct (set_path (c :: r) v2 x); reflexivity.
Qed.

Lemma map_cxr_sem : forall path (annots : list bytes) code c, path <> [] ->
  map_cxr path annots [code] = Some c ->
  forall s, ev (NSeq c) s = ev (NSeq (ref_map_cxr path code)) s.
Proof.
  induction path as [|b r IH]; intros annots code c Hne Hc s; [contradiction|].
  destruct r as [|d r].
  - destruct b; simpl in Hc; destruct (map_cxr_annots annots) as [[x y]|]; try discriminate;
      injection Hc as <-; reflexivity.
  - destruct b.
    + change (map_cxr (true :: d :: r) annots [code])
        with (match map_cxr (d :: r) (field_annots annots) [code] with
              | Some inner => Some [I_DUP; dip_n (NSeq [I_CAR__; NSeq inner]) 1; I_CDR__; I_SWAP; pair_pa annots]
              | None => None end) in Hc.
      destruct (map_cxr (d :: r) (field_annots annots) [code]) as [inner|] eqn:E; [|discriminate].
      injection Hc as <-.
      apply (set_step_a (NSeq inner) (NSeq (ref_map_cxr (d :: r) code))).
      intro st. eapply IH; [discriminate | exact E].
    + change (map_cxr (false :: d :: r) annots [code])
        with (match map_cxr (d :: r) (field_annots annots) [code] with
              | Some inner => Some [I_DUP; dip_n (NSeq [I_CDR__; NSeq inner]) 1; I_CAR__; pair_pa annots]
              | None => None end) in Hc.
      destruct (map_cxr (d :: r) (field_annots annots) [code]) as [inner|] eqn:E; [|discriminate].
      injection Hc as <-.
      apply (set_step_d (NSeq inner) (NSeq (ref_map_cxr (d :: r) code))).
      intro st. eapply IH; [discriminate | exact E].
Qed.

Lemma map_cxr_defined : forall path (annots : list bytes) code, path <> [] ->
  List.length (field_annots annots) <= 1 -> map_cxr path annots [code] <> None.
Proof.
  assert (Hff : forall a, field_annots (field_annots a) = field_annots a).
  { intro a. unfold field_annots. induction a as [|x a IH]; [reflexivity|].
    simpl. destruct (starts_with x25 x) eqn:E; simpl; [rewrite E, IH|]; auto. }
  induction path as [|b r IH]; intros annots code Hne Hl; [contradiction|].
  destruct r as [|d r].
  - destruct b; simpl; unfold map_cxr_annots; destruct (field_annots annots) as [|x [|y l]];
      simpl in *; try discriminate; lia.
  - specialize (IH (field_annots annots) code ltac:(discriminate)). rewrite Hff in IH. specialize (IH Hl).
    destruct b.
    + change (map_cxr (true :: d :: r) annots [code])
        with (match map_cxr (d :: r) (field_annots annots) [code] with
              | Some inner => Some [I_DUP; dip_n (NSeq [I_CAR__; NSeq inner]) 1; I_CDR__; I_SWAP; pair_pa annots]
              | None => None end).
      destruct (map_cxr (d :: r) (field_annots annots) [code]); [discriminate | contradiction].
    + change (map_cxr (false :: d :: r) annots [code])
        with (match map_cxr (d :: r) (field_annots annots) [code] with
              | Some inner => Some [I_DUP; dip_n (NSeq [I_CDR__; NSeq inner]) 1; I_CAR__; pair_pa annots]
              | None => None end).
      destruct (map_cxr (d :: r) (field_annots annots) [code]); [discriminate | contradiction].
Qed.

(* ---------------------------------------------------------------------------------------------- *)
(* PAIR / UNPAIR trees                                                                             *)

Fixpoint size (t : tree) : nat := match t with L => 1 | N l r => S (size l + size r) end.

(* the tree build_pxr_tree computes for a well-formed name: depths and leaf annotations *)
Fixpoint decorate (t : tree) (annots : list bytes) (d : nat) : pxr * list bytes * nat :=
  match t with
  | L => (PLeaf (hd_error annots), tl annots, S d)
  | N l r => let '(pl, a1, d1) := decorate l annots d in
             let '(pr, a2, d2) := decorate r a1 d1 in
             (PNode d pl pr, a2, d2)
  end.
Definition dec (t : tree) (annots : list bytes) (d : nat) : pxr := fst (fst (decorate t annots d)).

Lemma decorate_depth : forall t a d, snd (decorate t a d) = d + leaves t.
Proof.
  induction t as [|l IHl r IHr]; intros a d; simpl; [lia|].
  destruct (decorate l a d) as [[pl a1] d1] eqn:El.
  destruct (decorate r a1 d1) as [[pr a2] d2] eqn:Er. simpl.
  specialize (IHl a d). specialize (IHr a1 d1). rewrite El in IHl. rewrite Er in IHr. simpl in *. lia.
Qed.

Lemma dec_node : forall l r a d,
  dec (N l r) a d = PNode d (dec l a d) (dec r (snd (fst (decorate l a d))) (d + leaves l)).
Proof.
  intros. unfold dec. simpl. pose proof (decorate_depth l a d) as H.
  destruct (decorate l a d) as [[pl a1] d1]. simpl in *. subst d1.
  destruct (decorate r a1 (d + leaves l)) as [[pr a2] d2]. reflexivity.
Qed.

Lemma sapp_assoc : forall a b c : string, ((a ++ b) ++ c = a ++ (b ++ c))%string.
Proof. induction a; intros; simpl; [reflexivity | rewrite IHa; reflexivity]. Qed.

Lemma slen_app : forall a b : string, String.length (a ++ b) = String.length a + String.length b.
Proof. induction a; intros; simpl; [reflexivity | rewrite IHa; reflexivity]. Qed.

Lemma slen_letters : forall t b, String.length (letters b t) = size t.
Proof.
  induction t as [|l IHl r IHr]; intro b; [destruct b; reflexivity|].
  simpl. rewrite slen_app, IHl, IHr. reflexivity.
Qed.

Lemma parse_letters : forall t left rest annots d fuel, size t <= fuel ->
  parse_pxr fuel (letters left t ++ rest) annots d =
  Some (dec t annots d, rest, snd (fst (decorate t annots d)), snd (decorate t annots d)).
Proof.
  induction t as [|l IHl r IHr]; intros left rest annots d fuel Hf.
  - destruct fuel as [|f]; [simpl in Hf; lia|]. destruct left; reflexivity.
  - destruct fuel as [|f]; [simpl in Hf; lia|]. simpl in Hf.
    change (letters left (N l r)) with ("P" ++ letters true l ++ letters false r)%string.
    rewrite !sapp_assoc.
    change (parse_pxr (S f) ("P" ++ letters true l ++ letters false r ++ rest) annots d)
      with (match parse_pxr f (letters true l ++ letters false r ++ rest) annots d with
            | None => None
            | Some (lt, r1, a1, d1) =>
                match parse_pxr f r1 a1 d1 with
                | None => None
                | Some (rt, r2, a2, d2) => Some (PNode d lt rt, r2, a2, d2)
                end
            end).
    rewrite IHl by lia. rewrite IHr by lia.
    unfold dec. simpl.
    destruct (decorate l annots d) as [[pl a1] d1]. simpl.
    destruct (decorate r a1 d1) as [[pr a2] d2]. reflexivity.
Qed.

Lemma build_pxr_pair_name : forall t annots,
  build_pxr_tree (pair_name t) annots = Some (dec t annots 0).
Proof.
  intros. unfold build_pxr_tree, pair_name.
  rewrite parse_letters; [reflexivity|].
  rewrite slen_app, slen_letters. lia.
Qed.

Lemma count_pai_letters : forall t b rest,
  count_pai (letters b t ++ rest) = option_map (fun n => size t + n) (count_pai rest).
Proof.
  induction t as [|l IHl r IHr]; intros b rest.
  - destruct b; simpl; destruct (count_pai rest); reflexivity.
  - change (letters b (N l r)) with ("P" ++ letters true l ++ letters false r)%string.
    rewrite !sapp_assoc. simpl. rewrite IHl, IHr. destruct (count_pai rest); simpl; [f_equal; lia | reflexivity].
Qed.

Lemma size_ge_1 : forall t, 1 <= size t.
Proof. destruct t; simpl; lia. Qed.

Lemma is_pxr_pair_name : forall l r, l <> L \/ r <> L -> is_pxr_name (pair_name (N l r)) = true.
Proof.
  intros l r H. unfold pair_name.
  change (letters true (N l r)) with ("P" ++ letters true l ++ letters false r)%string.
  rewrite !sapp_assoc. unfold is_pxr_name. cbn -[Nat.leb count_pai letters size].
  rewrite !count_pai_letters. cbn -[Nat.leb size].
  apply Nat.leb_le.
  pose proof (size_ge_1 l) as Hl1. pose proof (size_ge_1 r) as Hr1.
  destruct H as [H|H].
  - destruct l as [|l1 l2]; [contradiction|]. pose proof (size_ge_1 l1). pose proof (size_ge_1 l2). simpl in *. lia.
  - destruct r as [|r1 r2]; [contradiction|]. pose proof (size_ge_1 r1). pose proof (size_ge_1 r2). simpl in *. lia.
Qed.

Definition pair_code (t : tree) (annots : list bytes) : list node :=
  rev (pxr_preorder (produce_pair (var_annots annots)) true (dec t (field_annots annots) 0)).
Definition unpair_code (t : tree) (annots : list bytes) : list node :=
  pxr_preorder produce_unpair true (dec t annots 0).

Lemma pair_dispatch : forall l r (annots : list bytes), l <> L \/ r <> L ->
  expand (pair_name (N l r)) annots [] = Some (pair_code (N l r) annots).
Proof.
  intros l r annots H. unfold expand, m_op, m_fixed, m_dxp, m_pxr.
  rewrite (is_pxr_pair_name l r H).
  unfold pair_name at 1 2 3 4 5 6 7.
  change (letters true (N l r)) with ("P" ++ letters true l ++ letters false r)%string.
  cbn -[expand_pxr pair_name letters]. unfold expand_pxr. simpl nil_b. cbv iota.
  rewrite build_pxr_pair_name. reflexivity.
Qed.

Lemma unpair_dispatch : forall l r (annots : list bytes), l <> L \/ r <> L ->
  expand (unpair_name (N l r)) annots [] = Some (unpair_code (N l r) annots).
Proof.
  intros l r annots H. unfold expand, m_op, m_fixed, m_dxp, m_pxr, unpair_name.
  cbn -[expand_unpxr pair_name is_pxr_name].
  rewrite (is_pxr_pair_name l r H). unfold expand_unpxr. simpl nil_b. cbv iota.
  rewrite build_pxr_pair_name. reflexivity.
Qed.

(* [Built t sl v]: v is the tree-shaped pairing of the leaves sl *)
Inductive Built : tree -> list val -> val -> Prop :=
| BL v : Built L [v] v
| BN l r sl sr a b : Built l sl a -> Built r sr b -> Built (N l r) (sl ++ sr) (VPair a b).

Lemma built_length : forall t sl v, Built t sl v -> List.length sl = leaves t.
Proof. induction 1; simpl; [reflexivity | rewrite app_length; lia]. Qed.

Lemma build_built : forall t s v s', build t s = Some (v, s') -> exists sl, Built t sl v /\ s = sl ++ s'.
Proof.
  induction t as [|l IHl r IHr]; intros s v s' H; simpl in H.
  - destruct s as [|x s]; [discriminate|]. injection H as <- <-. exists [x]. split; [constructor | reflexivity].
  - destruct (build l s) as [[a s1]|] eqn:El; [|discriminate].
    destruct (build r s1) as [[b s2]|] eqn:Er; [|discriminate].
    injection H as <- <-.
    destruct (IHl _ _ _ El) as [sl [Bl ->]]. destruct (IHr _ _ _ Er) as [sr [Br ->]].
    exists (sl ++ sr). split; [constructor; assumption | rewrite app_assoc; reflexivity].
Qed.

Lemma built_build : forall t sl v, Built t sl v -> forall s', build t (sl ++ s') = Some (v, s').
Proof.
  induction 1 as [v|l r sl sr a b Bl IHl Br IHr]; intro s'; [reflexivity|].
  simpl. rewrite <- app_assoc, IHl, IHr. reflexivity.
Qed.

Lemma built_split : forall t sl v, Built t sl v -> split t v = Some sl.
Proof. induction 1; simpl; [reflexivity|]. rewrite IHBuilt1, IHBuilt2. reflexivity. Qed.

Lemma split_built : forall t v sl, split t v = Some sl -> Built t sl v.
Proof.
  induction t as [|l IHl r IHr]; intros v sl H; simpl in H.
  - injection H as <-. constructor.
  - destruct v; try discriminate.
    destruct (split l v1) as [x|] eqn:E1; [|discriminate].
    destruct (split r v2) as [y|] eqn:E2; [|discriminate].
    injection H as <-. constructor; auto.
Qed.

Lemma build_none_short : forall t s, build t s = None -> List.length s < leaves t.
Proof.
  induction t as [|l IHl r IHr]; intros s H; simpl in H.
  - destruct s; [simpl; lia | discriminate].
  - destruct (build l s) as [[a s1]|] eqn:El.
    + destruct (build r s1) as [[b s2]|] eqn:Er; [discriminate|].
      apply IHr in Er. destruct (build_built _ _ _ _ El) as [sl [Bl ->]].
      rewrite app_length, (built_length _ _ _ Bl). simpl. lia.
    + apply IHl in El. simpl. lia.
Qed.

Lemma built_total : forall t sl, List.length sl = leaves t -> exists v, Built t sl v.
Proof.
  induction t as [|l IHl r IHr]; intros sl H; simpl in H.
  - destruct sl as [|x [|y sl]]; try discriminate. exists x. constructor.
  - destruct (IHl (firstn (leaves l) sl)) as [a Ba]; [rewrite firstn_length; lia|].
    destruct (IHr (skipn (leaves l) sl)) as [b Bb]; [rewrite skipn_length; lia|].
    exists (VPair a b). rewrite <- (firstn_skipn (leaves l) sl). constructor; assumption.
Qed.

Lemma eval_pair_instr : forall an a b s, ev (NPrim T_PAIR [] an) (a :: b :: s) = ROk (VPair a b :: s).
Proof. reflexivity. Qed.

Lemma pair_py_main : forall t sl v, Built t sl v -> forall vars root annots d pre s',
  List.length pre = d ->
  evl (rev (pxr_preorder (produce_pair vars) root (dec t annots d))) (pre ++ sl ++ s') = ROk (pre ++ v :: s').
Proof.
  induction 1 as [v|l r sl sr a b Bl IHl Br IHr]; intros vars root annots d pre s' Hd.
  - reflexivity.
  - rewrite dec_node. cbn [pxr_preorder]. cbn [rev]. rewrite rev_app_distr, !evl_app.
    replace (pre ++ (sl ++ sr) ++ s') with ((pre ++ sl) ++ sr ++ s') by (rewrite <- !app_assoc; reflexivity).
    rewrite IHr by (rewrite app_length, (built_length _ _ _ Bl); lia).
    rewrite <- app_assoc. rewrite IHl by assumption.
    cbn [eval_list]. rewrite eval_dip_n by assumption.
    unfold produce_pair, primA. rewrite eval_pair_instr. reflexivity.
Qed.

Lemma eval_unpair_instr : forall an a b s, ev (NSeq [NPrim T_UNPAIR [] an]) (VPair a b :: s) = ROk (a :: b :: s).
Proof. reflexivity. Qed.

Lemma unpair_py_main : forall t sl v, Built t sl v -> forall root annots d pre s',
  List.length pre = d ->
  evl (pxr_preorder produce_unpair root (dec t annots d)) (pre ++ v :: s') = ROk (pre ++ sl ++ s').
Proof.
  induction 1 as [v|l r sl sr a b Bl IHl Br IHr]; intros root annots d pre s' Hd.
  - reflexivity.
  - rewrite dec_node. cbn [pxr_preorder]. cbn [eval_list]. rewrite eval_dip_n by assumption.
    unfold produce_unpair, primA. rewrite eval_unpair_instr. rewrite evl_app.
    rewrite IHl by assumption.
    replace (pre ++ sl ++ b :: s') with ((pre ++ sl) ++ b :: s') by (rewrite <- app_assoc; reflexivity).
    rewrite IHr by (rewrite app_length, (built_length _ _ _ Bl); lia).
    rewrite <- !app_assoc. reflexivity.
Qed.

Lemma ref_pair_main : forall t sl v, Built t sl v -> forall s', evl (ref_pair t) (sl ++ s') = ROk (v :: s').
Proof.
  induction 1 as [v|l r sl sr a b Bl IHl Br IHr]; intro s'; [reflexivity|].
  cbn [ref_pair]. rewrite !evl_app, <- app_assoc, IHl.
  assert (Hr : evl match r with L => [] | N _ _ => [NPrim T_DIP [NSeq (ref_pair r)] []] end (a :: sr ++ s')
               = ROk (a :: b :: s')).
  { destruct r as [|r1 r2].
    - inversion Br; subst. reflexivity.
    - cbn [eval_list].
      change (ev (NPrim T_DIP [NSeq (ref_pair (N r1 r2))] []) (a :: sr ++ s'))
        with (dip 1 (ev (NSeq (ref_pair (N r1 r2)))) (a :: sr ++ s')).
      rewrite dip1_cons. rewrite eval_seq, IHr. reflexivity. }
  cbv beta iota. rewrite evl_app, Hr. reflexivity.
Qed.

Lemma ref_unpair_main : forall t sl v, Built t sl v -> forall s', evl (ref_unpair t) (v :: s') = ROk (sl ++ s').
Proof.
  induction 1 as [v|l r sl sr a b Bl IHl Br IHr]; intro s'; [reflexivity|].
  cbn [ref_unpair]. rewrite !evl_app.
  change (evl [I_UNPAIR] (VPair a b :: s')) with (ROk (a :: b :: s')). cbv iota.
  assert (Hr : evl match r with L => [] | N _ _ => [NPrim T_DIP [NSeq (ref_unpair r)] []] end (a :: b :: s')
               = ROk (a :: sr ++ s')).
  { destruct r as [|r1 r2].
    - inversion Br; subst. reflexivity.
    - cbn [eval_list].
      change (ev (NPrim T_DIP [NSeq (ref_unpair (N r1 r2))] []) (a :: b :: s'))
        with (dip 1 (ev (NSeq (ref_unpair (N r1 r2)))) (a :: b :: s')).
      rewrite dip1_cons. rewrite eval_seq, IHr. reflexivity. }
  cbv beta iota. rewrite evl_app, Hr, IHl, <- app_assoc. reflexivity.
Qed.

(* failure: a PAIR tree on a stack with too few elements *)
Lemma pair_py_short : forall t vars root annots d st, t <> L ->
  List.length st < d + leaves t ->
  evl (rev (pxr_preorder (produce_pair vars) root (dec t annots d))) st = RErr.
Proof.
  induction t as [|l IHl r IHr]; intros vars root annots d st Hne Hlen; [contradiction|].
  rewrite dec_node. cbn [pxr_preorder]. cbn [rev]. rewrite rev_app_distr, !evl_app.
  simpl in Hlen.
  assert (Hroot : forall st', List.length st' < d + 2 ->
            evl [dip_n (produce_pair vars root
                    (child_annot (dec l annots d))
                    (child_annot (dec r (snd (fst (decorate l annots d))) (d + leaves l)))) d] st' = RErr).
  { intros st' H'. cbn [eval_list].
    destruct (Nat.lt_ge_cases (List.length st') d) as [Hs|Hs].
    - rewrite eval_dip_n_short by assumption. reflexivity.
    - rewrite <- (firstn_skipn d st'). rewrite eval_dip_n by (rewrite firstn_length; lia).
      assert (Hk : List.length (skipn d st') < 2) by (rewrite skipn_length; lia).
      destruct (skipn d st') as [|x [|y z]]; try reflexivity. simpl in Hk. lia. }
  destruct r as [|r1 r2].
  - (* right leaf: no code for it *)
    change (pxr_preorder (produce_pair vars) false (dec L (snd (fst (decorate l annots d))) (d + leaves l))) with (@nil node).
    cbn [rev eval_list]. simpl in Hlen.
    destruct l as [|l1 l2].
    + change (pxr_preorder (produce_pair vars) false (dec L annots d)) with (@nil node).
      cbn [rev eval_list]. apply Hroot. simpl in Hlen. lia.
    + destruct (Nat.lt_ge_cases (List.length st) (d + leaves (N l1 l2))) as [Hs|Hs].
      * rewrite IHl by (try discriminate; assumption). reflexivity.
      * assert (Hex : List.length st = d + leaves (N l1 l2)) by lia.
        destruct (built_total (N l1 l2) (skipn d st)) as [a Ba]; [rewrite skipn_length; lia|].
        rewrite <- (firstn_skipn d st).
        rewrite <- (app_nil_r (skipn d st)).
        rewrite (pair_py_main _ _ _ Ba) by (rewrite firstn_length; lia).
        apply Hroot. rewrite app_length, firstn_length. simpl. lia.
  - destruct (Nat.lt_ge_cases (List.length st) ((d + leaves l) + leaves (N r1 r2))) as [Hs|Hs].
    + rewrite IHr by (try discriminate; assumption). reflexivity.
    + simpl in *. lia.
Qed.

Lemma ref_pair_short : forall t st, t <> L -> List.length st < leaves t -> evl (ref_pair t) st = RErr.
Proof.
  induction t as [|l IHl r IHr]; intros st Hne Hlen; [contradiction|].
  cbn [ref_pair]. rewrite evl_app. simpl in Hlen.
  destruct (Nat.lt_ge_cases (List.length st) (leaves l)) as [Hs|Hs].
  - destruct l as [|l1 l2].
    + destruct st; [|simpl in Hs; lia]. cbn [ref_pair eval_list]. destruct r; reflexivity.
    + rewrite IHl by (try discriminate; assumption). reflexivity.
  - destruct (built_total l (firstn (leaves l) st)) as [a Ba]; [rewrite firstn_length; lia|].
    rewrite <- (firstn_skipn (leaves l) st). rewrite (ref_pair_main _ _ _ Ba). cbv beta iota.
    assert (Hk : List.length (skipn (leaves l) st) < leaves r) by (rewrite skipn_length; lia).
    rewrite evl_app.
    destruct r as [|r1 r2].
    + simpl in Hk. destruct (skipn (leaves l) st); [reflexivity | simpl in Hk; lia].
    + cbn [eval_list].
      change (ev (NPrim T_DIP [NSeq (ref_pair (N r1 r2))] []) (a :: skipn (leaves l) st))
        with (dip 1 (ev (NSeq (ref_pair (N r1 r2)))) (a :: skipn (leaves l) st)).
      rewrite dip1_cons, eval_seq, IHr by (try discriminate; assumption). reflexivity.
Qed.

Lemma unpair_py_fail : forall t root annots d pre v s, List.length pre = d -> split t v = None ->
  evl (pxr_preorder produce_unpair root (dec t annots d)) (pre ++ v :: s) = RErr.
Proof.
  induction t as [|l IHl r IHr]; intros root annots d pre v s Hd Hs; [discriminate|].
  rewrite dec_node. cbn [pxr_preorder eval_list]. rewrite eval_dip_n by assumption.
  unfold produce_unpair, primA.
  destruct v; try reflexivity.
  rewrite eval_unpair_instr. rewrite evl_app. simpl in Hs.
  destruct (split l v1) as [sl|] eqn:E1.
  - rewrite (unpair_py_main _ _ _ (split_built _ _ _ E1)) by assumption.
    destruct (split r v2) as [sr|] eqn:E2; [discriminate|].
    replace (pre ++ sl ++ v2 :: s) with ((pre ++ sl) ++ v2 :: s) by (rewrite <- app_assoc; reflexivity).
    apply IHr; [|assumption].
    rewrite app_length, (built_length _ _ _ (split_built _ _ _ E1)). lia.
  - rewrite IHl by assumption. reflexivity.
Qed.

Lemma unpair_py_empty : forall l r root annots d pre, List.length pre = d ->
  evl (pxr_preorder produce_unpair root (dec (N l r) annots d)) pre = RErr.
Proof.
  intros. rewrite dec_node. cbn [pxr_preorder eval_list].
  rewrite <- (app_nil_r pre) at 1. rewrite eval_dip_n by assumption. reflexivity.
Qed.

Lemma ref_unpair_fail : forall t v s, split t v = None -> evl (ref_unpair t) (v :: s) = RErr.
Proof.
  induction t as [|l IHl r IHr]; intros v s Hs; [discriminate|].
  cbn [ref_unpair]. rewrite evl_app.
  destruct v; try reflexivity.
  change (evl [I_UNPAIR] (VPair v1 v2 :: s)) with (ROk (v1 :: v2 :: s)). cbv beta iota.
  rewrite evl_app. simpl in Hs.
  destruct (split r v2) as [sr|] eqn:E2.
  - assert (Hr : evl match r with L => [] | N _ _ => [NPrim T_DIP [NSeq (ref_unpair r)] []] end (v1 :: v2 :: s)
                 = ROk (v1 :: sr ++ s)).
    { destruct r as [|r1 r2].
      - simpl in E2. injection E2 as <-. reflexivity.
      - cbn [eval_list].
        change (ev (NPrim T_DIP [NSeq (ref_unpair (N r1 r2))] []) (v1 :: v2 :: s))
          with (dip 1 (ev (NSeq (ref_unpair (N r1 r2)))) (v1 :: v2 :: s)).
        rewrite dip1_cons, eval_seq, (ref_unpair_main _ _ _ (split_built _ _ _ E2)). reflexivity. }
    rewrite Hr. destruct (split l v1) eqn:E1; [discriminate|]. apply IHl. assumption.
  - destruct r as [|r1 r2]; [discriminate|].
    cbn [eval_list].
    change (ev (NPrim T_DIP [NSeq (ref_unpair (N r1 r2))] []) (v1 :: v2 :: s))
      with (dip 1 (ev (NSeq (ref_unpair (N r1 r2)))) (v1 :: v2 :: s)).
    rewrite dip1_cons, eval_seq, IHr by assumption. reflexivity.
Qed.

(* ---- the PAIR / UNPAIR statements in final form ------------------------------------------------ *)
Definition pair_result (t : tree) (s : stack) : res :=
  match build t s with Some (v, s') => ROk (v :: s') | None => RErr end.
Definition unpair_result (t : tree) (s : stack) : res :=
  match s with
  | v :: s' => match split t v with Some sl => ROk (sl ++ s') | None => RErr end
  | [] => RErr
  end.

Lemma pair_total : forall l r (annots : list bytes) s,
  ev (NSeq (pair_code (N l r) annots)) s = pair_result (N l r) s /\
  ev (NSeq (ref_pair (N l r))) s = pair_result (N l r) s.
Proof.
  intros l r annots s. rewrite !eval_seq. unfold pair_result, pair_code.
  destruct (build (N l r) s) as [[v s']|] eqn:E.
  - destruct (build_built _ _ _ _ E) as [sl [B ->]]. split.
    + apply (pair_py_main _ _ _ B _ _ _ 0 []). reflexivity.
    + apply (ref_pair_main _ _ _ B).
  - apply build_none_short in E. split.
    + apply pair_py_short; [discriminate | assumption].
    + apply ref_pair_short; [discriminate | assumption].
Qed.

Lemma unpair_total : forall l r (annots : list bytes) s,
  ev (NSeq (unpair_code (N l r) annots)) s = unpair_result (N l r) s /\
  ev (NSeq (ref_unpair (N l r))) s = unpair_result (N l r) s.
Proof.
  intros l r annots s. rewrite !eval_seq. unfold unpair_result, unpair_code.
  destruct s as [|v s'].
  - split; [apply (unpair_py_empty l r true annots 0 []); reflexivity | reflexivity].
  - destruct (split (N l r) v) as [sl|] eqn:E.
    + apply split_built in E. split.
      * apply (unpair_py_main _ _ _ E true annots 0 []). reflexivity.
      * apply (ref_unpair_main _ _ _ E).
    + split.
      * apply (unpair_py_fail (N l r) true annots 0 [] v s'); [reflexivity | assumption].
      * apply ref_unpair_fail. assumption.
Qed.

Lemma unpair_inverts_pair : forall l r (a1 a2 : list bytes) s s1,
  ev (NSeq (pair_code (N l r) a1)) s = ROk s1 ->
  ev (NSeq (unpair_code (N l r) a2)) s1 = ROk s.
Proof.
  intros l r a1 a2 s s1 H.
  rewrite (proj1 (pair_total l r a1 s)) in H. unfold pair_result in H.
  destruct (build (N l r) s) as [[v s']|] eqn:E; [|discriminate]. injection H as <-.
  rewrite (proj1 (unpair_total l r a2 (v :: s'))). unfold unpair_result.
  destruct (build_built _ _ _ _ E) as [sl [B ->]]. rewrite (built_split _ _ _ B). reflexivity.
Qed.

Lemma pair_inverts_unpair : forall l r (a1 a2 : list bytes) s s1,
  ev (NSeq (unpair_code (N l r) a1)) s = ROk s1 ->
  ev (NSeq (pair_code (N l r) a2)) s1 = ROk s.
Proof.
  intros l r a1 a2 s s1 H.
  rewrite (proj1 (unpair_total l r a1 s)) in H. unfold unpair_result in H.
  destruct s as [|v s']; [discriminate|].
  destruct (split (N l r) v) as [sl|] eqn:E; [|discriminate]. injection H as <-.
  rewrite (proj1 (pair_total l r a2 (sl ++ s'))). unfold pair_result.
  rewrite (built_build _ _ _ (split_built _ _ _ E)). reflexivity.
Qed.
End WithExt.

(* ============================================================================================== *)
(* final statements (closed: [ext] is the arbitrary meaning of primitives outside the fragment)   *)

Definition expands_to_ref (ext : byte -> list node -> stack -> res)
           (name : string) (annots : list bytes) (args : list node) (ref : list node) : Prop :=
  exists code, expand name annots args = Some code /\
               forall s, eval ext (NSeq code) s = eval ext (NSeq ref) s.

Lemma cmp_macros : forall ext nm t, In (nm, t) cmp_ops -> forall (annots : list bytes) (bt bf : node),
  expands_to_ref ext ("CMP" ++ nm)%string annots [] (ref_cmp t) /\
  expands_to_ref ext ("IF" ++ nm)%string annots [bt; bf] (ref_if t bt bf) /\
  expands_to_ref ext ("IFCMP" ++ nm)%string annots [bt; bf] (ref_ifcmp t bt bf) /\
  expands_to_ref ext ("ASSERT_" ++ nm)%string [] [] (ref_assert_op t) /\
  expands_to_ref ext ("ASSERT_CMP" ++ nm)%string [] [] (ref_assert_cmp t).
Proof.
  intros ext nm t H annots bt bf.
  destruct (cmp_dispatch nm t H annots bt bf) as (D1 & D2 & D3 & D4 & D5).
  repeat split; eexists; (split; [eassumption|]); intro s;
    destruct (cmp_sem ext t annots bt bf s) as (S1 & S2 & S3 & S4 & S5); assumption.
Qed.

Lemma fixed_macros : forall ext (annots : list bytes) (bt bf : node),
  expands_to_ref ext "FAIL" [] [] ref_fail /\
  expands_to_ref ext "ASSERT" [] [] ref_assert /\
  expands_to_ref ext "ASSERT_NONE" [] [] ref_assert_none /\
  expands_to_ref ext "ASSERT_SOME" annots [] ref_assert_some /\
  expands_to_ref ext "ASSERT_LEFT" annots [] ref_assert_left /\
  expands_to_ref ext "ASSERT_RIGHT" annots [] ref_assert_right /\
  expands_to_ref ext "IF_SOME" [] [bt; bf] (ref_if_some bt bf) /\
  expands_to_ref ext "IF_RIGHT" [] [bt; bf] (ref_if_right bt bf).
Proof.
  intros ext annots bt bf.
  destruct (fixed_dispatch annots bt bf) as (D1 & D2 & D3 & D4 & D5 & D6 & D7 & D8).
  repeat split; eexists; (split; [eassumption|]); intro s;
    destruct (fixed_sem ext annots bt bf s) as (S1 & S2 & S3 & S4 & S5 & S6 & S7 & S8); assumption.
Qed.

Lemma dixp_macro : forall ext n code,
  expands_to_ref ext (dixp_name (S (S n))) [] [code] [ref_dixp (S (S n)) code].
Proof.
  intros. eexists. split; [apply dixp_dispatch|]. intro s.
  rewrite dixp_sem. symmetry. apply eval_singleton.
Qed.

Lemma duxp_macro : forall ext n (annots : list bytes),
  expands_to_ref ext (duxp_name (S (S n))) annots [] (ref_duxp (S (S n))) /\
  forall s, eval ext (NSeq (ref_duxp (S (S n)))) s = dup_n (S n) s.
Proof.
  intros. split; [|apply ref_duxp_eval]. eexists. split; [apply duxp_dispatch|]. intro s. apply duxp_sem.
Qed.

Lemma pair_macro : forall ext l r (annots : list bytes), l <> L \/ r <> L ->
  expands_to_ref ext (pair_name (N l r)) annots [] (ref_pair (N l r)) /\
  forall s, eval ext (NSeq (ref_pair (N l r))) s = pair_result (N l r) s.
Proof.
  intros ext l r annots H. split.
  - eexists. split; [apply pair_dispatch; assumption|]. intro s.
    destruct (pair_total ext l r annots s) as [A B]. rewrite A, B. reflexivity.
  - intro s. apply (pair_total ext l r annots s).
Qed.

Lemma unpair_macro : forall ext l r (annots : list bytes), l <> L \/ r <> L ->
  expands_to_ref ext (unpair_name (N l r)) annots [] (ref_unpair (N l r)) /\
  forall s, eval ext (NSeq (ref_unpair (N l r))) s = unpair_result (N l r) s.
Proof.
  intros ext l r annots H. split.
  - eexists. split; [apply unpair_dispatch; assumption|]. intro s.
    destruct (unpair_total ext l r annots s) as [A B]. rewrite A, B. reflexivity.
  - intro s. apply (unpair_total ext l r annots s).
Qed.

Lemma unpair_pair_inverse : forall ext l r (a1 a2 : list bytes), l <> L \/ r <> L ->
  exists pc uc, expand (pair_name (N l r)) a1 [] = Some pc /\ expand (unpair_name (N l r)) a2 [] = Some uc /\
    forall s s1, (eval ext (NSeq pc) s = ROk s1 -> eval ext (NSeq uc) s1 = ROk s) /\
                 (eval ext (NSeq uc) s = ROk s1 -> eval ext (NSeq pc) s1 = ROk s).
Proof.
  intros ext l r a1 a2 H. exists (pair_code (N l r) a1), (unpair_code (N l r) a2).
  split; [apply pair_dispatch; assumption|]. split; [apply unpair_dispatch; assumption|].
  intros s s1. split; [apply unpair_inverts_pair | apply pair_inverts_unpair].
Qed.

Lemma cxr_macro : forall ext a b path (annots : list bytes),
  expands_to_ref ext (cxr_name (a :: b :: path)) annots [] (ref_cxr (a :: b :: path)) /\
  forall v s, eval ext (NSeq (ref_cxr (a :: b :: path))) (v :: s) =
              match access (a :: b :: path) v with Some x => ROk (x :: s) | None => RErr end.
Proof.
  intros. split; [|apply ref_cxr_access]. eexists. split; [apply cxr_dispatch|].
  intro s. apply cxr_sem. discriminate.
Qed.

Lemma set_cxr_macro : forall ext a path (annots : list bytes),
  expands_to_ref ext (set_cxr_name (a :: path)) annots [] (ref_set_cxr (a :: path)) /\
  forall v x s, eval ext (NSeq (ref_set_cxr (a :: path))) (v :: x :: s) =
                match set_path (a :: path) v x with Some v' => ROk (v' :: s) | None => RErr end.
Proof.
  intros. split; [|intros; apply ref_set_cxr_meaning; discriminate].
  eexists. split; [apply set_cxr_dispatch|]. intro s. apply set_cxr_sem. discriminate.
Qed.

Lemma map_cxr_macro : forall ext a path (annots : list bytes) code,
  List.length (field_annots annots) <= 1 ->
  expands_to_ref ext (map_cxr_name (a :: path)) annots [code] (ref_map_cxr (a :: path) code).
Proof.
  intros ext a path annots code H. unfold expands_to_ref. rewrite map_cxr_dispatch.
  destruct (map_cxr (a :: path) annots [code]) as [c|] eqn:E.
  - exists c. split; [reflexivity|]. intro s. eapply map_cxr_sem; [discriminate | exact E].
  - exfalso. eapply map_cxr_defined; [| exact H | exact E]. discriminate.
Qed.

(* the names are the ones the regexes describe: printing a tree / path and parsing it back *)
Lemma names_parse : forall t path,
  build_pxr_tree (pair_name t) [] = Some (dec t [] 0) /\ parse_ad (ad_letters path ++ "R")%string = Some path.
Proof. intros. split; [apply build_pxr_pair_name | apply parse_ad_letters]. Qed.

(* ============================================================================================== *)
(* classification: every name [expand] accepts belongs to one of the families of the theorems      *)

Definition fixed_list : list string :=
  ["FAIL"; "ASSERT"; "ASSERT_NONE"; "ASSERT_SOME"; "ASSERT_LEFT"; "ASSERT_RIGHT"; "IF_SOME"; "IF_RIGHT"]%string.
Definition op_prefixes : list string := ["CMP"; "IFCMP"; "IF"; "ASSERT_CMP"; "ASSERT_"]%string.

Inductive macro_name : string -> Prop :=
| MN_fixed n : In n fixed_list -> macro_name n
| MN_op p nm t : In p op_prefixes -> In (nm, t) cmp_ops -> macro_name (p ++ nm)%string
| MN_dixp n : macro_name (dixp_name (S (S n)))
| MN_duxp n : macro_name (duxp_name (S (S n)))
| MN_pxr n : is_pxr_name n = true -> macro_name n                    (* ^P[PAI]{3,}R$ *)
| MN_unpxr n : is_pxr_name n = true -> macro_name ("UN" ++ n)%string   (* ^UN(P[PAI]{3,}R)$ *)
| MN_cxr a b p : macro_name (cxr_name (a :: b :: p))
| MN_set a p : macro_name (set_cxr_name (a :: p))
| MN_map a p : macro_name (map_cxr_name (a :: p)).

Lemma strip_some : forall p s r, strip p s = Some r -> s = (p ++ r)%string.
Proof.
  induction p as [|a p IH]; intros s r H; simpl in H.
  - injection H as <-. reflexivity.
  - destruct s as [|b s]; [discriminate|].
    destruct (Ascii.eqb a b) eqn:E; [|discriminate].
    apply Ascii.eqb_eq in E. subst b. simpl. f_equal. apply IH. assumption.
Qed.

Lemma assoc_in : forall k l v, assoc k l = Some v -> In (k, v) l.
Proof.
  induction l as [|[k' v'] l IH]; intros v H; simpl in H; [discriminate|].
  destruct (String.eqb k k') eqn:E.
  - apply String.eqb_eq in E. subst k'. injection H as <-. left. reflexivity.
  - right. apply IH. assumption.
Qed.

Lemma run_spec : forall c s n rest, run c s = (n, rest) -> s = (rep (String c EmptyString) n ++ rest)%string.
Proof.
  induction s as [|a s IH]; intros n rest H; simpl in H.
  - injection H as <- <-. reflexivity.
  - destruct (Ascii.eqb a c) eqn:E.
    + destruct (run c s) as [m r] eqn:R. injection H as <- <-.
      apply Ascii.eqb_eq in E. subst a. simpl. f_equal. apply IH. reflexivity.
    + injection H as <- <-. reflexivity.
Qed.

Lemma parse_ad_spec : forall s path, parse_ad s = Some path -> s = (ad_letters path ++ "R")%string.
Proof.
  induction s as [|a s IH]; intros path H; simpl in H; [discriminate|].
  destruct (Ascii.eqb a "R") eqn:ER.
  - apply Ascii.eqb_eq in ER. subst a. destruct s; [|discriminate]. injection H as <-. reflexivity.
  - destruct (Ascii.eqb a "A") eqn:EA.
    + apply Ascii.eqb_eq in EA. subst a. destruct (parse_ad s) as [p|] eqn:P; [|discriminate].
      injection H as <-. simpl. f_equal. apply IH. reflexivity.
    + destruct (Ascii.eqb a "D") eqn:ED; [|discriminate].
      apply Ascii.eqb_eq in ED. subst a. destruct (parse_ad s) as [p|] eqn:P; [|discriminate].
      injection H as <-. simpl. f_equal. apply IH. reflexivity.
Qed.

Lemma m_op_inv : forall pre h name (annots : list bytes) (args : list node) r, In pre op_prefixes ->
  m_op pre h name annots args = Some r -> macro_name name.
Proof.
  intros pre h name annots args r Hp H. unfold m_op in H.
  destruct (strip pre name) as [rest|] eqn:S; [|discriminate].
  destruct (op_tag rest) as [t|] eqn:O; [|discriminate].
  apply strip_some in S. subst name. apply (MN_op pre rest t Hp). apply assoc_in. exact O.
Qed.

Lemma m_fixed_inv : forall name (annots : list bytes) (args : list node) r,
  m_fixed name annots args = Some r -> macro_name name.
Proof.
  intros name annots args r H. unfold m_fixed in H.
  repeat match type of H with
         | (if String.eqb name ?k then _ else _) = _ =>
             destruct (String.eqb name k) eqn:E;
             [apply String.eqb_eq in E; subst name; apply MN_fixed; simpl; tauto | clear E]
         end.
  discriminate.
Qed.

Lemma m_dxp_inv : forall name (annots : list bytes) (args : list node) r,
  m_dxp name annots args = Some r -> macro_name name.
Proof.
  intros name annots args r H. unfold m_dxp in H.
  destruct name as [|c rest]; [discriminate|].
  destruct (Ascii.eqb c "D") eqn:EC.
  2:{ destruct c as [[] [] [] [] [] [] [] []]; try discriminate EC; discriminate H. }
  apply Ascii.eqb_eq in EC. subst c.
  destruct (run "I" rest) as [ni ri] eqn:RI.
  destruct ((2 <=? ni) && String.eqb ri "P") eqn:EI.
  - apply andb_true_iff in EI. destruct EI as [E1 E2].
    apply Nat.leb_le in E1. apply String.eqb_eq in E2. subst ri.
    apply run_spec in RI. subst rest.
    destruct ni as [|[|n]]; try lia. apply (MN_dixp n).
  - destruct (run "U" rest) as [nu ru] eqn:RU.
    destruct ((2 <=? nu) && String.eqb ru "P") eqn:EU; [|discriminate].
    apply andb_true_iff in EU. destruct EU as [E1 E2].
    apply Nat.leb_le in E1. apply String.eqb_eq in E2. subst ru.
    apply run_spec in RU. subst rest.
    destruct nu as [|[|n]]; try lia. apply (MN_duxp n).
Qed.

Lemma m_pxr_inv : forall name (annots : list bytes) (args : list node) r,
  m_pxr name annots args = Some r -> macro_name name.
Proof.
  intros name annots args r H. unfold m_pxr in H.
  destruct (is_pxr_name name) eqn:E; [apply MN_pxr; assumption|].
  destruct (strip "UN" name) as [rest|] eqn:S; [|discriminate].
  destruct (is_pxr_name rest) eqn:E2; [|discriminate].
  apply strip_some in S. subst name. apply MN_unpxr. assumption.
Qed.

Lemma m_cxr_inv : forall name (annots : list bytes) (args : list node) r,
  m_cxr name annots args = Some r -> macro_name name.
Proof.
  intros name annots args r H. unfold m_cxr in H.
  destruct (strip "C" name) as [rest|] eqn:S.
  - destruct (parse_ad rest) as [path|] eqn:P; [|discriminate].
    destruct (2 <=? List.length path) eqn:L2; [|discriminate].
    apply strip_some in S. apply parse_ad_spec in P. subst rest name.
    apply Nat.leb_le in L2. destruct path as [|a [|b p]]; simpl in L2; try lia. apply (MN_cxr a b p).
  - destruct (strip "SET_C" name) as [rest|] eqn:S2.
    + destruct (parse_ad rest) as [path|] eqn:P; [|discriminate].
      destruct (1 <=? List.length path) eqn:L1; [|discriminate].
      apply strip_some in S2. apply parse_ad_spec in P. subst rest name.
      apply Nat.leb_le in L1. destruct path as [|a p]; simpl in L1; try lia. apply (MN_set a p).
    + destruct (strip "MAP_C" name) as [rest|] eqn:S3; [|discriminate].
      destruct (parse_ad rest) as [path|] eqn:P; [|discriminate].
      destruct (1 <=? List.length path) eqn:L1; [|discriminate].
      apply strip_some in S3. apply parse_ad_spec in P. subst rest name.
      apply Nat.leb_le in L1. destruct path as [|a p]; simpl in L1; try lia. apply (MN_map a p).
Qed.

Lemma expand_classified : forall name (annots : list bytes) (args : list node) code,
  expand name annots args = Some code -> macro_name name.
Proof.
  intros name annots args code H. unfold expand in H.
  destruct (m_op "CMP" expand_cmpx name annots args) eqn:E1; [eapply m_op_inv; [|exact E1]; simpl; tauto|].
  destruct (m_op "IFCMP" expand_ifcmpx name annots args) eqn:E2; [eapply m_op_inv; [|exact E2]; simpl; tauto|].
  destruct (m_op "IF" expand_ifx name annots args) eqn:E3; [eapply m_op_inv; [|exact E3]; simpl; tauto|].
  destruct (m_fixed name annots args) eqn:E4; [eapply m_fixed_inv; exact E4|].
  destruct (m_op "ASSERT_CMP" h_assert_cmpx name annots args) eqn:E5; [eapply m_op_inv; [|exact E5]; simpl; tauto|].
  destruct (m_op "ASSERT_" h_assert_x name annots args) eqn:E6; [eapply m_op_inv; [|exact E6]; simpl; tauto|].
  destruct (m_dxp name annots args) eqn:E7; [eapply m_dxp_inv; exact E7|].
  destruct (m_pxr name annots args) eqn:E8; [eapply m_pxr_inv; exact E8|].
  destruct (m_cxr name annots args) eqn:E9; [eapply m_cxr_inv; exact E9|].
  simpl in H. discriminate.
Qed.
