(* Proofs/Lexer_proofs.v — lexing is independent of the layout: whatever white space and comments
   are put between the tokens (none at all next to a bracket or a semicolon), the lexer returns the
   token list.  Also: the lexer never runs out of fuel. *)
From Coq Require Import List NArith Bool Lia Arith.
From Coq.Strings Require Import Byte.
From PV Require Import Base.Bytes Codec.Printer Codec.Lexer.
Import ListNotations.
Local Open Scope list_scope.

(* ---- span ---- *)
Definition head_fails (p : byte -> bool) (s : bytes) : Prop :=
  match s with [] => True | c :: _ => p c = false end.

Lemma span_app p xs rest :
  forallb p xs = true -> head_fails p rest -> span p (xs ++ rest) = (xs, rest).
Proof.
  induction xs as [|x xs IH]; simpl; intros H Hr.
  - destruct rest as [|c r]; [reflexivity|]. simpl in *. rewrite Hr. reflexivity.
  - apply andb_true_iff in H. destruct H as [Hx Hxs]. rewrite Hx, (IH Hxs Hr). reflexivity.
Qed.

Lemma span_spec p s a b :
  span p s = (a, b) -> s = a ++ b /\ forallb p a = true /\ head_fails p b.
Proof.
  revert a b. induction s as [|c s IH]; simpl; intros a b H.
  - injection H as <- <-. repeat split.
  - destruct (p c) eqn:E.
    + destruct (span p s) as [a' b'] eqn:Es. injection H as <- <-.
      destruct (IH a' b' eq_refl) as (H1 & H2 & H3). subst s. simpl. rewrite E, H2. repeat split. exact H3.
    + injection H as <- <-. repeat split. simpl. exact E.
Qed.

Lemma span_length p s : length (snd (span p s)) <= length s.
Proof.
  induction s as [|c s IH]; simpl; [lia|]. destruct (p c); simpl; [|lia].
  destruct (span p s) as [a b]. simpl in *. lia.
Qed.

(* ---- character classes ---- *)
Definition is_delim (c : byte) : bool :=
  is_ws c || byte_eqb c c_hash || byte_eqb c c_slash || byte_eqb c c_lcurly || byte_eqb c c_rcurly
  || byte_eqb c c_lparen || byte_eqb c c_rparen || byte_eqb c c_semi.
Definition delim_start (s : bytes) : Prop :=
  match s with [] => True | c :: _ => is_delim c = true end.

Lemma delim_not_token_char c : is_delim c = true ->
  is_digit c = false /\ is_hex c = false /\ is_prim_tail c = false /\ is_sigil c = false /\
  is_annot_tail c = false /\ byte_eqb c c_x = false.
Proof. destruct c; intro H; try discriminate H; repeat split. Qed.

Lemma delim_head_fails p rest :
  (forall c, is_delim c = true -> p c = false) -> delim_start rest -> head_fails p rest.
Proof. intros H Hd. destruct rest as [|c r]; simpl in *; auto. Qed.

Lemma classify_alpha c : is_alpha c = true -> classify c = KAlpha.
Proof. destruct c; intro H; try discriminate H; reflexivity. Qed.
Lemma classify_digit c : is_digit c = true -> classify c = KDigit.
Proof. destruct c; intro H; try discriminate H; reflexivity. Qed.
Lemma classify_sigil c : is_sigil c = true -> classify c = KSigil.
Proof. destruct c; intro H; try discriminate H; reflexivity. Qed.
Lemma classify_ws c : is_ws c = true -> classify c = KWs.
Proof. unfold classify. intros ->. reflexivity. Qed.
Lemma classify_sigil_inv c : classify c = KSigil -> is_sigil c = true.
Proof. destruct c; intro H; try discriminate H; reflexivity. Qed.
Lemma classify_digit_inv c : classify c = KDigit -> is_digit c = true.
Proof. destruct c; intro H; try discriminate H; reflexivity. Qed.
Lemma digit_not_x c : is_digit c = true -> byte_eqb c c_x = false.
Proof. destruct c; intro H; try discriminate H; reflexivity. Qed.
Lemma ws_delim c : is_ws c = true -> is_delim c = true.
Proof. unfold is_delim. intros ->. reflexivity. Qed.

(* ---- strings ---- *)
Lemma str_end_units : forall n r rest, length r <= n -> wf_str_raw r = true ->
  str_end (r ++ c_quote :: rest) = Some (length r).
Proof.
  induction n as [|n IH]; intros r rest Hn H.
  - destruct r; [reflexivity | simpl in Hn; lia].
  - destruct r as [|c r1]; [reflexivity|].
    simpl in H. cbn [app str_end].
    destruct (byte_eqb c c_bslash) eqn:Eb.
    + destruct r1 as [|d r2]; [discriminate|].
      apply andb_true_iff in H. destruct H as [Hd H2]. apply negb_true_iff in Hd.
      apply byte_eqb_spec in Eb. subst c.
      change (byte_eqb c_bslash c_quote) with false. cbv iota.
      cbn [app]. rewrite Hd.
      rewrite (IH r2 rest); [reflexivity | simpl in Hn; lia | exact H2].
    + apply andb_true_iff in H. destruct H as [Hq H1]. apply negb_true_iff in Hq. rewrite Hq.
      rewrite (IH r1 rest); [reflexivity | simpl in Hn; lia | exact H1].
Qed.

Lemma firstn_app_exact {A} (l r : list A) : firstn (length l) (l ++ r) = l.
Proof. induction l; simpl; [destruct r; reflexivity | rewrite IHl; reflexivity]. Qed.
Lemma skipn_app_exact {A} (l r : list A) : skipn (length l) (l ++ r) = r.
Proof. induction l; simpl; [reflexivity | exact IHl]. Qed.

(* ---- one token ---- *)
Lemma lex1_token t rest :
  wf_token t = true -> is_punct t = true \/ delim_start rest ->
  lex1 (render_token t ++ rest) = Tok t rest.
Proof.
  intros Hw Hr. destruct t as [r|r|r|r|n| | | | |]; simpl in Hw;
    try reflexivity;
    (destruct Hr as [Hr|Hr]; [discriminate Hr|]).
  - (* INT *)
    unfold wf_int_raw in Hw. destruct r as [|c d]; [discriminate|].
    cbn [render_token app lex1].
    destruct (byte_eqb c c_minus) eqn:Em.
    + apply byte_eqb_spec in Em. subst c. change (classify c_minus) with KMinus. cbv iota.
      apply andb_true_iff in Hw. destruct Hw as [Hne Hd].
      rewrite (span_app is_digit d rest Hd).
      * destruct d; [discriminate|reflexivity].
      * apply delim_head_fails; [intros c Hc; apply (delim_not_token_char c Hc) | exact Hr].
    + simpl in Hw. apply andb_true_iff in Hw. destruct Hw as [Hc Hd].
      rewrite (classify_digit c Hc).
      assert (Hnob : (if byte_eqb c c_0
                      then match d ++ rest with a :: r' => if byte_eqb a c_x then Some r' else None | [] => None end
                      else None) = None).
      { destruct (byte_eqb c c_0); [|reflexivity].
        destruct d as [|a d']; simpl.
        - destruct rest as [|a r']; [reflexivity|]. simpl in Hr.
          destruct (delim_not_token_char a Hr) as (_ & _ & _ & _ & _ & Hx). rewrite Hx. reflexivity.
        - simpl in Hd. apply andb_true_iff in Hd. destruct Hd as [Ha _]. rewrite (digit_not_x a Ha). reflexivity. }
      rewrite Hnob.
      change (c :: d ++ rest) with ((c :: d) ++ rest).
      rewrite (span_app is_digit (c :: d) rest).
      * reflexivity.
      * simpl. rewrite Hc, Hd. reflexivity.
      * apply delim_head_fails; [intros a Ha; apply (delim_not_token_char a Ha) | exact Hr].
  - (* BYTE *)
    cbn [render_token app lex1]. change (classify c_0) with KDigit. cbv iota.
    change (byte_eqb c_0 c_0) with true. cbv iota. change (byte_eqb c_x c_x) with true. cbv iota.
    rewrite (span_app is_hex r rest Hw).
    + reflexivity.
    + apply delim_head_fails; [intros a Ha; apply (delim_not_token_char a Ha) | exact Hr].
  - (* STR *)
    cbn [render_token app lex1]. change (classify c_quote) with KQuote. cbv iota.
    rewrite <- app_assoc. cbn [app].
    rewrite (str_end_units (length r) r rest (le_n _) Hw).
    rewrite firstn_app_exact.
    change (skipn (S (length r)) (r ++ c_quote :: rest)) with (skipn (S (length r)) (r ++ [c_quote] ++ rest)).
    rewrite app_assoc. replace (S (length r)) with (length (r ++ [c_quote])) by (rewrite app_length; simpl; lia).
    rewrite skipn_app_exact. reflexivity.
  - (* ANNOT *)
    unfold wf_annot in Hw. destruct (span is_sigil r) as [sg tl] eqn:Es.
    apply andb_true_iff in Hw. destruct Hw as [Hne Htl].
    destruct (span_spec _ _ _ _ Es) as (Hr0 & Hsg & Hhd). subst r.
    destruct sg as [|c sg]; [discriminate|].
    cbn [render_token app lex1].
    simpl in Hsg. apply andb_true_iff in Hsg. destruct Hsg as [Hc Hsg].
    rewrite (classify_sigil c Hc).
    change (c :: (sg ++ tl) ++ rest) with (((c :: sg) ++ tl) ++ rest).
    rewrite <- app_assoc.
    rewrite (span_app is_sigil (c :: sg) (tl ++ rest)).
    + rewrite (span_app is_annot_tail tl rest Htl).
      * reflexivity.
      * apply delim_head_fails; [intros a Ha; apply (delim_not_token_char a Ha) | exact Hr].
    + simpl. rewrite Hc, Hsg. reflexivity.
    + destruct tl as [|a tl]; simpl.
      * apply delim_head_fails; [intros a Ha; apply (delim_not_token_char a Ha) | exact Hr].
      * exact Hhd.
  - (* PRIM *)
    unfold wf_name in Hw. destruct n as [|c [|a tl]]; try discriminate.
    apply andb_true_iff in Hw. destruct Hw as [Hc Htl].
    cbn [render_token app lex1]. rewrite (classify_alpha c Hc).
    change (a :: tl ++ rest) with ((a :: tl) ++ rest).
    rewrite (span_app is_prim_tail (a :: tl) rest Htl).
    + reflexivity.
    + apply delim_head_fails; [intros b Hb; apply (delim_not_token_char b Hb) | exact Hr].
Qed.

(* ---- one filler ---- *)
Lemma drop_line_app b rest :
  forallb (fun c => negb (byte_eqb c c_lf)) b = true -> drop_line (b ++ c_lf :: rest) = rest.
Proof.
  induction b as [|c b IH]; simpl; intro H; [reflexivity|].
  apply andb_true_iff in H. destruct H as [Hc Hb]. apply negb_true_iff in Hc. rewrite Hc. apply IH, Hb.
Qed.

Lemma lex1_filler f rest : wf_filler f = true -> lex1 (render_filler f ++ rest) = Skip rest.
Proof.
  destruct f as [c|b|b]; simpl; intro H.
  - rewrite (classify_ws c H). reflexivity.
  - change (classify c_hash) with KHash. cbv iota. rewrite <- app_assoc. cbn [app].
    rewrite drop_line_app by exact H. reflexivity.
  - change (classify c_slash) with KSlash. cbv iota. change (byte_eqb c_star c_star) with true. cbv iota.
    rewrite <- app_assoc. cbn [app]. unfold block_end.
    rewrite (span_app (fun c => negb (byte_eqb c c_star)) b (c_star :: c_slash :: rest) H); [reflexivity|].
    reflexivity.
Qed.

Lemma filler_delim f rest : wf_filler f = true -> delim_start (render_filler f ++ rest).
Proof.
  destruct f as [c|b|b]; simpl; intro H; [apply ws_delim, H | reflexivity | reflexivity].
Qed.

Lemma render_filler_pos f : 1 <= length (render_filler f).
Proof. destruct f; simpl; lia. Qed.

Lemma render_token_pos t : wf_token t = true -> 1 <= length (render_token t).
Proof.
  destruct t as [r|r|r|r|n| | | | |]; simpl; intro H; try lia.
  - destruct r; [discriminate | simpl; lia].
  - unfold wf_annot in H. destruct (span is_sigil r) as [sg tl] eqn:E.
    destruct (span_spec _ _ _ _ E) as (-> & _ & _).
    destruct sg; [discriminate | simpl; lia].
  - destruct n; [discriminate | simpl; lia].
Qed.

(* ---- whole layouts ---- *)
Lemma lex_fuel_gap g rest n :
  forallb wf_filler g = true ->
  lex_fuel (length g + n) (render_gap g ++ rest) = lex_fuel n rest.
Proof.
  induction g as [|f g IH]; simpl; intro H; [reflexivity|].
  apply andb_true_iff in H. destruct H as [Hf Hg].
  unfold render_gap in *. rewrite <- app_assoc. rewrite (lex1_filler f _ Hf). apply IH, Hg.
Qed.

Fixpoint steps (lt : list (gap * token)) : nat :=
  match lt with
  | [] => 0
  | (g, _) :: r => length g + S (steps r)
  end.

Lemma render_delim_start t r final :
  layout_ok (Some t) r = true -> forallb wf_token (map snd r) = true -> forallb wf_filler final = true ->
  is_punct t = true \/ delim_start (render r final).
Proof.
  intros Hl Hw Hf. destruct r as [|[g t'] r].
  - right. simpl. destruct final as [|f final]; [exact I|].
    simpl in Hf. apply andb_true_iff in Hf. destruct Hf as [Hf _].
    cbn [render_gap flat_map]. apply filler_delim, Hf.
  - simpl in Hl. apply andb_true_iff in Hl. destruct Hl as [Hl _].
    apply andb_true_iff in Hl. destruct Hl as [Hg Hsp].
    destruct g as [|f g].
    + simpl in Hsp. apply orb_true_iff in Hsp. destruct Hsp as [Hp|Hp]; [left; exact Hp|].
      right. simpl. destruct t'; try discriminate Hp; reflexivity.
    + right. simpl in Hg. apply andb_true_iff in Hg. destruct Hg as [Hf' _].
      cbn [render render_gap flat_map]. rewrite <- !app_assoc. apply filler_delim, Hf'.
Qed.

Lemma lex_fuel_render : forall lt prev final n,
  layout_ok prev lt = true -> forallb wf_token (map snd lt) = true -> forallb wf_filler final = true ->
  lex_fuel (steps lt + length final + S n) (render lt final) = LexOk (map snd lt).
Proof.
  induction lt as [|[g t] r IH]; intros prev final n Hl Hw Hf.
  - simpl. rewrite <- (app_nil_r (render_gap final)). rewrite lex_fuel_gap by exact Hf. reflexivity.
  - cbn [layout_ok] in Hl. apply andb_true_iff in Hl. destruct Hl as [Hl Hrest].
    apply andb_true_iff in Hl. destruct Hl as [Hg _].
    cbn [map snd forallb] in Hw. apply andb_true_iff in Hw. destruct Hw as [Ht Hw].
    cbn [render steps].
    replace (length g + S (steps r) + length final + S n)
      with (length g + S (steps r + length final + S n)) by lia.
    rewrite lex_fuel_gap by exact Hg.
    cbn [lex_fuel]. rewrite (lex1_token t _ Ht (render_delim_start t r final Hrest Hw Hf)).
    rewrite (IH (Some t) final n Hrest Hw Hf). reflexivity.
Qed.

Lemma steps_le_length lt final :
  forallb wf_token (map snd lt) = true -> steps lt + length final <= length (render lt final).
Proof.
  induction lt as [|[g t] r IH]; intro Hw.
  - simpl. unfold render_gap. induction final as [|f final IHf]; simpl; [lia|].
    rewrite app_length. pose proof (render_filler_pos f). lia.
  - cbn [map snd forallb] in Hw. apply andb_true_iff in Hw. destruct Hw as [Ht Hw].
    cbn [render steps]. rewrite !app_length. specialize (IH Hw).
    pose proof (render_token_pos t Ht).
    assert (length g <= length (render_gap g)).
    { unfold render_gap. clear. induction g as [|f g IHg]; simpl; [lia|].
      rewrite app_length. pose proof (render_filler_pos f). lia. }
    lia.
Qed.

(* lexing the rendering of a token list with any layout gives the token list back *)
Lemma lex_render lt final :
  layout_ok None lt = true -> forallb wf_token (map snd lt) = true -> forallb wf_filler final = true ->
  lex (render lt final) = LexOk (map snd lt).
Proof.
  intros Hl Hw Hf. unfold lex.
  pose proof (steps_le_length lt final Hw) as Hle.
  replace (S (length (render lt final)))
    with (steps lt + length final + S (length (render lt final) - (steps lt + length final))) by lia.
  apply (lex_fuel_render lt None final _ Hl Hw Hf).
Qed.

(* a single token, printed and lexed *)
Lemma lex_render_token t : wf_token t = true -> lex (render_token t) = LexOk [t].
Proof.
  intro H. pose proof (lex_render [([], t)] [] ) as L. simpl in L.
  rewrite app_nil_r in L. apply L; [reflexivity | rewrite H; reflexivity | reflexivity].
Qed.

(* ---- the lexer's fuel is never exhausted ---- *)
Lemma drop_line_length s : length (drop_line s) <= length s.
Proof. induction s as [|c s IH]; simpl; [lia|]. destruct (byte_eqb c c_lf); lia. Qed.

Lemma str_end_lt_n : forall n s k, length s <= n -> str_end s = Some k -> k < length s.
Proof.
  induction n as [|n IH]; intros s k Hn H.
  - destruct s; [discriminate | simpl in Hn; lia].
  - destruct s as [|c r]; [discriminate|].
    cbn [str_end] in H. destruct (byte_eqb c c_quote); [injection H as <-; simpl; lia|].
    simpl in Hn.
    destruct (byte_eqb c c_bslash).
    + destruct r as [|d r']; [discriminate|].
      destruct (byte_eqb d c_lf).
      * destruct (str_end (d :: r')) as [k'|] eqn:E; [|discriminate]. injection H as <-.
        apply IH in E; [simpl in *; lia | simpl in *; lia].
      * destruct (str_end r') as [k'|] eqn:E.
        -- injection H as <-. apply IH in E; [simpl in *; lia | simpl in *; lia].
        -- destruct (byte_eqb d c_quote); [injection H as <-; simpl; lia | discriminate].
    + destruct (str_end r) as [k'|] eqn:E; [|discriminate]. injection H as <-.
      apply IH in E; [simpl in *; lia | lia].
Qed.

Lemma str_end_lt s k : str_end s = Some k -> k < length s.
Proof. apply (str_end_lt_n (length s)). lia. Qed.

Lemma lex1_shorter s :
  match lex1 s with
  | Tok _ r | Skip r => length r < length s
  | _ => True
  end.
Proof.
  destruct s as [|c r]; [exact I|]. unfold lex1.
  destruct (classify c) eqn:Ek; try exact I; try (simpl; lia).
  - pose proof (drop_line_length r). simpl. lia.
  - destruct r as [|a r']; [exact I|]. destruct (byte_eqb a c_star); [|exact I].
    unfold block_end. pose proof (span_length (fun c0 => negb (byte_eqb c0 c_star)) r') as Hs.
    destruct (span (fun c0 => negb (byte_eqb c0 c_star)) r') as [x y]. simpl in Hs.
    destruct y as [|p [|q y']]; try exact I.
    destruct (byte_eqb p c_star && byte_eqb q c_slash); [|exact I]. simpl in *. lia.
  - destruct (str_end r) as [k|] eqn:E; [|exact I]. apply str_end_lt in E.
    rewrite skipn_length. simpl. lia.
  - pose proof (span_length is_sigil (c :: r)) as H1.
    destruct (span is_sigil (c :: r)) as [sg r1] eqn:E1. simpl in H1.
    pose proof (span_length is_annot_tail r1) as H2.
    destruct (span is_annot_tail r1) as [tl r2]. simpl in H2.
    assert (sg <> []).
    { simpl in E1. rewrite (classify_sigil_inv c Ek) in E1.
      destruct (span is_sigil r). injection E1 as <- _. discriminate. }
    destruct (span_spec _ _ _ _ E1) as (Hs & _ & _).
    assert (length (c :: r) = length sg + length r1) by (rewrite Hs, app_length; reflexivity).
    destruct sg; [contradiction|]. simpl in *. lia.
  - pose proof (span_length is_prim_tail r) as H1.
    destruct (span is_prim_tail r) as [tl r1]. simpl in H1. destruct tl; [exact I|]. simpl. lia.
  - set (bl := if byte_eqb c c_0 then match r with a :: r' => if byte_eqb a c_x then Some r' else None | [] => None end else None).
    assert (Hbl : forall r', bl = Some r' -> length r' < length r).
    { unfold bl. intros r' H. destruct (byte_eqb c c_0); [|discriminate]. destruct r as [|a r0]; [discriminate|].
      destruct (byte_eqb a c_x); [|discriminate]. injection H as <-. simpl. lia. }
    destruct bl as [r'|].
    + specialize (Hbl r' eq_refl). pose proof (span_length is_hex r') as H1.
      destruct (span is_hex r') as [h r2]. simpl in *. lia.
    + pose proof (span_length is_digit (c :: r)) as H1.
      destruct (span is_digit (c :: r)) as [d r1] eqn:E1. simpl in H1.
      destruct (span_spec _ _ _ _ E1) as (Hs & _ & _).
      assert (length (c :: r) = length d + length r1) by (rewrite Hs, app_length; reflexivity).
      destruct d as [|x d].
      * simpl in E1. rewrite (classify_digit_inv c Ek) in E1. destruct (span is_digit r); discriminate.
      * simpl in *. lia.
  - pose proof (span_length is_digit r) as H1.
    destruct (span is_digit r) as [d r1]. simpl in H1. destruct d; [exact I|]. simpl. lia.
Qed.

Lemma lex_fuel_enough : forall n s, length s < n -> lex_fuel n s <> LexFuel.
Proof.
  induction n as [|n IH]; intros s H; [lia|].
  cbn [lex_fuel]. pose proof (lex1_shorter s) as Hs.
  destruct (lex1 s) as [t r|r| |]; try discriminate.
  - specialize (IH r ltac:(lia)). destruct (lex_fuel n r); simpl; try discriminate. contradiction.
  - apply IH. lia.
Qed.

Lemma lex_no_fuel s : lex s <> LexFuel.
Proof. apply lex_fuel_enough. lia. Qed.

(* ---- the shortcut in [str_end] is the backtracking search ---- *)
Definition no_quote (s : bytes) : bool := forallb (fun c => negb (byte_eqb c c_quote)) s.

Lemma str_end_cons c r : str_end (c :: r) =
  if byte_eqb c c_quote then Some 0
  else if byte_eqb c c_bslash then
    match r with
    | d :: r' =>
        if byte_eqb d c_lf then option_map S (str_end r)
        else match str_end r' with
             | Some k => Some (S (S k))
             | None => if byte_eqb d c_quote then Some 1 else None
             end
    | [] => None
    end
  else option_map S (str_end r).
Proof. destruct r; reflexivity. Qed.

Lemma str_end_bt_cons c r : str_end_bt (c :: r) =
  if byte_eqb c c_quote then Some 0
  else if byte_eqb c c_bslash then
    match r with
    | d :: r' =>
        if byte_eqb d c_lf then option_map S (str_end_bt r)
        else match str_end_bt r' with
             | Some k => Some (S (S k))
             | None => option_map S (str_end_bt r)
             end
    | [] => None
    end
  else option_map S (str_end_bt r).
Proof. destruct r; reflexivity. Qed.

Lemma bt_none_no_quote : forall n s, length s <= n -> str_end_bt s = None -> no_quote s = true.
Proof.
  induction n as [|n IH]; intros s Hn H.
  - destruct s; [reflexivity | simpl in Hn; lia].
  - destruct s as [|c r]; [reflexivity|]. simpl in Hn.
    rewrite str_end_bt_cons in H. unfold no_quote. cbn [forallb]. fold (no_quote r).
    destruct (byte_eqb c c_quote) eqn:Eq; [discriminate|]. cbn [negb andb].
    destruct (byte_eqb c c_bslash).
    + destruct r as [|d r']; [reflexivity|].
      destruct (byte_eqb d c_lf).
      * destruct (str_end_bt (d :: r')) eqn:E; [discriminate|]. apply IH; [simpl in *; lia | exact E].
      * destruct (str_end_bt r'); [discriminate|].
        destruct (str_end_bt (d :: r')) eqn:E; [discriminate|]. apply IH; [simpl in *; lia | exact E].
    + destruct (str_end_bt r) eqn:E; [discriminate|]. apply IH; [lia | exact E].
Qed.

Lemma no_quote_bt_none : forall n s, length s <= n -> no_quote s = true -> str_end_bt s = None.
Proof.
  induction n as [|n IH]; intros s Hn H.
  - destruct s; [reflexivity | simpl in Hn; lia].
  - destruct s as [|c r]; [reflexivity|]. simpl in Hn.
    unfold no_quote in H. cbn [forallb] in H. fold (no_quote r) in H.
    apply andb_true_iff in H. destruct H as [Hc Hr]. apply negb_true_iff in Hc.
    rewrite str_end_bt_cons. rewrite Hc.
    destruct (byte_eqb c c_bslash).
    + destruct r as [|d r']; [reflexivity|].
      assert (Hr' : no_quote r' = true).
      { unfold no_quote in Hr. cbn [forallb] in Hr. apply andb_true_iff in Hr. apply Hr. }
      rewrite (IH (d :: r') ltac:(simpl in *; lia) Hr), (IH r' ltac:(simpl in *; lia) Hr').
      destruct (byte_eqb d c_lf); reflexivity.
    + rewrite (IH r ltac:(lia) Hr). reflexivity.
Qed.

Lemma str_end_bt_eq : forall n s, length s <= n -> str_end s = str_end_bt s.
Proof.
  induction n as [|n IH]; intros s Hn.
  - destruct s; [reflexivity | simpl in Hn; lia].
  - destruct s as [|c r]; [reflexivity|]. simpl in Hn.
    rewrite str_end_cons, str_end_bt_cons.
    destruct (byte_eqb c c_quote); [reflexivity|].
    destruct (byte_eqb c c_bslash).
    + destruct r as [|d r']; [reflexivity|].
      rewrite (IH (d :: r') ltac:(simpl in *; lia)), (IH r' ltac:(simpl in *; lia)).
      destruct (byte_eqb d c_lf); [reflexivity|].
      destruct (str_end_bt r') eqn:E; [reflexivity|].
      pose proof (bt_none_no_quote (length r') r' (le_n _) E) as Hnq.
      destruct (byte_eqb d c_quote) eqn:Ed.
      * rewrite str_end_bt_cons, Ed. reflexivity.
      * assert (Hnq' : no_quote (d :: r') = true).
        { unfold no_quote. cbn [forallb]. rewrite Ed. exact Hnq. }
        rewrite (no_quote_bt_none (length (d :: r')) (d :: r') (le_n _) Hnq'). reflexivity.
    + rewrite (IH r ltac:(lia)). reflexivity.
Qed.

Lemma str_end_is_backtracking s : str_end s = str_end_bt s.
Proof. apply (str_end_bt_eq (length s)). lia. Qed.

(* ---- lexing a list of pieces (tokens and fillers in any order) ---- *)
Lemma render_piece_pos pc :
  (match pc with PT t => wf_token t = true | PG _ => True end) -> 1 <= length (render_piece pc).
Proof. destruct pc as [t|f]; simpl; intro H; [apply render_token_pos, H | apply render_filler_pos]. Qed.

Lemma pieces_delim_start t r :
  pok (Some t) false r = true -> is_punct t = true \/ delim_start (render_pieces r).
Proof.
  destruct r as [|[t'|f] r]; simpl; intro H.
  - right. exact I.
  - apply andb_true_iff in H. destruct H as [H _]. apply orb_true_iff in H.
    destruct H as [H|H]; [left; exact H|]. right. destruct t'; try discriminate H; reflexivity.
  - apply andb_true_iff in H. destruct H as [H _]. right. apply filler_delim, H.
Qed.

Lemma lex_fuel_pieces : forall ps prev seen n,
  pok prev seen ps = true -> forallb wf_token (tokens_of ps) = true ->
  lex_fuel (length ps + S n) (render_pieces ps) = LexOk (tokens_of ps).
Proof.
  induction ps as [|[t|f] r IH]; intros prev seen n Hp Hw.
  - reflexivity.
  - cbn [pok] in Hp. apply andb_true_iff in Hp. destruct Hp as [_ Hp].
    cbn [tokens_of flat_map app forallb] in Hw. apply andb_true_iff in Hw. destruct Hw as [Ht Hw].
    cbn [length plus render_pieces flat_map render_piece lex_fuel tokens_of app].
    fold (render_pieces r). fold (tokens_of r).
    rewrite (lex1_token t _ Ht (pieces_delim_start t r Hp)).
    rewrite (IH (Some t) false n Hp Hw). reflexivity.
  - cbn [pok] in Hp. apply andb_true_iff in Hp. destruct Hp as [Hf Hp].
    cbn [length plus render_pieces flat_map render_piece lex_fuel tokens_of app].
    fold (render_pieces r). fold (tokens_of r).
    rewrite (lex1_filler f _ Hf). apply (IH prev true n Hp Hw).
Qed.

Lemma pieces_length_le ps :
  forallb wf_token (tokens_of ps) = true -> length ps <= length (render_pieces ps).
Proof.
  induction ps as [|[t|f] r IH]; intro Hw; [simpl; lia | |].
  - cbn [tokens_of flat_map app forallb] in Hw. apply andb_true_iff in Hw. destruct Hw as [Ht Hw].
    cbn [render_pieces flat_map render_piece]. rewrite app_length. pose proof (render_token_pos t Ht).
    specialize (IH Hw). unfold render_pieces in IH. simpl. lia.
  - cbn [render_pieces flat_map render_piece]. rewrite app_length. pose proof (render_filler_pos f).
    specialize (IH Hw). unfold render_pieces in IH. simpl. lia.
Qed.

Lemma lex_pieces ps :
  pok None false ps = true -> forallb wf_token (tokens_of ps) = true ->
  lex (render_pieces ps) = LexOk (tokens_of ps).
Proof.
  intros Hp Hw. unfold lex. pose proof (pieces_length_le ps Hw) as Hle.
  replace (S (length (render_pieces ps)))
    with (length ps + S (length (render_pieces ps) - length ps)) by lia.
  apply (lex_fuel_pieces ps None false _ Hp Hw).
Qed.

(* a text whose first token is not a left parenthesis does not start with one *)
Lemma lex_head_not_lparen s t r :
  lex s = LexOk (t :: r) -> t <> TLParen ->
  match s with c :: _ => byte_eqb c c_lparen = false | [] => True end.
Proof.
  intros H Hne. destruct s as [|c s']; [exact I|].
  destruct (byte_eqb c c_lparen) eqn:E; [|reflexivity].
  apply byte_eqb_spec in E. subst c. unfold lex in H.
  remember (length (c_lparen :: s')) as n eqn:En. clear En.
  cbn [lex_fuel] in H. change (lex1 (c_lparen :: s')) with (Tok TLParen s') in H. cbv iota in H.
  destruct (lex_fuel n s'); simpl in H; try discriminate H.
  injection H as <- _. contradiction.
Qed.
