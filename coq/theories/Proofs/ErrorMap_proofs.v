(* Proofs/ErrorMap_proofs.v — lemmas about Client/ErrorMap.v *)
From Coq Require Import List Arith Bool String Lia.
From PV Require Import Base.Bytes Client.ErrorMap.
Import ListNotations.
Local Open Scope string_scope.
Local Open Scope list_scope.

(* ---- the specification: which keys may match an identifier, and how specific each is ----
   rank 0: the full identifier
   rank 1: the identifier without its two-chunk prefix (proto.<protocol hash>.)
   rank 2: its final component
   rank 3: its category (the component before the final one)                              *)
Inductive candidate : ident -> nat -> ident -> Prop :=
| cand_full id : candidate id 0 id
| cand_noprefix p h x r : candidate (p :: h :: x :: r) 1 (x :: r)
| cand_last pre c n : candidate (pre ++ [c; n]) 2 [n]
| cand_category pre c n : candidate (pre ++ [c; n]) 3 [c].

Lemma ident_eqb_spec (a b : ident) : ident_eqb a b = true <-> a = b.
Proof. apply list_eqb_spec. intros x y. apply String.eqb_eq. Qed.

Lemma ident_eqb_refl (a : ident) : ident_eqb a a = true.
Proof. now apply ident_eqb_spec. Qed.

(* the variants with their ranks *)
Definition ranked (c : ident) : list (nat * ident) :=
  [(0, c)]
  ++ match c with _ :: _ :: x :: r => [(1, x :: r)] | _ => [] end
  ++ match rev c with l :: p :: _ => [(2, [l]); (3, [p])] | _ => [] end.

Lemma ranked_variants (c : ident) : map snd (ranked c) = variants c.
Proof.
  unfold ranked, variants, strip2, tail2.
  rewrite !map_app. f_equal. f_equal.
  - destruct c as [|a [|b [|x r]]]; reflexivity.
  - destruct (rev c) as [|l [|p t]]; reflexivity.
Qed.

Lemma rev_two {A} (c : list A) l p t : rev c = l :: p :: t -> c = rev t ++ [p; l].
Proof.
  intro H. rewrite <- (rev_involutive c), H. cbn. now rewrite <- app_assoc.
Qed.

Lemma cand_iff (c : ident) (r : nat) (k : ident) : candidate c r k <-> In (r, k) (ranked c).
Proof.
  split.
  - intros H. destruct H as [id | p h x r | pre c n | pre c n]; unfold ranked; apply in_or_app.
    + left. now left.
    + right. apply in_or_app. left. now left.
    + right. apply in_or_app. right. rewrite rev_app_distr. cbn. now left.
    + right. apply in_or_app. right. rewrite rev_app_distr. cbn. right. now left.
  - unfold ranked. intros H. apply in_app_or in H. destruct H as [[H | []] | H].
    + injection H as <- <-. constructor.
    + apply in_app_or in H. destruct H as [H | H].
      * destruct c as [|a [|b [|x t]]]; try contradiction.
        destruct H as [H | []]. injection H as <- <-. constructor.
      * destruct (rev c) as [|l [|p t]] eqn:E; try contradiction.
        apply rev_two in E. subst c.
        destruct H as [H | [H | []]]; injection H as <- <-; constructor.
Qed.

(* ranks strictly increase along [ranked] *)
Lemma ranked_sorted (c : ident) :
  forall i j a b, i < j -> nth_error (ranked c) i = Some a -> nth_error (ranked c) j = Some b -> fst a < fst b.
Proof.
  unfold ranked.
  destruct c as [|x1 [|x2 [|x3 r]]]; destruct (rev _) as [|l [|p t]]; cbn [app];
    intros i j a b Hij Hi Hj;
    repeat (destruct i as [|i]; cbn in Hi; try (injection Hi as <-); try discriminate);
    repeat (destruct j as [|j]; cbn in Hj; try (injection Hj as <-); try discriminate);
    cbn; lia.
Qed.

Section Generic.
  Context {C : Type}.
  Implicit Types (reg : registry C).

  Lemma lookup_in reg k c : lookup reg k = Some c -> In (k, c) reg.
  Proof.
    induction reg as [|[k' c'] r IH]; cbn; intro H; [discriminate|].
    destruct (ident_eqb k' k) eqn:E.
    - apply ident_eqb_spec in E. injection H as <-. subst. now left.
    - right. now apply IH.
  Qed.

  (* for a dict (no key twice) lookup is membership *)
  Lemma lookup_iff reg k c : NoDup (map fst reg) -> (lookup reg k = Some c <-> In (k, c) reg).
  Proof.
    intro Hnd. split; [apply lookup_in|].
    induction reg as [|[k' c'] r IH]; cbn; intro H; [contradiction|].
    inversion Hnd as [|? ? Hnotin Hnd']; subst.
    destruct H as [H | H].
    - injection H as -> ->. now rewrite ident_eqb_refl.
    - destruct (ident_eqb k' k) eqn:E.
      + apply ident_eqb_spec in E. subst k'. exfalso. apply Hnotin.
        apply in_map_iff. now exists (k, c).
      + now apply IH.
  Qed.

  (* registration stores the id verbatim *)
  Lemma lookup_set_key reg k c k' :
    lookup (set_key reg k c) k' = if ident_eqb k k' then Some c else lookup reg k'.
  Proof.
    induction reg as [|[k0 c0] r IH]; cbn.
    - reflexivity.
    - destruct (ident_eqb k0 k) eqn:E; cbn.
      + apply ident_eqb_spec in E. subst k0. destruct (ident_eqb k k'); reflexivity.
      + rewrite IH. destruct (ident_eqb k0 k') eqn:E'; [|reflexivity].
        destruct (ident_eqb k k') eqn:E2; [|reflexivity].
        apply ident_eqb_spec in E'. apply ident_eqb_spec in E2. subst k0 k'.
        rewrite ident_eqb_refl in E. discriminate.
  Qed.

  Lemma lookup_register : forall ids reg c k,
    lookup (register reg ids c) k = if existsb (fun i => ident_eqb i k) ids then Some c else lookup reg k.
  Proof.
    unfold register. induction ids as [|i ids IH]; intros reg c k; cbn [fold_left existsb].
    - reflexivity.
    - rewrite IH, lookup_set_key. destruct (existsb (fun i0 => ident_eqb i0 k) ids); [now rewrite orb_true_r|].
      now rewrite orb_false_r.
  Qed.

  (* a class registered under the ids [ids] is found under exactly those keys (until re-registered);
     every other key keeps what it had *)
  Lemma register_spec reg ids c k :
    (In k ids -> lookup (register reg ids c) k = Some c) /\
    (~ In k ids -> lookup (register reg ids c) k = lookup reg k).
  Proof.
    rewrite lookup_register. split; intro H.
    - assert (E : existsb (fun i => ident_eqb i k) ids = true).
      { apply existsb_exists. exists k. split; [exact H | apply ident_eqb_refl]. }
      now rewrite E.
    - destruct (existsb (fun i => ident_eqb i k) ids) eqn:E; [|reflexivity].
      apply existsb_exists in E. destruct E as [i [Hi E]]. apply ident_eqb_spec in E. subst i. contradiction.
  Qed.

  (* first match over a list whose ranks strictly increase = the match of minimal rank *)
  Lemma first_match_some reg (l : list (nat * ident)) c :
    (forall i j a b, i < j -> nth_error l i = Some a -> nth_error l j = Some b -> fst a < fst b) ->
    (first_match reg (map snd l) = Some c <->
     exists r k, In (r, k) l /\ lookup reg k = Some c /\
                 forall r' k', In (r', k') l -> r' < r -> lookup reg k' = None).
  Proof.
    induction l as [|[r0 k0] l IH]; intros Hs.
    - cbn. split; [discriminate|]. intros (r & k & [] & _).
    - assert (Hs' : forall i j a b, i < j -> nth_error l i = Some a -> nth_error l j = Some b -> fst a < fst b).
      { intros i j a b Hij Hi Hj. apply (Hs (S i) (S j)); [lia | exact Hi | exact Hj]. }
      assert (Hhd : forall r k, In (r, k) l -> r0 < r).
      { intros r k HIn. apply In_nth_error in HIn. destruct HIn as [j Hj].
        apply (Hs 0 (S j) (r0, k0) (r, k)); [lia | reflexivity | exact Hj]. }
      cbn [map snd first_match]. destruct (lookup reg k0) as [c0|] eqn:E0.
      + split.
        * intro H. injection H as <-. exists r0, k0. split; [now left|]. split; [exact E0|].
          intros r' k' [H' | H'] Hlt.
          -- injection H' as <- <-. lia.
          -- apply Hhd in H'. lia.
        * intros (r & k & [HIn | HIn] & Hk & Hmin).
          -- injection HIn as <- <-. congruence.
          -- specialize (Hmin r0 k0 (or_introl eq_refl) (Hhd _ _ HIn)). congruence.
      + rewrite (IH Hs'). split.
        * intros (r & k & HIn & Hk & Hmin). exists r, k. split; [now right|]. split; [exact Hk|].
          intros r' k' [H' | H'] Hlt.
          -- injection H' as <- <-. exact E0.
          -- now apply (Hmin r' k').
        * intros (r & k & [HIn | HIn] & Hk & Hmin).
          -- injection HIn as <- <-. congruence.
          -- exists r, k. split; [exact HIn|]. split; [exact Hk|].
             intros r' k' H' Hlt. apply (Hmin r' k'); [now right | exact Hlt].
  Qed.

  Lemma first_match_none reg (vs : list ident) :
    first_match reg vs = None <-> forall k, In k vs -> lookup reg k = None.
  Proof.
    induction vs as [|v r IH]; cbn.
    - split; [intros _ k [] | reflexivity].
    - destruct (lookup reg v) eqn:E.
      + split; [discriminate|]. intro H. rewrite (H v (or_introl eq_refl)) in E. discriminate.
      + rewrite IH. split.
        * intros H k [<- | Hk]; [exact E | now apply H].
        * intros H k Hk. apply H. now right.
  Qed.

  (* the class chosen for an identifier: the registered candidate of least rank *)
  Lemma resolve_some reg id c :
    resolve reg id = Some c <->
    exists r k, candidate id r k /\ lookup reg k = Some c /\
                forall r' k', candidate id r' k' -> r' < r -> lookup reg k' = None.
  Proof.
    unfold resolve. rewrite <- ranked_variants, (first_match_some reg (ranked id) c (ranked_sorted id)).
    split; intros (r & k & H1 & H2 & H3); exists r, k; (split; [now apply cand_iff|]); (split; [exact H2|]);
      intros r' k' H' Hlt; apply (H3 r' k'); try exact Hlt; now apply cand_iff.
  Qed.

  Lemma resolve_none reg id :
    resolve reg id = None <-> forall r k, candidate id r k -> lookup reg k = None.
  Proof.
    unfold resolve. rewrite first_match_none, <- ranked_variants. split.
    - intros H r k Hc. apply H. apply cand_iff in Hc. apply in_map_iff. now exists (r, k).
    - intros H k Hk. apply in_map_iff in Hk. destruct Hk as [[r k'] [<- HIn]].
      apply (H r). now apply cand_iff.
  Qed.

  (* only the last error of the list counts *)
  Lemma last_index_app {A} (pre : list A) (e : A) : last_index (pre ++ [e]) = Some (List.length pre, e).
  Proof.
    induction pre as [|a pre IH]; [reflexivity|].
    cbn [app List.length]. cbn [last_index]. rewrite IH.
    destruct (pre ++ [e]) eqn:E; [destruct pre; discriminate | reflexivity].
  Qed.

  Lemma from_errors_last reg pre e :
    from_errors reg (pre ++ [e]) =
    match resolve reg e with Some c => Handled c (List.length pre) | None => Generic (List.length pre) end.
  Proof. unfold from_errors. now rewrite last_index_app. Qed.

  Lemma from_errors_ignores_earlier reg pre pre' e : List.length pre = List.length pre' ->
    from_errors reg (pre ++ [e]) = from_errors reg (pre' ++ [e]).
  Proof. intro H. now rewrite !from_errors_last, H. Qed.

  Lemma from_errors_nil reg : from_errors reg [] = Unspecified.
  Proof. reflexivity. Qed.

  Lemma from_errors_unspecified_iff reg errs : from_errors reg errs = Unspecified <-> errs = [].
  Proof.
    split; [|intros ->; reflexivity].
    destruct errs as [|a l] using rev_ind; [reflexivity|].
    rewrite from_errors_last. destruct (resolve reg a); discriminate.
  Qed.

  Lemma from_errors_spec reg pre e :
    (forall c, from_errors reg (pre ++ [e]) = Handled c (List.length pre) <->
       exists r k, candidate e r k /\ lookup reg k = Some c /\
                   forall r' k', candidate e r' k' -> r' < r -> lookup reg k' = None) /\
    (from_errors reg (pre ++ [e]) = Generic (List.length pre) <->
       forall r k, candidate e r k -> lookup reg k = None) /\
    (forall c i, from_errors reg (pre ++ [e]) = Handled c i -> i = List.length pre) /\
    (forall i, from_errors reg (pre ++ [e]) = Generic i -> i = List.length pre).
  Proof.
    rewrite from_errors_last. repeat split.
    - intro H. apply resolve_some. destruct (resolve reg e); [now injection H as -> | discriminate].
    - intro H. apply resolve_some in H. now rewrite H.
    - intro H. apply resolve_none. destruct (resolve reg e); [discriminate | reflexivity].
    - intro H. apply resolve_none in H. now rewrite H.
    - intros c i H. destruct (resolve reg e); [now injection H | discriminate].
    - intros i H. destruct (resolve reg e); [discriminate | now injection H].
  Qed.
End Generic.

(* ---- the shapes named by the property ---- *)
Lemma variants_proto4 (p h c n : chunk) : variants [p; h; c; n] = [[p; h; c; n]; [c; n]; [n]; [c]].
Proof. reflexivity. Qed.
Lemma variants_2 (c n : chunk) : variants [c; n] = [[c; n]; [n]; [c]].
Proof. reflexivity. Qed.
Lemma variants_1 (n : chunk) : variants [n] = [[n]].
Proof. reflexivity. Qed.

(* ---- the registry of pytezos.rpc.errors ---- *)
Lemma handlers_nodup : NoDup (map fst handlers).
Proof.
  cbn. repeat constructor; cbn; intro H;
    repeat (destruct H as [H | H]; [discriminate|]); exact H.
Qed.

Lemma script_rejected pre (h : chunk) :
  from_errors handlers (pre ++ [["proto"; h; "michelson_v1"; "script_rejected"]])
  = Handled MichelsonScriptRejected (List.length pre).
Proof. rewrite from_errors_last. reflexivity. Qed.

Lemma bad_return pre (h : chunk) :
  from_errors handlers (pre ++ [["proto"; h; "michelson_v1"; "bad_return"]])
  = Handled MichelsonBadReturn (List.length pre).
Proof. rewrite from_errors_last. reflexivity. Qed.

Lemma tez_category pre (h : chunk) :
  from_errors handlers (pre ++ [["proto"; h; "tez"; "subtraction_underflow"]])
  = Handled TezArithmeticError (List.length pre).
Proof. rewrite from_errors_last. reflexivity. Qed.

Lemma unregistered_generic pre (h : chunk) :
  from_errors handlers (pre ++ [["proto"; h; "contract"; "balance_too_low"]]) = Generic (List.length pre).
Proof. rewrite from_errors_last. reflexivity. Qed.
