(* Proofs/PySem_proofs.v — the pytezos model simulates the reference semantics on well-typed programs
   (C01) and keeps the static types at run time (C02). *)
From Coq Require Import List ZArith Bool Arith Lia.
From PV Require Import Base.Bytes Michelson.Instr Michelson.Typing Michelson.RefSem Michelson.PyStack Michelson.PySem.
From PV Require Import Proofs.Instr_proofs Proofs.PyStack_proofs Proofs.RefSem_proofs.
Import ListNotations.

(* ------------------------------------------------------------------------------------------ *)
(* (a) DROP n / DUP n / DIG n / DUG n on the protected-prefix stack                           *)
(* ------------------------------------------------------------------------------------------ *)

Lemma firstn_skipn_split {A} n (l : list A) : n <= length l -> exists a b, l = a ++ b /\ length a = n /\ a = firstn n l /\ b = skipn n l.
Proof.
  intros H. exists (firstn n l), (skipn n l). rewrite firstn_skipn, firstn_length, Nat.min_l by assumption. auto.
Qed.

Lemma nth_error_split' {A} (l : list A) n x : nth_error l n = Some x ->
  l = firstn n l ++ x :: skipn (S n) l /\ length (firstn n l) = n.
Proof.
  revert n. induction l as [|y l IH]; intros [|n] H; simpl in *; try discriminate.
  - injection H as ->. auto.
  - destruct (IH _ H) as [E L]. split; [f_equal; exact E | f_equal; exact L].
Qed.

Local Opaque mutez_bound.

Section WithEnv.
Variable e : env.
Hypothesis He : env_okb e = true.

Lemma protect_all pre vis : protect (length vis) (mkst pre vis) = Some (mkst (pre ++ vis) []).
Proof. pose proof (protect_mkst pre vis [] _ eq_refl) as H. rewrite app_nil_r in H. exact H. Qed.

Lemma shuffle_refines f i pre vis :
  is_shuffle i = true -> (shuffle i vis <> None \/ pre = []) ->
  py_eval e (S f) i (mkst pre vis) =
    match shuffle i vis with Some v' => PDone (mkst pre v') | None => PError end.
Proof.
  intros Hs Hr. destruct i; try discriminate Hs; cbn [py_eval shuffle].
  - (* DROP *)
    destruct (n <=? length vis) eqn:E.
    + apply Nat.leb_le in E. destruct (firstn_skipn_split n vis E) as (a & b & -> & L & _ & Eb).
      rewrite (pop_mkst pre a b n L). rewrite <- Eb. reflexivity.
    + apply Nat.leb_gt in E. rewrite pop_mkst_short by assumption. reflexivity.
  - (* DUP *)
    destruct n as [|d]; [reflexivity|].
    destruct (nth_error vis d) as [x|] eqn:E.
    + destruct (nth_error_split' _ _ _ E) as [Ev L].
      remember (firstn d vis) as a. remember (skipn (S d) vis) as b'. clear Heqa Heqb'. subst d vis.
      rewrite (protect_mkst pre _ _ _ eq_refl), peek_mkst, restore_mkst, push_mkst. reflexivity.
    + destruct Hr as [Hr | ->]; [simpl in Hr; rewrite E in Hr; congruence|].
      apply nth_error_None in E.
      destruct (Nat.eq_dec d (length vis)) as [-> | Hne].
      * rewrite protect_all, peek_mkst_nil. reflexivity.
      * rewrite protect_nil_short by lia. reflexivity.
  - (* DIG *)
    destruct (nth_error vis n) as [x|] eqn:E.
    + destruct (nth_error_split' _ _ _ E) as [Ev L].
      remember (firstn n vis) as a. remember (skipn (S n) vis) as b'. clear Heqa Heqb'. subst n vis.
      rewrite (protect_mkst pre _ _ _ eq_refl), pop1_mkst, restore_mkst, push_mkst. reflexivity.
    + destruct Hr as [Hr | ->]; [simpl in Hr; rewrite E in Hr; congruence|].
      apply nth_error_None in E.
      destruct (Nat.eq_dec n (length vis)) as [-> | Hne].
      * rewrite protect_all, pop1_mkst_nil. reflexivity.
      * rewrite protect_nil_short by lia. reflexivity.
  - (* DUG *)
    destruct vis as [|x r]; [rewrite pop1_mkst_nil; reflexivity|].
    rewrite pop1_mkst. destruct (n <=? length r) eqn:E.
    + apply Nat.leb_le in E. destruct (firstn_skipn_split n r E) as (a & b & Er & L & Ea & Eb).
      rewrite <- Ea, <- Eb. clear Ea Eb. subst n r.
      rewrite (protect_mkst pre a b _ eq_refl), push_mkst, restore_mkst. reflexivity.
    + destruct Hr as [Hr | ->]; [simpl in Hr; rewrite E in Hr; congruence|].
      apply Nat.leb_gt in E. rewrite protect_nil_short by assumption. reflexivity.
Qed.

(* ------------------------------------------------------------------------------------------ *)
(* COMPARE: Python's == and < on the value classes decide the Michelson order                  *)
(* ------------------------------------------------------------------------------------------ *)

Lemma bytes_cmp_eqb a : forall b, bytes_eqb a b = match bytes_cmp a b with Eq => true | _ => false end.
Proof.
  unfold bytes_eqb. induction a as [|x a IH]; intros [|y b]; simpl; try reflexivity.
  destruct (N.compare_spec (Byte.to_N x) (Byte.to_N y)) as [E|E|E].
  - apply to_N_inj in E. subst. replace (byte_eqb y y) with true by (symmetry; apply byte_eqb_spec; reflexivity).
    simpl. apply IH.
  - replace (byte_eqb x y) with false; [reflexivity|]. symmetry. apply not_true_is_false. intros C.
    apply byte_eqb_spec in C. subst. lia.
  - replace (byte_eqb x y) with false; [reflexivity|]. symmetry. apply not_true_is_false. intros C.
    apply byte_eqb_spec in C. subst. lia.
Qed.

Lemma bytes_cmp_ltb a : forall b, bytes_ltb a b = match bytes_cmp a b with Lt => true | _ => false end.
Proof.
  induction a as [|x a IH]; intros [|y b]; simpl; try reflexivity.
  destruct (N.compare_spec (Byte.to_N x) (Byte.to_N y)) as [E|E|E].
  - rewrite E, N.ltb_irrefl, N.eqb_refl. apply IH.
  - apply N.ltb_lt in E. rewrite E. reflexivity.
  - assert (H1 : (Byte.to_N x <? Byte.to_N y)%N = false) by (apply N.ltb_ge; lia).
    assert (H2 : (Byte.to_N x =? Byte.to_N y)%N = false) by (apply N.eqb_neq; lia).
    rewrite H1, H2. reflexivity.
Qed.

Definition is_eq (c : comparison) : bool := match c with Eq => true | _ => false end.
Definition is_lt (c : comparison) : bool := match c with Lt => true | _ => false end.

Lemma compare_agree a : forall t b, typed a t -> typed b t -> comparable t = true ->
  exists c, v_compare (erase a) (erase b) = Some c /\ py_eq a b = is_eq c /\ py_lt a b = is_lt c.
Proof.
  induction a as [z|z|z|z|s|s|s|s|b0| |x y IHx IHy|t0|x IHx|x t0 IHx|t0 x IHx|t0 l IHl|t0 l IHl|kt vt l IHl|ta tb body] using pval_ind';
    intros t b Ha Hb Hc; pose proof Ha as Ha'; unfold typed in Ha'; destruct t; simpl in Ha'; try discriminate Ha';
    simpl in Hc; try discriminate Hc.
  - apply typed_int_inv in Hb as [w ->]. simpl. exists (Z.compare z w). split; [reflexivity|].
    destruct (Z.compare_spec z w); split; try (apply Z.eqb_eq; assumption); try (apply Z.eqb_neq; lia);
      try (apply Z.ltb_lt; lia); try (apply Z.ltb_ge; lia).
  - apply typed_nat_inv in Hb as (w & -> & _). simpl. exists (Z.compare z w). split; [reflexivity|].
    destruct (Z.compare_spec z w); split; try (apply Z.eqb_eq; assumption); try (apply Z.eqb_neq; lia);
      try (apply Z.ltb_lt; lia); try (apply Z.ltb_ge; lia).
  - apply typed_mutez_inv in Hb as (w & -> & _). simpl. exists (Z.compare z w). split; [reflexivity|].
    destruct (Z.compare_spec z w); split; try (apply Z.eqb_eq; assumption); try (apply Z.eqb_neq; lia);
      try (apply Z.ltb_lt; lia); try (apply Z.ltb_ge; lia).
  - apply typed_timestamp_inv in Hb as [w ->]. simpl. exists (Z.compare z w). split; [reflexivity|].
    destruct (Z.compare_spec z w); split; try (apply Z.eqb_eq; assumption); try (apply Z.eqb_neq; lia);
      try (apply Z.ltb_lt; lia); try (apply Z.ltb_ge; lia).
  - apply typed_string_inv in Hb as [w ->]. simpl. exists (bytes_cmp s w). split; [reflexivity|].
    split; [apply bytes_cmp_eqb | apply bytes_cmp_ltb].
  - apply typed_bytes_inv in Hb as [w ->]. simpl. exists (bytes_cmp s w). split; [reflexivity|].
    split; [apply bytes_cmp_eqb | apply bytes_cmp_ltb].
  - apply typed_bool_inv in Hb as [w ->]. simpl. eexists. split; [reflexivity|]. destruct b0, w; split; reflexivity.
  - apply typed_unit_inv in Hb as ->. simpl. exists Eq. auto.
  - apply typed_pair_inv in Hb as (x' & y' & -> & Hx' & Hy'). apply andb_prop in Ha' as [Hx Hy]. apply andb_prop in Hc as [C1 C2].
    destruct (IHx _ _ Hx Hx' C1) as (c1 & E1 & Q1 & L1). destruct (IHy _ _ Hy Hy' C2) as (c2 & E2 & Q2 & L2).
    simpl. rewrite E1, Q1, L1, Q2, L2. destruct c1; simpl.
    + exists c2. split; [assumption|]. destruct c2; auto.
    + exists Lt. auto.
    + exists Gt. auto.
  - apply ty_eqb_eq in Ha'. subst t0. apply typed_option_inv in Hb as [-> | (x' & -> & Hx')]; simpl.
    + exists Eq. auto.
    + exists Lt. auto.
  - apply typed_option_inv in Hb as [-> | (x' & -> & Hx')]; simpl.
    + exists Gt. auto.
    + apply (IHx _ _ Ha' Hx' Hc).
  - apply andb_prop in Ha' as [Hx Ht0]. apply andb_prop in Hc as [C1 C2].
    apply typed_or_inv in Hb as [(x' & -> & Hx')|(y' & -> & Hy')]; simpl.
    + apply (IHx _ _ Hx Hx' C1).
    + exists Lt. auto.
  - apply andb_prop in Ha' as [Ht0 Hx]. apply andb_prop in Hc as [C1 C2].
    apply typed_or_inv in Hb as [(x' & -> & Hx')|(y' & -> & Hy')]; simpl.
    + exists Gt. auto.
    + apply (IHx _ _ Hx Hy' C2).
Qed.

Lemma py_compare_agree a b t : typed a t -> typed b t -> comparable t = true ->
  exists c, v_compare (erase a) (erase b) = Some c /\ py_compare a b = Z_of_comparison c.
Proof.
  intros Ha Hb Hc. destruct (compare_agree a t b Ha Hb Hc) as (c & E & Q & L). exists c. split; [assumption|].
  unfold py_compare. rewrite Q, L. destruct c; reflexivity.
Qed.

(* ------------------------------------------------------------------------------------------ *)
(* right combs: PAIR n / UNPAIR n / GET k / UPDATE k                                          *)
(* ------------------------------------------------------------------------------------------ *)

Lemma nat_ind2 (P : nat -> Prop) : P 0 -> P 1 -> (forall n, P n -> P (S (S n))) -> forall n, P n.
Proof.
  intros H0 H1 HS. assert (H : forall n, P n /\ P (S n)).
  { induction n as [|n [IH1 IH2]]; [split; assumption | split; [assumption | apply HS; assumption]]. }
  intros n. apply H.
Qed.

Lemma comb_agree args : forall ts, Forall2 typed args ts -> args <> [] ->
  exists v t, py_from_comb args = Some v /\ ty_comb ts = Some t /\ typed v t /\ v_comb (map erase args) = Some (erase v).
Proof.
  induction args as [|x r IH]; intros ts H Hne; [congruence|].
  inversion H as [|? t ? ts' Hx Hr]; subst. destruct r as [|y r].
  - inversion Hr; subst. exists x, t. simpl. auto.
  - destruct (IH ts' Hr) as (v & t' & E1 & E2 & T & E3); [discriminate|].
    inversion Hr as [|? ty ? ts'' Hy Hr']; subst.
    exists (PPair x v), (TPair t t').
    change (py_from_comb (x :: y :: r)) with (option_map (PPair x) (py_from_comb (y :: r))).
    change (ty_comb (t :: ty :: ts'')) with (option_map (TPair t) (ty_comb (ty :: ts''))).
    change (v_comb (map erase (x :: y :: r))) with (option_map (VPair (erase x)) (v_comb (map erase (y :: r)))).
    rewrite E1, E2, E3. simpl. repeat split; auto. unfold typed in *. simpl. rewrite Hx, T. reflexivity.
Qed.

Lemma uncomb_agree m : forall x y a b ts, ty_uncomb (S (S m)) (TPair a b) = Some ts -> typed (PPair x y) (TPair a b) ->
  Forall2 typed (py_unpairn m (PPair x y)) ts /\
  v_uncomb (S (S m)) (erase (PPair x y)) = Some (map erase (py_unpairn m (PPair x y))).
Proof.
  induction m as [|m IH]; intros x y a b ts Hty Hv; apply typed_pair_inv in Hv as (x' & y' & E & Hx & Hy);
    injection E as <- <-.
  - simpl in Hty. injection Hty as <-. simpl. split; [repeat constructor; assumption | reflexivity].
  - change (ty_uncomb (S (S (S m))) (TPair a b)) with (option_map (cons a) (ty_uncomb (S (S m)) b)) in Hty.
    destruct (ty_uncomb (S (S m)) b) as [ts'|] eqn:E; [|discriminate]. injection Hty as <-.
    destruct b; try discriminate E. apply typed_pair_inv in Hy as Hy'. destruct Hy' as (y1 & y2 & -> & _ & _).
    destruct (IH y1 y2 _ _ _ E Hy) as [T R].
    change (py_unpairn (S m) (PPair x (PPair y1 y2))) with (x :: py_unpairn m (PPair y1 y2)).
    split; [constructor; assumption|].
    change (v_uncomb (S (S (S m))) (erase (PPair x (PPair y1 y2))))
      with (option_map (cons (erase x)) (v_uncomb (S (S m)) (erase (PPair y1 y2)))).
    rewrite R. reflexivity.
Qed.

Lemma get_n_agree k : forall t v t', ty_get_n k t = Some t' -> typed v t ->
  exists w, py_access_comb k v = Some w /\ typed w t' /\ v_get_n k (erase v) = Some (erase w).
Proof.
  induction k as [| |k IH] using nat_ind2; intros t v t' Hty Hv.
  - injection Hty as <-. exists v. auto.
  - simpl in Hty. destruct t; try discriminate. injection Hty as <-.
    apply typed_pair_inv in Hv as (x & y & -> & Hx & Hy). exists x. auto.
  - simpl in Hty. destruct t; try discriminate. apply typed_pair_inv in Hv as (x & y & -> & Hx & Hy).
    destruct (IH _ _ _ Hty Hy) as (w & E & T & R). exists w. auto.
Qed.

(* the structural update, to which pair.update_comb (flatten, patch, rebuild) is equal *)
Fixpoint p_update_n (k : nat) (x v : pval) : option pval :=
  match k with
  | 0 => Some x
  | 1 => match v with PPair _ b => Some (PPair x b) | _ => None end
  | S (S k') => match v with PPair a b => option_map (PPair a) (p_update_n k' x b) | _ => None end
  end.

Lemma update_n_agree k : forall tx t x v t', ty_update_n k tx t = Some t' -> typed x tx -> typed v t ->
  exists w, p_update_n k x v = Some w /\ typed w t' /\ v_update_n k (erase x) (erase v) = Some (erase w).
Proof.
  induction k as [| |k IH] using nat_ind2; intros tx t x v t' Hty Hx Hv.
  - injection Hty as <-. exists x. auto.
  - simpl in Hty. destruct t; try discriminate. injection Hty as <-.
    apply typed_pair_inv in Hv as (a & b & -> & Ha & Hb). exists (PPair x b). simpl. repeat split; auto.
    unfold typed in *. simpl. rewrite Hx, Hb. reflexivity.
  - simpl in Hty. destruct t; try discriminate. apply typed_pair_inv in Hv as (a & b & -> & Ha & Hb).
    destruct (ty_update_n k tx t2) as [t''|] eqn:E; [|discriminate]. injection Hty as <-.
    destruct (IH _ _ _ _ _ E Hx Hb) as (w & E1 & T & R). exists (PPair a w). simpl. rewrite E1, R. simpl. repeat split; auto.
    unfold typed in *. simpl. rewrite Ha, T. reflexivity.
Qed.

Lemma py_spine_nonempty v : py_spine v <> [].
Proof. destruct v; simpl; discriminate. Qed.

Lemma py_from_comb_cons a l : l <> [] -> py_from_comb (a :: l) = option_map (PPair a) (py_from_comb l).
Proof. destruct l; [congruence | reflexivity]. Qed.

Lemma py_from_comb_spine v : py_from_comb (py_spine v) = Some v.
Proof.
  induction v; try reflexivity. simpl py_spine. rewrite py_from_comb_cons by apply py_spine_nonempty.
  rewrite IHv2. reflexivity.
Qed.

Lemma replace_nth_nonempty {A} i (x : A) l : l <> [] -> replace_nth i x l <> [].
Proof. destruct l; [congruence|]. destruct i; simpl; discriminate. Qed.

Lemma update_odd i : forall x v w, p_update_n (S (2 * i)) x v = Some w ->
  py_from_comb (replace_nth i x (py_spine v)) = Some w.
Proof.
  induction i as [|i IH]; intros x v w H.
  - simpl in H. destruct v; try discriminate. injection H as <-. cbn [py_spine replace_nth].
    rewrite py_from_comb_cons by apply py_spine_nonempty. rewrite py_from_comb_spine. reflexivity.
  - replace (S (2 * S i)) with (S (S (S (2 * i)))) in H by lia.
    change (p_update_n (S (S (S (2 * i)))) x v)
      with (match v with PPair a b => option_map (PPair a) (p_update_n (S (2 * i)) x b) | _ => None end) in H.
    destruct v; try discriminate. destruct (p_update_n (S (2 * i)) x v2) as [w'|] eqn:E; [|discriminate].
    injection H as <-. cbn [py_spine replace_nth]. rewrite py_from_comb_cons by (apply replace_nth_nonempty, py_spine_nonempty).
    rewrite (IH _ _ _ E). reflexivity.
Qed.

Lemma update_even i : forall x v w, p_update_n (2 * S i) x v = Some w ->
  py_from_comb (firstn (S i) (py_spine v) ++ py_spine x) = Some w.
Proof.
  induction i as [|i IH]; intros x v w H.
  - simpl in H. destruct v; try discriminate. injection H as <-. cbn [py_spine firstn app].
    rewrite py_from_comb_cons by apply py_spine_nonempty. rewrite py_from_comb_spine. reflexivity.
  - replace (2 * S (S i)) with (S (S (2 * S i))) in H by lia.
    change (p_update_n (S (S (2 * S i))) x v)
      with (match v with PPair a b => option_map (PPair a) (p_update_n (2 * S i) x b) | _ => None end) in H.
    destruct v; try discriminate. destruct (p_update_n (2 * S i) x v2) as [w'|] eqn:E; [|discriminate].
    injection H as <-. cbn [py_spine]. change (firstn (S (S i)) (v1 :: py_spine v2)) with (v1 :: firstn (S i) (py_spine v2)).
    rewrite <- app_comm_cons. rewrite py_from_comb_cons.
    + rewrite (IH _ _ _ E). reflexivity.
    + destruct (py_spine v2) eqn:Q; [exfalso; eapply py_spine_nonempty; eassumption | simpl; discriminate].
Qed.

Lemma py_update_comb_structural k x v w : p_update_n k x v = Some w -> py_update_comb k x v = Some w.
Proof.
  intros H. unfold py_update_comb. destruct k as [|k]; [exact H|]. simpl Nat.eqb. cbv iota.
  destruct (Nat.Even_or_Odd (S k)) as [[j Hj] | [j Hj]].
  - destruct j as [|j]; [lia|]. rewrite Hj in *.
    replace (Nat.odd (2 * S j)) with false by (symmetry; rewrite <- Nat.negb_even, Nat.even_mul; reflexivity).
    rewrite Nat.div2_double. apply update_even. assumption.
  - replace (S k) with (S (2 * j)) in * by lia.
    replace (Nat.odd (S (2 * j))) with true by (symmetry; rewrite Nat.odd_succ, Nat.even_mul; reflexivity).
    rewrite Nat.div2_succ_double. apply update_odd. assumption.
Qed.

(* ---- lookups in sets and maps (any comparable key type; no sortedness needed) ---- *)
Lemma bytes_eqb_sym a b : bytes_eqb a b = bytes_eqb b a.
Proof.
  destruct (bytes_eqb a b) eqn:E1, (bytes_eqb b a) eqn:E2; try reflexivity.
  - apply bytes_eqb_spec in E1. subst. assert (bytes_eqb b b = true) by (apply bytes_eqb_spec; reflexivity). congruence.
  - apply bytes_eqb_spec in E2. subst. assert (bytes_eqb a a = true) by (apply bytes_eqb_spec; reflexivity). congruence.
Qed.

Lemma bool_eqb_sym a b : Bool.eqb a b = Bool.eqb b a.
Proof. destruct a, b; reflexivity. Qed.

Lemma py_eq_sym a : forall b, py_eq a b = py_eq b a.
Proof.
  induction a as [z|z|z|z|s|s|s|s|b0| |x y IHx IHy|t0|x IHx|x t0 IHx|t0 x IHx|t0 l IHl|t0 l IHl|kt vt l IHl|ta tb body] using pval_ind';
    intros b; destruct b; simpl; try reflexivity; try apply Z.eqb_sym; try apply bytes_eqb_sym; try apply bool_eqb_sym;
    try (rewrite IHx, IHy; reflexivity); try apply IHx.
  all: match goal with |- _ ?l1 ?l2 = _ ?l2 ?l1 => revert l2; induction IHl as [|x r Hx Hr IH]; intros [|y s]; try reflexivity;
         rewrite Hx, IH; reflexivity end.
Qed.

Lemma set_mem_agree x l t : typed x t -> Forall (fun y => typed y t) l -> comparable t = true ->
  v_set_mem (erase x) (map erase l) = Some (py_set_contains x l).
Proof.
  intros Hx Hl Hc. induction Hl as [|y l Hy Hl IH]; simpl; [reflexivity|].
  destruct (compare_agree x t y Hx Hy Hc) as (c & E & Q & _). rewrite E, Q. unfold py_set_contains in IH.
  destruct c; simpl; [reflexivity | exact IH | exact IH].
Qed.

Lemma map_get_agree k l kt vt : typed k kt -> Forall (entry_typed kt vt) l -> comparable kt = true ->
  v_map_get (erase k) (map erase l) = Some (option_map erase (py_map_get k l)).
Proof.
  intros Hk Hl Hc. induction Hl as [|y l Hy Hl IH]; simpl; [reflexivity|].
  destruct Hy as (k' & v & -> & Hk' & Hv). simpl.
  destruct (compare_agree k kt k' Hk Hk' Hc) as (c & E & Q & _). rewrite E. rewrite (py_eq_sym k' k), Q.
  destruct c; simpl; [reflexivity | exact IH | exact IH].
Qed.

(* MEM and GET: the pytezos step (class check included) agrees with the reference rule *)
Lemma mem_get_agree x t l vt lm :
  typed x t -> comparable t = true -> Forall (fun y => typed y t) l -> Forall (entry_typed t vt) lm ->
  (exists fn, py_simple e I_MEM = Some (2, fn) /\
     fn [x; PSet t l] = POk [PBool (py_set_contains x l)] /\
     ref_simple e I_MEM (erase x :: VSet (map erase l) :: nil) = Done [VBool (py_set_contains x l)]) /\
  (exists fn, py_simple e I_GET = Some (2, fn) /\
     exists r, fn [x; PMap t vt lm] = POk [r] /\ typed r (TOption vt) /\
     ref_simple e I_GET (erase x :: VMap (map erase lm) :: nil) = Done [erase r]).
Proof.
  intros Hx Hc Hl Hlm. split.
  - eexists. split; [reflexivity|]. cbn [ref_simple]. rewrite (typed_rt_type x t Hx), ty_eqb_refl.
    rewrite (set_mem_agree x l t Hx Hl Hc). auto.
  - eexists. split; [reflexivity|]. cbn [ref_simple]. rewrite (typed_rt_type x t Hx), ty_eqb_refl.
    rewrite (map_get_agree x lm t vt Hx Hlm Hc).
    exists (py_opt vt (py_map_get x lm)). split; [reflexivity|].
    assert (Hg : forall v, py_map_get x lm = Some v -> typed v vt).
    { clear - Hlm. induction Hlm as [|y l Hy Hl IH]; simpl; [discriminate|].
      destruct Hy as (k' & v' & -> & _ & Hv). destruct (py_eq k' x); [intros v E; injection E as <-; exact Hv | exact IH]. }
    destruct (py_map_get x lm) as [v|] eqn:E; simpl.
    + split; [apply (Hg v eq_refl) | reflexivity].
    + split; [unfold typed; simpl; apply ty_eqb_refl | reflexivity].
Qed.


(* ---- sorted sets: pytezos' sorted Python lists vs the reference ---- *)
Lemma sorted_transfer t l : Forall (fun y => typed y t) l -> comparable t = true ->
  py_strict_sorted l = v_strict_sorted (map erase l).
Proof.
  intros Hl Hc. induction Hl as [|x l Hx Hl IH]; [reflexivity|].
  destruct l as [|y r]; [reflexivity|]. inversion Hl as [|? ? Hy Hr]; subst.
  cbn [py_strict_sorted v_strict_sorted map]. cbn [map] in IH.
  destruct (compare_agree x t y Hx Hy Hc) as (c & E & _ & L). rewrite E, L. destruct c; simpl; auto.
Qed.

Lemma cmp_defined_typed t x l : typed x t -> Forall (fun y => typed y t) l -> comparable t = true ->
  cmp_defined (erase x) (map erase l).
Proof.
  intros Hx Hl Hc. unfold cmp_defined. induction Hl as [|y l Hy Hl IH]; simpl; constructor; [|exact IH].
  destruct (compare_agree x t y Hx Hy Hc) as (c & E & _). rewrite E. discriminate.
Qed.

Lemma no_eq_existsb t x l : typed x t -> Forall (fun y => typed y t) l -> comparable t = true ->
  Forall (fun z => v_compare (erase x) z = Some Lt) (map erase l) -> existsb (fun y => py_eq x y) l = false.
Proof.
  intros Hx Hl Hc F. induction Hl as [|y l Hy Hl IH]; [reflexivity|]. simpl in F |- *. inversion F as [|? ? Fy Fr]; subst.
  destruct (compare_agree x t y Hx Hy Hc) as (c & E & Q & _). rewrite Fy in E. injection E as <-. rewrite Q. simpl. auto.
Qed.

Lemma set_add_agree t x : typed x t -> comparable t = true -> forall l, Forall (fun y => typed y t) l ->
  v_strict_sorted (map erase l) = true ->
  v_set_add (erase x) (map erase l) = Some (map erase (py_set_add x l)).
Proof.
  intros Hx Hc. induction l as [|y r IH]; intros Hl S; [reflexivity|].
  inversion Hl as [|? ? Hy Hr]; subst. cbn [map] in S. apply v_sorted_iff in S as [Sr Fy].
  destruct (compare_agree x t y Hx Hy Hc) as (c & E & Q & L).
  unfold py_set_add, py_set_contains in *. cbn [map v_set_add existsb py_insert]. rewrite E, Q, L. destruct c; simpl.
  - reflexivity.
  - rewrite (no_eq_existsb t x r Hx Hr Hc); [reflexivity|]. eapply v_no_eq_after; eassumption.
  - rewrite (IH Hr Sr). destruct (existsb (fun y0 => py_eq x y0) r); reflexivity.
Qed.

Lemma filter_no_eq t x l : typed x t -> Forall (fun y => typed y t) l -> comparable t = true ->
  Forall (fun z => v_compare (erase x) z = Some Lt) (map erase l) -> filter (fun y => negb (py_eq y x)) l = l.
Proof.
  intros Hx Hl Hc F. induction Hl as [|y l Hy Hl IH]; [reflexivity|]. simpl in F |- *. inversion F as [|? ? Fy Fr]; subst.
  destruct (compare_agree x t y Hx Hy Hc) as (c & E & Q & _). rewrite Fy in E. injection E as <-.
  rewrite (py_eq_sym y x), Q. simpl. rewrite (IH Fr). reflexivity.
Qed.

Lemma set_remove_agree t x : typed x t -> comparable t = true -> forall l, Forall (fun y => typed y t) l ->
  v_strict_sorted (map erase l) = true ->
  v_set_remove (erase x) (map erase l) = Some (map erase (py_set_remove x l)).
Proof.
  intros Hx Hc. induction l as [|y r IH]; intros Hl S; [reflexivity|].
  inversion Hl as [|? ? Hy Hr]; subst. cbn [map] in S. apply v_sorted_iff in S as [Sr Fy].
  destruct (compare_agree x t y Hx Hy Hc) as (c & E & Q & L).
  unfold py_set_remove, py_set_contains in *. cbn [map v_set_remove existsb filter]. rewrite E, Q, (py_eq_sym y x), Q.
  destruct c; simpl.
  - apply v_compare_eq in E. rewrite (filter_no_eq t x r Hx Hr Hc); [reflexivity|]. rewrite E. exact Fy.
  - rewrite (no_eq_existsb t x r Hx Hr Hc) by (eapply v_no_eq_after; eassumption).
    rewrite v_set_remove_id by (eapply v_no_eq_after; eassumption). reflexivity.
  - rewrite (IH Hr Sr). destruct (existsb (fun y0 => py_eq x y0) r); reflexivity.
Qed.

Lemma py_insert_Forall (P : pval -> Prop) x l : P x -> Forall P l -> Forall P (py_insert x l).
Proof.
  intros Px F. induction F as [|y l Py F IH]; simpl; [constructor; [exact Px | constructor]|].
  destruct (py_lt x y); constructor; auto.
Qed.

Lemma filter_Forall {A} (P : A -> Prop) f (l : list A) : Forall P l -> Forall P (filter f l).
Proof. induction 1 as [|y l Py F IH]; simpl; [constructor|]. destruct (f y); [constructor|]; auto. Qed.

(* UPDATE on a set: SetType.add / remove keep the list typed and sorted and agree with the reference *)
Lemma set_update_agree t x (b : bool) l : typed x t -> comparable t = true -> typed (PSet t l) (TSet t) ->
  let l' := if b then py_set_add x l else py_set_remove x l in
  (if b then v_set_add (erase x) (map erase l) else v_set_remove (erase x) (map erase l)) = Some (map erase l') /\
  typed (PSet t l') (TSet t).
Proof.
  intros Hx Hc Hs. pose proof Hs as Hs'. apply typed_set_inv in Hs' as (l0 & Q & Hl). injection Q as <-.
  unfold typed in Hs. simpl in Hs. apply andb_prop in Hs as [_ Sp].
  rewrite (sorted_transfer t l Hl Hc) in Sp.
  pose proof (cmp_defined_typed t x l Hx Hl Hc) as D.
  assert (G : forall l', Forall (fun y => typed y t) l' -> v_strict_sorted (map erase l') = true -> typed (PSet t l') (TSet t)).
  { intros l' Hl' S'. unfold typed. simpl. rewrite ty_eqb_refl. simpl. rewrite (sorted_transfer t l' Hl' Hc), S'.
    rewrite andb_true_r. apply forallb_forall. intros z Hz. rewrite Forall_forall in Hl'. apply Hl'. exact Hz. }
  destruct b; cbv zeta.
  - pose proof (set_add_agree t x Hx Hc l Hl Sp) as A. split; [exact A|].
    destruct (v_set_add_sorted (erase x) (map erase l) Sp D) as (l1 & E1 & S1). rewrite A in E1. injection E1 as <-.
    apply G; [|exact S1]. unfold py_set_add. destruct (py_set_contains x l); [exact Hl | apply py_insert_Forall; assumption].
  - pose proof (set_remove_agree t x Hx Hc l Hl Sp) as A. split; [exact A|].
    destruct (v_set_remove_sorted (erase x) (map erase l) Sp D) as (l1 & E1 & S1). rewrite A in E1. injection E1 as <-.
    apply G; [|exact S1]. unfold py_set_remove. destruct (py_set_contains x l); [apply filter_Forall; exact Hl | exact Hl].
Qed.

(* ---- sorted maps ---- *)
Lemma entries_facts kt vt l : Forall (entry_typed kt vt) l ->
  map erase (map py_key l) = map v_key (map erase l) /\ Forall (fun y => typed y kt) (map py_key l) /\ Forall is_entry (map erase l).
Proof.
  induction 1 as [|y l (k & v & -> & Hk & Hv) Hl (I1 & I2 & I3)]; simpl; [auto|].
  rewrite I1. repeat split; auto. constructor; [eexists; eexists; reflexivity | exact I3].
Qed.

Lemma map_no_eq_facts kt vt k v l : typed k kt -> comparable kt = true -> Forall (entry_typed kt vt) l ->
  Forall (fun z => v_compare (erase k) z = Some Lt) (map v_key (map erase l)) ->
  py_map_get k l = None /\
  map (fun y => if negb (py_eq (py_key y) k) then y else PPair (py_key y) v) l = l /\
  filter (fun y => negb (py_eq (py_key y) k)) l = l.
Proof.
  intros Hk Hc Hl F. induction Hl as [|y l (k' & v' & -> & Hk' & Hv') Hl IH]; [auto|].
  simpl in F. inversion F as [|? ? Fy Fr]; subst. destruct (IH Fr) as (I1 & I2 & I3).
  destruct (compare_agree k kt k' Hk Hk' Hc) as (c & E & Q & _). rewrite Fy in E. injection E as <-.
  simpl. rewrite (py_eq_sym k' k), Q. simpl. rewrite I1, I2, I3. auto.
Qed.

Lemma map_set_agree kt vt k v : typed k kt -> comparable kt = true -> forall l, Forall (entry_typed kt vt) l ->
  v_strict_sorted (map v_key (map erase l)) = true ->
  v_map_set (erase k) (erase v) (map erase l) = Some (map erase (py_map_update k (Some v) l)).
Proof.
  intros Hk Hc. induction l as [|y r IH]; intros Hl S; [reflexivity|].
  inversion Hl as [|? ? (k' & v' & -> & Hk' & Hv') Hr]; subst. cbn [map erase v_key] in S. apply v_sorted_iff in S as [Sr Fy].
  destruct (compare_agree k kt k' Hk Hk' Hc) as (c & E & Q & L).
  unfold py_map_update in *. cbn [map erase v_map_set py_map_get py_key py_insert_entry]. rewrite E, (py_eq_sym k' k), Q, L.
  destruct c; simpl.
  - apply v_compare_eq in E. destruct (map_no_eq_facts kt vt k v r Hk Hc Hr) as (_ & I2 & _); [rewrite E; exact Fy|].
    rewrite I2, E. reflexivity.
  - destruct (map_no_eq_facts kt vt k v r Hk Hc Hr) as (I1 & _ & _); [eapply v_no_eq_after; eassumption|]. rewrite I1. reflexivity.
  - rewrite (IH Hr Sr). destruct (py_map_get k r); reflexivity.
Qed.

Lemma map_remove_agree kt vt k : typed k kt -> comparable kt = true -> forall l, Forall (entry_typed kt vt) l ->
  v_strict_sorted (map v_key (map erase l)) = true ->
  v_map_remove (erase k) (map erase l) = Some (map erase (py_map_update k None l)).
Proof.
  intros Hk Hc. induction l as [|y r IH]; intros Hl S; [reflexivity|].
  inversion Hl as [|? ? (k' & v' & -> & Hk' & Hv') Hr]; subst. cbn [map erase v_key] in S. apply v_sorted_iff in S as [Sr Fy].
  destruct (compare_agree k kt k' Hk Hk' Hc) as (c & E & Q & L). destruct (entries_facts kt vt r Hr) as (_ & _ & En).
  unfold py_map_update in *. cbn [map erase v_map_remove py_map_get py_key]. rewrite E, (py_eq_sym k' k), Q.
  destruct c; simpl.
  - apply v_compare_eq in E. destruct (map_no_eq_facts kt vt k k r Hk Hc Hr) as (_ & _ & I3); [rewrite E; exact Fy|].
    rewrite (py_eq_sym k' k), Q. simpl. rewrite I3. reflexivity.
  - destruct (map_no_eq_facts kt vt k k r Hk Hc Hr) as (I1 & _ & _); [eapply v_no_eq_after; eassumption|]. rewrite I1.
    rewrite v_map_remove_id; [reflexivity | exact En | eapply v_no_eq_after; eassumption].
  - rewrite (IH Hr Sr). destruct (py_map_get k r); simpl; [rewrite (py_eq_sym k' k), Q|]; reflexivity.
Qed.

Lemma py_map_update_entries kt vt k ov l : typed k kt -> (forall v, ov = Some v -> typed v vt) ->
  Forall (entry_typed kt vt) l -> Forall (entry_typed kt vt) (py_map_update k ov l).
Proof.
  intros Hk Hv Hl. unfold py_map_update. destruct (py_map_get k l), ov as [v|]; auto.
  - apply Forall_forall. intros x Hx. apply in_map_iff in Hx as (y & <- & Hy). rewrite Forall_forall in Hl.
    destruct (Hl y Hy) as (k' & v' & -> & Hk' & Hv'). simpl. destruct (negb (py_eq k' k)); [exists k', v'; auto|].
    exists k', v. repeat split; auto.
  - apply filter_Forall. exact Hl.
  - specialize (Hv v eq_refl). clear - Hk Hv Hl. induction Hl as [|y l Hy Hl IH]; simpl.
    + constructor; [exists k, v; auto | constructor].
    + destruct (py_lt k (py_key y)); constructor; auto. exists k, v; auto.
Qed.

(* UPDATE / GET_AND_UPDATE on a map: MapType.update keeps the entries typed and sorted and agrees with the reference *)
Lemma map_update_agree kt vt k ov l : typed k kt -> comparable kt = true -> typed ov (TOption vt) -> typed (PMap kt vt l) (TMap kt vt) ->
  let o := match ov with PSome v => Some v | _ => None end in
  v_map_update (erase k) (erase ov) (map erase l) = Some (map erase (py_map_update k o l)) /\
  typed (PMap kt vt (py_map_update k o l)) (TMap kt vt).
Proof.
  intros Hk Hc Ho Hm. pose proof Hm as Hm'. apply typed_map_inv in Hm' as (l0 & Q & Hl). injection Q as <-.
  unfold typed in Hm. simpl in Hm. apply andb_prop in Hm as [_ Sp].
  destruct (entries_facts kt vt l Hl) as (Ek & Tk & En).
  rewrite (sorted_transfer kt _ Tk Hc), Ek in Sp.
  assert (D : cmp_defined (erase k) (map v_key (map erase l))) by (rewrite <- Ek; apply (cmp_defined_typed kt); assumption).
  assert (G : forall l', Forall (entry_typed kt vt) l' -> v_strict_sorted (map v_key (map erase l')) = true ->
              typed (PMap kt vt l') (TMap kt vt)).
  { intros l' Hl' S'. destruct (entries_facts kt vt l' Hl') as (Ek' & Tk' & _).
    unfold typed. simpl. rewrite !ty_eqb_refl. simpl. rewrite (sorted_transfer kt _ Tk' Hc), Ek', S'. rewrite andb_true_r.
    apply forallb_forall. intros z Hz. rewrite Forall_forall in Hl'. destruct (Hl' z Hz) as (k' & v' & -> & H1 & H2).
    unfold typed in H1, H2. rewrite H1, H2. reflexivity. }
  apply typed_option_inv in Ho as [-> | (v & -> & Hv)]; cbv zeta; cbn [erase v_map_update].
  - pose proof (map_remove_agree kt vt k Hk Hc l Hl Sp) as A. split; [exact A|].
    destruct (v_map_remove_sorted (erase k) (map erase l) Sp D En) as (l1 & E1 & S1 & _). rewrite A in E1. injection E1 as <-.
    apply G; [|exact S1]. apply py_map_update_entries; auto. discriminate.
  - pose proof (map_set_agree kt vt k v Hk Hc l Hl Sp) as A. split; [exact A|].
    destruct (v_map_set_sorted (erase k) (erase v) (map erase l) Sp D En) as (l1 & E1 & S1 & _). rewrite A in E1. injection E1 as <-.
    apply G; [|exact S1]. apply py_map_update_entries; auto. intros v0 Q. injection Q as <-. exact Hv.
Qed.

(* ---- literals, sets and maps included: from_micheline_value accepts exactly the sorted literals and builds typed values ---- *)
Lemma py_of_data_typed_wf d : forall t, data_has_type t d = true -> wf_ty t = true ->
  exists v, py_of_data t d = Some v /\ typed v t /\ erase v = value_of_data d.
Proof.
  induction d as [z|z|s|s|b| |x y IHx IHy| |x IHx|x IHx|x IHx|l IHl|l IHl|l IHl] using data_ind';
    intros [] Ht Hn; simpl in Ht; try discriminate; simpl in Hn; simpl.
  - eexists; repeat split.
  - apply Z.leb_le in Ht. destruct (z <? 0)%Z eqn:E; [apply Z.ltb_lt in E; lia|].
    eexists; repeat split. unfold typed. simpl. apply Z.leb_le. assumption.
  - eexists; repeat split.
  - apply andb_prop in Ht as [H1 H2]. pose proof H1 as H1'. apply Z.leb_le in H1'.
    destruct (z <? 0)%Z eqn:E; [apply Z.ltb_lt in E; lia|]. rewrite H2.
    eexists; repeat split. unfold typed. simpl. rewrite H1, H2. reflexivity.
  - eexists; repeat split.
  - eexists; repeat split.
  - eexists; repeat split.
  - eexists; repeat split.
  - apply andb_prop in Ht as [H1 H2]. apply andb_prop in Hn as [N1 N2].
    destruct (IHx _ H1 N1) as (v1 & E1 & T1 & R1). destruct (IHy _ H2 N2) as (v2 & E2 & T2 & R2).
    rewrite E1, E2. eexists; repeat split; simpl; [unfold typed in *; simpl; rewrite T1, T2; reflexivity | congruence].
  - eexists; repeat split. unfold typed. simpl. apply ty_eqb_refl.
  - destruct (IHx _ Ht Hn) as (v & E & T & R). rewrite E. simpl. eexists; repeat split; simpl; [exact T | congruence].
  - apply andb_prop in Hn as [N1 N2]. destruct (IHx _ Ht N1) as (v & E & T & R). rewrite E. simpl. eexists; repeat split; simpl.
    + unfold typed in *. simpl. rewrite T, ty_eqb_refl. reflexivity.
    + congruence.
  - apply andb_prop in Hn as [N1 N2]. destruct (IHx _ Ht N2) as (v & E & T & R). rewrite E. simpl. eexists; repeat split; simpl.
    + unfold typed in *. simpl. rewrite T, ty_eqb_refl. reflexivity.
    + congruence.
  - (* lists *)
    assert (G : exists vs,
      (fix go (l0 : list data) : option (list pval) :=
         match l0 with
         | [] => Some []
         | x :: r => match py_of_data a x with
                     | Some u => match go r with Some us => Some (u :: us) | None => None end
                     | None => None
                     end
         end) l = Some vs /\ Forall (fun x => typed x a) vs /\ map erase vs = map value_of_data l).
    { induction l as [|x r IHr]; [exists []; auto|].
      simpl in Ht. apply andb_prop in Ht as [Hx Hr]. inversion IHl as [|? ? Px Pr]; subst.
      destruct (Px _ Hx Hn) as (v & E & T & R). destruct (IHr Pr Hr) as (vs & Es & Ts & Rs).
      rewrite E, Es. exists (v :: vs). repeat split; simpl; [constructor; assumption | congruence]. }
    destruct G as (vs & Es & Ts & Rs). rewrite Es. simpl. eexists; repeat split; simpl; [apply typed_list_intro; exact Ts | congruence].
  - (* sets *)
    apply andb_prop in Ht as [Ht Hsorted]. apply andb_prop in Hn as [Hc Hw].
    assert (G : exists vs,
      (fix go (l0 : list data) : option (list pval) :=
         match l0 with
         | [] => Some []
         | x :: r => match py_of_data k x with
                     | Some u => match go r with Some us => Some (u :: us) | None => None end
                     | None => None
                     end
         end) l = Some vs /\ Forall (fun x => typed x k) vs /\ map erase vs = map value_of_data l).
    { clear Hsorted. induction l as [|x r IHr]; [exists []; auto|].
      simpl in Ht. apply andb_prop in Ht as [Hx Hr]. inversion IHl as [|? ? Px Pr]; subst.
      destruct (Px _ Hx Hw) as (v & E & T & R). destruct (IHr Pr Hr) as (vs & Es & Ts & Rs).
      rewrite E, Es. exists (v :: vs). repeat split; simpl; [constructor; assumption | congruence]. }
    destruct G as (vs & Es & Ts & Rs). rewrite Es. rewrite (sorted_transfer k vs Ts Hc), Rs, Hsorted.
    eexists; repeat split; simpl; [|congruence].
    unfold typed. simpl. rewrite ty_eqb_refl, (sorted_transfer k vs Ts Hc), Rs, Hsorted. simpl. rewrite andb_true_r.
    apply forallb_forall. intros z Hz. rewrite Forall_forall in Ts. apply Ts. exact Hz.
  - (* maps *)
    apply andb_prop in Ht as [Ht Hsorted]. apply andb_prop in Hn as [Hn Hwv]. apply andb_prop in Hn as [Hc Hwk].
    assert (G : exists vs,
      (fix go (l0 : list data) : option (list pval) :=
         match l0 with
         | [] => Some []
         | DPair k0 v0 :: r => match py_of_data k k0, py_of_data v v0, go r with
                             | Some pk, Some pv, Some us => Some (PPair pk pv :: us)
                             | _, _, _ => None
                             end
         | _ :: _ => None
         end) l = Some vs /\ Forall (entry_typed k v) vs /\ map erase vs = map value_of_data l).
    { clear Hsorted. induction l as [|x r IHr]; [exists []; auto|].
      simpl in Ht. apply andb_prop in Ht as [Hx Hr]. inversion IHl as [|? ? Px Pr]; subst.
      destruct x; try discriminate Hx.
      assert (Hw : wf_ty (TPair k v) = true) by (simpl; rewrite Hwk, Hwv; reflexivity).
      destruct (Px (TPair k v) Hx Hw) as (pv & E & T & R). simpl in E.
      destruct (py_of_data k x1) as [pk|]; [|discriminate E]. destruct (py_of_data v x2) as [pw|]; [|discriminate E].
      injection E as <-. destruct (IHr Pr Hr) as (vs & Es & Ts & Rs). rewrite Es.
      exists (PPair pk pw :: vs). repeat split; simpl; [|simpl in R; congruence].
      constructor; [|exact Ts]. apply typed_pair_inv in T as (a1 & a2 & Q & T1 & T2). injection Q as <- <-. exists pk, pw. auto. }
    destruct G as (vs & Es & Ts & Rs). rewrite Es.
    destruct (entries_facts k v vs Ts) as (Ek & Tk & _).
    assert (Hs : py_strict_sorted (map py_key vs) = true).
    { rewrite (sorted_transfer k _ Tk Hc), Ek, Rs. rewrite map_map. exact Hsorted. }
    rewrite Hs. eexists; repeat split; simpl; [|congruence].
    unfold typed. simpl. rewrite !ty_eqb_refl, Hs. simpl. rewrite andb_true_r.
    apply forallb_forall. intros z Hz. rewrite Forall_forall in Ts. destruct (Ts z Hz) as (k' & v' & -> & H1 & H2).
    unfold typed in H1, H2. rewrite H1, H2. reflexivity.
Qed.

(* value.to_literal() / the reference's literal of a value: the same well-typed literal (APPLY), sets and maps included *)
Lemma data_of_pval_ok v : forall t, typed v t -> has_literal t = true -> wf_ty t = true ->
  exists d, data_of_pval v = Some d /\ data_of_value t (erase v) = Some d /\ data_has_type t d = true /\ value_of_data d = erase v.
Proof.
  induction v as [z|z|z|z|s|s|s|s|b0| |x y IHx IHy|t0|x IHx|x t0 IHx|t0 x IHx|t0 l IHl|t0 l IHl|kt vt l IHl|ta tb body] using pval_ind';
    intros t Ht Hl Hc; pose proof Ht as Ht0; unfold typed in Ht; destruct t; simpl in Ht; try discriminate Ht;
    simpl in Hl; try discriminate Hl; simpl in Hc; simpl.
  - eexists; repeat split.
  - eexists; repeat split. exact Ht.
  - eexists; repeat split. exact Ht.
  - eexists; repeat split.
  - eexists; repeat split.
  - eexists; repeat split.
  - eexists; repeat split.
  - eexists; repeat split.
  - apply andb_prop in Ht as [H1 H2]. apply andb_prop in Hl as [L1 L2]. apply andb_prop in Hc as [C1 C2].
    destruct (IHx _ H1 L1 C1) as (d1 & E1 & V1 & T1 & R1). destruct (IHy _ H2 L2 C2) as (d2 & E2 & V2 & T2 & R2).
    rewrite E1, E2, V1, V2. eexists; repeat split; simpl; [rewrite T1, T2; reflexivity | congruence].
  - eexists; repeat split.
  - destruct (IHx _ Ht Hl Hc) as (d & E & V & T & R). rewrite E, V. simpl. eexists; repeat split; [exact T | simpl; congruence].
  - apply andb_prop in Ht as [H1 H2]. apply andb_prop in Hl as [L1 L2]. apply andb_prop in Hc as [C1 C2].
    destruct (IHx _ H1 L1 C1) as (d & E & V & T & R). rewrite E, V. simpl. eexists; repeat split; [exact T | simpl; congruence].
  - apply andb_prop in Ht as [H1 H2]. apply andb_prop in Hl as [L1 L2]. apply andb_prop in Hc as [C1 C2].
    destruct (IHx _ H2 L2 C2) as (d & E & V & T & R). rewrite E, V. simpl. eexists; repeat split; [exact T | simpl; congruence].
  - (* lists *) apply andb_prop in Ht as [H1 H2].
    assert (G : exists ds,
      (fix go (l0 : list pval) : option (list data) :=
         match l0 with
         | [] => Some []
         | x :: r => match data_of_pval x with
                     | Some d => match go r with Some ds => Some (d :: ds) | None => None end
                     | None => None
                     end
         end) l = Some ds /\
      (fix go (l0 : list value) : option (list data) :=
         match l0 with
         | [] => Some []
         | x :: r => match data_of_value t x with
                     | Some d => match go r with Some ds => Some (d :: ds) | None => None end
                     | None => None
                     end
         end) (map erase l) = Some ds /\ forallb (data_has_type t) ds = true /\ map value_of_data ds = map erase l).
    { clear H1 Ht0. induction l as [|x r IHr]; [exists []; auto|].
      simpl in H2. apply andb_prop in H2 as [Hx Hr]. inversion IHl as [|? ? Px Pr]; subst.
      destruct (Px _ Hx Hl Hc) as (d & E & V & T & R). destruct (IHr Pr Hr) as (ds & Es & Vs & Ts & Rs).
      simpl. rewrite E, V, Es, Vs. exists (d :: ds). repeat split; simpl; [rewrite T, Ts; reflexivity | congruence]. }
    destruct G as (ds & Es & Vs & Ts & Rs). rewrite Es, Vs. simpl. eexists; repeat split; [exact Ts | simpl; congruence].
  - (* sets *) apply andb_prop in Ht as [Ht Hsorted]. apply andb_prop in Ht as [H1 H2]. apply andb_prop in Hc as [Cc Cw].
    apply typed_set_inv in Ht0 as (l0 & Q & Tl). injection Q as -> <-.
    assert (G : exists ds,
      (fix go (l0 : list pval) : option (list data) :=
         match l0 with
         | [] => Some []
         | x :: r => match data_of_pval x with
                     | Some d => match go r with Some ds => Some (d :: ds) | None => None end
                     | None => None
                     end
         end) l = Some ds /\
      (fix go (l0 : list value) : option (list data) :=
         match l0 with
         | [] => Some []
         | x :: r => match data_of_value t x with
                     | Some d => match go r with Some ds => Some (d :: ds) | None => None end
                     | None => None
                     end
         end) (map erase l) = Some ds /\ forallb (data_has_type t) ds = true /\ map value_of_data ds = map erase l).
    { clear H1 Hsorted Tl. induction l as [|x r IHr]; [exists []; auto|].
      simpl in H2. apply andb_prop in H2 as [Hx Hr]. inversion IHl as [|? ? Px Pr]; subst.
      destruct (Px _ Hx Hl Cw) as (d & E & V & T & R). destruct (IHr Pr Hr) as (ds & Es & Vs & Ts & Rs).
      simpl. rewrite E, V, Es, Vs. exists (d :: ds). repeat split; simpl; [rewrite T, Ts; reflexivity | congruence]. }
    destruct G as (ds & Es & Vs & Ts & Rs). rewrite Es, Vs. simpl. eexists; repeat split; [|simpl; congruence].
    simpl. rewrite Ts, Rs. rewrite <- (sorted_transfer t l Tl Cc). exact Hsorted.
  - (* maps *) apply andb_prop in Ht as [Ht Hsorted]. apply andb_prop in Ht as [Ht H3]. apply andb_prop in Ht as [H1 H2].
    apply andb_prop in Hl as [L1 L2]. apply andb_prop in Hc as [Hc Cwv]. apply andb_prop in Hc as [Cc Cwk].
    apply typed_map_inv in Ht0 as (l0 & Q & Tl). injection Q as -> -> <-.
    destruct (entries_facts t1 t2 l Tl) as (Ek & Tk & _).
    assert (G : exists ds,
      (fix go (l0 : list pval) : option (list data) :=
         match l0 with
         | [] => Some []
         | x :: r => match data_of_pval x with
                     | Some d => match go r with Some ds => Some (d :: ds) | None => None end
                     | None => None
                     end
         end) l = Some ds /\
      (fix go (l0 : list value) : option (list data) :=
         match l0 with
         | [] => Some []
         | VPair k0 x :: r => match data_of_value t1 k0, data_of_value t2 x, go r with
                             | Some dk, Some dx, Some ds => Some (DPair dk dx :: ds)
                             | _, _, _ => None
                             end
         | _ :: _ => None
         end) (map erase l) = Some ds /\
      forallb (fun x => match x with DPair k0 v0 => data_has_type t1 k0 && data_has_type t2 v0 | _ => false end) ds = true /\
      map value_of_data ds = map erase l).
    { clear H1 H2 H3 Hsorted Ek Tk. induction Tl as [|x r (ek & ew & -> & Hk & Hw) Tr IHr]; [exists []; auto|].
      inversion IHl as [|? ? Px Pr]; subst.
      assert (Hp : typed (PPair ek ew) (TPair t1 t2)) by (unfold typed in *; simpl; rewrite Hk, Hw; reflexivity).
      assert (Lp : has_literal (TPair t1 t2) = true) by (simpl; rewrite L1, L2; reflexivity).
      assert (Wp : wf_ty (TPair t1 t2) = true) by (simpl; rewrite Cwk, Cwv; reflexivity).
      destruct (Px _ Hp Lp Wp) as (d & E & V & T & R). destruct (IHr Pr) as (ds & Es & Vs & Ts & Rs).
      simpl in E, V, R. simpl.
      destruct (data_of_pval ek) as [dk|]; [|discriminate E]. destruct (data_of_pval ew) as [dw|]; [|discriminate E].
      injection E as <-. destruct (data_of_value t1 (erase ek)) as [dk'|]; [|discriminate V].
      destruct (data_of_value t2 (erase ew)) as [dw'|]; [|discriminate V]. injection V as -> ->.
      rewrite Es, Vs. exists (DPair dk dw :: ds). simpl in T. repeat split; simpl; [rewrite T, Ts; reflexivity | simpl in R; congruence]. }
    destruct G as (ds & Es & Vs & Ts & Rs). rewrite Es, Vs. simpl. eexists; repeat split; [|simpl; congruence].
    simpl. rewrite Ts. simpl. rewrite <- (map_map value_of_data v_key), Rs, <- Ek. rewrite <- (sorted_transfer t1 _ Tk Cc). exact Hsorted.
Qed.

(* ------------------------------------------------------------------------------------------ *)
(* instructions without sub-programs: the pytezos step agrees with the reference rule          *)
(* ------------------------------------------------------------------------------------------ *)

Definition styped (vis : list pval) (s : sty) : Prop := Forall2 typed vis s.

Lemma split_at_app {A} (a b : list A) n : length a = n -> skipn n (a ++ b) = b /\ firstn n (a ++ b) = a.
Proof.
  intros <-. split.
  - rewrite skipn_app, skipn_all, Nat.sub_diag. reflexivity.
  - rewrite firstn_app, firstn_all, Nat.sub_diag. simpl. apply app_nil_r.
Qed.

Lemma styped_split n vis s : styped vis s -> n <= length s ->
  exists a b, vis = a ++ b /\ length a = n /\ styped a (firstn n s) /\ styped b (skipn n s).
Proof.
  intros H L. exists (firstn n vis), (skipn n vis). pose proof (Forall2_length' _ _ _ H) as E.
  rewrite firstn_skipn, firstn_length, Nat.min_l by lia. repeat split; auto.
  - apply Forall2_firstn. assumption.
  - apply Forall2_skipn. assumption.
Qed.

Ltac tc_cases H :=
  repeat match type of H with
         | context [match ?x with _ => _ end] => destruct x eqn:?; try discriminate H
         end.

Ltac inv_f2 :=
  repeat match goal with
         | H : Forall2 typed _ (_ :: _) |- _ => inversion H; subst; clear H
         end.

Ltac inv_ty :=
  repeat match goal with
         | H : typed _ TInt |- _ => apply typed_int_inv in H as [? ->]
         | H : typed _ TNat |- _ => apply typed_nat_inv in H as (? & -> & ?)
         | H : typed _ TString |- _ => apply typed_string_inv in H as [? ->]
         | H : typed _ TMutez |- _ => apply typed_mutez_inv in H as (? & -> & ?)
         | H : typed _ TTimestamp |- _ => apply typed_timestamp_inv in H as [? ->]
         | H : typed _ TBytes |- _ => apply typed_bytes_inv in H as [? ->]
         | H : typed _ TBool |- _ => apply typed_bool_inv in H as [? ->]
         | H : typed _ (TPair _ _) |- _ => apply typed_pair_inv in H as (? & ? & -> & ? & ?)
         | H : typed _ (TList _) |- _ => apply typed_list_inv' in H as (? & -> & ?)
         | H : typed _ (TSet _) |- _ => apply typed_set_inv in H as (? & -> & ?)
         | H : typed _ (TMap _ _) |- _ => apply typed_map_inv in H as (? & -> & ?)
         end.

Ltac give_args :=
  match goal with
  | |- exists args rest, ?v = args ++ rest /\ length args = 0 /\ _ => exists [], v
  | |- exists args rest, ?a :: ?v = args ++ rest /\ length args = 1 /\ _ => exists [a], v
  | |- exists args rest, ?a :: ?b :: ?v = args ++ rest /\ length args = 2 /\ _ => exists [a; b], v
  | |- exists args rest, ?a :: ?b :: ?c :: ?v = args ++ rest /\ length args = 3 /\ _ => exists [a; b; c], v
  end; split; [reflexivity | split; [reflexivity|]].

Ltac solve_typed :=
  unfold typed in *; simpl; rewrite ?ty_eqb_refl;
  repeat match goal with H : pv_typedb _ _ = true |- _ => rewrite H; clear H end;
  simpl; try reflexivity; try (apply Z.leb_le; lia).

Ltac finish :=
  eexists; split; [reflexivity | split; [reflexivity | (constructor; [solve_typed | assumption])]].

Lemma nat_from_ok z : (0 <= z)%Z -> nat_from z = Some (PNat z).
Proof. intros H. unfold nat_from. destruct (z <? 0)%Z eqn:E; [apply Z.ltb_lt in E; lia | reflexivity]. Qed.

Lemma typed_nat_intro z : (0 <= z)%Z -> typed (PNat z) TNat.
Proof. intros H. unfold typed. simpl. apply Z.leb_le. assumption. Qed.

Lemma mutez_from_ok z : (0 <= z < mutez_bound)%Z -> mutez_from z = Some (PMutez z).
Proof.
  intros [H1 H2]. unfold mutez_from. destruct (z <? 0)%Z eqn:E; [apply Z.ltb_lt in E; lia|].
  destruct (z <? mutez_bound)%Z eqn:E2; [reflexivity | apply Z.ltb_ge in E2; lia].
Qed.

Lemma typed_mutez_intro z : (0 <= z < mutez_bound)%Z -> typed (PMutez z) TMutez.
Proof. intros [H1 H2]. unfold typed. simpl. apply andb_true_intro. split; [apply Z.leb_le | apply Z.ltb_lt]; assumption. Qed.

Lemma env_facts : (0 <= e_amount e < mutez_bound /\ 0 <= e_balance e < mutez_bound /\ 0 <= e_level e)%Z.
Proof.
  pose proof He as H. unfold env_okb in H. repeat (apply andb_prop in H as [H ?]).
  repeat split; try (apply Z.leb_le; assumption); try (apply Z.ltb_lt; assumption).
Qed.

Lemma zcmp_agree i z : py_zcmp i z = zcmp i z.
Proof. destruct i; simpl; try reflexivity; try apply Z.gtb_ltb; apply Z.geb_leb. Qed.

Lemma simple_agree i k fn s s1 vis :
  py_simple e i = Some (k, fn) -> tc_simple true i s = Some s1 -> styped vis s ->
  exists args rest, vis = args ++ rest /\ length args = k /\
    match ref_simple e i (map erase vis) with
    | Done r => exists outs, fn args = POk outs /\ map erase (outs ++ rest) = r /\ styped (outs ++ rest) s1
    | RtError => fn args = PErr
    | _ => False
    end.
Proof.
  unfold styped. intros Hpy Htc Hs.
  destruct i; simpl in Hpy; try discriminate Hpy; injection Hpy as <- <-;
    first [ match type of Htc with
            | tc_simple _ (I_PAIRN _) _ = _ => cbn [tc_simple] in Htc
            | tc_simple _ (I_UNPAIRN _) _ = _ => cbn [tc_simple] in Htc
            | tc_simple _ (I_GETN _) _ = _ => cbn [tc_simple] in Htc
            | tc_simple _ (I_UPDATEN _) _ = _ => cbn [tc_simple] in Htc
            end
          | simpl in Htc ].
  - (* SWAP *) tc_cases Htc. injection Htc as <-. inv_f2. give_args. simpl.
    eexists; split; [reflexivity | split; [reflexivity | repeat constructor; assumption]].
  - (* PUSH *) tc_cases Htc. injection Htc as <-. give_args. simpl.
    apply andb_prop in Heqb as [Hd Hn].
    destruct (py_of_data_typed_wf d t Hd Hn) as (v & E & T & R). rewrite E.
    eexists; split; [reflexivity | split; [simpl; rewrite R; reflexivity | constructor; assumption]].
  - (* PAIR *) tc_cases Htc. injection Htc as <-. inv_f2. give_args. simpl. finish.
  - (* UNPAIR *) tc_cases Htc. injection Htc as <-. inv_f2. inv_ty. give_args. simpl.
    eexists; split; [reflexivity | split; [reflexivity | repeat constructor; assumption]].
  - (* CAR *) tc_cases Htc. injection Htc as <-. inv_f2. inv_ty. give_args. simpl.
    eexists; split; [reflexivity | split; [reflexivity | repeat constructor; assumption]].
  - (* CDR *) tc_cases Htc. injection Htc as <-. inv_f2. inv_ty. give_args. simpl.
    eexists; split; [reflexivity | split; [reflexivity | repeat constructor; assumption]].
  - (* PAIR n *)
    destruct ((2 <=? n) && (n <=? length s)) eqn:En; [|discriminate]. apply andb_prop in En as [En2 Enl].
    apply Nat.leb_le in En2. apply Nat.leb_le in Enl.
    destruct (ty_comb (firstn n s)) as [t|] eqn:Ec; [|discriminate]. injection Htc as <-.
    destruct (styped_split n vis s Hs Enl) as (a & b & -> & La & Ta & Tb).
    exists a, b. split; [reflexivity | split; [assumption|]].
    assert (Hne : a <> []) by (destruct a; simpl in La; [lia | discriminate]).
    destruct (comb_agree a _ Ta Hne) as (v & t' & E1 & E2 & T & E3). rewrite Ec in E2. injection E2 as <-.
    cbn [ref_simple]. rewrite map_length, app_length.
    replace ((2 <=? n) && (n <=? length a + length b)) with true
      by (symmetry; apply andb_true_intro; split; apply Nat.leb_le; lia).
    rewrite map_app. destruct (split_at_app (map erase a) (map erase b) n) as [Esk Efi]; [rewrite map_length; assumption|].
    rewrite Esk, Efi, E3. destruct n as [|[|m]]; [lia | lia |]. rewrite E1.
    eexists; split; [reflexivity | split; [reflexivity | constructor; assumption]].
  - (* UNPAIR n *)
    destruct s as [|t r]; [discriminate|]. destruct (2 <=? n) eqn:En; [|discriminate]. apply Nat.leb_le in En.
    destruct n as [|[|m]]; try lia. destruct (ty_uncomb (S (S m)) t) as [ts|] eqn:Eu; [|discriminate]. injection Htc as <-.
    inversion Hs as [|v ? rest ? Hv Hr]; subst.
    destruct t; try discriminate Eu. apply typed_pair_inv in Hv as Hv'. destruct Hv' as (x & y & -> & _ & _).
    destruct (uncomb_agree m x y _ _ _ Eu Hv) as [T R].
    exists [PPair x y], rest. split; [reflexivity | split; [reflexivity|]].
    cbn [ref_simple map]. cbn [Nat.leb]. rewrite R.
    exists (py_unpairn m (PPair x y)). split; [cbn [Nat.leb Nat.sub]; rewrite Nat.sub_0_r; reflexivity|].
    split; [rewrite map_app; reflexivity | apply Forall2_app; assumption].
  - (* GET k *)
    destruct s as [|[] r]; try discriminate. destruct (ty_get_n k0 (TPair a b)) as [t'|] eqn:Eg; [|discriminate].
    injection Htc as <-. inversion Hs as [|v ? rest ? Hv Hr]; subst.
    destruct (get_n_agree k0 _ _ _ Eg Hv) as (w & E1 & T & R).
    apply typed_pair_inv in Hv as Hv'. destruct Hv' as (x & y & -> & _ & _).
    exists [PPair x y], rest. split; [reflexivity | split; [reflexivity|]].
    cbn [ref_simple map]. rewrite R, E1.
    eexists; split; [reflexivity | split; [reflexivity | constructor; assumption]].
  - (* UPDATE k *)
    destruct s as [|tx [|[] r]]; try discriminate. destruct (ty_update_n k0 tx (TPair a b)) as [t'|] eqn:Eg; [|discriminate].
    injection Htc as <-. inversion Hs as [|el ? rest0 ? Hel Hr0]; subst. inversion Hr0 as [|v ? rest ? Hv Hr]; subst.
    destruct (update_n_agree k0 _ _ _ _ _ Eg Hel Hv) as (w & E1 & T & R).
    apply typed_pair_inv in Hv as Hv'. destruct Hv' as (x & y & -> & _ & _).
    exists [el; PPair x y], rest. split; [reflexivity | split; [reflexivity|]].
    cbn [ref_simple map]. rewrite R, (py_update_comb_structural _ _ _ _ E1).
    eexists; split; [reflexivity | split; [reflexivity | constructor; assumption]].
  - (* LEFT *) tc_cases Htc. injection Htc as <-. inv_f2. give_args. simpl. finish.
  - (* RIGHT *) tc_cases Htc. injection Htc as <-. inv_f2. give_args. simpl. finish.
  - (* SOME *) tc_cases Htc. injection Htc as <-. inv_f2. give_args. simpl. finish.
  - (* NONE *) injection Htc as <-. give_args. simpl. finish.
  - (* UNIT *) injection Htc as <-. give_args. simpl. finish.
  - (* NIL *) injection Htc as <-. give_args. simpl. finish.
  - (* CONS *) tc_cases Htc. injection Htc as <-. apply ty_eqb_eq in Heqb. subst. inv_f2.
    match goal with H : typed _ (TList _) |- _ => apply typed_list_inv' in H as (l0 & -> & Hl) end.
    give_args. simpl.
    match goal with H : typed ?x ?a |- _ => rewrite (typed_rt_type x a H), ty_eqb_refl; pose proof H as Hx end.
    eexists; split; [reflexivity | split; [reflexivity | constructor; [|assumption]]].
    apply typed_list_intro. constructor; assumption.
  - (* SIZE *) tc_cases Htc; injection Htc as <-; inv_f2; inv_ty; give_args; simpl;
      (eexists; split; [reflexivity | split; [simpl; rewrite ?map_length; reflexivity | constructor; [apply typed_nat_intro; lia | assumption]]]).
  - (* EMPTY_SET *) tc_cases Htc. injection Htc as <-. give_args. simpl. finish.
  - (* EMPTY_MAP *) tc_cases Htc. injection Htc as <-. give_args. simpl. finish.
  - (* MEM *) tc_cases Htc; injection Htc as <-;
      match goal with H : (_ && _) = true |- _ => apply andb_prop in H as [Q1 Q2]; apply ty_eqb_eq in Q1; subst end; inv_f2.
    + match goal with H : typed _ (TSet _) |- _ => apply typed_set_inv in H as (l0 & -> & Hl0) end. give_args. simpl.
      match goal with Hx : typed ?x ?t |- _ => rewrite (typed_rt_type x t Hx), ty_eqb_refl, (set_mem_agree x l0 t Hx Hl0 Q2) end.
      eexists; split; [reflexivity | split; [reflexivity | constructor; [reflexivity | assumption]]].
    + match goal with H : typed _ (TMap _ _) |- _ => apply typed_map_inv in H as (l0 & -> & Hl0) end. give_args. simpl.
      match goal with Hx : typed ?x ?t |- _ =>
        rewrite (typed_rt_type x t Hx), ty_eqb_refl; rewrite (map_get_agree x l0 t _ Hx Hl0 Q2) end.
      match goal with |- context [py_map_get ?x ?l] => destruct (py_map_get x l) end; simpl;
        (eexists; split; [reflexivity | split; [reflexivity | constructor; [reflexivity | assumption]]]).
  - (* GET *) tc_cases Htc; injection Htc as <-;
      match goal with H : (_ && _) = true |- _ => apply andb_prop in H as [Q1 Q2]; apply ty_eqb_eq in Q1; subst end; inv_f2.
    match goal with H : typed _ (TMap _ _) |- _ => apply typed_map_inv in H as (l0 & -> & Hl0) end. give_args. simpl.
    match goal with Hx : typed ?x ?t |- _ =>
      rewrite (typed_rt_type x t Hx), ty_eqb_refl; rewrite (map_get_agree x l0 t _ Hx Hl0 Q2) end.
    match type of Hl0 with Forall (entry_typed _ ?vt) _ => assert (Hg : forall k v, py_map_get k l0 = Some v -> typed v vt) end.
    { clear - Hl0. intros k. induction Hl0 as [|y l Hy Hl IH]; simpl; [discriminate|].
      destruct Hy as (k' & v' & -> & _ & Hv). destruct (py_eq k' k); [intros v E; injection E as <-; exact Hv | exact IH]. }
    match goal with |- context [py_map_get ?x ?l] => destruct (py_map_get x l) as [v|] eqn:Eg end; simpl.
    + eexists; split; [reflexivity | split; [reflexivity | constructor; [apply (Hg _ _ Eg) | assumption]]].
    + eexists; split; [reflexivity | split; [reflexivity | constructor; [unfold typed; simpl; apply ty_eqb_refl | assumption]]].
  - (* UPDATE *) tc_cases Htc; injection Htc as <-.
    + match goal with H : (_ && _) = true |- _ => apply andb_prop in H as [Q1 Q2]; apply ty_eqb_eq in Q1; subst end. inv_f2.
      match goal with H : typed _ TBool |- _ => apply typed_bool_inv in H as [bb ->] end.
      match goal with H : typed _ (TSet _) |- _ => pose proof H as Hset; apply typed_set_inv in H as (l1 & -> & Hl1) end.
      give_args. simpl.
      match goal with Hx : typed ?x ?t, Hs' : typed (PSet ?t l1) _ |- _ =>
        destruct (set_update_agree t x bb l1 Hx Q2 Hs') as [A T]; rewrite (typed_rt_type x t Hx), ty_eqb_refl end.
      destruct bb; simpl in A |- *; rewrite A;
        (eexists; split; [reflexivity | split; [reflexivity | constructor; [exact T | assumption]]]).
    + match goal with H : (_ && _ && _) = true |- _ => apply andb_prop in H as [Q1 Q3]; apply andb_prop in Q1 as [Q1 Q2];
        apply ty_eqb_eq in Q1; apply ty_eqb_eq in Q2; subst end. inv_f2.
      match goal with H : typed _ (TMap _ _) |- _ => pose proof H as Hmap; apply typed_map_inv in H as (l1 & -> & Hl1) end.
      match goal with Hx : typed ?x ?kt, Ho : typed ?ov (TOption ?vt), Hm : typed (PMap ?kt ?vt l1) _ |- _ =>
        destruct (map_update_agree kt vt x ov l1 Hx Q3 Ho Hm) as [A T]; pose proof (typed_rt_type x kt Hx) as Rx;
        apply typed_option_inv in Ho as [-> | (v0 & -> & Hv0)] end;
      give_args; simpl in A |- *; rewrite A, Rx, ty_eqb_refl;
        (eexists; split; [reflexivity | split; [reflexivity | constructor; [exact T | assumption]]]).
  - (* GET_AND_UPDATE *) tc_cases Htc; injection Htc as <-.
    match goal with H : (_ && _ && _) = true |- _ => apply andb_prop in H as [Q1 Q3]; apply andb_prop in Q1 as [Q1 Q2];
      apply ty_eqb_eq in Q1; apply ty_eqb_eq in Q2; subst end. inv_f2.
    match goal with H : typed _ (TMap _ _) |- _ => pose proof H as Hmap; apply typed_map_inv in H as (l1 & -> & Hl1) end.
    match goal with Hx : typed ?x ?kt, Ho : typed ?ov (TOption ?vt), Hm : typed (PMap ?kt ?vt l1) _ |- _ =>
      destruct (map_update_agree kt vt x ov l1 Hx Q3 Ho Hm) as [A T]; pose proof (typed_rt_type x kt Hx) as Rx;
      pose proof (map_get_agree x l1 kt vt Hx Hl1 Q3) as Gt;
      assert (Hg : typed (py_opt vt (py_map_get x l1)) (TOption vt));
      [ clear - Hl1; induction Hl1 as [|y l (k' & v' & -> & _ & Hv) Hl IH]; simpl;
        [unfold typed; simpl; apply ty_eqb_refl | destruct (py_eq k' x); [exact Hv | exact IH]] |];
      apply typed_option_inv in Ho as [-> | (v0 & -> & Hv0)] end;
    give_args; simpl in A |- *; rewrite A, Gt, Rx, ty_eqb_refl;
      (eexists; split; [reflexivity | split; [simpl; destruct (py_map_get _ l1); reflexivity | constructor; [exact Hg | constructor; [exact T | assumption]]]]).
  - (* ADD *) unfold add_ty in Htc. tc_cases Htc; injection Htc as <-; inv_f2; inv_ty; give_args; simpl; unfold py_arith; simpl;
      try ((rewrite ?nat_from_ok by lia);
           solve [eexists; split; [reflexivity | split; [reflexivity | constructor; [try (apply typed_nat_intro; lia); reflexivity | assumption]]]]).
    (* mutez + mutez: bounded *)
    unfold mutez_result, mutez_from.
    match goal with |- context [(?z <? 0)%Z] => replace (z <? 0)%Z with false by (symmetry; apply Z.ltb_ge; lia) end.
    match goal with |- context [(?z <? mutez_bound)%Z] => destruct (z <? mutez_bound)%Z eqn:Eov end; [|reflexivity].
    apply Z.ltb_lt in Eov.
    eexists; split; [reflexivity | split; [reflexivity | constructor; [apply typed_mutez_intro; lia | assumption]]].
  - (* SUB *) destruct s as [|a [|b r]]; try discriminate Htc. destruct a, b; try discriminate Htc; injection Htc as <-; inv_f2; inv_ty; give_args; simpl;
      unfold py_arith; simpl;
      (eexists; split; [reflexivity | split; [reflexivity | constructor; [reflexivity | assumption]]]).
  - (* MUL *) unfold mul_ty in Htc. tc_cases Htc; injection Htc as <-; inv_f2; inv_ty; give_args; simpl; unfold py_arith; simpl;
      try ((rewrite ?nat_from_ok by nia);
           solve [eexists; split; [reflexivity | split; [reflexivity | constructor; [try (apply typed_nat_intro; nia); reflexivity | assumption]]]]).
    (* mutez * nat, nat * mutez *)
    all: unfold mutez_result, mutez_from;
      match goal with |- context [(?z <? 0)%Z] => replace (z <? 0)%Z with false by (symmetry; apply Z.ltb_ge; apply Z.mul_nonneg_nonneg; lia) end;
      match goal with |- context [(?z <? mutez_bound)%Z] => destruct (z <? mutez_bound)%Z eqn:Eov end; [|reflexivity];
      apply Z.ltb_lt in Eov;
      (eexists; split; [reflexivity | split; [reflexivity | constructor; [apply typed_mutez_intro; split; [apply Z.mul_nonneg_nonneg; lia | assumption] | assumption]]]).
  - (* NEG *) destruct s as [|a r]; try discriminate Htc. destruct a; try discriminate Htc; injection Htc as <-; inv_f2; inv_ty; give_args; simpl;
      (eexists; split; [reflexivity | split; [reflexivity | constructor; [reflexivity | assumption]]]).
  - (* ABS *) tc_cases Htc. injection Htc as <-. inv_f2. inv_ty. give_args. simpl.
    rewrite nat_from_ok by lia.
    eexists; split; [reflexivity | split; [reflexivity | constructor; [apply typed_nat_intro; lia | assumption]]].
  - (* ISNAT *) tc_cases Htc. injection Htc as <-. inv_f2. inv_ty. give_args. simpl.
    rewrite Z.geb_leb. match goal with |- context [(0 <=? ?x)%Z] => destruct (0 <=? x)%Z eqn:E end.
    + apply Z.leb_le in E. rewrite nat_from_ok by lia.
      eexists; split; [reflexivity | split; [reflexivity | constructor; [solve_typed | assumption]]].
    + eexists; split; [reflexivity | split; [reflexivity | constructor; [reflexivity | assumption]]].
  - (* INT *) tc_cases Htc. injection Htc as <-. inv_f2. inv_ty. give_args. simpl.
    eexists; split; [reflexivity | split; [reflexivity | constructor; [reflexivity | assumption]]].
  - (* EDIV *) unfold ediv_ty in Htc. tc_cases Htc; injection Htc as <-; inv_f2; inv_ty; give_args; simpl;
      unfold py_ediv, ref_ediv, ref_ediv_mutez_nat, ref_ediv_mutez_mutez; simpl;
      match goal with |- context [(?y =? 0)%Z] => destruct (y =? 0)%Z eqn:E end;
      try (eexists; split; [reflexivity | split; [reflexivity | constructor; [reflexivity | assumption]]]);
      apply Z.eqb_neq in E;
      match goal with |- context [(?x / ?y)%Z] => destruct (ediv_agree x y E) as (Hq & Hr & Hpos) end;
      rewrite Hq, Hr;
      match goal with |- context [euclid_q ?x ?y] =>
        assert (Hqb : (0 <= x -> 0 < y -> 0 <= euclid_q x y <= x)%Z) by (intros; split; [apply euclid_q_nonneg | apply euclid_q_le]; assumption);
        assert (Hrb : (0 <= x -> 0 < y -> euclid_r x y <= x)%Z) by (intros; apply euclid_r_le; assumption) end;
      unfold from_kind; rewrite ?nat_from_ok by (try assumption; apply Hqb; lia);
      rewrite ?mutez_from_ok by (split; [try assumption; apply Hqb; lia | try (specialize (Hqb ltac:(lia) ltac:(lia))); try (specialize (Hrb ltac:(lia) ltac:(lia))); lia]);
      (eexists; split; [reflexivity | split; [reflexivity | constructor; [| assumption]]]);
      unfold typed; simpl; rewrite ?andb_true_r;
      repeat (apply andb_true_intro; split); try (apply Z.leb_le); try (apply Z.ltb_lt);
      try assumption; try (apply Hqb; lia); try (specialize (Hqb ltac:(lia) ltac:(lia)); lia); try (specialize (Hrb ltac:(lia) ltac:(lia)); lia); try reflexivity.
  - (* SUB_MUTEZ *) tc_cases Htc. injection Htc as <-. inv_f2. inv_ty. give_args. simpl.
    rewrite Z.geb_leb.
    match goal with |- context [(?b <=? ?a)%Z] => match goal with |- context [(0 <=? a - b)%Z] =>
      destruct (b <=? a)%Z eqn:E;
        [apply Z.leb_le in E; replace (0 <=? a - b)%Z with true by (symmetry; apply Z.leb_le; lia)
        |apply Z.leb_gt in E; replace (0 <=? a - b)%Z with false by (symmetry; apply Z.leb_gt; lia)] end end.
    + rewrite mutez_from_ok by lia.
      eexists; split; [reflexivity | split; [reflexivity | constructor; [apply (typed_mutez_intro); lia | assumption]]].
    + eexists; split; [reflexivity | split; [reflexivity | constructor; [reflexivity | assumption]]].
  - (* AMOUNT *) injection Htc as <-. give_args. simpl. destruct env_facts as (Ha & Hb & Hl). rewrite mutez_from_ok by assumption.
    eexists; split; [reflexivity | split; [reflexivity | constructor; [apply typed_mutez_intro; assumption | assumption]]].
  - (* BALANCE *) injection Htc as <-. give_args. simpl. destruct env_facts as (Ha & Hb & Hl). rewrite mutez_from_ok by assumption.
    eexists; split; [reflexivity | split; [reflexivity | constructor; [apply typed_mutez_intro; assumption | assumption]]].
  - (* SENDER *) injection Htc as <-. give_args. simpl. finish.
  - (* SOURCE *) injection Htc as <-. give_args. simpl. finish.
  - (* SELF_ADDRESS *) injection Htc as <-. give_args. simpl. finish.
  - (* NOW *) injection Htc as <-. give_args. simpl. finish.
  - (* LEVEL *) injection Htc as <-. give_args. simpl. destruct env_facts as (Ha & Hb & Hl). rewrite nat_from_ok by assumption.
    eexists; split; [reflexivity | split; [reflexivity | constructor; [apply typed_nat_intro; assumption | assumption]]].
  - (* CHAIN_ID *) injection Htc as <-. give_args. simpl. finish.
  - (* COMPARE *) tc_cases Htc. injection Htc as <-. apply andb_prop in Heqb as [Hty Hcmp]. apply ty_eqb_eq in Hty. subst.
    inv_f2. give_args. simpl.
    match goal with Ha : typed ?a ?t, Hb : typed ?b ?t |- _ =>
      destruct (py_compare_agree a b t Ha Hb Hcmp) as (c & Ec & Pc); rewrite Ec;
      rewrite (typed_rt_type a t Ha), (typed_rt_type b t Hb), ty_eqb_refl, Pc end.
    eexists; split; [reflexivity | split; [reflexivity | constructor; [reflexivity | assumption]]].
  - (* EQ *) tc_cases Htc. injection Htc as <-. inv_f2. inv_ty. give_args. simpl.
    eexists; split; [reflexivity | split; [simpl; rewrite ?Z.gtb_ltb, ?Z.geb_leb; reflexivity | constructor; [reflexivity | assumption]]].
  - tc_cases Htc. injection Htc as <-. inv_f2. inv_ty. give_args. simpl.
    eexists; split; [reflexivity | split; [simpl; rewrite ?Z.gtb_ltb, ?Z.geb_leb; reflexivity | constructor; [reflexivity | assumption]]].
  - tc_cases Htc. injection Htc as <-. inv_f2. inv_ty. give_args. simpl.
    eexists; split; [reflexivity | split; [simpl; rewrite ?Z.gtb_ltb, ?Z.geb_leb; reflexivity | constructor; [reflexivity | assumption]]].
  - tc_cases Htc. injection Htc as <-. inv_f2. inv_ty. give_args. simpl.
    eexists; split; [reflexivity | split; [simpl; rewrite ?Z.gtb_ltb, ?Z.geb_leb; reflexivity | constructor; [reflexivity | assumption]]].
  - tc_cases Htc. injection Htc as <-. inv_f2. inv_ty. give_args. simpl.
    eexists; split; [reflexivity | split; [simpl; rewrite ?Z.gtb_ltb, ?Z.geb_leb; reflexivity | constructor; [reflexivity | assumption]]].
  - tc_cases Htc. injection Htc as <-. inv_f2. inv_ty. give_args. simpl.
    eexists; split; [reflexivity | split; [simpl; rewrite ?Z.gtb_ltb, ?Z.geb_leb; reflexivity | constructor; [reflexivity | assumption]]].
  - (* AND *) tc_cases Htc; injection Htc as <-; inv_f2; inv_ty; give_args; simpl;
      (rewrite ?nat_from_ok by (apply Z.land_nonneg; lia));
      (eexists; split; [reflexivity | split; [reflexivity | constructor; [try (apply typed_nat_intro; apply Z.land_nonneg; lia); reflexivity | assumption]]]).
  - (* OR *) tc_cases Htc; injection Htc as <-; inv_f2; inv_ty; give_args; simpl;
      (rewrite ?nat_from_ok by (apply Z.lor_nonneg; lia));
      (eexists; split; [reflexivity | split; [reflexivity | constructor; [try (apply typed_nat_intro; apply Z.lor_nonneg; lia); reflexivity | assumption]]]).
  - (* XOR *) tc_cases Htc; injection Htc as <-; inv_f2; inv_ty; give_args; simpl;
      (rewrite ?nat_from_ok by (apply Z.lxor_nonneg; lia));
      (eexists; split; [reflexivity | split; [reflexivity | constructor; [try (apply typed_nat_intro; apply Z.lxor_nonneg; lia); reflexivity | assumption]]]).
  - (* NOT *) tc_cases Htc; injection Htc as <-; inv_f2; inv_ty; give_args; simpl;
      (eexists; split; [reflexivity | split; [simpl; unfold Z.lnot; repeat f_equal; lia | constructor; [reflexivity | assumption]]]).
  - (* LSL *) tc_cases Htc. injection Htc as <-. inv_f2. inv_ty. give_args. simpl. unfold py_shift.
    match goal with |- context [(?y <=? 256)%Z] => replace (y <? 257)%Z with (y <=? 256)%Z by (destruct (y <=? 256)%Z eqn:E1, (y <? 257)%Z eqn:E2; try reflexivity; [apply Z.leb_le in E1; apply Z.ltb_ge in E2 | apply Z.leb_gt in E1; apply Z.ltb_lt in E2]; lia); destruct (y <=? 256)%Z; [|reflexivity] end.
    rewrite Z.shiftl_mul_pow2 by assumption.
    rewrite nat_from_ok by (apply Z.mul_nonneg_nonneg; [assumption | apply Z.pow_nonneg; lia]).
    eexists; split; [reflexivity | split; [reflexivity | constructor; [apply typed_nat_intro; apply Z.mul_nonneg_nonneg; [assumption | apply Z.pow_nonneg; lia] | assumption]]].
  - (* LSR *) tc_cases Htc. injection Htc as <-. inv_f2. inv_ty. give_args. simpl. unfold py_shift.
    match goal with |- context [(?y <=? 256)%Z] => replace (y <? 257)%Z with (y <=? 256)%Z by (destruct (y <=? 256)%Z eqn:E1, (y <? 257)%Z eqn:E2; try reflexivity; [apply Z.leb_le in E1; apply Z.ltb_ge in E2 | apply Z.leb_gt in E1; apply Z.ltb_lt in E2]; lia); destruct (y <=? 256)%Z; [|reflexivity] end.
    rewrite Z.shiftr_div_pow2 by assumption.
    rewrite nat_from_ok by (apply Z.div_pos; [assumption | apply Z.pow_pos_nonneg; lia]).
    eexists; split; [reflexivity | split; [reflexivity | constructor; [apply typed_nat_intro; apply Z.div_pos; [assumption | apply Z.pow_pos_nonneg; lia] | assumption]]].
  - (* SLICE *) tc_cases Htc; injection Htc as <-; inv_f2; inv_ty; give_args; simpl; unfold py_slice;
      match goal with |- context [(?o <? ?n)%Z && (?o + ?l <=? ?n)%Z] => destruct ((o <? n)%Z && (o + l <=? n)%Z) eqn:E end;
      try (eexists; split; [reflexivity | split; [reflexivity | constructor; [reflexivity | assumption]]]);
      (rewrite Z2Nat.inj_add by assumption); (rewrite Nat.add_comm, Nat.add_sub);
      (eexists; split; [reflexivity | split; [reflexivity | constructor; [reflexivity | assumption]]]).
  - (* FAILWITH: not typed by tc_simple *) discriminate Htc.
  - (* LAMBDA: typed by typecheck_gen itself, see sim_step *) discriminate Htc.
  - (* APPLY *)
    destruct s as [|ta [|[] r]]; try discriminate Htc. destruct a; try discriminate Htc.
    match type of Htc with (if ?c then _ else _) = _ => destruct c eqn:Q; [|discriminate Htc] end.
    injection Htc as <-. apply andb_prop in Q as [Q Q3]. apply andb_prop in Q as [Q1 Q2].
    apply ty_eqb_eq in Q1. subst a1.
    inversion Hs as [|lft ? rest0 ? Hl Hr0]; subst. inversion Hr0 as [|lamv ? rest ? Hlam Hr]; subst.
    apply typed_lambda_inv in Hlam as (body & -> & Hbody).
    destruct (data_of_pval_ok lft ta Hl Q2 Q3) as (d & E1 & E2 & E3 & _).
    exists [lft; PLam (TPair ta a2) b body], rest. split; [reflexivity | split; [reflexivity|]].
    cbn [ref_simple map erase]. rewrite E2, (typed_rt_type lft ta Hl), ty_eqb_refl, E1.
    eexists; split; [reflexivity | split; [reflexivity | constructor; [|assumption]]].
    (* the closure { PUSH ta d ; PAIR ; body } has type lambda a2 b *)
    unfold typed. cbn [pv_typedb]. rewrite !ty_eqb_refl. simpl andb.
    unfold lam_body_ok in *. unfold typecheck_nr in *. simpl. rewrite E3, Q3. simpl.
    remember (typecheck_gen true body [TPair ta a2]) as tb eqn:Eb. clear Eb.
    destruct tb as [[s1|]|]; [|reflexivity | discriminate Hbody].
    destruct s1 as [|b' [|]]; try discriminate Hbody. simpl. exact Hbody.
Qed.

(* ------------------------------------------------------------------------------------------ *)
(* the simulation                                                                             *)
(* ------------------------------------------------------------------------------------------ *)

(* what the pytezos model must do, given what the reference does. [pre] is the hidden prefix of the stack. *)
Definition sim_rel (R : tcres) (pre : list pval) (oref : outcome) (opy : poutcome) : Prop :=
  match oref with
  | OutOfFuel => opy = POutOfFuel
  | RtError => opy = PError
  | Stuck => False
  | Failed v => exists pv, opy = PFailed pv /\ erase pv = v
  | Done r => exists vis', opy = PDone (mkst pre vis') /\ map erase vis' = r /\
                match R with Typed s1 => styped vis' s1 | Failing => False end
  end.

Lemma sim_bind R1 R pre o1 p1 (kr : list value -> outcome) (kp : pstack -> poutcome) :
  sim_rel R1 pre o1 p1 ->
  (forall s1 vis', R1 = Typed s1 -> styped vis' s1 -> sim_rel R pre (kr (map erase vis')) (kp (mkst pre vis'))) ->
  sim_rel R pre (match o1 with Done r => kr r | Failed v => Failed v | RtError => RtError | OutOfFuel => OutOfFuel | Stuck => Stuck end)
                (match p1 with PDone st => kp st | PFailed v => PFailed v | PError => PError | POutOfFuel => POutOfFuel end).
Proof.
  intros H K. destruct o1; simpl in *.
  - destruct H as (vis' & -> & <- & HR). destruct R1; [|contradiction]. apply (K _ _ eq_refl HR).
  - destruct H as (pv & -> & <-). eauto.
  - subst p1. reflexivity.
  - subst p1. reflexivity.
  - contradiction.
Qed.

Lemma sim_rel_join_l Rx Ry R pre o p : tc_join Rx Ry = Some R -> sim_rel Rx pre o p -> sim_rel R pre o p.
Proof.
  intros J H. destruct o; simpl in *; auto. destruct H as (vis' & E & M & T). exists vis'. repeat split; auto.
  destruct Rx as [sx|]; [|contradiction]. destruct Ry as [sy|]; simpl in J.
  - destruct (sty_eqb sx sy); [injection J as <-; assumption | discriminate].
  - injection J as <-. assumption.
Qed.

Lemma sim_rel_join_r Rx Ry R pre o p : tc_join Rx Ry = Some R -> sim_rel Ry pre o p -> sim_rel R pre o p.
Proof.
  intros J H. destruct o; simpl in *; auto. destruct H as (vis' & E & M & T). exists vis'. repeat split; auto.
  destruct Ry as [sy|]; [|contradiction]. destruct Rx as [sx|]; simpl in J.
  - destruct (sty_eqb sx sy) eqn:Q; [|discriminate]. apply sty_eqb_eq in Q. subst. injection J as <-. assumption.
  - injection J as <-. assumption.
Qed.

Lemma py_join_agree l : Forall (fun x => typed x TString) l ->
  exists s, py_join l = Some s /\ concat_strs (map erase l) = Some s.
Proof.
  induction 1 as [|x l Hx Hl IH]; simpl; [eauto|].
  apply typed_string_inv in Hx as [s ->]. destruct IH as (t & E1 & E2). simpl. rewrite E1, E2. simpl. eauto.
Qed.

Lemma py_join_bytes_agree l : Forall (fun x => typed x TBytes) l ->
  exists s, py_join_bytes l = Some s /\ concat_strs (map erase l) = Some s.
Proof.
  induction 1 as [|x l Hx Hl IH]; simpl; [eauto|].
  apply typed_bytes_inv in Hx as [s ->]. destruct IH as (t & E1 & E2). simpl. rewrite E1, E2. simpl. eauto.
Qed.

Lemma py_simple_none_tc i s : py_simple e i = None -> is_shuffle i = false -> i <> I_CONCAT -> i <> I_EXEC -> tc_simple true i s = None.
Proof. destruct i; simpl; intros; try discriminate; try reflexivity; congruence. Qed.

Lemma sim_simple i s R pre vis :
  option_map Typed (tc_simple true i s) = Some R -> styped vis s -> is_shuffle i = false -> i <> I_CONCAT -> i <> I_EXEC ->
  sim_rel R pre (ref_simple e i (map erase vis))
          (match py_simple e i with Some (k, fn) => py_exec_simple k fn (mkst pre vis) | None => PError end).
Proof.
  intros Htc Hs Hsh Hc Hx. destruct (tc_simple true i s) as [s1|] eqn:E; [|discriminate]. injection Htc as <-.
  destruct (py_simple e i) as [[k fn]|] eqn:Hpy; [|rewrite py_simple_none_tc in E by assumption; discriminate].
  destruct (simple_agree i k fn s s1 vis Hpy E Hs) as (args & rest & -> & L & H).
  unfold py_exec_simple. rewrite (pop_mkst pre args rest k L).
  destruct (ref_simple e i (map erase (args ++ rest))); try contradiction.
  - destruct H as (outs & -> & M & T). unfold push_all. rewrite push_all_mkst. simpl. eauto.
  - rewrite H. reflexivity.
Qed.

Lemma sim_shuffle f i s R pre vis :
  is_shuffle i = true -> option_map Typed (tc_simple true i s) = Some R -> styped vis s ->
  sim_rel R pre (ref_simple e i (map erase vis)) (py_eval e (S f) i (mkst pre vis)).
Proof.
  intros Hsh Htc Hs.
  assert (Et : tc_simple true i s = shuffle i s) by (destruct i; try discriminate Hsh; reflexivity).
  assert (Er : forall v, ref_simple e i v = match shuffle i v with Some s' => Done s' | None => Stuck end)
    by (destruct i; try discriminate Hsh; reflexivity).
  rewrite Et in Htc. rewrite Er, shuffle_map.
  pose proof (shuffle_Forall2 typed i vis s Hs) as H.
  destruct (shuffle i s) as [s1|]; [|discriminate]. injection Htc as <-.
  destruct (shuffle i vis) as [vis'|] eqn:Ev; [|contradiction].
  rewrite shuffle_refines by (auto; left; congruence). rewrite Ev. simpl. eauto.
Qed.

Lemma py_map_length run l : forall st pys st', py_map run l st = PMDone pys st' -> length pys = length l.
Proof.
  induction l as [|x l IHl]; intros st pys st' H; simpl in H.
  - injection H as <- _. reflexivity.
  - destruct (run (push x st)); try discriminate. destruct (pop1 st0) as [[y st2]|]; [|discriminate].
    destruct (py_map run l st2) as [ys st3|] eqn:E; [|discriminate]. injection H as <- _. simpl. f_equal. eapply IHl. eassumption.
Qed.

Lemma typed_all_rt b ys : Forall (fun x => typed x b) ys -> forall y, forallb (fun x => ty_eqb (rt_type y) (rt_type x)) ys = true \/ rt_type y <> b.
Proof.
  intros H y. destruct (ty_eqb (rt_type y) b) eqn:E.
  - left. apply ty_eqb_eq in E. apply forallb_forall. intros x Hx. rewrite Forall_forall in H.
    rewrite (typed_rt_type x b (H x Hx)), E. apply ty_eqb_refl.
  - right. intros C. rewrite C, ty_eqb_refl in E. discriminate.
Qed.

(* MAP over a non-empty map (control.py: items.append((elt.items[0], new_elt)); MapType.from_items(items)):
   the rebuilt map has the SAME keys, the key type of the source and the value type of the body's results *)
Lemma py_rekey_keys l : forall ys, length ys = length l -> map py_key (py_rekey l ys) = map py_key l.
Proof.
  induction l as [|x l IH]; intros [|y ys] L; simpl in *; try discriminate; [reflexivity|].
  injection L as L. rewrite (IH _ L). reflexivity.
Qed.

Lemma map_entry_typed kt vt x : (match x with PPair k v => pv_typedb k kt && pv_typedb v vt | _ => false end) = true ->
  exists k v, x = PPair k v /\ typed k kt /\ typed v vt.
Proof. destruct x; try discriminate. intros H. apply andb_prop in H as [H1 H2]. eauto. Qed.

Lemma map_map_types kt vt b l ys :
  typed (PMap kt vt l) (TMap kt vt) -> Forall (fun y => typed y b) ys -> length ys = length l -> l <> [] ->
  map_from_items (py_rekey l ys) = Some (PMap kt b (py_rekey l ys)) /\
  typed (PMap kt b (py_rekey l ys)) (TMap kt b) /\
  map py_key (py_rekey l ys) = map py_key l.
Proof.
  intros Ht Hys L Hne. unfold typed in Ht. simpl in Ht.
  apply andb_prop in Ht as [Ht Hsorted]. apply andb_prop in Ht as [Ht Hall]. clear Ht.
  pose proof (py_rekey_keys l ys L) as Hk.
  assert (Hent : forall l ys, length ys = length l ->
            forallb (fun x => match x with PPair k v => pv_typedb k kt && pv_typedb v vt | _ => false end) l = true ->
            Forall (fun y => typed y b) ys ->
            forallb (fun x => match x with PPair k v => pv_typedb k kt && pv_typedb v b | _ => false end) (py_rekey l ys) = true /\
            forallb (fun x => match x with PPair k' v' => ty_eqb kt (rt_type k') && ty_eqb b (rt_type v') | _ => false end) (py_rekey l ys) = true).
  { clear. induction l as [|x l IH]; intros [|y ys] L Hall Hys; simpl in *; try discriminate; [auto|].
    injection L as L. apply andb_prop in Hall as [Hx Hall]. inversion Hys as [|? ? Hy Hys']; subst.
    destruct (map_entry_typed kt vt x Hx) as (k & v & -> & Hk & Hv). simpl.
    destruct (IH ys L Hall Hys') as [I1 I2]. rewrite I1, I2. unfold typed in *. rewrite Hk, Hy.
    rewrite (typed_rt_type k kt Hk), (typed_rt_type y b Hy), !ty_eqb_refl. auto. }
  destruct (Hent l ys L Hall Hys) as [E1 E2].
  destruct l as [|x l]; [congruence|]. destruct ys as [|y ys]; [discriminate|].
  simpl in Hall. apply andb_prop in Hall as [Hx Hall]. destruct (map_entry_typed kt vt x Hx) as (k & v & -> & Hk0 & Hv0).
  inversion Hys as [|? ? Hy Hys']; subst.
  change (py_rekey (PPair k v :: l) (y :: ys)) with (PPair (py_key (PPair k v)) y :: py_rekey l ys) in *.
  change (py_key (PPair k v)) with k in *.
  remember (PPair k y :: py_rekey l ys) as ents eqn:Eents.
  split; [|split; [|exact Hk]].
  - unfold map_from_items. rewrite Eents. rewrite <- Eents.
    rewrite (typed_rt_type k kt Hk0), (typed_rt_type y b Hy).
    rewrite Eents in E2. simpl in E2. apply andb_prop in E2 as [_ E2]. rewrite E2. rewrite Hk, Hsorted. reflexivity.
  - unfold typed. cbn [pv_typedb]. rewrite !ty_eqb_refl, E1, Hk, Hsorted. reflexivity.
Qed.

Lemma rekey_erase kt vt l : Forall (entry_typed kt vt) l -> forall ys,
  map erase (py_rekey l ys) = v_rekey (map erase l) (map erase ys).
Proof.
  induction 1 as [|x l (k & v & -> & _ & _) Hl IH]; intros [|y ys]; simpl; try reflexivity. rewrite IH. reflexivity.
Qed.

Section Sim.
  Variable f : nat.
  (* induction hypothesis on the fuel *)
  Hypothesis IH : forall c s R pre vis,
    typecheck_gen true c s = Some R -> styped vis s ->
    sim_rel R pre (ref_eval e f c (map erase vis)) (py_eval e f c (mkst pre vis)).

  Lemma iter_sim c a r Rc pre : typecheck_gen true c (a :: r) = Some Rc -> (Rc = Typed r \/ Rc = Failing) ->
    forall l rest, Forall (fun x => typed x a) l -> styped rest r ->
    sim_rel (Typed r) pre (ref_iter (ref_eval e f c) (map erase l) (map erase rest))
            (py_iter (py_eval e f c) l (mkst pre rest)).
  Proof.
    intros Hc HR. induction l as [|x l IHl]; intros rest Hl Hrest; simpl.
    - eauto.
    - inversion Hl as [|? ? Hx Hl']; subst. rewrite push_mkst.
      assert (Hs : styped (x :: rest) (a :: r)) by (constructor; assumption).
      pose proof (IH c _ _ pre _ Hc Hs) as H. simpl in H.
      apply (sim_bind Rc (Typed r) pre _ _ (fun s1 => ref_iter (ref_eval e f c) (map erase l) s1)
                      (fun st => py_iter (py_eval e f c) l st) H).
      intros s1 vis' E Hv. destruct HR as [-> | ->]; [|discriminate]. injection E as <-. apply IHl; assumption.
  Qed.

  Definition map_rel (b : ty) (r : sty) (pre : list pval) (m : mapres) (pm : pmapres) : Prop :=
    match m with
    | MDone ys s2 => exists pys rest', pm = PMDone pys (mkst pre rest') /\ map erase pys = ys /\ map erase rest' = s2 /\
                                       Forall (fun x => typed x b) pys /\ styped rest' r
    | MStop (Failed v) => exists pv, pm = PMStop (PFailed pv) /\ erase pv = v
    | MStop OutOfFuel => pm = PMStop POutOfFuel
    | MStop RtError => pm = PMStop PError
    | MStop _ => False
    end.

  Lemma map_sim c a b r pre : typecheck_gen true c (a :: r) = Some (Typed (b :: r)) ->
    forall l rest, Forall (fun x => typed x a) l -> styped rest r ->
    map_rel b r pre (ref_map (ref_eval e f c) (map erase l) (map erase rest)) (py_map (py_eval e f c) l (mkst pre rest)).
  Proof.
    intros Hc. induction l as [|x l IHl]; intros rest Hl Hrest; simpl.
    - exists [], rest. repeat split; auto.
    - inversion Hl as [|? ? Hx Hl']; subst. rewrite push_mkst.
      assert (Hs : styped (x :: rest) (a :: r)) by (constructor; assumption).
      pose proof (IH c _ _ pre _ Hc Hs) as H. simpl in H.
      destruct (ref_eval e f c (erase x :: map erase rest)) as [s1|v| | |]; simpl in H |- *.
      + destruct H as (vis' & -> & <- & T). inversion T as [|y ? vis'' ? Hy T']; subst. simpl. rewrite pop1_mkst.
        specialize (IHl vis'' Hl' T').
        destruct (ref_map (ref_eval e f c) (map erase l) (map erase vis'')) as [ys s2|o]; simpl in IHl |- *.
        * destruct IHl as (pys & rest' & -> & <- & <- & Tp & Tr). exists (y :: pys), rest'. repeat split; auto.
        * destruct o; try contradiction; [destruct IHl as (pv & -> & <-); eauto | rewrite IHl; reflexivity | rewrite IHl; reflexivity].
      + destruct H as (pv & -> & <-). eauto.
      + rewrite H. reflexivity.
      + rewrite H. reflexivity.
      + contradiction.
  Qed.

  Lemma sim_step c s R pre vis :
    typecheck_gen true c s = Some R -> styped vis s ->
    sim_rel R pre (ref_eval e (S f) c (map erase vis)) (py_eval e (S f) c (mkst pre vis)).
  Proof.
    intros Htc Hs.
    destruct c; cbn [typecheck_gen] in Htc; cbn [ref_eval];
      try (apply (sim_shuffle f _ s); [reflexivity | assumption | assumption]);
      cbn [py_eval];
      try (apply (sim_simple _ s); [assumption | assumption | reflexivity | discriminate | discriminate]).
    - (* NOOP *) injection Htc as <-. simpl. eauto.
    - (* SEQ *)
      destruct (typecheck_gen true c1 s) as [[s1|]|] eqn:E1; try discriminate.
      + apply (sim_bind (Typed s1) R pre _ _ (fun r => ref_eval e f c2 r) (fun st => py_eval e f c2 st) (IH _ _ _ pre _ E1 Hs)).
        intros s1' vis' E Hv. injection E as <-. eapply IH; eassumption.
      + apply (sim_bind Failing R pre _ _ (fun r => ref_eval e f c2 r) (fun st => py_eval e f c2 st) (IH _ _ _ pre _ E1 Hs)).
        intros s1' vis' E. discriminate.
    - (* DIP *)
      destruct (n <=? length s) eqn:En; [|discriminate]. apply Nat.leb_le in En.
      destruct (typecheck_gen true c (skipn n s)) as [[r|]|] eqn:Ec; try discriminate. injection Htc as <-.
      destruct (styped_split n vis s Hs En) as (a & b & -> & La & Ta & Tb). subst n.
      rewrite (protect_mkst pre a b _ eq_refl). rewrite map_length, app_length.
      destruct (length a <=? length a + length b) eqn:E2; [|apply Nat.leb_gt in E2; lia].
      rewrite map_app.
      destruct (split_at_app (map erase a) (map erase b) (length a)) as [Esk Efi]; [apply map_length|].
      rewrite Esk, Efi.
      pose proof (IH c _ _ (pre ++ a) b Ec Tb) as H.
      destruct (ref_eval e f c (map erase b)) as [r0|v| | |]; simpl in H |- *.
      + destruct H as (vis' & -> & <- & T). rewrite restore_mkst.
        exists (a ++ vis'). rewrite map_app. repeat split; auto. apply Forall2_app; assumption.
      + destruct H as (pv & -> & <-). eauto.
      + rewrite H. reflexivity.
      + rewrite H. reflexivity.
      + contradiction.
    - (* IF *)
      destruct s as [|[] r]; try discriminate. inversion Hs as [|v ? rest ? Hv Hr]; subst.
      apply typed_bool_inv in Hv as [b ->]. simpl. rewrite pop1_mkst.
      destruct (typecheck_gen true c1 r) as [x|] eqn:E1; [|discriminate].
      destruct (typecheck_gen true c2 r) as [y|] eqn:E2; [|discriminate].
      destruct b.
      + apply (sim_rel_join_l x y R); [assumption|]. eapply IH; eassumption.
      + apply (sim_rel_join_r x y R); [assumption|]. eapply IH; eassumption.
    - (* IF_NONE *)
      destruct s as [|[] r]; try discriminate. inversion Hs as [|v ? rest ? Hv Hr]; subst.
      destruct (typecheck_gen true c1 r) as [x|] eqn:E1; [|discriminate].
      destruct (typecheck_gen true c2 (a :: r)) as [y|] eqn:E2; [|discriminate].
      apply typed_option_inv in Hv as [-> | (w & -> & Hw)]; simpl; rewrite pop1_mkst.
      + apply (sim_rel_join_l x y R); [assumption|]. eapply IH; eassumption.
      + rewrite push_mkst. apply (sim_rel_join_r x y R); [assumption|].
        apply (IH c2 (a :: r) y pre (w :: rest)); [assumption | constructor; assumption].
    - (* IF_LEFT *)
      destruct s as [|[] r]; try discriminate. inversion Hs as [|v ? rest ? Hv Hr]; subst.
      destruct (typecheck_gen true c1 (a :: r)) as [x|] eqn:E1; [|discriminate].
      destruct (typecheck_gen true c2 (b :: r)) as [y|] eqn:E2; [|discriminate].
      apply typed_or_inv in Hv as [(w & -> & Hw) | (w & -> & Hw)]; simpl; rewrite pop1_mkst, push_mkst.
      + apply (sim_rel_join_l x y R); [assumption|].
        apply (IH c1 (a :: r) x pre (w :: rest)); [assumption | constructor; assumption].
      + apply (sim_rel_join_r x y R); [assumption|].
        apply (IH c2 (b :: r) y pre (w :: rest)); [assumption | constructor; assumption].
    - (* IF_CONS *)
      destruct s as [|[] r]; try discriminate. inversion Hs as [|v ? rest ? Hv Hr]; subst.
      destruct (typecheck_gen true c1 (a :: TList a :: r)) as [x|] eqn:E1; [|discriminate].
      destruct (typecheck_gen true c2 r) as [y|] eqn:E2; [|discriminate].
      apply typed_list_inv' in Hv as (l & -> & Hl). destruct l as [|h t]; simpl; rewrite pop1_mkst.
      + apply (sim_rel_join_r x y R); [assumption|]. eapply IH; eassumption.
      + rewrite !push_mkst. inversion Hl as [|? ? Hh Ht]; subst. apply (sim_rel_join_l x y R); [assumption|].
        apply (IH c1 (a :: TList a :: r) x pre (h :: PList a t :: rest)); [assumption|].
        constructor; [assumption|]. constructor; [apply typed_list_intro; assumption | assumption].
    - (* LOOP *)
      destruct s as [|[] r]; try discriminate. inversion Hs as [|v ? rest ? Hv Hr]; subst.
      apply typed_bool_inv in Hv as [b ->]. simpl. rewrite pop1_mkst.
      assert (HL : forall s1, typecheck_gen true c r = Some (Typed s1) -> typecheck_gen true (I_LOOP c) s1 = Some R).
      { intros s1 E. rewrite E in Htc. destruct (sty_eqb s1 (TBool :: r)) eqn:Q; [|discriminate].
        apply sty_eqb_eq in Q. subst s1. cbn [typecheck_gen]. rewrite E, sty_eqb_refl. assumption. }
      destruct b.
      + destruct (typecheck_gen true c r) as [Rc|] eqn:Ec; [|discriminate].
        apply (sim_bind Rc R pre _ _ (fun s1 => ref_eval e f (I_LOOP c) s1) (fun st => py_eval e f (I_LOOP c) st)
                        (IH c r Rc pre rest Ec Hr)).
        intros s1 vis' E Hv. subst Rc. eapply IH; [apply HL; reflexivity | assumption].
      + destruct (typecheck_gen true c r) as [[s1|]|] eqn:Ec; try discriminate.
        * destruct (sty_eqb s1 (TBool :: r)); [|discriminate]. injection Htc as <-. simpl. eauto.
        * injection Htc as <-. simpl. eauto.
    - (* LOOP_LEFT *)
      destruct s as [|[] r]; try discriminate. inversion Hs as [|v ? rest ? Hv Hr]; subst.
      assert (HL : forall s1, typecheck_gen true c (a :: r) = Some (Typed s1) -> typecheck_gen true (I_LOOP_LEFT c) s1 = Some R).
      { intros s1 E. rewrite E in Htc. destruct (sty_eqb s1 (TOr a b :: r)) eqn:Q; [|discriminate].
        apply sty_eqb_eq in Q. subst s1. cbn [typecheck_gen]. rewrite E, sty_eqb_refl. assumption. }
      apply typed_or_inv in Hv as [(w & -> & Hw) | (w & -> & Hw)]; simpl; rewrite pop1_mkst, push_mkst.
      + destruct (typecheck_gen true c (a :: r)) as [Rc|] eqn:Ec; [|discriminate].
        assert (Hs' : styped (w :: rest) (a :: r)) by (constructor; assumption).
        apply (sim_bind Rc R pre _ _ (fun s1 => ref_eval e f (I_LOOP_LEFT c) s1) (fun st => py_eval e f (I_LOOP_LEFT c) st)
                        (IH c (a :: r) Rc pre (w :: rest) Ec Hs')).
        intros s1 vis' E Hv. subst Rc. eapply IH; [apply HL; reflexivity | assumption].
      + assert (R = Typed (b :: r)) as ->.
        { destruct (typecheck_gen true c (a :: r)) as [[s1|]|]; try discriminate.
          - destruct (sty_eqb s1 (TOr a b :: r)); [|discriminate]. congruence.
          - congruence. }
        simpl. exists (w :: rest). repeat split; auto. constructor; assumption.
    - (* ITER *)
      assert (K : forall a r l rest, typecheck_gen true c (a :: r) <> None ->
                 (match typecheck_gen true c (a :: r) with
                  | Some (Typed s1) => if sty_eqb s1 r then Some (Typed r) else None
                  | Some Failing => Some (Typed r)
                  | None => None
                  end = Some R) ->
                 Forall (fun x => typed x a) l -> styped rest r ->
                 sim_rel R pre (ref_iter (ref_eval e f c) (map erase l) (map erase rest)) (py_iter (py_eval e f c) l (mkst pre rest))).
      { intros a r l rest _ Htc' Hl Hr.
        destruct (typecheck_gen true c (a :: r)) as [Rc|] eqn:Ec; [|discriminate].
        assert (HR : R = Typed r /\ (Rc = Typed r \/ Rc = Failing)).
        { destruct Rc as [s1|].
          - destruct (sty_eqb s1 r) eqn:Q; [|discriminate]. apply sty_eqb_eq in Q. subst. split; [congruence | auto].
          - split; [congruence | auto]. }
        destruct HR as [-> HR]. apply (iter_sim c a r Rc pre Ec HR); assumption. }
      destruct s as [|[] r]; try discriminate; cbv beta iota in Htc; inversion Hs as [|pv ? rest ? Hv Hr]; subst.
      + (* list *) apply typed_list_inv' in Hv as (l & -> & Hl). simpl. rewrite pop1_mkst.
        apply (K a r l rest); auto. intros C. rewrite C in Htc. discriminate.
      + (* set *) apply typed_set_inv in Hv as (l & -> & Hl). simpl. rewrite pop1_mkst.
        apply (K k r l rest); auto. intros C. rewrite C in Htc. discriminate.
      + (* map: the entries are pairs *) apply typed_map_inv in Hv as (l & -> & Hl). simpl. rewrite pop1_mkst.
        match type of Hl with Forall (entry_typed ?kt ?vt) _ => apply (K (TPair kt vt) r l rest); auto end.
        * intros C. rewrite C in Htc. discriminate.
        * eapply Forall_impl; [|exact Hl]. intros x Hx. apply entry_typed_pair. exact Hx.
    - (* MAP *)
      destruct s as [|[] r]; try discriminate; inversion Hs as [|pv0 ? rest ? Hv Hr]; subst.
      { (* list *)
        apply typed_list_inv' in Hv as (l & -> & Hl). simpl. rewrite pop1_mkst.
        destruct (typecheck_gen true c (a :: r)) as [[[|b r1]|]|] eqn:Ec; try discriminate.
        destruct (sty_eqb r1 r && (negb true || ty_eqb a b)) eqn:Q; [|discriminate]. injection Htc as <-.
        apply andb_prop in Q as [Q1 Q2]. apply sty_eqb_eq in Q1. simpl in Q2. apply ty_eqb_eq in Q2. subst r1 b.
        pose proof (map_sim c a a r pre Ec l rest Hl Hr) as H.
        destruct (ref_map (ref_eval e f c) (map erase l) (map erase rest)) as [ys s2|o]; simpl in H.
        + destruct H as (pys & rest' & Epm & <- & <- & Tp & Tr). rewrite Epm.
          destruct pys as [|y pys]; simpl.
          * rewrite push_mkst. apply py_map_length in Epm. destruct l; [|discriminate Epm].
            exists (PList a [] :: rest'). repeat split; auto.
            constructor; [apply typed_list_intro; constructor | assumption].
          * inversion Tp as [|? ? Hy Tp']; subst.
            destruct (typed_all_rt a pys Tp' y) as [F | F]; [|elim F; apply typed_rt_type; assumption].
            rewrite F, push_mkst. rewrite (typed_rt_type y a Hy).
            exists (PList a (y :: pys) :: rest'). repeat split; auto.
            constructor; [apply typed_list_intro; assumption | assumption].
        + destruct o; try contradiction; simpl; [destruct H as (pv & -> & <-); simpl; eauto | rewrite H; reflexivity | rewrite H; reflexivity].
      }
      { (* map *)
        pose proof Hv as Hm. apply typed_map_inv in Hv as (l & -> & Hl). simpl. rewrite pop1_mkst.
        destruct (typecheck_gen true c (TPair k v :: r)) as [[[|b r1]|]|] eqn:Ec; try discriminate.
        destruct (sty_eqb r1 r && (negb true || ty_eqb v b)) eqn:Q; [|discriminate]. injection Htc as <-.
        apply andb_prop in Q as [Q1 Q2]. apply sty_eqb_eq in Q1. simpl in Q2. apply ty_eqb_eq in Q2. subst r1 b.
        assert (Hl' : Forall (fun x => typed x (TPair k v)) l) by (eapply Forall_impl; [|exact Hl]; intros x Hx; apply entry_typed_pair; exact Hx).
        pose proof (map_sim c (TPair k v) v r pre Ec l rest Hl' Hr) as H.
        destruct (ref_map (ref_eval e f c) (map erase l) (map erase rest)) as [ys s2|o]; simpl in H.
        * destruct H as (pys & rest' & Epm & <- & <- & Tp & Tr). rewrite Epm.
          pose proof (py_map_length _ _ _ _ _ Epm) as L.
          destruct pys as [|y pys].
          { destruct l; [|discriminate L]. simpl. rewrite push_mkst. exists (PMap k v [] :: rest'). repeat split; auto.
            constructor; [exact Hm | assumption]. }
          { assert (Hne : l <> []) by (destruct l; [discriminate L | discriminate]).
            destruct (map_map_types k v v l (y :: pys) Hm Tp L Hne) as (E1 & T1 & _). rewrite E1. rewrite push_mkst.
            exists (PMap k v (py_rekey l (y :: pys)) :: rest'). repeat split; auto.
            - simpl. rewrite (rekey_erase k v l Hl). reflexivity.
            - constructor; [exact T1 | assumption]. }
        * destruct o; try contradiction; simpl; [destruct H as (pv & -> & <-); simpl; eauto | rewrite H; reflexivity | rewrite H; reflexivity].
      }
    - (* CONCAT *)
      unfold option_map in Htc. destruct (tc_simple true I_CONCAT s) as [s1|] eqn:E; [|discriminate]. injection Htc as <-.
      simpl in E. destruct s as [|[] r]; try discriminate.
      + destruct r as [|[] r]; try discriminate. injection E as <-.
        inversion Hs as [|v ? rest0 ? Hv Hr0]; subst. inversion Hr0 as [|w ? rest ? Hw Hr]; subst.
        apply typed_string_inv in Hv as [x ->]. apply typed_string_inv in Hw as [y ->].
        simpl. rewrite !pop1_mkst, push_mkst. exists (PStr (x ++ y) :: rest). repeat split; auto.
        constructor; [reflexivity | assumption].
      + destruct r as [|[] r]; try discriminate. injection E as <-.
        inversion Hs as [|v ? rest0 ? Hv Hr0]; subst. inversion Hr0 as [|w ? rest ? Hw Hr]; subst.
        apply typed_bytes_inv in Hv as [x ->]. apply typed_bytes_inv in Hw as [y ->].
        simpl. rewrite !pop1_mkst, push_mkst. exists (PBytes (x ++ y) :: rest). repeat split; auto.
        constructor; [reflexivity | assumption].
      + destruct a; try discriminate; injection E as <-;
          inversion Hs as [|v ? rest ? Hv Hr]; subst; apply typed_list_inv' in Hv as (l & -> & Hl).
        * destruct (py_join_agree l Hl) as (x & E1 & E2). simpl. rewrite pop1_mkst, E1, E2, push_mkst.
          exists (PStr x :: rest). repeat split; auto. constructor; [reflexivity | assumption].
        * destruct (py_join_bytes_agree l Hl) as (x & E1 & E2). simpl. rewrite pop1_mkst, E1, E2, push_mkst.
          exists (PBytes x :: rest). repeat split; auto. constructor; [reflexivity | assumption].
    - (* FAILWITH *)
      destruct s as [|t r]; [discriminate|]. injection Htc as <-. inversion Hs as [|v ? rest ? Hv Hr]; subst.
      simpl. unfold py_exec_simple. change (v :: rest) with ([v] ++ rest). rewrite (pop_mkst pre [v] rest 1 eq_refl).
      simpl. eauto.
    - (* LAMBDA *)
      assert (Hb : lam_body_ok a b c = true /\ R = Typed (TLambda a b :: s)).
      { unfold lam_body_ok, typecheck_nr. destruct (typecheck_gen true c [a]) as [[[|b' [|]]|]|]; try discriminate Htc.
        - destruct (ty_eqb b b'); [|discriminate Htc]. injection Htc as <-. auto.
        - injection Htc as <-. auto. }
      destruct Hb as [Hb ->]. simpl. unfold py_exec_simple.
      change (mkst pre vis) with (mkst pre ([] ++ vis)). rewrite (pop_mkst pre [] vis 0 eq_refl). simpl. rewrite push_mkst.
      exists (PLam a b c :: vis). repeat split; auto. constructor; [|assumption].
      unfold typed. simpl. rewrite !ty_eqb_refl, Hb. reflexivity.
    - (* EXEC *)
      unfold option_map in Htc. destruct (tc_simple true I_EXEC s) as [s1|] eqn:E; [|discriminate]. injection Htc as <-.
      simpl in E. destruct s as [|a [|[] r]]; try discriminate E.
      destruct (ty_eqb a a0) eqn:Q; [|discriminate E]. apply ty_eqb_eq in Q. subst a0. injection E as <-.
      inversion Hs as [|param ? rest0 ? Hp Hr0]; subst. inversion Hr0 as [|lamv ? rest ? Hlam Hr]; subst.
      apply typed_lambda_inv in Hlam as (body & -> & Hbody).
      cbn [map erase].
      change (param :: PLam a b body :: rest) with ([param; PLam a b body] ++ rest).
      rewrite (pop_mkst pre [param; PLam a b body] rest 2 eq_refl).
      rewrite (typed_rt_type param a Hp), ty_eqb_refl.
      assert (Hs1 : styped [param] [a]) by (constructor; [assumption | constructor]).
      unfold lam_body_ok, typecheck_nr in Hbody.
      destruct (typecheck_gen true body [a]) as [Rb|] eqn:Eb; [|discriminate Hbody].
      pose proof (IH body [a] Rb [] [param] Eb Hs1) as H.
      change (mkstack [param] 0) with (mkst [] [param]). change (map erase [param]) with [erase param] in H.
      destruct (ref_eval e f body [erase param]) as [r0|v| | |]; simpl in H.
      + destruct H as (vis' & -> & <- & T). destruct Rb as [[|b' [|]]|]; try discriminate Hbody; try contradiction.
        apply ty_eqb_eq in Hbody. subst b'.
        inversion T as [|res ? vs ? Hres Tr]; subst. inversion Tr; subst.
        rewrite pop1_mkst. rewrite (typed_rt_type res b Hres), ty_eqb_refl. simpl. rewrite push_mkst.
        exists (res :: rest). repeat split; auto. constructor; assumption.
      + destruct H as (pv & -> & <-). simpl. eauto.
      + rewrite H. reflexivity.
      + rewrite H. reflexivity.
      + contradiction.
  Qed.
End Sim.

Theorem simulation f : forall c s R pre vis,
  typecheck_gen true c s = Some R -> styped vis s ->
  sim_rel R pre (ref_eval e f c (map erase vis)) (py_eval e f c (mkst pre vis)).
Proof.
  induction f as [|f IHf]; intros c s R pre vis Htc Hs.
  - reflexivity.
  - apply (sim_step f IHf c s); assumption.
Qed.

(* ------------------------------------------------------------------------------------------ *)
(* statements used by Properties/C01.v and Properties/C02.v                                   *)
(* ------------------------------------------------------------------------------------------ *)

(* what an observer of the pytezos stack sees, classes erased *)
Definition erase_outcome (o : poutcome) : outcome :=
  match o with
  | PDone st => Done (map erase (view st))
  | PFailed v => Failed (erase v)
  | PError => RtError
  | POutOfFuel => OutOfFuel
  end.

Definition stack_typed (vs : list pval) (s : sty) : Prop := Forall2 (fun v t => pv_typedb v t = true) vs s.

Lemma c01_simulation fuel code st R hid inputs :
  in_fragment code -> typecheck_nr code st = Some R -> stack_typed inputs st ->
  erase_outcome (py_eval e fuel code (mkst hid inputs)) = ref_eval e fuel code (map erase inputs).
Proof.
  intros _ Htc Hs. pose proof (simulation fuel code st R hid inputs Htc Hs) as H.
  destruct (ref_eval e fuel code (map erase inputs)); simpl in H.
  - destruct H as (vis' & -> & <- & _). simpl. rewrite view_mkst. reflexivity.
  - destruct H as (pv & -> & <-). reflexivity.
  - rewrite H. reflexivity.
  - rewrite H. reflexivity.
  - contradiction.
Qed.

Lemma c01_frame fuel code st R hid inputs stf :
  in_fragment code -> typecheck_nr code st = Some R -> stack_typed inputs st ->
  py_eval e fuel code (mkst hid inputs) = PDone stf ->
  hidden stf = hid /\ prot stf = length hid /\ exists st', R = Typed st' /\ stack_typed (view stf) st'.
Proof.
  intros _ Htc Hs E. pose proof (simulation fuel code st R hid inputs Htc Hs) as H. rewrite E in H.
  destruct (ref_eval e fuel code (map erase inputs)); simpl in H.
  - destruct H as (vis' & Q & _ & T). injection Q as ->. rewrite hidden_mkst, view_mkst. repeat split; auto.
    destruct R; [eauto | contradiction].
  - destruct H as (pv & Q & _). discriminate.
  - discriminate.
  - discriminate.
  - contradiction.
Qed.

Lemma c01_ref_progress fuel code st R inputs :
  in_fragment code -> typecheck_nr code st = Some R -> stack_typed inputs st ->
  ref_eval e fuel code (map erase inputs) <> Stuck.
Proof.
  intros _ Htc Hs C. pose proof (simulation fuel code st R [] inputs Htc Hs) as H. rewrite C in H. exact H.
Qed.

Lemma c01_failing_never_returns fuel code st hid inputs stf :
  in_fragment code -> typecheck_nr code st = Some Failing -> stack_typed inputs st ->
  py_eval e fuel code (mkst hid inputs) <> PDone stf.
Proof.
  intros F Htc Hs E. destruct (c01_frame fuel code st Failing hid inputs stf F Htc Hs E) as (_ & _ & st' & Q & _).
  discriminate.
Qed.

Lemma c02_preservation fuel code st st' hid inputs stf :
  in_fragment code -> typecheck_nr code st = Some (Typed st') -> stack_typed inputs st ->
  py_eval e fuel code (mkst hid inputs) = PDone stf ->
  Forall2 (fun v t => rt_type v = t) (view stf) st'.
Proof.
  intros F Htc Hs E. destruct (c01_frame fuel code st _ hid inputs stf F Htc Hs E) as (_ & _ & st'' & Q & T).
  injection Q as <-. unfold stack_typed in T. clear - T. induction T as [|v t vs ts Hv T IHT]; [constructor|].
  constructor; [apply typed_rt_type; exact Hv | exact IHT].
Qed.

(* EXEC of a first-order lambda whose body lies in the proved fragment: pytezos (fresh MichelsonStack holding the
   argument, body, pop the result, class checks) agrees with the reference rule *)
Lemma c01_exec fuel a b body param rest hid :
  in_fragment body -> typecheck_nr body [a] = Some (Typed [b]) -> typed param a ->
  erase_outcome (py_eval e (S fuel) I_EXEC (mkst hid (param :: PLam a b body :: rest)))
  = ref_eval e (S fuel) I_EXEC (map erase (param :: PLam a b body :: rest)).
Proof.
  intros _ Htc Hp. cbn [py_eval ref_eval map erase].
  change (param :: PLam a b body :: rest) with ([param; PLam a b body] ++ rest).
  rewrite (pop_mkst hid [param; PLam a b body] rest 2 eq_refl).
  rewrite (typed_rt_type param a Hp), ty_eqb_refl.
  assert (Hs : styped [param] [a]) by (constructor; [assumption | constructor]).
  pose proof (simulation fuel body [a] (Typed [b]) [] [param] Htc Hs) as H.
  change (mkstack [param] 0) with (mkst [] [param]). change (map erase [param]) with [erase param] in H.
  destruct (ref_eval e fuel body [erase param]) as [r|v| | |]; simpl in H.
  - destruct H as (vis' & -> & <- & T). inversion T as [|res ? vs ? Hres Tr]; subst. inversion Tr; subst.
    rewrite pop1_mkst. rewrite (typed_rt_type res b Hres), ty_eqb_refl. simpl. rewrite push_mkst. simpl.
    rewrite view_mkst. reflexivity.
  - destruct H as (pv & -> & <-). reflexivity.
  - rewrite H. reflexivity.
  - rewrite H. reflexivity.
  - contradiction.
Qed.

(* one cell of a REPL session: Interpreter.execute agrees with the reference, keeps the `protected` counter at 0,
   and leaves the session stack untouched when the cell fails *)
Lemma c01_execute fuel code st R inputs :
  in_fragment code -> typecheck_nr code st = Some R -> stack_typed inputs st ->
  let (st', o) := py_execute e fuel code (mkst [] inputs) in
  erase_outcome o = ref_eval e fuel code (map erase inputs) /\ prot st' = 0 /\
  match ref_eval e fuel code (map erase inputs) with
  | Done r => map erase (items st') = r /\ exists s1, R = Typed s1 /\ stack_typed (items st') s1
  | _ => st' = mkst [] inputs
  end.
Proof.
  intros F Htc Hs. unfold py_execute.
  pose proof (c01_simulation fuel code st R [] inputs F Htc Hs) as Hsim.
  destruct (py_eval e fuel code (mkst [] inputs)) as [stf|v| |] eqn:E.
  - destruct (c01_frame fuel code st R [] inputs stf F Htc Hs E) as (Hh & Hp & s1 & -> & T).
    split; [exact Hsim|]. split; [exact Hp|]. rewrite <- Hsim. simpl.
    assert (V : view stf = items stf) by (unfold view; rewrite Hp; reflexivity).
    rewrite <- V. split; [reflexivity|]. eauto.
  - split; [exact Hsim|]. split; [reflexivity|]. rewrite <- Hsim. reflexivity.
  - split; [exact Hsim|]. split; [reflexivity|]. rewrite <- Hsim. reflexivity.
  - split; [exact Hsim|]. split; [reflexivity|]. rewrite <- Hsim. reflexivity.
Qed.

(* the programs accepted by typecheck_nr are well-typed Michelson *)
Lemma tc_simple_sub i s x : tc_simple true i s = Some x -> tc_simple false i s = Some x.
Proof.
  destruct i; simpl; try (intros H; exact H); try discriminate.
Qed.

Lemma tc_nr_sub c : forall s R, typecheck_gen true c s = Some R -> typecheck_gen false c s = Some R.
Proof.
  induction c; intros s R H; cbn [typecheck_gen] in *; try discriminate H;
    try (unfold option_map in *;
         match type of H with context [tc_simple true ?i ?s] =>
           destruct (tc_simple true i s) eqn:E; [rewrite (tc_simple_sub _ _ _ E); assumption | discriminate] end);
    try assumption.
  - destruct (typecheck_gen true c1 s) as [[s1|]|] eqn:E; try discriminate; rewrite (IHc1 _ _ E); auto.
  - destruct (n <=? length s); [|discriminate].
    destruct (typecheck_gen true c (skipn n s)) as [[r|]|] eqn:E; try discriminate. rewrite (IHc _ _ E). assumption.
  - destruct s as [|[] r]; try discriminate.
    destruct (typecheck_gen true c1 r) as [x|] eqn:E1; [|discriminate].
    destruct (typecheck_gen true c2 r) as [y|] eqn:E2; [|discriminate].
    rewrite (IHc1 _ _ E1), (IHc2 _ _ E2). assumption.
  - destruct s as [|[] r]; try discriminate.
    destruct (typecheck_gen true c1 r) as [x|] eqn:E1; [|discriminate].
    destruct (typecheck_gen true c2 (a :: r)) as [y|] eqn:E2; [|discriminate].
    rewrite (IHc1 _ _ E1), (IHc2 _ _ E2). assumption.
  - destruct s as [|[] r]; try discriminate.
    destruct (typecheck_gen true c1 (a :: r)) as [x|] eqn:E1; [|discriminate].
    destruct (typecheck_gen true c2 (b :: r)) as [y|] eqn:E2; [|discriminate].
    rewrite (IHc1 _ _ E1), (IHc2 _ _ E2). assumption.
  - destruct s as [|[] r]; try discriminate.
    destruct (typecheck_gen true c1 (a :: TList a :: r)) as [x|] eqn:E1; [|discriminate].
    destruct (typecheck_gen true c2 r) as [y|] eqn:E2; [|discriminate].
    rewrite (IHc1 _ _ E1), (IHc2 _ _ E2). assumption.
  - destruct s as [|[] r]; try discriminate.
    destruct (typecheck_gen true c r) as [x|] eqn:E1; [|discriminate]. rewrite (IHc _ _ E1). assumption.
  - destruct s as [|[] r]; try discriminate.
    destruct (typecheck_gen true c (a :: r)) as [x|] eqn:E1; [|discriminate]. rewrite (IHc _ _ E1). assumption.
  - destruct s as [|[] r]; try discriminate; cbv beta iota in *;
      match type of H with context [typecheck_gen true c ?st] =>
        destruct (typecheck_gen true c st) as [x|] eqn:E1; [|discriminate]; rewrite (IHc _ _ E1); assumption end.
  - destruct s as [|[] r]; try discriminate.
    + destruct (typecheck_gen true c (a :: r)) as [[[|b r1]|]|] eqn:E1; try discriminate. rewrite (IHc _ _ E1).
      destruct (sty_eqb r1 r); simpl in *; [|discriminate]. destruct (ty_eqb a b); [assumption | discriminate].
    + destruct (typecheck_gen true c (TPair k v :: r)) as [[[|b r1]|]|] eqn:E1; try discriminate. rewrite (IHc _ _ E1).
      destruct (sty_eqb r1 r); simpl in *; [|discriminate]. destruct (ty_eqb v b); [assumption | discriminate].
  - (* LAMBDA *) destruct (typecheck_gen true c [a]) as [x|] eqn:E1; [|discriminate]. rewrite (IHc _ _ E1). assumption.
Qed.

(* (a) stated on an arbitrary stack whose counter does not exceed its length *)
Lemma shuffle_refines_st fuel i st :
  prot st <= length (items st) -> is_shuffle i = true -> (shuffle i (view st) <> None \/ prot st = 0) ->
  py_eval e (S fuel) i st =
    match shuffle i (view st) with Some v' => PDone (mkst (hidden st) v') | None => PError end.
Proof.
  intros W Hs Hr. rewrite (mkst_hidden_view st W) at 1. apply shuffle_refines; [assumption|].
  destruct Hr as [Hr | Hr]; [left; assumption | right]. unfold hidden. rewrite Hr. reflexivity.
Qed.

Lemma ref_shuffle i s : is_shuffle i = true -> forall fuel,
  ref_eval e (S fuel) i s = match shuffle i s with Some s' => Done s' | None => Stuck end.
Proof. intros H fuel. destruct i; try discriminate H; reflexivity. Qed.

Lemma dip_refines fuel n c st out :
  prot st <= length (items st) -> n <= length (view st) ->
  py_eval e fuel c (mkst (hidden st ++ firstn n (view st)) (skipn n (view st)))
    = PDone (mkst (hidden st ++ firstn n (view st)) out) ->
  py_eval e (S fuel) (I_DIP n c) st = PDone (mkst (hidden st) (firstn n (view st) ++ out)).
Proof.
  intros W L E. rewrite (mkst_hidden_view st W) at 1. cbn [py_eval].
  rewrite <- (firstn_skipn n (view st)) at 1.
  assert (La : length (firstn n (view st)) = n) by (rewrite firstn_length; lia).
  rewrite (protect_mkst _ _ _ n La), E. rewrite <- La at 1. rewrite restore_mkst. reflexivity.
Qed.

End WithEnv.

(* ------------------------------------------------------------------------------------------ *)
(* ------------------------------------------------------------------------------------------ *)
(* kernel-checked witnesses of the known finding (MAP over an empty list keeps the source class). *)
(* Each fact is one closed equation proved by vm_compute, so that Qed re-checks it with a vm cast. *)
(* ------------------------------------------------------------------------------------------ *)
Definition w_env : env := mkenv 0 0 [] [] [] 0 0 [].
Definition w_code1 : instr := I_SEQ (I_MAP (I_SEQ I_INT I_NOOP)) (I_SEQ (I_PUSH TInt (DInt 1)) (I_SEQ I_CONS I_NOOP)).
Definition w_code2 : instr := I_MAP (I_SEQ I_INT I_NOOP).
Definition w_inputs : list pval := [PList TNat []].

Lemma w_env_ok : env_okb w_env = true. Proof. vm_compute. reflexivity. Qed.
Lemma w_frag1 : in_fragmentb w_code1 = true. Proof. vm_compute. reflexivity. Qed.
Lemma w_frag2 : in_fragmentb w_code2 = true. Proof. vm_compute. reflexivity. Qed.
Lemma w_tc1 : typecheck w_code1 [TList TNat] = Some (Typed [TList TInt]). Proof. vm_compute. reflexivity. Qed.
Lemma w_tc2 : typecheck w_code2 [TList TNat] = Some (Typed [TList TInt]). Proof. vm_compute. reflexivity. Qed.
Lemma w_inputs_typed : stack_typed w_inputs [TList TNat].
Proof. constructor; [vm_compute; reflexivity | constructor]. Qed.
Lemma w_ref1 : ref_eval w_env 10 w_code1 (map erase w_inputs) = Done [VList [VInt 1]]. Proof. vm_compute. reflexivity. Qed.
Lemma w_py1 : erase_outcome (py_eval w_env 10 w_code1 (mkst [] w_inputs)) = RtError. Proof. vm_compute. reflexivity. Qed.
Lemma w_py2 : py_eval w_env 10 w_code2 (mkst [] w_inputs) = PDone (mkst [] [PList TNat []]). Proof. vm_compute. reflexivity. Qed.
Lemma w_view2 : view (mkst [] [PList TNat []]) = [PList TNat []]. Proof. vm_compute. reflexivity. Qed.

Lemma c01_refuted : exists e fuel code st R inputs,
  env_okb e = true /\ in_fragment code /\ typecheck code st = Some R /\ stack_typed inputs st /\
  ref_eval e fuel code (map erase inputs) <> OutOfFuel /\
  erase_outcome (py_eval e fuel code (mkst [] inputs)) <> ref_eval e fuel code (map erase inputs).
Proof.
  exists w_env, 10, w_code1, [TList TNat], (Typed [TList TInt]), w_inputs.
  split; [exact w_env_ok|]. split; [exact w_frag1|]. split; [exact w_tc1|]. split; [exact w_inputs_typed|].
  rewrite w_py1, w_ref1. split; discriminate.
Qed.

Lemma c02_refuted : exists e fuel code st st' inputs stf,
  env_okb e = true /\ in_fragment code /\ typecheck code st = Some (Typed st') /\ stack_typed inputs st /\
  py_eval e fuel code (mkst [] inputs) = PDone stf /\
  ~ Forall2 (fun v t => rt_type v = t) (view stf) st'.
Proof.
  exists w_env, 10, w_code2, [TList TNat], [TList TInt], w_inputs, (mkst [] [PList TNat []]).
  split; [exact w_env_ok|]. split; [exact w_frag2|]. split; [exact w_tc2|]. split; [exact w_inputs_typed|].
  split; [exact w_py2|]. rewrite w_view2. intros H. inversion H as [|? ? ? ? E]. discriminate E.
Qed.

(* non-vacuity examples, each a closed boolean/equational fact *)
Definition ex_env : env := mkenv 5 9 [] [] [] 100 3 [].
Definition ex_code1 : instr :=
  I_SEQ (I_PUSH (TList TNat) (DList [DInt 1; DInt 2; DInt 3]))
  (I_SEQ (I_MAP (I_SEQ (I_DUP 1) (I_SEQ I_MUL I_NOOP)))
  (I_SEQ (I_PUSH TNat (DInt 0)) (I_SEQ I_SWAP (I_SEQ (I_ITER (I_SEQ I_ADD I_NOOP))
  (I_SEQ (I_DIP 1 (I_SEQ (I_DUP 2) (I_SEQ (I_DIG 1) (I_SEQ I_PAIR I_NOOP))))
  (I_SEQ I_AMOUNT (I_SEQ I_BALANCE (I_SEQ I_SUB_MUTEZ I_NOOP)))))))).
Lemma ex1_tc : typecheck_nr ex_code1 [TInt; TString] = Some (Typed [TOption TMutez; TNat; TPair TInt TString; TString]).
Proof. vm_compute. reflexivity. Qed.
Lemma ex1_ref : ref_eval ex_env 50 ex_code1 [VInt 7; VStr []] = Done [VSome (VMutez 4); VInt 14; VPair (VInt 7) (VStr []); VStr []].
Proof. vm_compute. reflexivity. Qed.
Lemma ex1_py : obs_of (py_eval ex_env 50 ex_code1 (mkst [] [PInt 7; PStr []]))
  = ODone [PSome (PMutez 4); PNat 14; PPair (PInt 7) (PStr []); PStr []].
Proof. vm_compute. reflexivity. Qed.

Definition ex_code2 : instr :=
  I_SEQ (I_MAP (I_SEQ (I_PUSH TNat (DInt 1)) (I_SEQ I_ADD I_NOOP))) (I_SEQ (I_DUP 1) (I_SEQ I_SIZE I_NOOP)).
Lemma ex2_tc : typecheck_nr ex_code2 [TList TNat] = Some (Typed [TNat; TList TNat]).
Proof. vm_compute. reflexivity. Qed.
Lemma ex2_py_empty : obs_of (py_eval ex_env 20 ex_code2 (mkst [] [PList TNat []])) = ODone [PNat 0; PList TNat []].
Proof. vm_compute. reflexivity. Qed.
Lemma ex2_py : obs_of (py_eval ex_env 20 ex_code2 (mkst [] [PList TNat [PNat 4; PNat 0]])) = ODone [PNat 2; PList TNat [PNat 5; PNat 1]].
Proof. vm_compute. reflexivity. Qed.
