(* Proofs/Parser_proofs.v — the recursive-descent parser inverts the formatter's token stream. *)
From Coq Require Import List NArith ZArith Bool Lia Arith.
From Coq.Strings Require Import Byte.
From PV Require Import Base.Bytes Codec.Micheline Codec.Printer Codec.Lexer Codec.Parser.
Import ListNotations.
Local Open Scope list_scope.

(* tokens that end an argument list / an instruction *)
Definition stop_tok (t : token) : bool :=
  match t with TSemi | TRCurly | TRParen => true | _ => false end.
Definition stops (rest : list token) : Prop :=
  match rest with [] => True | t :: _ => stop_tok t = true end.
(* tokens that end an instruction list *)
Definition closes (rest : list token) : Prop :=
  match rest with [] => True | TRCurly :: _ => True | _ => False end.

Lemma closes_stops rest : closes rest -> stops rest.
Proof. destruct rest as [|[] r]; simpl; intro H; try contradiction; auto. Qed.

Lemma span_annots_app annots rest :
  (match rest with TAnnot _ :: _ => False | _ => True end) ->
  span_annots (map TAnnot annots ++ rest) = (annots, rest).
Proof.
  intro H. induction annots as [|a l IH]; simpl.
  - destruct rest as [|[] r]; try reflexivity. contradiction.
  - rewrite IH. reflexivity.
Qed.

Lemma fmt_nonempty w p : exists t r, fmt w p = t :: r /\ (match t with TAnnot _ => False | _ => True end).
Proof.
  destruct p as [r|r|r|n annots args|items]; simpl; try (eexists; eexists; split; [reflexivity|exact I]).
  destruct (is_framed n (nonempty annots) && negb w); eexists; eexists; split; try reflexivity; exact I.
Qed.

Lemma fmt_length_pos w p : 1 <= length (fmt w p).
Proof. destruct (fmt_nonempty w p) as (t & r & E & _). rewrite E. simpl. lia. Qed.

Lemma flat_fmt_no_annot args rest :
  stops rest ->
  match flat_map (fmt false) args ++ rest with TAnnot _ :: _ => False | _ => True end.
Proof.
  intro H. destruct args as [|a l]; simpl.
  - destruct rest as [|[] r]; simpl in *; try exact I; discriminate.
  - destruct (fmt_nonempty false a) as (t & r & E & Ht). rewrite E. simpl. destruct t; auto.
Qed.

Lemma parse_args_stop n rest : stops rest -> parse_args (S n) rest = POk [] rest.
Proof. destruct rest as [|[] r]; simpl; intro H; try reflexivity; discriminate. Qed.

(* the two statements proved together by induction on the expression *)
Definition arg_spec (p : pnode) : Prop :=
  forall n rest, length (fmt false p ++ rest) <= n ->
    parse_args (S n) (fmt false p ++ rest) = pr_map (cons p) (parse_args n rest).
Definition item_spec (p : pnode) : Prop :=
  forall n rest, stops rest -> length (fmt true p ++ rest) <= n ->
    parse_items (S n) (fmt true p ++ rest) = after_item (parse_items n) (Some p) rest.

Lemma args_list args :
  Forall arg_spec args ->
  forall n rest, stops rest -> length (flat_map (fmt false) args ++ rest) <= n ->
    parse_args (S n) (flat_map (fmt false) args ++ rest) = POk args rest.
Proof.
  induction 1 as [|a l Ha Hl IH]; intros n rest Hs Hn; cbn [flat_map app] in *.
  - apply parse_args_stop, Hs.
  - rewrite <- app_assoc in *. rewrite Ha by exact Hn.
    pose proof (fmt_length_pos false a) as Hp. rewrite app_length in Hn.
    destruct n as [|n]; [lia|]. rewrite IH; [reflexivity | exact Hs | lia].
Qed.

Lemma items_list items :
  Forall item_spec items ->
  forall n rest, closes rest -> length (join_semi (map (fmt true) items) ++ rest) <= n ->
    parse_items (S n) (join_semi (map (fmt true) items) ++ rest) = POk (items, 2 <=? length items) rest.
Proof.
  induction 1 as [|a l Ha Hl IH]; intros n rest Hc Hn.
  - simpl. destruct rest as [|[] r]; simpl in Hc; try contradiction; reflexivity.
  - destruct l as [|b l].
    + cbn [map join_semi] in *. rewrite Ha; [| apply closes_stops, Hc | exact Hn].
      destruct rest as [|[] r]; simpl in Hc; try contradiction; reflexivity.
    + change (join_semi (map (fmt true) (a :: b :: l)))
        with (fmt true a ++ TSemi :: join_semi (map (fmt true) (b :: l))) in *.
      rewrite <- app_assoc in *. simpl app in *.
      rewrite Ha; [| reflexivity | exact Hn].
      pose proof (fmt_length_pos true a) as Hp. rewrite app_length in Hn. simpl in Hn.
      destruct n as [|n]; [lia|].
      cbn [after_item]. rewrite IH; [| exact Hc | lia].
      reflexivity.
Qed.

Lemma fmt_specs : forall p, framed_ok p = true ->
  (arg_framed p = true -> arg_spec p) /\ item_spec p.
Proof.
  induction p as [r|r|r|nm annots args IH|items IH] using pnode_ind'; intro Hf.
  - split; [intros _|]; intros n rest; intros; reflexivity.
  - split; [intros _|]; intros n rest; intros; reflexivity.
  - split; [intros _|]; intros n rest; intros; reflexivity.
  - (* primitive application *)
    assert (Hargs : Forall arg_spec args).
    { simpl in Hf. rewrite forallb_forall in Hf. rewrite Forall_forall in *.
      intros a Ha. specialize (Hf a Ha). apply andb_true_iff in Hf. destruct Hf as [H1 H2].
      apply (IH a Ha H1). exact H2. }
    split.
    + intros Haf n rest Hn. unfold arg_framed in Haf. cbn [fmt] in *.
      rewrite andb_true_r in *.
      destruct (is_framed nm (nonempty annots)) eqn:Efr.
      * (* parenthesised *)
        cbn [app] in *. rewrite <- !app_assoc in *. cbn [app] in *.
        cbn [parse_args]. unfold expr_tail.
        rewrite span_annots_app by (apply flat_fmt_no_annot; reflexivity).
        simpl in Hn. rewrite !app_length in Hn. simpl in Hn. rewrite map_length in Hn.
        destruct n as [|n]; [lia|].
        rewrite (args_list args Hargs n (TRParen :: rest)); [| reflexivity | simpl; rewrite app_length; simpl; lia].
        reflexivity.
      * (* a bare primitive *)
        rewrite orb_false_r in Haf. apply negb_true_iff in Haf. apply orb_false_iff in Haf.
        destruct Haf as [H1 H2]. destruct annots; [|discriminate]. destruct args; [|discriminate].
        reflexivity.
    + intros n rest Hs Hn. cbn [fmt] in *. rewrite andb_false_r in *.
      cbn [app] in *. rewrite <- !app_assoc in *.
      cbn [parse_items]. unfold expr_tail.
      rewrite span_annots_app by (apply flat_fmt_no_annot; exact Hs).
      simpl in Hn. rewrite !app_length in Hn. rewrite map_length in Hn.
      destruct n as [|n]; [lia|].
      rewrite (args_list args Hargs n rest); [| exact Hs | rewrite app_length; lia].
      reflexivity.
  - (* sequence *)
    assert (Hitems : Forall item_spec items).
    { simpl in Hf. rewrite forallb_forall in Hf. rewrite Forall_forall in *.
      intros a Ha. apply (IH a Ha (Hf a Ha)). }
    split; [intros _|]; intros n rest; intros; cbn [fmt] in *; cbn [app] in *;
      rewrite <- !app_assoc in *; cbn [app] in *.
    + cbn [parse_args]. unfold braced.
      simpl in H. rewrite !app_length in H. simpl in H.
      destruct n as [|n]; [lia|].
      rewrite (items_list items Hitems n (TRCurly :: rest)); [| exact I | rewrite app_length; simpl; lia].
      reflexivity.
    + cbn [parse_items]. unfold braced.
      simpl in H0. rewrite !app_length in H0. simpl in H0.
      destruct n as [|n]; [lia|].
      rewrite (items_list items Hitems n (TRCurly :: rest)); [| exact I | rewrite app_length; simpl; lia].
      reflexivity.
Qed.

Lemma items_spec_all items : forallb framed_ok items = true -> Forall item_spec items.
Proof.
  intro H. rewrite forallb_forall in H. apply Forall_forall. intros a Ha.
  apply (fmt_specs a (H a Ha)).
Qed.

(* ---- the parser inverts the formatter on token streams ---- *)
Lemma parse_top_fmt_root p :
  framed_ok p = true -> root_ok p = true -> parse_top (fmt_root p) = TopSome p.
Proof.
  intros Hf Hr.
  assert (Hgen : parse_top (fmt true p) = TopSome p).
  { unfold parse_top. pose proof (proj2 (fmt_specs p Hf)) as Hi.
    specialize (Hi (length (fmt true p)) [] I). rewrite app_nil_r in Hi.
    rewrite Hi by lia. reflexivity. }
  destruct p as [r|r|r|nm annots args|items]; try exact Hgen.
  unfold fmt_root. destruct (is_script items && nonempty items) eqn:Es; [|exact Hgen].
  apply andb_true_iff in Es. destruct Es as [Es Hne].
  unfold parse_top.
  pose proof (items_list items (items_spec_all items Hf) (length (join_semi (map (fmt true) items))) [] I) as Hl.
  rewrite app_nil_r in Hl. rewrite Hl by lia.
  destruct items as [|a [|b l]]; try discriminate.
  - (* exactly one section: excluded *)
    simpl in Hr. simpl in Es. rewrite andb_true_r in Es. rewrite Es in Hr. discriminate.
  - reflexivity.
Qed.

(* ---- fuel is never exhausted: every recursive call is made after a token was consumed ---- *)
Lemma span_annots_length ts : length (snd (span_annots ts)) <= length ts.
Proof.
  induction ts as [|t r IH]; simpl; [lia|].
  destruct t; simpl; try lia. destruct (span_annots r) as [l r'] eqn:E. simpl in *. lia.
Qed.

Lemma parse_no_fuel : forall n,
  (forall ts, length ts < n ->
     parse_items n ts <> PFuel /\ (forall a r, parse_items n ts = POk a r -> length r <= length ts)) /\
  (forall ts, length ts < n ->
     parse_args n ts <> PFuel /\ (forall a r, parse_args n ts = POk a r -> length r <= length ts)).
Proof.
  induction n as [|n [IHi IHa]].
  - split; intros ts H; lia.
  - assert (Hafter : forall it rest, length rest <= n ->
              after_item (parse_items n) it rest <> PFuel /\
              (forall a r, after_item (parse_items n) it rest = POk a r -> length r <= length rest)).
    { intros it rest Hl. unfold after_item.
      destruct rest as [|t rest']; [split; [discriminate | intros a r [= <- <-]; simpl; lia]|].
      destruct t; try (split; [discriminate | intros a r [= <- <-]; lia]).
      simpl in Hl. destruct (IHi rest' ltac:(lia)) as [H1 H2].
      destruct (parse_items n rest') as [[its b] r0| |] eqn:E; simpl.
      - split; [discriminate|]. intros a r [= <- <-]. specialize (H2 _ _ eq_refl). lia.
      - split; [discriminate | discriminate].
      - contradiction. }
    assert (Hbraced : forall rest, length rest < n ->
              braced (parse_items n) rest <> PFuel /\
              (forall a r, braced (parse_items n) rest = POk a r -> length r < length rest)).
    { intros rest Hl. unfold braced. destruct (IHi rest Hl) as [H1 H2].
      destruct (parse_items n rest) as [[its b] r0| |] eqn:E.
      - specialize (H2 _ _ eq_refl). destruct r0 as [|[] r0]; split; try discriminate.
        intros a r [= <- <-]. simpl in H2. lia.
      - split; discriminate.
      - contradiction. }
    assert (Hexpr : forall nm rest, length rest < n ->
              expr_tail (parse_args n) nm rest <> PFuel /\
              (forall a r, expr_tail (parse_args n) nm rest = POk a r -> length r <= length rest)).
    { intros nm rest Hl. unfold expr_tail. pose proof (span_annots_length rest) as Hs.
      destruct (span_annots rest) as [annots ts']. simpl in Hs.
      destruct (IHa ts' ltac:(lia)) as [H1 H2].
      destruct (parse_args n ts') as [a0 r0| |] eqn:E; simpl.
      - split; [discriminate|]. intros a r [= <- <-]. specialize (H2 _ _ eq_refl). lia.
      - split; discriminate.
      - contradiction. }
    split; intros ts Hl.
    + cbn [parse_items]. destruct ts as [|t rest].
      * apply Hafter. lia.
      * simpl in Hl.
        destruct t; try (destruct (Hafter None (TAnnot raw :: rest) ltac:(simpl; lia)) as [H1 H2]; split; [exact H1 | exact H2]).
        all: try (destruct (Hafter (Some (PInt raw)) rest ltac:(lia)) as [H1 H2]; split; [exact H1 | intros a r E; specialize (H2 a r E); simpl; lia]).
        all: try (destruct (Hafter (Some (PByt raw)) rest ltac:(lia)) as [H1 H2]; split; [exact H1 | intros a r E; specialize (H2 a r E); simpl; lia]).
        all: try (destruct (Hafter (Some (PStr raw)) rest ltac:(lia)) as [H1 H2]; split; [exact H1 | intros a r E; specialize (H2 a r E); simpl; lia]).
        -- (* TPrim *)
           destruct (Hexpr name rest ltac:(lia)) as [H1 H2].
           destruct (expr_tail (parse_args n) name rest) as [e r0| |] eqn:E; [| split; discriminate | contradiction].
           specialize (H2 _ _ eq_refl).
           destruct (Hafter (Some e) r0 ltac:(lia)) as [H3 H4]. split; [exact H3|].
           intros a r E'. specialize (H4 a r E'). simpl. lia.
        -- (* TLCurly *)
           destruct (Hbraced rest ltac:(lia)) as [H1 H2].
           destruct (braced (parse_items n) rest) as [e r0| |] eqn:E; [| split; discriminate | contradiction].
           specialize (H2 _ _ eq_refl).
           destruct (Hafter (Some e) r0 ltac:(lia)) as [H3 H4]. split; [exact H3|].
           intros a r E'. specialize (H4 a r E'). simpl. lia.
        -- destruct (Hafter None (TRCurly :: rest) ltac:(simpl; lia)) as [H1 H2]. split; [exact H1 | exact H2].
        -- destruct (Hafter None (TLParen :: rest) ltac:(simpl; lia)) as [H1 H2]. split; [exact H1 | exact H2].
        -- destruct (Hafter None (TRParen :: rest) ltac:(simpl; lia)) as [H1 H2]. split; [exact H1 | exact H2].
        -- destruct (Hafter None (TSemi :: rest) ltac:(simpl; lia)) as [H1 H2]. split; [exact H1 | exact H2].
    + cbn [parse_args]. destruct ts as [|t rest].
      * split; [discriminate | intros a r [= <- <-]; lia].
      * simpl in Hl.
        assert (Hcont : forall (x : pnode) r0, length r0 <= length rest ->
                  pr_map (cons x) (parse_args n r0) <> PFuel /\
                  (forall a r, pr_map (cons x) (parse_args n r0) = POk a r -> length r <= length (t :: rest))).
        { intros x r0 Hr0. destruct (IHa r0 ltac:(lia)) as [H1 H2].
          destruct (parse_args n r0) as [a0 r1| |] eqn:E; simpl.
          - split; [discriminate|]. intros a r [= <- <-]. specialize (H2 _ _ eq_refl). lia.
          - split; discriminate.
          - contradiction. }
        destruct t; try (apply Hcont; lia);
          try (split; [discriminate | intros a r [= <- <-]; simpl; lia]).
        -- (* TLCurly *)
           destruct (Hbraced rest ltac:(lia)) as [H1 H2].
           destruct (braced (parse_items n) rest) as [e r0| |] eqn:E; [| split; discriminate | contradiction].
           specialize (H2 _ _ eq_refl). apply Hcont. lia.
        -- (* TLParen *)
           destruct rest as [|t2 rest2]; [split; discriminate|].
           destruct t2; try (split; discriminate).
           simpl in Hl.
           destruct (Hexpr name rest2 ltac:(lia)) as [H1 H2].
           destruct (expr_tail (parse_args n) name rest2) as [e r0| |] eqn:E; [| split; discriminate | contradiction].
           specialize (H2 _ _ eq_refl).
           destruct r0 as [|t3 r0]; [split; discriminate|].
           destruct t3; try (split; discriminate).
           apply Hcont. simpl in *. lia.
Qed.

Lemma parse_top_no_fuel ts : parse_top ts <> TopFuel.
Proof.
  unfold parse_top. destruct (proj1 (parse_no_fuel (S (length ts))) ts ltac:(lia)) as [H _].
  destruct (parse_items (S (length ts)) ts) as [[its semi] [|t r]| |]; try discriminate; try contradiction.
  destruct semi; [discriminate|]. destruct its as [|x [|y l]]; discriminate.
Qed.

(* ---------------------------------------------------------------------------------------------- *)
(* Semantic values: reading back the literal texts the formatter writes                            *)
(* ---------------------------------------------------------------------------------------------- *)
From Coq Require Import Decimal DecimalN DecimalPos.
From PV Require Import Proofs.Printer_proofs.

Lemma bytes_uint_uint_bytes u : bytes_uint (uint_bytes u) = u.
Proof. induction u; simpl; try reflexivity; rewrite IHu; reflexivity. Qed.

Lemma uint_bytes_head_not_minus u c d : uint_bytes u = c :: d -> byte_eqb c c_minus = false.
Proof. destruct u; simpl; intro H; try discriminate; injection H as <- _; reflexivity. Qed.

Lemma Z_of_dec_of_Z z : Z_of_dec (dec_of_Z z) = z.
Proof.
  destruct z as [|p|p]; unfold dec_of_Z.
  - reflexivity.
  - pose proof (pos_uint_bytes_nonempty p) as Hne.
    destruct (uint_bytes (N.to_uint (N.pos p))) as [|c d] eqn:E; [contradiction|].
    unfold Z_of_dec. rewrite (uint_bytes_head_not_minus _ _ _ E). rewrite <- E.
    rewrite bytes_uint_uint_bytes, DecimalN.Unsigned.of_to. reflexivity.
  - unfold Z_of_dec. change (byte_eqb c_minus c_minus) with true. cbv iota.
    rewrite bytes_uint_uint_bytes, DecimalN.Unsigned.of_to. reflexivity.
Qed.

Lemma unhex_hex_of_byte c rest : unhex (hex_of_byte c ++ rest) = option_map (cons c) (unhex rest).
Proof. destruct c; cbn [hex_of_byte app]; simpl; destruct (unhex rest); reflexivity. Qed.

Lemma unhex_hex_of_bytes b : unhex (hex_of_bytes b) = Some b.
Proof.
  unfold hex_of_bytes. induction b as [|c b IH]; cbn [flat_map]; [reflexivity|].
  rewrite unhex_hex_of_byte, IH. reflexivity.
Qed.

Lemma json_unescape_escape_byte c rest :
  json_unescape (escape_byte c ++ rest) = rcons (ROk c) (json_unescape rest).
Proof. destruct c; reflexivity. Qed.

Lemma json_unescape_escape s : json_unescape (json_escape s) = ROk s.
Proof.
  unfold json_escape. induction s as [|c s IH]; cbn [flat_map]; [reflexivity|].
  rewrite json_unescape_escape_byte, IH. reflexivity.
Qed.

Lemma resolve_list l :
  Forall (fun e => tags_ok e = true -> resolve (to_pnode e) = ROk e) l ->
  forallb tags_ok l = true ->
  (fix go (l : list pnode) : rres (list node) :=
     match l with [] => ROk [] | x :: r => rcons (resolve x) (go r) end) (map to_pnode l) = ROk l.
Proof.
  induction 1 as [|a l Ha Hl IH]; intro H; [reflexivity|].
  simpl in H. apply andb_true_iff in H. destruct H as [H1 H2].
  cbn [map]. rewrite (Ha H1), (IH H2). reflexivity.
Qed.

(* the parser's semantic actions read every formatted literal and name back *)
Lemma resolve_to_pnode : forall e, tags_ok e = true -> resolve (to_pnode e) = ROk e.
Proof.
  induction e as [z|s|b|t args annots IH|items IH] using node_ind'; intro H.
  - simpl. rewrite Z_of_dec_of_Z. reflexivity.
  - simpl. rewrite json_unescape_escape. reflexivity.
  - simpl. rewrite unhex_hex_of_bytes. reflexivity.
  - simpl in H. apply andb_true_iff in H. destruct H as [H H3]. apply andb_true_iff in H. destruct H as [H1 H2].
    destruct (name_of_tag t) as [n|] eqn:En; [|discriminate].
    cbn [to_pnode resolve]. rewrite En, (resolve_list args IH H3), (tag_of_name_of_tag t n En).
    reflexivity.
  - simpl in H. cbn [to_pnode resolve]. rewrite (resolve_list items IH H). reflexivity.
Qed.

(* tokens of a formatted expression parse back to that expression *)
Lemma parse_tokens_fmt_tokens e : wf_expr e = true -> parse_tokens (fmt_tokens e) = TNode e.
Proof.
  unfold wf_expr. intro H. apply andb_true_iff in H. destruct H as [H Hr].
  apply andb_true_iff in H. destruct H as [Ht Hf].
  unfold parse_tokens, fmt_tokens. rewrite (parse_top_fmt_root _ Hf Hr).
  rewrite (resolve_to_pnode e Ht). reflexivity.
Qed.

(* ---------------------------------------------------------------------------------------------- *)
(* Text level: michelson_to_micheline on any layout of the formatter's tokens                      *)
(* ---------------------------------------------------------------------------------------------- *)
From PV Require Import Proofs.Lexer_proofs.

Lemma strip_parens_id s :
  (match s with c :: _ => byte_eqb c c_lparen = false | [] => True end) -> strip_parens s = s.
Proof. destruct s as [|c r]; simpl; [reflexivity|]. intros ->. reflexivity. Qed.

Lemma digit_not_lparen c : is_digit c = true -> byte_eqb c c_lparen = false.
Proof. destruct c; intro H; try discriminate H; reflexivity. Qed.
Lemma sigil_not_lparen c : is_sigil c = true -> byte_eqb c c_lparen = false.
Proof. destruct c; intro H; try discriminate H; reflexivity. Qed.
Lemma alpha_not_lparen c : is_alpha c = true -> byte_eqb c c_lparen = false.
Proof. destruct c; intro H; try discriminate H; reflexivity. Qed.
Lemma ws_not_lparen c : is_ws c = true -> byte_eqb c c_lparen = false.
Proof. destruct c; intro H; try discriminate H; reflexivity. Qed.

Lemma token_head t rest : wf_token t = true -> t <> TLParen ->
  match render_token t ++ rest with c :: _ => byte_eqb c c_lparen = false | [] => True end.
Proof.
  intros Hw Hne. destruct t as [r|r|r|r|n| | | | |]; simpl in *; try reflexivity.
  - unfold wf_int_raw in Hw. destruct r as [|c d]; [discriminate|]. simpl.
    destruct (byte_eqb c c_minus) eqn:E.
    + apply byte_eqb_spec in E. subst c. reflexivity.
    + simpl in Hw. apply andb_true_iff in Hw. apply digit_not_lparen, Hw.
  - unfold wf_annot in Hw. destruct (span is_sigil r) as [sg tl] eqn:E.
    destruct (span_spec _ _ _ _ E) as (-> & Hs & _).
    destruct sg as [|c sg]; [discriminate|]. simpl in *.
    apply andb_true_iff in Hs. apply sigil_not_lparen, Hs.
  - unfold wf_name in Hw. destruct n as [|c [|a tl]]; try discriminate. simpl.
    apply andb_true_iff in Hw. apply alpha_not_lparen, Hw.
  - contradiction.
Qed.

Lemma render_head lt final t r :
  map snd lt = t :: r -> t <> TLParen -> wf_token t = true -> layout_ok None lt = true ->
  match render lt final with c :: _ => byte_eqb c c_lparen = false | [] => True end.
Proof.
  intros Hm Hne Hw Hl. destruct lt as [|[g t'] lt]; [discriminate|].
  simpl in Hm. injection Hm as -> _.
  cbn [layout_ok] in Hl. apply andb_true_iff in Hl. destruct Hl as [Hl _].
  apply andb_true_iff in Hl. destruct Hl as [Hg _].
  cbn [render]. destruct g as [|f g].
  - simpl. apply token_head; assumption.
  - simpl in Hg. apply andb_true_iff in Hg. destruct Hg as [Hf _].
    cbn [render_gap flat_map]. rewrite <- !app_assoc.
    destruct f as [c|b|b]; simpl; [apply ws_not_lparen, Hf | reflexivity | reflexivity].
Qed.

(* michelson_to_micheline inverts micheline_to_michelson whatever the layout *)
Lemma parse_text_render e lt final :
  wf_expr e = true -> map snd lt = fmt_tokens e ->
  layout_ok None lt = true -> forallb wf_filler final = true ->
  parse_text (render lt final) = TNode e.
Proof.
  intros He Hm Hl Hf.
  assert (Ht : tags_ok e = true).
  { unfold wf_expr in He. apply andb_true_iff in He. destruct He as [He _].
    apply andb_true_iff in He. apply He. }
  pose proof (fmt_tokens_wf e Ht) as Hw.
  unfold parse_text.
  destruct (fmt_root_head (to_pnode e)) as (t & r & Eh & Hne).
  rewrite strip_parens_id.
  - rewrite lex_render; [| exact Hl | rewrite Hm; exact Hw | exact Hf].
    rewrite Hm. apply parse_tokens_fmt_tokens, He.
  - apply (render_head lt final t r); [rewrite Hm; exact Eh | exact Hne | | exact Hl].
    unfold fmt_tokens in Hw. rewrite Eh in Hw. simpl in Hw. apply andb_true_iff in Hw. apply Hw.
Qed.

(* the canonical layouts: one space between any two tokens / no space next to brackets *)
Definition spaced (ts : list token) : list (gap * token) :=
  match ts with
  | [] => []
  | t :: r => ([], t) :: map (fun t => ([FWs c_sp], t)) r
  end.

Lemma layout_ok_spaced_tail prev r : layout_ok prev (map (fun t => ([FWs c_sp], t)) r) = true.
Proof. revert prev. induction r as [|t r IH]; intro prev; simpl; [reflexivity | apply IH]. Qed.

Lemma layout_ok_spaced ts : layout_ok None (spaced ts) = true.
Proof. destruct ts as [|t r]; simpl; [reflexivity | apply layout_ok_spaced_tail]. Qed.

Lemma map_snd_spaced ts : map snd (spaced ts) = ts.
Proof.
  destruct ts as [|t r]; simpl; [reflexivity|]. f_equal.
  induction r as [|x r IH]; simpl; [reflexivity | rewrite IH; reflexivity].
Qed.

(* micheline_to_michelson(wrap=True) only adds one pair of outer parentheses: the parser strips it *)
Lemma strip_parens_wrap s : strip_parens (c_lparen :: s ++ [c_rparen]) = s.
Proof.
  unfold strip_parens. change (byte_eqb c_lparen c_lparen) with true. cbv iota.
  rewrite rev_unit. change (byte_eqb c_rparen c_rparen) with true. cbv iota. apply rev_involutive.
Qed.

Lemma parse_text_wrap s : strip_parens s = s -> parse_text (c_lparen :: s ++ [c_rparen]) = parse_text s.
Proof. intro H. unfold parse_text. rewrite strip_parens_wrap, H. reflexivity. Qed.

(* distinct expressions of the domain never print to the same token stream *)
Lemma fmt_tokens_injective e1 e2 :
  wf_expr e1 = true -> wf_expr e2 = true -> fmt_tokens e1 = fmt_tokens e2 -> e1 = e2.
Proof.
  intros H1 H2 E. pose proof (parse_tokens_fmt_tokens e1 H1) as P1.
  rewrite E, (parse_tokens_fmt_tokens e2 H2) in P1. injection P1 as <-. reflexivity.
Qed.

(* ---------------------------------------------------------------------------------------------- *)
(* The exact text of micheline_to_michelson, inline or multi-line                                  *)
(* ---------------------------------------------------------------------------------------------- *)
Lemma lex_format_text inline e :
  tags_ok e = true -> lex (format_text inline e) = LexOk (fmt_tokens e).
Proof.
  intro Ht. unfold format_text, fmt_tokens.
  destruct (fmtx_root_ok inline (to_pnode e)) as [T E]. rewrite <- T.
  apply lex_pieces.
  - apply E. right. left. reflexivity.
  - rewrite T. apply (fmt_tokens_wf e Ht).
Qed.

Lemma parse_format_text inline e : wf_expr e = true -> parse_text (format_text inline e) = TNode e.
Proof.
  intro He.
  assert (Ht : tags_ok e = true).
  { unfold wf_expr in He. apply andb_true_iff in He. destruct He as [He _].
    apply andb_true_iff in He. apply He. }
  pose proof (lex_format_text inline e Ht) as L.
  destruct (fmt_root_head (to_pnode e)) as (t & r & Eh & Hne).
  unfold parse_text. rewrite strip_parens_id.
  - rewrite L. apply parse_tokens_fmt_tokens, He.
  - apply (lex_head_not_lparen _ t r); [|exact Hne]. rewrite L. unfold fmt_tokens. rewrite Eh. reflexivity.
Qed.
