(* Proofs/Parser_proofs.v — the recursive-descent parser inverts the formatter's token stream. *)
From Coq Require Import List NArith ZArith Bool Lia Arith.
From Coq.Strings Require Import Byte.
From PV Require Import Base.Bytes Codec.Micheline Codec.Printer Codec.Lexer Codec.Parser.
Import ListNotations.
Local Open Scope list_scope.

(* tokens that end an argument list / an instruction *)
Definition stop_tok (t : token) : bool :=
  match t with TSemi | TRCurly | TRParen => true | _ => false end.
Definition stops (rest : list token) : Prop :=
  match rest with [] => True | t :: _ => stop_tok t = true end.
(* tokens that end an instruction list *)
Definition closes (rest : list token) : Prop :=
  match rest with [] => True | TRCurly :: _ => True | _ => False end.

Lemma closes_stops rest : closes rest -> stops rest.
Proof. destruct rest as [|[] r]; simpl; intro H; try contradiction; auto. Qed.

Lemma span_annots_app annots rest :
  (match rest with TAnnot _ :: _ => False | _ => True end) ->
  span_annots (map TAnnot annots ++ rest) = (annots, rest).
Proof.
  intro H. induction annots as [|a l IH]; simpl.
  - destruct rest as [|[] r]; try reflexivity. contradiction.
  - rewrite IH. reflexivity.
Qed.

Lemma fmt_nonempty w p : exists t r, fmt w p = t :: r /\ (match t with TAnnot _ => False | _ => True end).
Proof.
  destruct p as [r|r|r|n annots args|items]; simpl; try (eexists; eexists; split; [reflexivity|exact I]).
  destruct (is_framed n (nonempty annots) && negb w); eexists; eexists; split; try reflexivity; exact I.
Qed.

Lemma fmt_length_pos w p : 1 <= length (fmt w p).
Proof. destruct (fmt_nonempty w p) as (t & r & E & _). rewrite E. simpl. lia. Qed.

Lemma flat_fmt_no_annot args rest :
  stops rest ->
  match flat_map (fmt false) args ++ rest with TAnnot _ :: _ => False | _ => True end.
Proof.
  intro H. destruct args as [|a l]; simpl.
  - destruct rest as [|[] r]; simpl in *; try exact I; discriminate.
  - destruct (fmt_nonempty false a) as (t & r & E & Ht). rewrite E. simpl. destruct t; auto.
Qed.

Lemma parse_args_stop n rest : stops rest -> parse_args (S n) rest = POk [] rest.
Proof. destruct rest as [|[] r]; simpl; intro H; try reflexivity; discriminate. Qed.

(* the two statements proved together by induction on the expression *)
Definition arg_spec (p : pnode) : Prop :=
  forall n rest, length (fmt false p ++ rest) <= n ->
    parse_args (S n) (fmt false p ++ rest) = pr_map (cons p) (parse_args n rest).
Definition item_spec (p : pnode) : Prop :=
  forall n rest, stops rest -> length (fmt true p ++ rest) <= n ->
    parse_items (S n) (fmt true p ++ rest) = after_item (parse_items n) (Some p) rest.

Lemma args_list args :
  Forall arg_spec args ->
  forall n rest, stops rest -> length (flat_map (fmt false) args ++ rest) <= n ->
    parse_args (S n) (flat_map (fmt false) args ++ rest) = POk args rest.
Proof.
  induction 1 as [|a l Ha Hl IH]; intros n rest Hs Hn; cbn [flat_map app] in *.
  - apply parse_args_stop, Hs.
  - rewrite <- app_assoc in *. rewrite Ha by exact Hn.
    pose proof (fmt_length_pos false a) as Hp. rewrite app_length in Hn.
    destruct n as [|n]; [lia|]. rewrite IH; [reflexivity | exact Hs | lia].
Qed.

Lemma items_list items :
  Forall item_spec items ->
  forall n rest, closes rest -> length (join_semi (map (fmt true) items) ++ rest) <= n ->
    parse_items (S n) (join_semi (map (fmt true) items) ++ rest) = POk (items, 2 <=? length items) rest.
Proof.
  induction 1 as [|a l Ha Hl IH]; intros n rest Hc Hn.
  - simpl. destruct rest as [|[] r]; simpl in Hc; try contradiction; reflexivity.
  - destruct l as [|b l].
    + cbn [map join_semi] in *. rewrite Ha; [| apply closes_stops, Hc | exact Hn].
      destruct rest as [|[] r]; simpl in Hc; try contradiction; reflexivity.
    + change (join_semi (map (fmt true) (a :: b :: l)))
        with (fmt true a ++ TSemi :: join_semi (map (fmt true) (b :: l))) in *.
      rewrite <- app_assoc in *. simpl app in *.
      rewrite Ha; [| reflexivity | exact Hn].
      pose proof (fmt_length_pos true a) as Hp. rewrite app_length in Hn. simpl in Hn.
      destruct n as [|n]; [lia|].
      cbn [after_item]. rewrite IH; [| exact Hc | lia].
      reflexivity.
Qed.

Lemma fmt_specs : forall p, framed_ok p = true ->
  (arg_framed p = true -> arg_spec p) /\ item_spec p.
Proof.
  induction p as [r|r|r|nm annots args IH|items IH] using pnode_ind'; intro Hf.
  - split; [intros _|]; intros n rest; intros; reflexivity.
  - split; [intros _|]; intros n rest; intros; reflexivity.
  - split; [intros _|]; intros n rest; intros; reflexivity.
  - (* primitive application *)
    assert (Hargs : Forall arg_spec args).
    { simpl in Hf. rewrite forallb_forall in Hf. rewrite Forall_forall in *.
      intros a Ha. specialize (Hf a Ha). apply andb_true_iff in Hf. destruct Hf as [H1 H2].
      apply (IH a Ha H1). exact H2. }
    split.
    + intros Haf n rest Hn. unfold arg_framed in Haf. cbn [fmt] in *.
      rewrite andb_true_r in *.
      destruct (is_framed nm (nonempty annots)) eqn:Efr.
      * (* parenthesised *)
        cbn [app] in *. rewrite <- !app_assoc in *. cbn [app] in *.
        cbn [parse_args]. unfold expr_tail.
        rewrite span_annots_app by (apply flat_fmt_no_annot; reflexivity).
        simpl in Hn. rewrite !app_length in Hn. simpl in Hn. rewrite map_length in Hn.
        destruct n as [|n]; [lia|].
        rewrite (args_list args Hargs n (TRParen :: rest)); [| reflexivity | simpl; rewrite app_length; simpl; lia].
        reflexivity.
      * (* a bare primitive *)
        rewrite orb_false_r in Haf. apply negb_true_iff in Haf. apply orb_false_iff in Haf.
        destruct Haf as [H1 H2]. destruct annots; [|discriminate]. destruct args; [|discriminate].
        reflexivity.
    + intros n rest Hs Hn. cbn [fmt] in *. rewrite andb_false_r in *.
      cbn [app] in *. rewrite <- !app_assoc in *.
      cbn [parse_items]. unfold expr_tail.
      rewrite span_annots_app by (apply flat_fmt_no_annot; exact Hs).
      simpl in Hn. rewrite !app_length in Hn. rewrite map_length in Hn.
      destruct n as [|n]; [lia|].
      rewrite (args_list args Hargs n rest); [| exact Hs | rewrite app_length; lia].
      reflexivity.
  - (* sequence *)
    assert (Hitems : Forall item_spec items).
    { simpl in Hf. rewrite forallb_forall in Hf. rewrite Forall_forall in *.
      intros a Ha. apply (IH a Ha (Hf a Ha)). }
    split; [intros _|]; intros n rest; intros; cbn [fmt] in *; cbn [app] in *;
      rewrite <- !app_assoc in *; cbn [app] in *.
    + cbn [parse_args]. unfold braced.
      simpl in H. rewrite !app_length in H. simpl in H.
      destruct n as [|n]; [lia|].
      rewrite (items_list items Hitems n (TRCurly :: rest)); [| exact I | rewrite app_length; simpl; lia].
      reflexivity.
    + cbn [parse_items]. unfold braced.
      simpl in H0. rewrite !app_length in H0. simpl in H0.
      destruct n as [|n]; [lia|].
      rewrite (items_list items Hitems n (TRCurly :: rest)); [| exact I | rewrite app_length; simpl; lia].
      reflexivity.
Qed.

Lemma items_spec_all items : forallb framed_ok items = true -> Forall item_spec items.
Proof.
  intro H. rewrite forallb_forall in H. apply Forall_forall. intros a Ha.
  apply (fmt_specs a (H a Ha)).
Qed.

(* ---- the parser inverts the formatter on token streams ---- *)
Lemma parse_top_fmt_root p :
  framed_ok p = true -> root_ok p = true -> parse_top (fmt_root p) = TopSome p.
Proof.
  intros Hf Hr.
  assert (Hgen : parse_top (fmt true p) = TopSome p).
  { unfold parse_top. pose proof (proj2 (fmt_specs p Hf)) as Hi.
    specialize (Hi (length (fmt true p)) [] I). rewrite app_nil_r in Hi.
    rewrite Hi by lia. reflexivity. }
  destruct p as [r|r|r|nm annots args|items]; try exact Hgen.
  unfold fmt_root. destruct (is_script items && nonempty items) eqn:Es; [|exact Hgen].
  apply andb_true_iff in Es. destruct Es as [Es Hne].
  unfold parse_top.
  pose proof (items_list items (items_spec_all items Hf) (length (join_semi (map (fmt true) items))) [] I) as Hl.
  rewrite app_nil_r in Hl. rewrite Hl by lia.
  destruct items as [|a [|b l]]; try discriminate.
  - (* exactly one section: excluded *)
    simpl in Hr. simpl in Es. rewrite andb_true_r in Es. rewrite Es in Hr. discriminate.
  - reflexivity.
Qed.

(* ---- fuel is never exhausted: every recursive call is made after a token was consumed ---- *)
Lemma span_annots_length ts : length (snd (span_annots ts)) <= length ts.
Proof.
  induction ts as [|t r IH]; simpl; [lia|].
  destruct t; simpl; try lia. destruct (span_annots r) as [l r'] eqn:E. simpl in *. lia.
Qed.

Lemma parse_no_fuel : forall n,
  (forall ts, length ts < n ->
     parse_items n ts <> PFuel /\ (forall a r, parse_items n ts = POk a r -> length r <= length ts)) /\
  (forall ts, length ts < n ->
     parse_args n ts <> PFuel /\ (forall a r, parse_args n ts = POk a r -> length r <= length ts)).
Proof.
  induction n as [|n [IHi IHa]].
  - split; intros ts H; lia.
  - assert (Hafter : forall it rest, length rest <= n ->
              after_item (parse_items n) it rest <> PFuel /\
              (forall a r, after_item (parse_items n) it rest = POk a r -> length r <= length rest)).
    { intros it rest Hl. unfold after_item.
      destruct rest as [|t rest']; [split; [discriminate | intros a r [= <- <-]; simpl; lia]|].
      destruct t; try (split; [discriminate | intros a r [= <- <-]; lia]).
      simpl in Hl. destruct (IHi rest' ltac:(lia)) as [H1 H2].
      destruct (parse_items n rest') as [[its b] r0| |] eqn:E; simpl.
      - split; [discriminate|]. intros a r [= <- <-]. specialize (H2 _ _ eq_refl). lia.
      - split; [discriminate | discriminate].
      - contradiction. }
    assert (Hbraced : forall rest, length rest < n ->
              braced (parse_items n) rest <> PFuel /\
              (forall a r, braced (parse_items n) rest = POk a r -> length r < length rest)).
    { intros rest Hl. unfold braced. destruct (IHi rest Hl) as [H1 H2].
      destruct (parse_items n rest) as [[its b] r0| |] eqn:E.
      - specialize (H2 _ _ eq_refl). destruct r0 as [|[] r0]; split; try discriminate.
        intros a r [= <- <-]. simpl in H2. lia.
      - split; discriminate.
      - contradiction. }
    assert (Hexpr : forall nm rest, length rest < n ->
              expr_tail (parse_args n) nm rest <> PFuel /\
              (forall a r, expr_tail (parse_args n) nm rest = POk a r -> length r <= length rest)).
    { intros nm rest Hl. unfold expr_tail. pose proof (span_annots_length rest) as Hs.
      destruct (span_annots rest) as [annots ts']. simpl in Hs.
      destruct (IHa ts' ltac:(lia)) as [H1 H2].
      destruct (parse_args n ts') as [a0 r0| |] eqn:E; simpl.
      - split; [discriminate|]. intros a r [= <- <-]. specialize (H2 _ _ eq_refl). lia.
      - split; discriminate.
      - contradiction. }
    split; intros ts Hl.
    + cbn [parse_items]. destruct ts as [|t rest].
      * apply Hafter. lia.
      * simpl in Hl.
        destruct t; try (destruct (Hafter None (TAnnot raw :: rest) ltac:(simpl; lia)) as [H1 H2]; split; [exact H1 | exact H2]).
        all: try (destruct (Hafter (Some (PInt raw)) rest ltac:(lia)) as [H1 H2]; split; [exact H1 | intros a r E; specialize (H2 a r E); simpl; lia]).
        all: try (destruct (Hafter (Some (PByt raw)) rest ltac:(lia)) as [H1 H2]; split; [exact H1 | intros a r E; specialize (H2 a r E); simpl; lia]).
        all: try (destruct (Hafter (Some (PStr raw)) rest ltac:(lia)) as [H1 H2]; split; [exact H1 | intros a r E; specialize (H2 a r E); simpl; lia]).
        -- (* TPrim *)
           destruct (Hexpr name rest ltac:(lia)) as [H1 H2].
           destruct (expr_tail (parse_args n) name rest) as [e r0| |] eqn:E; [| split; discriminate | contradiction].
           specialize (H2 _ _ eq_refl).
           destruct (Hafter (Some e) r0 ltac:(lia)) as [H3 H4]. split; [exact H3|].
           intros a r E'. specialize (H4 a r E'). simpl. lia.
        -- (* TLCurly *)
           destruct (Hbraced rest ltac:(lia)) as [H1 H2].
           destruct (braced (parse_items n) rest) as [e r0| |] eqn:E; [| split; discriminate | contradiction].
           specialize (H2 _ _ eq_refl).
           destruct (Hafter (Some e) r0 ltac:(lia)) as [H3 H4]. split; [exact H3|].
           intros a r E'. specialize (H4 a r E'). simpl. lia.
        -- destruct (Hafter None (TRCurly :: rest) ltac:(simpl; lia)) as [H1 H2]. split; [exact H1 | exact H2].
        -- destruct (Hafter None (TLParen :: rest) ltac:(simpl; lia)) as [H1 H2]. split; [exact H1 | exact H2].
        -- destruct (Hafter None (TRParen :: rest) ltac:(simpl; lia)) as [H1 H2]. split; [exact H1 | exact H2].
        -- destruct (Hafter None (TSemi :: rest) ltac:(simpl; lia)) as [H1 H2]. split; [exact H1 | exact H2].
    + cbn [parse_args]. destruct ts as [|t rest].
      * split; [discriminate | intros a r [= <- <-]; lia].
      * simpl in Hl.
        assert (Hcont : forall (x : pnode) r0, length r0 <= length rest ->
                  pr_map (cons x) (parse_args n r0) <> PFuel /\
                  (forall a r, pr_map (cons x) (parse_args n r0) = POk a r -> length r <= length (t :: rest))).
        { intros x r0 Hr0. destruct (IHa r0 ltac:(lia)) as [H1 H2].
          destruct (parse_args n r0) as [a0 r1| |] eqn:E; simpl.
          - split; [discriminate|]. intros a r [= <- <-]. specialize (H2 _ _ eq_refl). lia.
          - split; discriminate.
          - contradiction. }
        destruct t; try (apply Hcont; lia);
          try (split; [discriminate | intros a r [= <- <-]; simpl; lia]).
        -- (* TLCurly *)
           destruct (Hbraced rest ltac:(lia)) as [H1 H2].
           destruct (braced (parse_items n) rest) as [e r0| |] eqn:E; [| split; discriminate | contradiction].
           specialize (H2 _ _ eq_refl). apply Hcont. lia.
        -- (* TLParen *)
           destruct rest as [|t2 rest2]; [split; discriminate|].
           destruct t2; try (split; discriminate).
           simpl in Hl.
           destruct (Hexpr name rest2 ltac:(lia)) as [H1 H2].
           destruct (expr_tail (parse_args n) name rest2) as [e r0| |] eqn:E; [| split; discriminate | contradiction].
           specialize (H2 _ _ eq_refl).
           destruct r0 as [|t3 r0]; [split; discriminate|].
           destruct t3; try (split; discriminate).
           apply Hcont. simpl in *. lia.
Qed.

Lemma parse_top_no_fuel ts : parse_top ts <> TopFuel.
Proof.
  unfold parse_top. destruct (proj1 (parse_no_fuel (S (length ts))) ts ltac:(lia)) as [H _].
  destruct (parse_items (S (length ts)) ts) as [[its semi] [|t r]| |]; try discriminate; try contradiction.
  destruct semi; [discriminate|]. destruct its as [|x [|y l]]; discriminate.
Qed.

(* ---------------------------------------------------------------------------------------------- *)
(* Semantic values: reading back the literal texts the formatter writes                            *)
(* ---------------------------------------------------------------------------------------------- *)
From Coq Require Import Decimal DecimalN DecimalPos.
From PV Require Import Proofs.Printer_proofs.

Lemma bytes_uint_uint_bytes u : bytes_uint (uint_bytes u) = u.
Proof. induction u; simpl; try reflexivity; rewrite IHu; reflexivity. Qed.

Lemma uint_bytes_head_not_minus u c d : uint_bytes u = c :: d -> byte_eqb c c_minus = false.
Proof. destruct u; simpl; intro H; try discriminate; injection H as <- _; reflexivity. Qed.

Lemma Z_of_dec_of_Z z : Z_of_dec (dec_of_Z z) = z.
Proof.
  destruct z as [|p|p]; unfold dec_of_Z.
  - reflexivity.
  - pose proof (pos_uint_bytes_nonempty p) as Hne.
    destruct (uint_bytes (N.to_uint (N.pos p))) as [|c d] eqn:E; [contradiction|].
    unfold Z_of_dec. rewrite (uint_bytes_head_not_minus _ _ _ E). rewrite <- E.
    rewrite bytes_uint_uint_bytes, DecimalN.Unsigned.of_to. reflexivity.
  - unfold Z_of_dec. change (byte_eqb c_minus c_minus) with true. cbv iota.
    rewrite bytes_uint_uint_bytes, DecimalN.Unsigned.of_to. reflexivity.
Qed.

Lemma unhex_hex_of_byte c rest : unhex (hex_of_byte c ++ rest) = option_map (cons c) (unhex rest).
Proof. destruct c; cbn [hex_of_byte app]; simpl; destruct (unhex rest); reflexivity. Qed.

Lemma unhex_hex_of_bytes b : unhex (hex_of_bytes b) = Some b.
Proof.
  unfold hex_of_bytes. induction b as [|c b IH]; cbn [flat_map]; [reflexivity|].
  rewrite unhex_hex_of_byte, IH. reflexivity.
Qed.

Lemma json_unescape_escape_byte c rest :
  json_unescape (escape_byte c ++ rest) = rcons (ROk c) (json_unescape rest).
Proof. destruct c; reflexivity. Qed.

Lemma json_unescape_escape s : json_unescape (json_escape s) = ROk s.
Proof.
  unfold json_escape. induction s as [|c s IH]; cbn [flat_map]; [reflexivity|].
  rewrite json_unescape_escape_byte, IH. reflexivity.
Qed.

Lemma resolve_list l :
  Forall (fun e => tags_ok e = true -> resolve (to_pnode e) = ROk e) l ->
  forallb tags_ok l = true ->
  (fix go (l : list pnode) : rres (list node) :=
     match l with [] => ROk [] | x :: r => rcons (resolve x) (go r) end) (map to_pnode l) = ROk l.
Proof.
  induction 1 as [|a l Ha Hl IH]; intro H; [reflexivity|].
  simpl in H. apply andb_true_iff in H. destruct H as [H1 H2].
  cbn [map]. rewrite (Ha H1), (IH H2). reflexivity.
Qed.

(* the parser's semantic actions read every formatted literal and name back *)
Lemma resolve_to_pnode : forall e, tags_ok e = true -> resolve (to_pnode e) = ROk e.
Proof.
  induction e as [z|s|b|t args annots IH|items IH] using node_ind'; intro H.
  - simpl. rewrite Z_of_dec_of_Z. reflexivity.
  - simpl. rewrite json_unescape_escape. reflexivity.
  - simpl. rewrite unhex_hex_of_bytes. reflexivity.
  - simpl in H. apply andb_true_iff in H. destruct H as [H H3]. apply andb_true_iff in H. destruct H as [H1 H2].
    destruct (name_of_tag t) as [n|] eqn:En; [|discriminate].
    cbn [to_pnode resolve]. rewrite En, (resolve_list args IH H3), (tag_of_name_of_tag t n En).
    reflexivity.
  - simpl in H. cbn [to_pnode resolve]. rewrite (resolve_list items IH H). reflexivity.
Qed.

(* tokens of a formatted expression parse back to that expression *)
Lemma parse_tokens_fmt_tokens e : wf_expr e = true -> parse_tokens (fmt_tokens e) = TNode e.
Proof.
  unfold wf_expr. intro H. apply andb_true_iff in H. destruct H as [H Hr].
  apply andb_true_iff in H. destruct H as [Ht Hf].
  unfold parse_tokens, fmt_tokens. rewrite (parse_top_fmt_root _ Hf Hr).
  rewrite (resolve_to_pnode e Ht). reflexivity.
Qed.
