(* Proofs/Fees_proofs.v — lemmas about Client/Fees.v (C24). *)
From Coq Require Import List NArith ZArith Bool Lia ZifyBool ZifyN.
From PV Require Import Client.Fees.
Import ListNotations.
Local Open Scope N_scope.
Ltac Zify.zify_post_hook ::= Z.to_euclidean_division_equations.

(* ---------------------------------------------------------------- zlen *)

Lemma zlen_ge_1 n : 1 <= zlen n.
Proof. unfold zlen. destruct (n =? 0); lia. Qed.

Lemma zlen_0 : zlen 0 = 1.
Proof. reflexivity. Qed.

(* n < 2^(7k) -> at most k bytes *)
Lemma zlen_le n k : 1 <= k -> n < 2 ^ (7 * k) -> zlen n <= k.
Proof.
  intros Hk Hn. unfold zlen. destruct (n =? 0) eqn:E; [lia|].
  apply N.eqb_neq in E.
  assert (HL : N.log2 n < 7 * k) by (apply N.log2_lt_pow2; lia).
  lia.
Qed.

Lemma zlen_le_11 n : n < 2 ^ 77 -> zlen n <= 11.
Proof. intro H. apply zlen_le; [lia | exact H]. Qed.

(* ---------------------------------------------------------------- sums *)

Lemma sumN_app a b : sumN (a ++ b) = sumN a + sumN b.
Proof. induction a as [|x a IH]; simpl; [reflexivity | unfold sumN in *; simpl; lia]. Qed.

Lemma sumN_cons x l : sumN (x :: l) = x + sumN l.
Proof. reflexivity. Qed.

Lemma nlen_cons {A} (x : A) l : nlen (x :: l) = 1 + nlen l.
Proof. unfold nlen. simpl length. lia. Qed.

Lemma nlen_nil {A} : nlen (@nil A) = 0.
Proof. reflexivity. Qed.

(* ---------------------------------------------------------------- setters *)

Lemma size_set_fee c f : size (set_fee c f) + zlen (fee c) = size c + zlen f.
Proof. unfold size, set_fee; simpl. lia. Qed.

Lemma gas_set_fee c f : gas_limit (set_fee c f) = gas_limit c.
Proof. reflexivity. Qed.

Lemma fee_set_fee c f : fee (set_fee c f) = f.
Proof. reflexivity. Qed.

(* ---------------------------------------------------------------- map2 *)

Lemma map2_length {A B C} (f : A -> B -> C) l1 l2 :
  length l2 = length l1 -> length (map2 f l1 l2) = length l1.
Proof.
  revert l2. induction l1 as [|a l1 IH]; intros [|b l2] H; simpl in *; try reflexivity; try discriminate.
  f_equal. apply IH. lia.
Qed.

Lemma map2_Forall {A B C} (P : C -> Prop) (f : A -> B -> C) l1 l2 :
  (forall a b, P (f a b)) -> Forall P (map2 f l1 l2).
Proof.
  intro H. revert l2. induction l1 as [|a l1 IH]; intros [|b l2]; simpl; constructor; auto.
Qed.

Lemma fill_from_length cv hg hs n first ctr cs :
  length (fill_from cv hg hs n first ctr cs) = length cs.
Proof.
  revert first ctr. induction cs as [|c r IH]; intros first ctr; simpl; [reflexivity|].
  f_equal. apply IH.
Qed.

Lemma fill_length cv hg hs ctr cs : length (fill cv hg hs ctr cs) = length cs.
Proof. apply fill_from_length. Qed.

(* ---------------------------------------------------------------- autofill *)

(* ten times the accumulated fee covers size, the per-content constant and the gas, up to the
   flooring loss of 0.9 mutez per content *)
Lemma autofill_fee_sum n l :
  10 * sumN (map (autofill_fee n) l) + 9 * nlen l
  >= 10 * (total_size l + nlen l * (111 + AUTOFILL_EXTRA_SIZE / n)) + total_gas l.
Proof.
  induction l as [|c l IH].
  - cbn. lia.
  - unfold total_size, total_gas in *. cbn [map]. rewrite !sumN_cons, nlen_cons.
    unfold autofill_fee at 1. unfold calculate_fee, MINIMAL_FEES, MINIMAL_MUTEZ_PER_BYTE,
      MINIMAL_NANOTEZ_PER_GAS_UNIT, DEFAULT_RESERVE.
    set (q := AUTOFILL_EXTRA_SIZE / n) in *.
    set (S := sumN (map (autofill_fee n) l)) in *.
    set (T := sumN (map size l)) in *. set (G := sumN (map gas_limit l)) in *.
    set (L := nlen l) in *.
    assert (Hg : 10 * (100 * gas_limit c / 1000) + 9 >= gas_limit c) by lia.
    lia.
Qed.

Lemma extra_split n : 1 <= n -> n * (AUTOFILL_EXTRA_SIZE / n) + n >= 97.
Proof.
  intro Hn. unfold AUTOFILL_EXTRA_SIZE.
  assert (H := N.div_mod (32 + 64) n ltac:(lia)).
  assert (H2 := N.mod_lt (32 + 64) n ltac:(lia)).
  lia.
Qed.

Lemma total_fee_zero l : Forall (fun c => fee c = 0) l -> total_fee l = 0.
Proof.
  unfold total_fee. induction 1 as [|c l Hc Hl IH]; [reflexivity|].
  cbn [map]. rewrite sumN_cons, Hc, IH. reflexivity.
Qed.

Lemma min_fee_le S G F : 1000 + 10 * S + G <= 10 * F -> min_fee S G <= F.
Proof. intro H. unfold min_fee, ceil_div. lia. Qed.

Lemma min_fee_gt S G F : 10 * F < 1000 + 10 * S + G -> F < min_fee S G.
Proof. intro H. unfold min_fee, ceil_div. lia. Qed.

Lemma autofill_content_fee0 offset c rs : fee (autofill_content offset c rs) = 0.
Proof. reflexivity. Qed.

(* the general statement about the second phase of autofill *)
Lemma autofill_of_filled_covers cv offset filled sims :
  filled <> [] -> length sims = length filled ->
  (cv <> BL \/ (2 <= length filled)%nat) ->
  let out := autofill_of_filled offset filled sims in
  total_fee out < 2 ^ 77 ->
  min_fee (signed_size cv out) (total_gas out) <= total_fee out.
Proof.
  intros Hne Hlen Hcv out Hbound.
  unfold out, autofill_of_filled in *.
  set (n := nlen filled) in *.
  set (cs' := map2 (autofill_content offset) filled sims) in *.
  assert (Hl' : length cs' = length filled) by (apply map2_length; exact Hlen).
  assert (Hz : Forall (fun c => fee c = 0) cs')
    by (apply map2_Forall; intros; apply autofill_content_fee0).
  assert (Hn : nlen cs' = n) by (unfold nlen, n; rewrite Hl'; reflexivity).
  assert (Hn1 : 1 <= n).
  { unfold n, nlen. destruct filled; [contradiction|]. simpl length. lia. }
  set (F := sumN (map (autofill_fee n) cs')) in *.
  pose proof (autofill_fee_sum n cs') as Hsum. fold F in Hsum. rewrite Hn in Hsum.
  pose proof (extra_split n Hn1) as Hex.
  destruct cs' as [|c1 r] eqn:Ecs.
  { exfalso. destruct filled; [contradiction|]. simpl in Hl'. discriminate. }
  inversion Hz as [|? ? Hc1 Hr]; subst.
  assert (HF : F <> 0).
  { unfold total_size, total_gas in Hsum. cbn [map] in Hsum. rewrite !sumN_cons in Hsum.
    assert (n * (111 + AUTOFILL_EXTRA_SIZE / n) >= 111) by nia. lia. }
  unfold put_fee_first in *. destruct (F =? 0) eqn:EF; [apply N.eqb_eq in EF; contradiction|].
  assert (Htf : total_fee (set_fee c1 F :: r) = F).
  { unfold total_fee. cbn [map]. rewrite sumN_cons, fee_set_fee.
    fold (total_fee r). rewrite (total_fee_zero r Hr). lia. }
  rewrite Htf in *.
  pose proof (zlen_le_11 F Hbound) as HzF.
  apply min_fee_le.
  unfold signed_size, total_size, total_gas in *. cbn [map] in *. rewrite !sumN_cons in *.
  rewrite gas_set_fee.
  pose proof (size_set_fee c1 F) as Hs. rewrite Hc1, zlen_0 in Hs.
  set (T := sumN (map size r)) in *. set (G := sumN (map gas_limit r)) in *.
  set (q := AUTOFILL_EXTRA_SIZE / n) in *.
  assert (Hnq : n * (111 + q) = 111 * n + n * q) by lia.
  rewrite Hnq in Hsum.
  destruct cv; simpl sig_len; try lia.
  (* BL: needs two contents *)
  destruct Hcv as [Hcv|Hcv]; [contradiction|].
  assert (2 <= n) by (unfold n, nlen; lia).
  lia.
Qed.

Lemma autofill_covers_min cv hard_gas hard_storage ctr offset cs sims :
  cs <> [] -> length sims = length cs ->
  (cv <> BL \/ (2 <= length cs)%nat) ->
  let out := autofill cv hard_gas hard_storage ctr offset cs sims in
  total_fee out < 2 ^ 77 ->
  min_fee (signed_size cv out) (total_gas out) <= total_fee out.
Proof.
  intros Hne Hlen Hcv. unfold autofill.
  apply autofill_of_filled_covers.
  - intro E. apply (f_equal (@length _)) in E. rewrite fill_length in E. destruct cs; [contradiction|discriminate].
  - rewrite fill_length. exact Hlen.
  - rewrite fill_length. exact Hcv.
Qed.

(* the fee bound follows from bounds a node imposes anyway (operation size, gas) *)
Lemma autofill_fee_bound cv hard_gas hard_storage ctr offset cs sims :
  cs <> [] -> length sims = length cs ->
  let out := autofill cv hard_gas hard_storage ctr offset cs sims in
  total_size out < 2 ^ 64 -> total_gas out < 2 ^ 64 -> nlen cs < 2 ^ 32 ->
  total_fee out < 2 ^ 77.
Proof.
  intros Hne Hlen out Hs Hg Hn. unfold out, autofill, autofill_of_filled in *.
  set (filled := fill cv hard_gas hard_storage ctr cs) in *.
  assert (Hfl : length filled = length cs) by apply fill_length.
  set (n := nlen filled) in *.
  assert (Hnn : n = nlen cs) by (unfold n, nlen; rewrite Hfl; reflexivity).
  set (cs' := map2 (autofill_content offset) filled sims) in *.
  assert (Hl' : length cs' = length filled) by (apply map2_length; rewrite Hfl; exact Hlen).
  assert (Hz : Forall (fun c => fee c = 0) cs')
    by (apply map2_Forall; intros; apply autofill_content_fee0).
  assert (Hn' : nlen cs' = n) by (unfold nlen, n; rewrite Hl'; reflexivity).
  set (F := sumN (map (autofill_fee n) cs')) in *.
  (* upper bound of the sum *)
  assert (Hup : forall l, sumN (map (autofill_fee n) l) <= total_size l + total_gas l + nlen l * 207).
  { induction l as [|c l IH]; [cbn; lia|].
    unfold total_size, total_gas in *. cbn [map]. rewrite !sumN_cons, nlen_cons.
    unfold autofill_fee at 1. unfold calculate_fee, MINIMAL_FEES, MINIMAL_MUTEZ_PER_BYTE,
      MINIMAL_NANOTEZ_PER_GAS_UNIT, DEFAULT_RESERVE.
    assert (AUTOFILL_EXTRA_SIZE / n <= 96).
    { unfold AUTOFILL_EXTRA_SIZE. destruct (N.eq_dec n 0) as [->|Hn0]; [cbn; lia|].
      apply N.div_le_upper_bound; [exact Hn0|]. nia. }
    assert (100 * gas_limit c / 1000 <= gas_limit c) by lia.
    lia. }
  specialize (Hup cs'). fold F in Hup. rewrite Hn' in Hup.
  destruct cs' as [|c1 r] eqn:Ecs.
  { cbn. lia. }
  inversion Hz as [|? ? Hc1 Hr]; subst.
  unfold put_fee_first in *.
  assert (Htf : forall x, fee x = 0 \/ True -> True) by auto.
  assert (Hsz : forall f, total_size (set_fee c1 f :: r) >= total_size (c1 :: r) /\
                          total_gas (set_fee c1 f :: r) = total_gas (c1 :: r)).
  { intro f. unfold total_size, total_gas. cbn [map]. rewrite !sumN_cons, gas_set_fee.
    pose proof (size_set_fee c1 f) as H1. rewrite Hc1, zlen_0 in H1.
    pose proof (zlen_ge_1 f). lia. }
  destruct (F =? 0) eqn:EF.
  - unfold total_fee. cbn [map]. rewrite sumN_cons, Hc1. fold (total_fee r).
    rewrite (total_fee_zero r Hr). lia.
  - destruct (Hsz F) as [H1 H2]. rewrite H2 in Hg.
    unfold total_fee. cbn [map]. rewrite sumN_cons, fee_set_fee. fold (total_fee r).
    rewrite (total_fee_zero r Hr).
    assert (n * 207 < 2 ^ 32 * 207) by (rewrite Hnn; nia).
    assert (E64 : 2 ^ 64 = 18446744073709551616) by reflexivity.
    assert (E32 : 2 ^ 32 = 4294967296) by reflexivity.
    assert (E77 : 2 ^ 77 = 151115727451828646838272) by reflexivity.
    rewrite E64 in *. rewrite E32 in *. rewrite E77. lia.
Qed.

(* ---------------------------------------------------------------- fill, single content *)

Lemma default_gas_mono cv h1 h2 c : h1 <= h2 -> default_gas_limit cv h1 c <= default_gas_limit cv h2 c.
Proof. intro H. unfold default_gas_limit. destruct (mk c), cv; try destruct (to_kt c); lia. Qed.

Lemma default_gas_set_limits cv h c g s : default_gas_limit cv h (set_limits c g s) = default_gas_limit cv h c.
Proof. reflexivity. Qed.

Lemma default_gas_set_counter cv h c v : default_gas_limit cv h (set_counter c v) = default_gas_limit cv h c.
Proof. reflexivity. Qed.

Lemma fill_single_covers_min cv hard_gas hard_storage ctr c :
  cv <> BL -> hard_gas <= DEFAULT_HARD_GAS ->
  fee c = 0 -> gas_limit c = 0 ->
  let out := fill cv hard_gas hard_storage ctr [c] in
  total_fee out < 2 ^ 133 ->
  min_fee (signed_size cv out) (total_gas out) <= total_fee out.
Proof.
  intros Hcv Hhard Hfee Hgas out Hbound. unfold out, fill, fill_from in *.
  change (nlen [c]) with 1 in *. unfold fill_content in *.
  set (c1 := if counter c =? 0 then set_counter c ctr else c) in *.
  assert (Hg1 : gas_limit c1 = 0) by (unfold c1; destruct (counter c =? 0); simpl; exact Hgas).
  assert (Hf1 : fee c1 = 0) by (unfold c1; destruct (counter c =? 0); simpl; exact Hfee).
  rewrite Hg1 in *. cbn [N.eqb] in *.
  set (g := N.min (hard_gas / 1) (default_gas_limit cv hard_gas c1)) in *.
  set (c2 := set_limits c1 g (storage_limit c1)) in *.
  set (s := if storage_limit c2 =? 0 then _ else _) in *.
  set (c3 := set_limits c2 g s) in *.
  assert (Hf3 : fee c3 = 0) by exact Hf1.
  rewrite Hf3 in *. cbn [N.eqb] in *.
  set (F := default_fee cv c3) in *.
  assert (Htf : total_fee [set_fee c3 F] = F) by (unfold total_fee; cbn; lia).
  rewrite Htf in *.
  assert (HzF : zlen F <= 19) by (apply zlen_le; [lia | exact Hbound]).
  apply min_fee_le.
  unfold signed_size, total_size, total_gas. cbn [map]. rewrite !sumN_cons. cbn [sumN fold_right].
  rewrite gas_set_fee.
  pose proof (size_set_fee c3 F) as Hs. rewrite Hf3, zlen_0 in Hs.
  assert (Hg3 : gas_limit c3 = g) by reflexivity. rewrite Hg3.
  assert (Hgd : g <= default_gas_limit cv DEFAULT_HARD_GAS c3).
  { unfold c3, c2. rewrite !default_gas_set_limits.
    pose proof (default_gas_mono cv hard_gas DEFAULT_HARD_GAS c1 Hhard). unfold g. lia. }
  unfold F, default_fee, calculate_fee, MINIMAL_FEES, MINIMAL_MUTEZ_PER_BYTE,
    MINIMAL_NANOTEZ_PER_GAS_UNIT, DEFAULT_RESERVE, FILL_EXTRA_SIZE in *.
  set (D := default_gas_limit cv DEFAULT_HARD_GAS c3) in *.
  assert (10 * (100 * D / 1000) + 9 >= D) by lia.
  destruct cv; simpl sig_len; try lia. contradiction.
Qed.

(* ---------------------------------------------------------------- refutations (known finding #23) *)

(* a plain transfer to an implicit account: tag, 21-byte source, 1-byte amount, 22-byte destination,
   1-byte "no parameters" flag = 46 bytes besides the four zarith fields *)
Definition transfer : mcontent := mkc KTransaction false 0 0 0 0 46.

Lemma fill_batch_underpays :
  covers_min Ed (fill Ed DEFAULT_HARD_GAS DEFAULT_HARD_STORAGE 1 [transfer; transfer]) = false.
Proof. vm_compute. reflexivity. Qed.

Lemma fill_tz4_underpays :
  covers_min BL (fill BL DEFAULT_HARD_GAS DEFAULT_HARD_STORAGE 1 [transfer]) = false.
Proof. vm_compute. reflexivity. Qed.

Lemma autofill_tz4_underpays :
  covers_min BL (autofill BL DEFAULT_HARD_GAS DEFAULT_HARD_STORAGE 1 0 [transfer] [[mks 100000 0 false]]) = false.
Proof. vm_compute. reflexivity. Qed.

(* node limit above the built-in default: fill budgets 1040000 gas but sets gas_limit 2000000 *)
Definition call_kt : mcontent := mkc KTransaction true 0 0 0 0 46.
Lemma fill_big_node_limit_underpays :
  covers_min Ed (fill Ed 2000000 DEFAULT_HARD_STORAGE 1 [call_kt]) = false.
Proof. vm_compute. reflexivity. Qed.

(* non-vacuity of the positive theorems *)
Lemma autofill_example :
  report Ed (autofill Ed DEFAULT_HARD_GAS DEFAULT_HARD_STORAGE 1 0 [transfer; transfer]
                      [[mks 100000 0 false]; [mks 100000 0 false]])
  = ([(460, 1, 200, 100); (0, 2, 200, 100)], [52; 51], 339, true).
Proof. vm_compute. reflexivity. Qed.
