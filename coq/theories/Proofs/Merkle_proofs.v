(* Proofs/Merkle_proofs.v — lemmas for C31: the in-place reduction of
   _reduce_operation_hashes equals the root of the perfect tree over the padded leaves. *)
From Coq Require Import List Arith Bool NArith ZArith Lia.
From PV Require Import Base.Bytes Base.Result Codec.Merkle.
Import ListNotations.

(* ---------- list helpers ---------- *)
Lemma skipn_add {X} : forall b a (l : list X), skipn a (skipn b l) = skipn (b + a) l.
Proof.
  induction b as [|b IH]; intros a l; [reflexivity|].
  destruct l as [|x l]; [now rewrite !skipn_nil|]. cbn [skipn Nat.add]. apply IH.
Qed.

Lemma skipn_cons_nth {X} : forall s (l : list X) x, s < length l -> skipn s l = nth s l x :: skipn (S s) l.
Proof.
  induction s as [|s IH]; intros [|y l] x Hs; cbn [length] in Hs; try lia; [reflexivity|].
  cbn [skipn nth]. rewrite (IH l x) by lia. reflexivity.
Qed.

Lemma firstn_app_exact {X} : forall (l1 l2 : list X), firstn (length l1) (l1 ++ l2) = l1.
Proof. induction l1 as [|x l1 IH]; intro l2; cbn; [reflexivity|]. now rewrite IH. Qed.

Lemma skipn_app_exact {X} : forall (l1 l2 : list X), skipn (length l1) (l1 ++ l2) = l2.
Proof. induction l1 as [|x l1 IH]; intro l2; cbn; [reflexivity|]. apply IH. Qed.

Lemma pow2_pos d : 1 <= 2 ^ d.
Proof. induction d as [|d IH]; cbn; lia. Qed.

Lemma last_opt_nth {X} : forall (l : list X) x, last_opt l = Some x -> forall d, nth (length l - 1) l d = x.
Proof.
  induction l as [|y l IH]; intros x H d; [discriminate|].
  destruct l as [|z l].
  - cbn in H. injection H as <-. reflexivity.
  - change (last_opt (y :: z :: l)) with (last_opt (z :: l)) in H.
    specialize (IH x H d). cbn [length] in *. replace (S (S (length l)) - 1) with (S (length l - 0)) by lia.
    cbn [nth]. replace (S (length l) - 1) with (length l - 0) in IH by lia. exact IH.
Qed.

Lemma last_opt_some {X} : forall (l : list X), l <> [] -> exists x, last_opt l = Some x.
Proof.
  induction l as [|y l IH]; intro H; [congruence|].
  destruct l as [|z l]; [now exists y|].
  change (last_opt (y :: z :: l)) with (last_opt (z :: l)). apply IH. discriminate.
Qed.

Section Proofs.
  Variable A T : Type.
  Variable leaf : A -> T.
  Variable H2 : T -> T -> T.
  Variable H0 : T.

  (* ---------- a[i] = v ---------- *)
  Lemma upd_some : forall (a : list T) i v, i < length a -> exists a', upd i v a = Some a'.
  Proof.
    induction a as [|x a IH]; intros i v Hi; cbn [length] in Hi; [lia|].
    destruct i as [|i]; cbn [upd]; [eauto|].
    destruct (IH i v ltac:(lia)) as [a' ->]. eauto.
  Qed.

  Lemma upd_spec : forall (a : list T) i v a', upd i v a = Some a' ->
    length a' = length a /\ forall j, nth_error a' j = if j =? i then Some v else nth_error a j.
  Proof.
    induction a as [|x a IH]; intros i v a' Hu; [destruct i; discriminate|].
    destruct i as [|i]; cbn [upd] in Hu.
    - injection Hu as <-. split; [reflexivity|]. intros [|j]; reflexivity.
    - destruct (upd i v a) as [r|] eqn:E; [|discriminate]. injection Hu as <-.
      destruct (IH i v r E) as [Hl Hn]. split; [cbn; lia|].
      intros [|j]; [reflexivity|]. cbn [nth_error]. rewrite Hn. reflexivity.
  Qed.

  (* ---------- the row above ---------- *)
  Definition up (f : nat -> T) : nat -> T := fun j => H2 (f (2 * j)) (f (2 * j + 1)).

  Lemma pair_loop_spec : forall cnt i (a : list T) f,
    (forall j, 2 * i <= j < 2 * (i + cnt) -> nth_error a j = Some (f j)) ->
    exists a', pair_loop H2 cnt i a = Some a' /\ length a' = length a /\
      forall j, nth_error a' j = if (i <=? j) && (j <? i + cnt) then Some (up f j) else nth_error a j.
  Proof.
    induction cnt as [|c IH]; intros i a f Hrd.
    - exists a. split; [reflexivity|]. split; [reflexivity|]. intro j.
      destruct (Nat.leb_spec i j), (Nat.ltb_spec j (i + 0)); cbn; try reflexivity; lia.
    - cbn [pair_loop].
      rewrite (Hrd (2 * i)) by lia. rewrite (Hrd (2 * i + 1)) by lia.
      assert (Hi : i < length a).
      { assert (Hx : nth_error a (2 * i) <> None) by (rewrite (Hrd (2 * i)) by lia; discriminate).
        apply nth_error_Some in Hx. lia. }
      destruct (upd_some a i (H2 (f (2 * i)) (f (2 * i + 1))) Hi) as [a1 Hu]. rewrite Hu.
      destruct (upd_spec _ _ _ _ Hu) as [Hl1 Hn1].
      destruct (IH (S i) a1 f) as (a' & Hp & Hl' & Hn').
      { intros j Hj. rewrite Hn1. destruct (Nat.eqb_spec j i); [lia|]. apply Hrd. lia. }
      exists a'. split; [exact Hp|]. split; [lia|]. intro j. rewrite Hn', Hn1.
      destruct (Nat.leb_spec (S i) j), (Nat.ltb_spec j (S i + c)), (Nat.leb_spec i j),
        (Nat.ltb_spec j (i + S c)), (Nat.eqb_spec j i); cbn [andb]; try reflexivity; try lia.
      subst j. reflexivity.
  Qed.

  (* ---------- top-down root over an infinite row ---------- *)
  Fixpoint troot (d : nat) (f : nat -> T) (s : nat) : T :=
    match d with
    | O => f s
    | S d' => H2 (troot d' f s) (troot d' f (s + 2 ^ d'))
    end.

  Lemma troot_ext : forall d f g s, (forall j, f j = g j) -> troot d f s = troot d g s.
  Proof. induction d as [|d IH]; intros f g s E; cbn [troot]; [apply E|]. now rewrite (IH f g s E), (IH f g (s + 2 ^ d) E). Qed.

  Lemma troot_up : forall d f s, troot (S d) f (2 * s) = troot d (up f) s.
  Proof.
    induction d as [|d IH]; intros f s.
    - cbn [troot]. unfold up. change (2 ^ 0) with 1. reflexivity.
    - change (troot (S (S d)) f (2 * s)) with (H2 (troot (S d) f (2 * s)) (troot (S d) f (2 * s + 2 ^ S d))).
      rewrite IH. replace (2 * s + 2 ^ S d) with (2 * (s + 2 ^ d)) by (rewrite Nat.pow_succ_r'; lia).
      rewrite IH. reflexivity.
  Qed.

  (* ---------- step(n) ---------- *)
  Lemma half_bounds n : n <= 2 * ((n + 1) / 2) <= n + 1.
  Proof.
    pose proof (Nat.div_mod (n + 1) 2 ltac:(lia)) as E.
    pose proof (Nat.mod_upper_bound (n + 1) 2 ltac:(lia)). lia.
  Qed.

  Lemma step_unfold : forall fu n (a : list T) f,
    2 <= n ->
    (forall j, j <= n -> nth_error a j = Some (f j)) ->
    (forall j, n <= j -> f j = f n) ->
    exists a2, length a2 = length a /\ n < length a /\
      (forall j, j <= (n + 1) / 2 -> nth_error a2 j = Some (up f j)) /\
      (forall j, (n + 1) / 2 <= j -> up f j = up f ((n + 1) / 2)) /\
      step H2 (S fu) n a =
        (if (n + 1) / 2 =? 1 then Done (up f 0)
         else if Nat.even ((n + 1) / 2) then step H2 fu ((n + 1) / 2) a2
         else match upd ((n + 1) / 2 + 1) (up f ((n + 1) / 2)) a2 with
              | None => IndexError
              | Some a3 => step H2 fu ((n + 1) / 2 + 1) a3
              end).
  Proof.
    intros fu n a f Hn Ha Hpad.
    cbn [step]. pose proof (half_bounds n) as Hm. set (m := (n + 1) / 2) in *.
    destruct (pair_loop_spec m 0 a f) as (a1 & Hp & Hl1 & Hn1); [intros j Hj; apply Ha; lia|].
    rewrite Hp.
    assert (Hlen : n < length a) by (apply nth_error_Some; rewrite (Ha n) by lia; discriminate).
    assert (Hmn : m <= n) by lia.
    rewrite (Hn1 n). destruct (Nat.ltb_spec n (0 + m)) as [Hx|_]; [lia|].
    rewrite andb_false_r. rewrite (Ha n) by lia.
    destruct (upd_some a1 m (H2 (f n) (f n)) ltac:(lia)) as [a2 Hu]. rewrite Hu.
    destruct (upd_spec _ _ _ _ Hu) as [Hl2 Hn2].
    assert (Ha2 : forall j, j <= m -> nth_error a2 j = Some (up f j)).
    { intros j Hj. rewrite Hn2. destruct (Nat.eqb_spec j m) as [->|Hne].
      - unfold up. rewrite (Hpad (2 * m)) by lia. rewrite (Hpad (2 * m + 1)) by lia. reflexivity.
      - rewrite Hn1. destruct (Nat.leb_spec 0 j), (Nat.ltb_spec j (0 + m)); cbn [andb]; try reflexivity; lia. }
    assert (Hpad' : forall j, m <= j -> up f j = up f m).
    { intros j Hj. unfold up. rewrite (Hpad (2 * j)) by lia. rewrite (Hpad (2 * j + 1)) by lia.
      rewrite (Hpad (2 * m)) by lia. rewrite (Hpad (2 * m + 1)) by lia. reflexivity. }
    exists a2. split; [lia|]. split; [exact Hlen|]. split; [exact Ha2|]. split; [exact Hpad'|].
    rewrite (Ha2 0) by lia. rewrite (Ha2 m) by lia. reflexivity.
  Qed.

  Lemma step_correct : forall d fuel n (a : list T) f,
    2 ^ d < n <= 2 ^ S d -> n <= fuel ->
    (forall j, j <= n -> nth_error a j = Some (f j)) ->
    (forall j, n <= j -> f j = f n) ->
    step H2 fuel n a = Done (troot (S d) f 0).
  Proof.
    induction d as [|d IH]; intros fuel n a f Hn Hfuel Ha Hpad.
    - change (2 ^ 0) with 1 in Hn. change (2 ^ 1) with 2 in Hn.
      destruct fuel as [|fu]; [lia|].
      destruct (step_unfold fu n a f ltac:(lia) Ha Hpad) as (a2 & _ & _ & _ & _ & Hs).
      rewrite Hs. assert (n = 2) as -> by lia. change ((2 + 1) / 2) with 1. cbn [Nat.eqb].
      reflexivity.
    - pose proof (pow2_pos d) as Hpos. rewrite !Nat.pow_succ_r' in Hn.
      destruct fuel as [|fu]; [lia|].
      destruct (step_unfold fu n a f ltac:(lia) Ha Hpad) as (a2 & Hl2 & Hlen & Ha2 & Hpad' & Hs).
      rewrite Hs. clear Hs. pose proof (half_bounds n) as Hm. set (m := (n + 1) / 2) in *.
      destruct (Nat.eqb_spec m 1) as [Hm1|_]; [lia|].
      replace (troot (S (S d)) f 0) with (troot (S d) (up f) 0) by (symmetry; exact (troot_up (S d) f 0)).
      destruct (Nat.even m) eqn:Ev.
      + apply IH; try assumption; [rewrite Nat.pow_succ_r'; lia | lia].
      + assert (Hodd : Nat.Odd m) by (apply Nat.odd_spec; rewrite <- Nat.negb_even, Ev; reflexivity).
        destruct Hodd as [k Hk].
        destruct (upd_some a2 (m + 1) (up f m) ltac:(lia)) as [a3 Hu3]. rewrite Hu3.
        destruct (upd_spec _ _ _ _ Hu3) as [Hl3 Hn3].
        apply IH.
        * rewrite Nat.pow_succ_r'. lia.
        * lia.
        * intros j Hj. rewrite Hn3. destruct (Nat.eqb_spec j (m + 1)) as [->|Hne].
          -- rewrite (Hpad' (m + 1)) by lia. reflexivity.
          -- apply Ha2. lia.
        * intros j Hj. rewrite (Hpad' j) by lia. rewrite (Hpad' (m + 1)) by lia. reflexivity.
  Qed.

  (* ---------- list root = stream root ---------- *)
  Lemma root_troot : forall d (l : list T) s x, s + 2 ^ d <= length l ->
    root H2 d (firstn (2 ^ d) (skipn s l)) = Some (troot d (fun j => nth j l x) s).
  Proof.
    induction d as [|d IH]; intros l s x Hs.
    - change (2 ^ 0) with 1 in *. rewrite (skipn_cons_nth s l x) by lia. reflexivity.
    - cbn [root troot]. pose proof (pow2_pos d) as Hpos. rewrite Nat.pow_succ_r' in Hs.
      rewrite firstn_firstn. replace (Nat.min (2 ^ d) (2 ^ S d)) with (2 ^ d) by (rewrite Nat.pow_succ_r'; lia).
      rewrite (IH l s x) by lia.
      replace (2 ^ S d) with (2 ^ d + 2 ^ d) by (rewrite Nat.pow_succ_r'; lia).
      rewrite <- firstn_skipn_comm, skipn_add.
      rewrite (IH l (s + 2 ^ d) x) by lia. reflexivity.
  Qed.

  Lemma root_troot0 : forall d (l : list T) x, length l = 2 ^ d ->
    root H2 d l = Some (troot d (fun j => nth j l x) 0).
  Proof.
    intros d l x Hl. rewrite <- (root_troot d l 0 x) by lia.
    cbn [skipn]. rewrite <- Hl, firstn_all. reflexivity.
  Qed.

  (* ---------- padding ---------- *)
  Lemma pad_pow2_shape : forall (l : list T) x, last_opt l = Some x ->
    pad_pow2 l = l ++ repeat x (2 ^ Nat.log2_up (length l) - length l) /\
    length (pad_pow2 l) = 2 ^ Nat.log2_up (length l).
  Proof.
    intros l x Hx. unfold pad_pow2. rewrite Hx. split; [reflexivity|].
    rewrite app_length, repeat_length.
    assert (length l <= 2 ^ Nat.log2_up (length l)); [|lia].
    destruct l as [|y l]; [discriminate|]. apply Nat.log2_up_le_pow2; cbn; lia.
  Qed.

  Lemma pad_nth : forall (l : list T) x k j, nth j (l ++ repeat x k) x = nth j l x.
  Proof.
    intros l x k j. destruct (Nat.lt_ge_cases j (length l)) as [Hj|Hj].
    - apply app_nth1. exact Hj.
    - rewrite app_nth2 by lia. rewrite nth_repeat. symmetry. apply nth_overflow. exact Hj.
  Qed.

  (* ---------- the main lemma ---------- *)
  Lemma reduce_is_root : forall hashes, 2 <= length hashes ->
    exists t, root H2 (Nat.log2_up (length hashes)) (pad_pow2 (map leaf hashes)) = Some t /\
              reduce leaf H2 H0 hashes = Done t.
  Proof.
    intros hashes Hlen.
    destruct hashes as [|x0 [|x1 r]]; cbn [length] in Hlen; try lia.
    remember (x0 :: x1 :: r) as hs eqn:Ehs.
    assert (Hred : reduce leaf H2 H0 hs =
                   match last_opt (map leaf hs) with
                   | Some l => step H2 (length hs) (length hs) (map leaf hs ++ [l])
                   | None => IndexError end) by (subst hs; reflexivity).
    rewrite Hred. clear Hred.
    assert (Hlen' : 2 <= length hs) by (subst hs; cbn; lia). clear Ehs x0 x1 r Hlen.
    set (res := map leaf hs). assert (Hres : length res = length hs) by apply map_length.
    destruct (last_opt_some res) as [l Hl]; [destruct res; [cbn in Hres; lia|discriminate]|].
    rewrite Hl. set (n := length hs) in *.
    destruct (pad_pow2_shape res l Hl) as [Hpad Hplen]. rewrite Hres in *.
    pose proof (Nat.log2_up_spec n ltac:(lia)) as Hspec.
    pose proof (Nat.log2_up_pos n ltac:(lia)) as Hpos.
    destruct (Nat.log2_up n) as [|d] eqn:Ed; [lia|]. cbn [Nat.pred] in Hspec.
    exists (troot (S d) (fun j => nth j res l) 0). split.
    - rewrite (root_troot0 (S d) (pad_pow2 res) l Hplen). f_equal.
      apply troot_ext. intro j. rewrite Hpad. apply pad_nth.
    - apply step_correct; try lia.
      + intros j Hj. destruct (Nat.eq_dec j n) as [->|Hne].
        * rewrite nth_error_app2 by lia. rewrite Hres, Nat.sub_diag. cbn.
          rewrite nth_overflow by lia. reflexivity.
        * rewrite nth_error_app1 by lia. apply nth_error_nth'. lia.
      + intros j Hj. rewrite !nth_overflow by lia. reflexivity.
  Qed.

  Lemma reduce_is_spec : forall hashes,
    exists t, merkle_spec leaf H2 H0 hashes = Some t /\ reduce leaf H2 H0 hashes = Done t.
  Proof.
    intros [|x0 [|x1 r]].
    - exists H0. split; reflexivity.
    - exists (leaf x0). split; reflexivity.
    - destruct (reduce_is_root (x0 :: x1 :: r)) as (t & Hr & Hd); [cbn; lia|].
      exists t. split; [|exact Hd]. unfold merkle_spec. rewrite map_length. exact Hr.
  Qed.

  (* ---------- trees ---------- *)
  Lemma perfect_length : forall d (t : tree T), perfect d t -> length (leaves t) = 2 ^ d.
  Proof.
    intros d t Hp. induction Hp as [x|d l r _ IHl _ IHr]; [reflexivity|].
    cbn [leaves]. rewrite app_length, IHl, IHr, Nat.pow_succ_r'. lia.
  Qed.

  Lemma perfect_root : forall d (t : tree T), perfect d t -> root H2 d (leaves t) = Some (eval H2 t).
  Proof.
    intros d t Hp. induction Hp as [x|d l r Hl IHl Hr IHr]; [reflexivity|].
    cbn [leaves root eval]. rewrite <- (perfect_length d l Hl).
    rewrite firstn_app_exact, skipn_app_exact, IHl, IHr. reflexivity.
  Qed.

  Lemma perfect_exists : forall d (l : list T), length l = 2 ^ d -> exists t : tree T, perfect d t /\ leaves t = l.
  Proof.
    induction d as [|d IH]; intros l Hl.
    - destruct l as [|x [|y l]]; cbn in Hl; try lia. exists (Lf x). split; [constructor|reflexivity].
    - rewrite Nat.pow_succ_r' in Hl.
      destruct (IH (firstn (2 ^ d) l)) as (tl & Hpl & Hll); [rewrite firstn_length; lia|].
      destruct (IH (skipn (2 ^ d) l)) as (tr & Hpr & Hlr); [rewrite skipn_length; lia|].
      exists (Nd tl tr). split; [constructor; assumption|]. cbn [leaves]. rewrite Hll, Hlr. apply firstn_skipn.
  Qed.

  Lemma reduce_is_tree : forall hashes (t : tree T), hashes <> [] ->
    perfect (Nat.log2_up (length hashes)) t -> leaves t = pad_pow2 (map leaf hashes) ->
    reduce leaf H2 H0 hashes = Done (eval H2 t).
  Proof.
    intros hashes t Hne Hp Hl.
    destruct (reduce_is_spec hashes) as (r & Hs & Hd). rewrite Hd. f_equal.
    destruct hashes as [|x0 hs]; [congruence|].
    unfold merkle_spec in Hs. rewrite map_length, <- Hl, (perfect_root _ _ Hp) in Hs. congruence.
  Qed.

  Lemma padded_tree_exists : forall hashes, hashes <> [] ->
    exists t : tree T, perfect (Nat.log2_up (length hashes)) t /\ leaves t = pad_pow2 (map leaf hashes).
  Proof.
    intros hashes Hne. apply perfect_exists.
    destruct (last_opt_some (map leaf hashes)) as [x Hx]; [destruct hashes; [congruence|discriminate]|].
    destruct (pad_pow2_shape _ _ Hx) as [_ Hlen]. rewrite map_length in Hlen. exact Hlen.
  Qed.

  (* the padding is the *next* power of two, and consists of copies of the last leaf *)
  Lemma pad_minimal : forall (l : list T) x, last_opt l = Some x ->
    exists k, pad_pow2 l = l ++ repeat x k /\ length l + k = 2 ^ Nat.log2_up (length l) /\
              (forall d, length l <= 2 ^ d -> Nat.log2_up (length l) <= d) /\
              nth (length l - 1) l x = x.
  Proof.
    intros l x Hx. destruct (pad_pow2_shape l x Hx) as [Hs Hl].
    exists (2 ^ Nat.log2_up (length l) - length l). split; [exact Hs|].
    rewrite Hs, app_length, repeat_length in Hl. split; [exact Hl|]. split.
    - intros d Hd. apply Nat.log2_up_le_pow2; [destruct l; [discriminate|cbn; lia]|exact Hd].
    - apply last_opt_nth. exact Hx.
  Qed.

  Lemma merkle_spec_ext : forall (leaf' : A -> T) hashes, (forall x, leaf x = leaf' x) ->
    merkle_spec leaf H2 H0 hashes = merkle_spec leaf' H2 H0 hashes.
  Proof. intros leaf' hashes E. unfold merkle_spec. rewrite (map_ext _ _ E). reflexivity. Qed.
End Proofs.

(* ---------- bytes level: the three public functions ---------- *)
Section BytesProofs.
  Variable blake : bytes -> bytes.
  Variable b58dec : bytes -> result bytes.
  Variable b58enc : bytes -> bytes -> bytes.

  Lemma reduce_ops_spec : forall hs,
    exists t, merkle_bytes blake hs = Some t /\ reduce_operation_hashes blake hs = Done t.
  Proof.
    intro hs. unfold reduce_operation_hashes, py_reduce, merkle_bytes.
    destruct (reduce_is_spec bytes bytes (fun x => hash_tuple blake x []) (hash_tuple blake) (hash_tuple blake [] []) hs)
      as (t & Hs & Hd).
    exists t. split; [|exact Hd]. rewrite <- Hs. apply merkle_spec_ext.
    intro x. unfold hash_tuple. now rewrite app_nil_r.
  Qed.

  Lemma oplist_ok : forall ops raw, mapM b58dec ops = Ok raw ->
    exists t, merkle_bytes blake raw = Some t /\
              operation_list_hash blake b58dec b58enc ops = Ok (b58enc pLo t).
  Proof.
    intros ops raw Hm. destruct (reduce_ops_spec raw) as (t & Hs & Hd).
    exists t. split; [exact Hs|]. unfold operation_list_hash. rewrite Hm. cbn [bind]. rewrite Hd. reflexivity.
  Qed.

  Lemma oplist_reject : forall ops, mapM b58dec ops = Reject ->
    operation_list_hash blake b58dec b58enc ops = Reject.
  Proof. intros ops Hm. unfold operation_list_hash. rewrite Hm. reflexivity. Qed.

  Lemma payload_ok : forall pred p round ops raw,
    b58dec pred = Ok p -> (0 <= round < 4294967296)%Z -> mapM b58dec ops = Ok raw ->
    exists t, merkle_bytes blake raw = Some t /\
      block_payload_hash blake b58dec b58enc pred round ops
      = Ok (b58enc pvh (blake (p ++ N_to_be 4 (Z.to_N round) ++ t))).
  Proof.
    intros pred p round ops raw Hp Hr Hm. destruct (reduce_ops_spec raw) as (t & Hs & Hd).
    exists t. split; [exact Hs|]. unfold block_payload_hash, int32_be. rewrite Hp. cbn [bind].
    destruct (Z.leb_spec 0 round); [|lia]. destruct (Z.ltb_spec round 4294967296); [|lia].
    cbn [andb bind]. rewrite Hm. cbn [bind]. rewrite Hd. reflexivity.
  Qed.

  Lemma payload_round_reject : forall pred round ops,
    ~ (0 <= round < 4294967296)%Z -> block_payload_hash blake b58dec b58enc pred round ops = Reject.
  Proof.
    intros pred round ops Hr. unfold block_payload_hash, int32_be.
    destruct (b58dec pred); [|reflexivity]. cbn [bind].
    destruct (Z.leb_spec 0 round), (Z.ltb_spec round 4294967296); cbn [andb bind]; try reflexivity; lia.
  Qed.

  Hypothesis dec_enc : forall p x, b58dec (b58enc p x) = Ok x.

  Lemma oplistlist_ok : forall opss raws, mapM (mapM b58dec) opss = Ok raws ->
    exists ts t, Forall2 (fun raw ti => merkle_bytes blake raw = Some ti) raws ts /\
                 merkle_bytes blake ts = Some t /\
                 operation_list_list_hash blake b58dec b58enc opss = Ok (b58enc pLLo t).
  Proof.
    intros opss raws Hm.
    assert (Hlos : exists ts, Forall2 (fun raw ti => merkle_bytes blake raw = Some ti) raws ts /\
              mapM (operation_list_hash blake b58dec b58enc) opss = Ok (map (b58enc pLo) ts)).
    { revert raws Hm. induction opss as [|ops opss IH]; intros raws Hm.
      - cbn in Hm. injection Hm as <-. exists []. split; [constructor|reflexivity].
      - cbn [mapM] in Hm. destruct (mapM b58dec ops) as [raw|] eqn:E1; [|discriminate]. cbn [bind] in Hm.
        destruct (mapM (mapM b58dec) opss) as [raws'|] eqn:E2; [|discriminate]. cbn [bind] in Hm.
        injection Hm as <-. destruct (IH raws' eq_refl) as (ts & HF & HM).
        destruct (oplist_ok ops raw E1) as (t & Hs & Ho).
        exists (t :: ts). split; [constructor; assumption|].
        cbn [mapM]. rewrite Ho. cbn [bind]. rewrite HM. reflexivity. }
    destruct Hlos as (ts & HF & HM).
    assert (Hdec : mapM b58dec (map (b58enc pLo) ts) = Ok ts).
    { clear HF HM. induction ts as [|t ts IH]; [reflexivity|]. cbn [map mapM]. rewrite dec_enc. cbn [bind]. rewrite IH. reflexivity. }
    destruct (reduce_ops_spec ts) as (t & Hs & Hd).
    exists ts, t. split; [exact HF|]. split; [exact Hs|].
    unfold operation_list_list_hash. rewrite HM. cbn [bind]. rewrite Hdec. cbn [bind]. rewrite Hd. reflexivity.
  Qed.
End BytesProofs.

(* ---------- parametricity: the algorithm commutes with every homomorphism of hash algebras ---------- *)
Section Hom.
  Variable T1 T2 : Type.
  Variable H1 : T1 -> T1 -> T1.
  Variable H2 : T2 -> T2 -> T2.
  Variable phi : T1 -> T2.
  Hypothesis phi_H : forall a b, phi (H1 a b) = H2 (phi a) (phi b).

  Lemma upd_map : forall (a : list T1) i v, upd i (phi v) (map phi a) = option_map (map phi) (upd i v a).
  Proof.
    induction a as [|x a IH]; intros i v; [destruct i; reflexivity|].
    destruct i as [|i]; cbn [map upd]; [reflexivity|]. rewrite IH. destruct (upd i v a); reflexivity.
  Qed.

  Lemma pair_loop_map : forall cnt i (a : list T1),
    pair_loop H2 cnt i (map phi a) = option_map (map phi) (pair_loop H1 cnt i a).
  Proof.
    induction cnt as [|c IH]; intros i a; [reflexivity|].
    cbn [pair_loop]. rewrite !nth_error_map.
    destruct (nth_error a (2 * i)) as [x|]; [|reflexivity].
    destruct (nth_error a (2 * i + 1)) as [y|]; [|reflexivity].
    cbn [option_map]. rewrite <- phi_H, upd_map.
    destruct (upd i (H1 x y) a) as [a'|]; [|reflexivity]. cbn [option_map]. apply IH.
  Qed.

  Lemma step_map : forall fuel n (a : list T1),
    step H2 fuel n (map phi a) = map_outcome phi (step H1 fuel n a).
  Proof.
    induction fuel as [|f IH]; intros n a; [reflexivity|].
    cbn [step]. rewrite pair_loop_map.
    destruct (pair_loop H1 ((n + 1) / 2) 0 a) as [a1|]; [|reflexivity]. cbn [option_map].
    rewrite nth_error_map. destruct (nth_error a1 n) as [p|]; [|reflexivity]. cbn [option_map].
    rewrite <- phi_H, upd_map.
    destruct (upd ((n + 1) / 2) (H1 p p) a1) as [a2|]; [|reflexivity]. cbn [option_map].
    destruct ((n + 1) / 2 =? 1).
    - rewrite nth_error_map. destruct (nth_error a2 0); reflexivity.
    - destruct (Nat.even ((n + 1) / 2)); [apply IH|].
      rewrite nth_error_map. destruct (nth_error a2 ((n + 1) / 2)) as [q|]; [|reflexivity]. cbn [option_map].
      rewrite upd_map. destruct (upd ((n + 1) / 2 + 1) q a2) as [a3|]; [|reflexivity]. cbn [option_map]. apply IH.
  Qed.

  Lemma last_opt_map : forall (l : list T1), last_opt (map phi l) = option_map phi (last_opt l).
  Proof.
    induction l as [|x l IH]; [reflexivity|]. destruct l as [|y l]; [reflexivity|].
    change (last_opt (map phi (x :: y :: l))) with (last_opt (map phi (y :: l))).
    change (last_opt (x :: y :: l)) with (last_opt (y :: l)). exact IH.
  Qed.

  Lemma py_reduce_map : forall e1 e2, phi e1 = e2 -> forall l : list T1,
    py_reduce H2 e2 (map phi l) = map_outcome phi (py_reduce H1 e1 l).
  Proof.
    intros e1 e2 He l. unfold py_reduce. destruct l as [|x [|y r]].
    - cbn. now rewrite phi_H, He.
    - cbn. now rewrite phi_H, He.
    - remember (x :: y :: r) as l eqn:El.
      assert (R1 : reduce (fun x => H1 x e1) H1 (H1 e1 e1) l =
                   match last_opt (map (fun x => H1 x e1) l) with
                   | Some z => step H1 (length l) (length l) (map (fun x => H1 x e1) l ++ [z])
                   | None => IndexError end) by (subst l; reflexivity).
      assert (R2 : reduce (fun x => H2 x e2) H2 (H2 e2 e2) (map phi l) =
                   match last_opt (map (fun x => H2 x e2) (map phi l)) with
                   | Some z => step H2 (length (map phi l)) (length (map phi l)) (map (fun x => H2 x e2) (map phi l) ++ [z])
                   | None => IndexError end) by (subst l; reflexivity).
      rewrite R1, R2. clear R1 R2 El.
      assert (Hm : map (fun x => H2 x e2) (map phi l) = map phi (map (fun x => H1 x e1) l)).
      { rewrite !map_map. apply map_ext. intro a. now rewrite phi_H, He. }
      rewrite Hm, last_opt_map, map_length.
      destruct (last_opt (map (fun x => H1 x e1) l)) as [z|]; [|reflexivity]. cbn [option_map].
      change [phi z] with (map phi [z]). rewrite <- map_app. apply step_map.
  Qed.
End Hom.

Lemma free_term_universal : forall T (H : T -> T -> T) (e : T) (v : N -> T) (l : list term),
  py_reduce H e (map (interp H e v) l) = map_outcome (interp H e v) (py_reduce HT Emp l).
Proof. intros T H e v l. apply py_reduce_map; reflexivity. Qed.

(* ---------- the serialisation used by the correspondence run is injective ---------- *)
Lemma deser_ser : forall t, small t -> forall rest st, deser (ser t ++ rest) st = deser rest (t :: st).
Proof.
  induction t as [i| |l IHl r IHr]; intros Hs rest st.
  - cbn [ser app deser]. rewrite !to_N_b8. cbn [small] in Hs.
    replace ((i / 256) mod 256 * 256 + i mod 256)%N with i; [reflexivity|].
    pose proof (N.div_mod i 256 ltac:(discriminate)) as E.
    assert (i / 256 < 256)%N by (apply N.div_lt_upper_bound; [discriminate|exact Hs]).
    rewrite (N.mod_small (i / 256) 256) by assumption. lia.
  - reflexivity.
  - destruct Hs as [Hl Hr]. cbn [ser]. rewrite <- !app_assoc. rewrite IHl by exact Hl. rewrite IHr by exact Hr.
    reflexivity.
Qed.

Lemma ser_injective : forall t1 t2, small t1 -> small t2 -> ser t1 = ser t2 -> t1 = t2.
Proof.
  intros t1 t2 H1 H2 E.
  pose proof (deser_ser t1 H1 [] []) as D1. pose proof (deser_ser t2 H2 [] []) as D2.
  rewrite !app_nil_r in D1, D2. rewrite E in D1. rewrite D1 in D2. cbn in D2. congruence.
Qed.
