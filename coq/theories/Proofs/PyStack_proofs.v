(* Proofs/PyStack_proofs.v — the protected-prefix stack of stack.py refines a plain list:
   on [mkst pre vis] (hidden prefix [pre], visible part [vis]) the primitives act on [vis] only. *)
From Coq Require Import List Arith Bool Lia.
From PV Require Import Michelson.Instr Michelson.PyStack.
Import ListNotations.

Lemma insert_at_app {A} (pre : list A) x vis : insert_at (length pre) x (pre ++ vis) = pre ++ x :: vis.
Proof. induction pre as [|y pre IH]; simpl; [destruct vis; reflexivity | rewrite IH; reflexivity]. Qed.

Lemma remove_at_app {A} (pre : list A) x r : remove_at (length pre) (pre ++ x :: r) = Some (x, pre ++ r).
Proof. induction pre as [|y pre IH]; simpl; [reflexivity | rewrite IH; reflexivity]. Qed.

Lemma remove_at_none {A} (l : list A) n : length l <= n -> remove_at n l = None.
Proof.
  revert n. induction l as [|y l IH]; intros n H; simpl; [reflexivity|].
  destruct n; simpl in H; [lia|]. rewrite IH by lia. reflexivity.
Qed.

Lemma remove_n_app {A} (pre args rest : list A) :
  remove_n (length args) (length pre) (pre ++ args ++ rest) = Some (args, pre ++ rest).
Proof.
  revert pre. induction args as [|x args IH]; intros pre; simpl; [reflexivity|].
  rewrite remove_at_app, IH. reflexivity.
Qed.

Lemma push_mkst pre vis x : push x (mkst pre vis) = mkst pre (x :: vis).
Proof. unfold push, mkst. simpl. rewrite insert_at_app. reflexivity. Qed.

Lemma pop_mkst pre args rest k : length args = k -> pop k (mkst pre (args ++ rest)) = Some (args, mkst pre rest).
Proof.
  intros <-. unfold pop, mkst. simpl. rewrite !app_length.
  destruct (length pre + (length args + length rest) <? length pre + length args) eqn:E;
    [apply Nat.ltb_lt in E; lia|].
  rewrite remove_n_app. reflexivity.
Qed.

Lemma pop_mkst_short pre vis k : length vis < k -> pop k (mkst pre vis) = None.
Proof.
  intros H. unfold pop, mkst. simpl. rewrite app_length.
  destruct (length pre + length vis <? length pre + k) eqn:E; [reflexivity | apply Nat.ltb_ge in E; lia].
Qed.

Lemma pop1_mkst pre x r : pop1 (mkst pre (x :: r)) = Some (x, mkst pre r).
Proof. unfold pop1. change (x :: r) with ([x] ++ r). rewrite (pop_mkst pre [x] r 1 eq_refl). reflexivity. Qed.

Lemma pop1_mkst_nil pre : pop1 (mkst pre []) = None.
Proof. unfold pop1. rewrite pop_mkst_short by (simpl; lia). reflexivity. Qed.

Lemma peek_mkst pre x r : peek (mkst pre (x :: r)) = Some x.
Proof.
  unfold peek, mkst. simpl. destruct (pre ++ x :: r) eqn:E; [destruct pre; discriminate|].
  rewrite <- E. rewrite nth_error_app2 by lia. rewrite Nat.sub_diag. reflexivity.
Qed.

Lemma peek_mkst_nil pre : peek (mkst pre []) = None.
Proof.
  unfold peek, mkst. simpl. rewrite app_nil_r. destruct pre eqn:E; [reflexivity|]. rewrite <- E.
  apply nth_error_None. lia.
Qed.

Lemma protect_mkst pre a b n : length a = n -> protect n (mkst pre (a ++ b)) = Some (mkst (pre ++ a) b).
Proof.
  intros <-. unfold protect, mkst. simpl. rewrite !app_length.
  destruct (length pre + (length a + length b) <? length a) eqn:E; [apply Nat.ltb_lt in E; lia|].
  rewrite app_assoc. reflexivity.
Qed.

Lemma restore_mkst pre a b : restore (length a) (mkst (pre ++ a) b) = Some (mkst pre (a ++ b)).
Proof.
  unfold restore, mkst. simpl. rewrite app_length.
  destruct (length pre + length a <? length a) eqn:E; [apply Nat.ltb_lt in E; lia|].
  rewrite <- app_assoc. f_equal. f_equal. lia.
Qed.

(* with an EMPTY hidden prefix, protect really fails on a short stack *)
Lemma protect_nil_short vis n : length vis < n -> protect n (mkst [] vis) = None.
Proof.
  intros H. unfold protect, mkst. simpl. destruct (length vis <? n) eqn:E; [reflexivity | apply Nat.ltb_ge in E; lia].
Qed.

Lemma view_mkst pre vis : view (mkst pre vis) = vis.
Proof. unfold view, mkst. simpl. rewrite skipn_app, skipn_all, Nat.sub_diag. reflexivity. Qed.

Lemma hidden_mkst pre vis : hidden (mkst pre vis) = pre.
Proof. unfold hidden, mkst. simpl. rewrite firstn_app, firstn_all, Nat.sub_diag. simpl. apply app_nil_r. Qed.

(* every stack whose counter does not exceed its length is of this form *)
Lemma mkst_hidden_view st : prot st <= length (items st) -> st = mkst (hidden st) (view st).
Proof.
  destruct st as [l p]. unfold mkst, hidden, view. simpl. intros H.
  rewrite firstn_skipn, firstn_length, Nat.min_l by assumption. reflexivity.
Qed.

Lemma push_all_mkst outs pre vis : fold_right push (mkst pre vis) outs = mkst pre (outs ++ vis).
Proof. induction outs as [|o outs IH]; simpl; [reflexivity | rewrite IH, push_mkst; reflexivity]. Qed.

Lemma mkst_inj pre v1 v2 : mkst pre v1 = mkst pre v2 -> v1 = v2.
Proof. unfold mkst. intros H. injection H as H. apply app_inv_head in H. assumption. Qed.
