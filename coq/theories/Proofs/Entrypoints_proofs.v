(* Proofs/Entrypoints_proofs.v — lemmas about Michelson/Entrypoints.v (property C13). *)
From Coq Require Import List ZArith NArith Bool Lia.
From Coq.Strings Require Import Byte.
From PV Require Import Base.Bytes Base.Result Codec.Micheline Michelson.Entrypoints.
Import ListNotations.
Local Open Scope list_scope.

(* ---- booleans <-> propositions ---------------------------------------------------------------- *)
Lemma bytes_eqb_refl (a : bytes) : bytes_eqb a a = true.
Proof. apply bytes_eqb_spec. reflexivity. Qed.

Lemma bytes_eqb_false (a b : bytes) : bytes_eqb a b = false <-> a <> b.
Proof.
  split.
  - intros H E. subst. rewrite bytes_eqb_refl in H. discriminate.
  - intros H. destruct (bytes_eqb a b) eqn:E; [|reflexivity]. apply bytes_eqb_spec in E. contradiction.
Qed.

Lemma mem_name_In k l : mem_name k l = true <-> In k l.
Proof.
  induction l as [|x r IH]; simpl.
  - split; [discriminate|contradiction].
  - rewrite orb_true_iff, IH, bytes_eqb_spec. split; intros [H|H]; auto.
Qed.

Lemma mem_name_false k l : mem_name k l = false <-> ~ In k l.
Proof. rewrite <- mem_name_In. destruct (mem_name k l); intuition congruence. Qed.

Lemma nodup_names_NoDup l : nodup_names l = true <-> NoDup l.
Proof.
  induction l as [|x r IH]; simpl.
  - split; [constructor|reflexivity].
  - rewrite andb_true_iff, negb_true_iff, mem_name_false, IH. split.
    + intros [H1 H2]. constructor; assumption.
    + intros H. inversion H; subst. split; assumption.
Qed.

Lemma bool_eqb_spec' (a b : bool) : Bool.eqb a b = true <-> a = b.
Proof. destruct a, b; simpl; split; congruence. Qed.

Lemma path_eqb_spec (a b : path) : path_eqb a b = true <-> a = b.
Proof. unfold path_eqb. apply list_eqb_spec. apply bool_eqb_spec'. Qed.

Lemma path_eqb_refl (a : path) : path_eqb a a = true.
Proof. apply path_eqb_spec. reflexivity. Qed.

Lemma path_eqb_false (a b : path) : path_eqb a b = false <-> a <> b.
Proof.
  split.
  - intros H E. subst. rewrite path_eqb_refl in H. discriminate.
  - intros H. destruct (path_eqb a b) eqn:E; [|reflexivity]. apply path_eqb_spec in E. contradiction.
Qed.

(* ---- association lists path <-> key ------------------------------------------------------------- *)
Lemma key_of_path_In p k l : key_of_path p l = Some k -> In (p, k) l.
Proof.
  induction l as [|[q k'] r IH]; simpl; [discriminate|].
  destruct (path_eqb p q) eqn:E.
  - apply path_eqb_spec in E. subst. intros H. injection H as ->. left. reflexivity.
  - intros H. right. apply IH, H.
Qed.

Lemma In_key_of_path p k l : NoDup (map fst l) -> In (p, k) l -> key_of_path p l = Some k.
Proof.
  induction l as [|[q k'] r IH]; simpl; [contradiction|].
  intros Hnd [H|H].
  - injection H as -> ->. rewrite path_eqb_refl. reflexivity.
  - inversion Hnd as [|? ? Hni Hnd']; subst.
    destruct (path_eqb p q) eqn:E.
    + apply path_eqb_spec in E. subst. exfalso. apply Hni. change q with (fst (q, k)). apply in_map, H.
    + apply IH; assumption.
Qed.

Lemma path_of_key_In p k l : path_of_key k l = Some p -> In (p, k) l.
Proof.
  induction l as [|[q k'] r IH]; simpl; [discriminate|].
  destruct (bytes_eqb k k') eqn:E.
  - apply bytes_eqb_spec in E. subst. intros H. injection H as ->. left. reflexivity.
  - intros H. right. apply IH, H.
Qed.

Lemma In_path_of_key p k l : NoDup (map snd l) -> In (p, k) l -> path_of_key k l = Some p.
Proof.
  induction l as [|[q k'] r IH]; simpl; [contradiction|].
  intros Hnd [H|H].
  - injection H as -> ->. rewrite bytes_eqb_refl. reflexivity.
  - inversion Hnd as [|? ? Hni Hnd']; subst.
    destruct (bytes_eqb k k') eqn:E.
    + apply bytes_eqb_spec in E. subst. exfalso. apply Hni. change k' with (snd (p, k')). apply in_map, H.
    + apply IH; assumption.
Qed.

Lemma path_of_key_None k l : path_of_key k l = None <-> ~ In k (map snd l).
Proof.
  induction l as [|[q k'] r IH]; simpl.
  - split; auto.
  - destruct (bytes_eqb k k') eqn:E.
    + apply bytes_eqb_spec in E. subst. split; [discriminate|]. intros H. exfalso. apply H. left. reflexivity.
    + apply bytes_eqb_false in E. rewrite IH. split.
      * intros H [H'|H']; [congruence|contradiction].
      * intros H H'. apply H. right. assumption.
Qed.

Lemma dict_set_fresh {V} (d : list (name * V)) k v :
  ~ In k (map fst d) -> dict_set d k v = d ++ [(k, v)].
Proof.
  induction d as [|[k' v'] r IH]; simpl; intros H; [reflexivity|].
  destruct (bytes_eqb k k') eqn:E.
  - apply bytes_eqb_spec in E. subst. exfalso. apply H. left. reflexivity.
  - rewrite IH; [reflexivity|]. intros H'. apply H. right. assumption.
Qed.

Lemma NoDup_app_intro {A} (l1 l2 : list A) :
  NoDup l1 -> NoDup l2 -> (forall x, In x l1 -> In x l2 -> False) -> NoDup (l1 ++ l2).
Proof.
  induction l1 as [|a r IH]; simpl; intros H1 H2 Hd; [assumption|].
  inversion H1 as [|? ? Hni Hnd]; subst. constructor.
  - rewrite in_app_iff. intros [H|H]; [contradiction|]. apply (Hd a); [left; reflexivity|assumption].
  - apply IH; auto. intros x Hx1 Hx2. apply (Hd x); [right; assumption|assumption].
Qed.

Lemma NoDup_app_elim {A} (l1 l2 : list A) :
  NoDup (l1 ++ l2) -> NoDup l1 /\ NoDup l2 /\ (forall x, In x l1 -> In x l2 -> False).
Proof.
  induction l1 as [|a r IH]; simpl; intros H.
  - split; [constructor|]. split; [assumption|]. intros x [].
  - inversion H as [|? ? Hni Hnd]; subst. destruct (IH Hnd) as [H1 [H2 H3]].
    rewrite in_app_iff in Hni. split; [constructor; tauto|]. split; [assumption|].
    intros x [<-|Hx] Hx2; [tauto|]. apply (H3 x); assumption.
Qed.

Section Proofs.
  Variable L : Type.
  Variable P : Type.
  Variable leaf_dec : L -> node -> result P.
  Variable leaf_enc : L -> P -> node.

  Notation uty := (uty L).
  Notation uval := (uval P).
  Notation dec := (dec L P leaf_dec).
  Notation enc := (enc L P leaf_enc).
  Notation shape := (shape L P leaf_dec leaf_enc).
  Notation from_parameters := (from_parameters L P leaf_dec).
  Notation to_parameters := (to_parameters L P leaf_enc).
  Notation reach := (reach L).
  Notation vreach := (vreach L P).
  Notation branch := (branch L).
  Notation ename := (ename L).
  Notation fname := (fname L).
  Notation anon := (anon L).
  Notation iter_node := (iter_node L).
  Notation iter_type_args := (iter_type_args L).
  Notation layout_ep := (layout_ep L).
  Notation layout := (layout L).
  Notation root_name := (root_name L).
  Notation list_entrypoints := (list_entrypoints L).
  Notation deepest := (deepest L P).
  Notation branch_names := (branch_names L).
  Notation wf_b := (wf_b L).
  Notation collide_b := (collide_b L).
  Notation spec_root_name := (spec_root_name L).

  (* ---- the value codec ---------------------------------------------------------------------------- *)
  Lemma dec_enc : forall t v, shape t v -> exists n, enc t v = Ok n /\ dec t n = Ok v.
  Proof.
    induction t as [fn lf|fn l IHl r IHr]; intros v Hs; destruct v as [p|x|x]; simpl in Hs; try contradiction.
    - exists (leaf_enc lf p). simpl. rewrite Hs. split; reflexivity.
    - destruct (IHl x Hs) as [n [He Hd]]. exists (NPrim tag_Left [n] []). simpl. rewrite He. simpl.
      rewrite Hd. split; reflexivity.
    - destruct (IHr x Hs) as [n [He Hd]]. exists (NPrim tag_Right [n] []). simpl. rewrite He. simpl.
      rewrite Hd. split; reflexivity.
  Qed.

  Lemma ename_fname t k : ename t = Some k -> fname t = Some k.
  Proof. unfold Entrypoints.ename. destruct (fname t) as [[|c s]|]; intros H; try discriminate. exact H. Qed.

  Lemma ename_anon t : ename (anon t) = None.
  Proof. destruct t; reflexivity. Qed.

  Lemma enc_anon t v : enc (anon t) v = enc t v.
  Proof. destruct t; reflexivity. Qed.

  Lemma dec_anon t n : dec (anon t) n = dec t n.
  Proof. destruct t; reflexivity. Qed.

  Lemma shape_anon t v : shape (anon t) v <-> shape t v.
  Proof. destruct t; simpl; tauto. Qed.

  (* ---- reach / vreach ----------------------------------------------------------------------------- *)
  Lemma reach_fun t q s1 s2 : reach t q s1 -> reach t q s2 -> s1 = s2.
  Proof.
    intros H1. revert s2. induction H1; intros s2 H2; inversion H2; subst; auto.
  Qed.

  Lemma reach_app t q s q' s' : reach t q s -> reach s q' s' -> reach t (q ++ q') s'.
  Proof. intros H1 H2. induction H1; simpl; [assumption| constructor; auto | constructor; auto]. Qed.

  Lemma vreach_reach t v q s sv : vreach t v q s sv -> reach t q s.
  Proof. intros H. induction H; constructor; assumption. Qed.

  Lemma vreach_shape t v q s sv : vreach t v q s sv -> shape t v -> shape s sv.
  Proof. intros H. induction H; simpl; auto. Qed.

  Lemma vreach_app t v q s sv q' s' sv' :
    vreach t v q s sv -> vreach s sv q' s' sv' -> vreach t v (q ++ q') s' sv'.
  Proof. intros H1 H2. induction H1; simpl; [assumption| constructor; auto | constructor; auto]. Qed.

  (* two nodes on the variant path of one value are comparable *)
  Lemma vreach_comparable t v q1 s1 v1 q2 s2 v2 :
    vreach t v q1 s1 v1 -> vreach t v q2 s2 v2 ->
    (exists r, q2 = q1 ++ r /\ vreach s1 v1 r s2 v2) \/ (exists r, q1 = q2 ++ r /\ vreach s2 v2 r s1 v1).
  Proof.
    intros H1. revert q2 s2 v2. induction H1; intros q2 s2 v2 H2.
    - left. exists q2. split; [reflexivity|assumption].
    - inversion H2; subst.
      + right. eexists. split; [reflexivity|]. constructor. assumption.
      + match goal with H : Entrypoints.vreach _ _ _ _ _ s2 v2 |- _ =>
          destruct (IHvreach _ _ _ H) as [[r' [E Hr]]|[r' [E Hr]]]; subst end.
        * left. exists r'. split; [reflexivity|assumption].
        * right. exists r'. split; [reflexivity|assumption].
    - inversion H2; subst.
      + right. eexists. split; [reflexivity|]. constructor. assumption.
      + match goal with H : Entrypoints.vreach _ _ _ _ _ s2 v2 |- _ =>
          destruct (IHvreach _ _ _ H) as [[r' [E Hr]]|[r' [E Hr]]]; subst end.
        * left. exists r'. split; [reflexivity|assumption].
        * right. exists r'. split; [reflexivity|assumption].
  Qed.

  Lemma vreach_anon_iff t v q s sv : q <> [] -> (vreach (anon t) v q s sv <-> vreach t v q s sv).
  Proof.
    intros Hq. destruct t as [fn lf|fn l r]; simpl.
    - split; intros H; inversion H; subst; congruence.
    - split; intros H; inversion H; subst; try congruence; constructor; assumption.
  Qed.

  (* wrapping an argument along a path and decoding it at the root *)
  Lemma wrap_dec_vreach t v q s sv n :
    vreach t v q s sv -> dec s n = Ok sv -> dec t (wrap n q) = Ok v.
  Proof.
    intros H Hd. induction H; simpl.
    - assumption.
    - rewrite (IHvreach Hd). reflexivity.
    - rewrite (IHvreach Hd). reflexivity.
  Qed.

  Lemma wrap_dec_reach t q s sv n :
    reach t q s -> dec s n = Ok sv -> exists v, dec t (wrap n q) = Ok v /\ vreach t v q s sv.
  Proof.
    intros H Hd. induction H; simpl.
    - exists sv. split; [assumption|constructor].
    - destruct (IHreach Hd) as [v [H1 H2]]. exists (VL v). rewrite H1. split; [reflexivity|constructor; assumption].
    - destruct (IHreach Hd) as [v [H1 H2]]. exists (VR v). rewrite H1. split; [reflexivity|constructor; assumption].
  Qed.

  Lemma vreach_shape_up t v q s sv : vreach t v q s sv -> shape s sv -> shape t v.
  Proof. intros H. induction H; simpl; auto. Qed.

  (* ---- iter_type_args = the annotated branches ------------------------------------------------------ *)
  Lemma iter_node_spec : forall t p0 p s,
    In (p, s) (iter_node p0 t) <-> exists q, p = p0 ++ q /\ reach t q s /\ ename s <> None.
  Proof.
    induction t as [fn lf|fn l IHl r IHr]; intros p0 p s.
    - simpl. rewrite app_nil_r. split.
      + destruct (ename (ULeaf fn lf)) eqn:E; simpl; [|contradiction].
        intros [H|[]]. injection H as <- <-. exists []. rewrite app_nil_r. split; [reflexivity|].
        split; [constructor|congruence].
      + intros [q [-> [Hr Hn]]]. inversion Hr; subst. rewrite app_nil_r.
        destruct (ename (ULeaf fn lf)); [left; reflexivity|congruence].
    - cbn [Entrypoints.iter_node]. rewrite in_app_iff, in_app_iff, IHl, IHr. split.
      + intros [H|[H|H]].
        * destruct (ename (UOr fn l r)) eqn:E; simpl in H; [|contradiction].
          destruct H as [H|[]]. injection H as <- <-. exists []. rewrite app_nil_r.
          split; [reflexivity|]. split; [constructor|congruence].
        * destruct H as [q [-> [Hr Hn]]]. exists (false :: q). rewrite <- app_assoc. simpl.
          split; [reflexivity|]. split; [constructor; assumption|assumption].
        * destruct H as [q [-> [Hr Hn]]]. exists (true :: q). rewrite <- app_assoc. simpl.
          split; [reflexivity|]. split; [constructor; assumption|assumption].
      + intros [q [-> [Hr Hn]]]. inversion Hr; subst.
        * left. rewrite app_nil_r. destruct (ename (UOr fn l r)); [left; reflexivity|congruence].
        * right. left. exists q0. rewrite <- app_assoc. simpl. auto.
        * right. right. exists q0. rewrite <- app_assoc. simpl. auto.
  Qed.

  Lemma iter_type_args_spec t p s :
    In (p, s) (iter_type_args t) <-> p <> [] /\ reach t p s /\ ename s <> None.
  Proof.
    destruct t as [fn lf|fn l r]; simpl.
    - split; [contradiction|]. intros [Hp [Hr _]]. inversion Hr; subst. congruence.
    - rewrite in_app_iff, !iter_node_spec. split.
      + intros [[q [-> [Hr Hn]]]|[q [-> [Hr Hn]]]]; simpl; (split; [discriminate|]); split; try assumption;
          constructor; assumption.
      + intros [Hp [Hr Hn]]. inversion Hr; subst; [congruence| |].
        * left. exists q. auto.
        * right. exists q. auto.
  Qed.

  Lemma iter_node_paths_nodup : forall t p0, NoDup (map fst (iter_node p0 t)).
  Proof.
    assert (Hpre : forall t p0 p, In p (map fst (iter_node p0 t)) -> exists q, p = p0 ++ q).
    { intros t p0 p H. apply in_map_iff in H. destruct H as [[p' s] [<- H]]. apply iter_node_spec in H.
      destruct H as [q [-> _]]. exists q. reflexivity. }
    induction t as [fn lf|fn l IHl r IHr]; intros p0.
    - simpl. destruct (ename (ULeaf fn lf)); simpl; repeat constructor. auto.
    - cbn [Entrypoints.iter_node]. rewrite !map_app.
      assert (Hlr : NoDup (map fst (iter_node (p0 ++ [false]) l) ++ map fst (iter_node (p0 ++ [true]) r))).
      { apply NoDup_app_intro; auto.
        intros p H1 H2. apply Hpre in H1. apply Hpre in H2. destruct H1 as [q1 E1]. destruct H2 as [q2 E2].
        rewrite E1 in E2. rewrite <- !app_assoc in E2. apply app_inv_head in E2. simpl in E2. discriminate. }
      destruct (ename (UOr fn l r)); simpl; [|assumption].
      constructor; [|assumption].
      rewrite in_app_iff. intros [H|H]; apply Hpre in H; destruct H as [q E];
        rewrite <- app_assoc in E; rewrite <- (app_nil_r p0) in E at 1; apply app_inv_head in E; discriminate.
  Qed.

  Lemma iter_type_args_paths_nodup t : NoDup (map fst (iter_type_args t)).
  Proof.
    destruct t as [fn lf|fn l r]; simpl; [constructor|].
    rewrite map_app. apply NoDup_app_intro; try apply iter_node_paths_nodup.
    intros p H1 H2. apply in_map_iff in H1. apply in_map_iff in H2.
    destruct H1 as [[p1 s1] [<- H1]]. destruct H2 as [[p2 s2] [E H2]]. simpl in E. subst p2.
    apply iter_node_spec in H1. apply iter_node_spec in H2.
    destruct H1 as [q1 [E1 _]]. destruct H2 as [q2 [E2 _]]. simpl in *. congruence.
  Qed.

  (* ---- get_type_layout(entrypoints=True) ----------------------------------------------------------- *)
  Definition nm (t : uty) : name := match fname t with Some k => k | None => [] end.

  Lemma layout_ep_ok : forall args res lay,
    layout_ep res args = Ok lay ->
    lay = map (fun pa => (fst pa, nm (snd pa))) args /\ NoDup (map snd lay) /\
    (forall k, In k (map snd lay) -> ~ In k res).
  Proof.
    induction args as [|[p t] rest IH]; intros res lay H; simpl in H.
    - injection H as <-. simpl. split; [reflexivity|]. split; [constructor|]. intros k [].
    - destruct (fname t) as [k|] eqn:Ef; [|discriminate].
      destruct (mem_name k res) eqn:Em; [discriminate|].
      destruct (layout_ep (k :: res) rest) as [r|] eqn:Er; simpl in H; [|discriminate].
      injection H as <-. destruct (IH _ _ Er) as [E [Hnd Hdis]]. simpl.
      split; [unfold nm; simpl; rewrite Ef, E at 1; reflexivity|].
      split.
      + constructor; [|assumption]. intros Hin. apply (Hdis k Hin). left. reflexivity.
      + intros k' [<-|Hin].
        * apply mem_name_false, Em.
        * intros Hr. apply (Hdis k' Hin). right. assumption.
  Qed.

  Lemma layout_ep_complete : forall args res,
    (forall pa, In pa args -> fname (snd pa) <> None) ->
    NoDup (map (fun pa => nm (snd pa)) args) ->
    (forall pa, In pa args -> ~ In (nm (snd pa)) res) ->
    exists lay, layout_ep res args = Ok lay.
  Proof.
    induction args as [|[p t] rest IH]; intros res Hnamed Hnd Hdis; simpl.
    - eexists. reflexivity.
    - destruct (fname t) as [k|] eqn:Ef.
      2:{ exfalso. apply (Hnamed (p, t)); [left; reflexivity|assumption]. }
      assert (Hk : nm t = k) by (unfold nm; rewrite Ef; reflexivity).
      destruct (mem_name k res) eqn:Em.
      { exfalso. apply mem_name_In in Em. apply (Hdis (p, t)); [left; reflexivity|]. simpl. rewrite Hk. assumption. }
      simpl in Hnd. inversion Hnd as [|? ? Hni Hnd']; subst.
      destruct (IH (nm t :: res)) as [r Hr].
      + intros pa Hpa. apply Hnamed. right. assumption.
      + assumption.
      + intros pa Hpa [E|Hin].
        * apply Hni. rewrite E. apply in_map_iff. exists pa. split; [reflexivity|assumption].
        * apply (Hdis pa); [right; assumption|assumption].
      + rewrite Hr. simpl. eexists. reflexivity.
  Qed.

  Lemma iter_named t pa : In pa (iter_type_args t) -> exists k, ename (snd pa) = Some k /\ nm (snd pa) = k.
  Proof.
    destruct pa as [p s]. intros H. apply iter_type_args_spec in H. destruct H as [_ [_ Hn]].
    destruct (ename s) as [k|] eqn:E; [|congruence]. exists k. simpl. split; [assumption|].
    unfold nm. rewrite (ename_fname _ _ E). reflexivity.
  Qed.

  Lemma flat_map_named (args : list (path * uty)) :
    (forall pa, In pa args -> exists k, ename (snd pa) = Some k /\ nm (snd pa) = k) ->
    flat_map (fun pa => match ename (snd pa) with Some k => [k] | None => [] end) args
    = map (fun pa => nm (snd pa)) args.
  Proof.
    induction args as [|pa r IH]; simpl; intros H; [reflexivity|].
    destruct (H pa (or_introl eq_refl)) as [k [E1 E2]]. rewrite E1, E2. simpl. f_equal.
    apply IH. intros pa' Hpa'. apply H. right. assumption.
  Qed.

  Lemma branch_names_map t : branch_names t = map (fun pa => nm (snd pa)) (iter_type_args t).
  Proof. apply flat_map_named. intros pa Hpa. eapply iter_named. eassumption. Qed.

  Lemma In_branch_names t k : In k (branch_names t) <-> exists q s, branch t q s k.
  Proof.
    unfold Entrypoints.branch_names, Entrypoints.branch. rewrite in_flat_map. split.
    - intros [[p s] [Hin Hk]]. simpl in Hk. apply iter_type_args_spec in Hin. destruct Hin as [Hp [Hr _]].
      destruct (ename s) as [k'|] eqn:E; simpl in Hk; [|contradiction]. destruct Hk as [<-|[]].
      exists p, s. auto.
    - intros [q [s [Hq [Hr He]]]]. exists (q, s). split.
      + apply iter_type_args_spec. split; [assumption|]. split; [assumption|congruence].
      + simpl. rewrite He. left. reflexivity.
  Qed.

  Lemma layout_char t lay : layout t = Ok lay ->
    lay = map (fun pa => (fst pa, nm (snd pa))) (iter_type_args t) /\
    map snd lay = branch_names t /\ NoDup (map snd lay) /\ NoDup (map fst lay).
  Proof.
    unfold Entrypoints.layout. intros H. destruct (layout_ep_ok _ _ _ H) as [E [Hnd _]].
    split; [assumption|]. split; [|split; [assumption|]].
    - rewrite branch_names_map, E, map_map. reflexivity.
    - rewrite E, map_map. simpl. apply iter_type_args_paths_nodup.
  Qed.

  Lemma layout_key t lay : layout t = Ok lay ->
    forall p k, key_of_path p lay = Some k <-> exists s, branch t p s k.
  Proof.
    intros H p k. destruct (layout_char _ _ H) as [E [_ [_ Hndp]]]. split.
    - intros Hk. apply key_of_path_In in Hk. rewrite E in Hk. apply in_map_iff in Hk.
      destruct Hk as [[p' s] [Epk Hin]]. simpl in Epk. injection Epk as -> <-.
      destruct (iter_named _ _ Hin) as [k' [E1 E2]]. simpl in *.
      apply iter_type_args_spec in Hin. destruct Hin as [Hp [Hr _]].
      exists s. unfold Entrypoints.branch. rewrite E2. auto.
    - intros [s [Hp [Hr He]]]. apply In_key_of_path; [assumption|].
      rewrite E. apply in_map_iff. exists (p, s). split.
      + simpl. unfold nm. rewrite (ename_fname _ _ He). reflexivity.
      + apply iter_type_args_spec. split; [assumption|]. split; [assumption|congruence].
  Qed.

  Lemma wf_layout t : wf_b t = true -> exists lay, layout t = Ok lay.
  Proof.
    unfold Entrypoints.wf_b, Entrypoints.layout. intros H. apply nodup_names_NoDup in H.
    apply NoDup_app_elim in H. destruct H as [_ [H _]].
    apply layout_ep_complete.
    - intros pa Hpa. destruct (iter_named _ _ Hpa) as [k [E _]]. rewrite (ename_fname _ _ E). discriminate.
    - rewrite <- branch_names_map. assumption.
    - intros pa _ [].
  Qed.

  (* ---- the root name --------------------------------------------------------------------------------- *)
  Lemma no_branch_leaf fn lf q s k : ~ branch (ULeaf fn lf) q s k.
  Proof. intros [Hq [Hr _]]. inversion Hr; subst. congruence. Qed.

  Lemma root_name_spec t rn : root_name t = Ok rn -> spec_root_name t rn.
  Proof.
    unfold Entrypoints.spec_root_name. destruct t as [fn lf|fn l r]; simpl.
    - intros H. injection H as <-. destruct (ename (ULeaf fn lf)); [reflexivity|].
      right. split; [|reflexivity]. intros [q [s Hb]]. exact (no_branch_leaf _ _ _ _ _ Hb).
    - destruct (ename (UOr fn l r)) as [k|] eqn:E.
      + intros H. injection H as <-. reflexivity.
      + destruct (layout (UOr fn l r)) as [lay|] eqn:El; simpl; [|discriminate].
        intros H. injection H as <-. destruct (layout_char _ _ El) as [_ [En _]]. rewrite En.
        destruct (mem_name n_default (branch_names (UOr fn l r))) eqn:Em.
        * left. split; [|reflexivity]. apply In_branch_names, mem_name_In, Em.
        * right. split; [|reflexivity]. rewrite <- In_branch_names. apply mem_name_false, Em.
  Qed.

  Lemma wf_root_name t : wf_b t = true -> exists rn, root_name t = Ok rn.
  Proof.
    intros H. destruct t as [fn lf|fn l r]; simpl; [eexists; reflexivity|].
    destruct (ename (UOr fn l r)); [eexists; reflexivity|].
    destruct (wf_layout _ H) as [lay ->]. simpl. eexists. reflexivity.
  Qed.

  Lemma root_fresh t rn : wf_b t = true -> collide_b t = false -> root_name t = Ok rn -> ~ In rn (branch_names t).
  Proof.
    intros Hwf Hc Hrn. unfold Entrypoints.wf_b in Hwf. unfold Entrypoints.collide_b in Hc.
    apply nodup_names_NoDup in Hwf.
    destruct t as [fn lf|fn l r].
    - rewrite In_branch_names. intros [q [s Hb]]. exact (no_branch_leaf _ _ _ _ _ Hb).
    - simpl in Hrn. destruct (ename (UOr fn l r)) as [k|] eqn:E.
      + injection Hrn as <-. simpl in Hwf. inversion Hwf; assumption.
      + destruct (layout (UOr fn l r)) as [lay|] eqn:El; simpl in Hrn; [|discriminate].
        injection Hrn as <-. destruct (layout_char _ _ El) as [_ [En _]]. rewrite En.
        destruct (mem_name n_default (branch_names (UOr fn l r))) eqn:Em; simpl in Hc.
        * apply mem_name_false. assumption.
        * apply mem_name_false. assumption.
  Qed.

  (* ---- the while loop of to_parameters --------------------------------------------------------------- *)
  Lemma deepest_spec lay : forall t v p0 cur,
    (deepest lay p0 t v cur = cur /\
     forall q s sv, q <> [] -> vreach t v q s sv -> key_of_path (p0 ++ q) lay = None)
    \/
    (exists q s sv k, q <> [] /\ vreach t v q s sv /\ key_of_path (p0 ++ q) lay = Some k /\
       deepest lay p0 t v cur = (k, (s, sv)) /\
       forall q' s' sv', q' <> [] -> vreach s sv q' s' sv' -> key_of_path (p0 ++ q ++ q') lay = None).
  Proof.
    induction t as [fn lf|fn tl IHl tr IHr]; intros v p0 cur.
    - left. split; [destruct v; reflexivity|]. intros q s sv Hq Hv. inversion Hv; subst. congruence.
    - destruct v as [p|x|x].
      + left. split; [reflexivity|]. intros q s sv Hq Hv. inversion Hv; subst. congruence.
      + cbn [Entrypoints.deepest].
        set (cur' := match key_of_path (p0 ++ [false]) lay with Some k => (k, (tl, x)) | None => cur end).
        destruct (IHl x (p0 ++ [false]) cur') as [[E Hnone]|[q [s [sv [k [Hq [Hv [Hk [E Hdeep]]]]]]]]].
        * destruct (key_of_path (p0 ++ [false]) lay) as [k|] eqn:K.
          -- right. exists [false], tl, x, k. split; [discriminate|]. split; [repeat constructor|].
             split; [assumption|]. split; [rewrite E; reflexivity|].
             intros q' s' sv' Hq' Hv'. specialize (Hnone q' s' sv' Hq' Hv').
             rewrite <- app_assoc in Hnone. exact Hnone.
          -- left. split; [rewrite E; reflexivity|]. intros q s sv Hq Hv. inversion Hv; subst; [congruence|].
             destruct q0 as [|b q0].
             ++ exact K.
             ++ assert (Hne : b :: q0 <> []) by discriminate.
                match goal with H : Entrypoints.vreach _ _ tl x _ _ _ |- _ =>
                  specialize (Hnone _ _ _ Hne H) end.
                rewrite <- app_assoc in Hnone. exact Hnone.
        * right. exists (false :: q), s, sv, k. split; [discriminate|]. split; [constructor; assumption|].
          rewrite <- app_assoc in Hk. split; [exact Hk|]. split; [exact E|].
          intros q' s' sv' Hq' Hv'. specialize (Hdeep q' s' sv' Hq' Hv'). rewrite <- app_assoc in Hdeep. exact Hdeep.
      + cbn [Entrypoints.deepest].
        set (cur' := match key_of_path (p0 ++ [true]) lay with Some k => (k, (tr, x)) | None => cur end).
        destruct (IHr x (p0 ++ [true]) cur') as [[E Hnone]|[q [s [sv [k [Hq [Hv [Hk [E Hdeep]]]]]]]]].
        * destruct (key_of_path (p0 ++ [true]) lay) as [k|] eqn:K.
          -- right. exists [true], tr, x, k. split; [discriminate|]. split; [repeat constructor|].
             split; [assumption|]. split; [rewrite E; reflexivity|].
             intros q' s' sv' Hq' Hv'. specialize (Hnone q' s' sv' Hq' Hv').
             rewrite <- app_assoc in Hnone. exact Hnone.
          -- left. split; [rewrite E; reflexivity|]. intros q s sv Hq Hv. inversion Hv; subst; [congruence|].
             destruct q0 as [|b q0].
             ++ exact K.
             ++ assert (Hne : b :: q0 <> []) by discriminate.
                match goal with H : Entrypoints.vreach _ _ tr x _ _ _ |- _ =>
                  specialize (Hnone _ _ _ Hne H) end.
                rewrite <- app_assoc in Hnone. exact Hnone.
        * right. exists (true :: q), s, sv, k. split; [discriminate|]. split; [constructor; assumption|].
          rewrite <- app_assoc in Hk. split; [exact Hk|]. split; [exact E|].
          intros q' s' sv' Hq' Hv'. specialize (Hdeep q' s' sv' Hq' Hv'). rewrite <- app_assoc in Hdeep. exact Hdeep.
  Qed.

  (* ---- from_parameters on the two kinds of entrypoint ------------------------------------------------ *)
  Lemma from_parameters_root t rn n : root_name t = Ok rn -> from_parameters t rn n = dec t n.
  Proof.
    intros H. unfold Entrypoints.from_parameters. rewrite H. simpl. rewrite bytes_eqb_refl. reflexivity.
  Qed.

  Lemma from_parameters_branch t rn lay k q s n :
    root_name t = Ok rn -> layout t = Ok lay -> k <> rn -> branch t q s k ->
    from_parameters t k n = dec t (wrap n q).
  Proof.
    intros Hrn Hlay Hne Hb. unfold Entrypoints.from_parameters. rewrite Hrn. simpl.
    apply bytes_eqb_false in Hne. rewrite Hne.
    destruct t as [fn lf|fn l r]; [exfalso; exact (no_branch_leaf _ _ _ _ _ Hb)|].
    rewrite Hlay. simpl.
    destruct (layout_char _ _ Hlay) as [_ [_ [Hnd _]]].
    assert (Hin : In (q, k) lay).
    { apply key_of_path_In. apply (layout_key _ _ Hlay). exists s. assumption. }
    rewrite (In_path_of_key _ _ _ Hnd Hin). reflexivity.
  Qed.

  Lemma from_parameters_unlisted t rn n e :
    root_name t = Ok rn -> e <> rn -> ~ In e (branch_names t) -> from_parameters t e n = Reject.
  Proof.
    intros Hrn Hne Hni. unfold Entrypoints.from_parameters. rewrite Hrn. simpl.
    apply bytes_eqb_false in Hne. rewrite Hne. destruct t as [fn lf|fn l r]; [reflexivity|].
    destruct (layout (UOr fn l r)) as [lay|] eqn:El; simpl; [|reflexivity].
    destruct (layout_char _ _ El) as [_ [En _]].
    destruct (path_of_key e lay) eqn:Ep; [|reflexivity].
    exfalso. apply Hni. rewrite <- En. apply path_of_key_In in Ep.
    change e with (snd (p, e)). apply in_map. assumption.
  Qed.

  (* ---- to_parameters returns the deepest annotated node on the variant path, else the root ------------ *)
  Lemma to_parameters_char t v rn :
    wf_b t = true -> root_name t = Ok rn -> shape t v ->
    exists q s sv e n,
      vreach t v q s sv /\ enc s sv = Ok n /\ to_parameters t v = Ok (e, n) /\
      ((q = [] /\ e = rn) \/ (q <> [] /\ ename s = Some e)) /\
      (forall q' s' sv', q' <> [] -> vreach s sv q' s' sv' -> ename s' = None).
  Proof.
    intros Hwf Hrn Hs. unfold Entrypoints.to_parameters. rewrite Hrn. cbn [bind].
    destruct t as [fn lf|fn l r].
    - destruct (dec_enc _ _ Hs) as [n [He _]].
      exists [], (ULeaf fn lf), v, rn, n. cbn [bind fst snd]. rewrite He. cbn [bind].
      split; [constructor|]. split; [first [assumption|reflexivity]|]. split; [reflexivity|]. split; [left; auto|].
      intros q' s' sv' Hq' Hv'. inversion Hv'; subst. congruence.
    - destruct (wf_layout _ Hwf) as [lay Hlay]. rewrite Hlay. cbn [bind].
      assert (Hun : forall q' s' sv', q' <> [] -> vreach (UOr fn l r) v q' s' sv' ->
                    key_of_path q' lay = None -> ename s' = None).
      { intros q' s' sv' Hq' Hv' Hk. destruct (ename s') as [k'|] eqn:E; [|reflexivity].
        assert (Hb : key_of_path q' lay = Some k').
        { apply (layout_key _ _ Hlay). exists s'. split; [assumption|]. split; [|assumption].
          eapply vreach_reach. eassumption. }
        congruence. }
      destruct (deepest_spec lay (UOr fn l r) v [] (rn, (UOr fn l r, v)))
        as [[E Hnone]|[q [s [sv [k [Hq [Hv [Hk [E Hdeep]]]]]]]]]; rewrite E; cbn [bind fst snd].
      + destruct (dec_enc _ _ Hs) as [n [He _]]. rewrite He. cbn [bind].
        exists [], (UOr fn l r), v, rn, n. split; [constructor|]. split; [assumption|].
        split; [reflexivity|]. split; [left; auto|].
        intros q' s' sv' Hq' Hv'. apply (Hun q' s' sv' Hq' Hv'). apply (Hnone q' s' sv' Hq' Hv').
      + pose proof (vreach_shape _ _ _ _ _ Hv Hs) as Hss.
        destruct (dec_enc _ _ Hss) as [n [He _]]. rewrite He. cbn [bind].
        exists q, s, sv, k, n. split; [assumption|]. split; [first [assumption|reflexivity]|]. split; [reflexivity|].
        split.
        * right. split; [assumption|]. simpl in Hk. apply (layout_key _ _ Hlay) in Hk.
          destruct Hk as [s0 [_ [Hr0 He0]]]. rewrite (reach_fun _ _ _ _ (vreach_reach _ _ _ _ _ Hv) Hr0). assumption.
        * intros q' s' sv' Hq' Hv'. apply (Hun (q ++ q') s' sv').
          -- destruct q; [congruence|discriminate].
          -- eapply vreach_app; eassumption.
          -- apply (Hdeep q' s' sv' Hq' Hv').
  Qed.

  (* ---- value round trip ------------------------------------------------------------------------------ *)
  Lemma value_roundtrip t v :
    wf_b t = true -> collide_b t = false -> shape t v ->
    exists e n, to_parameters t v = Ok (e, n) /\ from_parameters t e n = Ok v.
  Proof.
    intros Hwf Hc Hs. destruct (wf_root_name _ Hwf) as [rn Hrn].
    destruct (to_parameters_char _ _ _ Hwf Hrn Hs) as [q [s [sv [e [n [Hv [He [Ht [Hcase _]]]]]]]]].
    exists e, n. split; [assumption|].
    pose proof (vreach_shape _ _ _ _ _ Hv Hs) as Hss.
    destruct (dec_enc _ _ Hss) as [n' [He' Hd]]. rewrite He in He'. injection He' as <-.
    destruct Hcase as [[-> ->]|[Hq Hen]].
    - inversion Hv; subst. rewrite (from_parameters_root _ _ _ Hrn). assumption.
    - assert (Hb : branch t q s e) by (split; [assumption|]; split; [eapply vreach_reach; eassumption|assumption]).
      assert (Hne : e <> rn).
      { intros ->. apply (root_fresh _ _ Hwf Hc Hrn). apply In_branch_names. eauto. }
      destruct t as [fn lf|fn l r]; [exfalso; exact (no_branch_leaf _ _ _ _ _ Hb)|].
      destruct (wf_layout _ Hwf) as [lay Hlay].
      rewrite (from_parameters_branch _ _ _ _ _ _ _ Hrn Hlay Hne Hb).
      eapply wrap_dec_vreach; eassumption.
  Qed.

  (* ---- the entrypoint list ---------------------------------------------------------------------------- *)
  Lemma list_entrypoints_char t :
    wf_b t = true -> collide_b t = false ->
    exists rn es, root_name t = Ok rn /\ list_entrypoints t = Ok es /\ NoDup (map fst es) /\
      forall k ty, In (k, ty) es <-> (k = rn /\ ty = t) \/ (exists q s, branch t q s k /\ ty = anon s).
  Proof.
    intros Hwf Hc. destruct (wf_root_name _ Hwf) as [rn Hrn].
    pose proof (root_fresh _ _ Hwf Hc Hrn) as Hfresh.
    unfold Entrypoints.list_entrypoints. rewrite Hrn. cbn [bind].
    destruct t as [fn lf|fn l r].
    - exists rn, [(rn, ULeaf fn lf)]. simpl. split; [reflexivity|]. split; [reflexivity|].
      split; [repeat constructor; auto|].
      intros k ty. split.
      + intros [H|[]]. injection H as <- <-. left. auto.
      + intros [[-> ->]|[q [s [Hb _]]]]; [left; reflexivity|]. exfalso. exact (no_branch_leaf _ _ _ _ _ Hb).
    - destruct (wf_layout _ Hwf) as [lay Hlay]. rewrite Hlay. cbn [bind].
      set (t := UOr fn l r) in *.
      assert (Hmap : map (fun pa : path * uty =>
                            (match key_of_path (fst pa) lay with Some k => k | None => [] end, anon (snd pa)))
                         (iter_type_args t)
                     = map (fun pa => (nm (snd pa), anon (snd pa))) (iter_type_args t)).
      { apply map_ext_in. intros [p s] Hin. simpl.
        destruct (iter_named _ _ Hin) as [k [E1 E2]]. simpl in E1, E2.
        apply iter_type_args_spec in Hin. destruct Hin as [Hp [Hr _]].
        assert (Hk : key_of_path p lay = Some k).
        { apply (layout_key _ _ Hlay). exists s. split; [assumption|]. split; assumption. }
        rewrite Hk, E2. reflexivity. }
      change (Entrypoints.iter_type_args L (UOr fn l r)) with (iter_type_args t). rewrite Hmap.
      set (br := map (fun pa => (nm (snd pa), anon (snd pa))) (iter_type_args t)).
      assert (Hkeys : map fst br = branch_names t).
      { unfold br. rewrite map_map. simpl. symmetry. apply branch_names_map. }
      rewrite dict_set_fresh by (rewrite Hkeys; assumption).
      exists rn, (br ++ [(rn, t)]). split; [reflexivity|]. split; [reflexivity|]. split.
      + rewrite map_app, Hkeys. simpl. apply NoDup_app_intro.
        * unfold Entrypoints.wf_b in Hwf. apply nodup_names_NoDup in Hwf.
          apply NoDup_app_elim in Hwf. tauto.
        * repeat constructor. auto.
        * intros x Hx [<-|[]]. contradiction.
      + intros k ty. rewrite in_app_iff. split.
        * intros [Hin|[Hin|[]]].
          -- right. unfold br in Hin. apply in_map_iff in Hin. destruct Hin as [[p s] [E Hin]].
             simpl in E. injection E as <- <-.
             destruct (iter_named _ _ Hin) as [k [E1 E2]]. simpl in E1, E2.
             apply iter_type_args_spec in Hin. destruct Hin as [Hp [Hr _]].
             exists p, s. rewrite E2. split; [|reflexivity]. split; [assumption|]. split; assumption.
          -- injection Hin as <- <-. left. auto.
        * intros [[-> ->]|[q [s [[Hq [Hr He]] ->]]]].
          -- right. left. reflexivity.
          -- left. unfold br. apply in_map_iff. exists (q, s). split.
             ++ simpl. unfold nm. rewrite (ename_fname _ _ He). reflexivity.
             ++ apply iter_type_args_spec. split; [assumption|]. split; [assumption|congruence].
  Qed.

  (* ---- entry round trip -------------------------------------------------------------------------------- *)
  Lemma entry_roundtrip t es e ty a :
    wf_b t = true -> collide_b t = false ->
    list_entrypoints t = Ok es -> In (e, ty) es -> shape ty a ->
    exists n v,
      enc ty a = Ok n /\ from_parameters t e n = Ok v /\ shape t v /\
      (exists e' n', to_parameters t v = Ok (e', n') /\ from_parameters t e' n' = Ok v) /\
      ((forall q s sv, q <> [] -> vreach ty a q s sv -> ename s = None) -> to_parameters t v = Ok (e, n)).
  Proof.
    intros Hwf Hc Hl Hin Hs.
    destruct (list_entrypoints_char _ Hwf Hc) as [rn [es' [Hrn [Hl' [_ Hchar]]]]].
    rewrite Hl in Hl'. injection Hl' as <-.
    destruct (dec_enc _ _ Hs) as [n [He Hd]]. exists n.
    apply Hchar in Hin. destruct Hin as [[-> ->]|[qe [se [Hb ->]]]].
    - (* the root entrypoint *)
      exists a. split; [assumption|]. rewrite (from_parameters_root _ _ _ Hrn).
      split; [assumption|]. split; [assumption|]. split; [apply value_roundtrip; assumption|].
      intros Hnd.
      destruct (to_parameters_char _ _ _ Hwf Hrn Hs) as [q [s [sv [e [n' [Hv [He' [Ht [Hcase _]]]]]]]]].
      destruct Hcase as [[-> ->]|[Hq Hen]].
      + inversion Hv; subst. rewrite He in He'. injection He' as <-. assumption.
      + rewrite (Hnd q s sv Hq Hv) in Hen. discriminate.
    - (* an annotated branch *)
      rewrite enc_anon in He. rewrite dec_anon in Hd. rewrite shape_anon in Hs.
      assert (Hne : e <> rn).
      { intros ->. apply (root_fresh _ _ Hwf Hc Hrn). apply In_branch_names. eauto. }
      destruct (wf_layout _ Hwf) as [lay Hlay].
      rewrite (from_parameters_branch _ _ _ _ _ _ n Hrn Hlay Hne Hb).
      destruct Hb as [Hqe [Hre Hee]].
      destruct (wrap_dec_reach _ _ _ _ _ Hre Hd) as [v [Hdv Hvr]].
      exists v. rewrite enc_anon. split; [assumption|]. split; [assumption|].
      pose proof (vreach_shape_up _ _ _ _ _ Hvr Hs) as Hsv.
      split; [assumption|]. split; [apply value_roundtrip; assumption|].
      intros Hnd.
      destruct (to_parameters_char _ _ _ Hwf Hrn Hsv) as [q [s [sv [e' [n' [Hv [He' [Ht [Hcase Hdeep]]]]]]]]].
      destruct (vreach_comparable _ _ _ _ _ _ _ _ Hvr Hv) as [[r0 [Eq Hr0]]|[r0 [Eq Hr0]]].
      + (* the node returned lies at or below the entrypoint *)
        destruct r0 as [|b r0].
        * rewrite app_nil_r in Eq. subst q. inversion Hr0; subst.
          destruct Hcase as [[Hq _]|[_ Hen]]; [congruence|].
          rewrite Hee in Hen. injection Hen as <-.
          rewrite He in He'. injection He' as <-. assumption.
        * exfalso. assert (Hnb : b :: r0 <> []) by discriminate.
          destruct Hcase as [[Hq _]|[_ Hen]].
          -- subst q. destruct qe; discriminate.
          -- rewrite (Hnd (b :: r0) s sv Hnb) in Hen; [discriminate|].
             apply vreach_anon_iff; assumption.
      + (* the node returned lies strictly above the entrypoint: impossible, the entrypoint is annotated *)
        destruct r0 as [|b r0].
        * rewrite app_nil_r in Eq. subst q. inversion Hr0; subst.
          destruct Hcase as [[Hq _]|[_ Hen]]; [congruence|].
          rewrite Hee in Hen. injection Hen as <-.
          rewrite He in He'. injection He' as <-. assumption.
        * exfalso. assert (Hnb : b :: r0 <> []) by discriminate.
          rewrite (Hdeep (b :: r0) se a Hnb Hr0) in Hee. discriminate.
  Qed.
End Proofs.

(* ---- the known finding "root-name-collision", on the concrete leaf codec ---------------------------------- *)
Definition kf_type : uty sty :=
  UOr None (ULeaf (Some n_default) SNat) (ULeaf (Some n_root) SInt).
Definition kf_value : uval node := VR (VLeaf (NInt 2)).

Lemma kf_value_refuted :
  wf_b sty kf_type = true /\ collide_b sty kf_type = true /\
  shape sty node std_dec std_enc kf_type kf_value /\
  to_parameters sty node std_enc kf_type kf_value = Ok (n_root, NInt 2) /\
  from_parameters sty node std_dec kf_type n_root (NInt 2) = Reject.
Proof. vm_compute. repeat split; reflexivity. Qed.

Lemma kf_list_refuted :
  wf_b sty kf_type = true /\
  branch sty kf_type [true] (ULeaf (Some n_root) SInt) n_root /\
  list_entrypoints sty kf_type = Ok [(n_default, ULeaf None SNat); (n_root, kf_type)].
Proof.
  split; [vm_compute; reflexivity|]. split; [|vm_compute; reflexivity].
  split; [discriminate|]. split; [|reflexivity]. apply reach_right. apply reach_here.
Qed.
