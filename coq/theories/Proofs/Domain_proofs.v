(* Proofs/Domain_proofs.v — lemmas about Codec/Domain.v (property C10). *)
From Coq Require Import String List NArith Bool Arith Lia.
From Coq.Strings Require Import Byte.
From PV Require Import Base.Bytes Base.Result Codec.Base58 Codec.Domain Proofs.Base58_proofs.
Import ListNotations.
Local Open Scope list_scope.

(* ========================================================================================== *)
(* Part 1 — (kind, payload) level                                                              *)

Lemma bytes_eqb_refl b : bytes_eqb b b = true.
Proof. apply bytes_eqb_spec. reflexivity. Qed.

Lemma length_forge_address_false a : wf_address a -> length (forge_address false a) = 22%nat.
Proof.
  destruct a as [k h]. unfold wf_address, forge_address. cbn [fst snd]. intro Hl.
  destruct k; cbn [length]; rewrite ?app_length; cbn [length]; lia.
Qed.

Lemma length_forge_address_true a : wf_address a -> length (forge_address true a) = 21%nat.
Proof.
  destruct a as [k h]. unfold wf_address, forge_address. cbn [fst snd]. intro Hl.
  destruct k; cbn [tl length]; rewrite ?app_length; cbn [length]; lia.
Qed.

Lemma unforge_forge_address a : wf_address a -> unforge_address (forge_address false a) = Ok a.
Proof.
  intro Hw. pose proof (length_forge_address_false a Hw) as Hl.
  unfold unforge_address. rewrite Hl. cbn [Nat.eqb].
  destruct a as [k h]. unfold wf_address in Hw. cbn [fst snd] in *.
  destruct h as [|b h']; [discriminate|].
  destruct k; unfold forge_address; cbn [fst snd]; try reflexivity.
  all: cbn [app byte_eqb Byte.eqb tz_of_tag originated_of_tag].
  all: change (b :: h' ++ [x00]) with ((b :: h') ++ [x00]).
  all: match goal with |- context [last (?t :: ?l ++ [x00]) ?d] =>
         change (t :: l ++ [x00]) with ((t :: l) ++ [x00]); rewrite last_last end.
  all: rewrite removelast_last; reflexivity.
Qed.

Lemma unforge_forge_key_hash a :
  wf_address a -> is_implicit (fst a) = true -> unforge_key_hash (forge_key_hash a) = Ok a.
Proof.
  intros Hw Hi. unfold unforge_key_hash, forge_key_hash.
  pose proof (length_forge_address_true a Hw) as Hl.
  unfold unforge_address. rewrite Hl. cbn [Nat.eqb].
  destruct a as [k h]. cbn [fst snd] in *.
  destruct k; try discriminate; reflexivity.
Qed.

(* with tz_only the address dispatcher itself reads the key hash back *)
Lemma unforge_address_key_hash a :
  wf_address a -> is_implicit (fst a) = true -> unforge_address (forge_address true a) = Ok a.
Proof.
  intros Hw Hi. pose proof (length_forge_address_true a Hw) as Hl.
  unfold unforge_address. rewrite Hl. cbn [Nat.eqb].
  destruct a as [k h]. cbn [fst snd] in *.
  destruct k; try discriminate; reflexivity.
Qed.

Lemma unforge_forge_contract a ep :
  wf_address a -> ep <> [] -> unforge_contract (forge_contract (a, ep)) = Ok (a, ep).
Proof.
  intros Hw Hep. unfold unforge_contract, forge_contract. cbn [fst snd].
  pose proof (length_forge_address_false a Hw) as Hl.
  destruct (bytes_eqb ep default_ep) eqn:E.
  - apply bytes_eqb_spec in E. subst ep. rewrite app_nil_r.
    rewrite firstn_all2 by lia. rewrite unforge_forge_address by exact Hw.
    rewrite Hl. reflexivity.
  - rewrite <- Hl at 1. rewrite firstn_app_exact. rewrite unforge_forge_address by exact Hw.
    rewrite app_length, Hl.
    assert (Hlen : (22 <? 22 + length ep)%nat = true).
    { apply Nat.ltb_lt. destruct ep; [contradiction | cbn [length]; lia]. }
    rewrite Hlen. rewrite <- Hl. rewrite skipn_app_exact. reflexivity.
Qed.

(* reading is the exact inverse of writing: whatever is accepted is the encoding of the result *)
Lemma unforge_address_sound d a :
  unforge_address d = Ok a ->
  wf_address a /\ forge_address (Nat.eqb (length d) 21) a = d.
Proof.
  unfold unforge_address. destruct (Nat.eqb (length d) 21) eqn:E21.
  - apply Nat.eqb_eq in E21. destruct d as [|t h]; [discriminate|].
    destruct (tz_of_tag t) as [k|] eqn:Et; [|discriminate]. intro H. injection H as <-.
    cbn [length] in E21. split; [unfold wf_address; cbn [snd]; lia|].
    destruct t; try discriminate; injection Et as <-; reflexivity.
  - destruct (Nat.eqb (length d) 22) eqn:E22; [|discriminate].
    apply Nat.eqb_eq in E22. destruct d as [|t0 [|t1 r]]; try discriminate.
    cbn [length] in E22.
    destruct (if byte_eqb t0 x00 then tz_of_tag t1 else None) as [k|] eqn:Etz.
    + intro H. injection H as <-.
      destruct (byte_eqb t0 x00) eqn:E0; [|discriminate]. apply byte_eqb_spec in E0. subst t0.
      split; [unfold wf_address; cbn [snd]; lia|].
      destruct t1; try discriminate; injection Etz as <-; reflexivity.
    + destruct (originated_of_tag t0) as [k|] eqn:Eo; [|discriminate].
      destruct (byte_eqb (last (t0 :: t1 :: r) x01) x00) eqn:El; [|discriminate].
      assert (Hne : t1 :: r <> []) by discriminate.
      pose proof (app_removelast_last x01 Hne) as Hd.
      remember (removelast (t1 :: r)) as q eqn:Eq. clear Eq.
      intro H. injection H as <-. apply byte_eqb_spec in El.
      change (last (t0 :: t1 :: r) x01) with (last (t1 :: r) x01) in El. rewrite El in Hd.
      split.
      * unfold wf_address. cbn [snd].
        pose proof (f_equal (@length byte) Hd) as Hlen.
        rewrite app_length in Hlen. cbn [length] in Hlen. lia.
      * destruct t0; try discriminate; injection Eo as <-;
          unfold forge_address; cbn [fst snd]; rewrite <- Hd; reflexivity.
Qed.

Lemma forge_address_injective b1 b2 a1 a2 :
  wf_address a1 -> wf_address a2 ->
  forge_address b1 a1 = forge_address b2 a2 ->
  (b1 = false \/ is_implicit (fst a1) = true) -> (b2 = false \/ is_implicit (fst a2) = true) ->
  b1 = b2 /\ a1 = a2.
Proof.
  intros H1 H2 E Hd1 Hd2.
  assert (Hb : b1 = b2).
  { pose proof (f_equal (@length byte) E) as El.
    destruct b1, b2; try reflexivity.
    - rewrite length_forge_address_true, length_forge_address_false in El by assumption. discriminate.
    - rewrite length_forge_address_true, length_forge_address_false in El by assumption. discriminate. }
  subst b2. split; [reflexivity|].
  destruct b1.
  - destruct Hd1 as [Hd1|Hd1]; [discriminate|]. destruct Hd2 as [Hd2|Hd2]; [discriminate|].
    pose proof (unforge_address_key_hash a1 H1 Hd1) as U1.
    pose proof (unforge_address_key_hash a2 H2 Hd2) as U2. rewrite E in U1. congruence.
  - pose proof (unforge_forge_address a1 H1) as U1.
    pose proof (unforge_forge_address a2 H2) as U2. rewrite E in U1. congruence.
Qed.

(* public keys *)
Lemma unforge_forge_public_key k : wf_public_key k -> unforge_public_key (forge_public_key k) = Ok k.
Proof.
  destruct k as [kk p]. unfold wf_public_key, unforge_public_key, forge_public_key. cbn [fst snd].
  intro Hl. destruct kk; cbn [key_tag key_of_tag]; rewrite Hl; cbn [key_len Nat.eqb]; reflexivity.
Qed.

Lemma unforge_public_key_sound d k :
  unforge_public_key d = Ok k -> wf_public_key k /\ forge_public_key k = d.
Proof.
  unfold unforge_public_key. destruct d as [|t p]; [discriminate|].
  destruct (key_of_tag t) as [kk|] eqn:Et; [|discriminate].
  destruct (Nat.eqb (length p) (key_len kk)) eqn:El; [|discriminate].
  intro H. injection H as <-. apply Nat.eqb_eq in El. split; [exact El|].
  unfold forge_public_key. cbn [fst snd].
  destruct t; try discriminate; injection Et as <-; reflexivity.
Qed.

(* signatures: the raw bytes come back, in the generic notation of their length *)
Lemma unforge_forge_signature s :
  wf_signature s ->
  unforge_signature (forge_signature s) = Ok ((match fst s with BLsig => BLsig | _ => Sig end), snd s).
Proof.
  destruct s as [k p]. unfold wf_signature, unforge_signature, forge_signature. cbn [fst snd].
  intro Hl. destruct k; cbn [sig_len] in Hl; rewrite Hl; reflexivity.
Qed.

Lemma unforge_signature_sound d s :
  unforge_signature d = Ok s -> wf_signature s /\ forge_signature s = d.
Proof.
  unfold unforge_signature.
  destruct (Nat.eqb (length d) 64) eqn:E64.
  - intro H. injection H as <-. apply Nat.eqb_eq in E64. split; [exact E64 | reflexivity].
  - destruct (Nat.eqb (length d) 96) eqn:E96; [|discriminate].
    intro H. injection H as <-. apply Nat.eqb_eq in E96. split; [exact E96 | reflexivity].
Qed.

Lemma unforge_forge_chain_id c : wf_chain_id c -> unforge_chain_id (forge_chain_id c) = Ok c.
Proof. unfold wf_chain_id, unforge_chain_id, forge_chain_id. intros ->. reflexivity. Qed.

(* blind_unpack: lengths 4 / 21,22 / 33,34,49 / 64,96 are pairwise different, so the first-match
   cascade recognises each well-formed optimized form as what it is *)
Lemma blind_chain_id c : wf_chain_id c -> blind_unpack (forge_chain_id c) = BChain c.
Proof. intro H. unfold blind_unpack. rewrite unforge_forge_chain_id by exact H. reflexivity. Qed.

Lemma unforge_chain_id_len d : length d <> 4%nat -> unforge_chain_id d = Reject.
Proof. intro H. unfold unforge_chain_id. apply Nat.eqb_neq in H. rewrite H. reflexivity. Qed.

Lemma unforge_address_len d : length d <> 21%nat -> length d <> 22%nat -> unforge_address d = Reject.
Proof.
  intros H1 H2. unfold unforge_address. apply Nat.eqb_neq in H1, H2. rewrite H1, H2. reflexivity.
Qed.

Lemma blind_address b a :
  wf_address a -> (b = false \/ is_implicit (fst a) = true) -> blind_unpack (forge_address b a) = BAddr a.
Proof.
  intros Hw Hb. unfold blind_unpack.
  assert (Hl : length (forge_address b a) = 21%nat \/ length (forge_address b a) = 22%nat).
  { destruct b; [left; apply length_forge_address_true | right; apply length_forge_address_false]; exact Hw. }
  rewrite unforge_chain_id_len by lia.
  destruct b.
  - destruct Hb as [Hb|Hb]; [discriminate|]. rewrite unforge_address_key_hash by assumption. reflexivity.
  - rewrite unforge_forge_address by exact Hw. reflexivity.
Qed.

Lemma length_forge_public_key k : wf_public_key k -> length (forge_public_key k) = S (key_len (fst k)).
Proof. destruct k as [kk p]. unfold wf_public_key, forge_public_key. cbn [fst snd length]. lia. Qed.

Lemma blind_public_key k : wf_public_key k -> blind_unpack (forge_public_key k) = BKey k.
Proof.
  intro Hw. unfold blind_unpack. pose proof (length_forge_public_key k Hw) as Hl.
  assert (Hk : (32 <= key_len (fst k) <= 48)%nat) by (destruct (fst k); cbn; lia).
  rewrite unforge_chain_id_len by lia. rewrite unforge_address_len by lia.
  rewrite unforge_forge_public_key by exact Hw. reflexivity.
Qed.

Lemma unforge_public_key_len d : (49 < length d)%nat -> unforge_public_key d = Reject.
Proof.
  intro H. unfold unforge_public_key. destruct d as [|t p]; [reflexivity|].
  destruct (key_of_tag t) as [k|]; [|reflexivity].
  cbn [length] in H. destruct (Nat.eqb (length p) (key_len k)) eqn:E; [|reflexivity].
  apply Nat.eqb_eq in E. destruct k; cbn in E; lia.
Qed.

Lemma blind_signature s :
  wf_signature s ->
  blind_unpack (forge_signature s) = BSig ((match fst s with BLsig => BLsig | _ => Sig end), snd s).
Proof.
  intro Hw. unfold blind_unpack.
  assert (Hl : length (forge_signature s) = sig_len (fst s)) by exact Hw.
  assert (Hk : (64 <= sig_len (fst s))%nat) by (destruct (fst s); cbn; lia).
  rewrite unforge_chain_id_len by lia. rewrite unforge_address_len by lia.
  rewrite unforge_public_key_len by lia.
  rewrite unforge_forge_signature by exact Hw. reflexivity.
Qed.
