(* Proofs/Domain_proofs.v — lemmas about Codec/Domain.v (property C10). *)
From Coq Require Import String List NArith Bool Arith Lia.
From Coq.Strings Require Import Byte.
From PV Require Import Base.Bytes Base.Result Codec.Base58 Codec.Domain Proofs.Base58_proofs.
Import ListNotations.
Local Open Scope list_scope.

(* ========================================================================================== *)
(* Part 1 — (kind, payload) level                                                              *)

Lemma bytes_eqb_refl b : bytes_eqb b b = true.
Proof. apply bytes_eqb_spec. reflexivity. Qed.

Lemma length_forge_address_false a : wf_address a -> length (forge_address false a) = 22%nat.
Proof.
  destruct a as [k h]. unfold wf_address, forge_address. cbn [fst snd]. intro Hl.
  destruct k; cbn [length]; rewrite ?app_length; cbn [length]; lia.
Qed.

Lemma length_forge_address_true a : wf_address a -> length (forge_address true a) = 21%nat.
Proof.
  destruct a as [k h]. unfold wf_address, forge_address. cbn [fst snd]. intro Hl.
  destruct k; cbn [tl length]; rewrite ?app_length; cbn [length]; lia.
Qed.

Lemma unforge_forge_address a : wf_address a -> unforge_address (forge_address false a) = Ok a.
Proof.
  intro Hw. pose proof (length_forge_address_false a Hw) as Hl.
  unfold unforge_address. rewrite Hl. cbn [Nat.eqb].
  destruct a as [k h]. unfold wf_address in Hw. cbn [fst snd] in *.
  destruct h as [|b h']; [discriminate|].
  destruct k; unfold forge_address; cbn [fst snd]; try reflexivity.
  all: cbn [app byte_eqb Byte.eqb tz_of_tag originated_of_tag].
  all: change (b :: h' ++ [x00]) with ((b :: h') ++ [x00]).
  all: match goal with |- context [last (?t :: ?l ++ [x00]) ?d] =>
         change (t :: l ++ [x00]) with ((t :: l) ++ [x00]); rewrite last_last end.
  all: rewrite removelast_last; reflexivity.
Qed.

Lemma unforge_forge_key_hash a :
  wf_address a -> is_implicit (fst a) = true -> unforge_key_hash (forge_key_hash a) = Ok a.
Proof.
  intros Hw Hi. unfold unforge_key_hash, forge_key_hash.
  pose proof (length_forge_address_true a Hw) as Hl.
  unfold unforge_address. rewrite Hl. cbn [Nat.eqb].
  destruct a as [k h]. cbn [fst snd] in *.
  destruct k; try discriminate; reflexivity.
Qed.

(* with tz_only the address dispatcher itself reads the key hash back *)
Lemma unforge_address_key_hash a :
  wf_address a -> is_implicit (fst a) = true -> unforge_address (forge_address true a) = Ok a.
Proof.
  intros Hw Hi. pose proof (length_forge_address_true a Hw) as Hl.
  unfold unforge_address. rewrite Hl. cbn [Nat.eqb].
  destruct a as [k h]. cbn [fst snd] in *.
  destruct k; try discriminate; reflexivity.
Qed.

Lemma unforge_forge_contract a ep :
  wf_address a -> ep <> [] -> unforge_contract (forge_contract (a, ep)) = Ok (a, ep).
Proof.
  intros Hw Hep. unfold unforge_contract, forge_contract. cbn [fst snd].
  pose proof (length_forge_address_false a Hw) as Hl.
  destruct (bytes_eqb ep default_ep) eqn:E.
  - apply bytes_eqb_spec in E. subst ep. rewrite app_nil_r.
    rewrite firstn_all2 by lia. rewrite unforge_forge_address by exact Hw.
    rewrite Hl. reflexivity.
  - rewrite <- Hl at 1. rewrite firstn_app_exact. rewrite unforge_forge_address by exact Hw.
    rewrite app_length, Hl.
    assert (Hlen : (22 <? 22 + length ep)%nat = true).
    { apply Nat.ltb_lt. destruct ep; [contradiction | cbn [length]; lia]. }
    rewrite Hlen. rewrite <- Hl. rewrite skipn_app_exact. reflexivity.
Qed.

(* reading is the exact inverse of writing: whatever is accepted is the encoding of the result *)
Lemma unforge_address_sound d a :
  unforge_address d = Ok a ->
  wf_address a /\ forge_address (Nat.eqb (length d) 21) a = d.
Proof.
  unfold unforge_address. destruct (Nat.eqb (length d) 21) eqn:E21.
  - apply Nat.eqb_eq in E21. destruct d as [|t h]; [discriminate|].
    destruct (tz_of_tag t) as [k|] eqn:Et; [|discriminate]. intro H. injection H as <-.
    cbn [length] in E21. split; [unfold wf_address; cbn [snd]; lia|].
    destruct t; try discriminate; injection Et as <-; reflexivity.
  - destruct (Nat.eqb (length d) 22) eqn:E22; [|discriminate].
    apply Nat.eqb_eq in E22. destruct d as [|t0 [|t1 r]]; try discriminate.
    cbn [length] in E22.
    destruct (if byte_eqb t0 x00 then tz_of_tag t1 else None) as [k|] eqn:Etz.
    + intro H. injection H as <-.
      destruct (byte_eqb t0 x00) eqn:E0; [|discriminate]. apply byte_eqb_spec in E0. subst t0.
      split; [unfold wf_address; cbn [snd]; lia|].
      destruct t1; try discriminate; injection Etz as <-; reflexivity.
    + destruct (originated_of_tag t0) as [k|] eqn:Eo; [|discriminate].
      destruct (byte_eqb (last (t0 :: t1 :: r) x01) x00) eqn:El; [|discriminate].
      assert (Hne : t1 :: r <> []) by discriminate.
      pose proof (app_removelast_last x01 Hne) as Hd.
      remember (removelast (t1 :: r)) as q eqn:Eq. clear Eq.
      intro H. injection H as <-. apply byte_eqb_spec in El.
      change (last (t0 :: t1 :: r) x01) with (last (t1 :: r) x01) in El. rewrite El in Hd.
      split.
      * unfold wf_address. cbn [snd].
        pose proof (f_equal (@length byte) Hd) as Hlen.
        rewrite app_length in Hlen. cbn [length] in Hlen. lia.
      * destruct t0; try discriminate; injection Eo as <-;
          unfold forge_address; cbn [fst snd]; rewrite <- Hd; reflexivity.
Qed.

Lemma forge_address_injective b1 b2 a1 a2 :
  wf_address a1 -> wf_address a2 ->
  forge_address b1 a1 = forge_address b2 a2 ->
  (b1 = false \/ is_implicit (fst a1) = true) -> (b2 = false \/ is_implicit (fst a2) = true) ->
  b1 = b2 /\ a1 = a2.
Proof.
  intros H1 H2 E Hd1 Hd2.
  assert (Hb : b1 = b2).
  { pose proof (f_equal (@length byte) E) as El.
    destruct b1, b2; try reflexivity.
    - rewrite length_forge_address_true, length_forge_address_false in El by assumption. discriminate.
    - rewrite length_forge_address_true, length_forge_address_false in El by assumption. discriminate. }
  subst b2. split; [reflexivity|].
  destruct b1.
  - destruct Hd1 as [Hd1|Hd1]; [discriminate|]. destruct Hd2 as [Hd2|Hd2]; [discriminate|].
    pose proof (unforge_address_key_hash a1 H1 Hd1) as U1.
    pose proof (unforge_address_key_hash a2 H2 Hd2) as U2. rewrite E in U1. congruence.
  - pose proof (unforge_forge_address a1 H1) as U1.
    pose proof (unforge_forge_address a2 H2) as U2. rewrite E in U1. congruence.
Qed.

(* public keys *)
Lemma unforge_forge_public_key k : wf_public_key k -> unforge_public_key (forge_public_key k) = Ok k.
Proof.
  destruct k as [kk p]. unfold wf_public_key, unforge_public_key, forge_public_key. cbn [fst snd].
  intro Hl. destruct kk; cbn [key_tag key_of_tag]; rewrite Hl; cbn [key_len Nat.eqb]; reflexivity.
Qed.

Lemma unforge_public_key_sound d k :
  unforge_public_key d = Ok k -> wf_public_key k /\ forge_public_key k = d.
Proof.
  unfold unforge_public_key. destruct d as [|t p]; [discriminate|].
  destruct (key_of_tag t) as [kk|] eqn:Et; [|discriminate].
  destruct (Nat.eqb (length p) (key_len kk)) eqn:El; [|discriminate].
  intro H. injection H as <-. apply Nat.eqb_eq in El. split; [exact El|].
  unfold forge_public_key. cbn [fst snd].
  destruct t; try discriminate; injection Et as <-; reflexivity.
Qed.

(* signatures: the raw bytes come back, in the generic notation of their length *)
Lemma unforge_forge_signature s :
  wf_signature s ->
  unforge_signature (forge_signature s) = Ok ((match fst s with BLsig => BLsig | _ => Sig end), snd s).
Proof.
  destruct s as [k p]. unfold wf_signature, unforge_signature, forge_signature. cbn [fst snd].
  intro Hl. destruct k; cbn [sig_len] in Hl; rewrite Hl; reflexivity.
Qed.

Lemma unforge_signature_sound d s :
  unforge_signature d = Ok s -> wf_signature s /\ forge_signature s = d.
Proof.
  unfold unforge_signature.
  destruct (Nat.eqb (length d) 64) eqn:E64.
  - intro H. injection H as <-. apply Nat.eqb_eq in E64. split; [exact E64 | reflexivity].
  - destruct (Nat.eqb (length d) 96) eqn:E96; [|discriminate].
    intro H. injection H as <-. apply Nat.eqb_eq in E96. split; [exact E96 | reflexivity].
Qed.

Lemma unforge_forge_chain_id c : wf_chain_id c -> unforge_chain_id (forge_chain_id c) = Ok c.
Proof. unfold wf_chain_id, unforge_chain_id, forge_chain_id. intros ->. reflexivity. Qed.

(* blind_unpack: lengths 4 / 21,22 / 33,34,49 / 64,96 are pairwise different, so the first-match
   cascade recognises each well-formed optimized form as what it is *)
Lemma blind_chain_id c : wf_chain_id c -> blind_unpack (forge_chain_id c) = BChain c.
Proof. intro H. unfold blind_unpack. rewrite unforge_forge_chain_id by exact H. reflexivity. Qed.

Lemma unforge_chain_id_len d : length d <> 4%nat -> unforge_chain_id d = Reject.
Proof. intro H. unfold unforge_chain_id. apply Nat.eqb_neq in H. rewrite H. reflexivity. Qed.

Lemma unforge_address_len d : length d <> 21%nat -> length d <> 22%nat -> unforge_address d = Reject.
Proof.
  intros H1 H2. unfold unforge_address. apply Nat.eqb_neq in H1, H2. rewrite H1, H2. reflexivity.
Qed.

Lemma blind_address b a :
  wf_address a -> (b = false \/ is_implicit (fst a) = true) -> blind_unpack (forge_address b a) = BAddr a.
Proof.
  intros Hw Hb. unfold blind_unpack.
  assert (Hl : length (forge_address b a) = 21%nat \/ length (forge_address b a) = 22%nat).
  { destruct b; [left; apply length_forge_address_true | right; apply length_forge_address_false]; exact Hw. }
  rewrite unforge_chain_id_len by lia.
  destruct b.
  - destruct Hb as [Hb|Hb]; [discriminate|]. rewrite unforge_address_key_hash by assumption. reflexivity.
  - rewrite unforge_forge_address by exact Hw. reflexivity.
Qed.

Lemma length_forge_public_key k : wf_public_key k -> length (forge_public_key k) = S (key_len (fst k)).
Proof. destruct k as [kk p]. unfold wf_public_key, forge_public_key. cbn [fst snd length]. lia. Qed.

Lemma blind_public_key k : wf_public_key k -> blind_unpack (forge_public_key k) = BKey k.
Proof.
  intro Hw. unfold blind_unpack. pose proof (length_forge_public_key k Hw) as Hl.
  assert (Hk : (32 <= key_len (fst k) <= 48)%nat) by (destruct (fst k); cbn; lia).
  rewrite unforge_chain_id_len by lia. rewrite unforge_address_len by lia.
  rewrite unforge_forge_public_key by exact Hw. reflexivity.
Qed.

Lemma unforge_public_key_len d : (49 < length d)%nat -> unforge_public_key d = Reject.
Proof.
  intro H. unfold unforge_public_key. destruct d as [|t p]; [reflexivity|].
  destruct (key_of_tag t) as [k|]; [|reflexivity].
  cbn [length] in H. destruct (Nat.eqb (length p) (key_len k)) eqn:E; [|reflexivity].
  apply Nat.eqb_eq in E. destruct k; cbn in E; lia.
Qed.

Lemma blind_signature s :
  wf_signature s ->
  blind_unpack (forge_signature s) = BSig ((match fst s with BLsig => BLsig | _ => Sig end), snd s).
Proof.
  intro Hw. unfold blind_unpack.
  assert (Hl : length (forge_signature s) = sig_len (fst s)) by exact Hw.
  assert (Hk : (64 <= sig_len (fst s))%nat) by (destruct (fst s); cbn; lia).
  rewrite unforge_chain_id_len by lia. rewrite unforge_address_len by lia.
  rewrite unforge_public_key_len by lia.
  rewrite unforge_forge_signature by exact Hw. reflexivity.
Qed.

(* ========================================================================================== *)
(* Part 2 — the text level agrees with the (kind, payload) level on well-formed values         *)

Lemma find_enc_length_only t p p' tp : length p = length p' -> find_enc t p tp = find_enc t p' tp.
Proof. intro H. unfold find_enc. rewrite H. reflexivity. Qed.

Lemma domain_rows43 : domain_rows_ok table43 = true.
Proof. vm_compute. reflexivity. Qed.

(* base-58 text never contains '%' *)
Lemma digit_of_pct : digit_of_char x25 = None.
Proof. vm_compute. reflexivity. Qed.

Lemma b58_enc_chars v : Forall (fun c => digit_of_char c <> None) (b58_enc v).
Proof.
  unfold b58_enc. apply Forall_app. split.
  - apply Forall_forall. intros c Hc. apply repeat_spec in Hc. subst. vm_compute. discriminate.
  - unfold b58_of_N. apply Forall_forall. intros c Hc. apply in_map_iff in Hc.
    destruct Hc as [d [<- Hd]]. apply in_rev in Hd.
    pose proof (lsf_digits_ok 58 ltac:(lia) (2 * length (lstrip x00 v)) (be_to_N (lstrip x00 v))) as Hok.
    unfold digits_ok in Hok. rewrite Forall_forall in Hok.
    rewrite digit_char_roundtrip by (apply Hok, Hd). discriminate.
Qed.

Lemma before_pct_no_pct s r :
  Forall (fun c => digit_of_char c <> None) s -> before_pct (s ++ x25 :: r) = s /\ after_pct (s ++ x25 :: r) = Some r.
Proof.
  induction 1 as [|c s Hc Hs IH].
  - split; reflexivity.
  - cbn [app before_pct after_pct].
    destruct (byte_eqb c x25) eqn:E.
    + apply byte_eqb_spec in E. subst c. rewrite digit_of_pct in Hc. contradiction.
    + destruct IH as [IH1 IH2]. rewrite IH1, IH2. split; reflexivity.
Qed.

Lemma before_pct_none s :
  Forall (fun c => digit_of_char c <> None) s -> before_pct s = s /\ after_pct s = None.
Proof.
  induction 1 as [|c s Hc Hs IH].
  - split; reflexivity.
  - cbn [before_pct after_pct].
    destruct (byte_eqb c x25) eqn:E.
    + apply byte_eqb_spec in E. subst c. rewrite digit_of_pct in Hc. contradiction.
    + destruct IH as [IH1 IH2]. rewrite IH1, IH2. split; reflexivity.
Qed.

Section TextLevel.
  Variable sha256 : bytes -> bytes.
  Hypothesis Hsha : sha_ok sha256.
  Variable t : list row.
  Hypothesis Htab : table_ok t = true.
  Hypothesis Hdom : domain_rows_ok t = true.

  (* the string of a value: which row produced it *)
  Lemma text_inv p tp s :
    base58_encode sha256 t p tp = Ok s ->
    exists r rest, find_enc t p tp = Some r /\ In r t /\ tpre r = tp /\ plen r = length p /\
                   s = b58check_enc sha256 (bpre r ++ p) /\ s = tp ++ rest.
  Proof.
    intro H. pose proof (any_prefix_and_length sha256 t Hsha Htab p tp s H) as [r0 [_ [_ [_ [_ Hpre]]]]].
    unfold base58_encode in H. destruct (find_enc t p tp) as [r|] eqn:E; [|discriminate]. injection H as <-.
    pose proof E as E'. unfold find_enc in E'. apply find_some in E'. destruct E' as [Hin Hpred].
    apply andb_true_iff in Hpred. destruct Hpred as [Hl Ht]. apply Nat.eqb_eq in Hl. apply bytes_eqb_spec in Ht.
    apply is_prefix_spec in Hpre. destruct Hpre as [rest Hrest].
    exists r, rest. repeat split; auto.
  Qed.

  Lemma addr_row k : exists r, find_enc t (repeat x00 20) (addr_tpre k) = Some r /\
                               length (bpre r) = match k with Txr1 => 4%nat | _ => 3%nat end.
  Proof.
    pose proof Hdom as Hd. unfold domain_rows_ok in Hd.
    apply andb_true_iff in Hd. destruct Hd as [Hd _].
    apply andb_true_iff in Hd. destruct Hd as [Hd _].
    apply andb_true_iff in Hd. destruct Hd as [Hd _].
    rewrite forallb_forall in Hd. specialize (Hd k).
    assert (Hin : In k all_addr_kinds) by (destruct k; simpl; tauto).
    apply Hd in Hin. unfold row_with in Hin.
    destruct (find_enc t (repeat x00 20) (addr_tpre k)) as [r|]; [|discriminate].
    exists r. split; [reflexivity|]. apply Nat.eqb_eq in Hin. exact Hin.
  Qed.

  Lemma key_row k : exists r, find_enc t (repeat x00 (key_len k)) (key_tpre k) = Some r /\ length (bpre r) = 4%nat.
  Proof.
    pose proof Hdom as Hd. unfold domain_rows_ok in Hd.
    apply andb_true_iff in Hd. destruct Hd as [Hd _].
    apply andb_true_iff in Hd. destruct Hd as [Hd _].
    apply andb_true_iff in Hd. destruct Hd as [_ Hd].
    rewrite forallb_forall in Hd. specialize (Hd k).
    assert (Hin : In k all_key_kinds) by (destruct k; simpl; tauto).
    apply Hd in Hin. unfold row_with in Hin.
    destruct (find_enc t (repeat x00 (key_len k)) (key_tpre k)) as [r|]; [|discriminate].
    exists r. split; [reflexivity|]. apply Nat.eqb_eq in Hin. exact Hin.
  Qed.

  (* every well-formed value has a Base58Check string *)
  Lemma address_text_defined a : wf_address a -> exists s, address_text sha256 t a = Ok s.
  Proof.
    intro Hw. destruct a as [k h]. unfold wf_address in Hw. cbn [snd] in Hw.
    unfold address_text, base58_encode. cbn [fst snd].
    destruct (addr_row k) as [r [Hf _]].
    rewrite (find_enc_length_only t h (repeat x00 20)) by (rewrite repeat_length; exact Hw).
    rewrite Hf. eexists. reflexivity.
  Qed.

  Lemma public_key_text_defined k : wf_public_key k -> exists s, public_key_text sha256 t k = Ok s.
  Proof.
    intro Hw. destruct k as [kk p]. unfold wf_public_key in Hw. cbn [fst snd] in Hw.
    unfold public_key_text, base58_encode. cbn [fst snd].
    destruct (key_row kk) as [r [Hf _]].
    rewrite (find_enc_length_only t p (repeat x00 (key_len kk))) by (rewrite repeat_length; exact Hw).
    rewrite Hf. eexists. reflexivity.
  Qed.

  (* forge_address on the string of (k, h) is forge_address on (k, h) *)
  Lemma forge_address_text_ok tz_only a s :
    wf_address a -> address_text sha256 t a = Ok s ->
    forge_address_text sha256 tz_only s = Ok (forge_address tz_only a).
  Proof.
    intros Hw Hs. destruct a as [k h]. unfold wf_address in Hw. cbn [snd] in Hw.
    unfold address_text in Hs. cbn [fst snd] in Hs.
    destruct (text_inv _ _ _ Hs) as [r [rest [Hf [Hin [Htp [Hpl [Henc Hrest]]]]]]].
    destruct (addr_row k) as [r' [Hf' Hbl]].
    rewrite (find_enc_length_only t h (repeat x00 20)) in Hf by (rewrite repeat_length; exact Hw).
    rewrite Hf in Hf'. injection Hf' as <-.
    unfold forge_address_text.
    assert (Hdec : b58check_dec sha256 s = Some (bpre r ++ h)) by (rewrite Henc; apply b58check_dec_enc, Hsha).
    rewrite Hdec, Hrest.
    destruct k; cbn [addr_tpre] in *.
    all: match goal with
         | |- context [is_prefix ?p (?tp ++ ?rs)] =>
             let b := eval vm_compute in (is_prefix p tp) in
             replace (is_prefix p (tp ++ rs)) with b by reflexivity
         end.
    all: match goal with
         | |- context [firstn ?n (?tp ++ ?rs)] =>
             replace (firstn n (tp ++ rs)) with tp by reflexivity
         end.
    all: rewrite <- Hbl, skipn_app_exact.
    all: destruct tz_only; reflexivity.
  Qed.

  (* the whole text-level round trip of an address or key hash *)
  Lemma address_text_roundtrip tz_only a s :
    wf_address a -> (tz_only = false \/ is_implicit (fst a) = true) ->
    address_text sha256 t a = Ok s ->
    exists d, forge_address_text sha256 tz_only s = Ok d /\ unforge_address_text sha256 t d = Ok s.
  Proof.
    intros Hw Hk Hs. exists (forge_address tz_only a). split.
    - apply forge_address_text_ok; assumption.
    - unfold unforge_address_text. destruct tz_only.
      + destruct Hk as [Hk|Hk]; [discriminate|]. rewrite unforge_address_key_hash by assumption. exact Hs.
      + rewrite unforge_forge_address by exact Hw. exact Hs.
  Qed.

  Lemma address_text_chars a s : address_text sha256 t a = Ok s -> Forall (fun c => digit_of_char c <> None) s.
  Proof.
    intro Hs. unfold address_text in Hs. apply encode_ok_inv in Hs.
    destruct Hs as [r [_ [_ [_ ->]]]]. apply b58_enc_chars.
  Qed.

  Lemma forge_contract_text_ok c s :
    wf_address (fst c) -> contract_text sha256 t c = Ok s ->
    forge_contract_text sha256 s = Ok (forge_contract c).
  Proof.
    intros Hw Hs. destruct c as [a ep]. cbn [fst snd] in *.
    unfold contract_text in Hs. cbn [fst snd] in Hs.
    destruct (address_text sha256 t a) as [sa|] eqn:Ea; [|discriminate].
    pose proof (address_text_chars a sa Ea) as Hch.
    pose proof (forge_address_text_ok false a sa Hw Ea) as Hfa.
    unfold forge_contract_text, forge_contract. cbn [fst snd].
    destruct (bytes_eqb ep default_ep) eqn:Ed; injection Hs as <-.
    - destruct (before_pct_none sa Hch) as [-> ->]. rewrite Hfa.
      rewrite bytes_eqb_refl. reflexivity.
    - destruct (before_pct_no_pct sa ep Hch) as [-> ->]. rewrite Hfa, Ed. reflexivity.
  Qed.

  Lemma unforge_contract_text_ok c :
    wf_address (fst c) -> snd c <> [] ->
    unforge_contract_text sha256 t (forge_contract c) = contract_text sha256 t c.
  Proof.
    intros Hw Hep. destruct c as [a ep]. cbn [fst snd] in *.
    unfold unforge_contract_text, forge_contract, contract_text, unforge_address_text. cbn [fst snd].
    pose proof (length_forge_address_false a Hw) as Hl.
    destruct (bytes_eqb ep default_ep) eqn:Ed.
    - rewrite app_nil_r, firstn_all2 by lia. rewrite unforge_forge_address by exact Hw.
      destruct (address_text sha256 t a); [|reflexivity]. rewrite Hl. reflexivity.
    - rewrite <- Hl at 1. rewrite firstn_app_exact, unforge_forge_address by exact Hw.
      destruct (address_text sha256 t a); [|reflexivity].
      rewrite app_length, Hl.
      assert (Hlen : (22 <? 22 + length ep)%nat = true).
      { apply Nat.ltb_lt. destruct ep; [contradiction | cbn [length]; lia]. }
      rewrite Hlen. rewrite <- Hl, skipn_app_exact. reflexivity.
  Qed.

  Lemma forge_public_key_text_ok k s :
    wf_public_key k -> public_key_text sha256 t k = Ok s ->
    forge_public_key_text sha256 s = Ok (forge_public_key k).
  Proof.
    intros Hw Hs. destruct k as [kk p]. unfold wf_public_key in Hw. cbn [fst snd] in Hw.
    unfold public_key_text in Hs. cbn [fst snd] in Hs.
    destruct (text_inv _ _ _ Hs) as [r [rest [Hf [Hin [Htp [Hpl [Henc Hrest]]]]]]].
    destruct (key_row kk) as [r' [Hf' Hbl]].
    rewrite (find_enc_length_only t p (repeat x00 (key_len kk))) in Hf by (rewrite repeat_length; exact Hw).
    rewrite Hf in Hf'. injection Hf' as <-.
    unfold forge_public_key_text.
    assert (Hdec : b58check_dec sha256 s = Some (bpre r ++ p)) by (rewrite Henc; apply b58check_dec_enc, Hsha).
    rewrite Hdec, Hrest.
    destruct kk; cbn [key_tpre] in *.
    all: match goal with
         | |- context [firstn ?n (?tp ++ ?rs)] =>
             replace (firstn n (tp ++ rs)) with tp by reflexivity
         end.
    all: rewrite <- Hbl, skipn_app_exact; reflexivity.
  Qed.

  Lemma unforge_public_key_text_ok k :
    wf_public_key k -> unforge_public_key_text sha256 t (forge_public_key k) = public_key_text sha256 t k.
  Proof.
    intro Hw. destruct k as [kk p]. unfold unforge_public_key_text, forge_public_key, public_key_text.
    cbn [fst snd]. destruct kk; reflexivity.
  Qed.

  (* signatures and chain ids: forge_base58 is base58_decode (C09's round trip) and the readers
     re-encode under sig / BLsig / Net *)
  Lemma forge_signature_text_ok sg s :
    signature_text sha256 t sg = Ok s -> forge_base58_text sha256 t s = Ok (forge_signature sg).
  Proof. intro Hs. unfold forge_base58_text, forge_signature. eapply any_roundtrip; eauto. Qed.

  Lemma unforge_signature_text_ok sg :
    wf_signature sg ->
    unforge_signature_text sha256 t (forge_signature sg) =
    signature_text sha256 t ((match fst sg with BLsig => BLsig | _ => Sig end), snd sg).
  Proof.
    destruct sg as [k p]. unfold wf_signature, unforge_signature_text, forge_signature, signature_text.
    cbn [fst snd]. intro Hl. destruct k; cbn [sig_len] in Hl; rewrite Hl; reflexivity.
  Qed.

  Lemma forge_chain_id_text_ok c s :
    chain_id_text sha256 t c = Ok s -> forge_base58_text sha256 t s = Ok (forge_chain_id c).
  Proof. intro Hs. unfold forge_base58_text, forge_chain_id. eapply any_roundtrip; eauto. Qed.

  Lemma unforge_chain_id_text_ok c : unforge_chain_id_text sha256 t (forge_chain_id c) = chain_id_text sha256 t c.
  Proof. reflexivity. Qed.
End TextLevel.

(* ---- closed forms for Properties/C10.v ---- *)
Definition text_env (sha256 : bytes -> bytes) (t : list row) : Prop :=
  sha_ok sha256 /\ table_ok t = true /\ domain_rows_ok t = true.

Lemma text_address sha256 t : text_env sha256 t ->
  forall tz_only a, wf_address a -> (tz_only = false \/ is_implicit (fst a) = true) ->
  exists s, address_text sha256 t a = Ok s /\
            forge_address_text sha256 tz_only s = Ok (forge_address tz_only a) /\
            unforge_address_text sha256 t (forge_address tz_only a) = Ok s.
Proof.
  intros [Hs [Ht Hd]] tz_only a Hw Hk.
  destruct (address_text_defined sha256 t Hd a Hw) as [s Es]. exists s. split; [exact Es|].
  destruct (address_text_roundtrip sha256 Hs t Ht Hd tz_only a s Hw Hk Es) as [d [Hf Hu]].
  pose proof (forge_address_text_ok sha256 Hs t Ht Hd tz_only a s Hw Es) as Hf'.
  rewrite Hf' in Hf. injection Hf as <-. split; assumption.
Qed.

Lemma text_contract sha256 t : text_env sha256 t ->
  forall c : contract, wf_address (fst c) -> snd c <> [] ->
  exists s, contract_text sha256 t c = Ok s /\
            forge_contract_text sha256 s = Ok (forge_contract c) /\
            unforge_contract_text sha256 t (forge_contract c) = Ok s.
Proof.
  intros [Hs [Ht Hd]] c Hw Hep.
  destruct (address_text_defined sha256 t Hd (fst c) Hw) as [sa Ea].
  assert (Es : exists s, contract_text sha256 t c = Ok s).
  { unfold contract_text. eexists. rewrite Ea. reflexivity. }
  destruct Es as [s Es]. exists s. split; [exact Es|]. split.
  - apply (forge_contract_text_ok sha256 Hs t Ht Hd c s Hw Es).
  - rewrite unforge_contract_text_ok by assumption. exact Es.
Qed.

Lemma text_public_key sha256 t : text_env sha256 t ->
  forall k, wf_public_key k ->
  exists s, public_key_text sha256 t k = Ok s /\
            forge_public_key_text sha256 s = Ok (forge_public_key k) /\
            unforge_public_key_text sha256 t (forge_public_key k) = Ok s.
Proof.
  intros [Hs [Ht Hd]] k Hw.
  destruct (public_key_text_defined sha256 t Hd k Hw) as [s Es]. exists s. split; [exact Es|]. split.
  - apply (forge_public_key_text_ok sha256 Hs t Ht Hd k s Hw Es).
  - rewrite unforge_public_key_text_ok by assumption. exact Es.
Qed.

(* a signature string in any notation: its optimized form is the raw bytes, and reading those
   back gives the string of the same bytes in generic notation, which forges to the same bytes *)
Lemma text_signature sha256 t : text_env sha256 t ->
  forall sg s, wf_signature sg -> signature_text sha256 t sg = Ok s ->
  forge_base58_text sha256 t s = Ok (snd sg) /\
  exists s', unforge_signature_text sha256 t (snd sg) = Ok s' /\ forge_base58_text sha256 t s' = Ok (snd sg).
Proof.
  intros [Hs [Ht Hd]] sg s Hw Es.
  pose proof (forge_signature_text_ok sha256 Hs t Ht sg s Es) as Hf. unfold forge_signature in Hf.
  split; [exact Hf|].
  pose proof (unforge_signature_text_ok sha256 t sg Hw) as Hu. unfold forge_signature in Hu.
  set (g := ((match fst sg with BLsig => BLsig | _ => Sig end), snd sg)) in *.
  assert (Hg : exists s', signature_text sha256 t g = Ok s').
  { unfold signature_text, base58_encode. cbn [fst snd].
    pose proof Hd as Hd'. unfold domain_rows_ok in Hd'.
    apply andb_true_iff in Hd'. destruct Hd' as [Hd' _].
    apply andb_true_iff in Hd'. destruct Hd' as [_ Hd'].
    rewrite forallb_forall in Hd'.
    destruct sg as [k p]. unfold wf_signature in Hw. cbn [fst snd] in *.
    assert (Hk : In (match k with BLsig => BLsig | _ => Sig end) all_sig_kinds) by (destruct k; simpl; tauto).
    apply Hd' in Hk.
    assert (Hl : length p = sig_len (match k with BLsig => BLsig | _ => Sig end)) by (destruct k; exact Hw).
    rewrite (find_enc_length_only t p (repeat x00 (sig_len (match k with BLsig => BLsig | _ => Sig end))))
      by (rewrite repeat_length; exact Hl).
    destruct (find_enc t _ _); [eexists; reflexivity | discriminate]. }
  destruct Hg as [s' Es']. exists s'. rewrite Hu. split; [exact Es'|].
  pose proof (forge_signature_text_ok sha256 Hs t Ht g s' Es') as Hf'. exact Hf'.
Qed.

Lemma text_chain_id sha256 t : text_env sha256 t ->
  forall c s, chain_id_text sha256 t c = Ok s ->
  forge_base58_text sha256 t s = Ok c /\ unforge_chain_id_text sha256 t c = Ok s.
Proof.
  intros [Hs [Ht Hd]] c s Es. split.
  - apply (forge_chain_id_text_ok sha256 Hs t Ht c s Es).
  - exact Es.
Qed.

Lemma text_env43 sha256 : sha_ok sha256 -> text_env sha256 table43.
Proof. intro H. split; [exact H|]. split; [exact table43_ok | exact domain_rows43]. Qed.

(* ========================================================================================== *)
(* Part 3 — the Michelson types' converters (types/domain.py), i.e. the observation point
   T.from_micheline_value(T.from_value(x).to_micheline_value(mode="optimized")), text level.
   (Definitions live here because they are only used by the theorems below and by the harness.) *)

Section TypeLevel.
  Variable sha256 : bytes -> bytes.
  Variable t : list row.

  (* AddressType.from_value / TXRAddress.from_value: "%default" is elided, then is_address *)
  Definition normalise_default (s : bytes) : bytes :=
    match after_pct s with
    | Some e => if bytes_eqb e default_ep then before_pct s else s
    | None => s
    end.
  Definition address_from_value (s : bytes) : result bytes :=
    let v := normalise_default s in if is_address sha256 t v then Ok v else Reject.
  Definition txr_from_value (s : bytes) : result bytes :=
    let v := normalise_default s in if is_txr_address sha256 t v then Ok v else Reject.
  Definition checked (valid : bytes -> bool) (s : bytes) : result bytes := if valid s then Ok s else Reject.

  Definition observe (from_value : bytes -> result bytes) (to_opt : bytes -> result bytes)
             (of_opt : bytes -> result bytes) (s : bytes) : result bytes :=
    match from_value s with
    | Ok v => match to_opt v with
              | Ok d => match of_opt d with Ok s' => from_value s' | Reject => Reject end
              | Reject => Reject
              end
    | Reject => Reject
    end.

  Definition observe_address := observe address_from_value (forge_contract_text sha256) (unforge_contract_text sha256 t).
  Definition observe_txr := observe txr_from_value (forge_contract_text sha256) (unforge_contract_text sha256 t).
  Definition observe_key_hash :=
    observe (checked (is_pkh sha256 t)) (forge_address_text sha256 true) (unforge_address_text sha256 t).
  Definition observe_key :=
    observe (checked (is_public_key sha256 t)) (forge_public_key_text sha256) (unforge_public_key_text sha256 t).
  Definition observe_signature :=
    observe (checked (is_sig sha256 t)) (forge_base58_text sha256 t) (unforge_signature_text sha256 t).
  Definition observe_chain_id :=
    observe (checked (is_chain_id sha256 t)) (forge_base58_text sha256 t) (unforge_chain_id_text sha256 t).

  Hypothesis Hsha : sha_ok sha256.
  Hypothesis Hfull : table_full_ok t = true.
  Hypothesis Hdom : domain_rows_ok t = true.

  Lemma Htab_of_full : table_ok t = true.
  Proof. unfold table_full_ok in Hfull. apply andb_true_iff in Hfull. tauto. Qed.

  (* the string of a value passes the validator that lists its prefix *)
  Lemma validate_text prefixes p tp s :
    base58_encode sha256 t p tp = Ok s -> In tp prefixes -> validate sha256 t prefixes s = true.
  Proof.
    intros Hs Hin. apply (any_validate_iff sha256 t Hsha Hfull).
    apply encode_ok_inv in Hs. destruct Hs as [r [Hr [Htp [Hpl Hs]]]].
    exists r, p. split; [|rewrite Htp; exact Hin]. repeat split; auto.
  Qed.

  Lemma is_address_text a s :
    address_type_admits (fst a) = true -> address_text sha256 t a = Ok s -> is_address sha256 t s = true /\
    (forall e, is_address sha256 t (s ++ x25 :: e) = true).
  Proof.
    intros Hadm Hs. pose proof (address_text_chars sha256 t a s Hs) as Hch.
    assert (H0 : (if is_kt sha256 t s then true else if is_pkh sha256 t s then true else is_sr sha256 t s) = true).
    { destruct a as [k h]. unfold address_text in Hs. cbn [fst snd] in *.
      destruct k; try discriminate.
      1-4: assert (E : is_pkh sha256 t s = true)
             by (eapply validate_text; [exact Hs | simpl; tauto]);
           rewrite E; destruct (is_kt sha256 t s); reflexivity.
      - assert (E : is_kt sha256 t s = true) by (eapply validate_text; [exact Hs | simpl; tauto]).
        rewrite E. reflexivity.
      - assert (E : is_sr sha256 t s = true) by (eapply validate_text; [exact Hs | simpl; tauto]).
        rewrite E. destruct (is_kt sha256 t s), (is_pkh sha256 t s); reflexivity. }
    split.
    - unfold is_address. destruct (before_pct_none s Hch) as [-> _]. exact H0.
    - intro e. unfold is_address. destruct (before_pct_no_pct s e Hch) as [-> _]. exact H0.
  Qed.

  Lemma contract_text_fixed c s :
    contract_text sha256 t c = Ok s -> normalise_default s = s.
  Proof.
    destruct c as [a ep]. unfold contract_text. cbn [fst snd].
    destruct (address_text sha256 t a) as [sa|] eqn:Ea; [|discriminate].
    pose proof (address_text_chars sha256 t a sa Ea) as Hch.
    unfold normalise_default.
    destruct (bytes_eqb ep default_ep) eqn:Ed; intro H; injection H as <-.
    - destruct (before_pct_none sa Hch) as [_ ->]. reflexivity.
    - destruct (before_pct_no_pct sa ep Hch) as [_ ->]. rewrite Ed. reflexivity.
  Qed.

  Lemma address_from_value_text c s :
    address_type_admits (fst (fst c)) = true -> contract_text sha256 t c = Ok s ->
    address_from_value s = Ok s.
  Proof.
    intros Hadm Hs. unfold address_from_value. rewrite (contract_text_fixed c s Hs).
    destruct c as [a ep]. unfold contract_text in Hs. cbn [fst snd] in *.
    destruct (address_text sha256 t a) as [sa|] eqn:Ea; [|discriminate].
    destruct (is_address_text a sa Hadm Ea) as [H1 H2].
    destruct (bytes_eqb ep default_ep); injection Hs as <-; [rewrite H1 | rewrite H2]; reflexivity.
  Qed.

  (* AddressType / ContractType: tz1-tz4, KT1, sr1, any non-empty entrypoint name *)
  Lemma observe_address_ok (c : contract) :
    wf_address (fst c) -> address_type_admits (fst (fst c)) = true -> snd c <> [] ->
    exists s, contract_text sha256 t c = Ok s /\ observe_address s = Ok s.
  Proof.
    intros Hw Hadm Hep.
    destruct (text_contract sha256 t (conj Hsha (conj Htab_of_full Hdom)) c Hw Hep) as [s [Hs [Hf Hu]]].
    exists s. split; [exact Hs|].
    unfold observe_address, observe.
    rewrite (address_from_value_text c s Hadm Hs), Hf, Hu. apply (address_from_value_text c s Hadm Hs).
  Qed.

  (* TXRAddress: txr1 *)
  Lemma observe_txr_ok (c : contract) :
    wf_address (fst c) -> fst (fst c) = Txr1 -> snd c <> [] ->
    exists s, contract_text sha256 t c = Ok s /\ observe_txr s = Ok s.
  Proof.
    intros Hw Hk Hep.
    destruct (text_contract sha256 t (conj Hsha (conj Htab_of_full Hdom)) c Hw Hep) as [s [Hs [Hf Hu]]].
    exists s. split; [exact Hs|].
    assert (Hfv : txr_from_value s = Ok s).
    { unfold txr_from_value. rewrite (contract_text_fixed c s Hs).
      destruct c as [[k h] ep]. cbn [fst snd] in *. subst k.
      unfold contract_text in Hs. cbn [fst snd] in Hs.
      destruct (address_text sha256 t (Txr1, h)) as [sa|] eqn:Ea; [|discriminate].
      pose proof (address_text_chars sha256 t _ sa Ea) as Hch.
      assert (E : is_l2_pkh sha256 t sa = true).
      { unfold address_text in Ea. cbn [fst snd] in Ea. eapply validate_text; [exact Ea | simpl; tauto]. }
      unfold is_txr_address.
      destruct (bytes_eqb ep default_ep); injection Hs as <-.
      - destruct (before_pct_none sa Hch) as [-> _]. rewrite E. reflexivity.
      - destruct (before_pct_no_pct sa ep Hch) as [-> _]. rewrite E. reflexivity. }
    unfold observe_txr, observe. rewrite Hfv, Hf, Hu. exact Hfv.
  Qed.

  Lemma observe_key_hash_ok a :
    wf_address a -> is_implicit (fst a) = true ->
    exists s, address_text sha256 t a = Ok s /\ observe_key_hash s = Ok s.
  Proof.
    intros Hw Hi.
    destruct (text_address sha256 t (conj Hsha (conj Htab_of_full Hdom)) true a Hw (or_intror Hi)) as [s [Hs [Hf Hu]]].
    exists s. split; [exact Hs|].
    assert (Hv : is_pkh sha256 t s = true).
    { destruct a as [k h]. unfold address_text in Hs. cbn [fst snd] in *.
      destruct k; try discriminate; (eapply validate_text; [exact Hs | simpl; tauto]). }
    unfold observe_key_hash, observe, checked. rewrite Hv, Hf, Hu, Hv. reflexivity.
  Qed.

  Lemma observe_key_ok k :
    wf_public_key k -> exists s, public_key_text sha256 t k = Ok s /\ observe_key s = Ok s.
  Proof.
    intro Hw.
    destruct (text_public_key sha256 t (conj Hsha (conj Htab_of_full Hdom)) k Hw) as [s [Hs [Hf Hu]]].
    exists s. split; [exact Hs|].
    assert (Hv : is_public_key sha256 t s = true).
    { destruct k as [kk p]. unfold public_key_text in Hs. cbn [fst snd] in *.
      destruct kk; (eapply validate_text; [exact Hs | simpl; tauto]). }
    unfold observe_key, observe, checked. rewrite Hv, Hf, Hu, Hv. reflexivity.
  Qed.

  (* signatures: the observed value is a string with the same raw bytes *)
  Lemma observe_signature_ok sg s :
    wf_signature sg -> signature_text sha256 t sg = Ok s ->
    exists s', observe_signature s = Ok s' /\ forge_base58_text sha256 t s' = Ok (snd sg).
  Proof.
    intros Hw Hs.
    destruct (text_signature sha256 t (conj Hsha (conj Htab_of_full Hdom)) sg s Hw Hs) as [Hf [s' [Hu Hf']]].
    exists s'. split; [|exact Hf'].
    assert (Hv : is_sig sha256 t s = true).
    { destruct sg as [k p]. unfold signature_text in Hs. cbn [fst snd] in *.
      destruct k; (eapply validate_text; [exact Hs | simpl; tauto]). }
    assert (Hv' : is_sig sha256 t s' = true).
    { rewrite unforge_signature_text_ok in Hu by exact Hw. unfold signature_text in Hu. cbn [fst snd] in Hu.
      destruct (fst sg); (eapply validate_text; [exact Hu | simpl; tauto]). }
    unfold observe_signature, observe, checked. rewrite Hv, Hf, Hu, Hv'. reflexivity.
  Qed.

  Lemma observe_chain_id_ok c s :
    chain_id_text sha256 t c = Ok s -> observe_chain_id s = Ok s.
  Proof.
    intro Hs.
    destruct (text_chain_id sha256 t (conj Hsha (conj Htab_of_full Hdom)) c s Hs) as [Hf Hu].
    assert (Hv : is_chain_id sha256 t s = true).
    { unfold chain_id_text in Hs. eapply validate_text; [exact Hs | simpl; tauto]. }
    unfold observe_chain_id, observe, checked. rewrite Hv, Hf, Hu, Hv. reflexivity.
  Qed.
End TypeLevel.

Definition type_env (sha256 : bytes -> bytes) (t : list row) : Prop :=
  sha_ok sha256 /\ table_full_ok t = true /\ domain_rows_ok t = true.

Lemma type_env43 sha256 : sha_ok sha256 -> type_env sha256 table43.
Proof. intro H. split; [exact H|]. split; [exact table43_full_ok | exact domain_rows43]. Qed.
