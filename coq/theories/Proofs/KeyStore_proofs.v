(* Proofs/KeyStore_proofs.v — lemmas about Client/KeyStore.v (C08): public key hash, export / import,
   BIP-39 checksum arithmetic, from_mnemonic. *)
From Coq Require Import String.
From Coq Require Import List NArith ZArith Bool Arith Lia.
From Coq.Strings Require Import Byte.
From PV Require Import Base.Bytes Base.Result Client.KeyGlue Client.KeyStore Proofs.KeyGlue_proofs.
Import ListNotations.
Local Open Scope list_scope.

(* ------------------------------------------------------------------------------------------- *)
(* public key hash                                                                             *)
(* ------------------------------------------------------------------------------------------- *)

Definition pkh_row (c : curve) : row :=
  match c with
  | Ed => mkrow "tz1" 36 "06a19f" 20
  | Sp => mkrow "tz2" 36 "06a1a1" 20
  | P2 => mkrow "tz3" 36 "06a1a4" 20
  | BL => mkrow "tz4" 36 "06a1a6" 20
  end.

Lemma pkh_row_used c : In (pkh_row c) used_rows.
Proof. apply existsb_row_In. destruct c; vm_compute; reflexivity. Qed.

Lemma pkh_prefix_row c : pkh_prefix (curve_tag c) = Some (r_txt (pkh_row c)).
Proof. destruct c; vm_compute; reflexivity. Qed.

Lemma public_key_hash_formula P (L : store_laws P) k c : ktag k = curve_tag c ->
  let e := b58enc P (r_bin (pkh_row c) ++ blake2b P 20 (pub k)) in
  public_key_hash P k = Ok (str_of e) /\ length e = 36 /\ starts_with (r_txt (pkh_row c)) e = true.
Proof.
  intros Htag e. unfold public_key_hash. rewrite Htag, pkh_prefix_row. cbn [of_option bind].
  assert (Hl : length (blake2b P 20 (pub k)) = r_paylen (pkh_row c)).
  { rewrite (st_blake_len P L). destruct c; reflexivity. }
  destruct (b58_round P (st_b58 P L) _ _ (pkh_row_used c) Hl) as [He [_ [Hel Hst]]].
  rewrite He. cbn [bind]. split; [reflexivity|]. split; [|exact Hst].
  fold e in Hel. rewrite Hel. destruct c; reflexivity.
Qed.

(* HASH_KEY on the public key text of a key = its public key hash *)
Lemma hash_key_agrees P (L : store_laws P) c pk sec pks : length pk = pklen c ->
  public_key P (mkkey pk sec (curve_tag c)) = Ok pks ->
  hash_key P pks = public_key_hash P (mkkey pk sec (curve_tag c)).
Proof.
  intros Hlen Hpk. rewrite (public_key_text P c pk sec Hlen) in Hpk. injection Hpk as <-.
  unfold hash_key. rewrite (from_encoded_public P (st_b58 P L) c pk None Hlen). reflexivity.
Qed.

Lemma public_export_import P (L : store_laws P) c pk sec pass : length pk = pklen c ->
  exists pks, public_key P (mkkey pk sec (curve_tag c)) = Ok pks /\
              from_encoded_key P (PS pks) pass = Ok (mkkey pk None (curve_tag c)).
Proof.
  intro Hlen. eexists. split; [apply (public_key_text P c pk sec Hlen)|].
  apply (from_encoded_public P (st_b58 P L) c pk pass Hlen).
Qed.

(* ------------------------------------------------------------------------------------------- *)
(* secret key export / import                                                                  *)
(* ------------------------------------------------------------------------------------------- *)

Definition sk_row (c : curve) (long : bool) : row :=
  match c with
  | Ed => if long then mkrow "edsk" 98 "2bf64e07" 64 else mkrow "edsk" 54 "0d0f3a07" 32
  | Sp => mkrow "spsk" 54 "11a2e0c9" 32
  | P2 => mkrow "p2sk" 54 "1051eebd" 32
  | BL => mkrow "BLsk" 54 "0396c028" 32
  end.

Definition esk_row (c : curve) : row :=
  match c with
  | Ed => mkrow "edesk" 88 "075a3cb329" 56
  | Sp => mkrow "spesk" 88 "09edf1ae96" 56
  | P2 => mkrow "p2esk" 88 "09303973ab" 56
  | BL => mkrow "BLesk" 88 "02051e3519" 56
  end.

Definition sec_row_ok (r : row) (c : curve) (enc : bool) : bool :=
  bytes_eqb (firstn 2 (r_txt r)) (curve_tag c) &&
  existsb (Nat.eqb (r_enclen r)) [54; 55; 76; 88; 98] &&
  Bool.eqb (bytes_eqb (firstn 1 (skipn 2 (r_txt r))) (tx "e")) enc &&
  bytes_eqb (firstn 2 (skipn (if enc then 3 else 2) (r_txt r))) (tx "sk") &&
  (5 <=? length (r_txt r) + (if enc then 0 else 1)).

Lemma sk_row_ok c long : sec_row_ok (sk_row c long) c false = true /\ In (sk_row c long) used_rows /\
  r_txt (sk_row c long) = curve_tag c ++ tx "sk".
Proof. split; [|split]; [| apply existsb_row_In |]; destruct c, long; vm_compute; reflexivity. Qed.

Lemma esk_row_ok c : sec_row_ok (esk_row c) c true = true /\ In (esk_row c) used_rows /\
  r_txt (esk_row c) = curve_tag c ++ tx "esk" /\ r_paylen (esk_row c) = 56.
Proof. split; [|split; [|split]]; [| apply existsb_row_In | |]; destruct c; vm_compute; reflexivity. Qed.

(* what from_encoded_key does with the decoded payload of a secret-key text *)
Definition import_cont (P : prims) (c : curve) (enc : bool) (p : bytes) (pass : option pyin) : result key :=
  if enc then
    match pass with
    | None => Reject
    | Some pw =>
        let* pwb := of_option (pw_bytes pw) in
        let* sk := of_option (secretbox_open P (skipn 8 p) nonce24 (pbkdf2 P pwb (firstn 8 p))) in
        from_secret_exponent P (curve_tag c) sk
    end
  else from_secret_exponent P (curve_tag c) p.

Lemma mem_curve_tag c : mem_bytes (curve_tag c) [tx "sp"; tx "p2"; tx "ed"; tx "BL"] = true.
Proof. destruct c; reflexivity. Qed.

Lemma from_encoded_secret P (L : b58_laws P) r c enc p pass :
  In r used_rows -> sec_row_ok r c enc = true -> length p = r_paylen r ->
  from_encoded_key P (PS (str_of (b58enc P (r_bin r ++ p)))) pass = import_cont P c enc p pass.
Proof.
  intros Hin Hok Hlen.
  destruct (b58_round P L r p Hin Hlen) as [_ [Hdec [Hel Hst]]].
  set (e := b58enc P (r_bin r ++ p)) in *.
  assert (Hscr : scrub_input (PS (str_of e)) = Ok e).
  { apply (scrub_b58_text r); auto. apply (b58_ascii P L). }
  unfold sec_row_ok in Hok.
  apply andb_true_iff in Hok as [Hok T5]. apply andb_true_iff in Hok as [Hok T4].
  apply andb_true_iff in Hok as [Hok T3]. apply andb_true_iff in Hok as [T1 T2].
  apply bytes_eqb_eq in T1. apply bytes_eqb_eq in T4. apply Bool.eqb_prop in T3. apply Nat.leb_le in T5.
  unfold from_encoded_key. rewrite Hscr. cbn [bind].
  rewrite (starts_with_firstn _ e 2 Hst) by (destruct enc; lia). rewrite T1, mem_curve_tag. cbn [negb].
  rewrite Hel, T2. cbn [negb].
  rewrite (skipn_firstn_prefix _ e 2 1 Hst) by (destruct enc; lia). rewrite T3.
  destruct enc.
  - rewrite (skipn_firstn_prefix _ e 3 2 Hst) by lia. rewrite T4.
    change (mem_bytes (tx "sk") [tx "pk"; tx "sk"]) with true. cbn [negb].
    rewrite Hdec. cbn [bind]. change (bytes_eqb (tx "sk") (tx "sk")) with true. reflexivity.
  - rewrite (skipn_firstn_prefix _ e 2 2 Hst) by lia. rewrite T4.
    change (mem_bytes (tx "sk") [tx "pk"; tx "sk"]) with true. cbn [negb].
    rewrite Hdec. cbn [bind]. change (bytes_eqb (tx "sk") (tx "sk")) with true. reflexivity.
Qed.

(* the bytes secret_key exports *)
Definition export_raw (P : prims) (c : curve) (sk : bytes) (ed_seed : bool) : result bytes :=
  if curve_eqb c Ed && ed_seed then of_option (ed_sk_to_seed P sk) else Ok sk.

Lemma tag_is_ed c : bytes_eqb (curve_tag c) (tx "ed") = curve_eqb c Ed.
Proof. destruct c; reflexivity. Qed.

Lemma keypair_ed_seed P pk sk se : keypair P Ed se pk sk -> exists seed, ed_seed_keypair P seed = Some (pk, sk).
Proof. simpl. intros [H | [_ [-> [seed H]]]]; eauto. Qed.

(* importing the exported bytes rebuilds the key *)
Lemma reimport P (L : store_laws P) c se pk sk ed_seed :
  keypair P c se pk sk -> (c <> Ed -> length se = 32) ->
  exists raw, export_raw P c sk ed_seed = Ok raw /\
              length raw = (if curve_eqb c Ed && negb ed_seed then 64 else 32) /\
              sk <> [] /\
              from_secret_exponent P (curve_tag c) raw = Ok (mkkey pk (Some sk) (curve_tag c)).
Proof.
  intros Hkp Hlen. unfold export_raw, from_secret_exponent. rewrite curve_of_tag_tag.
  destruct c.
  - destruct (keypair_ed_seed P pk sk se Hkp) as [seed Hs].
    destruct (st_ed P L _ _ _ Hs) as [Hpk [Hseed [L1 [L2 L3]]]].
    assert (Hne : sk <> []) by (intro E; subst sk; discriminate).
    destruct ed_seed; cbn [curve_eqb andb negb].
    + exists seed. rewrite Hseed. split; [reflexivity|]. split; [exact L1|]. split; [exact Hne|].
      rewrite L1. cbn [Nat.eqb]. rewrite Hs. reflexivity.
    + exists sk. split; [reflexivity|]. split; [exact L2|]. split; [exact Hne|].
      rewrite L2. cbn [Nat.eqb]. rewrite Hpk. reflexivity.
  - destruct Hkp as [H ->]. cbn [curve_eqb andb]. exists se. rewrite H.
    assert (L1 : length se = 32) by (apply Hlen; discriminate).
    repeat split; auto. intro E; subst se; discriminate.
  - destruct Hkp as [H ->]. cbn [curve_eqb andb]. exists se. rewrite H.
    assert (L1 : length se = 32) by (apply Hlen; discriminate).
    repeat split; auto. intro E; subst se; discriminate.
  - destruct Hkp as [H ->]. cbn [curve_eqb andb]. exists se. rewrite H.
    assert (L1 : length se = 32) by (apply Hlen; discriminate).
    repeat split; auto. intro E; subst se; discriminate.
Qed.

Lemma export_import_plain P (L : store_laws P) c se pk sk pass pass' ed_seed salt :
  keypair P c se pk sk -> (c <> Ed -> length se = 32) -> truthy pass = false ->
  exists s, secret_key P (mkkey pk (Some sk) (curve_tag c)) pass ed_seed salt = Ok s /\
            from_encoded_key P (PS s) pass' = Ok (mkkey pk (Some sk) (curve_tag c)).
Proof.
  intros Hkp Hlen Hpass.
  destruct (reimport P L c se pk sk ed_seed Hkp Hlen) as [raw [Hraw [Hl [Hne Himp]]]].
  set (r := sk_row c (curve_eqb c Ed && negb ed_seed)).
  destruct (sk_row_ok c (curve_eqb c Ed && negb ed_seed)) as [Hok [Hin Htxt]]. fold r in Hok, Hin, Htxt.
  assert (Hpl : length raw = r_paylen r).
  { rewrite Hl. unfold r. destruct c, ed_seed; reflexivity. }
  exists (str_of (b58enc P (r_bin r ++ raw))). split.
  - unfold secret_key. rewrite (secret_of_some pk sk _ Hne). cbn [ktag mkkey].
    rewrite tag_is_ed. fold (export_raw P c sk ed_seed). rewrite Hraw. cbn [bind]. rewrite Hpass.
    rewrite <- Htxt. rewrite (find_enc P r raw Hin Hpl). reflexivity.
  - rewrite (from_encoded_secret P (st_b58 P L) r c false raw pass' Hin Hok Hpl). exact Himp.
Qed.

Lemma truthy_some pass : truthy pass = true -> exists p, pass = Some p.
Proof. destruct pass as [p|]; [eauto | discriminate]. Qed.

Lemma export_import_encrypted P (L : store_laws P) c se pk sk p p' w salt :
  keypair P c se pk sk -> (c <> Ed -> length se = 32) -> length salt = 8 ->
  truthy (Some p) = true -> pw_bytes p = Some w -> pw_bytes p' = Some w ->
  exists s, secret_key P (mkkey pk (Some sk) (curve_tag c)) (Some p) true salt = Ok s /\
            from_encoded_key P (PS s) (Some p') = Ok (mkkey pk (Some sk) (curve_tag c)).
Proof.
  intros Hkp Hlen Hsalt Hpass Hw Hw'.
  destruct (reimport P L c se pk sk true Hkp Hlen) as [raw [Hraw [Hl [Hne Himp]]]].
  rewrite andb_false_r in Hl.
  destruct (st_box P L raw nonce24 (pbkdf2 P w salt)) as [cph [Hbox [Hcl Hopen]]].
  destruct (esk_row_ok c) as [Hok [Hin [Htxt Hpay]]].
  assert (Hpl : length (salt ++ cph) = r_paylen (esk_row c)).
  { rewrite app_length, Hsalt, Hcl, Hl, Hpay. reflexivity. }
  exists (str_of (b58enc P (r_bin (esk_row c) ++ (salt ++ cph)))). split.
  - unfold secret_key. rewrite (secret_of_some pk sk _ Hne). cbn [ktag mkkey].
    rewrite tag_is_ed. fold (export_raw P c sk true). rewrite Hraw. cbn [bind]. rewrite Hpass. cbn [negb].
    rewrite Hw. cbn [of_option bind]. rewrite Hbox. cbn [of_option bind].
    rewrite <- Htxt. rewrite (find_enc P (esk_row c) (salt ++ cph) Hin Hpl). reflexivity.
  - rewrite (from_encoded_secret P (st_b58 P L) (esk_row c) c true (salt ++ cph) (Some p') Hin Hok Hpl).
    unfold import_cont. rewrite Hw'. cbn [of_option bind].
    rewrite (firstn_app_len 8 salt cph Hsalt), (skipn_app_len 8 salt cph Hsalt), Hopen. cbn [of_option bind].
    exact Himp.
Qed.

(* ------------------------------------------------------------------------------------------- *)
(* positional numerals                                                                         *)
(* ------------------------------------------------------------------------------------------- *)

Local Open Scope N_scope.

Definition valacc (b acc : N) (l : digs) : N := fold_left (fun a d => a * b + d) l acc.

Lemma valacc_spec b l : forall acc, valacc b acc l = acc * b ^ N.of_nat (length l) + val b l.
Proof.
  unfold val. fold (valacc b 0 l).
  induction l as [|d l IH]; intro acc.
  - simpl. lia.
  - cbn [valacc fold_left length]. fold (valacc b (acc * b + d) l). fold (valacc b (0 * b + d) l).
    rewrite (IH (acc * b + d)), (IH (0 * b + d)).
    rewrite Nat2N.inj_succ, N.pow_succ_r'. ring.
Qed.

Lemma val_nil b : val b [] = 0.
Proof. reflexivity. Qed.

Lemma val_cons b d l : val b (d :: l) = d * b ^ N.of_nat (length l) + val b l.
Proof.
  unfold val at 1. cbn [fold_left]. fold (valacc b (0 * b + d) l). rewrite valacc_spec. lia.
Qed.

Lemma val_app b l1 l2 : val b (l1 ++ l2) = val b l1 * b ^ N.of_nat (length l2) + val b l2.
Proof.
  unfold val at 1. rewrite fold_left_app. fold (val b l1). fold (valacc b (val b l1) l2).
  apply valacc_spec.
Qed.

Lemma val_single b d : val b [d] = d.
Proof. rewrite val_cons. cbn [length]. change (N.of_nat 0) with 0. rewrite N.pow_0_r, val_nil. lia. Qed.

Definition below (b : N) (l : digs) : Prop := Forall (fun d => d < b) l.

Lemma val_bound b l : below b l -> val b l < b ^ N.of_nat (length l).
Proof.
  induction 1 as [|d l Hd Hl IH].
  - rewrite val_nil. change (N.of_nat (length (@nil N))) with 0. rewrite N.pow_0_r. lia.
  - rewrite val_cons. cbn [length]. rewrite Nat2N.inj_succ, N.pow_succ_r'. nia.
Qed.

Lemma val_unique b l1 : forall l2, length l1 = length l2 -> below b l1 -> below b l2 ->
  val b l1 = val b l2 -> l1 = l2.
Proof.
  induction l1 as [|d1 l1 IH]; intros [|d2 l2] Hlen H1 H2 Hv; try discriminate; [reflexivity|].
  injection Hlen as Hlen. inversion H1 as [|? ? Hd1 Hl1]; subst. inversion H2 as [|? ? Hd2 Hl2]; subst.
  rewrite !val_cons in Hv. rewrite Hlen in Hv.
  pose proof (val_bound b l1 Hl1) as B1. pose proof (val_bound b l2 Hl2) as B2. rewrite Hlen in B1.
  set (X := b ^ N.of_nat (length l2)) in *.
  assert (E : d1 = d2) by nia.
  subst d2. f_equal. apply IH; auto. lia.
Qed.

Lemma below_app b l1 l2 : below b l1 -> below b l2 -> below b (l1 ++ l2).
Proof. apply Forall_app_intro || (intros; apply Forall_app; split; assumption). Qed.

(* ---- fixed-width numerals ---- *)

Lemma fixed_length b w : forall n, length (fixed b w n) = w.
Proof. induction w as [|w IH]; intro n; simpl; [reflexivity|]. rewrite app_length, IH. simpl. lia. Qed.

Lemma fixed_below b w : b <> 0 -> forall n, below b (fixed b w n).
Proof.
  intro Hb. induction w as [|w IH]; intro n; simpl; [constructor|].
  apply Forall_app. split; [apply IH|]. constructor; [|constructor]. apply N.mod_lt. exact Hb.
Qed.

Lemma fixed_val b w : b <> 0 -> forall n, val b (fixed b w n) = n mod b ^ N.of_nat w.
Proof.
  intro Hb. induction w as [|w IH]; intro n.
  - simpl. rewrite N.mod_1_r. reflexivity.
  - cbn [fixed]. rewrite val_app, IH, val_single.
    change (N.of_nat (length [n mod b])) with 1. rewrite N.pow_1_r.
    rewrite Nat2N.inj_succ, N.pow_succ_r'.
    rewrite (N.mod_mul_r n b (b ^ N.of_nat w)) by (auto; apply N.pow_nonzero; exact Hb).
    lia.
Qed.

(* ---- minimal numerals ---- *)

Lemma digits_le_spec b : 2 <= b -> forall fuel n, n < 2 ^ N.of_nat fuel ->
  val b (rev (digits_le b fuel n)) = n /\ below b (digits_le b fuel n).
Proof.
  intros Hb. induction fuel as [|f IH]; intros n Hn.
  - simpl in Hn. assert (n = 0) by lia. subst. simpl. split; [reflexivity | constructor].
  - cbn [digits_le]. destruct (N.eqb_spec n 0) as [->|Hnz].
    + split; [reflexivity | constructor].
    + assert (Hdiv : n / b < 2 ^ N.of_nat f).
      { rewrite Nat2N.inj_succ, N.pow_succ_r' in Hn.
        apply N.div_lt_upper_bound; [lia|]. nia. }
      destruct (IH (n / b) Hdiv) as [Hv Hbel]. split.
      * cbn [rev]. rewrite val_app, val_single, Hv. change (N.of_nat (length [n mod b])) with 1.
        rewrite N.pow_1_r. rewrite (N.div_mod n b) at 3 by lia. lia.
      * constructor; [apply N.mod_lt; lia | exact Hbel].
Qed.

Lemma digits_le_length b : 2 <= b -> forall fuel n w, n < b ^ N.of_nat w -> (length (digits_le b fuel n) <= w)%nat.
Proof.
  intro Hb. induction fuel as [|f IH]; intros n w Hn; [simpl; lia|].
  cbn [digits_le]. destruct (N.eqb_spec n 0) as [->|Hnz]; [simpl; lia|].
  destruct w as [|w]; [simpl in Hn; lia|].
  cbn [length]. apply le_n_S. apply IH.
  rewrite Nat2N.inj_succ, N.pow_succ_r' in Hn. apply N.div_lt_upper_bound; [lia | exact Hn].
Qed.

Lemma digits_spec b n : 2 <= b -> val b (digits b n) = n /\ below b (digits b n).
Proof.
  intro Hb. unfold digits. destruct (N.eqb_spec n 0) as [->|Hnz].
  - split; [reflexivity|]. constructor; [lia | constructor].
  - assert (Hn : n < 2 ^ N.of_nat (N.to_nat (N.size n))) by (rewrite N2Nat.id; apply N.size_gt).
    destruct (digits_le_spec b Hb _ n Hn) as [Hv Hbel]. split; [exact Hv|].
    unfold below. apply Forall_rev. exact Hbel.
Qed.

Lemma digits_length b n w : 2 <= b -> (1 <= w)%nat -> n < b ^ N.of_nat w -> (length (digits b n) <= w)%nat.
Proof.
  intros Hb Hw Hn. unfold digits. destruct (N.eqb_spec n 0) as [->|Hnz]; [simpl; lia|].
  rewrite rev_length. apply digits_le_length; assumption.
Qed.

Lemma val_repeat0 b k : val b (repeat 0 k) = 0.
Proof. induction k as [|k IH]; [reflexivity|]. cbn [repeat]. rewrite val_cons, IH. lia. Qed.

Lemma below_repeat0 b k : 0 < b -> below b (repeat 0 k).
Proof. intro Hb. induction k; simpl; constructor; auto. Qed.

(* str(n, base b).zfill(w) is the w-digit numeral when n < b^w *)
Lemma zfill_digits b w n : 2 <= b -> (1 <= w)%nat -> n < b ^ N.of_nat w -> zfill w (digits b n) = fixed b w n.
Proof.
  intros Hb Hw Hn. destruct (digits_spec b n Hb) as [Hv Hbel].
  pose proof (digits_length b n w Hb Hw Hn) as Hl.
  apply (val_unique b).
  - unfold zfill. rewrite app_length, repeat_length, fixed_length. lia.
  - unfold zfill. apply Forall_app. split; [apply below_repeat0; lia | exact Hbel].
  - apply fixed_below. lia.
  - unfold zfill. rewrite val_app, val_repeat0, Hv, fixed_val by lia. rewrite N.mod_small by exact Hn. lia.
Qed.

(* ---- bytes ---- *)

Lemma be_to_N_acc_val l : forall acc, be_to_N_acc acc l = valacc 256 acc (map Byte.to_N l).
Proof. induction l as [|x l IH]; intro acc; [reflexivity|]. simpl. rewrite IH. reflexivity. Qed.

Lemma be_to_N_val l : be_to_N l = val 256 (map Byte.to_N l).
Proof. apply be_to_N_acc_val. Qed.

Lemma below_bytes l : below 256 (map Byte.to_N l).
Proof. induction l; simpl; constructor; auto. apply to_N_lt_256. Qed.

Lemma map_to_N_inj a : forall b, map Byte.to_N a = map Byte.to_N b -> a = b.
Proof.
  induction a as [|x a IH]; intros [|y b] H; try discriminate; [reflexivity|].
  injection H as H1 H2. apply to_N_inj in H1. subst. f_equal. auto.
Qed.

Lemma bytes_unique a b : length a = length b -> be_to_N a = be_to_N b -> a = b.
Proof.
  intros Hl Hv. apply map_to_N_inj. apply (val_unique 256).
  - rewrite !map_length. exact Hl.
  - apply below_bytes.
  - apply below_bytes.
  - rewrite <- !be_to_N_val. exact Hv.
Qed.

Lemma pow_2_8 k : 2 ^ N.of_nat (8 * k) = 256 ^ N.of_nat k.
Proof.
  rewrite Nat2N.inj_mul. change (N.of_nat 8) with 8. rewrite N.pow_mul_r. reflexivity.
Qed.

Lemma pow_16_2 k : 16 ^ N.of_nat (2 * k) = 256 ^ N.of_nat k.
Proof.
  rewrite Nat2N.inj_mul. change (N.of_nat 2) with 2. rewrite N.pow_mul_r. reflexivity.
Qed.

Lemma bytes_bits_length e : length (bytes_bits e) = (8 * length e)%nat.
Proof.
  induction e as [|x e IH]; [reflexivity|]. unfold bytes_bits in *. cbn [flat_map].
  rewrite app_length, IH, fixed_length. simpl. lia.
Qed.

Lemma bytes_bits_below e : below 2 (bytes_bits e).
Proof.
  induction e as [|x e IH]; [constructor|]. unfold bytes_bits in *. cbn [flat_map].
  apply Forall_app. split; [apply fixed_below; lia | exact IH].
Qed.

Lemma bytes_bits_val e : val 2 (bytes_bits e) = be_to_N e.
Proof.
  induction e as [|x e IH]; [reflexivity|].
  rewrite be_to_N_val. cbn [map]. rewrite val_cons, map_length, <- be_to_N_val.
  unfold bytes_bits in *. cbn [flat_map]. rewrite val_app, IH, fixed_val by lia.
  fold (bytes_bits e). rewrite bytes_bits_length, pow_2_8.
  change (2 ^ N.of_nat 8) with 256. rewrite N.mod_small by apply to_N_lt_256. reflexivity.
Qed.

Lemma bytes_bits_inj a b : bytes_bits a = bytes_bits b -> a = b.
Proof.
  intro H. apply bytes_unique.
  - pose proof (f_equal (@length N) H) as Hl. rewrite !bytes_bits_length in Hl. lia.
  - rewrite <- !bytes_bits_val, H. reflexivity.
Qed.

(* unhexlify of 2k hex digits: k bytes with the same value *)
Lemma unhexlify_spec k : forall l, length l = (2 * k)%nat -> below 16 l ->
  exists bs, unhexlify l = Some bs /\ length bs = k /\ be_to_N bs = val 16 l.
Proof.
  induction k as [|k IH]; intros l Hl Hb.
  - destruct l; [|discriminate]. exists []. auto.
  - destruct l as [|a [|c r]]; try (simpl in Hl; lia).
    inversion Hb as [|? ? Ha Hb']; subst. inversion Hb' as [|? ? Hc Hr]; subst.
    assert (Hlr : length r = (2 * k)%nat) by (simpl in Hl; lia).
    destruct (IH r Hlr Hr) as [bs [Hu [Hlen Hv]]].
    exists (b8 (16 * a + c) :: bs). cbn [unhexlify]. rewrite Hu. split; [reflexivity|]. split; [simpl; lia|].
    rewrite be_to_N_val. cbn [map]. rewrite val_cons, map_length, <- be_to_N_val, Hv, Hlen.
    rewrite to_N_b8, N.mod_small by lia.
    rewrite !val_cons. cbn [length]. rewrite Hlr.
    replace (S (2 * k)) with (2 * k + 1)%nat by lia.
    rewrite Nat2N.inj_add, N.pow_add_r, pow_16_2. change (N.of_nat 1) with 1. rewrite N.pow_1_r. lia.
Qed.

(* ------------------------------------------------------------------------------------------- *)
(* validate_mnemonic's string manipulations = the BIP-39 checksum rule                         *)
(* ------------------------------------------------------------------------------------------- *)

Lemma div33 k : ((33 * k) / 33 = k /\ (33 * k + 32) / 33 = k)%nat.
Proof.
  split.
  - rewrite Nat.mul_comm. apply Nat.div_mul. discriminate.
  - symmetry. apply (Nat.div_unique _ 33 k 32); lia.
Qed.

Lemma below_firstn b n l : below b l -> below b (firstn n l).
Proof.
  unfold below. intro H. revert n. induction H as [|x l Hx Hl IH]; intros [|n]; simpl; try constructor; auto.
Qed.

(* bin(int(digest.hex(), 16))[2:].zfill(256) is the bit string of a 32-byte digest *)
Lemma bits_of_digest dg : length dg = 32%nat -> zfill 256 (digits 2 (be_to_N dg)) = bytes_bits dg.
Proof.
  intro Hl.
  assert (Hb : be_to_N dg < 2 ^ N.of_nat 256).
  { rewrite <- bytes_bits_val. pose proof (val_bound 2 _ (bytes_bits_below dg)) as B.
    rewrite bytes_bits_length, Hl in B. exact B. }
  rewrite zfill_digits by (try lia; exact Hb).
  apply (val_unique 2).
  - rewrite fixed_length, bytes_bits_length, Hl. reflexivity.
  - apply fixed_below. lia.
  - apply bytes_bits_below.
  - rewrite fixed_val by lia. rewrite N.mod_small by exact Hb. symmetry. apply bytes_bits_val.
Qed.

Lemma pow_2_16 k : 2 ^ N.of_nat (32 * k) = 16 ^ N.of_nat (8 * k).
Proof.
  replace (32 * k)%nat with (8 * (4 * k))%nat by lia. replace (8 * k)%nat with (2 * (4 * k))%nat by lia.
  rewrite pow_2_8, pow_16_2. reflexivity.
Qed.

Lemma check_bits_char P (Hsha : forall x, length (sha256 P x) = 32%nat) k b :
  (1 <= k <= 8)%nat -> length b = (33 * k)%nat -> below 2 b ->
  exists nd, length nd = (4 * k)%nat /\ bytes_bits nd = firstn (32 * k) b /\
    check_bits P b = list_eqb N.eqb (skipn (32 * k) b) (firstn k (bytes_bits (sha256 P nd))).
Proof.
  intros Hk Hlen Hb. unfold check_bits. rewrite Hlen.
  destruct (div33 k) as [D1 D2]. rewrite D1, D2.
  replace (k * 32)%nat with (32 * k)%nat by lia. replace (k * 8)%nat with (8 * k)%nat by lia.
  replace (33 * k - k)%nat with (32 * k)%nat by lia.
  set (d := firstn (32 * k) b).
  assert (Hdl : length d = (32 * k)%nat) by (unfold d; rewrite firstn_length, Hlen; lia).
  assert (Hdb : below 2 d) by (apply below_firstn; exact Hb).
  assert (Hv : val 2 d < 16 ^ N.of_nat (8 * k)).
  { rewrite <- pow_2_16, <- Hdl. apply val_bound. exact Hdb. }
  rewrite (zfill_digits 16 (8 * k) (val 2 d)) by (try lia; exact Hv).
  destruct (unhexlify_spec (4 * k) (fixed 16 (8 * k) (val 2 d))) as [nd [Hu [Hnl Hnv]]].
  { rewrite fixed_length. lia. }
  { apply fixed_below. lia. }
  rewrite fixed_val in Hnv by lia. rewrite N.mod_small in Hnv by exact Hv.
  assert (Hbits : bytes_bits nd = d).
  { apply (val_unique 2).
    - rewrite bytes_bits_length, Hnl, Hdl. lia.
    - apply bytes_bits_below.
    - exact Hdb.
    - rewrite bytes_bits_val. exact Hnv. }
  exists nd. split; [exact Hnl|]. split; [exact Hbits|].
  destruct d as [|x d'] eqn:Ed; [simpl in Hdl; lia|].
  rewrite Hu. rewrite (bits_of_digest _ (Hsha nd)). reflexivity.
Qed.

Lemma N_list_eqb_eq (a b : list N) : list_eqb N.eqb a b = true <-> a = b.
Proof. apply list_eqb_spec. intros x y. apply N.eqb_eq. Qed.

Lemma check_bits_iff P (Hsha : forall x, length (sha256 P x) = 32%nat) k b :
  (1 <= k <= 8)%nat -> length b = (33 * k)%nat -> below 2 b ->
  (check_bits P b = true <->
   exists e, length e = (4 * k)%nat /\ b = bytes_bits e ++ firstn k (bytes_bits (sha256 P e))).
Proof.
  intros Hk Hlen Hb.
  destruct (check_bits_char P Hsha k b Hk Hlen Hb) as [nd [Hnl [Hbits Hc]]].
  rewrite Hc, N_list_eqb_eq. split.
  - intro H. exists nd. split; [exact Hnl|]. rewrite Hbits, <- H. symmetry. apply firstn_skipn.
  - intros [e [Hel He]].
    assert (Hbl : length (bytes_bits e) = (32 * k)%nat) by (rewrite bytes_bits_length, Hel; lia).
    assert (E : nd = e).
    { apply bytes_bits_inj. rewrite Hbits. rewrite He at 1. apply (firstn_app_len _ _ _ Hbl). }
    subst nd. rewrite He at 1. apply (skipn_app_len _ _ _ Hbl).
Qed.

Lemma flat_bits11 idx : Forall (fun i => i < 2048) idx -> flat_map bits11 idx = flat_map (fixed 2 11) idx.
Proof.
  induction 1 as [|i idx Hi _ IH]; [reflexivity|]. cbn [flat_map]. rewrite IH. f_equal.
  unfold bits11. apply zfill_digits; try lia; exact Hi.
Qed.

Lemma flat_fixed_length idx : length (flat_map (fixed 2 11) idx) = (11 * length idx)%nat.
Proof.
  induction idx as [|i idx IH]; [reflexivity|]. cbn [flat_map length]. rewrite app_length, fixed_length, IH. lia.
Qed.

Lemma flat_fixed_below idx : below 2 (flat_map (fixed 2 11) idx).
Proof.
  induction idx as [|i idx IH]; [constructor|]. cbn [flat_map]. apply Forall_app. split; [apply fixed_below; lia | exact IH].
Qed.

Lemma mnemonic_check_k P (Hsha : forall x, length (sha256 P x) = 32%nat) k idx :
  (1 <= k <= 8)%nat -> Forall (fun i => i < 2048) idx -> length idx = (3 * k)%nat ->
  (mnemonic_check P idx = true <->
   exists e, length e = (4 * k)%nat /\
             flat_map (fixed 2 11) idx = bytes_bits e ++ firstn k (bytes_bits (sha256 P e))).
Proof.
  intros Hk Hidx Hlen. unfold mnemonic_check. rewrite (flat_bits11 idx Hidx).
  apply check_bits_iff; auto.
  - rewrite flat_fixed_length, Hlen. lia.
  - apply flat_fixed_below.
Qed.

Lemma words_of_entropy P (Hsha : forall x, length (sha256 P x) = 32%nat) k idx e :
  (k <= 256)%nat -> length e = (4 * k)%nat ->
  flat_map (fixed 2 11) idx = bytes_bits e ++ firstn k (bytes_bits (sha256 P e)) ->
  length idx = (3 * k)%nat.
Proof.
  intros Hk Hel H. apply (f_equal (@length N)) in H.
  rewrite flat_fixed_length, app_length, bytes_bits_length, firstn_length, bytes_bits_length, Hsha, Hel in H. lia.
Qed.

Lemma mnemonic_iff P (Hsha : forall x, length (sha256 P x) = 32%nat) idx :
  Forall (fun i => i < 2048) idx ->
  (existsb (Nat.eqb (length idx)) valid_word_counts = true /\ mnemonic_check P idx = true) <-> bip39_valid P idx.
Proof.
  intro Hidx. unfold bip39_valid, bip39_bits. split.
  - intros [Hcnt Hchk]. apply existsb_exists in Hcnt as [n [Hn En]]. apply Nat.eqb_eq in En. subst n.
    assert (Hk : exists k, (1 <= k <= 8)%nat /\ (4 <= k)%nat /\ length idx = (3 * k)%nat).
    { simpl in Hn. destruct Hn as [H|[H|[H|[H|[H|[]]]]]];
        [exists 4%nat | exists 5%nat | exists 6%nat | exists 7%nat | exists 8%nat]; lia. }
    destruct Hk as [k [Hk [Hk4 Hlen]]].
    destruct (proj1 (mnemonic_check_k P Hsha k idx Hk Hidx Hlen) Hchk) as [e [Hel He]].
    exists e. split.
    + rewrite Hel. simpl. lia.
    + rewrite He, Hel. replace (4 * k / 4)%nat with k; [reflexivity|].
      rewrite Nat.mul_comm, Nat.div_mul; [reflexivity | discriminate].
  - intros [e [Hin He]].
    assert (Hk : exists k, (1 <= k <= 8)%nat /\ length e = (4 * k)%nat).
    { simpl in Hin. destruct Hin as [H|[H|[H|[H|[H|[]]]]]];
        [exists 4%nat | exists 5%nat | exists 6%nat | exists 7%nat | exists 8%nat]; lia. }
    destruct Hk as [k [Hk Hel]].
    assert (Hq : (length e / 4)%nat = k).
    { rewrite Hel, Nat.mul_comm, Nat.div_mul; [reflexivity | discriminate]. }
    rewrite Hq in He.
    assert (Hlen : length idx = (3 * k)%nat) by (apply (words_of_entropy P Hsha k idx e); auto; lia).
    split.
    + apply existsb_exists. exists (length idx). split; [|apply Nat.eqb_refl].
      rewrite Hlen. simpl in Hin. simpl. lia.
    + apply (mnemonic_check_k P Hsha k idx Hk Hidx Hlen). exists e. auto.
Qed.

Close Scope N_scope.

(* validate_mnemonic as a whole: word count, word list lookup, checksum *)
Lemma validate_mnemonic_spec P mn :
  validate_mnemonic P mn = Ok tt <->
  exists idx, all_some (map (word_index P) (nf_split P mn)) = Some idx /\
              existsb (Nat.eqb (length (nf_split P mn))) valid_word_counts = true /\
              mnemonic_check P idx = true.
Proof.
  unfold validate_mnemonic. split.
  - destruct (existsb _ valid_word_counts) eqn:E; cbn [negb]; [|discriminate].
    destruct (all_some _) as [idx|]; [|discriminate].
    destruct (mnemonic_check P idx) eqn:C; [|discriminate]. intros _. exists idx. auto.
  - intros [idx [Ha [Hc Hm]]]. rewrite Hc, Ha, Hm. reflexivity.
Qed.

Lemma all_some_length {A} (l : list (option A)) r : all_some l = Some r -> length r = length l.
Proof.
  revert r. induction l as [|[a|] l IH]; intros r H; simpl in H; try discriminate.
  - injection H as <-. reflexivity.
  - destruct (all_some l) as [t|]; [|discriminate]. injection H as <-. simpl. f_equal. apply IH. reflexivity.
Qed.

Lemma all_some_forall {A} (Q : A -> Prop) (l : list (option A)) r :
  (forall a, In (Some a) l -> Q a) -> all_some l = Some r -> Forall Q r.
Proof.
  revert r. induction l as [|[a|] l IH]; intros r HQ H; simpl in H; try discriminate.
  - injection H as <-. constructor.
  - destruct (all_some l) as [t|] eqn:E; [|discriminate]. injection H as <-.
    constructor; [apply HQ; left; reflexivity | apply IH; auto]. intros x Hx. apply HQ. right. exact Hx.
Qed.

Lemma validate_mnemonic_bip39 P mn :
  (forall x, length (sha256 P x) = 32) -> (forall w i, word_index P w = Some i -> (i < 2048)%N) ->
  (validate_mnemonic P mn = Ok tt <->
   exists idx, all_some (map (word_index P) (nf_split P mn)) = Some idx /\ bip39_valid P idx).
Proof.
  intros Hsha Hwl. rewrite validate_mnemonic_spec. split.
  - intros [idx [Ha [Hc Hm]]]. exists idx. split; [exact Ha|].
    assert (Hidx : Forall (fun i => (i < 2048)%N) idx).
    { apply (all_some_forall _ _ _ (fun a Hin => match proj1 (in_map_iff _ _ _) Hin with ex_intro _ w (conj Hw _) => Hwl w a Hw end) Ha). }
    apply (mnemonic_iff P Hsha idx Hidx). split; [|exact Hm].
    rewrite (all_some_length _ _ Ha), map_length. exact Hc.
  - intros [idx [Ha Hv]]. exists idx. split; [exact Ha|].
    assert (Hidx : Forall (fun i => (i < 2048)%N) idx).
    { apply (all_some_forall _ _ _ (fun a Hin => match proj1 (in_map_iff _ _ _) Hin with ex_intro _ w (conj Hw _) => Hwl w a Hw end) Ha). }
    destruct (proj2 (mnemonic_iff P Hsha idx Hidx) Hv) as [Hc Hm]. split; [|exact Hm].
    rewrite (all_some_length _ _ Ha), map_length in Hc. exact Hc.
Qed.

(* ------------------------------------------------------------------------------------------- *)
(* from_mnemonic is a function of the seed                                                     *)
(* ------------------------------------------------------------------------------------------- *)

(* the key built from the first 32 bytes of a seed *)
Definition key_of_seed (P : prims) (tag seed : bytes) : result key :=
  let* se :=
    match curve_of_tag tag with
    | Some Ed => match ed_seed_keypair P (firstn 32 seed) with Some (_, sk) => Ok sk | None => Reject end
    | Some _ => Ok (firstn 32 seed)
    | None => Reject
    end in
  from_secret_exponent P tag se.

Lemma from_mnemonic_of_seed P mn pw em v tag k :
  from_mnemonic P mn pw em v tag = Ok k ->
  exists seed, to_seed P (mn_string mn) (em ++ pw) = Some seed /\ key_of_seed P tag seed = Ok k /\
               (v = true -> validate_mnemonic P (mn_string mn) = Ok tt).
Proof.
  unfold from_mnemonic. intro H.
  destruct v.
  - destruct (validate_mnemonic P (mn_string mn)) as [[]|] eqn:V; [|discriminate]. cbn [bind] in H.
    destruct (to_seed P (mn_string mn) (em ++ pw)) as [seed|]; [|discriminate]. cbn [of_option bind] in H.
    exists seed. auto.
  - cbn [bind] in H.
    destruct (to_seed P (mn_string mn) (em ++ pw)) as [seed|]; [|discriminate]. cbn [of_option bind] in H.
    exists seed. split; [reflexivity|]. split; [exact H | discriminate].
Qed.

Lemma from_mnemonic_deterministic P mn mn' pw pw' em em' v v' tag :
  mn_string mn = mn_string mn' -> em ++ pw = em' ++ pw' ->
  (v = v' \/ (validate_mnemonic P (mn_string mn) = Ok tt)) ->
  from_mnemonic P mn pw em v tag = from_mnemonic P mn' pw' em' v' tag.
Proof.
  intros Hm Hp Hv. unfold from_mnemonic. rewrite <- Hm, <- Hp.
  destruct Hv as [<-|Hv]; [reflexivity|]. rewrite Hv. destruct v, v'; reflexivity.
Qed.
