(* Proofs/KeyStore_proofs.v — lemmas about Client/KeyStore.v (C08): public key hash, export / import,
   BIP-39 checksum arithmetic, from_mnemonic. *)
From Coq Require Import String.
From Coq Require Import List NArith ZArith Bool Arith Lia.
From Coq.Strings Require Import Byte.
From PV Require Import Base.Bytes Base.Result Client.KeyGlue Client.KeyStore Proofs.KeyGlue_proofs.
Import ListNotations.
Local Open Scope list_scope.

(* ------------------------------------------------------------------------------------------- *)
(* public key hash                                                                             *)
(* ------------------------------------------------------------------------------------------- *)

Definition pkh_row (c : curve) : row :=
  match c with
  | Ed => mkrow "tz1" 36 "06a19f" 20
  | Sp => mkrow "tz2" 36 "06a1a1" 20
  | P2 => mkrow "tz3" 36 "06a1a4" 20
  | BL => mkrow "tz4" 36 "06a1a6" 20
  end.

Lemma pkh_row_used c : In (pkh_row c) used_rows.
Proof. apply existsb_row_In. destruct c; vm_compute; reflexivity. Qed.

Lemma pkh_prefix_row c : pkh_prefix (curve_tag c) = Some (r_txt (pkh_row c)).
Proof. destruct c; vm_compute; reflexivity. Qed.

Lemma public_key_hash_formula P (L : store_laws P) k c : ktag k = curve_tag c ->
  let e := b58enc P (r_bin (pkh_row c) ++ blake2b P 20 (pub k)) in
  public_key_hash P k = Ok (str_of e) /\ length e = 36 /\ starts_with (r_txt (pkh_row c)) e = true.
Proof.
  intros Htag e. unfold public_key_hash. rewrite Htag, pkh_prefix_row. cbn [of_option bind].
  assert (Hl : length (blake2b P 20 (pub k)) = r_paylen (pkh_row c)).
  { rewrite (st_blake_len P L). destruct c; reflexivity. }
  destruct (b58_round P (st_b58 P L) _ _ (pkh_row_used c) Hl) as [He [_ [Hel Hst]]].
  rewrite He. cbn [bind]. split; [reflexivity|]. split; [|exact Hst].
  fold e in Hel. rewrite Hel. destruct c; reflexivity.
Qed.
