(* Proofs/Diff_proofs.v — lemmas for C30: apply_patch applied to the text of any edit script
   between two texts yields the other text, in both directions. *)
From Coq Require Import Decimal DecimalN DecimalPos.
From Coq Require Import List Arith Bool NArith ZArith Lia.
From Coq.Strings Require Import Byte.
From PV Require Import Base.Bytes Base.Result Codec.Diff.
Import ListNotations.

(* ------------------------------------------------------------------------------------ *)
(* lines                                                                                  *)
(* ------------------------------------------------------------------------------------ *)
Definition tline (l : bytes) : Prop := exists body, l = body ++ [NL] /\ nl_free body = true.
Definition oline (l : bytes) : Prop := l <> [] /\ nl_free l = true.
Definition wfl (l : bytes) : Prop := tline l \/ oline l.

Fixpoint wf_text (ls : list bytes) : Prop :=
  match ls with
  | [] => True
  | l :: r => match r with [] => wfl l | _ => tline l /\ wf_text r end
  end.

Lemma NL_eqb : byte_eqb NL NL = true. Proof. reflexivity. Qed.

Lemma nl_free_app a b : nl_free (a ++ b) = nl_free a && nl_free b.
Proof. induction a as [|c a IH]; cbn [nl_free app]; [reflexivity|]. rewrite IH. now rewrite andb_assoc. Qed.

Lemma splitlines_tline : forall body rest, nl_free body = true ->
  splitlines (body ++ NL :: rest) = (body ++ [NL]) :: splitlines rest.
Proof.
  induction body as [|c body IH]; intros rest Hf.
  - cbn [app splitlines]. rewrite NL_eqb. reflexivity.
  - cbn [nl_free] in Hf. apply andb_true_iff in Hf. destruct Hf as [Hc Hb].
    cbn [app splitlines]. apply negb_true_iff in Hc. rewrite Hc, (IH rest Hb). reflexivity.
Qed.

Lemma splitlines_oline : forall l, oline l -> splitlines l = [l].
Proof.
  induction l as [|c l IH]; intros [Hne Hf]; [congruence|].
  cbn [nl_free] in Hf. apply andb_true_iff in Hf. destruct Hf as [Hc Hb]. apply negb_true_iff in Hc.
  cbn [splitlines]. rewrite Hc. destruct l as [|d l]; [reflexivity|].
  rewrite IH; [reflexivity|]. split; [discriminate|exact Hb].
Qed.

Lemma splitlines_concat : forall ls, wf_text ls -> splitlines (concat ls) = ls.
Proof.
  induction ls as [|l r IH]; intro Hw; [reflexivity|].
  cbn [wf_text] in Hw. cbn [concat]. destruct r as [|l2 r].
  - cbn [concat]. rewrite app_nil_r. destruct Hw as [(body & -> & Hf)|Ho].
    + rewrite <- (app_nil_r (body ++ [NL])) at 1. rewrite <- app_assoc. cbn [app].
      rewrite splitlines_tline by exact Hf. reflexivity.
    + apply splitlines_oline. exact Ho.
  - destruct Hw as [(body & -> & Hf) Hr]. rewrite <- app_assoc. cbn [app].
    rewrite splitlines_tline by exact Hf. rewrite IH by exact Hr. reflexivity.
Qed.

Lemma concat_splitlines : forall s, concat (splitlines s) = s.
Proof.
  induction s as [|c r IH]; [reflexivity|].
  cbn [splitlines]. destruct (byte_eqb c NL).
  - cbn [concat app]. now rewrite IH.
  - destruct (splitlines r) as [|l ls].
    + cbn in IH. subst r. reflexivity.
    + cbn [concat] in *. cbn [app]. now rewrite IH.
Qed.

Lemma tline_cons c l : byte_eqb c NL = false -> tline l -> tline (c :: l).
Proof.
  intros Hc (body & -> & Hf). exists (c :: body). split; [reflexivity|].
  cbn [nl_free]. rewrite Hc, Hf. reflexivity.
Qed.

Lemma oline_cons c l : byte_eqb c NL = false -> nl_free l = true -> oline (c :: l).
Proof. intros Hc Hf. split; [discriminate|]. cbn [nl_free]. now rewrite Hc, Hf. Qed.

Lemma wf_splitlines : forall s, wf_text (splitlines s).
Proof.
  induction s as [|c r IH]; [exact I|].
  cbn [splitlines]. destruct (byte_eqb c NL) eqn:Ec.
  - apply byte_eqb_spec in Ec. subst c.
    assert (Ht : tline [NL]) by (exists []; split; reflexivity).
    cbn [wf_text]. destruct (splitlines r); [left; exact Ht|split; [exact Ht|exact IH]].
  - destruct (splitlines r) as [|l ls].
    + right. apply oline_cons; [exact Ec|reflexivity].
    + cbn [wf_text] in *. destruct ls as [|l2 ls].
      * destruct IH as [Ht|[_ Ho]]; [left; now apply tline_cons|right; now apply oline_cons].
      * destruct IH as [Ht Hr]. split; [now apply tline_cons|exact Hr].
Qed.

Lemma wf_text_wfl : forall ls, wf_text ls -> Forall wfl ls.
Proof.
  induction ls as [|l r IH]; intro Hw; [constructor|].
  cbn [wf_text] in Hw. destruct r as [|l2 r].
  - constructor; [exact Hw|constructor].
  - destruct Hw as [Ht Hr]. constructor; [left; exact Ht|apply IH; exact Hr].
Qed.

Lemma tlines_wf : forall ls, Forall tline ls -> wf_text ls.
Proof.
  induction ls as [|l r IH]; intro Hf; [exact I|].
  inversion Hf as [|? ? Hl Hr]; subst. cbn [wf_text]. destruct r; [left; exact Hl|split; [exact Hl|apply IH; exact Hr]].
Qed.

Lemma ends_nl_app body : ends_nl (body ++ [NL]) = true.
Proof.
  induction body as [|c body IH]; [reflexivity|].
  cbn [app]. destruct (body ++ [NL]) as [|d t] eqn:E; [destruct body; discriminate|].
  cbn [ends_nl]. exact IH.
Qed.

Lemma ends_nl_free l : nl_free l = true -> ends_nl l = false.
Proof.
  induction l as [|c l IH]; intro Hf; [reflexivity|].
  cbn [nl_free] in Hf. apply andb_true_iff in Hf. destruct Hf as [Hc Hl]. apply negb_true_iff in Hc.
  destruct l as [|d t]; [cbn; exact Hc|]. cbn [ends_nl]. apply IH. exact Hl.
Qed.

Lemma removelast_snoc {X} (l : list X) x : removelast (l ++ [x]) = l.
Proof. apply removelast_last. Qed.

Lemma hdr_line_tline l : hdr_line l = true -> tline l.
Proof.
  unfold hdr_line. intro H. apply andb_true_iff in H. destruct H as [H Hf].
  apply andb_true_iff in H. destruct H as [_ He].
  exists (removelast l). split; [|exact Hf].
  clear Hf. induction l as [|c l IH]; [discriminate|].
  destruct l as [|d t].
  - cbn in He. apply byte_eqb_spec in He. subst c. reflexivity.
  - cbn [ends_nl] in He. specialize (IH He).
    change (removelast (c :: d :: t)) with (c :: removelast (d :: t)). cbn [app]. f_equal. exact IH.
Qed.

(* ------------------------------------------------------------------------------------ *)
(* decimal numbers                                                                        *)
(* ------------------------------------------------------------------------------------ *)
Definition nodigit_head (l : bytes) : Prop :=
  match l with c :: _ => is_digit c = false | [] => True end.

Lemma span_digits_uint : forall u rest, nodigit_head rest ->
  span_digits (bytes_of_uint u ++ rest) = (bytes_of_uint u, rest).
Proof.
  induction u as [|u IH|u IH|u IH|u IH|u IH|u IH|u IH|u IH|u IH|u IH]; intros rest Hr;
    try (cbn [bytes_of_uint app span_digits is_digit]; rewrite (IH rest Hr); reflexivity).
  cbn [bytes_of_uint app]. destruct rest as [|c r]; [reflexivity|].
  cbn [span_digits]. cbn in Hr. rewrite Hr. reflexivity.
Qed.

Lemma uint_of_digits_bytes : forall u, uint_of_digits (bytes_of_uint u) = u.
Proof. induction u; cbn [bytes_of_uint uint_of_digits]; congruence. Qed.

Lemma nl_free_uint : forall u, nl_free (bytes_of_uint u) = true.
Proof. induction u; cbn [bytes_of_uint nl_free]; try reflexivity; rewrite IHu; reflexivity. Qed.

Lemma int_of_dec n : int_of_digits (dec n) = N.of_nat n.
Proof. unfold int_of_digits, dec. rewrite uint_of_digits_bytes. apply DecimalN.Unsigned.of_to. Qed.

Lemma dec_nonempty n : dec n <> [].
Proof.
  unfold dec. destruct (N.of_nat n) as [|p]; [discriminate|].
  cbn [N.to_uint]. pose proof (DecimalPos.Unsigned.to_uint_nonnil p) as Hn.
  destruct (Pos.to_uint p); try discriminate. congruence.
Qed.

Lemma dec_zero n : dec n = [x30] -> n = 0.
Proof.
  intro H. assert (Hi : int_of_digits (dec n) = int_of_digits [x30]) by now rewrite H.
  rewrite int_of_dec in Hi. cbn in Hi. lia.
Qed.

Lemma nl_free_dec n : nl_free (dec n) = true.
Proof. apply nl_free_uint. Qed.

Lemma span_digits_dec n rest : nodigit_head rest -> span_digits (dec n ++ rest) = (dec n, rest).
Proof. apply span_digits_uint. Qed.

(* the two regex groups of a printed range *)
Definition range_groups (p len : nat) : bytes * option bytes :=
  if len =? 1 then (dec (p + 1), None)
  else if len =? 0 then (dec p, Some [x30])
  else (dec (p + 1), Some (dec len)).

Lemma parse_range_ok p len rest :
  parse_range (range p len ++ SP :: rest) =
  Some (fst (range_groups p len), snd (range_groups p len), SP :: rest).
Proof.
  unfold range, range_groups, parse_range.
  destruct (len =? 1) eqn:E1; [|destruct (len =? 0) eqn:E0]; cbn [fst snd].
  - rewrite span_digits_dec by reflexivity.
    destruct (dec (p + 1)) as [|c d] eqn:Ed; [now apply dec_nonempty in Ed|].
    reflexivity.
  - rewrite <- app_assoc. rewrite span_digits_dec by reflexivity.
    destruct (dec p) as [|c d] eqn:Ed; [now apply dec_nonempty in Ed|].
    reflexivity.
  - rewrite <- !app_assoc. rewrite span_digits_dec by reflexivity.
    destruct (dec (p + 1)) as [|c d] eqn:Ed; [now apply dec_nonempty in Ed|].
    cbn [app]. change (byte_eqb COMMA COMMA) with true. cbn iota.
    rewrite span_digits_dec by reflexivity.
    destruct (dec len) as [|c2 d2] eqn:Ed2; [now apply dec_nonempty in Ed2|].
    reflexivity.
Qed.

Lemma hunk_start_ok p len :
  hunk_start (fst (range_groups p len)) (snd (range_groups p len)) = Z.of_nat p.
Proof.
  unfold range_groups, hunk_start.
  destruct (len =? 1) eqn:E1; [|destruct (len =? 0) eqn:E0]; cbn [fst snd].
  - rewrite int_of_dec. cbn [is_zero_str]. lia.
  - rewrite int_of_dec. change (is_zero_str (Some [x30])) with true. lia.
  - rewrite int_of_dec.
    assert (Hz : is_zero_str (Some (dec len)) = false).
    { destruct (is_zero_str (Some (dec len))) eqn:Ez; [|reflexivity].
      unfold is_zero_str in Ez. destruct (dec len) as [|c [|c2 t]] eqn:Ed; try discriminate.
      apply byte_eqb_spec in Ez. subst c. apply dec_zero in Ed. apply Nat.eqb_neq in E0. lia. }
    rewrite Hz. lia.
Qed.

Lemma strip_prefix_app p l : strip_prefix p (p ++ l) = Some l.
Proof.
  induction p as [|c p IH]; [reflexivity|]. cbn [app strip_prefix].
  assert (byte_eqb c c = true) as -> by now apply byte_eqb_spec. exact IH.
Qed.

Lemma parse_hdr_ok o ol n nl :
  parse_hdr (hunk_header o ol n nl) =
  Some (fst (range_groups o ol), snd (range_groups o ol), fst (range_groups n nl), snd (range_groups n nl)).
Proof.
  unfold parse_hdr, hunk_header. rewrite strip_prefix_app.
  change (s_hdr_mid ++ range n nl ++ s_hdr_close ++ [NL]) with (SP :: (PLUS :: range n nl ++ s_hdr_close ++ [NL])).
  rewrite (parse_range_ok o ol (PLUS :: range n nl ++ s_hdr_close ++ [NL])).
  change (strip_prefix s_hdr_mid (SP :: PLUS :: range n nl ++ s_hdr_close ++ [NL]))
    with (Some (range n nl ++ s_hdr_close ++ [NL])).
  change (s_hdr_close ++ [NL]) with (SP :: [AT; AT; NL]). cbn iota.
  rewrite (parse_range_ok n nl [AT; AT; NL]). reflexivity.
Qed.

(* ------------------------------------------------------------------------------------ *)
(* the rendered patch splits back into its lines                                          *)
(* ------------------------------------------------------------------------------------ *)
Definition wf_body (b : list (tag * bytes)) : Prop := Forall (fun tl => wfl (snd tl)) b.
Definition wf_hunks (hs : list hunk) : Prop := Forall (fun h => wf_body (body h)) hs.

Lemma tag_not_nl t : byte_eqb (tag_byte t) NL = false.
Proof. destruct t; reflexivity. Qed.

Lemma marker_tline : tline marker_line.
Proof. exists (removelast marker_line). split; reflexivity. Qed.

Lemma render_line_tlines t l : wfl l -> Forall tline (render_line (t, l)).
Proof.
  intros [Ht|Ho]; unfold render_line.
  - destruct Ht as (body & -> & Hf). rewrite ends_nl_app.
    constructor; [|constructor]. apply tline_cons; [apply tag_not_nl|]. exists body. split; [reflexivity|exact Hf].
  - destruct Ho as [Hne Hf]. rewrite (ends_nl_free l Hf).
    constructor; [|constructor; [exact marker_tline|constructor]].
    exists (tag_byte t :: l). split; [reflexivity|]. cbn [nl_free]. rewrite tag_not_nl, Hf. reflexivity.
Qed.

Lemma render_body_tlines b : wf_body b -> Forall tline (render_body b).
Proof.
  induction b as [|[t l] b IH]; intro Hw; [constructor|].
  inversion Hw as [|? ? Hl Hb]; subst. cbn [render_body]. apply Forall_app. split.
  - apply render_line_tlines. exact Hl.
  - apply IH. exact Hb.
Qed.

Lemma nl_free_range p len : nl_free (range p len) = true.
Proof.
  unfold range. destruct (len =? 1); [apply nl_free_dec|]. destruct (len =? 0).
  - rewrite nl_free_app, nl_free_dec. reflexivity.
  - rewrite !nl_free_app, !nl_free_dec. reflexivity.
Qed.

Lemma hunk_header_tline o ol n nl : tline (hunk_header o ol n nl).
Proof.
  exists (s_hdr_open ++ range o ol ++ s_hdr_mid ++ range n nl ++ s_hdr_close). split.
  - unfold hunk_header. now rewrite <- !app_assoc.
  - rewrite !nl_free_app, !nl_free_range. reflexivity.
Qed.

Lemma render_hunks_tlines : forall hs o n, wf_hunks hs -> Forall tline (render_hunks hs o n).
Proof.
  induction hs as [|h r IH]; intros o n Hw; [constructor|].
  inversion Hw as [|? ? Hh Hr]; subst. cbn [render_hunks]. constructor; [apply hunk_header_tline|].
  apply Forall_app. split; [apply render_body_tlines; exact Hh|apply IH; exact Hr].
Qed.

Lemma splitlines_render hdr s : forallb hdr_line hdr = true -> wf_hunks (hunks s) ->
  splitlines (render hdr s) = render_lines hdr s.
Proof.
  intros Hh Hw. unfold render. apply splitlines_concat. apply tlines_wf. unfold render_lines.
  apply Forall_app. split.
  - apply Forall_forall. intros l Hl. apply hdr_line_tline. rewrite forallb_forall in Hh. apply Hh. exact Hl.
  - apply render_hunks_tlines. exact Hw.
Qed.

(* ------------------------------------------------------------------------------------ *)
(* the loops over a rendered script                                                       *)
(* ------------------------------------------------------------------------------------ *)
Definition src_lines (rv : bool) b := if rv then new_lines b else old_lines b.
Definition dst_lines (rv : bool) b := if rv then old_lines b else new_lines b.
Definition src_of_hunks (rv : bool) hs := if rv then new_of_hunks hs else old_of_hunks hs.
Definition dst_of_hunks (rv : bool) hs := if rv then old_of_hunks hs else new_of_hunks hs.
Definition sign_of (rv : bool) : byte := if rv then MINUS else PLUS.

Definition no_bsl_head (ls : list bytes) : Prop :=
  match ls with q :: _ => hd_is BSL q = false | [] => True end.

Lemma body_step_tag rv t l sl target :
  body_step (sign_of rv) (tag_byte t :: l) sl target =
  (sl + length (src_lines rv [(t, l)]), target ++ concat (dst_lines rv [(t, l)])).
Proof.
  destruct rv, t; cbn [body_step sign_of tag_byte src_lines dst_lines old_lines new_lines length concat];
    (change (byte_eqb SP MINUS) with false || change (byte_eqb SP PLUS) with false ||
     change (byte_eqb MINUS MINUS) with true || change (byte_eqb PLUS PLUS) with true ||
     change (byte_eqb PLUS MINUS) with false || change (byte_eqb MINUS PLUS) with false);
    try change (byte_eqb SP SP) with true; try change (byte_eqb MINUS SP) with false;
    try change (byte_eqb PLUS SP) with false; cbn [orb];
    rewrite ?app_nil_r, ?Nat.add_0_r; f_equal; lia.
Qed.

Lemma lines_cons rv t l b :
  src_lines rv ((t, l) :: b) = src_lines rv [(t, l)] ++ src_lines rv b /\
  dst_lines rv ((t, l) :: b) = dst_lines rv [(t, l)] ++ dst_lines rv b.
Proof. destruct rv, t; split; reflexivity. Qed.

Lemma render_body_no_bsl b rest : no_bsl_head rest -> no_bsl_head (render_body b ++ rest).
Proof.
  intro Hr. destruct b as [|[t l] b]; [exact Hr|].
  cbn [render_body]. unfold render_line. destruct (ends_nl l); cbn [app no_bsl_head hd_is]; destruct t; reflexivity.
Qed.

Lemma go_line rv src t l R sl target : wfl l -> no_bsl_head R ->
  go (render_line (t, l) ++ R) true src sl target rv =
  go R true src (sl + length (src_lines rv [(t, l)])) (target ++ concat (dst_lines rv [(t, l)])) rv.
Proof.
  intros Hl HR. unfold render_line.
  assert (Hat : hd_is AT (tag_byte t :: l) = false) by (destruct t; reflexivity).
  destruct Hl as [(body & -> & Hf)|[Hne Hf]].
  - rewrite ends_nl_app. cbn [app go]. rewrite Hat. cbn [negb andb].
    change (if rv then MINUS else PLUS) with (sign_of rv).
    destruct R as [|q R2].
    + rewrite body_step_tag. reflexivity.
    + cbn in HR. rewrite HR. rewrite body_step_tag. reflexivity.
  - rewrite (ends_nl_free l Hf). cbn [app go].
    assert (Hat2 : hd_is AT (tag_byte t :: l ++ [NL]) = false) by (destruct t; reflexivity).
    rewrite Hat2. cbn [negb andb]. change (hd_is BSL marker_line) with true. cbn iota.
    change (if rv then MINUS else PLUS) with (sign_of rv).
    change (tag_byte t :: l ++ [NL]) with ((tag_byte t :: l) ++ [NL]). rewrite removelast_snoc.
    rewrite body_step_tag. reflexivity.
Qed.

Lemma go_body rv src : forall b R sl target, wf_body b -> no_bsl_head R ->
  go (render_body b ++ R) true src sl target rv =
  go R true src (sl + length (src_lines rv b)) (target ++ concat (dst_lines rv b)) rv.
Proof.
  induction b as [|[t l] b IH]; intros R sl target Hw HR.
  - cbn [render_body app]. destruct rv; cbn [src_lines dst_lines old_lines new_lines length concat];
      now rewrite Nat.add_0_r, app_nil_r.
  - inversion Hw as [|? ? Hl Hb]; subst. cbn [snd] in Hl. cbn [render_body]. rewrite <- app_assoc.
    rewrite go_line by (try exact Hl; apply render_body_no_bsl; exact HR).
    rewrite IH by assumption.
    destruct (lines_cons rv t l b) as [-> ->].
    rewrite !app_length, !concat_app, Nat.add_assoc, app_assoc. reflexivity.
Qed.

Lemma skipn_app_len {X} (a b : list X) : skipn (length a) (a ++ b) = b.
Proof. induction a as [|x a IH]; [reflexivity|]. exact IH. Qed.
Lemma firstn_app_len {X} (a b : list X) : firstn (length a) (a ++ b) = a.
Proof. induction a as [|x a IH]; [reflexivity|]. cbn. now rewrite IH. Qed.

Lemma src_lines_len rv b :
  length (src_lines rv b) = if rv then length (new_lines b) else length (old_lines b).
Proof. destruct rv; reflexivity. Qed.

Lemma render_hunks_no_bsl hs o n : no_bsl_head (render_hunks hs o n).
Proof. destruct hs; [exact I|reflexivity]. Qed.

Lemma go_hunks rv : forall hs opos npos src pre tl target ih,
  wf_hunks hs ->
  src = pre ++ src_of_hunks rv hs ++ tl ->
  length pre = (if rv then npos else opos) ->
  go (render_hunks hs opos npos) ih src (length pre) target rv =
  Ok (target ++ concat (dst_of_hunks rv hs ++ tl)).
Proof.
  induction hs as [|h r IH]; intros opos npos src pre tl target ih Hw Hsrc Hlen.
  - cbn [render_hunks go]. subst src.
    assert (src_of_hunks rv [] = []) as -> by (destruct rv; reflexivity).
    assert (dst_of_hunks rv [] = []) as -> by (destruct rv; reflexivity).
    cbn [app]. rewrite skipn_app_len. reflexivity.
  - inversion Hw as [|h' r' Hh Hr Eh]; clear Hw.
    cbn [render_hunks].
    set (o := opos + length (gap h)). set (n := npos + length (gap h)).
    set (ol := length (old_lines (body h))). set (nl := length (new_lines (body h))).
    cbn [go].
    assert (Hat : hd_is AT (hunk_header o ol n nl) = true) by reflexivity.
    rewrite Hat. rewrite andb_false_r. rewrite parse_hdr_ok.
    assert (Hl : (if rv then hunk_start (fst (range_groups n nl)) (snd (range_groups n nl))
                  else hunk_start (fst (range_groups o ol)) (snd (range_groups o ol)))
                 = Z.of_nat (length pre + length (gap h))).
    { destruct rv; rewrite hunk_start_ok; unfold o, n; rewrite Hlen; reflexivity. }
    rewrite Hl. clear Hl.
    assert (Hsrc' : src = pre ++ gap h ++ src_lines rv (body h) ++ src_of_hunks rv r ++ tl).
    { rewrite Hsrc. destruct rv; cbn [src_of_hunks src_lines old_of_hunks new_of_hunks]; now rewrite <- !app_assoc. }
    assert (Hle : length pre + length (gap h) <= length src).
    { rewrite Hsrc'. rewrite !app_length. lia. }
    destruct (Z.gtb_spec (Z.of_nat (length pre)) (Z.of_nat (length pre + length (gap h)))) as [Hx|_]; [lia|].
    destruct (Z.gtb_spec (Z.of_nat (length pre + length (gap h))) (Z.of_nat (length src))) as [Hx|_]; [lia|].
    cbn [orb]. rewrite Nat2Z.id.
    replace (length pre + length (gap h) - length pre) with (length (gap h)) by lia.
    rewrite Hsrc' at 2. rewrite skipn_app_len, firstn_app_len.
    rewrite go_body by (try exact Hh; apply render_hunks_no_bsl).
    specialize (IH (o + ol) (n + nl) src (pre ++ gap h ++ src_lines rv (body h)) tl
                   ((target ++ concat (gap h)) ++ concat (dst_lines rv (body h))) true Hr).
    rewrite !app_length in IH. rewrite Nat.add_assoc in IH.
    rewrite IH.
    + f_equal. destruct rv; cbn [dst_of_hunks dst_lines old_of_hunks new_of_hunks];
        rewrite !concat_app, <- !app_assoc; reflexivity.
    + rewrite Hsrc'. now rewrite <- !app_assoc.
    + rewrite src_lines_len. unfold o, n, ol, nl. destruct rv; lia.
Qed.

(* ------------------------------------------------------------------------------------ *)
(* header skipping                                                                        *)
(* ------------------------------------------------------------------------------------ *)
Lemma skip_hdr_app hdr R : forallb hdr_line hdr = true ->
  match R with q :: _ => hd_is AT q = true | [] => True end ->
  skip_hdr (hdr ++ R) = R.
Proof.
  intros Hh HR. induction hdr as [|l hdr IH].
  - cbn [app]. destruct R as [|q R]; [reflexivity|]. cbn [skip_hdr].
    destruct q as [|c q]; [discriminate|]. cbn in HR. apply byte_eqb_spec in HR. subst c. reflexivity.
  - cbn [forallb] in Hh. apply andb_true_iff in Hh. destruct Hh as [Hl Hr].
    cbn [app skip_hdr]. unfold hdr_line in Hl. apply andb_true_iff in Hl. destruct Hl as [Hl _].
    apply andb_true_iff in Hl. destruct Hl as [Hl _]. rewrite Hl. apply IH. exact Hr.
Qed.

Lemma render_hunks_at_head hs o n :
  match render_hunks hs o n with q :: _ => hd_is AT q = true | [] => True end.
Proof. destruct hs; [exact I|reflexivity]. Qed.

(* ------------------------------------------------------------------------------------ *)
(* body lines of a valid script are lines                                                 *)
(* ------------------------------------------------------------------------------------ *)
Lemma wf_body_of : forall b, Forall wfl (old_lines b) -> Forall wfl (new_lines b) -> wf_body b.
Proof.
  induction b as [|[t l] b IH]; intros Ho Hn; [constructor|].
  destruct t; cbn [old_lines new_lines] in Ho, Hn.
  - inversion Ho; inversion Hn; subst. constructor; [assumption|apply IH; assumption].
  - inversion Ho; subst. constructor; [assumption|apply IH; assumption].
  - inversion Hn; subst. constructor; [assumption|apply IH; assumption].
Qed.

Lemma wf_hunks_of : forall hs, Forall wfl (old_of_hunks hs) -> Forall wfl (new_of_hunks hs) -> wf_hunks hs.
Proof.
  induction hs as [|h r IH]; intros Ho Hn; [constructor|].
  cbn [old_of_hunks new_of_hunks] in Ho, Hn.
  apply Forall_app in Ho. destruct Ho as [_ Ho]. apply Forall_app in Ho. destruct Ho as [Ho1 Ho2].
  apply Forall_app in Hn. destruct Hn as [_ Hn]. apply Forall_app in Hn. destruct Hn as [Hn1 Hn2].
  constructor; [apply wf_body_of; assumption|apply IH; assumption].
Qed.

Lemma valid_wf a b s : valid_script a b s -> wf_hunks (hunks s).
Proof.
  intros [Ho Hn]. apply wf_hunks_of.
  - assert (H : Forall wfl (old_of s)) by (rewrite Ho; apply wf_text_wfl, wf_splitlines).
    unfold old_of in H. apply Forall_app in H. apply H.
  - assert (H : Forall wfl (new_of s)) by (rewrite Hn; apply wf_text_wfl, wf_splitlines).
    unfold new_of in H. apply Forall_app in H. apply H.
Qed.

(* ------------------------------------------------------------------------------------ *)
(* main theorems                                                                          *)
(* ------------------------------------------------------------------------------------ *)
Lemma apply_generic (rv : bool) (a b : bytes) hdr s :
  forallb hdr_line hdr = true -> valid_script a b s ->
  apply_patch (if rv then b else a) (render hdr s) rv = Ok (if rv then a else b).
Proof.
  intros Hh Hv. pose proof (valid_wf a b s Hv) as Hw. destruct Hv as [Ho Hn].
  unfold apply_patch, apply_lines. rewrite splitlines_render by assumption.
  unfold render_lines. rewrite skip_hdr_app by (try exact Hh; apply render_hunks_at_head).
  pose proof (go_hunks rv (hunks s) 0 0 (splitlines (if rv then b else a)) [] (tail s) [] false Hw) as Hg.
  cbn [length app] in Hg. rewrite Hg; clear Hg.
  - cbn [app]. f_equal. destruct rv; cbn [dst_of_hunks].
    + fold (old_of s). rewrite Ho. apply concat_splitlines.
    + fold (new_of s). rewrite Hn. apply concat_splitlines.
  - cbn [app]. destruct rv; cbn [src_of_hunks]; [rewrite <- Hn|rewrite <- Ho]; reflexivity.
  - destruct rv; reflexivity.
Qed.

Lemma apply_ok a b hdr s : forallb hdr_line hdr = true -> valid_script a b s ->
  apply_patch a (render hdr s) false = Ok b.
Proof. intros Hh Hv. exact (apply_generic false a b hdr s Hh Hv). Qed.

Lemma revert_ok a b hdr s : forallb hdr_line hdr = true -> valid_script a b s ->
  apply_patch b (render hdr s) true = Ok a.
Proof. intros Hh Hv. exact (apply_generic true a b hdr s Hh Hv). Qed.

Lemma empty_patch a rv : apply_patch a [] rv = Ok a.
Proof. unfold apply_patch, apply_lines. cbn. f_equal. apply concat_splitlines. Qed.

(* a script always exists: delete every old line, add every new line *)
Definition trivial_script (a b : bytes) : script :=
  mks [mkh [] (map (fun l => (TDel, l)) (splitlines a) ++ map (fun l => (TAdd, l)) (splitlines b))] [].

Lemma old_lines_app x y : old_lines (x ++ y) = old_lines x ++ old_lines y.
Proof. induction x as [|[t l] x IH]; [reflexivity|]. destruct t; cbn [app old_lines]; rewrite ?IH; reflexivity. Qed.
Lemma new_lines_app x y : new_lines (x ++ y) = new_lines x ++ new_lines y.
Proof. induction x as [|[t l] x IH]; [reflexivity|]. destruct t; cbn [app new_lines]; rewrite ?IH; reflexivity. Qed.
Lemma old_lines_del ls : old_lines (map (fun l => (TDel, l)) ls) = ls.
Proof. induction ls; cbn; congruence. Qed.
Lemma new_lines_del ls : new_lines (map (fun l => (TDel, l)) ls) = [].
Proof. induction ls; cbn; congruence. Qed.
Lemma old_lines_add ls : old_lines (map (fun l => (TAdd, l)) ls) = [].
Proof. induction ls; cbn; congruence. Qed.
Lemma new_lines_add ls : new_lines (map (fun l => (TAdd, l)) ls) = ls.
Proof. induction ls; cbn; congruence. Qed.

Lemma trivial_valid a b : valid_script a b (trivial_script a b).
Proof.
  unfold valid_script, trivial_script, old_of, new_of, mks, mkh.
  cbn [hunks tail old_of_hunks new_of_hunks gap body app].
  rewrite old_lines_app, new_lines_app, old_lines_del, new_lines_del, old_lines_add, new_lines_add.
  rewrite !app_nil_r. split; reflexivity.
Qed.

(* ------------------------------------------------------------------------------------ *)
(* Protocol.patch after Protocol.diff                                                     *)
(* ------------------------------------------------------------------------------------ *)
(* what Protocol.diff produces for one file of [theirs]: the empty text when the file is unchanged,
   otherwise the text of an edit script from yours.get(name, '') to their text *)
Definition diff_entry (yours : list (bytes * bytes)) (d t : bytes * bytes) : Prop :=
  fst d = fst t /\
  ((snd d = [] /\ lookup (fst t) yours = snd t) \/
   (exists hdr s, forallb hdr_line hdr = true /\ valid_script (lookup (fst t) yours) (snd t) s /\
                  snd d = render hdr s)).

Lemma patch_files_ok yours : forall diff theirs,
  Forall2 (diff_entry yours) diff theirs -> patch_files yours diff = Ok theirs.
Proof.
  induction diff as [|[dn dt] diff IH]; intros theirs HF; inversion HF as [|? [tn tt] ? ? He Hr]; subst; [reflexivity|].
  cbn [patch_files]. destruct He as [Hn Hd]. cbn [fst snd] in Hn, Hd. subst tn.
  rewrite (IH _ Hr).
  destruct Hd as [[-> Hl]|(hdr & s & Hh & Hv & ->)].
  - cbn [bind]. rewrite Hl. reflexivity.
  - assert (Ha : apply_patch (lookup dn yours) (render hdr s) false = Ok tt) by (apply apply_ok; assumption).
    destruct (render hdr s) as [|c p] eqn:Er.
    + rewrite empty_patch in Ha. injection Ha as <-. reflexivity.
    + rewrite Ha. reflexivity.
Qed.

(* make_patch as an oracle with the law the harness validates on every run: identical texts give the
   empty patch, otherwise the text of a valid edit script *)
Definition make_patch_law (mk : bytes -> bytes -> bytes -> bytes) : Prop :=
  forall name a b,
    (a = b /\ mk name a b = []) \/
    (exists hdr s, forallb hdr_line hdr = true /\ valid_script a b s /\ mk name a b = render hdr s).

Lemma diff_then_patch mk yours theirs : make_patch_law mk ->
  patch_files yours (diff_files mk yours theirs) = Ok theirs.
Proof.
  intro Hmk. apply patch_files_ok. unfold diff_files.
  induction theirs as [|[n t] theirs IH]; [constructor|].
  cbn [map]. constructor; [|exact IH]. split; [reflexivity|]. cbn [fst snd].
  destruct (Hmk n (lookup n yours) t) as [[Heq Hm]|(hdr & s & Hh & Hv & Hm)].
  - left. split; [exact Hm|exact Heq].
  - right. exists hdr, s. repeat split; assumption || apply Hv.
Qed.

Lemma apply_then_revert a b hdr s : forallb hdr_line hdr = true -> valid_script a b s ->
  bind (apply_patch a (render hdr s) false) (fun t => apply_patch t (render hdr s) true) = Ok a.
Proof. intros Hh Hv. rewrite (apply_ok a b hdr s Hh Hv). cbn [bind]. apply revert_ok; assumption. Qed.
