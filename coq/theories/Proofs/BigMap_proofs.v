(* Proofs/BigMap_proofs.v — the big_map model refines a dictionary layered over the on-chain content,
   and its lazy diff, applied to the on-chain content, yields exactly that dictionary. *)
From Coq Require Import List Bool Arith Sorted Lia ZArith.
From PV Require Import Base.Bytes Base.Result Michelson.Compare Michelson.Collections Michelson.BigMap
  Proofs.Collections_proofs.
Import ListNotations.

Section BMProofs.
  Variables K V HT : Type.
  Variable eqb : K -> K -> bool.
  Variable ltb : K -> K -> bool.
  Variable heqb : HT -> HT -> bool.
  Variable kh : K -> HT.
  Variable chain : HT -> option V.
  Hypothesis KO : key_order eqb ltb.
  Hypothesis heqb_spec : forall a b, heqb a b = true <-> a = b.
  Hypothesis kh_inj : forall a b, kh a = kh b -> a = b.

  Let E := proj1 KO.
  Let I := proj1 (proj2 KO).
  Let Tr := proj1 (proj2 (proj2 KO)).
  Let To := proj2 (proj2 (proj2 KO)).

  Notation SSk := (SS K ltb).
  Notation get := (bm_get eqb kh chain).
  Notation upd := (bm_update eqb ltb kh chain).

  Definition inb (k : K) (r : list K) : bool := existsb (fun y => eqb y k) r.

  Lemma inb_In k r : inb k r = true <-> In k r.
  Proof. apply (existsb_eq_In K eqb E). Qed.

  Lemma inb_false k r : inb k r = false <-> ~ In k r.
  Proof. rewrite <- inb_In. destruct (inb k r); split; congruence. Qed.

  (* ---- the local layer as a lookup *)

  Lemma find_diff_app k (a b : list (K * option V)) :
    find_diff eqb k (a ++ b) = match find_diff eqb k a with Some o => Some o | None => find_diff eqb k b end.
  Proof.
    induction a as [|[k' o] a IH]; simpl; [reflexivity|]. destruct (eqb k' k); [reflexivity | exact IH].
  Qed.

  Lemma find_diff_items k (m : list (K * V)) :
    find_diff eqb k (map (fun kv => (fst kv, Some (snd kv))) m)
    = match map_get eqb k m with Some v => Some (Some v) | None => None end.
  Proof.
    induction m as [|[k' v] m IH]; simpl; [reflexivity|]. destruct (eqb k' k); [reflexivity | exact IH].
  Qed.

  Lemma find_diff_removed k (r : list K) :
    find_diff eqb k (map (fun x => (x, @None V)) r) = if inb k r then Some None else None.
  Proof.
    induction r as [|k' r IH]; simpl; [reflexivity|]. destruct (eqb k' k); [reflexivity | exact IH].
  Qed.

  Lemma bm_get_alt k s :
    get k s = match map_get eqb k (bm_items s) with
              | Some v => Some v
              | None => if inb k (bm_removed s) then None else chain (kh k)
              end.
  Proof.
    unfold bm_get, bm_iter. rewrite find_diff_app, find_diff_items, find_diff_removed.
    destruct (map_get eqb k (bm_items s)); [reflexivity|]. destruct (inb k (bm_removed s)); reflexivity.
  Qed.

  (* ---- removed keys as a set *)

  Lemma rm_set_In k r : In k (rm_set eqb r) <-> In k r.
  Proof.
    induction r as [|x r IH]; simpl; [tauto|].
    destruct (existsb (fun y => eqb y x) r) eqn:X.
    - apply (existsb_eq_In K eqb E) in X. rewrite IH. split; [tauto|]. intros [->|H]; assumption.
    - simpl. rewrite IH. tauto.
  Qed.

  Lemma rm_set_NoDup r : NoDup (rm_set eqb r).
  Proof.
    induction r as [|x r IH]; simpl; [constructor|].
    destruct (existsb (fun y => eqb y x) r) eqn:X; [exact IH|].
    constructor; [|exact IH]. rewrite rm_set_In. intro H. apply (existsb_eq_In K eqb E) in H. congruence.
  Qed.

  Lemma rm_set_id r : NoDup r -> rm_set eqb r = r.
  Proof.
    induction r as [|x r IH]; simpl; intro N; [reflexivity|]. inversion N; subst.
    destruct (existsb (fun y => eqb y x) r) eqn:X.
    - apply (existsb_eq_In K eqb E) in X. contradiction.
    - rewrite IH by assumption. reflexivity.
  Qed.

  Lemma rm_add_In k x r : In x (rm_add eqb k r) <-> x = k \/ In x r.
  Proof.
    unfold rm_add. destruct (existsb (fun y => eqb y k) r) eqn:X; simpl; [|intuition].
    apply (existsb_eq_In K eqb E) in X. split; [tauto|]. intros [->|H]; assumption.
  Qed.

  Lemma rm_add_NoDup k r : NoDup r -> NoDup (rm_add eqb k r).
  Proof.
    intro N. unfold rm_add. destruct (existsb (fun y => eqb y k) r) eqn:X; [exact N|].
    constructor; [|exact N]. intro H. apply (existsb_eq_In K eqb E) in H. congruence.
  Qed.

  Lemma rm_del_In k x r : In x (rm_del eqb k r) <-> x <> k /\ In x r.
  Proof.
    unfold rm_del. rewrite filter_In, negb_true_iff, (eqb_false K eqb E). tauto.
  Qed.

  Lemma rm_del_NoDup k r : NoDup r -> NoDup (rm_del eqb k r).
  Proof. intro N. apply NoDup_filter, N. Qed.

  (* ---- invariant: items sorted, removed duplicate-free and disjoint from the items *)

  Definition inv (s : bigmap K V) : Prop :=
    SSk (keys (bm_items s)) /\ NoDup (bm_removed s) /\
    (forall k, In k (bm_removed s) -> ~ In k (keys (bm_items s))).

  Lemma filter_keys_In k x (m : list (K * V)) :
    In x (keys (filter (fun kv => negb (eqb (fst kv) k)) m)) <-> x <> k /\ In x (keys m).
  Proof.
    rewrite (keys_filter K V (fun k' => negb (eqb k' k))), filter_In, negb_true_iff, (eqb_false K eqb E). tauto.
  Qed.

  Lemma filter_SS k (m : list (K * V)) : SSk (keys m) -> SSk (keys (filter (fun kv => negb (eqb (fst kv) k)) m)).
  Proof. intro S. rewrite (keys_filter K V (fun k' => negb (eqb k' k))). apply SS_filter, S. Qed.

  Lemma insert_keys_SS k v (m : list (K * V)) : SSk (keys m) -> ~ In k (keys m) ->
    SSk (keys (sorted_by ltb fst (m ++ [(k, v)]))).
  Proof.
    intros S N. unfold keys. apply (sorted_by_SS K ltb Tr To). rewrite map_app. simpl.
    apply NoDup_snoc; [apply (SS_NoDup K ltb I), S | exact N].
  Qed.

  Lemma insert_keys_In k v x (m : list (K * V)) :
    In x (keys (sorted_by ltb fst (m ++ [(k, v)]))) <-> x = k \/ In x (keys m).
  Proof.
    unfold keys. rewrite !in_map_iff. split.
    - intros [[k' v'] [<- H]]. apply sorted_by_In, in_app_or in H. destruct H as [H|[H|[]]].
      + right. exists (k', v'). split; [reflexivity | exact H].
      + injection H as -> ->. left. reflexivity.
    - intros [->|[[k' v'] [<- H]]].
      + exists (k, v). split; [reflexivity|]. apply sorted_by_In, in_or_app. right. left. reflexivity.
      + exists (k', v'). split; [reflexivity|]. apply sorted_by_In, in_or_app. left. exact H.
  Qed.

  Lemma bm_update_inv k vo s : inv s -> inv (snd (upd k vo s)).
  Proof.
    intros [S [N D]]. unfold bm_update. simpl. rewrite (rm_set_id _ N).
    destruct (get k s) as [pv|] eqn:G; destruct vo as [v|]; unfold inv; simpl.
    - split; [|split; [exact N|]].
      + apply insert_keys_SS; [apply filter_SS, S|]. rewrite filter_keys_In. tauto.
      + intros x Hx. rewrite insert_keys_In, filter_keys_In. intros [->|[_ H]].
        * rewrite bm_get_alt in G. destruct (map_get eqb k (bm_items s)) eqn:M.
          -- pose proof (proj2 (map_get_None K V eqb E k (bm_items s)) (D k Hx)) as X. congruence.
          -- apply inb_In in Hx. rewrite Hx in G. discriminate.
        * exact (D x Hx H).
    - split; [apply filter_SS, S|]. split; [apply rm_add_NoDup, N|].
      intros x Hx. rewrite filter_keys_In. apply rm_add_In in Hx. destruct Hx as [->|Hx]; [tauto|].
      intros [_ H]. exact (D x Hx H).
    - assert (NK : ~ In k (keys (bm_items s))).
      { rewrite bm_get_alt in G. destruct (map_get eqb k (bm_items s)) eqn:M; [discriminate|].
        apply (map_get_None K V eqb E), M. }
      split; [apply insert_keys_SS; assumption|]. split; [apply rm_del_NoDup, N|].
      intros x Hx. apply rm_del_In in Hx. destruct Hx as [Hne Hx].
      rewrite insert_keys_In. intros [->|H]; [congruence | exact (D x Hx H)].
    - split; [exact S|]. split; assumption.
  Qed.

  (* ---- refinement of one step *)

  Lemma inb_ext k a b : (In k a <-> In k b) -> inb k a = inb k b.
  Proof.
    intro X. destruct (inb k a) eqn:A, (inb k b) eqn:B; try reflexivity.
    - apply inb_In in A. apply X, inb_In in A. congruence.
    - apply inb_In in B. apply X, inb_In in B. congruence.
  Qed.

  Lemma eqb_refl' k : eqb k k = true.
  Proof. apply E. reflexivity. Qed.

  Lemma bm_update_get k vo s k' : inv s ->
    get k' (snd (upd k vo s)) = d_update eqb k vo (fun x => get x s) k'.
  Proof.
    intros [S [N D]]. unfold d_update. rewrite (bm_get_alt k' (snd (upd k vo s))).
    unfold bm_update. simpl. rewrite (rm_set_id _ N).
    destruct (get k s) as [pv|] eqn:G; destruct vo as [v|]; simpl.
    - rewrite (map_get_insert_new K V eqb ltb E I Tr To).
      + destruct (eqb k' k) eqn:X; [reflexivity|].
        rewrite (map_get_filter K V eqb E), X. symmetry. apply bm_get_alt.
      + apply filter_SS, S.
      + rewrite (map_get_filter K V eqb E), eqb_refl'. reflexivity.
    - rewrite (map_get_filter K V eqb E). destruct (eqb k' k) eqn:X.
      + apply E in X. subst k'. rewrite (proj2 (inb_In k (rm_add eqb k (bm_removed s)))); [reflexivity|].
        apply rm_add_In. left. reflexivity.
      + rewrite (bm_get_alt k' s). destruct (map_get eqb k' (bm_items s)); [reflexivity|].
        rewrite (inb_ext k' (rm_add eqb k (bm_removed s)) (bm_removed s)); [reflexivity|].
        rewrite rm_add_In. apply (eqb_false K eqb E) in X. tauto.
    - assert (M : map_get eqb k (bm_items s) = None).
      { rewrite bm_get_alt in G. destruct (map_get eqb k (bm_items s)); [discriminate | reflexivity]. }
      rewrite (map_get_insert_new K V eqb ltb E I Tr To) by assumption.
      destruct (eqb k' k) eqn:X; [reflexivity|].
      rewrite (bm_get_alt k' s). destruct (map_get eqb k' (bm_items s)); [reflexivity|].
      rewrite (inb_ext k' (rm_del eqb k (bm_removed s)) (bm_removed s)); [reflexivity|].
      rewrite rm_del_In. apply (eqb_false K eqb E) in X. tauto.
    - destruct (eqb k' k) eqn:X.
      + apply E in X. subst k'. rewrite <- bm_get_alt. exact G.
      + symmetry. apply bm_get_alt.
  Qed.

  (* ---- histories *)

  Notation run := (bm_run eqb ltb kh chain).
  Notation step := (bm_step eqb ltb kh chain).

  Definition refines (s : bigmap K V) (d : K -> option V) : Prop :=
    inv s /\ forall k, get k s = d k.

  Lemma bm_step_refines s d op : refines s d -> refines (step s op) (eff_step eqb d op).
  Proof.
    intros [Iv R]. destruct op as [k vo|k vo]; cbn [bm_step eff_step]; (split; [apply bm_update_inv, Iv|]);
      intro k'; rewrite bm_update_get by exact Iv; unfold d_update; rewrite R; reflexivity.
  Qed.

  Lemma bm_init_refines lit : SSk (keys lit) -> refines (bm_init lit) (eff0 eqb kh chain lit).
  Proof.
    intro S. split.
    - split; [exact S|]. split; [constructor | intros k []].
    - intro k. rewrite bm_get_alt. unfold eff0. simpl. reflexivity.
  Qed.

  Lemma bm_run_refines lit ops : SSk (keys lit) -> refines (run lit ops) (eff eqb kh chain lit ops).
  Proof.
    intro S. unfold bm_run, eff.
    assert (G : forall ops s d, refines s d -> refines (fold_left step ops s) (fold_left (eff_step eqb) ops d)).
    { clear ops. induction ops as [|o ops IH]; simpl; intros s d R; [exact R|]. apply IH, bm_step_refines, R. }
    apply G, bm_init_refines, S.
  Qed.

  (* every GET / MEM / GET_AND_UPDATE observation after any history is the layered dictionary's *)
  Lemma bm_get_refines lit ops k : SSk (keys lit) -> get k (run lit ops) = eff eqb kh chain lit ops k.
  Proof. intro S. apply (bm_run_refines lit ops S). Qed.

  Lemma bm_mem_refines lit ops k : SSk (keys lit) ->
    bm_mem eqb kh chain k (run lit ops) = match eff eqb kh chain lit ops k with Some _ => true | None => false end.
  Proof. intro S. unfold bm_mem. rewrite bm_get_refines by exact S. reflexivity. Qed.

  Lemma bm_gau_prev lit ops k vo : SSk (keys lit) ->
    fst (upd k vo (run lit ops)) = eff eqb kh chain lit ops k.
  Proof. intro S. simpl. apply bm_get_refines, S. Qed.

  Lemma bm_run_inv lit ops : SSk (keys lit) -> inv (run lit ops).
  Proof. intro S. apply (bm_run_refines lit ops S). Qed.

  (* ---- the lazy diff *)

  Lemma updates_hash (s : bigmap K V) : Forall (fun u => u_hash u = kh (u_key u)) (bm_updates kh s).
  Proof.
    unfold bm_updates. apply Forall_app. split; apply Forall_forall; intros u Hu;
      apply in_map_iff in Hu; destruct Hu as [x [<- _]]; reflexivity.
  Qed.

  (* lookup in an update list by key *)
  Fixpoint find_upd (k : K) (us : list (update K V HT)) : option (option V) :=
    match us with
    | [] => None
    | u :: r => if eqb (u_key u) k then Some (u_val u) else find_upd k r
    end.

  Lemma find_upd_app k a b :
    find_upd k (a ++ b) = match find_upd k a with Some o => Some o | None => find_upd k b end.
  Proof. induction a as [|u a IH]; simpl; [reflexivity|]. destruct (eqb (u_key u) k); [reflexivity | exact IH]. Qed.

  Lemma find_upd_updates k s :
    find_upd k (bm_updates kh s) =
    match map_get eqb k (bm_items s) with
    | Some v => Some (Some v)
    | None => if inb k (bm_removed s) then Some None else None
    end.
  Proof.
    unfold bm_updates. rewrite find_upd_app.
    assert (A : forall m : list (K * V),
              find_upd k (map (fun kv => {| u_key := fst kv; u_hash := kh (fst kv); u_val := Some (snd kv) |}) m)
              = match map_get eqb k m with Some v => Some (Some v) | None => None end).
    { induction m as [|[k0 v0] m IH]; simpl; [reflexivity|]. destruct (eqb k0 k); [reflexivity | exact IH]. }
    assert (B : forall r : list K,
              find_upd k (map (fun x => {| u_key := x; u_hash := kh x; u_val := @None V |}) r)
              = if inb k r then Some None else None).
    { induction r as [|k0 r IH]; simpl; [reflexivity|]. destruct (eqb k0 k); [reflexivity | exact IH]. }
    rewrite A, B. destruct (map_get eqb k (bm_items s)); reflexivity.
  Qed.

  (* applying updates whose keys are pairwise distinct: the entry for a key, if any, decides *)
  Lemma apply_updates_find us : forall st k,
    NoDup (map (@u_key K V HT) us) -> Forall (fun u => u_hash u = kh (u_key u)) us ->
    apply_updates heqb us st (kh k) = match find_upd k us with Some o => o | None => st (kh k) end.
  Proof.
    induction us as [|u us IH]; intros st k N F; simpl; [reflexivity|].
    inversion N; subst. inversion F; subst.
    unfold apply_updates in *. simpl. rewrite IH by assumption.
    destruct (eqb (u_key u) k) eqn:X.
    - apply E in X. subst k.
      assert (Z : find_upd (u_key u) us = None).
      { clear - H1 E. induction us as [|w us IH]; simpl; [reflexivity|].
        destruct (eqb (u_key w) (u_key u)) eqn:Y.
        - apply E in Y. exfalso. apply H1. left. exact Y.
        - apply IH. intro X. apply H1. right. exact X. }
      rewrite Z. unfold apply_update. rewrite (proj2 (heqb_spec _ _)); [reflexivity | symmetry; assumption].
    - destruct (find_upd k us); [reflexivity|]. unfold apply_update.
      destruct (heqb (kh k) (u_hash u)) eqn:Y; [|reflexivity].
      apply heqb_spec in Y. rewrite H3 in Y. apply kh_inj in Y. subst k. rewrite eqb_refl' in X. discriminate.
  Qed.

  Lemma updates_keys_NoDup s : inv s -> NoDup (map (@u_key K V HT) (bm_updates kh s)).
  Proof.
    intros [S [N D]]. unfold bm_updates. rewrite map_app, !List.map_map. simpl.
    assert (A : map (fun x : K * V => fst x) (bm_items s) = keys (bm_items s)) by reflexivity.
    rewrite A, map_id.
    apply (SS_NoDup K ltb I) in S.
    clear A. induction (keys (bm_items s)) as [|x l IH]; simpl; [exact N|].
    inversion S; subst. constructor.
    - rewrite in_app_iff. intros [X|X]; [contradiction|]. apply (D x X). left. reflexivity.
    - apply IH; [assumption|]. intros k Hk Hin. apply (D k Hk). right. exact Hin.
  Qed.

  (* the diff of a big_map value, applied to the on-chain store, gives what GET returns for every key *)
  Lemma diff_applies_state s k : inv s ->
    apply_updates heqb (bm_updates kh s) chain (kh k) = get k s.
  Proof.
    intro Iv. rewrite apply_updates_find; [|apply updates_keys_NoDup, Iv | apply updates_hash].
    rewrite find_upd_updates, bm_get_alt.
    destruct (map_get eqb k (bm_items s)); [reflexivity|]. destruct (inb k (bm_removed s)); reflexivity.
  Qed.

  Lemma diff_applies lit ops k : SSk (keys lit) ->
    apply_updates heqb (bm_updates kh (run lit ops)) chain (kh k) = eff eqb kh chain lit ops k.
  Proof.
    intro S. rewrite diff_applies_state by (apply bm_run_inv, S). apply bm_get_refines, S.
  Qed.

  (* hashes that belong to no key of the diff are left alone *)
  Lemma diff_frame (us : list (update K V HT)) : forall st h, (forall u, In u us -> u_hash u <> h) -> apply_updates heqb us st h = st h.
  Proof.
    induction us as [|u us IH]; intros st h Hn; [reflexivity|].
    unfold apply_updates in *. simpl. rewrite IH by (intros w Hw; apply Hn; right; exact Hw).
    unfold apply_update. destruct (heqb h (u_hash u)) eqn:Y; [|reflexivity].
    apply heqb_spec in Y. exfalso. apply (Hn u); [left; reflexivity | congruence].
  Qed.
End BMProofs.

(* the script form executed by the correspondence run: its final state is the history's state, and
   each recorded observation is bm_get / bm_mem / the previous value at the state reached so far *)
Lemma bm_script_state T khtbl chtbl is : forall s,
  snd (bm_script T khtbl chtbl s is)
  = fold_left (bm_step (py_eq T) (py_lt T) (lookup_val khtbl) (lookup_hash chtbl)) (bm_ops_of is) s.
Proof.
  induction is as [|i is IH]; intro s; [reflexivity|].
  destruct i; simpl; rewrite IH; reflexivity.
Qed.

Lemma bm_script_obs T khtbl chtbl i is s :
  fst (bm_script T khtbl chtbl s (i :: is)) =
  match i with
  | BIUpdate k vo => fst (bm_script T khtbl chtbl (snd (bm_update (py_eq T) (py_lt T) (lookup_val khtbl) (lookup_hash chtbl) k vo s)) is)
  | BIGetAndUpdate k vo =>
      BOOpt (fst (bm_update (py_eq T) (py_lt T) (lookup_val khtbl) (lookup_hash chtbl) k vo s))
      :: fst (bm_script T khtbl chtbl (snd (bm_update (py_eq T) (py_lt T) (lookup_val khtbl) (lookup_hash chtbl) k vo s)) is)
  | BIGet k => BOOpt (bm_get (py_eq T) (lookup_val khtbl) (lookup_hash chtbl) k s) :: fst (bm_script T khtbl chtbl s is)
  | BIMem k => BOBool (bm_mem (py_eq T) (lookup_val khtbl) (lookup_hash chtbl) k s) :: fst (bm_script T khtbl chtbl s is)
  end.
Proof. destruct i; reflexivity. Qed.


(* ================================================================ the store of big_map values *)
Section StoreProofs.
  Variables K V HT : Type.
  Variable eqb : K -> K -> bool.
  Variable ltb : K -> K -> bool.
  Variable kh : K -> HT.
  Variable chain : Z -> HT -> option V.
  Hypothesis KO : key_order eqb ltb.

  (* a slot refines its own dictionary: same id, well-formed layer, GET = the dictionary *)
  Definition slot_rel (b : bmv K V) (d : sdict K V) : Prop :=
    bv_id b = fst d /\ inv K V ltb (bv_map b) /\ forall k, bv_get eqb kh chain k b = snd d k.

  Lemma Forall2_set_nth {A B} (R : A -> B -> Prop) i x y : forall l l',
    Forall2 R l l' -> R x y -> Forall2 R (set_nth i x l) (set_nth i y l').
  Proof.
    induction i as [|i IH]; intros l l' F Rxy; destruct F as [|a b l l' Rab F]; simpl; try constructor; auto.
  Qed.

  Lemma Forall2_del_nth {A B} (R : A -> B -> Prop) i : forall l l',
    Forall2 R l l' -> Forall2 R (del_nth i l) (del_nth i l').
  Proof.
    induction i as [|i IH]; intros l l' F; destruct F as [|a b l l' Rab F]; simpl; try constructor; auto.
  Qed.

  Lemma Forall2_nth_error {A B} (R : A -> B -> Prop) l l' : Forall2 R l l' -> forall i,
    match nth_error l i, nth_error l' i with
    | Some a, Some b => R a b
    | None, None => True
    | _, _ => False
    end.
  Proof.
    induction 1 as [|a b l l' Rab F IH]; intros [|i]; simpl; auto. apply IH.
  Qed.

  Lemma slot_update b d k vo : slot_rel b d ->
    slot_rel (snd (bv_update eqb ltb kh chain k vo b)) (fst d, d_update eqb k vo (snd d)) /\
    fst (bv_update eqb ltb kh chain k vo b) = snd d k.
  Proof.
    intros [Hid [Iv R]]. unfold bv_update, slot_rel, bv_get in *. cbv zeta. cbn [fst snd bv_id bv_map].
    split; [split; [exact Hid|split]|].
    - apply (bm_update_inv K V HT eqb ltb kh (chain (bv_id b)) KO), Iv.
    - intro k'. rewrite (bm_update_get K V HT eqb ltb kh (chain (bv_id b)) KO) by exact Iv.
      unfold d_update. rewrite R. reflexivity.
    - apply R.
  Qed.

  Lemma s_step_refines st sp op : Forall2 slot_rel st sp ->
    Forall2 slot_rel (s_step eqb ltb kh chain st op) (sd_step eqb sp op).
  Proof.
    intro F. destruct op as [i k vo|i|i]; simpl.
    - pose proof (Forall2_nth_error _ _ _ F i) as N.
      destruct (nth_error st i) as [b|], (nth_error sp i) as [d|]; try contradiction; [|exact F].
      apply Forall2_set_nth; [exact F | apply slot_update, N].
    - pose proof (Forall2_nth_error _ _ _ F i) as N.
      destruct (nth_error st i) as [b|], (nth_error sp i) as [d|]; try contradiction; [|exact F].
      apply Forall2_app; [exact F | constructor; [exact N | constructor]].
    - apply Forall2_del_nth, F.
  Qed.

  Lemma slot_init id lit : SS K ltb (keys lit) ->
    slot_rel {| bv_id := id; bv_map := bm_init lit |} (sd_init eqb kh chain id lit).
  Proof.
    intro S. destruct (bm_init_refines K V HT eqb ltb kh (chain id) lit S) as [Iv R].
    split; [reflexivity | split; [exact Iv | exact R]].
  Qed.

  (* any history over any number of big_map values, with DUPs and DROPs: every value still answers like
     its own dictionary (copies are independent of each other, ids do not interfere) *)
  Lemma store_refines ops : forall st sp, Forall2 slot_rel st sp ->
    Forall2 slot_rel (fold_left (s_step eqb ltb kh chain) ops st) (fold_left (sd_step eqb) ops sp).
  Proof.
    induction ops as [|o ops IH]; intros st sp F; simpl; [exact F|]. apply IH, s_step_refines, F.
  Qed.
End StoreProofs.

Lemma xs_script_state T khtbl chains is : forall st,
  snd (xs_script T khtbl chains st is)
  = fold_left (s_step (py_eq T) (py_lt T) (lookup_val khtbl) (lookup_chain chains))
      (ops_of xs_op is) st.
Proof.
  induction is as [|i is IH]; intro st; [reflexivity|].
  cbn [xs_script snd ops_of]. rewrite IH. destruct (xs_op i); reflexivity.
Qed.
