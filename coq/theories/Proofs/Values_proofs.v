(* Proofs/Values_proofs.v — lemmas about Michelson/Values.v.
   Main result [roundtrip]: for every type, every well-typed value and each of the three modes,
   of_mich t (to_mich m v) = Ok v — by structural induction on the type; the induction carries a
   second statement about right combs (a pair is also read back from the SEQUENCE of its comb
   leaves), which is what makes combs of every length go through.
   The Base58Check text functions are an arbitrary [codec] satisfying [codec_ok]; [real_codec_ok]
   shows that the real functions (Codec/Base58.v over any 32-byte-valued sha256 and the pinned
   table) satisfy it. *)
From Coq Require Import String List ZArith NArith Bool Arith Lia.
From Coq.Strings Require Import Byte.
From PV Require Import Base.Bytes Base.Result Codec.Micheline Codec.MichelineBin Codec.Base58 Codec.Domain
  Michelson.Timestamp Michelson.Values Proofs.Timestamp_proofs Proofs.Base58_proofs Proofs.Domain_proofs.
Import ListNotations.
Local Open Scope list_scope.

(* ---------------------------------------------------------------- laws of the text codec *)

Definition b58_chars (s : bytes) : Prop := Forall (fun c => digit_of_char c <> None) s.

Record codec_ok (C : codec) : Prop := {
  addr_rt : forall a, wf_address a -> addr_of_txt C (addr_txt C a) = Ok a;
  addr_chars : forall a, wf_address a -> b58_chars (addr_txt C a);
  key_rt : forall k, wf_public_key k -> key_of_txt C (key_txt C k) = Ok k;
  sig_rt : forall raw, (List.length raw = 64 \/ List.length raw = 96)%nat -> sig_of_txt C (sig_txt C raw) = Ok raw;
  cid_rt : forall c, List.length c = 4%nat -> cid_of_txt C (cid_txt C c) = Ok c
}.

(* ---------------------------------------------------------------- little-endian integers *)

Lemma N_to_le_length w n : List.length (N_to_le w n) = w.
Proof. revert n. induction w as [|w IH]; intro n; [reflexivity|]. cbn [N_to_le List.length]. rewrite IH. reflexivity. Qed.

Lemma le_to_N_to_le w n : le_to_N (N_to_le w n) = (n mod 256 ^ N.of_nat w)%N.
Proof.
  revert n. induction w as [|w IH]; intro n.
  - cbn [N_to_le le_to_N]. change (256 ^ N.of_nat 0)%N with 1%N. rewrite N.mod_1_r. reflexivity.
  - cbn [N_to_le le_to_N]. rewrite IH, to_N_b8.
    rewrite Nat2N.inj_succ, N.pow_succ_r'.
    rewrite N.mod_mul_r by (try apply N.pow_nonzero; discriminate). reflexivity.
Qed.

(* ---------------------------------------------------------------- generic helpers *)

Lemma map_result_map {A B} (f : B -> result A) (g : A -> B) l :
  Forall (fun x => f (g x) = Ok x) l -> map_result f (map g l) = Ok l.
Proof.
  induction 1 as [|x l Hx Hl IH]; [reflexivity|].
  cbn [map map_result]. rewrite Hx. cbn [bind]. rewrite IH. reflexivity.
Qed.

Lemma bytes_eqb_false a b : a <> b -> bytes_eqb a b = false.
Proof. intro H. destruct (bytes_eqb a b) eqn:E; [|reflexivity]. apply bytes_eqb_spec in E. contradiction. Qed.

Section Proofs.
  Variable C : codec.
  Variable lam_norm : node -> result node.
  Hypothesis HC : codec_ok C.

  Notation to_mich := (to_mich C).
  Notation of_mich := (of_mich C lam_norm).
  Notation has_type := (has_type lam_norm).

  (* ---------------------------------------------------------------- shape of to_mich *)

  (* the leaves of the right comb of a value *)
  Fixpoint comb (m : mode) (v : val) : list node :=
    match v with
    | VPair a b => to_mich m a :: comb m b
    | _ => [to_mich m v]
    end.

  Lemma snd_tm m v : m <> LegacyOptimized -> snd (tm C m v) = comb m v.
  Proof.
    intro Hm. induction v; try reflexivity.
    cbn [tm comb]. destruct m; [| |congruence]; cbn [snd]; rewrite IHv2; reflexivity.
  Qed.

  Lemma to_mich_pair m a b :
    m <> LegacyOptimized -> to_mich m (VPair a b) = pair_node m (to_mich m a :: comb m b).
  Proof.
    intro Hm. unfold Values.to_mich. cbn [tm].
    destruct m; [| |congruence]; cbn [fst]; rewrite (snd_tm _ b Hm); reflexivity.
  Qed.

  Lemma to_mich_pair_legacy a b :
    to_mich LegacyOptimized (VPair a b)
    = NPrim T_Pair [to_mich LegacyOptimized a; to_mich LegacyOptimized b] [].
  Proof. reflexivity. Qed.

  Lemma to_mich_list m l : to_mich m (VList l) = NSeq (map (to_mich m) l).
  Proof.
    unfold Values.to_mich. cbn [tm fst]. reflexivity.
  Qed.

  Definition elt_node (m : mode) (e : val * val) : node :=
    NPrim T_Elt [to_mich m (fst e); to_mich m (snd e)] [].

  Lemma to_mich_map m l : to_mich m (VMap l) = NSeq (map (elt_node m) l).
  Proof.
    unfold Values.to_mich. cbn [tm fst]. f_equal.
    induction l as [|[k x] l IH]; [reflexivity|]. cbn [map]. rewrite <- IH. reflexivity.
  Qed.

  Lemma comb_not_pair m v :
    (forall a b, v <> VPair a b) -> comb m v = [to_mich m v].
  Proof. intro H. destruct v; try reflexivity. exfalso. eapply H. reflexivity. Qed.

  Lemma comb_pair_shape m a b : exists c cs, comb m (VPair a b) = to_mich m a :: c :: cs.
  Proof.
    cbn [comb]. destruct b; cbn [comb]; eexists; eexists; reflexivity.
  Qed.

  Lemma pair_or_not (v : val) : (exists a b, v = VPair a b) \/ (forall a b, v <> VPair a b).
  Proof. destruct v; try (right; intros; discriminate). left. eexists; eexists; reflexivity. Qed.

  (* ---------------------------------------------------------------- reading pairs *)

  Definition read_pair (a b : ty) (args : list node) : result val :=
    match args with
    | [x; y] => let* va := of_mich a x in let* vb := of_mich b y in Ok (VPair va vb)
    | x :: ((_ :: _ :: _) as rest) =>
        let* va := of_mich a x in let* vb := of_mich b (NSeq rest) in Ok (VPair va vb)
    | _ => Reject
    end.

  Lemma of_mich_pair_seq a b args : of_mich (TPair a b) (NSeq args) = read_pair a b args.
  Proof. reflexivity. Qed.

  Lemma of_mich_pair_prim a b args annots :
    of_mich (TPair a b) (NPrim T_Pair args annots) = read_pair a b args.
  Proof. reflexivity. Qed.

  (* ---------------------------------------------------------------- scalars *)

  Lemma eqb_len {A} (l : list A) n : Nat.eqb (List.length l) n = true -> List.length l = n.
  Proof. apply Nat.eqb_eq. Qed.

  Lemma ep_text_cases ep (txt : bytes) :
    b58_chars txt -> ep_ok ep = true ->
    before_pct (txt ++ ep_text ep) = txt /\ ep_of_str (txt ++ ep_text ep) = ep.
  Proof.
    intros Ht He. unfold ep_of_str. destruct ep as [e|]; cbn [ep_text]; unfold c_pct.
    - destruct (before_pct_no_pct txt e Ht) as [B A]. rewrite B, A. split; [reflexivity|].
      unfold ep_ok in He. rewrite !andb_true_iff in He. destruct He as [[_ H2] _].
      cbn [norm_ep]. apply negb_true_iff in H2. rewrite H2. reflexivity.
    - rewrite app_nil_r. destruct (before_pct_none txt Ht) as [B A]. rewrite B, A. split; reflexivity.
  Qed.

  Lemma addr_readable cls a ep :
    addr_ok cls a ep = true ->
    addr_of_text C cls (addr_txt C a ++ ep_text ep) = Ok (VAddr a ep).
  Proof.
    unfold addr_ok. rewrite !andb_true_iff. intros [[Hl Hk] He]. apply eqb_len in Hl.
    destruct (ep_text_cases ep _ (addr_chars C HC a Hl) He) as [B E].
    unfold addr_of_text. rewrite B, (addr_rt C HC a Hl). cbn [bind]. rewrite Hk, E. reflexivity.
  Qed.

  Lemma ep_bytes_ok ep : ep_ok ep = true ->
    ep_bytes ep = match ep with Some e => e | None => [] end.
  Proof.
    destruct ep as [e|]; [|reflexivity]. unfold ep_ok. rewrite !andb_true_iff. intros [[H1 H2] _].
    destruct e as [|c e]; [discriminate H1|]. cbn [ep_bytes]. apply negb_true_iff in H2. rewrite H2. reflexivity.
  Qed.

  Lemma firstn_app_len {A} (a b : list A) n : List.length a = n -> firstn n (a ++ b) = a.
  Proof. intros <-. rewrite firstn_app, Nat.sub_diag, firstn_all. cbn [firstn]. apply app_nil_r. Qed.

  Lemma skipn_app_len {A} (a b : list A) n : List.length a = n -> skipn n (a ++ b) = b.
  Proof. intros <-. rewrite skipn_app, Nat.sub_diag, skipn_all. reflexivity. Qed.

  Lemma addr_optimized cls a ep :
    addr_ok cls a ep = true ->
    addr_of_bytes cls (forge_address false a ++ ep_bytes ep) = Ok (VAddr a ep).
  Proof.
    unfold addr_ok. rewrite !andb_true_iff. intros [[Hl Hk] He]. apply eqb_len in Hl.
    pose proof (length_forge_address_false a Hl) as L.
    unfold addr_of_bytes. rewrite (firstn_app_len _ _ 22 L), (unforge_forge_address a Hl). cbn [bind].
    rewrite (skipn_app_len _ _ 22 L), app_length, L, (ep_bytes_ok ep He), Hk.
    destruct ep as [e|].
    - unfold ep_ok in He. rewrite !andb_true_iff in He. destruct He as [[H1 H2] H3].
      rewrite H3. cbn [andb]. destruct e as [|c e]; [discriminate H1|].
      replace (Nat.ltb 22 (22 + List.length (c :: e))) with true
        by (symmetry; apply Nat.ltb_lt; cbn [List.length]; lia).
      cbn [norm_ep]. apply negb_true_iff in H2. rewrite H2. reflexivity.
    - cbn [List.length]. replace (Nat.ltb 22 (22 + 0)) with false by (symmetry; apply Nat.ltb_ge; lia).
      reflexivity.
  Qed.

  Lemma of_addr_roundtrip cls m a ep :
    addr_ok cls a ep = true -> of_addr C cls (to_mich m (VAddr a ep)) = Ok (VAddr a ep).
  Proof.
    intro H. destruct m; unfold Values.to_mich; cbn [tm fst addr_node of_addr];
      [apply addr_readable | apply addr_optimized | apply addr_optimized]; exact H.
  Qed.

  Lemma fr_roundtrip z m :
    (0 <=? z)%Z && (z <? fr_modulus)%Z = true -> of_mich TBlsFr (to_mich m (VBlsFr z)) = Ok (VBlsFr z).
  Proof.
    rewrite andb_true_iff. intros [H1 H2]. apply Z.leb_le in H1. apply Z.ltb_lt in H2.
    assert (Hm : (z mod fr_modulus = z)%Z) by (apply Z.mod_small; lia).
    assert (Hopt : of_mich TBlsFr (NByt (N_to_le 32 (Z.to_N z))) = Ok (VBlsFr z)).
    { cbn [Values.of_mich]. rewrite N_to_le_length. cbn [Nat.leb].
      rewrite le_to_N_to_le. rewrite N.mod_small.
      - rewrite Z2N.id by lia. rewrite Hm. reflexivity.
      - apply N2Z.inj_lt. rewrite Z2N.id by lia.
        eapply Z.lt_trans; [exact H2|]. vm_compute. reflexivity. }
    destruct m; unfold Values.to_mich; cbn [tm fst]; try exact Hopt.
    cbn [Values.of_mich]. rewrite Hm. reflexivity.
  Qed.

  Lemma ts_roundtrip z m : of_mich TTimestamp (to_mich m (VTimestamp z)) = Ok (VTimestamp z).
  Proof.
    destruct m; unfold Values.to_mich; cbn [tm fst]; try reflexivity.
    destruct (in_rfc_range z) eqn:E; [|reflexivity].
    cbn [Values.of_mich]. rewrite parse_ts_render by (apply in_rfc_range_spec; exact E). reflexivity.
  Qed.

  (* ---------------------------------------------------------------- the induction *)

  Definition RT (t : ty) : Prop :=
    forall v, has_type t v = true ->
      (forall m, of_mich t (to_mich m v) = Ok v) /\
      (forall m a b, v = VPair a b -> m <> LegacyOptimized -> of_mich t (NSeq (comb m v)) = Ok v).

  Ltac no_pair := (intros ? ? ? E; discriminate E).

  Lemma rt_pair a b : RT a -> RT b -> RT (TPair a b).
  Proof.
    intros IHa IHb v H. destruct v; try discriminate H. rename v1 into x, v2 into y.
    cbn [Values.has_type] in H. apply andb_true_iff in H. destruct H as [Hx Hy].
    destruct (IHa x Hx) as [Ax _]. destruct (IHb y Hy) as [By1 By2].
    (* reading the pair back from the sequence of its comb leaves *)
    assert (P2 : forall m, m <> LegacyOptimized ->
                           read_pair a b (to_mich m x :: comb m y) = Ok (VPair x y)).
    { intros m Hm. destruct (pair_or_not y) as [(y1 & y2 & ->)|Hn].
      - destruct (comb_pair_shape m y1 y2) as (c & cs & Ec).
        pose proof (By2 m y1 y2 eq_refl Hm) as R. rewrite Ec in *.
        cbn [read_pair]. rewrite Ax. cbn [bind]. rewrite R. reflexivity.
      - rewrite (comb_not_pair m y Hn). cbn [read_pair]. rewrite Ax, By1. reflexivity. }
    split.
    - intro m. destruct m.
      + rewrite to_mich_pair by discriminate. cbn [pair_node].
        rewrite of_mich_pair_prim. apply P2. discriminate.
      + rewrite to_mich_pair by discriminate.
        destruct (pair_or_not y) as [(y1 & y2 & ->)|Hn].
        * destruct (pair_or_not y2) as [(y21 & y22 & ->)|Hn2].
          -- destruct (comb_pair_shape Optimized y21 y22) as (c & cs & Ec).
             assert (E : pair_node Optimized (to_mich Optimized x :: comb Optimized (VPair y1 (VPair y21 y22)))
                         = NSeq (to_mich Optimized x :: comb Optimized (VPair y1 (VPair y21 y22)))).
             { cbn [comb] in *. rewrite Ec. reflexivity. }
             rewrite E, of_mich_pair_seq. apply P2. discriminate.
          -- cbn [comb]. rewrite (comb_not_pair _ y2 Hn2). cbn [pair_node].
             rewrite of_mich_pair_prim. cbn [read_pair]. rewrite Ax. cbn [bind].
             pose proof (By1 Optimized) as R. rewrite to_mich_pair in R by discriminate.
             cbn [comb] in R. rewrite (comb_not_pair _ y2 Hn2) in R. cbn [pair_node] in R.
             rewrite R. reflexivity.
        * rewrite (comb_not_pair _ y Hn). cbn [pair_node].
          rewrite of_mich_pair_prim. cbn [read_pair]. rewrite Ax, By1. reflexivity.
      + rewrite to_mich_pair_legacy, of_mich_pair_prim. cbn [read_pair]. rewrite Ax, By1. reflexivity.
    - intros m x' y' E Hm. injection E as <- <-. rewrite of_mich_pair_seq. cbn [comb]. apply P2, Hm.
  Qed.

  Lemma rt_list_items a l m :
    RT a -> forallb (has_type a) l = true ->
    map_result (of_mich a) (map (to_mich m) l) = Ok l.
  Proof.
    intros IH H. apply map_result_map. rewrite forallb_forall in H.
    apply Forall_forall. intros x Hx. apply (proj1 (IH x (H x Hx))).
  Qed.

  Lemma rt_ticket t : RT t -> RT (TTicket t).
  Proof.
    intros IH v H. destruct v; try discriminate H. cbn [Values.has_type] in H.
    rewrite !andb_true_iff in H. destruct H as [[Ha Hx] Hz].
    split; [|intros ? ? ? E; discriminate E]. intro m.
    pose proof (of_addr_roundtrip AnyAddress m a ep Ha) as A.
    change (Values.to_mich C m (VAddr a ep)) with (addr_node C m a ep) in A.
    pose proof (proj1 (IH v Hx) m) as X. unfold Values.to_mich in X.
    destruct m; unfold Values.to_mich; cbn [tm fst]; cbn [Values.of_mich pair_args];
      change (byte_eqb T_Pair T_Pair) with true; cbv iota; cbn [pair_args];
      try (change (byte_eqb T_Pair T_Pair) with true; cbv iota);
      rewrite A, X; cbn [ticket_of bind]; rewrite Hz; reflexivity.
  Qed.

  Lemma roundtrip_all : forall t, RT t.
  Proof.
    induction t; try (intros v H; destruct v; discriminate H).
    - (* unit *) intros v H; destruct v; try discriminate H. split; [intro m; destruct m; reflexivity | no_pair].
    - (* bool *) intros v H; destruct v; try discriminate H.
      split; [intro m; destruct b; destruct m; reflexivity | no_pair].
    - (* int *) intros v H; destruct v; try discriminate H. split; [intro m; destruct m; reflexivity | no_pair].
    - (* nat *) intros v H; destruct v; try discriminate H. cbn [Values.has_type] in H.
      split; [|no_pair]. intro m. assert (E : to_mich m (VInt z) = NInt z) by (destruct m; reflexivity).
      rewrite E. cbn [Values.of_mich]. rewrite H. reflexivity.
    - (* mutez *) intros v H; destruct v; try discriminate H. cbn [Values.has_type] in H.
      split; [|no_pair]. intro m. assert (E : to_mich m (VInt z) = NInt z) by (destruct m; reflexivity).
      rewrite E. cbn [Values.of_mich]. rewrite H. reflexivity.
    - (* timestamp *) intros v H; destruct v; try discriminate H. split; [intro m; apply ts_roundtrip | no_pair].
    - (* string *) intros v H; destruct v; try discriminate H. cbn [Values.has_type] in H.
      split; [|no_pair]. intro m. assert (E : to_mich m (VString s) = NStr s) by (destruct m; reflexivity).
      rewrite E. cbn [Values.of_mich]. rewrite H. reflexivity.
    - (* bytes *) intros v H; destruct v; try discriminate H. split; [intro m; destruct m; reflexivity | no_pair].
    - (* bls fr *) intros v H; destruct v; try discriminate H. cbn [Values.has_type] in H.
      split; [intro m; apply fr_roundtrip; exact H | no_pair].
    - (* g1 *) intros v H; destruct v; try discriminate H. split; [intro m; destruct m; reflexivity | no_pair].
    - (* g2 *) intros v H; destruct v; try discriminate H. split; [intro m; destruct m; reflexivity | no_pair].
    - (* chest *) intros v H; destruct v; try discriminate H. split; [intro m; destruct m; reflexivity | no_pair].
    - (* chest_key *) intros v H; destruct v; try discriminate H. split; [intro m; destruct m; reflexivity | no_pair].
    - (* address *) intros v H; destruct v; try discriminate H. cbn [Values.has_type] in H.
      split; [intro m; apply (of_addr_roundtrip AnyAddress); exact H | no_pair].
    - (* contract *) intros v H; destruct v; try discriminate H. cbn [Values.has_type] in H.
      split; [intro m; apply (of_addr_roundtrip AnyAddress); exact H | no_pair].
    - (* txr *) intros v H; destruct v; try discriminate H. cbn [Values.has_type] in H.
      split; [intro m; apply (of_addr_roundtrip TxrAddress); exact H | no_pair].
    - (* key *) intros v H; destruct v; try discriminate H. cbn [Values.has_type] in H. apply eqb_len in H.
      split; [|no_pair]. intro m. destruct m; unfold Values.to_mich; cbn [tm fst Values.of_mich].
      + rewrite (key_rt C HC k H). reflexivity.
      + rewrite (unforge_forge_public_key k H). reflexivity.
      + rewrite (unforge_forge_public_key k H). reflexivity.
    - (* key_hash *) intros v H; destruct v; try discriminate H. cbn [Values.has_type] in H.
      apply andb_true_iff in H. destruct H as [Hl Hi]. apply eqb_len in Hl.
      split; [|no_pair]. intro m. destruct m; unfold Values.to_mich; cbn [tm fst Values.of_mich].
      + rewrite (addr_rt C HC a Hl). cbn [bind]. rewrite Hi. reflexivity.
      + change (forge_address true a) with (forge_key_hash a).
        rewrite (unforge_forge_key_hash a Hl Hi). reflexivity.
      + change (forge_address true a) with (forge_key_hash a).
        rewrite (unforge_forge_key_hash a Hl Hi). reflexivity.
    - (* signature *) intros v H; destruct v; try discriminate H. cbn [Values.has_type] in H.
      apply orb_true_iff in H.
      assert (Hopt : of_mich TSignature (NByt raw) = Ok (VSig raw)).
      { cbn [Values.of_mich]. unfold unforge_signature.
        destruct H as [H|H]; rewrite H; [reflexivity|].
        destruct (Nat.eqb (List.length raw) 64); reflexivity. }
      split; [|no_pair]. intro m. destruct m; unfold Values.to_mich; cbn [tm fst]; try exact Hopt.
      cbn [Values.of_mich]. rewrite (sig_rt C HC raw); [reflexivity|].
      destruct H as [H|H]; apply eqb_len in H; [left|right]; exact H.
    - (* chain id *) intros v H; destruct v; try discriminate H. cbn [Values.has_type] in H.
      split; [|no_pair]. intro m. destruct m; unfold Values.to_mich; cbn [tm fst Values.of_mich].
      + rewrite (cid_rt C HC c (eqb_len _ _ H)). reflexivity.
      + unfold unforge_chain_id. rewrite H. reflexivity.
      + unfold unforge_chain_id. rewrite H. reflexivity.
    - (* option *) intros v H; destruct v; try discriminate H.
      + split; [intro m; destruct m; reflexivity | no_pair].
      + cbn [Values.has_type] in H. destruct (IHt v H) as [A _]. split; [|no_pair].
        intro m. assert (E : to_mich m (VSome v) = NPrim T_Some [to_mich m v] []) by (destruct m; reflexivity).
        rewrite E. cbn [Values.of_mich]. change (byte_eqb T_Some T_Some) with true. cbv iota.
        rewrite A. reflexivity.
    - (* or *) intros v H; destruct v; try discriminate H; cbn [Values.has_type] in H.
      + destruct (IHt1 v H) as [A _]. split; [|no_pair].
        intro m. assert (E : to_mich m (VLeft v) = NPrim T_Left [to_mich m v] []) by (destruct m; reflexivity).
        rewrite E. cbn [Values.of_mich]. change (byte_eqb T_Left T_Left) with true. cbv iota.
        rewrite A. reflexivity.
      + destruct (IHt2 v H) as [A _]. split; [|no_pair].
        intro m. assert (E : to_mich m (VRight v) = NPrim T_Right [to_mich m v] []) by (destruct m; reflexivity).
        rewrite E. cbn [Values.of_mich]. change (byte_eqb T_Right T_Left) with false.
        change (byte_eqb T_Right T_Right) with true. cbv iota.
        rewrite A. reflexivity.
    - (* pair *) apply rt_pair; assumption.
    - (* list *) intros v H; destruct v; try discriminate H. cbn [Values.has_type] in H.
      split; [|no_pair]. intro m. rewrite to_mich_list. cbn [Values.of_mich].
      rewrite (rt_list_items t l m IHt H). reflexivity.
    - (* set *) intros v H; destruct v; try discriminate H. cbn [Values.has_type] in H.
      apply andb_true_iff in H. destruct H as [H S].
      split; [|no_pair]. intro m. rewrite to_mich_list. cbn [Values.of_mich].
      rewrite (rt_list_items t l m IHt H). cbn [bind]. rewrite S. reflexivity.
    - (* map *) intros v H; destruct v; try discriminate H. cbn [Values.has_type] in H.
      apply andb_true_iff in H. destruct H as [H S].
      split; [|no_pair]. intro m. rewrite to_mich_map. cbn [Values.of_mich].
      rewrite map_result_map.
      + cbn [bind]. rewrite S. reflexivity.
      + rewrite forallb_forall in H. apply Forall_forall. intros [k x] He.
        specialize (H _ He). cbn [fst snd] in H. apply andb_true_iff in H. destruct H as [Hk Hx].
        unfold elt_node. cbn [fst snd elt_parts]. change (byte_eqb T_Elt T_Elt) with true. cbv iota.
        cbn [bind fst snd].
        rewrite (proj1 (IHt1 k Hk) m). cbn [bind]. rewrite (proj1 (IHt2 x Hx) m). reflexivity.
    - (* lambda *) intros v H; destruct v; try discriminate H. cbn [Values.has_type] in H.
      destruct code; try discriminate H.
      split; [|no_pair]. intro m.
      assert (E : to_mich m (VLambda (NSeq items)) = NSeq items) by (destruct m; reflexivity).
      rewrite E. cbn [Values.of_mich].
      destruct (lam_norm (NSeq items)) as [c|]; [|discriminate H].
      cbn [result_eqb] in H. apply node_eqb_spec in H. subst c. reflexivity.
    - (* big_map *) intros v H; destruct v; try discriminate H; cbn [Values.has_type] in H.
      + (* literal *) apply andb_true_iff in H. destruct H as [H S].
        split; [|no_pair]. intro m. rewrite to_mich_map. cbn [Values.of_mich].
        rewrite map_result_map.
        * cbn [bind]. rewrite S. reflexivity.
        * rewrite forallb_forall in H. apply Forall_forall. intros [k x] He.
          specialize (H _ He). cbn [fst snd] in H. apply andb_true_iff in H. destruct H as [Hk Hx].
          unfold elt_node. cbn [fst snd elt_parts]. change (byte_eqb T_Elt T_Elt) with true. cbv iota.
          cbn [bind fst snd].
          rewrite (proj1 (IHt1 k Hk) m). cbn [bind]. rewrite (proj1 (IHt2 x Hx) m). reflexivity.
      + (* id *) split; [intro m; destruct m; reflexivity | no_pair].
    - (* ticket *) apply rt_ticket; assumption.
  Qed.

  Theorem roundtrip m t v : has_type t v = true -> of_mich t (to_mich m v) = Ok v.
  Proof. intro H. apply (proj1 (roundtrip_all t v H)). Qed.

  (* two values of a type with the same rendering are equal *)
  Lemma to_mich_injective m t v1 v2 :
    has_type t v1 = true -> has_type t v2 = true -> to_mich m v1 = to_mich m v2 -> v1 = v2.
  Proof.
    intros H1 H2 E. pose proof (roundtrip m t v1 H1) as R1. pose proof (roundtrip m t v2 H2) as R2.
    rewrite E in R1. congruence.
  Qed.

  (* the comb rule, stated on its own: a right comb of n leaves *)
  Lemma comb_length_ge_2 m a b : (2 <= List.length (comb m (VPair a b)))%nat.
  Proof. destruct (comb_pair_shape m a b) as (c & cs & ->). cbn [List.length]. lia. Qed.

  Lemma comb_rule_readable a b :
    to_mich Readable (VPair a b) = NPrim T_Pair (comb Readable (VPair a b)) [].
  Proof. rewrite to_mich_pair by discriminate. reflexivity. Qed.

  Lemma comb_rule_legacy a b :
    to_mich LegacyOptimized (VPair a b)
    = NPrim T_Pair [to_mich LegacyOptimized a; to_mich LegacyOptimized b] [].
  Proof. reflexivity. Qed.

  Lemma comb_rule_optimized a b :
    to_mich Optimized (VPair a b) =
      match comb Optimized (VPair a b) with
      | [x; y] => NPrim T_Pair [x; y] []
      | [x; y; z] => NPrim T_Pair [x; NPrim T_Pair [y; z] []] []
      | leaves => NSeq leaves
      end.
  Proof.
    rewrite to_mich_pair by discriminate. cbn [comb pair_node].
    destruct (comb Optimized b) as [|y [|z [|w r]]]; reflexivity.
  Qed.

  Lemma comb_rule_optimized_seq a b :
    (4 <= List.length (comb Optimized (VPair a b)))%nat ->
    to_mich Optimized (VPair a b) = NSeq (comb Optimized (VPair a b)).
  Proof.
    intro H. rewrite comb_rule_optimized.
    destruct (comb Optimized (VPair a b)) as [|x [|y [|z [|w r]]]]; cbn [List.length] in H; try lia. reflexivity.
  Qed.

  Lemma comb_rule_all a b :
    (2 <= List.length (comb Optimized (VPair a b)))%nat /\
    to_mich Readable (VPair a b) = NPrim T_Pair (comb Readable (VPair a b)) [] /\
    to_mich LegacyOptimized (VPair a b)
      = NPrim T_Pair [to_mich LegacyOptimized a; to_mich LegacyOptimized b] [] /\
    to_mich Optimized (VPair a b) =
      match comb Optimized (VPair a b) with
      | [x; y] => NPrim T_Pair [x; y] []
      | [x; y; z] => NPrim T_Pair [x; NPrim T_Pair [y; z] []] []
      | leaves => NSeq leaves
      end.
  Proof.
    split; [apply comb_length_ge_2|]. split; [apply comb_rule_readable|].
    split; [apply comb_rule_legacy | apply comb_rule_optimized].
  Qed.

  Lemma ts_readable_form (z : Z) :
    (let '(y, _, _) := civil_from_days (z / 86400) in (1000 <= y <= 9999)%Z) ->
    to_mich Readable (VTimestamp z) = NStr (render_rfc z).
  Proof.
    intro H. apply format_is_rfc_iff_year in H. unfold Values.to_mich. cbn [tm fst]. rewrite H. reflexivity.
  Qed.

  Lemma ts_integer_form (z : Z) :
    ~ (let '(y, _, _) := civil_from_days (z / 86400) in (1000 <= y <= 9999)%Z) ->
    to_mich Readable (VTimestamp z) = NInt z.
  Proof.
    intro H. unfold Values.to_mich. cbn [tm fst].
    destruct (in_rfc_range z) eqn:E; [|reflexivity]. exfalso. apply H, format_is_rfc_iff_year, E.
  Qed.
End Proofs.

(* ---------------------------------------------------------------- the real codec satisfies the laws *)

Section RealCodec.
  Variable sha256 : bytes -> bytes.
  Hypothesis Hsha : sha_ok sha256.

  Lemma decode_kinded_encode {K} (kinds : list K) (tp : K -> bytes) k p s :
    kind_of_tpre kinds tp (tp k) = Some k ->
    base58_encode sha256 table43 p (tp k) = Ok s ->
    decode_kinded sha256 table43 kinds tp s = Ok (k, p).
  Proof.
    intros Hk He.
    destruct (any_prefix_and_length sha256 table43 Hsha table43_ok _ _ _ He) as (r & Hin & Htp & _ & Hlen & Hpre).
    destruct (table_ok_split _ table43_ok) as [_ Hu].
    rewrite <- Htp in Hpre.
    pose proof (find_dec_unique table43 Hu r s Hin Hlen Hpre) as Hf.
    unfold decode_kinded. rewrite Hf, Htp, Hk.
    rewrite (any_roundtrip sha256 table43 Hsha table43_ok _ _ _ He). reflexivity.
  Qed.

  Lemma encode_defined43 p tp n :
    List.length p = n ->
    (if find_enc table43 (repeat x00 n) tp then true else false) = true ->
    exists s, base58_encode sha256 table43 p tp = Ok s.
  Proof.
    intros Hl Hf. unfold base58_encode.
    rewrite (find_enc_length_only table43 p (repeat x00 n)) by (rewrite repeat_length; exact Hl).
    destruct (find_enc table43 (repeat x00 n) tp); [eexists; reflexivity | discriminate Hf].
  Qed.

  Lemma real_codec_ok : codec_ok (real_codec sha256 table43).
  Proof.
    constructor; cbn [addr_txt addr_of_txt key_txt key_of_txt sig_txt sig_of_txt cid_txt cid_of_txt real_codec].
    - intros a Ha. destruct (address_text_defined sha256 table43 domain_rows43 a Ha) as [s Hs].
      rewrite Hs. cbn [unres]. destruct a as [k h]. unfold address_text in Hs. cbn [fst snd] in Hs.
      apply decode_kinded_encode; [destruct k; reflexivity | exact Hs].
    - intros a Ha. destruct (address_text_defined sha256 table43 domain_rows43 a Ha) as [s Hs].
      rewrite Hs. cbn [unres]. exact (address_text_chars sha256 table43 a s Hs).
    - intros k Hk. destruct (public_key_text_defined sha256 table43 domain_rows43 k Hk) as [s Hs].
      rewrite Hs. cbn [unres]. destruct k as [kk p]. unfold public_key_text in Hs. cbn [fst snd] in Hs.
      apply decode_kinded_encode; [destruct kk; reflexivity | exact Hs].
    - intros raw Hl. unfold signature_text. cbn [fst snd]. unfold generic_sig_kind.
      destruct Hl as [Hl|Hl]; rewrite Hl; cbn [Nat.eqb].
      + destruct (encode_defined43 raw (sig_tpre Sig) 64 Hl eq_refl) as [s Hs]. rewrite Hs. cbn [unres].
        rewrite (decode_kinded_encode all_sig_kinds sig_tpre Sig raw s eq_refl Hs). reflexivity.
      + destruct (encode_defined43 raw (sig_tpre BLsig) 96 Hl eq_refl) as [s Hs]. rewrite Hs. cbn [unres].
        rewrite (decode_kinded_encode all_sig_kinds sig_tpre BLsig raw s eq_refl Hs). reflexivity.
    - intros c Hl. unfold chain_id_text.
      destruct (encode_defined43 c (tx "Net") 4 Hl eq_refl) as [s Hs]. rewrite Hs. cbn [unres].
      rewrite (decode_kinded_encode [tt] (fun _ => tx "Net") tt c s eq_refl Hs). reflexivity.
  Qed.
End RealCodec.

(* ---------------------------------------------------------------- the known finding C11/empty-entrypoint *)

Lemma empty_entrypoint_changes C lam :
  let v := VAddr (KT1, repeat x00 20) (Some []) in
  of_mich C lam TAddress (to_mich C Optimized v) = Ok (VAddr (KT1, repeat x00 20) None) /\
  of_mich C lam TAddress (to_mich C LegacyOptimized v) = Ok (VAddr (KT1, repeat x00 20) None) /\
  has_type lam TAddress v = false.
Proof. repeat split; vm_compute; reflexivity. Qed.

(* ---------------------------------------------------------------- what from_micheline_value builds is well typed
   (so the round trip covers every value pytezos can construct from Micheline, except addresses
   spelt with an empty entrypoint) *)

(* every string of a Micheline tree is valid UTF-8 (Python str) *)
Fixpoint str_utf8 (n : node) : bool :=
  match n with
  | NStr s => utf8_valid s
  | NPrim _ args _ => (fix go (l : list node) : bool :=
                         match l with [] => true | x :: r => str_utf8 x && go r end) args
  | NSeq l => (fix go (l : list node) : bool :=
                 match l with [] => true | x :: r => str_utf8 x && go r end) l
  | _ => true
  end.

(* no address-like value with a present but empty entrypoint part ("KT1...%") *)
Fixpoint no_empty_ep (v : val) : bool :=
  match v with
  | VAddr _ (Some []) => false
  | VTicket _ (Some []) _ _ => false
  | VTicket _ _ x _ => no_empty_ep x
  | VSome a | VLeft a | VRight a => no_empty_ep a
  | VPair a b => no_empty_ep a && no_empty_ep b
  | VList l => (fix go (l : list val) : bool :=
                  match l with [] => true | x :: r => no_empty_ep x && go r end) l
  | VMap l => (fix go (l : list (val * val)) : bool :=
                 match l with [] => true | (k, x) :: r => no_empty_ep k && no_empty_ep x && go r end) l
  | _ => true
  end.

Record codec_sound (C : codec) : Prop := {
  addr_snd : forall s a, addr_of_txt C s = Ok a -> wf_address a;
  key_snd : forall s k, key_of_txt C s = Ok k -> wf_public_key k;
  sig_snd : forall s raw, sig_of_txt C s = Ok raw -> (List.length raw = 64 \/ List.length raw = 96)%nat;
  cid_snd : forall s c, cid_of_txt C s = Ok c -> List.length c = 4%nat
}.

Lemma str_utf8_seq l : str_utf8 (NSeq l) = forallb str_utf8 l.
Proof. cbn [str_utf8]. induction l as [|x l IH]; [reflexivity|]. cbn [forallb]. rewrite <- IH. reflexivity. Qed.

Lemma str_utf8_prim t l a : str_utf8 (NPrim t l a) = forallb str_utf8 l.
Proof. cbn [str_utf8]. induction l as [|x l IH]; [reflexivity|]. cbn [forallb]. rewrite <- IH. reflexivity. Qed.

Lemma no_empty_ep_list l : no_empty_ep (VList l) = forallb no_empty_ep l.
Proof. cbn [no_empty_ep]. induction l as [|x l IH]; [reflexivity|]. cbn [forallb]. rewrite <- IH. reflexivity. Qed.

Lemma no_empty_ep_map l :
  no_empty_ep (VMap l) = forallb (fun e => no_empty_ep (fst e) && no_empty_ep (snd e)) l.
Proof.
  cbn [no_empty_ep]. induction l as [|[k x] l IH]; [reflexivity|]. cbn [forallb fst snd]. rewrite <- IH. reflexivity.
Qed.

(* the part of a valid UTF-8 string after the first '%' is valid UTF-8 *)
Lemma high_not_pct b : (128 <= Byte.to_N b)%N -> byte_eqb b x25 = false.
Proof.
  intro H. destruct (byte_eqb b x25) eqn:E; [|reflexivity].
  apply byte_eqb_spec in E. subst b. vm_compute in H. exfalso. apply H. reflexivity.
Qed.

Lemma in_range_high lo hi b : (128 <= lo)%N -> in_range lo hi b = true -> byte_eqb b x25 = false.
Proof.
  intros Hlo H. unfold in_range in H. apply andb_true_iff in H. destruct H as [H _].
  apply N.leb_le in H. apply high_not_pct. lia.
Qed.

Lemma utf8_after_pct_aux : forall n s e, (List.length s <= n)%nat ->
  utf8_valid s = true -> after_pct s = Some e -> utf8_valid e = true.
Proof.
  induction n as [|n IH]; intros s e Hl Hu Ha.
  - destruct s; [discriminate Ha | cbn [List.length] in Hl; lia].
  - destruct s as [|a r]; [discriminate Ha|]. cbn [List.length] in Hl.
    cbn [utf8_valid] in Hu. cbn [after_pct] in Ha.
    destruct (Byte.to_N a <? 128)%N eqn:E1.
    + destruct (byte_eqb a x25); [injection Ha as <-; exact Hu|]. apply (IH r e); [lia|exact Hu|exact Ha].
    + assert (Ea : byte_eqb a x25 = false) by (apply high_not_pct; apply N.ltb_ge in E1; exact E1).
      rewrite Ea in Ha.
      destruct (Byte.to_N a <? 194)%N; [discriminate Hu|].
      destruct (Byte.to_N a <? 224)%N.
      { destruct r as [|b r']; [discriminate Hu|]. apply andb_true_iff in Hu. destruct Hu as [Hb Hu].
        cbn [after_pct] in Ha. rewrite (in_range_high 128 191 b ltac:(lia) Hb) in Ha.
        apply (IH r' e); [cbn [List.length] in Hl; lia|exact Hu|exact Ha]. }
      destruct (Byte.to_N a <? 240)%N.
      { destruct r as [|b [|c r']]; try discriminate Hu.
        rewrite !andb_true_iff in Hu. destruct Hu as [[Hb Hc] Hu].
        assert (Eb : byte_eqb b x25 = false).
        { destruct (Byte.to_N a =? 224)%N; [apply (in_range_high 160 191 b ltac:(lia) Hb)|].
          destruct (Byte.to_N a =? 237)%N; [apply (in_range_high 128 159 b ltac:(lia) Hb)|].
          apply (in_range_high 128 191 b ltac:(lia) Hb). }
        cbn [after_pct] in Ha. rewrite Eb, (in_range_high 128 191 c ltac:(lia) Hc) in Ha.
        apply (IH r' e); [cbn [List.length] in Hl; lia|exact Hu|exact Ha]. }
      destruct (Byte.to_N a <? 245)%N; [|discriminate Hu].
      destruct r as [|b [|c [|d r']]]; try discriminate Hu.
      rewrite !andb_true_iff in Hu. destruct Hu as [[[Hb Hc] Hd] Hu].
      assert (Eb : byte_eqb b x25 = false).
      { destruct (Byte.to_N a =? 240)%N; [apply (in_range_high 144 191 b ltac:(lia) Hb)|].
        destruct (Byte.to_N a =? 244)%N; [apply (in_range_high 128 143 b ltac:(lia) Hb)|].
        apply (in_range_high 128 191 b ltac:(lia) Hb). }
      cbn [after_pct] in Ha.
      rewrite Eb, (in_range_high 128 191 c ltac:(lia) Hc), (in_range_high 128 191 d ltac:(lia) Hd) in Ha.
      apply (IH r' e); [cbn [List.length] in Hl; lia|exact Hu|exact Ha].
Qed.

Lemma utf8_after_pct s e : utf8_valid s = true -> after_pct s = Some e -> utf8_valid e = true.
Proof. apply (utf8_after_pct_aux (List.length s)). lia. Qed.

Lemma map_result_inv {A B} (f : A -> result B) : forall l l',
  map_result f l = Ok l' -> Forall2 (fun x y => f x = Ok y) l l'.
Proof.
  induction l as [|x l IH]; intros l' H; cbn [map_result] in H.
  - injection H as <-. constructor.
  - destruct (f x) as [y|] eqn:E; [|discriminate H]. cbn [bind] in H.
    destruct (map_result f l) as [ys|] eqn:E2; [|discriminate H]. cbn [bind] in H.
    injection H as <-. constructor; [exact E | apply IH; reflexivity].
Qed.

Section Soundness.
  Variable C : codec.
  Variable lam_norm : node -> result node.
  Hypothesis HS : codec_sound C.
  (* the instruction parser returns sequences in normal form *)
  Hypothesis lam_idem : forall n c, lam_norm n = Ok c -> lam_norm c = Ok c /\ exists l, c = NSeq l.

  Notation of_mich := (of_mich C lam_norm).
  Notation has_type := (has_type lam_norm).

  Lemma ep_ok_norm o :
    match o with Some e => utf8_valid e = true | None => True end ->
    match norm_ep o with Some [] => False | _ => True end ->
    ep_ok (norm_ep o) = true.
  Proof.
    destruct o as [e|]; [|reflexivity]. cbn [norm_ep]. intros Hu Hn.
    destruct (bytes_eqb e default_name) eqn:E; [reflexivity|].
    cbn [ep_ok]. rewrite E, Hu. destruct e; [contradiction|reflexivity].
  Qed.

  Lemma addr_nonempty a o : no_empty_ep (VAddr a o) = true -> match o with Some [] => False | _ => True end.
  Proof. destruct o as [[|c e]|]; cbn [no_empty_ep]; intro H; try exact I. discriminate H. Qed.

  Lemma of_addr_sound cls n v :
    str_utf8 n = true -> of_addr C cls n = Ok v -> no_empty_ep v = true ->
    exists a ep, v = VAddr a ep /\ addr_ok cls a ep = true.
  Proof.
    intros Hu H Hn. destruct n; try discriminate H; cbn [of_addr] in H.
    - unfold addr_of_text in H. destruct (addr_of_txt C (before_pct s)) as [a|] eqn:E; [|discriminate H].
      cbn [bind] in H. destruct (class_admits cls (fst a)) eqn:Ek; [|discriminate H].
      injection H as <-. exists a, (ep_of_str s). split; [reflexivity|].
      unfold addr_ok. rewrite Ek. pose proof (addr_snd C HS _ _ E) as W. unfold wf_address in W. rewrite W.
      cbn [Nat.eqb andb]. unfold ep_of_str in *. apply ep_ok_norm.
      + destruct (after_pct s) as [e|] eqn:Ea; [|exact I]. cbn [str_utf8] in Hu. exact (utf8_after_pct s e Hu Ea).
      + apply (addr_nonempty a). exact Hn.
    - unfold addr_of_bytes in H. destruct (unforge_address (firstn 22 b)) as [a|] eqn:E; [|discriminate H].
      cbn [bind] in H.
      destruct (utf8_valid (skipn 22 b) && class_admits cls (fst a)) eqn:Ek; [|discriminate H].
      apply andb_true_iff in Ek. destruct Ek as [Eu Ek]. injection H as <-.
      eexists; eexists. split; [reflexivity|].
      unfold addr_ok. rewrite Ek. destruct (unforge_address_sound _ _ E) as [W _]. unfold wf_address in W. rewrite W.
      cbn [Nat.eqb andb]. apply ep_ok_norm.
      + destruct (Nat.ltb 22 (List.length b)); [exact Eu|exact I].
      + apply (addr_nonempty a). exact Hn.
  Qed.

  Lemma pair_args_utf8 n args : pair_args n = Some args -> str_utf8 n = true -> forallb str_utf8 args = true.
  Proof.
    destruct n; try discriminate; cbn [pair_args].
    - destruct (byte_eqb tag T_Pair); [|discriminate]. intros [= <-]. rewrite str_utf8_prim. exact (fun H => H).
    - intros [= <-]. rewrite str_utf8_seq. exact (fun H => H).
  Qed.

  Lemma ticket_of_inv ra ri z v :
    ticket_of ra ri z = Ok v ->
    exists a ep i k, ra = Ok (VAddr a ep) /\ ri = Ok i /\ z = NInt k /\ (0 <=? k)%Z = true /\ v = VTicket a ep i k.
  Proof.
    unfold ticket_of. destruct ra as [va|]; [|discriminate]. destruct ri as [vi|]; [|discriminate]. cbn [bind].
    destruct va; try discriminate. destruct z; try discriminate.
    destruct (0 <=? z)%Z eqn:E; [|discriminate]. intros [= <-].
    repeat eexists; try reflexivity. exact E.
  Qed.

  Definition PW (t : ty) : Prop :=
    forall n v, str_utf8 n = true -> of_mich t n = Ok v -> no_empty_ep v = true -> has_type t v = true.

  Lemma pw_items a items l :
    PW a -> forallb str_utf8 items = true -> map_result (of_mich a) items = Ok l ->
    forallb no_empty_ep l = true -> forallb (has_type a) l = true.
  Proof.
    intros IH Hu H Hn. apply map_result_inv in H.
    induction H as [|x y items l Hxy _ IHl]; [reflexivity|].
    cbn [forallb] in *. apply andb_true_iff in Hu. destruct Hu as [Hu1 Hu2].
    apply andb_true_iff in Hn. destruct Hn as [Hn1 Hn2].
    rewrite (IH x y Hu1 Hxy Hn1). apply IHl; assumption.
  Qed.

  Ltac bytes_like n H := destruct n; try discriminate H; injection H as <-; reflexivity.

  Lemma parsed_well_typed : forall t, PW t.
  Proof.
    induction t; intros n v Hu H Hn; cbn [Values.of_mich] in H; try discriminate H.
    - (* unit *) destruct (is_prim0 T_Unit n); [injection H as <-; reflexivity|discriminate H].
    - (* bool *) destruct (is_prim0 T_True n); [injection H as <-; reflexivity|].
      destruct (is_prim0 T_False n); [injection H as <-; reflexivity|discriminate H].
    - (* int *) destruct n; try discriminate H. injection H as <-. reflexivity.
    - (* nat *) destruct n; try discriminate H. destruct (0 <=? z)%Z eqn:E; [|discriminate H].
      injection H as <-. exact E.
    - (* mutez *) destruct n; try discriminate H.
      destruct ((0 <=? z)%Z && (z <? 2 ^ 63)%Z) eqn:E; [|discriminate H]. injection H as <-. exact E.
    - (* timestamp *) destruct n; try discriminate H.
      + injection H as <-. reflexivity.
      + destruct (parse_ts s); [|discriminate H]. injection H as <-. reflexivity.
    - (* string *) destruct n; try discriminate H. destruct (is_ascii s) eqn:E; [|discriminate H].
      injection H as <-. exact E.
    - (* bytes *) bytes_like n H.
    - (* fr *) assert (B : forall z, ((0 <=? z mod fr_modulus) && (z mod fr_modulus <? fr_modulus))%Z = true).
      { intro z. pose proof (Z.mod_pos_bound z fr_modulus ltac:(reflexivity)) as [B1 B2].
        apply andb_true_iff. split; [apply Z.leb_le; exact B1 | apply Z.ltb_lt; exact B2]. }
      destruct n; try discriminate H.
      + injection H as <-. apply B.
      + destruct (Nat.leb (List.length b) 32); [|discriminate H]. injection H as <-. apply B.
    - (* g1 *) bytes_like n H.
    - (* g2 *) bytes_like n H.
    - (* chest *) bytes_like n H.
    - (* chest_key *) bytes_like n H.
    - (* address *) destruct (of_addr_sound AnyAddress n v Hu H Hn) as (a & ep & -> & Hok). exact Hok.
    - (* contract *) destruct (of_addr_sound AnyAddress n v Hu H Hn) as (a & ep & -> & Hok). exact Hok.
    - (* txr *) destruct (of_addr_sound TxrAddress n v Hu H Hn) as (a & ep & -> & Hok). exact Hok.
    - (* key *) destruct n; try discriminate H.
      + destruct (key_of_txt C s) as [k|] eqn:E; [|discriminate H]. injection H as <-.
        cbn [Values.has_type]. apply Nat.eqb_eq. exact (key_snd C HS _ _ E).
      + destruct (unforge_public_key b) as [k|] eqn:E; [|discriminate H]. injection H as <-.
        cbn [Values.has_type]. apply Nat.eqb_eq. exact (proj1 (unforge_public_key_sound _ _ E)).
    - (* key_hash *) destruct n; try discriminate H.
      + destruct (addr_of_txt C s) as [a|] eqn:E; [|discriminate H]. cbn [bind] in H.
        destruct (is_implicit (fst a)) eqn:Ei; [|discriminate H]. injection H as <-.
        cbn [Values.has_type]. rewrite Ei. pose proof (addr_snd C HS _ _ E) as W. unfold wf_address in W.
        rewrite W. reflexivity.
      + unfold unforge_key_hash in H. destruct (unforge_address b) as [[k h]|] eqn:E; [|discriminate H].
        destruct (is_implicit k) eqn:Ei; [|discriminate H]. cbn [bind] in H. injection H as <-.
        cbn [Values.has_type fst snd]. rewrite Ei. destruct (unforge_address_sound _ _ E) as [W _].
        unfold wf_address in W. cbn [snd] in W. rewrite W. reflexivity.
    - (* signature *) destruct n; try discriminate H.
      + destruct (sig_of_txt C s) as [raw|] eqn:E; [|discriminate H]. injection H as <-.
        cbn [Values.has_type]. destruct (sig_snd C HS _ _ E) as [L|L]; rewrite L; reflexivity.
      + unfold unforge_signature in H.
        destruct (Nat.eqb (List.length b) 64) eqn:E1.
        * injection H as <-. cbn [Values.has_type snd]. rewrite E1. reflexivity.
        * destruct (Nat.eqb (List.length b) 96) eqn:E2; [|discriminate H].
          injection H as <-. cbn [Values.has_type snd]. rewrite E2. apply orb_true_r.
    - (* chain id *) destruct n; try discriminate H.
      + destruct (cid_of_txt C s) as [c|] eqn:E; [|discriminate H]. injection H as <-.
        cbn [Values.has_type]. apply Nat.eqb_eq. exact (cid_snd C HS _ _ E).
      + unfold unforge_chain_id in H. destruct (Nat.eqb (List.length b) 4) eqn:E; [|discriminate H].
        injection H as <-. exact E.
    - (* option *) destruct n; try discriminate H. destruct args as [|x [|y r]]; try discriminate H.
      + destruct (byte_eqb tag T_None); [injection H as <-; reflexivity|discriminate H].
      + destruct (byte_eqb tag T_Some); [|discriminate H].
        destruct (of_mich t x) as [w|] eqn:E; [|discriminate H]. injection H as <-.
        rewrite str_utf8_prim in Hu. cbn [forallb] in Hu. apply andb_true_iff in Hu.
        cbn [Values.has_type]. apply (IHt x w (proj1 Hu) E Hn).
    - (* or *) destruct n; try discriminate H. destruct args as [|x [|y r]]; try discriminate H.
      rewrite str_utf8_prim in Hu. cbn [forallb] in Hu. apply andb_true_iff in Hu.
      destruct (byte_eqb tag T_Left).
      + destruct (of_mich t1 x) as [w|] eqn:E; [|discriminate H]. injection H as <-.
        cbn [Values.has_type]. apply (IHt1 x w (proj1 Hu) E Hn).
      + destruct (byte_eqb tag T_Right); [|discriminate H].
        destruct (of_mich t2 x) as [w|] eqn:E; [|discriminate H]. injection H as <-.
        cbn [Values.has_type]. apply (IHt2 x w (proj1 Hu) E Hn).
    - (* pair *)
      assert (R : forall args, forallb str_utf8 args = true ->
                  read_pair C lam_norm t1 t2 args = Ok v -> has_type (TPair t1 t2) v = true).
      { intros args Ha Hr. destruct args as [|x [|y [|z r]]]; try discriminate Hr; cbn [read_pair] in Hr.
        - destruct (of_mich t1 x) as [va|] eqn:Ea; [|discriminate Hr]. cbn [bind] in Hr.
          destruct (of_mich t2 y) as [vb|] eqn:Eb; [|discriminate Hr]. injection Hr as <-.
          cbn [forallb] in Ha. rewrite !andb_true_iff in Ha. destruct Ha as [Hx [Hy _]].
          cbn [no_empty_ep] in Hn. apply andb_true_iff in Hn. destruct Hn as [N1 N2].
          cbn [Values.has_type]. rewrite (IHt1 x va Hx Ea N1), (IHt2 y vb Hy Eb N2). reflexivity.
        - destruct (of_mich t1 x) as [va|] eqn:Ea; [|discriminate Hr]. cbn [bind] in Hr.
          destruct (of_mich t2 (NSeq (y :: z :: r))) as [vb|] eqn:Eb; [|discriminate Hr]. injection Hr as <-.
          cbn [forallb] in Ha. apply andb_true_iff in Ha. destruct Ha as [Hx Hrest].
          cbn [no_empty_ep] in Hn. apply andb_true_iff in Hn. destruct Hn as [N1 N2].
          cbn [Values.has_type]. rewrite (IHt1 x va Hx Ea N1).
          rewrite (IHt2 (NSeq (y :: z :: r)) vb); [reflexivity| |exact Eb|exact N2].
          rewrite str_utf8_seq. exact Hrest. }
      destruct n; try discriminate H.
      + destruct (byte_eqb tag T_Pair) eqn:Et; [|discriminate H].
        apply byte_eqb_spec in Et. subst tag.
        rewrite str_utf8_prim in Hu. apply (R args Hu). rewrite <- (of_mich_pair_prim C lam_norm t1 t2 args annots).
        cbn [Values.of_mich]. exact H.
      + rewrite str_utf8_seq in Hu. apply (R items Hu). rewrite <- (of_mich_pair_seq C lam_norm t1 t2 items).
        cbn [Values.of_mich]. exact H.
    - (* list *) destruct n; try discriminate H.
      destruct (map_result (of_mich t) items) as [l|] eqn:E; [|discriminate H]. injection H as <-.
      rewrite str_utf8_seq in Hu. rewrite no_empty_ep_list in Hn.
      cbn [Values.has_type]. apply (pw_items t items l IHt Hu E Hn).
    - (* set *) destruct n; try discriminate H.
      destruct (map_result (of_mich t) items) as [l|] eqn:E; [|discriminate H]. cbn [bind] in H.
      destruct (sorted_strict l) eqn:S; [|discriminate H]. injection H as <-.
      rewrite str_utf8_seq in Hu. rewrite no_empty_ep_list in Hn.
      cbn [Values.has_type]. rewrite (pw_items t items l IHt Hu E Hn), S. reflexivity.
    - (* map *) destruct n; try discriminate H.
      match type of H with context [map_result ?f items] => destruct (map_result f items) as [l|] eqn:E; [|discriminate H] end.
      cbn [bind] in H. destruct (sorted_strict (map fst l)) eqn:S; [|discriminate H]. injection H as <-.
      rewrite str_utf8_seq in Hu. rewrite no_empty_ep_map in Hn.
      cbn [Values.has_type]. rewrite S, andb_true_r. clear S.
      apply map_result_inv in E.
      induction E as [|x y items l Hxy _ IHl]; [reflexivity|].
      cbn [forallb] in *. apply andb_true_iff in Hu. destruct Hu as [Hu1 Hu2].
      apply andb_true_iff in Hn. destruct Hn as [Hn1 Hn2].
      rewrite IHl by assumption. rewrite andb_true_r.
      unfold elt_parts in Hxy. destruct x; try discriminate Hxy.
      destruct args as [|k [|w [|? ?]]]; try discriminate Hxy.
      destruct (byte_eqb tag T_Elt); [|discriminate Hxy]. cbn [bind fst snd] in Hxy.
      destruct (of_mich t1 k) as [vk|] eqn:Ek; [|discriminate Hxy]. cbn [bind] in Hxy.
      destruct (of_mich t2 w) as [vw|] eqn:Ew; [|discriminate Hxy]. injection Hxy as <-.
      rewrite str_utf8_prim in Hu1. cbn [forallb] in Hu1. rewrite !andb_true_iff in Hu1. destruct Hu1 as [U1 [U2 _]].
      cbn [fst snd] in *. apply andb_true_iff in Hn1. destruct Hn1 as [M1 M2].
      rewrite (IHt1 k vk U1 Ek M1), (IHt2 w vw U2 Ew M2). reflexivity.
    - (* lambda *) destruct n; try discriminate H.
      destruct (lam_norm (NSeq items)) as [c|] eqn:E; [|discriminate H]. injection H as <-.
      destruct (lam_idem _ _ E) as [Hc (l & ->)]. cbn [Values.has_type]. rewrite Hc.
      cbn [result_eqb]. apply node_eqb_spec. reflexivity.
    - (* big_map *) destruct n; try discriminate H.
      + injection H as <-. reflexivity.
      + match type of H with context [map_result ?f items] => destruct (map_result f items) as [l|] eqn:E; [|discriminate H] end.
        cbn [bind] in H. destruct (sorted_strict (map fst l)) eqn:S; [|discriminate H]. injection H as <-.
        rewrite str_utf8_seq in Hu. rewrite no_empty_ep_map in Hn.
        cbn [Values.has_type]. rewrite S, andb_true_r. clear S.
        apply map_result_inv in E.
        induction E as [|x y items l Hxy _ IHl]; [reflexivity|].
        cbn [forallb] in *. apply andb_true_iff in Hu. destruct Hu as [Hu1 Hu2].
        apply andb_true_iff in Hn. destruct Hn as [Hn1 Hn2].
        rewrite IHl by assumption. rewrite andb_true_r.
        unfold elt_parts in Hxy. destruct x; try discriminate Hxy.
        destruct args as [|k [|w [|? ?]]]; try discriminate Hxy.
        destruct (byte_eqb tag T_Elt); [|discriminate Hxy]. cbn [bind fst snd] in Hxy.
        destruct (of_mich t1 k) as [vk|] eqn:Ek; [|discriminate Hxy]. cbn [bind] in Hxy.
        destruct (of_mich t2 w) as [vw|] eqn:Ew; [|discriminate Hxy]. injection Hxy as <-.
        rewrite str_utf8_prim in Hu1. cbn [forallb] in Hu1. rewrite !andb_true_iff in Hu1. destruct Hu1 as [U1 [U2 _]].
        cbn [fst snd] in *. apply andb_true_iff in Hn1. destruct Hn1 as [M1 M2].
        rewrite (IHt1 k vk U1 Ek M1), (IHt2 w vw U2 Ew M2). reflexivity.
    - (* ticket *)
      assert (B : forall x i z, str_utf8 x = true -> str_utf8 i = true ->
                  ticket_of (of_addr C AnyAddress x) (of_mich t i) z = Ok v -> has_type (TTicket t) v = true).
      { intros x i z Ux Ui Ht. apply ticket_of_inv in Ht. destruct Ht as (a & ep & vi & k & Ea & Ei & -> & Ek & ->).
        assert (N : no_empty_ep (VAddr a ep) = true /\ no_empty_ep vi = true).
        { cbn [no_empty_ep] in Hn. destruct ep as [[|c e]|]; [discriminate Hn| |]; split; try exact Hn; reflexivity. }
        destruct N as [N1 N2].
        destruct (of_addr_sound AnyAddress x _ Ux Ea N1) as (a' & ep' & E' & Hok). injection E' as <- <-.
        cbn [Values.has_type]. rewrite Hok, (IHt i vi Ui Ei N2), Ek. reflexivity. }
      destruct (pair_args n) as [args|] eqn:Ep; [|discriminate H].
      pose proof (pair_args_utf8 n args Ep Hu) as Ua.
      destruct args as [|x [|y [|z [|w r]]]]; try discriminate H.
      + cbn [forallb] in Ua. rewrite !andb_true_iff in Ua. destruct Ua as [Ux [Uy _]].
        destruct (pair_args y) as [args2|] eqn:Ep2; [|discriminate H].
        pose proof (pair_args_utf8 y args2 Ep2 Uy) as Ub.
        destruct args2 as [|i [|z [|w r]]]; try discriminate H.
        cbn [forallb] in Ub. rewrite !andb_true_iff in Ub. destruct Ub as [Ui _].
        exact (B x i z Ux Ui H).
      + cbn [forallb] in Ua. rewrite !andb_true_iff in Ua. destruct Ua as [Ux [Uy _]].
        exact (B x y z Ux Uy H).
  Qed.
End Soundness.

(* every value from_micheline_value builds (without an empty entrypoint) round-trips in every mode *)
Lemma parsed_roundtrip C lam :
  codec_ok C -> codec_sound C ->
  (forall n c, lam n = Ok c -> lam c = Ok c /\ exists l, c = NSeq l) ->
  forall t n v m, str_utf8 n = true -> of_mich C lam t n = Ok v -> no_empty_ep v = true ->
  of_mich C lam t (to_mich C m v) = Ok v.
Proof.
  intros HC HS Hl t n v m Hu H Hn. apply roundtrip; [exact HC|].
  exact (parsed_well_typed C lam HS Hl t n v Hu H Hn).
Qed.

(* ---------------------------------------------------------------- the real codec is sound *)

Section RealCodecSound.
  Variable sha256 : bytes -> bytes.
  Hypothesis Hsha : sha_ok sha256.

  (* the payload length of every row carrying a given textual prefix *)
  Definition rows_plen (tp : bytes) (n : nat) : bool :=
    forallb (fun r => negb (bytes_eqb (tpre r) tp) || Nat.eqb (plen r) n) table43.

  Lemma decode_kinded_len {K} (kinds : list K) (tp : K -> bytes) (len : K -> nat) s k p :
    (forall k', In k' kinds -> rows_plen (tp k') (len k') = true) ->
    decode_kinded sha256 table43 kinds tp s = Ok (k, p) -> List.length p = len k.
  Proof.
    intros Hrows H. unfold decode_kinded in H.
    destruct (find_dec table43 s) as [r|] eqn:Ef; [|discriminate H].
    destruct (kind_of_tpre kinds tp (tpre r)) as [k'|] eqn:Ek; [|discriminate H].
    destruct (base58_decode sha256 table43 s) as [p'|] eqn:Ed; [|discriminate H].
    cbn [bind] in H. injection H as -> ->.
    apply (any_decode_iff_all sha256 table43 Hsha table43_full_ok) in Ed. destruct Ed as [r1 He].
    destruct (table_full_split _ table43_full_ok) as [Hr [Hu _]].
    destruct (encodes_shape sha256 Hsha table43 Hr _ _ _ He) as [Hl Hp].
    destruct He as [Hin [Hlen _]].
    rewrite (find_dec_unique table43 Hu r1 s Hin Hl Hp) in Ef. injection Ef as ->.
    unfold kind_of_tpre in Ek. apply find_some in Ek. destruct Ek as [Hk Et].
    apply bytes_eqb_spec in Et.
    specialize (Hrows k Hk). unfold rows_plen in Hrows. rewrite forallb_forall in Hrows.
    specialize (Hrows r Hin). rewrite Et in Hrows.
    assert (E : bytes_eqb (tpre r) (tpre r) = true) by (apply bytes_eqb_spec; reflexivity).
    rewrite E in Hrows. cbn [negb orb] in Hrows. apply Nat.eqb_eq in Hrows. congruence.
  Qed.

  Lemma real_codec_sound : codec_sound (real_codec sha256 table43).
  Proof.
    constructor; cbn [addr_of_txt key_of_txt sig_of_txt cid_of_txt real_codec].
    - intros s [k h] H. unfold wf_address. cbn [snd].
      apply (decode_kinded_len all_addr_kinds addr_tpre (fun _ => 20%nat) s k h); [|exact H].
      intros k' _. destruct k'; vm_compute; reflexivity.
    - intros s [k p] H. unfold wf_public_key. cbn [fst snd].
      apply (decode_kinded_len all_key_kinds key_tpre key_len s k p); [|exact H].
      intros k' _. destruct k'; vm_compute; reflexivity.
    - intros s raw H.
      destruct (decode_kinded sha256 table43 all_sig_kinds sig_tpre s) as [[k p]|] eqn:E; [|discriminate H].
      cbn [bind snd] in H. injection H as <-.
      pose proof (decode_kinded_len all_sig_kinds sig_tpre sig_len s k p
                    ltac:(intros k' _; destruct k'; vm_compute; reflexivity) E) as L.
      destruct k; cbn [sig_len] in L; [left|left|left|left|right]; exact L.
    - intros s c H.
      destruct (decode_kinded sha256 table43 [tt] (fun _ => tx "Net") s) as [[k p]|] eqn:E; [|discriminate H].
      cbn [bind snd] in H. injection H as <-.
      apply (decode_kinded_len [tt] (fun _ => tx "Net") (fun _ => 4%nat) s k p); [|exact E].
      intros k' _. vm_compute. reflexivity.
  Qed.
End RealCodecSound.
