(* Proofs/Constants_proofs.v — lemmas about Michelson/Constants.v *)
From Coq Require Import List NArith ZArith Bool Lia Arith.
From Coq.Strings Require Import Byte.
From PV Require Import Base.Bytes Codec.Micheline Codec.Prims Codec.MichelineBin Michelson.Constants.
Import ListNotations.

(* ================================================================ the specification *)

(* [Resolved reg n m]: m is n with every constant reference replaced by the (recursively
   resolved) registered expression; primitive, annotations, literals and order of everything
   else are kept. *)
Inductive Resolved (reg : registry) : node -> node -> Prop :=
| RsInt z : Resolved reg (NInt z) (NInt z)
| RsStr s : Resolved reg (NStr s) (NStr s)
| RsByt b : Resolved reg (NByt b) (NByt b)
| RsConst t h rest annots e m :
    is_constant t = true -> lookup h reg = Some e -> Resolved reg e m ->
    Resolved reg (NPrim t (NStr h :: rest) annots) m
| RsPrim t args args' annots :
    is_constant t = false -> ResolvedL reg args args' ->
    Resolved reg (NPrim t args annots) (NPrim t args' annots)
| RsSeq items items' : ResolvedL reg items items' -> Resolved reg (NSeq items) (NSeq items')
with ResolvedL (reg : registry) : list node -> list node -> Prop :=
| RsNil : ResolvedL reg [] []
| RsCons x x' l l' : Resolved reg x x' -> ResolvedL reg l l' -> ResolvedL reg (x :: l) (x' :: l').

Scheme Resolved_mind := Minimality for Resolved Sort Prop
  with ResolvedL_mind := Minimality for ResolvedL Sort Prop.
Combined Scheme Resolved_both from Resolved_mind, ResolvedL_mind.

(* [Stuck reg n]: some constant node reachable from n (through registered expressions) is
   malformed or names a hash that is not registered *)
Inductive Stuck (reg : registry) : node -> Prop :=
| StBad t args annots :
    is_constant t = true -> (forall h rest, args <> NStr h :: rest) -> Stuck reg (NPrim t args annots)
| StUnknown t h rest annots :
    is_constant t = true -> lookup h reg = None -> Stuck reg (NPrim t (NStr h :: rest) annots)
| StDeep t h rest annots e :
    is_constant t = true -> lookup h reg = Some e -> Stuck reg e ->
    Stuck reg (NPrim t (NStr h :: rest) annots)
| StArg t args annots : is_constant t = false -> StuckL reg args -> Stuck reg (NPrim t args annots)
| StItem items : StuckL reg items -> Stuck reg (NSeq items)
with StuckL (reg : registry) : list node -> Prop :=
| StHere x l : Stuck reg x -> StuckL reg (x :: l)
| StThere x l : StuckL reg l -> StuckL reg (x :: l).

Scheme Stuck_mind := Minimality for Stuck Sort Prop
  with StuckL_mind := Minimality for StuckL Sort Prop.
Combined Scheme Stuck_both from Stuck_mind, StuckL_mind.

(* ================================================================ equations *)

Section Eqns.
  Variable reg : registry.

  Lemma resolve_prim f t args annots :
    resolve reg f (NPrim t args annots) =
    if is_constant t then
      match args with
      | NStr h :: _ =>
          match lookup h reg with
          | Some e => match f with O => RFuel | S f' => resolve reg f' e end
          | None => RReject
          end
      | _ => RReject
      end
    else rmap (fun args' => NPrim t args' annots) (resolve_list reg f args).
  Proof. destruct f; reflexivity. Qed.

  Lemma resolve_seq f items :
    resolve reg f (NSeq items) = rmap NSeq (resolve_list reg f items).
  Proof. destruct f; reflexivity. Qed.

  Lemma resolve_int f z : resolve reg f (NInt z) = ROk (NInt z).
  Proof. destruct f; reflexivity. Qed.
  Lemma resolve_str f s : resolve reg f (NStr s) = ROk (NStr s).
  Proof. destruct f; reflexivity. Qed.
  Lemma resolve_byt f b : resolve reg f (NByt b) = ROk (NByt b).
  Proof. destruct f; reflexivity. Qed.

  Lemma resolve_list_nil f : resolve_list reg f [] = ROk [].
  Proof. reflexivity. Qed.

  Lemma resolve_list_cons f x l :
    resolve_list reg f (x :: l) = rcons (resolve reg f x) (resolve_list reg f l).
  Proof. reflexivity. Qed.
End Eqns.

Lemma fix_no_constant l :
  (fix go (l : list node) : bool :=
     match l with [] => true | x :: r => no_constant x && go r end) l = forallb no_constant l.
Proof. induction l as [|x l IH]; [reflexivity|]. cbn [forallb]. rewrite IH. reflexivity. Qed.

Lemma no_constant_prim t args annots :
  no_constant (NPrim t args annots) = negb (is_constant t) && forallb no_constant args.
Proof. cbn [no_constant]. rewrite fix_no_constant. reflexivity. Qed.

Lemma no_constant_seq items : no_constant (NSeq items) = forallb no_constant items.
Proof. cbn [no_constant]. rewrite fix_no_constant. reflexivity. Qed.

Lemma fix_refs l :
  (fix go (l : list node) : list bytes :=
     match l with [] => [] | x :: r => refs x ++ go r end) l = flat_map refs l.
Proof. induction l as [|x l IH]; [reflexivity|]. cbn [flat_map]. rewrite IH. reflexivity. Qed.

Lemma refs_prim t args annots :
  refs (NPrim t args annots) =
  if is_constant t then match args with NStr h :: _ => [h] | _ => [] end else flat_map refs args.
Proof. cbn [refs]. rewrite fix_refs. reflexivity. Qed.

Lemma refs_seq items : refs (NSeq items) = flat_map refs items.
Proof. cbn [refs]. rewrite fix_refs. reflexivity. Qed.

(* ================================================================ soundness: ROk => Resolved *)

Section Sound.
  Variable reg : registry.

  Lemma rcons_ok x xs l : rcons x xs = ROk l -> exists a t, x = ROk a /\ xs = ROk t /\ l = a :: t.
  Proof.
    destruct x as [a| |]; try discriminate. destruct xs as [t| |]; try discriminate.
    intro H. injection H as <-. eauto.
  Qed.

  Lemma rmap_ok {A B} (g : A -> B) r b : rmap g r = ROk b -> exists a, r = ROk a /\ b = g a.
  Proof. destruct r as [a| |]; try discriminate. intro H. injection H as <-. eauto. Qed.

  Lemma resolve_list_sound f l :
    Forall (fun x => forall m, resolve reg f x = ROk m -> Resolved reg x m) l ->
    forall l', resolve_list reg f l = ROk l' -> ResolvedL reg l l'.
  Proof.
    induction 1 as [|x l Hx _ IH]; intros l' H.
    - injection H as <-. constructor.
    - rewrite resolve_list_cons in H. apply rcons_ok in H. destruct H as (a & t & Ha & Ht & ->).
      constructor; [apply Hx, Ha|apply IH, Ht].
  Qed.

  Lemma resolve_sound : forall f n m, resolve reg f n = ROk m -> Resolved reg n m.
  Proof.
    induction f as [|f IHf];
      (induction n as [z|s|b|t args annots IH|items IH] using node_ind'; intros m H;
       [rewrite resolve_int in H; injection H as <-; constructor
       |rewrite resolve_str in H; injection H as <-; constructor
       |rewrite resolve_byt in H; injection H as <-; constructor
       |rewrite resolve_prim in H; destruct (is_constant t) eqn:C
       |rewrite resolve_seq in H; apply rmap_ok in H; destruct H as (l' & Hl & ->);
        constructor; eapply resolve_list_sound; eassumption]).
    - destruct args as [|[z|h|b|t' a' n'|i'] rest]; try discriminate.
      destruct (lookup h reg); discriminate.
    - apply rmap_ok in H. destruct H as (l' & Hl & ->). constructor; [exact C|].
      eapply resolve_list_sound; eassumption.
    - destruct args as [|[z|h|b|t' a' n'|i'] rest]; try discriminate.
      destruct (lookup h reg) as [e|] eqn:L; [|discriminate].
      econstructor; [exact C|exact L|]. apply IHf, H.
    - apply rmap_ok in H. destruct H as (l' & Hl & ->). constructor; [exact C|].
      eapply resolve_list_sound; eassumption.
  Qed.

  (* ================================================================ fuel *)

  (* an answer other than RFuel does not depend on the budget *)
  Lemma resolve_list_step f l :
    Forall (fun x => resolve reg f x <> RFuel -> resolve reg (S f) x = resolve reg f x) l ->
    resolve_list reg f l <> RFuel -> resolve_list reg (S f) l = resolve_list reg f l.
  Proof.
    induction 1 as [|x l Hx _ IH]; intro H; [reflexivity|].
    rewrite !resolve_list_cons in *.
    destruct (resolve reg f x) as [a| |] eqn:Ex.
    - rewrite Hx by discriminate.
      destruct (resolve_list reg f l) as [t| |] eqn:El.
      + rewrite IH by discriminate. reflexivity.
      + rewrite IH by discriminate. reflexivity.
      + exfalso. apply H. reflexivity.
    - rewrite Hx by discriminate. reflexivity.
    - exfalso. apply H. reflexivity.
  Qed.

  Lemma rmap_fuel {A B} (g : A -> B) r : rmap g r <> RFuel -> r <> RFuel.
  Proof. destruct r; cbn; congruence. Qed.

  Lemma resolve_step : forall f n, resolve reg f n <> RFuel -> resolve reg (S f) n = resolve reg f n.
  Proof.
    induction f as [|f IHf];
      (induction n as [z|s|b|t args annots IH|items IH] using node_ind'; intro H;
       [rewrite !resolve_int; reflexivity|rewrite !resolve_str; reflexivity
       |rewrite !resolve_byt; reflexivity
       |rewrite resolve_prim in H; rewrite (resolve_prim reg (S _)), (resolve_prim reg _);
        destruct (is_constant t) eqn:C
       |rewrite resolve_seq in H; rewrite !resolve_seq;
        rewrite resolve_list_step; [reflexivity|exact IH|eapply rmap_fuel; exact H]]).
    - destruct args as [|[z|h|b|t' a' n'|i'] rest]; try reflexivity.
      destruct (lookup h reg); [|reflexivity]. exfalso. apply H. reflexivity.
    - rewrite resolve_list_step; [reflexivity|exact IH|eapply rmap_fuel; exact H].
    - destruct args as [|[z|h|b|t' a' n'|i'] rest]; try reflexivity.
      destruct (lookup h reg); [|reflexivity]. apply IHf, H.
    - rewrite resolve_list_step; [reflexivity|exact IH|eapply rmap_fuel; exact H].
  Qed.

  Lemma resolve_fuel_mono f f' n :
    resolve reg f n <> RFuel -> f <= f' -> resolve reg f' n = resolve reg f n.
  Proof.
    intros H Hle. induction Hle as [|f' _ IH]; [reflexivity|].
    rewrite resolve_step; [exact IH|]. rewrite IH. exact H.
  Qed.

  (* ================================================================ completeness *)

  Lemma resolve_complete :
    (forall n m, Resolved reg n m -> exists f0, forall f, f0 <= f -> resolve reg f n = ROk m) /\
    (forall l l', ResolvedL reg l l' ->
       exists f0, forall f, f0 <= f -> resolve_list reg f l = ROk l').
  Proof.
    apply (Resolved_both reg
             (fun n m => exists f0, forall f, f0 <= f -> resolve reg f n = ROk m)
             (fun l l' => exists f0, forall f, f0 <= f -> resolve_list reg f l = ROk l')).
    - intro z. exists 0. intros f _. apply resolve_int.
    - intro s. exists 0. intros f _. apply resolve_str.
    - intro b. exists 0. intros f _. apply resolve_byt.
    - intros t h rest annots e m C L _ [f0 IH]. exists (S f0). intros f Hf.
      rewrite resolve_prim, C, L. destruct f as [|f]; [lia|]. apply IH. lia.
    - intros t args args' annots C _ [f0 IH]. exists f0. intros f Hf.
      rewrite resolve_prim, C, IH by exact Hf. reflexivity.
    - intros items items' _ [f0 IH]. exists f0. intros f Hf.
      rewrite resolve_seq, IH by exact Hf. reflexivity.
    - exists 0. intros f _. reflexivity.
    - intros x x' l l' _ [f1 IH1] _ [f2 IH2]. exists (Nat.max f1 f2). intros f Hf.
      rewrite resolve_list_cons, IH1, IH2 by lia. reflexivity.
  Qed.

  Lemma Resolved_functional n m m' : Resolved reg n m -> Resolved reg n m' -> m = m'.
  Proof.
    intros H H'. destruct (proj1 resolve_complete _ _ H) as [f1 E1].
    destruct (proj1 resolve_complete _ _ H') as [f2 E2].
    specialize (E1 (Nat.max f1 f2) (Nat.le_max_l _ _)).
    specialize (E2 (Nat.max f1 f2) (Nat.le_max_r _ _)).
    rewrite E1 in E2. injection E2 as ->. reflexivity.
  Qed.

  (* ================================================================ no constant remains *)

  Lemma Resolved_no_constant :
    (forall n m, Resolved reg n m -> no_constant m = true) /\
    (forall l l', ResolvedL reg l l' -> forallb no_constant l' = true).
  Proof.
    apply (Resolved_both reg (fun _ m => no_constant m = true)
             (fun _ l' => forallb no_constant l' = true)); try reflexivity.
    - intros; assumption.
    - intros t args args' annots C _ IH. rewrite no_constant_prim, C, IH. reflexivity.
    - intros items items' _ IH. rewrite no_constant_seq. exact IH.
    - intros x x' l l' _ Hx _ Hl. cbn [forallb]. rewrite Hx, Hl. reflexivity.
  Qed.

  (* a tree without constant nodes is returned unchanged, with any budget *)
  Lemma resolve_list_id f l :
    Forall (fun x => no_constant x = true -> resolve reg f x = ROk x) l ->
    forallb no_constant l = true -> resolve_list reg f l = ROk l.
  Proof.
    induction 1 as [|x l Hx _ IH]; intro H; [reflexivity|].
    cbn [forallb] in H. apply andb_true_iff in H. destruct H as [H1 H2].
    rewrite resolve_list_cons, Hx, IH by assumption. reflexivity.
  Qed.

  Lemma resolve_no_constant f : forall n, no_constant n = true -> resolve reg f n = ROk n.
  Proof.
    induction n as [z|s|b|t args annots IH|items IH] using node_ind'; intro H.
    - apply resolve_int.
    - apply resolve_str.
    - apply resolve_byt.
    - rewrite no_constant_prim in H. apply andb_true_iff in H. destruct H as [C Ha].
      apply negb_true_iff in C. rewrite resolve_prim, C, resolve_list_id by assumption. reflexivity.
    - rewrite no_constant_seq in H. rewrite resolve_seq, resolve_list_id by assumption. reflexivity.
  Qed.

  Lemma resolved_is_fixpoint f f' n m : resolve reg f n = ROk m -> resolve reg f' m = ROk m.
  Proof.
    intro H. apply resolve_no_constant. apply resolve_sound in H.
    exact (proj1 Resolved_no_constant _ _ H).
  Qed.

  (* ================================================================ failures *)

  Lemma rcons_reject x xs :
    rcons x xs = RReject -> x = RReject \/ ((exists a, x = ROk a) /\ xs = RReject).
  Proof.
    destruct x as [a| |]; try discriminate; [|auto].
    destruct xs as [t| |]; try discriminate. right. split; [eauto|reflexivity].
  Qed.

  Lemma rmap_reject {A B} (g : A -> B) r : rmap g r = RReject -> r = RReject.
  Proof. destruct r; cbn; congruence. Qed.

  Lemma resolve_list_reject f l :
    Forall (fun x => resolve reg f x = RReject -> Stuck reg x) l ->
    resolve_list reg f l = RReject -> StuckL reg l.
  Proof.
    induction 1 as [|x l Hx _ IH]; intro H; [discriminate|].
    rewrite resolve_list_cons in H. apply rcons_reject in H. destruct H as [H|[_ H]].
    - apply StHere, Hx, H.
    - apply StThere, IH, H.
  Qed.

  Lemma resolve_reject : forall f n, resolve reg f n = RReject -> Stuck reg n.
  Proof.
    induction f as [|f IHf];
      (induction n as [z|s|b|t args annots IH|items IH] using node_ind'; intro H;
       [rewrite resolve_int in H; discriminate|rewrite resolve_str in H; discriminate
       |rewrite resolve_byt in H; discriminate
       |rewrite resolve_prim in H; destruct (is_constant t) eqn:C
       |rewrite resolve_seq in H; apply rmap_reject in H; apply StItem;
        eapply resolve_list_reject; eassumption]).
    - destruct args as [|[z|h|b|t' a' n'|i'] rest];
        try (apply StBad; [exact C|intros h0 r0; discriminate]).
      destruct (lookup h reg) eqn:L; [discriminate|]. apply StUnknown; assumption.
    - apply rmap_reject in H. apply StArg; [exact C|]. eapply resolve_list_reject; eassumption.
    - destruct args as [|[z|h|b|t' a' n'|i'] rest];
        try (apply StBad; [exact C|intros h0 r0; discriminate]).
      destruct (lookup h reg) as [e|] eqn:L.
      + eapply StDeep; [exact C|exact L|]. apply IHf, H.
      + apply StUnknown; assumption.
    - apply rmap_reject in H. apply StArg; [exact C|]. eapply resolve_list_reject; eassumption.
  Qed.

  Lemma Stuck_not_Resolved :
    (forall n, Stuck reg n -> forall m, ~ Resolved reg n m) /\
    (forall l, StuckL reg l -> forall l', ~ ResolvedL reg l l').
  Proof.
    apply (Stuck_both reg (fun n => forall m, ~ Resolved reg n m)
             (fun l => forall l', ~ ResolvedL reg l l')).
    - intros t args annots C Hbad m H. inversion H; subst; try congruence.
    - intros t h rest annots C L m H. inversion H; subst; congruence.
    - intros t h rest annots e C L _ IH m H. inversion H; subst; try congruence.
      match goal with
      | HR : Resolved reg ?e' m |- _ => assert (e' = e) by congruence; subst e'; exact (IH m HR)
      end.
    - intros t args annots C _ IH m H. inversion H; subst; try congruence. eapply IH. eassumption.
    - intros items _ IH m H. inversion H; subst. eapply IH. eassumption.
    - intros x l _ IH l' H. inversion H; subst. eapply IH. eassumption.
    - intros x l _ IH l' H. inversion H; subst. eapply IH. eassumption.
  Qed.

  Lemma Stuck_never_ok n f m : Stuck reg n -> resolve reg f n <> ROk m.
  Proof.
    intros HS H. apply resolve_sound in H. exact (proj1 Stuck_not_Resolved n HS m H).
  Qed.

  (* ================================================================ acyclic registries *)

  (* [ranked rank]: every registered expression only refers to registered hashes of smaller
     rank — i.e. the reference graph among registered constants is acyclic *)
  Definition ranked (rank : bytes -> nat) : Prop :=
    forall h e, lookup h reg = Some e ->
    forall h', In h' (refs e) -> lookup h' reg <> None -> rank h' < rank h.

  Definition refs_below (rank : bytes -> nat) (f : nat) (n : node) : Prop :=
    forall h, In h (refs n) -> lookup h reg <> None -> rank h < f.

  Lemma resolve_list_no_fuel f l :
    Forall (fun x => resolve reg f x <> RFuel) l -> resolve_list reg f l <> RFuel.
  Proof.
    induction 1 as [|x l Hx _ IH]; [discriminate|]. rewrite resolve_list_cons.
    destruct (resolve reg f x); try congruence; [|discriminate].
    destruct (resolve_list reg f l); cbn; congruence.
  Qed.

  Lemma rmap_no_fuel {A B} (g : A -> B) r : r <> RFuel -> rmap g r <> RFuel.
  Proof. destruct r; cbn; congruence. Qed.

  Lemma resolve_no_fuel rank :
    ranked rank -> forall f n, refs_below rank f n -> resolve reg f n <> RFuel.
  Proof.
    intro HR.
    assert (HL : forall f l,
      Forall (fun x => refs_below rank f x -> resolve reg f x <> RFuel) l ->
      (forall h, In h (flat_map refs l) -> lookup h reg <> None -> rank h < f) ->
      resolve_list reg f l <> RFuel).
    { intros f l HF Hb. apply resolve_list_no_fuel.
      induction HF as [|x l Hx _ IH]; constructor.
      - apply Hx. intros h Hin. apply Hb. cbn [flat_map]. apply in_or_app. left. exact Hin.
      - apply IH. intros h Hin. apply Hb. cbn [flat_map]. apply in_or_app. right. exact Hin. }
    induction f as [|f IHf];
      (induction n as [z|s|b|t args annots IH|items IH] using node_ind'; intro Hb;
       [rewrite resolve_int; discriminate|rewrite resolve_str; discriminate
       |rewrite resolve_byt; discriminate
       |rewrite resolve_prim; unfold refs_below in Hb; rewrite refs_prim in Hb;
        destruct (is_constant t) eqn:C
       |rewrite resolve_seq; unfold refs_below in Hb; rewrite refs_seq in Hb;
        apply rmap_no_fuel, HL; assumption]).
    - destruct args as [|[z|h|b|t' a' n'|i'] rest]; try discriminate.
      destruct (lookup h reg) eqn:L; [|discriminate].
      exfalso. assert (rank h < 0) by (apply Hb; [left; reflexivity|congruence]). lia.
    - apply rmap_no_fuel, HL; assumption.
    - destruct args as [|[z|h|b|t' a' n'|i'] rest]; try discriminate.
      destruct (lookup h reg) as [e|] eqn:L; [|discriminate].
      apply IHf. intros h' Hin Hreg.
      assert (rank h < S f) by (apply Hb; [left; reflexivity|congruence]).
      pose proof (HR h e L h' Hin Hreg). lia.
    - apply rmap_no_fuel, HL; assumption.
  Qed.

  Fixpoint max_rank (rank : bytes -> nat) (r : registry) : nat :=
    match r with [] => 0 | (k, _) :: r' => Nat.max (rank k) (max_rank rank r') end.

  Lemma lookup_max_rank rank : forall r h, lookup h r <> None -> rank h <= max_rank rank r.
  Proof.
    induction r as [|[k e] r IH]; intros h H; [cbn in H; congruence|].
    cbn [lookup] in H. cbn [max_rank]. destruct (bytes_eqb k h) eqn:E.
    - apply bytes_eqb_spec in E. subst. lia.
    - specialize (IH h H). lia.
  Qed.

End Sound.

Lemma resolve_acyclic reg rank n :
  ranked reg rank -> resolve reg (S (max_rank rank reg)) n <> RFuel.
Proof.
  intro HR. apply (resolve_no_fuel reg rank HR). intros h _ Hreg.
  pose proof (lookup_max_rank rank reg h Hreg). lia.
Qed.

(* under acyclicity: the answer (with the budget above, hence with any larger one) is RReject
   exactly for stuck trees, and otherwise the unique resolved tree *)
Lemma resolve_acyclic_reject_iff reg rank n :
  ranked reg rank -> (resolve reg (S (max_rank rank reg)) n = RReject <-> Stuck reg n).
Proof.
  intro HR. split; [apply resolve_reject|]. intro HS.
  pose proof (resolve_acyclic reg rank n HR) as HF.
  destruct (resolve reg (S (max_rank rank reg)) n) as [m| |] eqn:E; [|reflexivity|congruence].
  exfalso. exact (Stuck_never_ok reg n _ m HS E).
Qed.

(* ================================================================ empty registry (after reset) *)

Lemma resolve_list_empty f l :
  Forall (fun x => resolve [] f x = if no_constant x then ROk x else RReject) l ->
  resolve_list [] f l = (if forallb no_constant l then ROk l else RReject) \/
  (forallb no_constant l = false /\ resolve_list [] f l = RReject).
Proof.
  induction 1 as [|x l Hx _ IH]; [left; reflexivity|].
  rewrite resolve_list_cons, Hx. cbn [forallb]. destruct (no_constant x); cbn [andb rcons].
  - destruct IH as [IH|[E IH]].
    + rewrite IH. destruct (forallb no_constant l); left; reflexivity.
    + rewrite IH, E. left. reflexivity.
  - left. reflexivity.
Qed.

Lemma resolve_empty f : forall n, resolve [] f n = if no_constant n then ROk n else RReject.
Proof.
  induction n as [z|s|b|t args annots IH|items IH] using node_ind'.
  - apply resolve_int.
  - apply resolve_str.
  - apply resolve_byt.
  - rewrite resolve_prim, no_constant_prim. destruct (is_constant t); cbn [negb andb].
    + destruct args as [|[z|h|b|t' a' n'|i'] rest]; reflexivity.
    + destruct (resolve_list_empty f args IH) as [E|[E1 E2]].
      * rewrite E. destruct (forallb no_constant args); reflexivity.
      * rewrite E1, E2. reflexivity.
  - rewrite resolve_seq, no_constant_seq.
    destruct (resolve_list_empty f items IH) as [E|[E1 E2]].
    + rewrite E. destruct (forallb no_constant items); reflexivity.
    + rewrite E1, E2. reflexivity.
Qed.

(* ================================================================ registration *)

Section Reg.
  Variable hash : bytes -> bytes.

  Lemma lookup_register_same reg e : lookup (key_of hash e) (register hash reg e) = Some e.
  Proof.
    unfold register. cbn [lookup].
    destruct (bytes_eqb (key_of hash e) (key_of hash e)) eqn:E; [reflexivity|].
    assert (bytes_eqb (key_of hash e) (key_of hash e) = true) by (apply bytes_eqb_spec; reflexivity).
    congruence.
  Qed.

  Lemma lookup_register_other reg e h :
    h <> key_of hash e -> lookup h (register hash reg e) = lookup h reg.
  Proof.
    intro Hne. unfold register. cbn [lookup].
    destruct (bytes_eqb (key_of hash e) h) eqn:E; [|reflexivity].
    apply bytes_eqb_spec in E. congruence.
  Qed.

  (* every binding of a registry produced by a history of calls binds an expression under
     its own hash: a reference is replaced by an expression whose hash it names *)
  Definition keyed (reg : registry) : Prop :=
    forall h e, lookup h reg = Some e -> h = key_of hash e.

  Lemma keyed_nil : keyed [].
  Proof. intros h e H. discriminate. Qed.

  Lemma keyed_step reg o : keyed reg -> keyed (fst (step hash reg o)).
  Proof.
    intro HK. destruct o as [e|n|]; cbn [step fst]; [|exact HK|apply keyed_nil].
    intros h e' H. unfold register in H. cbn [lookup] in H.
    destruct (bytes_eqb (key_of hash e) h) eqn:E.
    - apply bytes_eqb_spec in E. injection H as <-. symmetry. exact E.
    - apply HK, H.
  Qed.

  Lemma keyed_final ops : forall reg, keyed reg -> keyed (final hash reg ops).
  Proof.
    induction ops as [|o ops IH]; intros reg HK; [exact HK|].
    cbn [final]. apply IH, keyed_step, HK.
  Qed.

  (* with a hash that does not collide on the encodings involved, the expression found under
     the hash of e is e *)
  Lemma keyed_lookup_unique reg e e' :
    keyed reg -> lookup (key_of hash e) reg = Some e' ->
    (hash (enc e) = hash (enc e') -> enc e = enc e') -> enc e = enc e'.
  Proof. intros HK L Hinj. apply Hinj. exact (HK _ _ L). Qed.
End Reg.

(* ================================================================ registration in dependency order
   (the rule of the Tezos protocol: an expression may only mention constants registered before
   it, under a fresh hash) gives an acyclic registry, and the budget of [resolve_top] suffices *)

Fixpoint ordered (reg : registry) : Prop :=
  match reg with
  | [] => True
  | (k, e) :: r =>
      lookup k r = None /\ (forall h, In h (refs e) -> lookup h r <> None) /\ ordered r
  end.

(* position from the oldest entry *)
Fixpoint pos_rank (h : bytes) (reg : registry) : nat :=
  match reg with
  | [] => 0
  | (k, _) :: r => if bytes_eqb k h then length r else pos_rank h r
  end.

Lemma pos_rank_lt h : forall reg, lookup h reg <> None -> pos_rank h reg < length reg.
Proof.
  induction reg as [|[k e] r IH]; intro H; [cbn in H; congruence|].
  cbn [lookup pos_rank length] in *. destruct (bytes_eqb k h); [lia|]. specialize (IH H). lia.
Qed.

Lemma ordered_refs_registered : forall reg, ordered reg ->
  forall h e, lookup h reg = Some e -> forall h', In h' (refs e) -> lookup h' reg <> None.
Proof.
  induction reg as [|[k e0] r IH]; intros HO h e L h' Hin; [discriminate|].
  destruct HO as (Hfresh & Hrefs & HO). cbn [lookup] in *.
  assert (Hr : lookup h' r <> None).
  { destruct (bytes_eqb k h) eqn:E.
    - injection L as <-. apply Hrefs, Hin.
    - eapply IH; eassumption. }
  destruct (bytes_eqb k h'); [discriminate|exact Hr].
Qed.

Lemma ordered_ranked : forall reg, ordered reg -> ranked reg (fun h => pos_rank h reg).
Proof.
  induction reg as [|[k e0] r IH]; intros HO h e L h' Hin Hreg; [discriminate|].
  pose proof HO as HO'. destruct HO as (Hfresh & Hrefs & HO). cbn [lookup pos_rank] in *.
  assert (Hk' : forall x, lookup x r <> None -> bytes_eqb k x = false).
  { intros x Hx. destruct (bytes_eqb k x) eqn:E; [|reflexivity].
    apply bytes_eqb_spec in E. subst. congruence. }
  destruct (bytes_eqb k h) eqn:E.
  - injection L as <-. pose proof (Hrefs h' Hin) as Hr. rewrite (Hk' h' Hr).
    apply pos_rank_lt, Hr.
  - assert (Hr : lookup h' r <> None) by (eapply ordered_refs_registered; eassumption).
    rewrite (Hk' h' Hr). apply (IH HO h e L h' Hin Hr).
Qed.

Lemma resolve_top_ordered reg n : ordered reg -> resolve_top reg n <> RFuel.
Proof.
  intro HO. unfold resolve_top.
  apply (resolve_no_fuel reg _ (ordered_ranked reg HO)). intros h _ Hreg.
  apply pos_rank_lt, Hreg.
Qed.
