(* Proofs/Arith_proofs.v — lemmas about Michelson/Arith.v *)
From Coq Require Import List ZArith Bool Lia ZifyBool.
From Coq.Strings Require Import Byte.
From PV Require Import Base.Bytes Base.Result Michelson.Arith.
Import ListNotations.
Local Open Scope Z_scope.

(* ------------------------------------------------------------------------------------------ *)
(* bit_length                                                                                  *)
(* ------------------------------------------------------------------------------------------ *)

Lemma bit_length_nonneg z : 0 <= py_bit_length z.
Proof.
  unfold py_bit_length. destruct (z =? 0) eqn:E; [lia|].
  pose proof (Z.log2_nonneg (Z.abs z)). lia.
Qed.

(* for m >= 0 : m.bit_length() <= k  <->  m < 2^k *)
Lemma bit_length_le_iff m k : 0 <= m -> 0 <= k -> (py_bit_length m <= k <-> m < 2 ^ k).
Proof.
  intros Hm Hk. unfold py_bit_length.
  destruct (m =? 0) eqn:E.
  - apply Z.eqb_eq in E. subst. split; intros _; [apply Z.pow_pos_nonneg; lia | lia].
  - apply Z.eqb_neq in E. rewrite Z.abs_eq by lia.
    assert (Hpos : 0 < m) by lia.
    rewrite (Z.log2_lt_pow2 m k Hpos). lia.
Qed.

Lemma bit_length_spec m : 0 < m -> 2 ^ (py_bit_length m - 1) <= m < 2 ^ py_bit_length m.
Proof.
  intros Hm. unfold py_bit_length.
  destruct (m =? 0) eqn:E; [lia|]. rewrite Z.abs_eq by lia.
  replace (Z.log2 m + 1 - 1) with (Z.log2 m) by lia.
  replace (Z.log2 m + 1) with (Z.succ (Z.log2 m)) by lia.
  apply Z.log2_spec; assumption.
Qed.

(* ------------------------------------------------------------------------------------------ *)
(* value constructors                                                                          *)
(* ------------------------------------------------------------------------------------------ *)

Lemma mk_nat z : mk TNat z = if 0 <=? z then Ok (VNat z) else Reject.
Proof. unfold mk. destruct (z <? 0) eqn:E, (0 <=? z) eqn:F; try reflexivity; lia. Qed.

(* MutezType.from_value fails exactly outside [0, 2^63) *)
Lemma mk_mutez z : mk TMutez z = ref_mutez z.
Proof.
  unfold mk, ref_mutez, in_mutez, MUTEZ_LIMIT.
  destruct (z <? 0) eqn:E.
  - destruct (0 <=? z) eqn:F; [lia | reflexivity].
  - assert (H0 : 0 <= z) by lia.
    pose proof (bit_length_le_iff z 63 H0 ltac:(lia)) as Hb.
    destruct (py_bit_length z >? 63) eqn:G, (0 <=? z) eqn:F, (z <? 2 ^ 63) eqn:K; simpl; try reflexivity; lia.
Qed.

Lemma mk_mutez_ok_iff z : (exists v, mk TMutez z = Ok v) <-> 0 <= z < 2 ^ 63.
Proof.
  rewrite mk_mutez. unfold ref_mutez, in_mutez, MUTEZ_LIMIT.
  destruct ((0 <=? z) && (z <? 2 ^ 63)) eqn:E; split.
  - intros _. lia.
  - intros _. eexists. reflexivity.
  - intros [v Hv]. discriminate.
  - intros H. lia.
Qed.

(* ------------------------------------------------------------------------------------------ *)
(* EDIV                                                                                        *)
(* ------------------------------------------------------------------------------------------ *)

Lemma py_ediv_zero a : py_ediv a 0 = None.
Proof. reflexivity. Qed.

Lemma py_ediv_none_iff a b : py_ediv a b = None <-> b = 0.
Proof.
  unfold py_ediv, py_divmod. destruct (b =? 0) eqn:E.
  - split; [lia | reflexivity].
  - split; [|lia]. destruct (a mod b <? 0); discriminate.
Qed.

(* sound: the pair returned satisfies the Euclidean specification *)
Lemma py_ediv_sound a b q r : py_ediv a b = Some (q, r) -> b <> 0 /\ a = b * q + r /\ 0 <= r < Z.abs b.
Proof.
  unfold py_ediv, py_divmod. destruct (b =? 0) eqn:E; [discriminate|].
  assert (Hb : b <> 0) by lia.
  pose proof (Z.div_mod a b Hb) as Hdm.
  destruct (a mod b <? 0) eqn:F; intros H; injection H as <- <-.
  - assert (b < 0) by (destruct (Z.lt_ge_cases 0 b) as [Hp|Hp]; [pose proof (Z.mod_pos_bound a b Hp); lia | lia]).
    pose proof (Z.mod_neg_bound a b H). lia.
  - destruct (Z.lt_ge_cases 0 b) as [Hp|Hp].
    + pose proof (Z.mod_pos_bound a b Hp). lia.
    + assert (Hn : b < 0) by lia. pose proof (Z.mod_neg_bound a b Hn).
      assert (a mod b = 0) by lia. lia.
Qed.

Lemma euclid_unique b q r q' r' :
  b * q + r = b * q' + r' -> 0 <= r < Z.abs b -> 0 <= r' < Z.abs b -> q = q' /\ r = r'.
Proof.
  intros Heq Hr Hr'.
  assert (Hd : b * (q - q') = r' - r) by lia.
  assert (Habs : Z.abs (b * (q - q')) < Z.abs b) by (rewrite Hd; lia).
  rewrite Z.abs_mul in Habs.
  assert (Z.abs (q - q') = 0) by nia.
  assert (q = q') by lia. subst. lia.
Qed.

Lemma py_ediv_complete a b q r :
  b <> 0 -> a = b * q + r -> 0 <= r < Z.abs b -> py_ediv a b = Some (q, r).
Proof.
  intros Hb Ha Hr.
  destruct (py_ediv a b) as [[q0 r0]|] eqn:E.
  - apply py_ediv_sound in E. destruct E as (_ & E1 & E2).
    destruct (euclid_unique b q r q0 r0); [lia | lia | lia | subst; reflexivity].
  - apply py_ediv_none_iff in E. contradiction.
Qed.

Lemma py_ediv_iff a b q r :
  py_ediv a b = Some (q, r) <-> (b <> 0 /\ a = b * q + r /\ 0 <= r < Z.abs b).
Proof.
  split; [apply py_ediv_sound | intros (H1 & H2 & H3); apply py_ediv_complete; assumption].
Qed.

Lemma euclid_spec a b : b <> 0 -> let '(q, r) := euclid a b in a = b * q + r /\ 0 <= r < Z.abs b.
Proof.
  intros Hb. unfold euclid.
  assert (Hab : 0 < Z.abs b) by lia.
  pose proof (Z.div_mod a (Z.abs b) ltac:(lia)) as Hdm.
  pose proof (Z.mod_pos_bound a (Z.abs b) Hab) as Hm.
  split; [|assumption].
  destruct (Z.abs_spec b) as [[Hs Ha]|[Hs Ha]].
  - rewrite Z.sgn_pos by lia. rewrite Ha in *. lia.
  - rewrite Z.sgn_neg by lia. rewrite Ha in *. lia.
Qed.

Lemma py_ediv_euclid a b : b <> 0 -> py_ediv a b = Some (euclid a b).
Proof.
  intros Hb. pose proof (euclid_spec a b Hb) as H. destruct (euclid a b) as [q r].
  destruct H. apply py_ediv_complete; assumption.
Qed.

Lemma euclid_nonneg a b : 0 <= a -> 0 < b -> let '(q, r) := euclid a b in 0 <= q <= a /\ 0 <= r < b.
Proof.
  intros Ha Hb. unfold euclid. rewrite Z.abs_eq by lia. rewrite Z.sgn_pos by lia.
  pose proof (Z.mod_pos_bound a b Hb). pose proof (Z.div_pos a b Ha Hb).
  assert (a / b <= a) by (apply Z.div_le_upper_bound; nia).
  lia.
Qed.

(* ------------------------------------------------------------------------------------------ *)
(* bytes <-> numbers                                                                           *)
(* ------------------------------------------------------------------------------------------ *)

Lemma byte_Z_range b : 0 <= byte_Z b < 256.
Proof. unfold byte_Z. pose proof (to_N_lt_256 b). lia. Qed.

Lemma byte_Z_Z_byte x : 0 <= x < 256 -> byte_Z (Z_byte x) = x.
Proof.
  intros Hx. unfold byte_Z, Z_byte. rewrite to_N_b8.
  rewrite N.mod_small by lia. lia.
Qed.

Lemma Z_byte_byte_Z b : Z_byte (byte_Z b) = b.
Proof. unfold byte_Z, Z_byte. rewrite N2Z.id. apply b8_to_N. Qed.

Lemma byte_Z_inj a b : byte_Z a = byte_Z b -> a = b.
Proof. intros H. rewrite <- (Z_byte_byte_Z a), <- (Z_byte_byte_Z b), H. reflexivity. Qed.

Lemma pow256_pos n : 0 < 256 ^ Z.of_nat n.
Proof. apply Z.pow_pos_nonneg; lia. Qed.

Lemma pow256_S n : 256 ^ Z.of_nat (S n) = 256 * 256 ^ Z.of_nat n.
Proof. rewrite Nat2Z.inj_succ, Z.pow_succ_r by lia. reflexivity. Qed.

Lemma be_val_app acc l1 l2 : be_val acc (l1 ++ l2) = be_val (be_val acc l1) l2.
Proof. revert acc. induction l1 as [|b l1 IH]; intros acc; simpl; [reflexivity | apply IH]. Qed.

Lemma be_val_acc acc l : be_val acc l = acc * 256 ^ Z.of_nat (length l) + be_val 0 l.
Proof.
  revert acc. induction l as [|b l IH]; intros acc.
  - simpl. lia.
  - cbn [be_val length]. rewrite (IH (acc * 256 + byte_Z b)), (IH (0 * 256 + byte_Z b)), pow256_S. lia.
Qed.

Lemma be_val_bound l : 0 <= be_val 0 l < 256 ^ Z.of_nat (length l).
Proof.
  induction l as [|b l IH].
  - simpl. lia.
  - cbn [be_val length]. rewrite be_val_acc, pow256_S.
    pose proof (byte_Z_range b). pose proof (pow256_pos (length l)). nia.
Qed.

(* Horner accumulation = positional value *)
Lemma be_val_unsigned l : be_val 0 l = unsigned_value l.
Proof.
  induction l as [|b l IH].
  - reflexivity.
  - cbn [be_val unsigned_value]. rewrite be_val_acc, IH. lia.
Qed.

Lemma unsigned_value_bound l : 0 <= unsigned_value l < 256 ^ Z.of_nat (length l).
Proof. rewrite <- be_val_unsigned. apply be_val_bound. Qed.

Lemma length_be_digits len z : length (be_digits len z) = len.
Proof.
  revert z. induction len as [|k IH]; intros z; simpl; [reflexivity|].
  rewrite app_length, IH. simpl. lia.
Qed.

Lemma be_digits_step z : Z.shiftr z 8 = z / 256 /\ Z.land z 255 = z mod 256.
Proof.
  split.
  - rewrite Z.shiftr_div_pow2 by lia. reflexivity.
  - change 255 with (Z.ones 8). rewrite Z.land_ones by lia. reflexivity.
Qed.

Lemma be_val_digits len z : be_val 0 (be_digits len z) = z mod 256 ^ Z.of_nat len.
Proof.
  revert z. induction len as [|k IH]; intros z.
  - simpl. rewrite Z.mod_1_r. reflexivity.
  - cbn [be_digits]. destruct (be_digits_step z) as [-> ->]. rewrite be_val_app, IH. cbn [be_val].
    rewrite byte_Z_Z_byte by (apply Z.mod_pos_bound; lia).
    rewrite pow256_S.
    rewrite (Z.rem_mul_r z 256 (256 ^ Z.of_nat k)) by (pose proof (pow256_pos k); lia).
    lia.
Qed.

(* equal length and equal value -> equal strings *)
Lemma be_val_inj l1 l2 : length l1 = length l2 -> be_val 0 l1 = be_val 0 l2 -> l1 = l2.
Proof.
  revert l2. induction l1 as [|a l1 IH]; intros [|b l2] Hlen Hval; try discriminate; [reflexivity|].
  cbn [be_val length] in *. injection Hlen as Hlen.
  rewrite (be_val_acc (0 * 256 + byte_Z a)), (be_val_acc (0 * 256 + byte_Z b)) in Hval.
  rewrite Hlen in Hval.
  pose proof (be_val_bound l1) as B1. pose proof (be_val_bound l2) as B2. rewrite Hlen in B1.
  pose proof (pow256_pos (length l2)) as Hp.
  pose proof (byte_Z_range a). pose proof (byte_Z_range b).
  assert (byte_Z a = byte_Z b) by nia.
  assert (be_val 0 l1 = be_val 0 l2) by nia.
  f_equal; [apply byte_Z_inj; assumption | apply IH; assumption].
Qed.

(* the sign test of from_bytes (first byte >= 0x80) is the test n >= 256^len / 2 *)
Lemma first_byte_test b0 r :
  (128 <=? byte_Z b0) = (256 ^ Z.of_nat (length (b0 :: r)) / 2 <=? be_val 0 (b0 :: r)).
Proof.
  cbn [be_val length]. rewrite be_val_acc, pow256_S.
  pose proof (be_val_bound r) as B. pose proof (pow256_pos (length r)) as Hp.
  pose proof (byte_Z_range b0).
  replace (256 * 256 ^ Z.of_nat (length r) / 2) with (128 * 256 ^ Z.of_nat (length r))
    by (replace (256 * 256 ^ Z.of_nat (length r)) with ((128 * 256 ^ Z.of_nat (length r)) * 2) by lia;
        rewrite Z.div_mul by lia; reflexivity).
  destruct (128 <=? byte_Z b0) eqn:E; symmetry.
  - apply Z.leb_le. nia.
  - apply Z.leb_gt. nia.
Qed.

Lemma py_from_bytes_signed_alt l :
  py_from_bytes true l =
  match l with
  | [] => 0
  | _ => let n := be_val 0 l in
         if 256 ^ Z.of_nat (length l) / 2 <=? n then n - 256 ^ Z.of_nat (length l) else n
  end.
Proof.
  destruct l as [|b0 r]; [reflexivity|].
  unfold py_from_bytes. rewrite (first_byte_test b0 r). reflexivity.
Qed.

(* range of the two's-complement reading *)
Lemma py_from_bytes_signed_range l :
  l <> [] -> - (256 ^ Z.of_nat (length l) / 2) <= py_from_bytes true l < 256 ^ Z.of_nat (length l) / 2.
Proof.
  intros Hl. rewrite py_from_bytes_signed_alt. destruct l as [|b0 r]; [contradiction|].
  set (l := b0 :: r). cbv zeta.
  pose proof (be_val_bound l) as B.
  assert (Hw : 256 ^ Z.of_nat (length l) = 2 * (256 ^ Z.of_nat (length l) / 2)).
  { unfold l. cbn [length]. rewrite pow256_S.
    replace (256 * 256 ^ Z.of_nat (length r)) with ((128 * 256 ^ Z.of_nat (length r)) * 2) by lia.
    rewrite Z.div_mul by lia. lia. }
  destruct (256 ^ Z.of_nat (length l) / 2 <=? be_val 0 l) eqn:E; lia.
Qed.

(* the reference two's-complement reading (sign bit by testbit) = Python's from_bytes(signed=True) *)
Lemma signed_value_py l : signed_value l = py_from_bytes true l.
Proof.
  rewrite py_from_bytes_signed_alt. unfold signed_value. rewrite <- be_val_unsigned.
  destruct l as [|b0 r].
  - reflexivity.
  - set (l := b0 :: r). cbv zeta.
    pose proof (be_val_bound l) as B.
    assert (Hlen : 0 < Z.of_nat (length l)) by (unfold l; cbn [length]; lia).
    set (n := Z.of_nat (length l)) in *.
    assert (Hpow : 256 ^ n = 2 ^ (8 * n)).
    { replace 256 with (2 ^ 8) by reflexivity. rewrite <- Z.pow_mul_r by lia. reflexivity. }
    assert (Hhalf : 2 ^ (8 * n) = 2 * 2 ^ (8 * n - 1)).
    { rewrite <- Z.pow_succ_r by lia. f_equal. lia. }
    rewrite Hpow in *. 
    replace (2 ^ (8 * n) / 2) with (2 ^ (8 * n - 1))
      by (rewrite Hhalf at 1; rewrite (Z.mul_comm 2 (2 ^ (8 * n - 1))), Z.div_mul by lia; reflexivity).
    rewrite Z.testbit_eqb by lia.
    assert (Hp : 0 < 2 ^ (8 * n - 1)) by (apply Z.pow_pos_nonneg; lia).
    destruct (2 ^ (8 * n - 1) <=? be_val 0 l) eqn:E.
    + assert (Hq : be_val 0 l / 2 ^ (8 * n - 1) = 1).
      { symmetry. apply (Z.div_unique_pos _ _ 1 (be_val 0 l - 2 ^ (8 * n - 1))); lia. }
      rewrite Hq. reflexivity.
    + rewrite Z.div_small by lia. reflexivity.
Qed.

(* ------------------------------------------------------------------------------------------ *)
(* BYTES: the length formula is exactly the smallest length that fits                          *)
(* ------------------------------------------------------------------------------------------ *)

Lemma div8_le a n : a / 8 <= n <-> a < 8 * n + 8.
Proof.
  pose proof (Z.div_mod a 8 ltac:(lia)). pose proof (Z.mod_pos_bound a 8 ltac:(lia)). lia.
Qed.

Lemma pow256_pow2 n : 256 ^ Z.of_nat n = 2 ^ (8 * Z.of_nat n).
Proof. replace 256 with (2 ^ 8) by reflexivity. rewrite <- Z.pow_mul_r by lia. reflexivity. Qed.

Lemma pow256_half n : (1 <= n)%nat -> 256 ^ Z.of_nat n / 2 = 2 ^ (8 * Z.of_nat n - 1).
Proof.
  intros Hn. rewrite pow256_pow2.
  replace (2 ^ (8 * Z.of_nat n)) with (2 ^ (8 * Z.of_nat n - 1) * 2)
    by (rewrite Z.mul_comm, <- Z.pow_succ_r by lia; f_equal; lia).
  apply Z.div_mul. lia.
Qed.

Lemma bit_length_opp z : py_bit_length (- z) = py_bit_length z.
Proof.
  unfold py_bit_length. rewrite Z.abs_opp.
  destruct (z =? 0) eqn:E, (- z =? 0) eqn:F; try reflexivity; lia.
Qed.

Lemma bytes_len_nonneg s v : 0 <= bytes_len s v.
Proof.
  unfold bytes_len. destruct (v =? 0); [lia|].
  destruct s.
  - pose proof (bit_length_nonneg (v + (if v <? 0 then 1 else 0))). apply Z.div_pos; lia.
  - pose proof (bit_length_nonneg v). apply Z.div_pos; lia.
Qed.

Lemma unsigned_fits_iff v n : 0 < v -> (bytes_len false v <= Z.of_nat n <-> v < 256 ^ Z.of_nat n).
Proof.
  intros Hv. unfold bytes_len. destruct (v =? 0) eqn:E; [lia|].
  rewrite div8_le, pow256_pow2.
  rewrite <- (bit_length_le_iff v (8 * Z.of_nat n)) by lia. lia.
Qed.

Lemma signed_fits_iff v n : v <> 0 -> (1 <= n)%nat ->
  (bytes_len true v <= Z.of_nat n <-> - (256 ^ Z.of_nat n / 2) <= v < 256 ^ Z.of_nat n / 2).
Proof.
  intros Hv Hn. unfold bytes_len. destruct (v =? 0) eqn:E; [lia|].
  rewrite div8_le, (pow256_half n Hn).
  assert (Hp : 0 < 2 ^ (8 * Z.of_nat n - 1)) by (apply Z.pow_pos_nonneg; lia).
  destruct (v <? 0) eqn:S.
  - replace (v + 1) with (- (- v - 1)) by lia. rewrite bit_length_opp.
    pose proof (bit_length_le_iff (- v - 1) (8 * Z.of_nat n - 1) ltac:(lia) ltac:(lia)). lia.
  - rewrite Z.add_0_r.
    pose proof (bit_length_le_iff v (8 * Z.of_nat n - 1) ltac:(lia) ltac:(lia)). lia.
Qed.

Lemma bytes_len_signed_pos v : v <> 0 -> 1 <= bytes_len true v.
Proof.
  intros Hv. unfold bytes_len. destruct (v =? 0) eqn:E; [lia|].
  pose proof (bit_length_nonneg (v + (if v <? 0 then 1 else 0))).
  apply Z.div_le_lower_bound; lia.
Qed.

(* BYTES on a natural number never overflows, has the computed length, and NAT reads it back *)
Lemma py_bytes_unsigned v : 0 <= v ->
  exists b, py_bytes false v = Ok b /\ Z.of_nat (length b) = bytes_len false v /\ py_from_bytes false b = v.
Proof.
  intros Hv. unfold py_bytes.
  pose proof (bytes_len_nonneg false v) as Hl.
  set (n := Z.to_nat (bytes_len false v)).
  assert (Hn : Z.of_nat n = bytes_len false v) by (unfold n; lia).
  assert (Hfit : v < 256 ^ Z.of_nat n).
  { destruct (Z.eq_dec v 0) as [->|Hne]; [apply pow256_pos|].
    apply unsigned_fits_iff; lia. }
  exists (be_digits n v). unfold py_to_bytes.
  destruct ((0 <=? v) && (v <? 256 ^ Z.of_nat n)) eqn:E; [|lia].
  split; [reflexivity|]. split.
  - rewrite length_be_digits. assumption.
  - unfold py_from_bytes. rewrite be_val_digits. apply Z.mod_small. lia.
Qed.

(* BYTES on an integer never overflows, has the computed length, and INT reads it back *)
Lemma py_bytes_signed v :
  exists b, py_bytes true v = Ok b /\ Z.of_nat (length b) = bytes_len true v /\ py_from_bytes true b = v.
Proof.
  unfold py_bytes.
  destruct (Z.eq_dec v 0) as [->|Hne].
  - exists []. repeat split.
  - pose proof (bytes_len_signed_pos v Hne) as Hl.
    set (n := Z.to_nat (bytes_len true v)).
    assert (Hn : Z.of_nat n = bytes_len true v) by (unfold n; lia).
    assert (Hn1 : (1 <= n)%nat) by lia.
    assert (Hfit : - (256 ^ Z.of_nat n / 2) <= v < 256 ^ Z.of_nat n / 2)
      by (apply signed_fits_iff; lia).
    exists (be_digits n v). unfold py_to_bytes.
    destruct n as [|k] eqn:En; [lia|]. rewrite <- En in *.
    destruct ((- (256 ^ Z.of_nat n / 2) <=? v) && (v <? 256 ^ Z.of_nat n / 2)) eqn:E; [|lia].
    split; [reflexivity|]. split; [rewrite length_be_digits; assumption|].
    rewrite py_from_bytes_signed_alt.
    destruct (be_digits n v) as [|b0 r] eqn:Ed.
    { pose proof (length_be_digits n v) as Hlen. rewrite Ed in Hlen. simpl in Hlen. lia. }
    rewrite <- Ed. cbv zeta. rewrite length_be_digits, be_val_digits.
    pose proof (pow256_pos n) as Hw.
    assert (Hw2 : 256 ^ Z.of_nat n = 2 * (256 ^ Z.of_nat n / 2)).
    { rewrite (pow256_half n Hn1), pow256_pow2, <- Z.pow_succ_r by lia. f_equal. lia. }
    destruct (Z.lt_ge_cases v 0) as [Hneg|Hpos].
    + assert (Hm : v mod 256 ^ Z.of_nat n = v + 256 ^ Z.of_nat n).
      { symmetry. apply (Z.mod_unique_pos _ _ (-1)); lia. }
      rewrite Hm. destruct (256 ^ Z.of_nat n / 2 <=? v + 256 ^ Z.of_nat n) eqn:T; lia.
    + rewrite Z.mod_small by lia.
      destruct (256 ^ Z.of_nat n / 2 <=? v) eqn:T; lia.
Qed.

(* any byte string that reads back as v is at least as long as BYTES v *)
Lemma bytes_len_minimal_unsigned v b : py_from_bytes false b = v -> bytes_len false v <= Z.of_nat (length b).
Proof.
  intros <-. unfold py_from_bytes. pose proof (be_val_bound b) as B.
  destruct (Z.eq_dec (be_val 0 b) 0) as [E|E].
  - rewrite E. unfold bytes_len. simpl. lia.
  - apply unsigned_fits_iff; lia.
Qed.

Lemma bytes_len_minimal_signed v b : py_from_bytes true b = v -> bytes_len true v <= Z.of_nat (length b).
Proof.
  intros <-. destruct (Z.eq_dec (py_from_bytes true b) 0) as [E|E].
  - rewrite E. unfold bytes_len. simpl. lia.
  - destruct b as [|b0 r]; [simpl in E; lia|].
    apply signed_fits_iff; [assumption | simpl; lia |].
    apply py_from_bytes_signed_range. discriminate.
Qed.

Lemma min_encoding_unsigned v b : 0 <= v -> py_bytes false v = Ok b -> min_encoding false v b.
Proof.
  intros Hv Hb. destruct (py_bytes_unsigned v Hv) as (b0 & H1 & H2 & H3).
  rewrite Hb in H1. injection H1 as <-.
  unfold min_encoding. split.
  - rewrite <- be_val_unsigned. exact H3.
  - intros b' Hb'. rewrite <- be_val_unsigned in Hb'.
    pose proof (bytes_len_minimal_unsigned v b' Hb'). lia.
Qed.

Lemma min_encoding_signed v b : py_bytes true v = Ok b -> min_encoding true v b.
Proof.
  intros Hb. destruct (py_bytes_signed v) as (b0 & H1 & H2 & H3).
  rewrite Hb in H1. injection H1 as <-.
  unfold min_encoding. split.
  - rewrite signed_value_py. exact H3.
  - intros b' Hb'. rewrite signed_value_py in Hb'.
    pose proof (bytes_len_minimal_signed v b' Hb'). lia.
Qed.

(* equal length and equal two's-complement value -> equal strings *)
Lemma signed_inj l1 l2 : length l1 = length l2 -> py_from_bytes true l1 = py_from_bytes true l2 -> l1 = l2.
Proof.
  intros Hlen Hval. apply be_val_inj; [assumption|].
  rewrite !py_from_bytes_signed_alt in Hval.
  destruct l1 as [|a1 r1], l2 as [|a2 r2]; try discriminate; [reflexivity|].
  set (l1 := a1 :: r1) in *. set (l2 := a2 :: r2) in *. cbv zeta in Hval.
  pose proof (be_val_bound l1) as B1. pose proof (be_val_bound l2) as B2.
  rewrite Hlen in *.
  destruct (256 ^ Z.of_nat (length l2) / 2 <=? be_val 0 l1) eqn:E1,
           (256 ^ Z.of_nat (length l2) / 2 <=? be_val 0 l2) eqn:E2; lia.
Qed.

Lemma min_encoding_unique s z b1 b2 : min_encoding s z b1 -> min_encoding s z b2 -> b1 = b2.
Proof.
  intros [V1 M1] [V2 M2].
  assert (Hlen : length b1 = length b2) by (pose proof (M1 b2 V2); pose proof (M2 b1 V1); lia).
  destruct s.
  - rewrite signed_value_py in V1, V2. apply signed_inj; congruence.
  - rewrite <- be_val_unsigned in V1, V2. apply be_val_inj; congruence.
Qed.

(* round trips *)
Lemma bytes_nat_roundtrip n : 0 <= n ->
  exists b, exec BYTES [VNat n] = Ok (VBytes b) /\ exec NAT [VBytes b] = Ok (VNat n).
Proof.
  intros Hn. destruct (py_bytes_unsigned n Hn) as (b & H1 & _ & H3).
  exists b. cbn [exec exec_bytes exec_nat]. rewrite H1, H3. cbn [bind].
  split; [reflexivity|]. rewrite mk_nat. destruct (0 <=? n) eqn:E; [reflexivity|lia].
Qed.

Lemma bytes_int_roundtrip z :
  exists b, exec BYTES [VInt z] = Ok (VBytes b) /\ exec INT [VBytes b] = Ok (VInt z).
Proof.
  destruct (py_bytes_signed z) as (b & H1 & _ & H3).
  exists b. cbn [exec exec_bytes exec_int]. rewrite H1, H3. cbn [bind]. split; reflexivity.
Qed.

(* the other direction: a byte string survives INT;BYTES exactly when it is minimal *)
Lemma int_bytes_roundtrip_iff b :
  exec BYTES [VInt (py_from_bytes true b)] = Ok (VBytes b) <->
  (forall b', py_from_bytes true b' = py_from_bytes true b -> (length b <= length b')%nat).
Proof.
  destruct (py_bytes_signed (py_from_bytes true b)) as (b0 & H1 & H2 & H3).
  cbn [exec exec_bytes]. rewrite H1. cbn [bind]. split.
  - intros H. injection H as ->. intros b' Hb'.
    pose proof (bytes_len_minimal_signed _ b' Hb'). lia.
  - intros Hmin. f_equal. f_equal. apply signed_inj; [|assumption].
    pose proof (Hmin b0 H3). pose proof (bytes_len_minimal_signed _ b eq_refl). lia.
Qed.

(* ------------------------------------------------------------------------------------------ *)
(* every overload computes its reference result                                               *)
(* ------------------------------------------------------------------------------------------ *)

Lemma euclid_nonneg' a b : 0 <= a -> 0 < b ->
  let '(q, r) := euclid a b in 0 <= q <= a /\ 0 <= r < b /\ r <= a.
Proof.
  intros Ha Hb. pose proof (euclid_nonneg a b Ha Hb) as H. unfold euclid in *.
  rewrite Z.abs_eq in * by lia. pose proof (Z.mod_le a b Ha Hb). lia.
Qed.

Lemma euclid_rem_nonneg a b : b <> 0 -> 0 <= snd (euclid a b) < Z.abs b.
Proof. intros Hb. pose proof (euclid_spec a b Hb) as H. destruct (euclid a b). simpl. lia. Qed.

Lemma shiftl_spec a s : 0 <= s -> py_lshift a s = a * 2 ^ s.
Proof. intros Hs. unfold py_lshift. apply Z.shiftl_mul_pow2. assumption. Qed.

Lemma shiftr_spec a s : 0 <= s -> py_rshift a s = a / 2 ^ s.
Proof. intros Hs. unfold py_rshift. apply Z.shiftr_div_pow2. assumption. Qed.

Lemma invert_spec a : py_invert a = - a - 1.
Proof. unfold py_invert, Z.lnot. lia. Qed.

Ltac wf_unfold :=
  cbn [forallb wf_val] in *; unfold ref_mutez, in_mutez, MUTEZ_LIMIT in *.

Ltac split_ifs :=
  repeat match goal with
         | |- context [if ?c then _ else _] => destruct c eqn:?
         end.

Ltac fin := wf_unfold; split_ifs; cbn [bind]; try reflexivity; try lia; try nia.

Ltac ediv_case a b :=
  let E := fresh "E" in
  destruct (b =? 0) eqn:E;
  [ apply Z.eqb_eq in E; subst b; reflexivity
  | apply Z.eqb_neq in E; rewrite (py_ediv_euclid a b E);
    let Hs := fresh "Hs" in let Hr := fresh "Hr" in
    pose proof (euclid_rem_nonneg a b E) as Hr;
    first [ assert (Hs : 0 <= a /\ 0 < b) by (wf_unfold; lia);
            pose proof (euclid_nonneg' a b (proj1 Hs) (proj2 Hs)) | idtac ];
    destruct (euclid a b) as [q r]; cbn [snd] in *;
    rewrite ?mk_nat, ?mk_mutez; cbn [mk bind]; fin ].

Theorem exec_exact o st r : forallb wf_val st = true -> Ref o st r -> exec o st = r.
Proof.
  intros Hwf HR.
  destruct o;
    (destruct st as [|a [|b [|c st]]];
     [ cbn in HR; discriminate HR
     | destruct a; try (cbn in HR; discriminate HR)
     | destruct a; try (cbn in HR; discriminate HR); destruct b; try (cbn in HR; discriminate HR)
     | destruct a; try (cbn in HR; discriminate HR); destruct b; try (cbn in HR; discriminate HR) ]).
  all: try (cbn [Ref ref] in HR; injection HR as <-).
  (* ADD *)
  all: try (cbn [exec binop num add_table sub_table mul_table]; rewrite ?mk_nat, ?mk_mutez; cbn [mk]; solve [fin]).
  (* SUB_MUTEZ, ABS, NEG, ISNAT, INT nat, NOT *)
  all: try (cbn [exec exec_sub_mutez exec_abs exec_neg exec_isnat exec_int exec_not];
            rewrite ?mk_nat, ?mk_mutez, ?invert_spec; solve [fin]).
  (* EDIV *)
  1-6: cbn [exec exec_ediv num ediv_table];
       match goal with |- context [py_ediv ?a ?b] =>
         change (Z.sgn b * (a / Z.abs b)) with (fst (euclid a b));
         change (a mod Z.abs b) with (snd (euclid a b));
         let E := fresh "E" in
         destruct (b =? 0) eqn:E;
         [ apply Z.eqb_eq in E; subst b; reflexivity
         | apply Z.eqb_neq in E; rewrite (py_ediv_euclid a b E);
           pose proof (euclid_rem_nonneg a b E) as Hr;
           try (assert (Hs : 0 <= a /\ 0 < b) by (wf_unfold; lia);
                pose proof (euclid_nonneg' a b (proj1 Hs) (proj2 Hs)) as Hq);
           destruct (euclid a b) as [q r0]; cbn [fst snd] in *;
           rewrite ?mk_nat, ?mk_mutez; cbn [mk bind]; rewrite ?mk_nat, ?mk_mutez; fin ]
       end.
  (* INT / NAT on bytes *)
  - cbn [exec exec_int]. rewrite signed_value_py. reflexivity.
  - cbn [exec exec_nat]. unfold py_from_bytes. rewrite be_val_unsigned, mk_nat.
    pose proof (unsigned_value_bound b). fin.
  (* BYTES *)
  - cbn [Ref] in HR. destruct HR as (b & -> & Hmin).
    destruct (py_bytes_signed z) as (b0 & H1 & _ & _).
    cbn [exec exec_bytes]. rewrite H1. cbn [bind]. do 2 f_equal.
    apply (min_encoding_unique true z); [apply min_encoding_signed; assumption | assumption].
  - cbn [Ref] in HR. destruct HR as (b & -> & Hmin).
    assert (Hz : 0 <= z) by (wf_unfold; lia).
    destruct (py_bytes_unsigned z Hz) as (b0 & H1 & _ & _).
    cbn [exec exec_bytes]. rewrite H1. cbn [bind]. do 2 f_equal.
    apply (min_encoding_unique false z); [apply min_encoding_unsigned; assumption | assumption].
  (* shifts *)
  - cbn [exec exec_shift]. assert (Hz : 0 <= z /\ 0 <= z0) by (wf_unfold; lia).
    rewrite shiftl_spec, mk_nat by lia.
    pose proof (Z.pow_nonneg 2 z0 ltac:(lia)). fin.
  - cbn [exec exec_shift]. assert (Hz : 0 <= z /\ 0 <= z0) by (wf_unfold; lia).
    rewrite shiftr_spec, mk_nat by lia.
    pose proof (Z.pow_pos_nonneg 2 z0 ltac:(lia) ltac:(lia)).
    pose proof (Z.div_pos z (2 ^ z0) ltac:(lia) ltac:(lia)). fin.
  (* bitwise *)
  - cbn [exec exec_and]. unfold py_and. rewrite mk_nat.
    assert (0 <= Z.land z z0) by (apply Z.land_nonneg; right; wf_unfold; lia). fin.
  - cbn [exec exec_and]. unfold py_and. rewrite mk_nat.
    assert (0 <= Z.land z z0) by (apply Z.land_nonneg; right; wf_unfold; lia). fin.
  - cbn [exec exec_boolean_add]. unfold py_or. rewrite mk_nat.
    assert (0 <= Z.lor z z0) by (apply Z.lor_nonneg; wf_unfold; lia). fin.
  - cbn [exec exec_boolean_add]. unfold py_xor. rewrite mk_nat.
    assert (0 <= Z.lxor z z0) by (apply Z.lxor_nonneg; wf_unfold; lia). fin.
Qed.

(* ------------------------------------------------------------------------------------------ *)
(* operand shapes outside the reference typing are rejected (except the listed lenient ones)   *)
(* ------------------------------------------------------------------------------------------ *)

Definition specified (o : op) (st : list val) : bool :=
  match o, st with
  | BYTES, [VInt _] | BYTES, [VNat _] => true
  | _, _ => match ref o st with Some _ => true | None => false end
  end.

Theorem unspecified_rejected o st :
  specified o st = false -> lenient o st = false -> exec o st = Reject.
Proof.
  intros HS HL.
  destruct o;
    (destruct st as [|a [|b [|c st]]];
     [ reflexivity
     | destruct a; try (cbn in HS; discriminate HS); try (cbn in HL; discriminate HL); reflexivity
     | destruct a; try reflexivity; destruct b; try (cbn in HS; discriminate HS);
       try (cbn in HL; discriminate HL); reflexivity
     | destruct a; try reflexivity; destruct b; reflexivity ]).
Qed.

(* the specification is satisfiable on every specified operand list *)
Theorem Ref_total o st : forallb wf_val st = true -> specified o st = true -> exists r, Ref o st r.
Proof.
  intros Hwf HS.
  destruct o;
    (destruct st as [|a [|b [|c st]]];
     [ cbn in HS; discriminate HS
     | destruct a; try (cbn in HS; discriminate HS)
     | destruct a; try (cbn in HS; discriminate HS); destruct b; try (cbn in HS; discriminate HS)
     | destruct a; try (cbn in HS; discriminate HS); destruct b; try (cbn in HS; discriminate HS) ]).
  all: try (cbn [Ref ref]; eexists; reflexivity).
  - destruct (py_bytes_signed z) as (b & H1 & _ & _). exists (Ok (VBytes b)). cbn [Ref].
    exists b. split; [reflexivity | apply min_encoding_signed; assumption].
  - assert (Hz : 0 <= z) by (wf_unfold; lia).
    destruct (py_bytes_unsigned z Hz) as (b & H1 & _ & _). exists (Ok (VBytes b)). cbn [Ref].
    exists b. split; [reflexivity | apply min_encoding_unsigned; assumption].
Qed.

(* ------------------------------------------------------------------------------------------ *)
(* failure characterisations                                                                   *)
(* ------------------------------------------------------------------------------------------ *)

Lemma ref_mutez_reject_iff z : 0 <= z -> (ref_mutez z = Reject <-> 2 ^ 63 <= z).
Proof.
  intros Hz. unfold ref_mutez, in_mutez, MUTEZ_LIMIT.
  destruct ((0 <=? z) && (z <? 2 ^ 63)) eqn:E; split; intros H; try discriminate; try reflexivity; lia.
Qed.

Theorem add_mutez_fails_iff a b : in_mutez a = true -> in_mutez b = true ->
  (exec ADD [VMutez a; VMutez b] = Reject <-> 2 ^ 63 <= a + b).
Proof.
  intros Ha Hb. cbn [exec binop num add_table]. rewrite mk_mutez.
  apply ref_mutez_reject_iff. unfold in_mutez in *. lia.
Qed.

Theorem mul_mutez_fails_iff a n : in_mutez a = true -> 0 <= n ->
  (exec MUL [VMutez a; VNat n] = Reject <-> 2 ^ 63 <= a * n) /\
  (exec MUL [VNat n; VMutez a] = Reject <-> 2 ^ 63 <= n * a).
Proof.
  intros Ha Hn. cbn [exec binop num mul_table]. rewrite !mk_mutez.
  unfold in_mutez in *. split; apply ref_mutez_reject_iff; nia.
Qed.

Theorem sub_mutez_fails_iff a b : in_mutez a = true -> in_mutez b = true ->
  (exec SUB [VMutez a; VMutez b] = Reject <-> a < b).
Proof.
  intros Ha Hb. cbn [exec binop num sub_table]. rewrite mk_mutez.
  unfold ref_mutez, in_mutez, MUTEZ_LIMIT in *.
  destruct ((0 <=? a - b) && (a - b <? 2 ^ 63)) eqn:E; split; intros H; try discriminate; try reflexivity; lia.
Qed.

Theorem sub_mutez_none_iff a b : in_mutez a = true -> in_mutez b = true ->
  (exec SUB_MUTEZ [VMutez a; VMutez b] = Ok (VNone TMutez) <-> a < b) /\
  (exec SUB_MUTEZ [VMutez a; VMutez b] = Ok (VSome (VMutez (a - b))) <-> b <= a).
Proof.
  intros Ha Hb. cbn [exec exec_sub_mutez]. rewrite mk_mutez.
  unfold ref_mutez, in_mutez, MUTEZ_LIMIT in *.
  destruct (a - b >=? 0) eqn:E.
  - destruct ((0 <=? a - b) && (a - b <? 2 ^ 63)) eqn:F; [|lia]. cbn [bind].
    split; split; intros H; try discriminate; try reflexivity; lia.
  - split; split; intros H; try discriminate; try reflexivity; lia.
Qed.

Theorem shift_fails_iff a s : 0 <= a -> 0 <= s ->
  (exec LSL [VNat a; VNat s] = Reject <-> 256 < s) /\
  (exec LSR [VNat a; VNat s] = Reject <-> 256 < s).
Proof.
  intros Ha Hs. cbn [exec exec_shift]. rewrite !mk_nat, shiftl_spec, shiftr_spec by lia.
  pose proof (Z.pow_pos_nonneg 2 s ltac:(lia) Hs).
  pose proof (Z.div_pos a (2 ^ s) Ha ltac:(lia)).
  destruct (s <? 257) eqn:E, (0 <=? a * 2 ^ s) eqn:F, (0 <=? a / 2 ^ s) eqn:G;
    repeat split; intros; try discriminate; try reflexivity; try lia; try nia.
Qed.

(* EDIV returns None exactly for a zero divisor, on every accepted overload *)
Theorem ediv_none_iff a b ta x tb y tq tr :
  forallb wf_val [a; b] = true ->
  num a = Some (ta, x) -> num b = Some (tb, y) -> ediv_table ta tb = Some (tq, tr) ->
  (exec EDIV [a; b] = Ok (VNone (TPair tq tr)) <-> y = 0) /\
  (y <> 0 -> exists q r, exec EDIV [a; b] = Ok (VSome (VPair q r)) /\
                         num q = Some (tq, fst (euclid x y)) /\ num r = Some (tr, snd (euclid x y))).
Proof.
  intros Hwf Na Nb Ht.
  assert (Hex : y <> 0 -> exists q r, exec EDIV [a; b] = Ok (VSome (VPair q r)) /\
                         num q = Some (tq, fst (euclid x y)) /\ num r = Some (tr, snd (euclid x y))).
  { intros Hy. cbn [exec]. unfold exec_ediv. rewrite Na, Nb, Ht, (py_ediv_euclid x y Hy).
    pose proof (euclid_rem_nonneg x y Hy) as Hr.
    destruct a; try discriminate Na; destruct b; try discriminate Nb;
      cbn [num] in Na, Nb; injection Na as <- <-; injection Nb as <- <-;
      cbn [ediv_table] in Ht; try discriminate Ht; injection Ht as <- <-;
      try (assert (Hs : 0 <= z /\ 0 < z0) by (wf_unfold; lia);
           pose proof (euclid_nonneg' z z0 (proj1 Hs) (proj2 Hs)) as Hq);
      destruct (euclid z z0) as [q r0]; cbn [fst snd] in *;
      rewrite ?mk_nat, ?mk_mutez; cbn [mk bind]; rewrite ?mk_nat, ?mk_mutez;
      wf_unfold; split_ifs; cbn [bind]; try lia;
      (eexists; eexists; split; [reflexivity | split; reflexivity]). }
  split; [|exact Hex]. split.
  - intros H. destruct (Z.eq_dec y 0) as [E|E]; [assumption|].
    destruct (Hex E) as (q & r & Hqr & _). rewrite Hqr in H. discriminate.
  - intros ->. cbn [exec]. unfold exec_ediv. rewrite Na, Nb, Ht. reflexivity.
Qed.

(* bitwise results, bit by bit *)
Theorem bitwise_spec a b i : 0 <= i ->
  Z.testbit (py_and a b) i = Z.testbit a i && Z.testbit b i /\
  Z.testbit (py_or a b) i = Z.testbit a i || Z.testbit b i /\
  Z.testbit (py_xor a b) i = xorb (Z.testbit a i) (Z.testbit b i) /\
  Z.testbit (py_invert a) i = negb (Z.testbit a i).
Proof.
  intros Hi. unfold py_and, py_or, py_xor, py_invert.
  rewrite Z.land_spec, Z.lor_spec, Z.lxor_spec, Z.lnot_spec by assumption. repeat split.
Qed.

(* ------------------------------------------------------------------------------------------ *)
(* the program PUSH operands ; OP  (what the correspondence check runs) versus [exec]           *)
(* ------------------------------------------------------------------------------------------ *)

Definition literal_ok (v : val) : bool :=
  match v with
  | VInt _ | VTs _ | VBytes _ | VBool _ => true
  | VNat z => 0 <=? z
  | VMutez z => in_mutez z
  | _ => false
  end.

Lemma push_ok v : literal_ok v = true -> push v = Ok v.
Proof.
  destruct v; cbn [literal_ok push]; intros H; try reflexivity; try discriminate.
  - rewrite mk_nat, H. reflexivity.
  - rewrite mk_mutez. unfold ref_mutez. rewrite H. reflexivity.
Qed.

Lemma push_bad v : literal_ok v = false -> push v = Reject.
Proof.
  destruct v; cbn [literal_ok push]; intros H; try reflexivity; try discriminate.
  - rewrite mk_nat, H. reflexivity.
  - rewrite mk_mutez. unfold ref_mutez. rewrite H. reflexivity.
Qed.

Lemma push_all_ok l : forallb literal_ok l = true -> push_all l = Ok l.
Proof.
  induction l as [|v r IH]; intros H; [reflexivity|].
  cbn [forallb] in H. apply andb_prop in H. destruct H as [H1 H2].
  cbn [push_all]. rewrite (push_ok v H1), (IH H2). reflexivity.
Qed.

Lemma push_all_bad l : forallb literal_ok l = false -> push_all l = Reject.
Proof.
  induction l as [|v r IH]; intros H; [discriminate|].
  cbn [forallb] in H. cbn [push_all]. destruct (literal_ok v) eqn:E.
  - rewrite (push_ok v E). cbn [bind]. rewrite (IH H). reflexivity.
  - rewrite (push_bad v E). reflexivity.
Qed.

Lemma literal_ok_wf l : forallb literal_ok l = true -> forallb wf_val l = true.
Proof.
  induction l as [|v r IH]; intros H; [reflexivity|].
  cbn [forallb] in *. apply andb_prop in H. destruct H as [H1 H2]. rewrite (IH H2), andb_true_r.
  destruct v; cbn [literal_ok wf_val] in *; try reflexivity; try exact H1; discriminate.
Qed.

Theorem run_exact o lits r : forallb literal_ok lits = true -> Ref o lits r -> run o lits = r.
Proof.
  intros H HR. unfold run. rewrite (push_all_ok lits H). cbn [bind].
  apply exec_exact; [apply literal_ok_wf; exact H | exact HR].
Qed.

Theorem run_invalid_literal o lits : forallb literal_ok lits = false -> run o lits = Reject.
Proof. intros H. unfold run. rewrite (push_all_bad lits H). reflexivity. Qed.
