(* Proofs/Retry_proofs.v — lemmas for C26 *)
From Coq Require Import List ZArith Bool Arith Lia Sorted.
From PV Require Import Client.Retry.
Import ListNotations.

(* number of consecutive retriable responses from index i, at most [left] *)
Fixpoint streak (left i : nat) (rs : nat -> resp) : nat :=
  match left with
  | O => 0
  | S l => if retriable (rs i) then S (streak l (S i) rs) else 0
  end.

Fixpoint delay_seq (n : nat) (d : Z) : list Z :=
  match n with
  | O => []
  | S n' => d :: delay_seq n' (Z.min (d * 2) MAX_DELAY_Q)
  end.

Lemma loop_char left : forall i d rs,
  requests (loop left i d rs) = S (i + streak left i rs) /\
  delays (loop left i d rs) = delay_seq (streak left i rs) d /\
  result (loop left i d rs) = classify (i + streak left i rs) (rs (i + streak left i rs)).
Proof.
  induction left as [|l IH]; intros i d rs; cbn [loop streak].
  - rewrite Nat.add_0_r. cbn. auto.
  - destruct (retriable (rs i)) eqn:E.
    + destruct (IH (S i) (Z.min (d * 2) MAX_DELAY_Q) rs) as (H1 & H2 & H3).
      cbn [requests delays result delay_seq].
      rewrite H1, H2, H3. replace (S i + streak l (S i) rs) with (i + S (streak l (S i) rs)) by lia.
      auto.
    + rewrite Nat.add_0_r. cbn. auto.
Qed.

Lemma streak_le left : forall i rs, streak left i rs <= left.
Proof. induction left as [|l IH]; intros i rs; cbn; [lia|]. destruct (retriable (rs i)); [specialize (IH (S i) rs)|]; lia. Qed.

Lemma streak_all left : forall i rs j, j < streak left i rs -> retriable (rs (i + j)) = true.
Proof.
  induction left as [|l IH]; intros i rs j; cbn; [lia|].
  destruct (retriable (rs i)) eqn:E; [|lia].
  intro H. destruct j as [|j].
  - rewrite Nat.add_0_r. exact E.
  - replace (i + S j) with (S i + j) by lia. apply IH. lia.
Qed.

Lemma streak_stop left : forall i rs,
  streak left i rs < left -> retriable (rs (i + streak left i rs)) = false.
Proof.
  induction left as [|l IH]; intros i rs; cbn; [lia|].
  destruct (retriable (rs i)) eqn:E.
  - intro H. replace (i + S (streak l (S i) rs)) with (S i + streak l (S i) rs) by lia. apply IH. lia.
  - intros _. rewrite Nat.add_0_r. exact E.
Qed.

Lemma streak_ge left : forall i rs k,
  k <= left -> (forall j, j < k -> retriable (rs (i + j)) = true) -> k <= streak left i rs.
Proof.
  induction left as [|l IH]; intros i rs k Hk Hall; cbn; [lia|].
  destruct k as [|k]; [lia|].
  pose proof (Hall 0 ltac:(lia)) as H0. rewrite Nat.add_0_r in H0. rewrite H0.
  apply le_n_S. apply IH; [lia|]. intros j Hj.
  replace (S i + j) with (i + S j) by lia. apply Hall. lia.
Qed.

Lemma requests_run rs : requests (run rs) = S (streak 5 0 rs).
Proof. unfold run. destruct (loop_char (ATTEMPTS - 1) 0 INITIAL_DELAY_Q rs) as (H & _). exact H. Qed.

Lemma attempts_bounds rs : 1 <= requests (run rs) <= 6.
Proof. rewrite requests_run. pose proof (streak_le 5 0 rs). lia. Qed.

Lemma resend_iff rs k :
  k < requests (run rs) <-> (k < 6 /\ forall j, j < k -> retriable (rs j) = true).
Proof.
  rewrite requests_run. pose proof (streak_le 5 0 rs) as Hle. split.
  - intro H. split; [lia|]. intros j Hj. apply (streak_all 5 0 rs j). lia.
  - intros [H6 Hall]. pose proof (streak_ge 5 0 rs k ltac:(lia) Hall). lia.
Qed.

Lemma delays_run rs : delays (run rs) = firstn (requests (run rs) - 1) [1; 2; 4; 8; 8]%Z.
Proof.
  rewrite requests_run. unfold run.
  destruct (loop_char (ATTEMPTS - 1) 0 INITIAL_DELAY_Q rs) as (_ & H & _). rewrite H.
  change (ATTEMPTS - 1) with 5. pose proof (streak_le 5 0 rs) as Hle.
  replace (S (streak 5 0 rs) - 1) with (streak 5 0 rs) by lia.
  destruct (streak 5 0 rs) as [|[|[|[|[|[|n]]]]]]; try reflexivity. lia.
Qed.

Lemma delays_sorted_capped rs :
  Sorted Z.le (delays (run rs)) /\ Forall (fun d => (0 < d <= MAX_DELAY_Q)%Z) (delays (run rs)).
Proof.
  rewrite delays_run. pose proof (attempts_bounds rs) as Hb.
  destruct (requests (run rs) - 1) as [|[|[|[|[|n]]]]]; cbn [firstn]; rewrite ?firstn_nil; unfold MAX_DELAY_Q;
    (split; [repeat (first [apply Sorted_nil | apply Sorted_cons | apply HdRel_nil | apply HdRel_cons; lia])
           | repeat (first [apply Forall_nil | apply Forall_cons; [lia|]])]).
Qed.

Lemma outcome_run rs :
  let last := requests (run rs) - 1 in
  result (run rs) = classify last (rs last) /\ (retriable (rs last) = false \/ requests (run rs) = 6).
Proof.
  cbn zeta. rewrite requests_run. unfold run.
  destruct (loop_char (ATTEMPTS - 1) 0 INITIAL_DELAY_Q rs) as (_ & _ & H). rewrite H.
  change (ATTEMPTS - 1) with 5. replace (S (streak 5 0 rs) - 1) with (streak 5 0 rs) by lia.
  split; [reflexivity|].
  pose proof (streak_le 5 0 rs) as Hle.
  destruct (Nat.eq_dec (streak 5 0 rs) 5) as [E|E]; [right; lia|left].
  apply (streak_stop 5 0 rs). lia.
Qed.

Lemma success_iff rs i :
  result (run rs) = Returned i <-> (i = requests (run rs) - 1 /\ st (rs i) = S200).
Proof.
  destruct (outcome_run rs) as [H _]. cbn zeta in H. rewrite H. unfold classify. split.
  - destruct (st (rs (requests (run rs) - 1))) eqn:E; try discriminate. intros [= <-]. auto.
  - intros [-> E]. rewrite E. reflexivity.
Qed.

(* a 200 response is never retried, so the first 200 in the consumed prefix is the last response *)
Lemma no_success_before_last rs j : j < requests (run rs) - 1 -> st (rs j) <> S200.
Proof.
  intros Hj E. assert (H : S j < requests (run rs)) by lia.
  apply resend_iff in H. destruct H as [_ H]. specialize (H j ltac:(lia)).
  unfold retriable in H. rewrite E in H. discriminate.
Qed.
