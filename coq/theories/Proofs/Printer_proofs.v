(* Proofs/Printer_proofs.v — facts about the formatter model alone: the literal texts it emits match
   the lexer's regular expressions, the primitive table is injective on the names it can print. *)
From Coq Require Import List NArith ZArith Bool Lia Arith Decimal DecimalN DecimalPos.
From Coq.Strings Require Import Byte.
From PV Require Import Base.Bytes Codec.Micheline Codec.Printer.
Import ListNotations.
Local Open Scope list_scope.

(* ---- decimal ---- *)
Lemma uint_bytes_digits u : forallb is_digit (uint_bytes u) = true.
Proof. induction u; simpl; try reflexivity; exact IHu. Qed.

Lemma uint_bytes_nonnil u : u <> Nil -> uint_bytes u <> [].
Proof. destruct u; simpl; intro H; try discriminate. contradiction. Qed.

Lemma pos_uint_bytes_nonempty p : uint_bytes (N.to_uint (Npos p)) <> [].
Proof. apply uint_bytes_nonnil. simpl. apply Unsigned.to_uint_nonnil. Qed.

Lemma digits_wf_int d : d <> [] -> forallb is_digit d = true -> wf_int_raw d = true.
Proof.
  destruct d as [|c d]; [contradiction|]. intros _ H. unfold wf_int_raw.
  destruct (byte_eqb c c_minus) eqn:E; [|exact H].
  apply byte_eqb_spec in E. subst c. discriminate.
Qed.

Lemma minus_digits_wf d : d <> [] -> forallb is_digit d = true -> wf_int_raw (c_minus :: d) = true.
Proof. destruct d as [|c d]; [contradiction|]. intros _ H. exact H. Qed.

Lemma dec_of_Z_wf z : wf_int_raw (dec_of_Z z) = true.
Proof.
  destruct z as [|p|p]; unfold dec_of_Z.
  - reflexivity.
  - apply digits_wf_int; [apply pos_uint_bytes_nonempty | apply uint_bytes_digits].
  - apply minus_digits_wf; [apply pos_uint_bytes_nonempty | apply uint_bytes_digits].
Qed.

(* ---- hex ---- *)
Lemma hex_of_byte_wf c : forallb is_hex (hex_of_byte c) = true.
Proof. destruct c; reflexivity. Qed.

Lemma hex_of_bytes_wf b : wf_hex_raw (hex_of_bytes b) = true.
Proof.
  unfold wf_hex_raw, hex_of_bytes. induction b as [|c b IH]; cbn [flat_map]; [reflexivity|].
  rewrite forallb_app, hex_of_byte_wf, IH. reflexivity.
Qed.

(* ---- JSON escaping ---- *)
Lemma escape_byte_units c rest : wf_str_raw (escape_byte c ++ rest) = wf_str_raw rest.
Proof. destruct c; reflexivity. Qed.

Lemma json_escape_wf s : wf_str_raw (json_escape s) = true.
Proof.
  unfold json_escape. induction s as [|c s IH]; cbn [flat_map]; [reflexivity|].
  rewrite escape_byte_units. exact IH.
Qed.

(* ---- the primitive table ---- *)
Lemma name_of_tag_wf t n : name_of_tag t = Some n -> wf_name n = true.
Proof.
  unfold name_of_tag. destruct (nth_error prim_names (N.to_nat (Byte.to_N t))) as [m|]; [|discriminate].
  destruct (wf_name m) eqn:E; [|discriminate]. intros [= <-]. exact E.
Qed.

Lemma tag_of_name_of_tag t n : name_of_tag t = Some n -> tag_of_name n = Some t.
Proof.
  intro H. destruct t; vm_compute in H; try discriminate; injection H as <-; vm_compute; reflexivity.
Qed.

(* ---- every payload of the emitted expression matches its token's regular expression ---- *)
Lemma to_pnode_raw_ok : forall e, tags_ok e = true -> raw_ok (to_pnode e) = true.
Proof.
  induction e as [z|s|b|t args annots IH|items IH] using node_ind'; intro H; simpl.
  - apply dec_of_Z_wf.
  - apply json_escape_wf.
  - apply hex_of_bytes_wf.
  - simpl in H. apply andb_true_iff in H. destruct H as [H H3]. apply andb_true_iff in H. destruct H as [H1 H2].
    destruct (name_of_tag t) as [n|] eqn:En; [|discriminate].
    rewrite (name_of_tag_wf t n En), H2. simpl.
    rewrite forallb_forall in *. rewrite Forall_forall in IH.
    intros x Hx. apply in_map_iff in Hx. destruct Hx as (a & <- & Ha). apply IH; auto.
  - simpl in H. rewrite forallb_forall in *. rewrite Forall_forall in IH.
    intros x Hx. apply in_map_iff in Hx. destruct Hx as (a & <- & Ha). apply IH; auto.
Qed.

Lemma join_semi_wf l :
  forallb (forallb wf_token) l = true -> forallb wf_token (join_semi l) = true.
Proof.
  induction l as [|x [|y r] IH]; intro H; simpl in *.
  - reflexivity.
  - rewrite andb_true_r in H. exact H.
  - apply andb_true_iff in H. destruct H as [H1 H2]. rewrite forallb_app, H1. simpl. apply IH, H2.
Qed.

Lemma fmt_wf : forall p w, raw_ok p = true -> forallb wf_token (fmt w p) = true.
Proof.
  induction p as [r|r|r|n annots args IH|items IH] using pnode_ind'; intros w H; simpl in *.
  - rewrite H. reflexivity.
  - rewrite H. reflexivity.
  - rewrite H. reflexivity.
  - apply andb_true_iff in H. destruct H as [H H3]. apply andb_true_iff in H. destruct H as [H1 H2].
    assert (Hb : forallb wf_token (TPrim n :: map TAnnot annots ++ flat_map (fmt false) args) = true).
    { simpl. rewrite H1. simpl. rewrite forallb_app. apply andb_true_iff. split.
      - rewrite forallb_forall in *. intros x Hx. apply in_map_iff in Hx. destruct Hx as (a & <- & Ha).
        simpl. apply H2, Ha.
      - rewrite forallb_forall in *. rewrite Forall_forall in IH. intros x Hx.
        apply in_flat_map in Hx. destruct Hx as (a & Ha & Hx).
        specialize (IH a Ha false (H3 a Ha)). rewrite forallb_forall in IH. apply IH, Hx. }
    destruct (is_framed n (nonempty annots) && negb w); [|exact Hb].
    change (forallb wf_token ((TPrim n :: map TAnnot annots ++ flat_map (fmt false) args) ++ [TRParen]) = true).
    rewrite forallb_app, Hb. reflexivity.
  - rewrite forallb_app. simpl. rewrite andb_true_r. apply join_semi_wf.
    rewrite forallb_forall in *. rewrite Forall_forall in IH. intros x Hx.
    apply in_map_iff in Hx. destruct Hx as (a & <- & Ha). apply IH; auto.
Qed.

Lemma fmt_root_wf p : raw_ok p = true -> forallb wf_token (fmt_root p) = true.
Proof.
  intro H. destruct p as [r|r|r|n annots args|items]; try (apply fmt_wf; exact H).
  unfold fmt_root. destruct (is_script items && nonempty items); [|apply fmt_wf; exact H].
  apply join_semi_wf. simpl in H. rewrite forallb_forall in *. intros x Hx.
  apply in_map_iff in Hx. destruct Hx as (a & <- & Ha). apply fmt_wf. apply H, Ha.
Qed.

Lemma fmt_tokens_wf e : tags_ok e = true -> forallb wf_token (fmt_tokens e) = true.
Proof. intro H. apply fmt_root_wf, to_pnode_raw_ok, H. Qed.

(* the first token of a formatted root expression is never a left parenthesis *)
Lemma fmt_true_head w p : w = true -> exists t r, fmt w p = t :: r /\ t <> TLParen.
Proof.
  intros ->. destruct p as [r|r|r|n annots args|items]; simpl;
    try (eexists; eexists; split; [reflexivity|discriminate]).
  rewrite andb_false_r. eexists; eexists; split; [reflexivity|discriminate].
Qed.

Lemma fmt_root_head p : exists t r, fmt_root p = t :: r /\ t <> TLParen.
Proof.
  destruct p as [r|r|r|n annots args|items]; try (apply fmt_true_head; reflexivity).
  unfold fmt_root. destruct (is_script items && nonempty items) eqn:E; [|apply fmt_true_head; reflexivity].
  apply andb_true_iff in E. destruct E as [_ E].
  destruct items as [|a l]; [discriminate|].
  destruct (fmt_true_head true a eq_refl) as (t & r & Et & Hne).
  destruct l as [|b l]; simpl; rewrite Et; eexists; eexists; (split; [reflexivity | exact Hne]).
Qed.

(* ---------------------------------------------------------------------------------------------- *)
(* The exact text [fmtx]: its tokens are [fmt]'s, and tokens touch only next to brackets/semicolons *)
(* ---------------------------------------------------------------------------------------------- *)
Lemma tokens_of_app a b : tokens_of (a ++ b) = tokens_of a ++ tokens_of b.
Proof. unfold tokens_of. apply flat_map_app. Qed.

Lemma tokens_of_repeat_sp k : tokens_of (repeat sp k) = [].
Proof. induction k; simpl; [reflexivity | exact IHk]. Qed.

Lemma tokens_of_nl k : tokens_of (nl_indent k) = [].
Proof. unfold nl_indent. simpl. apply tokens_of_repeat_sp. Qed.

Lemma tokens_of_join_gap sep its :
  tokens_of sep = [] -> tokens_of (join_pieces sep its) = flat_map tokens_of its.
Proof.
  intro Hs. induction its as [|x [|y r] IH].
  - reflexivity.
  - simpl. rewrite app_nil_r. reflexivity.
  - change (join_pieces sep (x :: y :: r)) with (x ++ sep ++ join_pieces sep (y :: r)).
    rewrite !tokens_of_app, Hs, IH. reflexivity.
Qed.

Lemma tokens_of_join_semi sep its :
  tokens_of sep = [TSemi] -> tokens_of (join_pieces sep its) = join_semi (map tokens_of its).
Proof.
  intro Hs. induction its as [|x [|y r] IH].
  - reflexivity.
  - reflexivity.
  - change (join_pieces sep (x :: y :: r)) with (x ++ sep ++ join_pieces sep (y :: r)).
    rewrite !tokens_of_app, Hs, IH. reflexivity.
Qed.

Definition head_pieces (n : bytes) (annots : list bytes) : list piece :=
  PT (TPrim n) :: flat_map (fun a => [sp; PT (TAnnot a)]) annots.

Lemma tokens_of_head n annots : tokens_of (head_pieces n annots) = TPrim n :: map TAnnot annots.
Proof.
  unfold head_pieces. simpl. f_equal. induction annots as [|a l IH]; simpl; [reflexivity|].
  rewrite IH. reflexivity.
Qed.

(* ---- the algebra of [pok] ---- *)
Definition entry_ok (prev : option token) (seen : bool) : Prop :=
  seen = true \/ prev = None \/ exists p, prev = Some p /\ is_punct p = true.
(* fine after a filler, at the start, or after a bracket/semicolon *)
Definition entry (X : list piece) : Prop := forall p s, entry_ok p s -> pok p s X = true.
(* fine after anything *)
Definition robust (X : list piece) : Prop := forall p s, pok p s X = true.

Fixpoint pend (prev : option token) (seen : bool) (ps : list piece) : option token * bool :=
  match ps with
  | [] => (prev, seen)
  | PG _ :: r => pend prev true r
  | PT t :: r => pend (Some t) false r
  end.

Lemma pok_app p s A B :
  pok p s (A ++ B) = pok p s A && pok (fst (pend p s A)) (snd (pend p s A)) B.
Proof.
  revert p s. induction A as [|[t|f] A IH]; intros p s; simpl.
  - reflexivity.
  - rewrite IH, andb_assoc. reflexivity.
  - rewrite IH, andb_assoc. reflexivity.
Qed.

Lemma robust_entry X : robust X -> entry X.
Proof. intros H p s _. apply H. Qed.
Lemma robust_nil : robust [].
Proof. intros p s. reflexivity. Qed.
Lemma entry_nil : entry [].
Proof. apply robust_entry, robust_nil. Qed.

Lemma entry_app_robust X Y : entry X -> robust Y -> entry (X ++ Y).
Proof. intros HX HY p s H. rewrite pok_app, (HX p s H), HY. reflexivity. Qed.

Lemma robust_gap f Y : wf_filler f = true -> entry Y -> robust (PG f :: Y).
Proof. intros Hf HY p s. simpl. rewrite Hf. apply HY. left. reflexivity. Qed.

Lemma robust_punct t Y : is_punct t = true -> entry Y -> robust (PT t :: Y).
Proof.
  intros Ht HY p s. simpl. rewrite Ht.
  replace (s || match p with None => true | Some p0 => is_punct p0 || true end) with true
    by (destruct s, p as [p0|]; simpl; rewrite ?orb_true_r; reflexivity).
  apply HY. right. right. exists t. split; [reflexivity | exact Ht].
Qed.

Lemma entry_tok t Y : robust Y -> entry (PT t :: Y).
Proof.
  intros HY p s H. simpl. rewrite HY, andb_true_r.
  destruct H as [-> | [-> | (q & -> & Hq)]]; [reflexivity | apply orb_true_r |].
  rewrite Hq. apply orb_true_r.
Qed.

Lemma entry_punct t Y : is_punct t = true -> entry Y -> entry (PT t :: Y).
Proof. intros Ht HY. apply robust_entry, robust_punct; assumption. Qed.

Definition sep_piece (pc : piece) : Prop :=
  match pc with PG f => wf_filler f = true | PT t => is_punct t = true end.

Lemma robust_sep sep Y : sep <> [] -> Forall sep_piece sep -> entry Y -> robust (sep ++ Y).
Proof.
  intros Hne Hs HY. induction sep as [|x [|y r] IH].
  - contradiction.
  - inversion Hs as [|? ? Hx _]; subst. destruct x as [t|f]; simpl in *.
    + apply robust_punct; assumption.
    + apply robust_gap; assumption.
  - inversion Hs as [|? ? Hx Hr]; subst.
    assert (Hrest : robust ((y :: r) ++ Y)) by (apply IH; [discriminate | exact Hr]).
    destruct x as [t|f]; simpl in Hx; cbn [app].
    + apply robust_punct; [exact Hx | apply robust_entry, Hrest].
    + apply robust_gap; [exact Hx | apply robust_entry, Hrest].
Qed.

Lemma entry_join sep its :
  sep <> [] -> Forall sep_piece sep -> Forall entry its -> entry (join_pieces sep its).
Proof.
  intros Hne Hs Hits. induction Hits as [|x l Hx Hl IH].
  - apply entry_nil.
  - destruct l as [|y r]; [exact Hx|].
    change (join_pieces sep (x :: y :: r)) with (x ++ sep ++ join_pieces sep (y :: r)).
    apply entry_app_robust; [exact Hx|]. apply robust_sep; [exact Hne | exact Hs | exact IH].
Qed.

Lemma sep_piece_repeat_sp k : Forall sep_piece (repeat sp k).
Proof. induction k; simpl; constructor; [reflexivity | exact IHk]. Qed.

Lemma sep_piece_nl k : Forall sep_piece (nl_indent k).
Proof. unfold nl_indent. constructor; [reflexivity | apply sep_piece_repeat_sp]. Qed.

Lemma head_then n annots Z : robust Z -> entry (head_pieces n annots ++ Z).
Proof.
  intro HZ. unfold head_pieces. cbn [app]. apply entry_tok.
  induction annots as [|a l IH]; cbn [flat_map app]; [exact HZ|].
  apply robust_gap; [reflexivity|]. apply entry_tok. exact IH.
Qed.

Lemma entry_head n annots : entry (head_pieces n annots).
Proof. rewrite <- (app_nil_r (head_pieces n annots)). apply head_then, robust_nil. Qed.

(* ---- the main invariant ---- *)
Definition fmtx_spec (inline : bool) (p : pnode) : Prop :=
  forall indent wrapped,
    tokens_of (fmtx inline p indent wrapped) = fmt wrapped p /\ entry (fmtx inline p indent wrapped).

Lemma multi_loop_spec inline always indent alt l :
  Forall (fmtx_spec inline) l ->
  forall expr ai, entry expr ->
    let r := multi_loop (fun a k => fmtx inline a k false) always indent alt l expr ai in
    tokens_of r = tokens_of expr ++ flat_map (fmt false) l /\ entry r.
Proof.
  induction 1 as [|a l Ha Hl IH]; intros expr ai He; cbn [multi_loop].
  - cbn [flat_map]. rewrite app_nil_r. split; [reflexivity | exact He].
  - destruct (Ha ai false) as [Ht Hen]. cbn zeta.
    destruct (always || (indent + plen expr + plen (fmtx inline a ai false) + 1 <? line_size)).
    + destruct (IH (expr ++ sp :: fmtx inline a ai false) alt) as [T E].
      { apply entry_app_robust; [exact He|]. apply robust_gap; [reflexivity | exact Hen]. }
      split; [|exact E]. cbn zeta in T. rewrite T.
      change (sp :: fmtx inline a ai false) with ([sp] ++ fmtx inline a ai false).
      rewrite !tokens_of_app, Ht. cbn [flat_map]. simpl. rewrite <- app_assoc. reflexivity.
    + destruct (IH (expr ++ nl_indent ai ++ fmtx inline a ai false) ai) as [T E].
      { apply entry_app_robust; [exact He|].
        apply robust_sep; [discriminate | apply sep_piece_nl | exact Hen]. }
      split; [|exact E]. cbn zeta in T. rewrite T.
      rewrite !tokens_of_app, tokens_of_nl, Ht. cbn [flat_map]. simpl. rewrite <- app_assoc. reflexivity.
Qed.

Lemma map_tokens_fmtx inline items k w :
  Forall (fmtx_spec inline) items ->
  map tokens_of (map (fun x => fmtx inline x k w) items) = map (fmt w) items.
Proof.
  induction 1 as [|a l Ha Hl IH]; simpl; [reflexivity|]. rewrite (proj1 (Ha k w)), IH. reflexivity.
Qed.

Lemma flat_tokens_fmtx inline items k w :
  Forall (fmtx_spec inline) items ->
  flat_map tokens_of (map (fun x => fmtx inline x k w) items) = flat_map (fmt w) items.
Proof.
  induction 1 as [|a l Ha Hl IH]; simpl; [reflexivity|]. rewrite (proj1 (Ha k w)), IH. reflexivity.
Qed.

Lemma entry_map_fmtx inline items k w :
  Forall (fmtx_spec inline) items -> Forall entry (map (fun x => fmtx inline x k w) items).
Proof. induction 1 as [|a l Ha Hl IH]; simpl; constructor; [apply Ha | exact IH]. Qed.

Lemma fmtx_ok inline : forall p, fmtx_spec inline p.
Proof.
  induction p as [r|r|r|n annots args IH|items IH] using pnode_ind'; intros indent wrapped.
  - split; [reflexivity | apply entry_tok, robust_nil].
  - split; [reflexivity | apply entry_tok, robust_nil].
  - split; [reflexivity | apply entry_tok, robust_nil].
  - (* primitive application *)
    cbn [fmtx fmt]. fold (head_pieces n annots).
    set (body := if is_complex n then _ else _).
    assert (Hb : tokens_of body = TPrim n :: map TAnnot annots ++ flat_map (fmt false) args /\ entry body).
    { subst body. destruct (is_complex n).
      - cbn zeta.
        destruct (inline || (indent + plen (head_pieces n annots) +
                   sum_plen (map (fun x => fmtx inline x (indent + 2) false) args) +
                   length (map (fun x => fmtx inline x (indent + 2) false) args) + 1 <? line_size)).
        + split.
          * change (sp :: join_pieces [sp] (map (fun x => fmtx inline x (indent + 2) false) args))
              with ([sp] ++ join_pieces [sp] (map (fun x => fmtx inline x (indent + 2) false) args)).
            rewrite !tokens_of_app, tokens_of_head, (tokens_of_join_gap [sp]) by reflexivity.
            rewrite flat_tokens_fmtx by exact IH. reflexivity.
          * apply head_then. apply robust_gap; [reflexivity|].
            apply entry_join; [discriminate | repeat constructor | apply entry_map_fmtx, IH].
        + split.
          * rewrite tokens_of_join_gap by apply tokens_of_nl. cbn [flat_map].
            rewrite tokens_of_head, flat_tokens_fmtx by exact IH. reflexivity.
          * apply entry_join; [discriminate | apply sep_piece_nl |].
            constructor; [apply entry_head | apply entry_map_fmtx, IH].
      - destruct args as [|a [|b l]].
        + split; [rewrite tokens_of_head; cbn [flat_map]; rewrite app_nil_r; reflexivity | apply entry_head].
        + inversion IH as [|? ? Ha _]; subst.
          destruct (Ha (indent + (plen (head_pieces n annots) + 1)) false) as [Ht He].
          split.
          * change (sp :: fmtx inline a (indent + (plen (head_pieces n annots) + 1)) false)
              with ([sp] ++ fmtx inline a (indent + (plen (head_pieces n annots) + 1)) false).
            rewrite !tokens_of_app, tokens_of_head, Ht. cbn [flat_map]. rewrite app_nil_r. reflexivity.
          * apply head_then. apply robust_gap; [reflexivity | exact He].
        + cbn zeta.
          destruct (multi_loop_spec inline (inline || is_inline n) indent
                      (indent + (plen (head_pieces n annots) + 2)) (a :: b :: l) IH
                      (head_pieces n annots) (indent + 2) (entry_head n annots)) as [T E].
          split; [|exact E]. cbn zeta in T. rewrite T, tokens_of_head. reflexivity. }
    destruct Hb as [Tb Eb].
    destruct (is_framed n (nonempty annots) && negb wrapped).
    + split.
      * change (PT TLParen :: body ++ [PT TRParen]) with ([PT TLParen] ++ body ++ [PT TRParen]).
        rewrite !tokens_of_app, Tb. reflexivity.
      * apply entry_punct; [reflexivity|]. apply entry_app_robust; [exact Eb|].
        apply robust_punct; [reflexivity | apply entry_nil].
    + split; [exact Tb | exact Eb].
  - (* sequence *)
    cbn [fmtx fmt]. destruct items as [|a l].
    + split; [reflexivity|]. apply entry_punct; [reflexivity|]. apply entry_tok, robust_nil.
    + set (its := map (fun x => fmtx inline x (indent + 2) true) (a :: l)).
      assert (Hits : its = fmtx inline a (indent + 2) true :: map (fun x => fmtx inline x (indent + 2) true) l) by reflexivity.
      rewrite Hits at 1. cbn iota. cbn zeta.
      set (sep := if inline || (indent + sum_plen its + 4 <? line_size) then [sp; PT TSemi; sp]
                  else sp :: PT TSemi :: nl_indent (indent + 2)).
      assert (Hsep : tokens_of sep = [TSemi] /\ sep <> [] /\ Forall sep_piece sep).
      { subst sep. destruct (inline || (indent + sum_plen its + 4 <? line_size)).
        - repeat split; [discriminate | repeat constructor].
        - repeat split; [simpl; rewrite tokens_of_repeat_sp; reflexivity | discriminate |].
          constructor; [reflexivity|]. constructor; [reflexivity | apply sep_piece_nl]. }
      destruct Hsep as (Hs1 & Hs2 & Hs3).
      split.
      * change (PT TLCurly :: sp :: join_pieces sep its ++ [sp; PT TRCurly])
          with ([PT TLCurly; sp] ++ join_pieces sep its ++ [sp; PT TRCurly]).
        rewrite !tokens_of_app, (tokens_of_join_semi sep its Hs1). subst its.
        rewrite map_tokens_fmtx by exact IH. reflexivity.
      * apply entry_punct; [reflexivity|]. apply robust_entry. apply robust_gap; [reflexivity|].
        apply entry_app_robust.
        -- apply entry_join; [exact Hs2 | exact Hs3 | subst its; apply entry_map_fmtx, IH].
        -- apply robust_gap; [reflexivity|]. apply entry_tok, robust_nil.
Qed.

Lemma fmtx_root_ok inline p :
  tokens_of (fmtx_root inline p) = fmt_root p /\ entry (fmtx_root inline p).
Proof.
  destruct p as [r|r|r|n annots args|items]; try apply (fmtx_ok inline).
  unfold fmtx_root, fmt_root. destruct (is_script items && nonempty items); [|apply (fmtx_ok inline)].
  cbn zeta.
  set (its := map (fun x => fmtx inline x 0 true) items).
  set (sep := if inline || (sum_plen its + 4 <? line_size) then [PT TSemi; sp] else PT TSemi :: nl_indent 0).
  assert (Hsep : tokens_of sep = [TSemi] /\ sep <> [] /\ Forall sep_piece sep).
  { subst sep. destruct (inline || (sum_plen its + 4 <? line_size));
      (repeat split; [discriminate | repeat constructor]). }
  destruct Hsep as (Hs1 & Hs2 & Hs3).
  assert (Hall : Forall (fmtx_spec inline) items) by (apply Forall_forall; intros x _; apply fmtx_ok).
  split.
  - rewrite (tokens_of_join_semi sep its Hs1). subst its. rewrite map_tokens_fmtx by exact Hall. reflexivity.
  - apply entry_join; [exact Hs2 | exact Hs3 | subst its; apply entry_map_fmtx, Hall].
Qed.

(* ---- the formatter parenthesises everything Michelson puts in argument position ---- *)
Lemma mem_name_In n l : mem_name n l = true -> In n l.
Proof.
  unfold mem_name. intro H. apply existsb_exists in H. destruct H as (x & Hx & E).
  apply bytes_eqb_spec in E. subst. exact Hx.
Qed.

Lemma arg_applications_framed n b : mem_name n arg_applications = true -> is_framed n b = true.
Proof.
  intro H. apply mem_name_In in H. unfold arg_applications in H. simpl in H.
  repeat (destruct H as [<-|H]; [reflexivity|]). contradiction.
Qed.

Lemma simple_types_framed n : mem_name n simple_types = true -> is_framed n true = true.
Proof.
  intro H. apply mem_name_In in H. unfold simple_types in H. simpl in H.
  repeat (destruct H as [<-|H]; [reflexivity|]). contradiction.
Qed.

Lemma arg_shaped_framed p : arg_shaped p = true -> arg_framed p = true.
Proof.
  destruct p as [r|r|r|n annots args|items]; simpl; try reflexivity.
  intro H. destruct (nonempty annots || nonempty args) eqn:Ex; [|reflexivity]. simpl in *.
  apply orb_true_iff in H. destruct H as [H|H].
  - apply arg_applications_framed, H.
  - apply andb_true_iff in H. destruct H as [Hs Ha]. apply negb_true_iff in Ha.
    rewrite Ha, orb_false_r in Ex. rewrite Ex. apply simple_types_framed, Hs.
Qed.

Lemma shaped_framed : forall p, shaped_ok p = true -> framed_ok p = true.
Proof.
  induction p as [r|r|r|n annots args IH|items IH] using pnode_ind'; simpl; intro H; try reflexivity.
  - rewrite forallb_forall in *. rewrite Forall_forall in IH. intros a Ha.
    specialize (H a Ha). apply andb_true_iff in H. destruct H as [H1 H2].
    rewrite (IH a Ha H1), (arg_shaped_framed a H2). reflexivity.
  - rewrite forallb_forall in *. rewrite Forall_forall in IH. intros a Ha. apply IH; auto.
Qed.

Lemma michelson_expr_wf e : michelson_expr e = true -> wf_expr e = true.
Proof.
  unfold michelson_expr, wf_expr. intro H. apply andb_true_iff in H. destruct H as [H Hr].
  apply andb_true_iff in H. destruct H as [Ht Hs]. rewrite Ht, (shaped_framed _ Hs), Hr. reflexivity.
Qed.
