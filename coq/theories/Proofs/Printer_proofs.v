(* Proofs/Printer_proofs.v — facts about the formatter model alone: the literal texts it emits match
   the lexer's regular expressions, the primitive table is injective on the names it can print. *)
From Coq Require Import List NArith ZArith Bool Lia Arith Decimal DecimalN DecimalPos.
From Coq.Strings Require Import Byte.
From PV Require Import Base.Bytes Codec.Micheline Codec.Printer.
Import ListNotations.
Local Open Scope list_scope.

(* ---- decimal ---- *)
Lemma uint_bytes_digits u : forallb is_digit (uint_bytes u) = true.
Proof. induction u; simpl; try reflexivity; exact IHu. Qed.

Lemma uint_bytes_nonnil u : u <> Nil -> uint_bytes u <> [].
Proof. destruct u; simpl; intro H; try discriminate. contradiction. Qed.

Lemma pos_uint_bytes_nonempty p : uint_bytes (N.to_uint (Npos p)) <> [].
Proof. apply uint_bytes_nonnil. simpl. apply Unsigned.to_uint_nonnil. Qed.

Lemma digits_wf_int d : d <> [] -> forallb is_digit d = true -> wf_int_raw d = true.
Proof.
  destruct d as [|c d]; [contradiction|]. intros _ H. unfold wf_int_raw.
  destruct (byte_eqb c c_minus) eqn:E; [|exact H].
  apply byte_eqb_spec in E. subst c. discriminate.
Qed.

Lemma minus_digits_wf d : d <> [] -> forallb is_digit d = true -> wf_int_raw (c_minus :: d) = true.
Proof. destruct d as [|c d]; [contradiction|]. intros _ H. exact H. Qed.

Lemma dec_of_Z_wf z : wf_int_raw (dec_of_Z z) = true.
Proof.
  destruct z as [|p|p]; unfold dec_of_Z.
  - reflexivity.
  - apply digits_wf_int; [apply pos_uint_bytes_nonempty | apply uint_bytes_digits].
  - apply minus_digits_wf; [apply pos_uint_bytes_nonempty | apply uint_bytes_digits].
Qed.

(* ---- hex ---- *)
Lemma hex_of_byte_wf c : forallb is_hex (hex_of_byte c) = true.
Proof. destruct c; reflexivity. Qed.

Lemma hex_of_bytes_wf b : wf_hex_raw (hex_of_bytes b) = true.
Proof.
  unfold wf_hex_raw, hex_of_bytes. induction b as [|c b IH]; cbn [flat_map]; [reflexivity|].
  rewrite forallb_app, hex_of_byte_wf, IH. reflexivity.
Qed.

(* ---- JSON escaping ---- *)
Lemma escape_byte_units c rest : wf_str_raw (escape_byte c ++ rest) = wf_str_raw rest.
Proof. destruct c; reflexivity. Qed.

Lemma json_escape_wf s : wf_str_raw (json_escape s) = true.
Proof.
  unfold json_escape. induction s as [|c s IH]; cbn [flat_map]; [reflexivity|].
  rewrite escape_byte_units. exact IH.
Qed.

(* ---- the primitive table ---- *)
Lemma name_of_tag_wf t n : name_of_tag t = Some n -> wf_name n = true.
Proof.
  unfold name_of_tag. destruct (nth_error prim_names (N.to_nat (Byte.to_N t))) as [m|]; [|discriminate].
  destruct (wf_name m) eqn:E; [|discriminate]. intros [= <-]. exact E.
Qed.

Lemma tag_of_name_of_tag t n : name_of_tag t = Some n -> tag_of_name n = Some t.
Proof.
  intro H. destruct t; vm_compute in H; try discriminate; injection H as <-; vm_compute; reflexivity.
Qed.

(* ---- every payload of the emitted expression matches its token's regular expression ---- *)
Lemma to_pnode_raw_ok : forall e, tags_ok e = true -> raw_ok (to_pnode e) = true.
Proof.
  induction e as [z|s|b|t args annots IH|items IH] using node_ind'; intro H; simpl.
  - apply dec_of_Z_wf.
  - apply json_escape_wf.
  - apply hex_of_bytes_wf.
  - simpl in H. apply andb_true_iff in H. destruct H as [H H3]. apply andb_true_iff in H. destruct H as [H1 H2].
    destruct (name_of_tag t) as [n|] eqn:En; [|discriminate].
    rewrite (name_of_tag_wf t n En), H2. simpl.
    rewrite forallb_forall in *. rewrite Forall_forall in IH.
    intros x Hx. apply in_map_iff in Hx. destruct Hx as (a & <- & Ha). apply IH; auto.
  - simpl in H. rewrite forallb_forall in *. rewrite Forall_forall in IH.
    intros x Hx. apply in_map_iff in Hx. destruct Hx as (a & <- & Ha). apply IH; auto.
Qed.

Lemma join_semi_wf l :
  forallb (forallb wf_token) l = true -> forallb wf_token (join_semi l) = true.
Proof.
  induction l as [|x [|y r] IH]; intro H; simpl in *.
  - reflexivity.
  - rewrite andb_true_r in H. exact H.
  - apply andb_true_iff in H. destruct H as [H1 H2]. rewrite forallb_app, H1. simpl. apply IH, H2.
Qed.

Lemma fmt_wf : forall p w, raw_ok p = true -> forallb wf_token (fmt w p) = true.
Proof.
  induction p as [r|r|r|n annots args IH|items IH] using pnode_ind'; intros w H; simpl in *.
  - rewrite H. reflexivity.
  - rewrite H. reflexivity.
  - rewrite H. reflexivity.
  - apply andb_true_iff in H. destruct H as [H H3]. apply andb_true_iff in H. destruct H as [H1 H2].
    assert (Hb : forallb wf_token (TPrim n :: map TAnnot annots ++ flat_map (fmt false) args) = true).
    { simpl. rewrite H1. simpl. rewrite forallb_app. apply andb_true_iff. split.
      - rewrite forallb_forall in *. intros x Hx. apply in_map_iff in Hx. destruct Hx as (a & <- & Ha).
        simpl. apply H2, Ha.
      - rewrite forallb_forall in *. rewrite Forall_forall in IH. intros x Hx.
        apply in_flat_map in Hx. destruct Hx as (a & Ha & Hx).
        specialize (IH a Ha false (H3 a Ha)). rewrite forallb_forall in IH. apply IH, Hx. }
    destruct (is_framed n (nonempty annots) && negb w); [|exact Hb].
    change (forallb wf_token ((TPrim n :: map TAnnot annots ++ flat_map (fmt false) args) ++ [TRParen]) = true).
    rewrite forallb_app, Hb. reflexivity.
  - rewrite forallb_app. simpl. rewrite andb_true_r. apply join_semi_wf.
    rewrite forallb_forall in *. rewrite Forall_forall in IH. intros x Hx.
    apply in_map_iff in Hx. destruct Hx as (a & <- & Ha). apply IH; auto.
Qed.

Lemma fmt_root_wf p : raw_ok p = true -> forallb wf_token (fmt_root p) = true.
Proof.
  intro H. destruct p as [r|r|r|n annots args|items]; try (apply fmt_wf; exact H).
  unfold fmt_root. destruct (is_script items && nonempty items); [|apply fmt_wf; exact H].
  apply join_semi_wf. simpl in H. rewrite forallb_forall in *. intros x Hx.
  apply in_map_iff in Hx. destruct Hx as (a & <- & Ha). apply fmt_wf. apply H, Ha.
Qed.

Lemma fmt_tokens_wf e : tags_ok e = true -> forallb wf_token (fmt_tokens e) = true.
Proof. intro H. apply fmt_root_wf, to_pnode_raw_ok, H. Qed.

(* the first token of a formatted root expression is never a left parenthesis *)
Lemma fmt_true_head w p : w = true -> exists t r, fmt w p = t :: r /\ t <> TLParen.
Proof.
  intros ->. destruct p as [r|r|r|n annots args|items]; simpl;
    try (eexists; eexists; split; [reflexivity|discriminate]).
  rewrite andb_false_r. eexists; eexists; split; [reflexivity|discriminate].
Qed.

Lemma fmt_root_head p : exists t r, fmt_root p = t :: r /\ t <> TLParen.
Proof.
  destruct p as [r|r|r|n annots args|items]; try (apply fmt_true_head; reflexivity).
  unfold fmt_root. destruct (is_script items && nonempty items) eqn:E; [|apply fmt_true_head; reflexivity].
  apply andb_true_iff in E. destruct E as [_ E].
  destruct items as [|a l]; [discriminate|].
  destruct (fmt_true_head true a eq_refl) as (t & r & Et & Hne).
  destruct l as [|b l]; simpl; rewrite Et; eexists; eexists; (split; [reflexivity | exact Hne]).
Qed.
