(* Proofs/Pack_proofs.v — lemmas about Michelson/Pack.v:
   unpack inverts pack (both modes), unpack accepts exactly 0x05 ++ (a word of the binary Micheline
   grammar whose tree parses at the type), hence rejects wrong head bytes, non-grammar bodies,
   strict prefixes, extensions and non-minimal integers; the optimized tree meets the
   specification [Opt] for every value whose lambda bodies are in optimized form, and a lambda
   that pushes a timestamp literal refutes it in general (known finding). *)
From Coq Require Import String List ZArith NArith Bool Arith Lia.
From Coq.Strings Require Import Byte.
From PV Require Import Base.Bytes Base.Result Codec.Micheline Codec.Zarith Codec.MichelineBin Codec.Prims
  Codec.Base58 Codec.Domain Michelson.Timestamp Michelson.Values Michelson.Pack
  Proofs.MichelineBin_proofs Proofs.Values_proofs.
Import ListNotations.
Local Open Scope list_scope.

(* the grammar of binary Micheline as pytezos reads it (Codec/MichelineBin.v) *)
Notation MichEnc := (Enc known_prim utf8_valid).

(* ---------------------------------------------------------------- induction on values *)

Section ValInd.
  Variable P : val -> Prop.
  Hypothesis HUnit : P VUnit.
  Hypothesis HBool : forall b, P (VBool b).
  Hypothesis HInt : forall z, P (VInt z).
  Hypothesis HTs : forall z, P (VTimestamp z).
  Hypothesis HFr : forall z, P (VBlsFr z).
  Hypothesis HStr : forall s, P (VString s).
  Hypothesis HByt : forall b, P (VBytes b).
  Hypothesis HAddr : forall a ep, P (VAddr a ep).
  Hypothesis HKey : forall k, P (VKey k).
  Hypothesis HKh : forall a, P (VKeyHash a).
  Hypothesis HSig : forall r, P (VSig r).
  Hypothesis HCid : forall c, P (VChainId c).
  Hypothesis HNone : P VNone.
  Hypothesis HSome : forall v, P v -> P (VSome v).
  Hypothesis HLeft : forall v, P v -> P (VLeft v).
  Hypothesis HRight : forall v, P v -> P (VRight v).
  Hypothesis HPair : forall a b, P a -> P b -> P (VPair a b).
  Hypothesis HList : forall l, Forall P l -> P (VList l).
  Hypothesis HMap : forall l, Forall (fun e => P (fst e) /\ P (snd e)) l -> P (VMap l).
  Hypothesis HLam : forall c, P (VLambda c).
  Hypothesis HTicket : forall a ep x z, P x -> P (VTicket a ep x z).
  Hypothesis HBigMapId : forall id, P (VBigMapId id).

  Fixpoint val_ind' (v : val) : P v :=
    match v with
    | VUnit => HUnit | VBool b => HBool b | VInt z => HInt z | VTimestamp z => HTs z | VBlsFr z => HFr z
    | VString s => HStr s | VBytes b => HByt b | VAddr a ep => HAddr a ep | VKey k => HKey k
    | VKeyHash a => HKh a | VSig r => HSig r | VChainId c => HCid c | VNone => HNone
    | VSome a => HSome a (val_ind' a) | VLeft a => HLeft a (val_ind' a) | VRight a => HRight a (val_ind' a)
    | VPair a b => HPair a b (val_ind' a) (val_ind' b)
    | VList l =>
        HList l ((fix go (l : list val) : Forall P l :=
                    match l with
                    | [] => Forall_nil P
                    | x :: r => Forall_cons x (val_ind' x) (go r)
                    end) l)
    | VMap l =>
        HMap l ((fix go (l : list (val * val)) : Forall (fun e => P (fst e) /\ P (snd e)) l :=
                   match l with
                   | [] => Forall_nil _
                   | (k, x) :: r => Forall_cons (k, x) (conj (val_ind' k) (val_ind' x)) (go r)
                   end) l)
    | VLambda c => HLam c
    | VTicket a ep x z => HTicket a ep x z (val_ind' x)
    | VBigMapId id => HBigMapId id
    end.
End ValInd.

Section PackProofs.
  Variable C : codec.
  Variable lam_norm : node -> result node.
  Hypothesis HC : codec_ok C.

  Notation to_mich := (to_mich C).
  Notation of_mich := (of_mich C lam_norm).
  Notation has_type := (has_type lam_norm).
  Notation pack := (pack C).
  Notation pack_mode := (pack_mode C).
  Notation unpack := (unpack C lam_norm).

  (* ---------------------------------------------------------------- pack *)

  Lemma pack_mode_defined m t v : packable t = true -> pack_mode m t v = Ok (x05 :: enc (to_mich m v)).
  Proof. intro H. unfold Pack.pack_mode. rewrite H. reflexivity. Qed.

  Lemma pack_defined t v : packable t = true -> pack t v = Ok (x05 :: enc (to_mich Optimized v)).
  Proof. apply pack_mode_defined. Qed.

  Lemma pack_inv m t v bs : pack_mode m t v = Ok bs -> packable t = true /\ bs = x05 :: enc (to_mich m v).
  Proof. unfold Pack.pack_mode. destruct (packable t); [|discriminate]. intros [= <-]. split; reflexivity. Qed.

  Lemma not_packable t v bs : packable t = false -> pack t v = Reject /\ unpack t bs = Reject.
  Proof. intro H. unfold Pack.pack, Pack.pack_mode, Pack.unpack. rewrite H. split; reflexivity. Qed.

  (* ---------------------------------------------------------------- unpack . pack *)

  Lemma unpack_pack_mode m t v bs :
    has_type t v = true -> wf_node (to_mich m v) ->
    pack_mode m t v = Ok bs -> unpack t bs = Ok v.
  Proof.
    intros Ht Hw E. apply pack_inv in E. destruct E as [Hp ->].
    unfold Pack.unpack. rewrite Hp. unfold dec_full.
    rewrite (dec_enc known_prim utf8_valid eq_refl _ Hw).
    apply roundtrip; assumption.
  Qed.

  Lemma unpack_pack t v bs :
    has_type t v = true -> wf_node (to_mich Optimized v) -> pack t v = Ok bs -> unpack t bs = Ok v.
  Proof. apply unpack_pack_mode. Qed.

  Lemma unpack_pack_legacy t v bs :
    has_type t v = true -> wf_node (to_mich LegacyOptimized v) -> pack_legacy C t v = Ok bs -> unpack t bs = Ok v.
  Proof. apply unpack_pack_mode. Qed.

  Lemma unpack_instr_pack t v bs :
    has_type t v = true -> wf_node (to_mich Optimized v) -> pack t v = Ok bs ->
    unpack_instr C lam_norm t bs = VSome v.
  Proof. intros Ht Hw E. unfold Pack.unpack_instr. rewrite (unpack_pack t v bs Ht Hw E). reflexivity. Qed.

  (* distinct values of a type never share their packed form (big_map keys, signed payloads) *)
  Lemma pack_injective t v1 v2 bs :
    has_type t v1 = true -> has_type t v2 = true ->
    wf_node (to_mich Optimized v1) -> wf_node (to_mich Optimized v2) ->
    pack t v1 = Ok bs -> pack t v2 = Ok bs -> v1 = v2.
  Proof.
    intros H1 H2 W1 W2 E1 E2.
    pose proof (unpack_pack t v1 bs H1 W1 E1) as U1. pose proof (unpack_pack t v2 bs H2 W2 E2) as U2.
    congruence.
  Qed.

  (* ---------------------------------------------------------------- what unpack accepts *)

  Lemma unpack_iff t bs v :
    unpack t bs = Ok v <->
    packable t = true /\ exists r n, bs = x05 :: r /\ MichEnc n r /\ of_mich t n = Ok v.
  Proof.
    unfold Pack.unpack. split.
    - destruct (packable t); [|discriminate]. intro H. split; [reflexivity|].
      destruct bs as [|b r]; [discriminate|].
      destruct (byte_eqb b x05) eqn:E.
      + apply byte_eqb_spec in E. subst b.
        destruct (dec_full r) as [n| |] eqn:D; try discriminate.
        exists r, n. split; [reflexivity|]. split; [|exact H].
        apply (dec_full_iff known_prim utf8_valid). exact D.
      + exfalso. destruct b; try discriminate H. discriminate E.
    - intros [Hp (r & n & -> & He & Ho)]. rewrite Hp.
      apply (dec_full_iff known_prim utf8_valid) in He. unfold dec_full. rewrite He. exact Ho.
  Qed.

  Lemma unpack_bad_head t bs : (forall r, bs <> x05 :: r) -> unpack t bs = Reject.
  Proof.
    intro H. destruct (unpack t bs) as [v|] eqn:E; [|reflexivity].
    apply unpack_iff in E. destruct E as [_ (r & n & -> & _)]. exfalso. apply (H r). reflexivity.
  Qed.

  Lemma unpack_not_grammar t r : ~ (exists n, MichEnc n r) -> unpack t (x05 :: r) = Reject.
  Proof.
    intro H. destruct (unpack t (x05 :: r)) as [v|] eqn:E; [|reflexivity].
    apply unpack_iff in E. destruct E as [_ (r' & n & Er & He & _)]. injection Er as <-.
    exfalso. apply H. exists n. exact He.
  Qed.

  Lemma unpack_ill_typed t r n : MichEnc n r -> of_mich t n = Reject -> unpack t (x05 :: r) = Reject.
  Proof.
    intros He Ho. destruct (unpack t (x05 :: r)) as [v|] eqn:E; [|reflexivity].
    apply unpack_iff in E. destruct E as [_ (r' & n' & Er & He' & Ho')]. injection Er as <-.
    pose proof (Enc_functional known_prim utf8_valid _ _ _ He He') as ->. congruence.
  Qed.

  (* no strict prefix and no extension of packed data unpacks, at any type *)
  Lemma unpack_truncated m t v bs p x t' :
    pack_mode m t v = Ok bs -> wf_node (to_mich m v) -> bs = p ++ x -> x <> [] -> unpack t' p = Reject.
  Proof.
    intros E Hw Hs Hx. apply pack_inv in E. destruct E as [_ ->].
    destruct p as [|b p']; [apply unpack_bad_head; intros r; discriminate|].
    cbn [app] in Hs. injection Hs as <- Hs.
    apply unpack_not_grammar. apply (dec_full_reject_iff known_prim utf8_valid).
    eapply (truncation_rejected known_prim utf8_valid); [|exact Hs|exact Hx].
    apply (enc_Enc known_prim utf8_valid eq_refl). exact Hw.
  Qed.

  Lemma unpack_trailing m t v bs x t' :
    pack_mode m t v = Ok bs -> wf_node (to_mich m v) -> x <> [] -> unpack t' (bs ++ x) = Reject.
  Proof.
    intros E Hw Hx. apply pack_inv in E. destruct E as [_ ->]. cbn [app].
    apply unpack_not_grammar. apply (dec_full_reject_iff known_prim utf8_valid).
    apply (trailing_rejected known_prim utf8_valid _ _ _ (enc_Enc known_prim utf8_valid eq_refl _ Hw) Hx).
  Qed.

  Lemma unpack_nonminimal_int t b0 mid :
    cont b0 = true -> Forall (fun b => cont b = true) mid ->
    unpack t (x05 :: x00 :: b0 :: mid ++ [x00]) = Reject.
  Proof.
    intros H0 Hm. apply unpack_not_grammar. apply (dec_full_reject_iff known_prim utf8_valid).
    apply (nonminimal_int_rejected known_prim utf8_valid); assumption.
  Qed.

  Lemma pack_bytes t v :
    (packable t = true -> pack t v = Ok (x05 :: enc (to_mich Optimized v))) /\
    (packable t = false -> pack t v = Reject).
  Proof. split; [apply pack_defined | intro H; apply (not_packable t v [] H)]. Qed.

  Lemma unpack_rejects t :
    (forall bs, (forall r, bs <> x05 :: r) -> unpack t bs = Reject) /\
    (forall r, ~ (exists n, MichEnc n r) -> unpack t (x05 :: r) = Reject) /\
    (forall r n, MichEnc n r -> of_mich t n = Reject -> unpack t (x05 :: r) = Reject) /\
    (forall bs, unpack_instr C lam_norm t bs = VNone <-> unpack t bs = Reject).
  Proof.
    split; [apply unpack_bad_head|]. split; [apply unpack_not_grammar|].
    split; [apply unpack_ill_typed|]. intro bs. unfold Pack.unpack_instr.
    destruct (unpack t bs); split; intro H; try reflexivity; discriminate H.
  Qed.

  (* ---------------------------------------------------------------- the optimized tree meets its specification *)

  Notation Opt := (Opt C lam_norm).
  Notation lambda_plain := (lambda_plain C lam_norm).

  Lemma forge_contract_ep a ep :
    forge_contract (a, match ep with Some e => e | None => default_ep end) = forge_address false a ++ ep_bytes ep.
  Proof.
    unfold forge_contract. cbn [fst snd]. f_equal.
    destruct ep as [e|]; [|reflexivity]. destruct e as [|c e]; [reflexivity|]. reflexivity.
  Qed.

  Lemma comb_shape_pair_node ns : comb_shape ns = pair_node Optimized ns.
  Proof. reflexivity. Qed.

  Lemma spine_comb_single v : (forall a b, v <> VPair a b) ->
    spine v = [v] /\ comb C Optimized v = [to_mich Optimized v].
  Proof. intro H. destruct v; try (split; reflexivity). exfalso. eapply H. reflexivity. Qed.

  Lemma opt_sound : forall v, lambda_plain v = true ->
    Opt v (to_mich Optimized v) /\ Forall2 Opt (spine v) (comb C Optimized v).
  Proof.
    assert (single : forall v, (forall a b, v <> VPair a b) -> Opt v (to_mich Optimized v) ->
                               Opt v (to_mich Optimized v) /\ Forall2 Opt (spine v) (comb C Optimized v)).
    { intros v Hn Ho. split; [exact Ho|]. destruct (spine_comb_single v Hn) as [-> ->].
      constructor; [exact Ho|constructor]. }
    induction v using val_ind'; intro Hp;
      try (apply single; [intros ? ? E; discriminate E|]; unfold Values.to_mich; cbn [tm fst]; constructor; fail).
    - (* address *) apply single; [intros ? ? E; discriminate E|].
      unfold Values.to_mich. cbn [tm fst addr_node]. rewrite <- forge_contract_ep. constructor.
    - (* some *) apply single; [intros ? ? E; discriminate E|]. cbn [Pack.lambda_plain] in Hp.
      change (to_mich Optimized (VSome v)) with (NPrim T_Some [to_mich Optimized v] []).
      constructor. apply IHv, Hp.
    - (* left *) apply single; [intros ? ? E; discriminate E|]. cbn [Pack.lambda_plain] in Hp.
      change (to_mich Optimized (VLeft v)) with (NPrim T_Left [to_mich Optimized v] []).
      constructor. apply IHv, Hp.
    - (* right *) apply single; [intros ? ? E; discriminate E|]. cbn [Pack.lambda_plain] in Hp.
      change (to_mich Optimized (VRight v)) with (NPrim T_Right [to_mich Optimized v] []).
      constructor. apply IHv, Hp.
    - (* pair *) cbn [Pack.lambda_plain] in Hp. apply andb_true_iff in Hp. destruct Hp as [H1 H2].
      destruct (IHv1 H1) as [A _]. destruct (IHv2 H2) as [_ B].
      assert (F : Forall2 Opt (spine (VPair v1 v2)) (comb C Optimized (VPair v1 v2))).
      { cbn [spine comb]. constructor; assumption. }
      split; [|exact F].
      rewrite to_mich_pair by discriminate. rewrite <- comb_shape_pair_node.
      change (to_mich Optimized v1 :: comb C Optimized v2) with (comb C Optimized (VPair v1 v2)).
      constructor. exact F.
    - (* list *) apply single; [intros ? ? E; discriminate E|].
      rewrite to_mich_list. constructor.
      cbn [Pack.lambda_plain] in Hp.
      induction H as [|x l Hx Hl IH]; [constructor|].
      apply andb_true_iff in Hp. destruct Hp as [P1 P2]. cbn [map].
      constructor; [apply Hx, P1 | apply IH, P2].
    - (* map *) apply single; [intros ? ? E; discriminate E|].
      rewrite to_mich_map. constructor.
      cbn [Pack.lambda_plain] in Hp.
      induction H as [|[k x] l Hx Hl IH]; [constructor|].
      rewrite !andb_true_iff in Hp. destruct Hp as [[P1 P2] P3]. cbn [map]. cbn [fst snd] in Hx.
      constructor; [|apply IH, P3].
      exists (to_mich Optimized k), (to_mich Optimized x). cbn [fst snd].
      split; [apply Hx, P1|]. split; [apply Hx, P2|]. reflexivity.
    - (* lambda *) apply single; [intros ? ? E; discriminate E|].
      cbn [Pack.lambda_plain] in Hp. apply node_eqb_spec in Hp.
      change (to_mich Optimized (VLambda c)) with c. rewrite <- Hp at 2. constructor.
    - (* ticket: not packable, outside lambda_plain *) discriminate Hp.
    - (* big_map id: not packable, outside lambda_plain *) discriminate Hp.
  Qed.

  Lemma pack_shape t v :
    packable t = true -> lambda_plain v = true ->
    exists tree, Opt v tree /\ pack t v = Ok (x05 :: enc tree).
  Proof.
    intros Hp Hl. exists (to_mich Optimized v). split; [apply opt_sound, Hl | apply pack_defined, Hp].
  Qed.

  (* the bytes are a word of the grammar *)
  Lemma pack_in_grammar t v bs :
    pack t v = Ok bs -> wf_node (to_mich Optimized v) ->
    exists body, bs = x05 :: body /\ MichEnc (to_mich Optimized v) body.
  Proof.
    intros E Hw. apply pack_inv in E. destruct E as [_ ->]. eexists. split; [reflexivity|].
    apply (enc_Enc known_prim utf8_valid eq_refl). exact Hw.
  Qed.
End PackProofs.

(* ---------------------------------------------------------------- the known finding, as a theorem *)

Definition kf_code : node :=
  NSeq [NPrim T_PUSH [NPrim x6b [] []; NStr (tx "2021-03-04T05:06:07Z")] []].
Definition kf_val : val := VLambda kf_code.
Definition kf_ty : ty := TLambda TUnit TTimestamp.
Definition lam_id : node -> result node := fun n => Ok n.

Lemma lambda_push_refutes C :
  packable kf_ty = true /\ has_type lam_id kf_ty kf_val = true /\ wf_node (to_mich C Optimized kf_val) /\
  (forall tree, Opt C lam_id kf_val tree -> pack C kf_ty kf_val <> Ok (x05 :: enc tree)) /\
  (forall bs, pack C kf_ty kf_val = Ok bs -> unpack C lam_id kf_ty bs = Ok kf_val).
Proof.
  split; [reflexivity|]. split; [vm_compute; reflexivity|]. split; [vm_compute; reflexivity|]. split.
  - intros tree H. inversion H; subst. vm_compute. discriminate.
  - intros bs E. vm_compute in E. injection E as <-. vm_compute. reflexivity.
Qed.
