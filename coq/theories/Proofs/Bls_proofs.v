(* Proofs/Bls_proofs.v — lemmas about Michelson/Bls.v *)
From Coq Require Import List ZArith Bool Lia ZifyBool.
From Coq.Strings Require Import Byte.
From PV Require Import Base.Bytes Base.Result Michelson.Arith Proofs.Arith_proofs Michelson.Bls.
Import ListNotations.
Local Open Scope Z_scope.

(* ------------------------------------------------------------------------------------------ *)
(* Fr: the ring Z / r                                                                          *)
(* ------------------------------------------------------------------------------------------ *)

Lemma FR_pos : 0 < FR_MODULUS. Proof. reflexivity. Qed.
Lemma FR_lt_2_256 : FR_MODULUS < 256 ^ 32. Proof. reflexivity. Qed.
Lemma FQ_lt_2_381 : FQ_MODULUS < 2 ^ 381. Proof. reflexivity. Qed.

Definition canonical (x : Z) : Prop := 0 <= x < FR_MODULUS.

Lemma fr_range z : canonical (fr z).
Proof. apply Z.mod_pos_bound. exact FR_pos. Qed.

Lemma fr_canonical x : canonical x -> fr x = x.
Proof. intros H. apply Z.mod_small. exact H. Qed.

Lemma fr_idem z : fr (fr z) = fr z.
Proof. apply Z.mod_mod. pose proof FR_pos. lia. Qed.

Lemma fr_add_comm a b : fr_add a b = fr_add b a.
Proof. unfold fr_add. f_equal. lia. Qed.

Lemma fr_add_assoc a b c : fr_add (fr_add a b) c = fr_add a (fr_add b c).
Proof. unfold fr_add, fr. rewrite Zplus_mod_idemp_l, Zplus_mod_idemp_r. f_equal. lia. Qed.

Lemma fr_add_0_l a : fr_add 0 a = fr a.
Proof. reflexivity. Qed.

Lemma fr_add_neg a : fr_add a (fr_neg a) = 0.
Proof.
  unfold fr_add, fr_neg, fr. rewrite Zplus_mod_idemp_r. replace (a + - a) with 0 by lia. reflexivity.
Qed.

Lemma fr_mul_comm a b : fr_mul a b = fr_mul b a.
Proof. unfold fr_mul. f_equal. lia. Qed.

Lemma fr_mul_assoc a b c : fr_mul (fr_mul a b) c = fr_mul a (fr_mul b c).
Proof. unfold fr_mul, fr. rewrite Zmult_mod_idemp_l, Zmult_mod_idemp_r. f_equal. lia. Qed.

Lemma fr_mul_1_l a : fr_mul 1 a = fr a.
Proof. unfold fr_mul. f_equal. lia. Qed.

Lemma fr_mul_add_distr a b c : fr_mul a (fr_add b c) = fr_add (fr_mul a b) (fr_mul a c).
Proof.
  unfold fr_mul, fr_add, fr. rewrite Zmult_mod_idemp_r, <- Zplus_mod. f_equal. lia.
Qed.

(* a nat / int operand acts through its residue *)
Lemma fr_mul_reduce_l z y : fr_mul z y = fr_mul (fr z) y.
Proof. unfold fr_mul, fr. rewrite Zmult_mod_idemp_l. reflexivity. Qed.

Lemma fr_neg_is_opposite a : canonical a -> fr_neg a = if a =? 0 then 0 else FR_MODULUS - a.
Proof.
  intros H. unfold fr_neg, fr. destruct (a =? 0) eqn:E.
  - apply Z.eqb_eq in E. subst. reflexivity.
  - apply Z.eqb_neq in E. symmetry. apply (Z.mod_unique_pos _ _ (-1)); unfold canonical in H; lia.
Qed.

(* ------------------------------------------------------------------------------------------ *)
(* Fr codec: 32 bytes little-endian                                                            *)
(* ------------------------------------------------------------------------------------------ *)

Lemma le_val_digits n z : le_val (le_digits n z) = z mod 256 ^ Z.of_nat n.
Proof. unfold le_val, le_digits. rewrite rev_involutive. apply be_val_digits. Qed.

Lemma length_le_digits n z : length (le_digits n z) = n.
Proof. unfold le_digits. rewrite rev_length. apply length_be_digits. Qed.

Theorem fr_codec_roundtrip x : canonical x ->
  exists b, fr_to_bytes x = Ok b /\ length b = 32%nat /\ fr_of_bytes b = Ok x.
Proof.
  intros H. unfold canonical in H. pose proof FR_lt_2_256 as HR.
  exists (le_digits 32 x). unfold fr_to_bytes.
  destruct ((0 <=? x) && (x <? 256 ^ 32)) eqn:E; [|lia].
  split; [reflexivity|]. split; [apply length_le_digits|].
  unfold fr_of_bytes. rewrite length_le_digits. cbn [Nat.leb].
  rewrite le_val_digits. f_equal.
  change (Z.of_nat 32) with 32. rewrite Z.mod_small by lia. apply fr_canonical. exact H.
Qed.

(* the other direction: a 32-byte string below r is reproduced exactly *)
Lemma le_val_inj l1 l2 : length l1 = length l2 -> le_val l1 = le_val l2 -> l1 = l2.
Proof.
  intros Hl Hv. unfold le_val in Hv. apply be_val_inj in Hv; [|rewrite !rev_length; exact Hl].
  rewrite <- (rev_involutive l1), <- (rev_involutive l2), Hv. reflexivity.
Qed.

Lemma le_val_bound l : 0 <= le_val l < 256 ^ Z.of_nat (length l).
Proof. unfold le_val. rewrite <- rev_length. apply be_val_bound. Qed.

Theorem fr_bytes_roundtrip b : length b = 32%nat -> le_val b < FR_MODULUS ->
  exists x, fr_of_bytes b = Ok x /\ fr_to_bytes x = Ok b.
Proof.
  intros Hl Hv. pose proof (le_val_bound b) as Hb. pose proof FR_lt_2_256 as HR.
  exists (le_val b). unfold fr_of_bytes. rewrite Hl. cbn [Nat.leb].
  rewrite fr_canonical by (unfold canonical; lia). split; [reflexivity|].
  unfold fr_to_bytes. destruct ((0 <=? le_val b) && (le_val b <? 256 ^ 32)) eqn:E; [|lia].
  f_equal. apply le_val_inj; [rewrite length_le_digits; symmetry; exact Hl|].
  rewrite le_val_digits. change (Z.of_nat 32) with 32. apply Z.mod_small. lia.
Qed.

Lemma fr_of_bytes_reject_iff b : fr_of_bytes b = Reject <-> (32 < length b)%nat.
Proof.
  unfold fr_of_bytes. destruct (length b <=? 32)%nat eqn:E; split; intros H; try discriminate; try reflexivity.
  - apply Nat.leb_le in E. lia.
  - apply Nat.leb_gt in E. lia.
Qed.

(* ------------------------------------------------------------------------------------------ *)
(* coordinate bytes                                                                            *)
(* ------------------------------------------------------------------------------------------ *)

Lemma coord_bytes_ok x : 0 <= x < 256 ^ 48 -> coord_bytes x = Ok (be_digits 48 x).
Proof.
  intros H. unfold coord_bytes, py_to_bytes. change (Z.of_nat 48) with 48.
  destruct ((0 <=? x) && (x <? 256 ^ 48)) eqn:E; [reflexivity | lia].
Qed.

Lemma FQ_lt_256_48 : FQ_MODULUS < 256 ^ 48. Proof. reflexivity. Qed.

Lemma be_val_coord x : 0 <= x < 256 ^ 48 -> be_val 0 (be_digits 48 x) = x.
Proof. intros H. rewrite be_val_digits. change (Z.of_nat 48) with 48. apply Z.mod_small. exact H. Qed.

(* a coordinate below 2^381 has the three top bits of its first byte clear: no infinity flag *)
Lemma inf_flag_coord x rest : 0 <= x < 2 ^ 381 -> inf_flag (be_digits 48 x ++ rest) = Ok false.
Proof.
  intros H.
  assert (Hx : 0 <= x < 256 ^ 48) by (assert (2 ^ 381 < 256 ^ 48) by reflexivity; lia).
  pose proof (be_val_coord x Hx) as Hv. pose proof (length_be_digits 48 x) as Hl.
  destruct (be_digits 48 x) as [|b0 r] eqn:E; [discriminate Hl|].
  cbn [app inf_flag]. f_equal.
  cbn [be_val] in Hv. rewrite be_val_acc in Hv.
  simpl in Hl. injection Hl as Hl. rewrite Hl in Hv.
  pose proof (be_val_bound r) as Hr. pose proof (byte_Z_range b0) as Hb.
  assert (Hlt : byte_Z b0 < 64).
  { assert (Hp : 256 ^ Z.of_nat 47 = 2 ^ 376) by reflexivity. rewrite Hp in Hv.
    assert (H381 : 2 ^ 381 = 32 * 2 ^ 376) by reflexivity.
    assert (0 < 2 ^ 376) by reflexivity. nia. }
  apply Z.testbit_false; [lia|]. change (2 ^ 6) with 64. rewrite Z.div_small by lia. reflexivity.
Qed.

Lemma firstn_app_exact {A} (a b : list A) n : length a = n -> firstn n (a ++ b) = a.
Proof. intros <-. rewrite firstn_app, Nat.sub_diag, firstn_all. simpl. apply app_nil_r. Qed.

Lemma skipn_app_exact {A} (a b : list A) n : length a = n -> skipn n (a ++ b) = b.
Proof. intros <-. rewrite skipn_app, Nat.sub_diag, skipn_all. reflexivity. Qed.

(* ------------------------------------------------------------------------------------------ *)
(* the abstract curve                                                                          *)
(* ------------------------------------------------------------------------------------------ *)

Section CurveLaws.
  Variables G1 G2 GT : Type.
  Variable add1 : G1 -> G1 -> G1.
  Variable neg1 : G1 -> G1.
  Variable mul1 : G1 -> Z -> G1.
  Variable zero1 : G1.
  Variable add2 : G2 -> G2 -> G2.
  Variable neg2 : G2 -> G2.
  Variable mul2 : G2 -> Z -> G2.
  Variable zero2 : G2.
  Variable coords1 : G1 -> affine1.
  Variable point1 : Z -> Z -> G1.
  Variable coords2 : G2 -> affine2.
  Variable point2 : Z -> Z -> Z -> Z -> G2.
  Variable pairing : G2 -> G1 -> GT.
  Variable gt_mul : GT -> GT -> GT.
  Variable gt_one : GT.
  Variable gt_eqb : GT -> GT -> bool.

  (* what is assumed of py_ecc's normalize / is_inf / point construction *)
  Hypothesis coords1_inf : forall g, coords1 g = Inf1 -> g = zero1.
  Hypothesis coords1_aff : forall g x y, coords1 g = Aff1 x y ->
    0 <= x < FQ_MODULUS /\ 0 <= y < FQ_MODULUS /\ point1 x y = g.
  Hypothesis coords2_inf : forall g, coords2 g = Inf2 -> g = zero2.
  Hypothesis coords2_aff : forall g a b c d, coords2 g = Aff2 a b c d ->
    0 <= a < FQ_MODULUS /\ 0 <= b < FQ_MODULUS /\ 0 <= c < FQ_MODULUS /\ 0 <= d < FQ_MODULUS /\ point2 a b c d = g.

  Let g1_from := g1_from_point G1 coords1.
  Let g1_to := g1_to_point G1 zero1 point1.
  Let g2_from := g2_from_point G2 coords2.
  Let g2_to := g2_to_point G2 zero2 point2.
  Let ex := bexec G1 G2 GT add1 neg1 mul1 zero1 add2 neg2 mul2 zero2 coords1 point1 coords2 point2 pairing gt_mul gt_one gt_eqb.

  Lemma fq_coord x : 0 <= x < FQ_MODULUS -> 0 <= x < 256 ^ 48 /\ 0 <= x < 2 ^ 381.
  Proof. pose proof FQ_lt_256_48. pose proof FQ_lt_2_381. lia. Qed.

  (* every G1 point, infinity included, encodes to 96 bytes that decode to the same point *)
  Theorem g1_roundtrip g : exists v, g1_from g = Ok v /\ length v = 96%nat /\ g1_to v = Ok g.
  Proof.
    unfold g1_from, g1_to, g1_from_point, g1_to_point.
    destruct (coords1 g) as [|x y] eqn:E.
    - exists (be_digits 48 POW_2_382 ++ be_digits 48 0).
      rewrite (coords1_inf g E). split; [vm_compute; reflexivity|]. split; [vm_compute; reflexivity|].
      replace (inf_flag (be_digits 48 POW_2_382 ++ be_digits 48 0)) with (Ok true) by (vm_compute; reflexivity).
      reflexivity.
    - destruct (coords1_aff g x y E) as (Hx & Hy & Hp).
      destruct (fq_coord x Hx) as [Hx1 Hx2]. destruct (fq_coord y Hy) as [Hy1 Hy2].
      exists (be_digits 48 x ++ be_digits 48 y).
      rewrite (coord_bytes_ok x Hx1), (coord_bytes_ok y Hy1). cbn [bind].
      assert (Hlen : length (be_digits 48 x ++ be_digits 48 y) = 96%nat)
        by (rewrite app_length, !length_be_digits; reflexivity).
      rewrite Hlen. cbn [Nat.eqb]. split; [reflexivity|]. split; [exact Hlen|].
      rewrite (inf_flag_coord x _ Hx2). cbn [bind].
      rewrite (firstn_app_exact _ _ 48 (length_be_digits 48 x)), (skipn_app_exact _ _ 48 (length_be_digits 48 x)).
      rewrite (be_val_coord x Hx1), (be_val_coord y Hy1), Hp. reflexivity.
  Qed.

  Lemma chunks4 (a b c d : bytes) :
    length a = 48%nat -> length b = 48%nat -> length c = 48%nat -> length d = 48%nat ->
    chunk 48 0 (a ++ b ++ c ++ d) = a /\ chunk 48 1 (a ++ b ++ c ++ d) = b /\
    chunk 48 2 (a ++ b ++ c ++ d) = c /\ chunk 48 3 (a ++ b ++ c ++ d) = d.
  Proof.
    intros Ha Hb Hc Hd. unfold chunk. repeat split.
    - change (0 * 48)%nat with 0%nat. rewrite skipn_O. apply firstn_app_exact. exact Ha.
    - change (1 * 48)%nat with 48%nat. rewrite (skipn_app_exact a _ 48 Ha). apply firstn_app_exact. exact Hb.
    - change (2 * 48)%nat with 96%nat. rewrite (app_assoc a b).
      rewrite (skipn_app_exact (a ++ b) _ 96) by (rewrite app_length, Ha, Hb; reflexivity).
      apply firstn_app_exact. exact Hc.
    - change (3 * 48)%nat with 144%nat. rewrite (app_assoc a b), (app_assoc (a ++ b) c).
      rewrite (skipn_app_exact ((a ++ b) ++ c) _ 144) by (rewrite !app_length, Ha, Hb, Hc; reflexivity).
      rewrite <- (app_nil_r d) at 1. apply firstn_app_exact. exact Hd.
  Qed.

  Theorem g2_roundtrip g : exists v, g2_from g = Ok v /\ length v = 192%nat /\ g2_to v = Ok g.
  Proof.
    unfold g2_from, g2_to, g2_from_point, g2_to_point.
    destruct (coords2 g) as [|a b c d] eqn:E.
    - exists (be_digits 48 POW_2_382 ++ be_digits 48 0 ++ be_digits 48 0 ++ be_digits 48 0).
      rewrite (coords2_inf g E). split; [vm_compute; reflexivity|]. split; [vm_compute; reflexivity|].
      replace (inf_flag (be_digits 48 POW_2_382 ++ be_digits 48 0 ++ be_digits 48 0 ++ be_digits 48 0))
        with (Ok true) by (vm_compute; reflexivity).
      reflexivity.
    - destruct (coords2_aff g a b c d E) as (Ha & Hb & Hc & Hd & Hp).
      destruct (fq_coord a Ha) as [Ha1 Ha2]. destruct (fq_coord b Hb) as [Hb1 Hb2].
      destruct (fq_coord c Hc) as [Hc1 Hc2]. destruct (fq_coord d Hd) as [Hd1 Hd2].
      exists (be_digits 48 b ++ be_digits 48 a ++ be_digits 48 d ++ be_digits 48 c).
      rewrite (coord_bytes_ok a Ha1), (coord_bytes_ok b Hb1), (coord_bytes_ok c Hc1), (coord_bytes_ok d Hd1).
      cbn [bind]. split; [reflexivity|].
      split; [rewrite !app_length, !length_be_digits; reflexivity|].
      rewrite (inf_flag_coord b _ Hb2). cbn [bind].
      destruct (chunks4 (be_digits 48 b) (be_digits 48 a) (be_digits 48 d) (be_digits 48 c)
                        (length_be_digits 48 b) (length_be_digits 48 a) (length_be_digits 48 d) (length_be_digits 48 c))
        as (C0 & C1 & C2 & C3).
      rewrite C0, C1, C2, C3.
      rewrite (be_val_coord a Ha1), (be_val_coord b Hb1), (be_val_coord c Hc1), (be_val_coord d Hd1), Hp.
      reflexivity.
  Qed.

  Definition enc1 (g : G1) (v : bytes) : Prop := g1_from g = Ok v.
  Definition enc2 (g : G2) (v : bytes) : Prop := g2_from g = Ok v.

  Lemma enc1_total g : exists v, enc1 g v.
  Proof. destruct (g1_roundtrip g) as (v & H & _). exists v. exact H. Qed.
  Lemma enc1_decodes g v : enc1 g v -> g1_to v = Ok g.
  Proof. intros H. destruct (g1_roundtrip g) as (v' & H1 & _ & H2). unfold enc1 in H. rewrite H in H1. injection H1 as <-. exact H2. Qed.
  Lemma enc2_total g : exists v, enc2 g v.
  Proof. destruct (g2_roundtrip g) as (v & H & _). exists v. exact H. Qed.
  Lemma enc2_decodes g v : enc2 g v -> g2_to v = Ok g.
  Proof. intros H. destruct (g2_roundtrip g) as (v' & H1 & _ & H2). unfold enc2 in H. rewrite H in H1. injection H1 as <-. exact H2. Qed.

  (* the instructions compute, on encodings, the encoding of the group operation *)
  Theorem add1_lifted a b va vb : enc1 a va -> enc1 b vb ->
    exists vr, enc1 (add1 a b) vr /\ ex BADD [BG1 va; BG1 vb] = Ok (BG1 vr).
  Proof.
    intros Ha Hb. destruct (enc1_total (add1 a b)) as [vr Hr]. exists vr. split; [exact Hr|].
    unfold ex. cbn [bexec exec_add]. fold g1_to. rewrite (enc1_decodes a va Ha), (enc1_decodes b vb Hb). cbn [bind].
    fold g1_from. unfold enc1 in Hr. rewrite Hr. reflexivity.
  Qed.

  Theorem neg1_lifted a va : enc1 a va -> exists vr, enc1 (neg1 a) vr /\ ex BNEG [BG1 va] = Ok (BG1 vr).
  Proof.
    intros Ha. destruct (enc1_total (neg1 a)) as [vr Hr]. exists vr. split; [exact Hr|].
    unfold ex. cbn [bexec exec_neg]. fold g1_to. rewrite (enc1_decodes a va Ha). cbn [bind].
    fold g1_from. unfold enc1 in Hr. rewrite Hr. reflexivity.
  Qed.

  Theorem mul1_lifted a va s : enc1 a va -> exists vr, enc1 (mul1 a s) vr /\ ex BMUL [BG1 va; BFr s] = Ok (BG1 vr).
  Proof.
    intros Ha. destruct (enc1_total (mul1 a s)) as [vr Hr]. exists vr. split; [exact Hr|].
    unfold ex. cbn [bexec exec_mul]. fold g1_to. rewrite (enc1_decodes a va Ha). cbn [bind].
    fold g1_from. unfold enc1 in Hr. rewrite Hr. reflexivity.
  Qed.

  Theorem add2_lifted a b va vb : enc2 a va -> enc2 b vb ->
    exists vr, enc2 (add2 a b) vr /\ ex BADD [BG2 va; BG2 vb] = Ok (BG2 vr).
  Proof.
    intros Ha Hb. destruct (enc2_total (add2 a b)) as [vr Hr]. exists vr. split; [exact Hr|].
    unfold ex. cbn [bexec exec_add]. fold g2_to. rewrite (enc2_decodes a va Ha), (enc2_decodes b vb Hb). cbn [bind].
    fold g2_from. unfold enc2 in Hr. rewrite Hr. reflexivity.
  Qed.

  Theorem neg2_lifted a va : enc2 a va -> exists vr, enc2 (neg2 a) vr /\ ex BNEG [BG2 va] = Ok (BG2 vr).
  Proof.
    intros Ha. destruct (enc2_total (neg2 a)) as [vr Hr]. exists vr. split; [exact Hr|].
    unfold ex. cbn [bexec exec_neg]. fold g2_to. rewrite (enc2_decodes a va Ha). cbn [bind].
    fold g2_from. unfold enc2 in Hr. rewrite Hr. reflexivity.
  Qed.

  Theorem mul2_lifted a va s : enc2 a va -> exists vr, enc2 (mul2 a s) vr /\ ex BMUL [BG2 va; BFr s] = Ok (BG2 vr).
  Proof.
    intros Ha. destruct (enc2_total (mul2 a s)) as [vr Hr]. exists vr. split; [exact Hr|].
    unfold ex. cbn [bexec exec_mul]. fold g2_to. rewrite (enc2_decodes a va Ha). cbn [bind].
    fold g2_from. unfold enc2 in Hr. rewrite Hr. reflexivity.
  Qed.

  Lemma enc1_fun g v v' : enc1 g v -> enc1 g v' -> v = v'.
  Proof. unfold enc1. intros H H'. rewrite H in H'. injection H' as <-. reflexivity. Qed.
  Lemma enc2_fun g v v' : enc2 g v -> enc2 g v' -> v = v'.
  Proof. unfold enc2. intros H H'. rewrite H in H'. injection H' as <-. reflexivity. Qed.

  (* ---- group laws of py_ecc's G1 (hypotheses) carried over to the instructions ---- *)
  Section G1Laws.
    Hypothesis add1_assoc : forall a b c, add1 (add1 a b) c = add1 a (add1 b c).
    Hypothesis add1_zero_l : forall a, add1 zero1 a = a.
    Hypothesis add1_zero_r : forall a, add1 a zero1 = a.
    Hypothesis add1_neg : forall a, add1 a (neg1 a) = zero1.
    Hypothesis mul1_mod : forall a s, mul1 a (s mod FR_MODULUS) = mul1 a s.
    Hypothesis mul1_add_scalar : forall a s t, mul1 a (s + t) = add1 (mul1 a s) (mul1 a t).
    Hypothesis mul1_add_point : forall a b s, mul1 (add1 a b) s = add1 (mul1 a s) (mul1 b s).

    Theorem g1_identity a va vz : enc1 a va -> enc1 zero1 vz ->
      ex BADD [BG1 vz; BG1 va] = Ok (BG1 va) /\ ex BADD [BG1 va; BG1 vz] = Ok (BG1 va).
    Proof.
      intros Ha Hz. split.
      - destruct (add1_lifted zero1 a vz va Hz Ha) as (vr & Hr & He). rewrite add1_zero_l in Hr.
        rewrite <- (enc1_fun a va vr Ha Hr) in He. exact He.
      - destruct (add1_lifted a zero1 va vz Ha Hz) as (vr & Hr & He). rewrite add1_zero_r in Hr.
        rewrite <- (enc1_fun a va vr Ha Hr) in He. exact He.
    Qed.

    Theorem g1_comm (add1_comm : forall a b, add1 a b = add1 b a) a b va vb : enc1 a va -> enc1 b vb ->
      exists vr, ex BADD [BG1 va; BG1 vb] = Ok (BG1 vr) /\ ex BADD [BG1 vb; BG1 va] = Ok (BG1 vr).
    Proof.
      intros Ha Hb. destruct (add1_lifted a b va vb Ha Hb) as (vr & Hr & Er).
      destruct (add1_lifted b a vb va Hb Ha) as (vr' & Hr' & Er').
      rewrite add1_comm in Hr'. rewrite (enc1_fun _ vr' vr Hr' Hr) in Er'. exists vr. split; assumption.
    Qed.

    Theorem g1_inverse a va vz : enc1 a va -> enc1 zero1 vz ->
      exists vn, ex BNEG [BG1 va] = Ok (BG1 vn) /\ ex BADD [BG1 va; BG1 vn] = Ok (BG1 vz).
    Proof.
      intros Ha Hz. destruct (neg1_lifted a va Ha) as (vn & Hn & En). exists vn. split; [exact En|].
      destruct (add1_lifted a (neg1 a) va vn Ha Hn) as (vr & Hr & He). rewrite add1_neg in Hr.
      rewrite (enc1_fun zero1 vz vr Hz Hr). exact He.
    Qed.

    Theorem g1_assoc a b c va vb vc : enc1 a va -> enc1 b vb -> enc1 c vc ->
      exists vab vbc vr,
        ex BADD [BG1 va; BG1 vb] = Ok (BG1 vab) /\ ex BADD [BG1 vb; BG1 vc] = Ok (BG1 vbc) /\
        ex BADD [BG1 vab; BG1 vc] = Ok (BG1 vr) /\ ex BADD [BG1 va; BG1 vbc] = Ok (BG1 vr).
    Proof.
      intros Ha Hb Hc.
      destruct (add1_lifted a b va vb Ha Hb) as (vab & Hab & Eab).
      destruct (add1_lifted b c vb vc Hb Hc) as (vbc & Hbc & Ebc).
      destruct (add1_lifted (add1 a b) c vab vc Hab Hc) as (vr & Hr & Er).
      destruct (add1_lifted a (add1 b c) va vbc Ha Hbc) as (vr' & Hr' & Er').
      rewrite add1_assoc in Hr. rewrite (enc1_fun _ vr' vr Hr' Hr) in Er'.
      exists vab, vbc, vr. repeat split; assumption.
    Qed.

    Theorem g1_scalar_distributivity a va s t : enc1 a va ->
      exists v1 v2 v3,
        ex BMUL [BG1 va; BFr s] = Ok (BG1 v1) /\ ex BMUL [BG1 va; BFr t] = Ok (BG1 v2) /\
        ex BADD [BG1 v1; BG1 v2] = Ok (BG1 v3) /\ ex BMUL [BG1 va; BFr (fr_add s t)] = Ok (BG1 v3).
    Proof.
      intros Ha.
      destruct (mul1_lifted a va s Ha) as (v1 & H1 & E1).
      destruct (mul1_lifted a va t Ha) as (v2 & H2 & E2).
      destruct (add1_lifted _ _ v1 v2 H1 H2) as (v3 & H3 & E3).
      destruct (mul1_lifted a va (fr_add s t) Ha) as (v3' & H3' & E3').
      unfold fr_add, fr in H3'. rewrite mul1_mod, mul1_add_scalar in H3'.
      rewrite (enc1_fun _ v3' v3 H3' H3) in E3'.
      exists v1, v2, v3. repeat split; assumption.
    Qed.

    Theorem g1_point_distributivity a b va vb s : enc1 a va -> enc1 b vb ->
      exists vab v1 v2 v3,
        ex BADD [BG1 va; BG1 vb] = Ok (BG1 vab) /\ ex BMUL [BG1 vab; BFr s] = Ok (BG1 v3) /\
        ex BMUL [BG1 va; BFr s] = Ok (BG1 v1) /\ ex BMUL [BG1 vb; BFr s] = Ok (BG1 v2) /\
        ex BADD [BG1 v1; BG1 v2] = Ok (BG1 v3).
    Proof.
      intros Ha Hb.
      destruct (add1_lifted a b va vb Ha Hb) as (vab & Hab & Eab).
      destruct (mul1_lifted _ vab s Hab) as (v3 & H3 & E3).
      destruct (mul1_lifted a va s Ha) as (v1 & H1 & E1).
      destruct (mul1_lifted b vb s Hb) as (v2 & H2 & E2).
      destruct (add1_lifted _ _ v1 v2 H1 H2) as (v3' & H3' & E3').
      rewrite mul1_add_point in H3. rewrite (enc1_fun _ v3' v3 H3' H3) in E3'.
      exists vab, v1, v2, v3. repeat split; assumption.
    Qed.
  End G1Laws.

  (* the same for G2 *)
  Section G2Laws.
    Hypothesis add2_assoc : forall a b c, add2 (add2 a b) c = add2 a (add2 b c).
    Hypothesis add2_zero_l : forall a, add2 zero2 a = a.
    Hypothesis add2_zero_r : forall a, add2 a zero2 = a.
    Hypothesis add2_neg : forall a, add2 a (neg2 a) = zero2.
    Hypothesis mul2_mod : forall a s, mul2 a (s mod FR_MODULUS) = mul2 a s.
    Hypothesis mul2_add_scalar : forall a s t, mul2 a (s + t) = add2 (mul2 a s) (mul2 a t).

    Theorem g2_identity a va vz : enc2 a va -> enc2 zero2 vz ->
      ex BADD [BG2 vz; BG2 va] = Ok (BG2 va) /\ ex BADD [BG2 va; BG2 vz] = Ok (BG2 va).
    Proof.
      intros Ha Hz. split.
      - destruct (add2_lifted zero2 a vz va Hz Ha) as (vr & Hr & He). rewrite add2_zero_l in Hr.
        rewrite <- (enc2_fun a va vr Ha Hr) in He. exact He.
      - destruct (add2_lifted a zero2 va vz Ha Hz) as (vr & Hr & He). rewrite add2_zero_r in Hr.
        rewrite <- (enc2_fun a va vr Ha Hr) in He. exact He.
    Qed.

    Theorem g2_comm (add2_comm : forall a b, add2 a b = add2 b a) a b va vb : enc2 a va -> enc2 b vb ->
      exists vr, ex BADD [BG2 va; BG2 vb] = Ok (BG2 vr) /\ ex BADD [BG2 vb; BG2 va] = Ok (BG2 vr).
    Proof.
      intros Ha Hb. destruct (add2_lifted a b va vb Ha Hb) as (vr & Hr & Er).
      destruct (add2_lifted b a vb va Hb Ha) as (vr' & Hr' & Er').
      rewrite add2_comm in Hr'. rewrite (enc2_fun _ vr' vr Hr' Hr) in Er'. exists vr. split; assumption.
    Qed.

    Theorem g2_inverse a va vz : enc2 a va -> enc2 zero2 vz ->
      exists vn, ex BNEG [BG2 va] = Ok (BG2 vn) /\ ex BADD [BG2 va; BG2 vn] = Ok (BG2 vz).
    Proof.
      intros Ha Hz. destruct (neg2_lifted a va Ha) as (vn & Hn & En). exists vn. split; [exact En|].
      destruct (add2_lifted a (neg2 a) va vn Ha Hn) as (vr & Hr & He). rewrite add2_neg in Hr.
      rewrite (enc2_fun zero2 vz vr Hz Hr). exact He.
    Qed.

    Theorem g2_assoc a b c va vb vc : enc2 a va -> enc2 b vb -> enc2 c vc ->
      exists vab vbc vr,
        ex BADD [BG2 va; BG2 vb] = Ok (BG2 vab) /\ ex BADD [BG2 vb; BG2 vc] = Ok (BG2 vbc) /\
        ex BADD [BG2 vab; BG2 vc] = Ok (BG2 vr) /\ ex BADD [BG2 va; BG2 vbc] = Ok (BG2 vr).
    Proof.
      intros Ha Hb Hc.
      destruct (add2_lifted a b va vb Ha Hb) as (vab & Hab & Eab).
      destruct (add2_lifted b c vb vc Hb Hc) as (vbc & Hbc & Ebc).
      destruct (add2_lifted (add2 a b) c vab vc Hab Hc) as (vr & Hr & Er).
      destruct (add2_lifted a (add2 b c) va vbc Ha Hbc) as (vr' & Hr' & Er').
      rewrite add2_assoc in Hr. rewrite (enc2_fun _ vr' vr Hr' Hr) in Er'.
      exists vab, vbc, vr. repeat split; assumption.
    Qed.

    Theorem g2_scalar_distributivity a va s t : enc2 a va ->
      exists v1 v2 v3,
        ex BMUL [BG2 va; BFr s] = Ok (BG2 v1) /\ ex BMUL [BG2 va; BFr t] = Ok (BG2 v2) /\
        ex BADD [BG2 v1; BG2 v2] = Ok (BG2 v3) /\ ex BMUL [BG2 va; BFr (fr_add s t)] = Ok (BG2 v3).
    Proof.
      intros Ha.
      destruct (mul2_lifted a va s Ha) as (v1 & H1 & E1).
      destruct (mul2_lifted a va t Ha) as (v2 & H2 & E2).
      destruct (add2_lifted _ _ v1 v2 H1 H2) as (v3 & H3 & E3).
      destruct (mul2_lifted a va (fr_add s t) Ha) as (v3' & H3' & E3').
      unfold fr_add, fr in H3'. rewrite mul2_mod, mul2_add_scalar in H3'.
      rewrite (enc2_fun _ v3' v3 H3' H3) in E3'.
      exists v1, v2, v3. repeat split; assumption.
    Qed.
  End G2Laws.

  (* ---- PAIRING_CHECK ---- *)
  Fixpoint decode_pairs (l : list (bytes * bytes)) : result (list (G1 * G2)) :=
    match l with
    | [] => Ok []
    | (u, v) :: r =>
        let* q := g2_to v in
        let* p := g1_to u in
        let* rest := decode_pairs r in
        Ok ((p, q) :: rest)
    end.

  Definition pairing_product (pts : list (G1 * G2)) : GT :=
    fold_left (fun acc pq => gt_mul acc (pairing (snd pq) (fst pq))) pts gt_one.

  Lemma pairing_fold_spec l : forall acc pts, decode_pairs l = Ok pts ->
    pairing_fold G1 G2 GT zero1 zero2 point1 point2 pairing gt_mul acc l =
    Ok (fold_left (fun acc pq => gt_mul acc (pairing (snd pq) (fst pq))) pts acc).
  Proof.
    induction l as [|[u v] r IH]; intros acc pts H.
    - simpl in H. injection H as <-. reflexivity.
    - cbn [decode_pairs] in H. cbn [pairing_fold]. fold g2_to g1_to.
      destruct (g2_to v) as [q|]; [|discriminate]. destruct (g1_to u) as [p|]; [|discriminate]. cbn [bind] in *.
      destruct (decode_pairs r) as [rest|] eqn:E; [|discriminate]. cbn [bind] in H. injection H as <-.
      rewrite (IH _ rest eq_refl). reflexivity.
  Qed.

  Lemma pairing_fold_reject l : forall acc, decode_pairs l = Reject ->
    pairing_fold G1 G2 GT zero1 zero2 point1 point2 pairing gt_mul acc l = Reject.
  Proof.
    induction l as [|[u v] r IH]; intros acc H.
    - discriminate.
    - cbn [decode_pairs] in H. cbn [pairing_fold]. fold g2_to g1_to.
      destruct (g2_to v) as [q|]; [|reflexivity]. destruct (g1_to u) as [p|]; [|reflexivity]. cbn [bind] in *.
      destruct (decode_pairs r) as [rest|] eqn:E; [discriminate|]. apply IH. reflexivity.
  Qed.

  Hypothesis gt_eqb_spec : forall a b, gt_eqb a b = true <-> a = b.

  (* PAIRING_CHECK pushes True exactly when the product of the pairings of the decoded points is one *)
  Theorem pairing_check_is_product l pts : decode_pairs l = Ok pts ->
    exists b, ex BPAIRING_CHECK [BPairs l] = Ok (BBool b) /\ (b = true <-> pairing_product pts = gt_one).
  Proof.
    intros H. exists (gt_eqb gt_one (pairing_product pts)). split.
    - unfold ex. cbn [bexec exec_pairing_check]. rewrite (pairing_fold_spec l gt_one pts H). reflexivity.
    - rewrite gt_eqb_spec. split; intros E; symmetry; exact E.
  Qed.

  (* bilinearity of py_ecc's pairing (hypotheses) gives e(P,Q) * e(-P,Q) = 1 through the instruction *)
  Section Bilinear.
    Hypothesis gt_mul_one_l : forall a, gt_mul gt_one a = a.
    Hypothesis pairing_add : forall q a b, pairing q (add1 a b) = gt_mul (pairing q a) (pairing q b).
    Hypothesis pairing_zero : forall q, pairing q zero1 = gt_one.
    Hypothesis add1_neg : forall a, add1 a (neg1 a) = zero1.

    Theorem pairing_check_inverse_pair p q vp vn vq : enc1 p vp -> enc1 (neg1 p) vn -> enc2 q vq ->
      ex BPAIRING_CHECK [BPairs [(vp, vq); (vn, vq)]] = Ok (BBool true).
    Proof.
      intros Hp Hn Hq.
      assert (Hd : decode_pairs [(vp, vq); (vn, vq)] = Ok [(p, q); (neg1 p, q)]).
      { cbn [decode_pairs]. rewrite (enc2_decodes q vq Hq), (enc1_decodes p vp Hp), (enc1_decodes _ vn Hn). reflexivity. }
      destruct (pairing_check_is_product _ _ Hd) as (b & Hb & Hiff). rewrite Hb. do 2 f_equal.
      apply Hiff. unfold pairing_product. cbn [fold_left fst snd].
      rewrite gt_mul_one_l, <- pairing_add, add1_neg, pairing_zero. reflexivity.
    Qed.
  End Bilinear.
End CurveLaws.
