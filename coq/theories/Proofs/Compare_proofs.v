(* Proofs/Compare_proofs.v — [cmp] is a total order on the well-typed values of every
   comparable type, and pytezos' compare() (model [py_compare]) computes it. *)
From Coq Require Import List ZArith NArith Bool Lia.
From Coq.Strings Require Import Byte.
From PV Require Import Base.Bytes Michelson.Compare.
Import ListNotations.
Local Open Scope list_scope.

(* ------------------------------------------------------------------ comparison algebra *)

Lemma then_cmp_eq c d : then_cmp c d = Eq -> c = Eq /\ d = Eq.
Proof. destruct c; simpl; intro H; try discriminate. split; [reflexivity | exact H]. Qed.

Lemma then_cmp_Eq_r c : then_cmp c Eq = c.
Proof. destruct c; reflexivity. Qed.

Lemma then_cmp_opp c d : CompOpp (then_cmp c d) = then_cmp (CompOpp c) (CompOpp d).
Proof. destruct c; reflexivity. Qed.

(* transitivity of a lexicographic combination: c1 = f a b, c2 = f b c, c3 = f a c *)
Lemma then_cmp_trans c1 c2 c3 d1 d2 d3 :
  (c1 = Lt -> c2 = Lt -> c3 = Lt) -> (c1 = Eq -> c3 = c2) -> (c2 = Eq -> c3 = c1) ->
  (d1 = Lt -> d2 = Lt -> d3 = Lt) ->
  then_cmp c1 d1 = Lt -> then_cmp c2 d2 = Lt -> then_cmp c3 d3 = Lt.
Proof.
  intros HT HE1 HE2 HD.
  destruct c1, c2; simpl; intros A B; try discriminate.
  - rewrite (HE1 eq_refl). simpl. auto.
  - rewrite (HE1 eq_refl). reflexivity.
  - rewrite (HE2 eq_refl). reflexivity.
  - rewrite (HT eq_refl eq_refl). reflexivity.
Qed.

Lemma Zcmp_trans x y z : (x ?= y)%Z = Lt -> (y ?= z)%Z = Lt -> (x ?= z)%Z = Lt.
Proof. rewrite !Z.compare_lt_iff. lia. Qed.

Lemma Ncmp_trans x y z : (x ?= y)%N = Lt -> (y ?= z)%N = Lt -> (x ?= z)%N = Lt.
Proof. rewrite !N.compare_lt_iff. lia. Qed.

Lemma Ncmp_eq_l x y z : (x ?= y)%N = Eq -> (x ?= z)%N = (y ?= z)%N.
Proof. intro H. apply N.compare_eq in H. subst. reflexivity. Qed.

Lemma Ncmp_eq_r x y z : (y ?= z)%N = Eq -> (x ?= z)%N = (x ?= y)%N.
Proof. intro H. apply N.compare_eq in H. subst. reflexivity. Qed.

(* ------------------------------------------------------------------ lexicographic byte order *)

Lemma lex_cmp_refl a : lex_cmp a a = Eq.
Proof. induction a as [|x a IH]; simpl; [reflexivity|]. rewrite N.compare_refl. exact IH. Qed.

Lemma lex_cmp_eq a : forall b, lex_cmp a b = Eq -> a = b.
Proof.
  induction a as [|x a IH]; intros [|y b]; simpl; intro H; try discriminate; [reflexivity|].
  destruct (Byte.to_N x ?= Byte.to_N y)%N eqn:E; try discriminate.
  apply N.compare_eq in E. apply to_N_inj in E. subst. f_equal. apply IH, H.
Qed.

Lemma lex_cmp_antisym a : forall b, lex_cmp b a = CompOpp (lex_cmp a b).
Proof.
  induction a as [|x a IH]; intros [|y b]; simpl; try reflexivity.
  rewrite (N.compare_antisym (Byte.to_N x) (Byte.to_N y)).
  destruct (Byte.to_N x ?= Byte.to_N y)%N; simpl; try reflexivity. apply IH.
Qed.

Lemma lex_cmp_trans a : forall b c, lex_cmp a b = Lt -> lex_cmp b c = Lt -> lex_cmp a c = Lt.
Proof.
  induction a as [|x a IH]; intros [|y b] [|z c]; simpl; intros A B; try discriminate; try reflexivity.
  destruct (Byte.to_N x ?= Byte.to_N y)%N eqn:E1; try discriminate;
    destruct (Byte.to_N y ?= Byte.to_N z)%N eqn:E2; try discriminate.
  - apply N.compare_eq in E1, E2. rewrite E1, E2, N.compare_refl. eapply IH; eauto.
  - apply N.compare_eq in E1. rewrite E1, E2. reflexivity.
  - apply N.compare_eq in E2. rewrite <- E2, E1. reflexivity.
  - rewrite (Ncmp_trans _ _ _ E1 E2). reflexivity.
Qed.

Lemma lex_cmp_eq_l a b c : lex_cmp a b = Eq -> lex_cmp a c = lex_cmp b c.
Proof. intro H. apply lex_cmp_eq in H. subst. reflexivity. Qed.

Lemma lex_cmp_eq_r a b c : lex_cmp b c = Eq -> lex_cmp a c = lex_cmp a b.
Proof. intro H. apply lex_cmp_eq in H. subst. reflexivity. Qed.

Lemma bytes_eqb_lex a b : bytes_eqb a b = is_eq (lex_cmp a b).
Proof.
  destruct (bytes_eqb a b) eqn:E.
  - apply bytes_eqb_spec in E. subst. rewrite lex_cmp_refl. reflexivity.
  - destruct (lex_cmp a b) eqn:C; try reflexivity.
    apply lex_cmp_eq in C. subst.
    assert (bytes_eqb b b = true) by (apply bytes_eqb_spec; reflexivity). congruence.
Qed.

Lemma lex_cmp_app_tail s a : forall b, length a = length b -> lex_cmp (a ++ s) (b ++ s) = lex_cmp a b.
Proof.
  induction a as [|x a IH]; intros [|y b] L; simpl in *; try discriminate.
  - apply lex_cmp_refl.
  - injection L as L. rewrite (IH _ L). reflexivity.
Qed.

Lemma firstn1_tl (p : bytes) : p = firstn 1 p ++ tl p.
Proof. destruct p; reflexivity. Qed.

(* ------------------------------------------------------------------ small enumerations *)

Lemma curve_idx_inj c c' : curve_idx c = curve_idx c' -> c = c'.
Proof. destruct c, c'; simpl; intro H; try reflexivity; discriminate. Qed.

Lemma akind_idx_inj k k' : akind_idx k = akind_idx k' -> k = k'.
Proof.
  destruct k as [c| | |], k' as [c'| | |]; simpl; intro H; try reflexivity; try discriminate;
    try (destruct c; discriminate); try (destruct c'; discriminate).
  f_equal. apply curve_idx_inj, H.
Qed.

Lemma bool_cmp_trans x y z : bool_cmp x y = Lt -> bool_cmp y z = Lt -> bool_cmp x z = Lt.
Proof. destruct x, y, z; simpl; congruence. Qed.

(* ------------------------------------------------------------------ per-scheme key order *)

Lemma key_cmp_refl c p : key_cmp c p p = Eq.
Proof. destruct c; unfold key_cmp; rewrite ?lex_cmp_refl; reflexivity. Qed.

Lemma key_cmp_eq c p q : key_cmp c p q = Eq -> p = q.
Proof.
  destruct c; unfold key_cmp; try apply lex_cmp_eq.
  intro H. apply then_cmp_eq in H. destruct H as [H1 H2].
  apply lex_cmp_eq in H1, H2. rewrite (firstn1_tl p), (firstn1_tl q), H1, H2. reflexivity.
Qed.

Lemma key_cmp_antisym c p q : key_cmp c q p = CompOpp (key_cmp c p q).
Proof.
  destruct c; unfold key_cmp; try apply lex_cmp_antisym.
  rewrite then_cmp_opp, <- !lex_cmp_antisym. reflexivity.
Qed.

Lemma key_cmp_trans c p q r : key_cmp c p q = Lt -> key_cmp c q r = Lt -> key_cmp c p r = Lt.
Proof.
  destruct c; unfold key_cmp; try apply lex_cmp_trans.
  apply then_cmp_trans.
  - apply lex_cmp_trans.
  - apply lex_cmp_eq_l.
  - apply lex_cmp_eq_r.
  - apply lex_cmp_trans.
Qed.

(* ------------------------------------------------------------------ entrypoint names *)

Lemma ep_name_inj e e' : ep_ok e = true -> ep_ok e' = true -> ep_name e = ep_name e' -> e = e'.
Proof.
  destruct e as [e|], e' as [e'|]; simpl; intros A B H.
  - subst. reflexivity.
  - subst. apply andb_true_iff in A. destruct A as [A _].
    assert (X : bytes_eqb default_ep default_ep = true) by (apply bytes_eqb_spec; reflexivity).
    rewrite X in A. discriminate.
  - subst. apply andb_true_iff in B. destruct B as [B _].
    assert (X : bytes_eqb default_ep default_ep = true) by (apply bytes_eqb_spec; reflexivity).
    rewrite X in B. discriminate.
  - reflexivity.
Qed.

Lemma sort_ep_name e : ep_ok e = true -> sort_ep e = ep_name e.
Proof.
  destruct e as [[|x e]|]; intro H; try reflexivity.
  vm_compute in H. discriminate.
Qed.

(* ------------------------------------------------------------------ typing inversion *)

Ltac and_true :=
  repeat match goal with
         | H : (_ && _) = true |- _ => apply andb_true_iff in H; destruct H
         end.

(* destruct a value whose type is known, discarding the ill-typed shapes *)
Ltac inv_val v H := destruct v; simpl in H; try discriminate H; and_true.

(* ------------------------------------------------------------------ cmp is a total order *)

Lemma cmp_refl t : forall a, has_type t a = true -> cmp t a a = Eq.
Proof.
  induction t; intros v H; inv_val v H; simpl;
    rewrite ?Z.compare_refl, ?lex_cmp_refl, ?N.compare_refl, ?key_cmp_refl; simpl; try reflexivity.
  - destruct b; reflexivity.
  - rewrite IHt1, IHt2 by assumption. reflexivity.
  - auto.
  - auto.
  - auto.
Qed.

Lemma cmp_eq t : forall a b, has_type t a = true -> has_type t b = true -> cmp t a b = Eq -> a = b.
Proof.
  induction t; intros v w Hv Hw; inv_val v Hv; inv_val w Hw; simpl; intro E;
    try discriminate E;
    try (apply Z.compare_eq in E; subst; reflexivity);
    try (apply lex_cmp_eq in E; subst; reflexivity);
    try reflexivity.
  - destruct b, b0; simpl in E; try discriminate; reflexivity.
  - apply then_cmp_eq in E. destruct E as [E1 E2]. apply N.compare_eq, curve_idx_inj in E1.
    apply lex_cmp_eq in E2. subst. reflexivity.
  - apply then_cmp_eq in E. destruct E as [E1 E2]. apply N.compare_eq, curve_idx_inj in E1.
    subst. apply key_cmp_eq in E2. subst. reflexivity.
  - apply then_cmp_eq in E. destruct E as [E1 E2]. apply then_cmp_eq in E2. destruct E2 as [E2 E3].
    apply N.compare_eq, akind_idx_inj in E1. apply lex_cmp_eq in E2, E3.
    apply ep_name_inj in E3; try assumption. subst. reflexivity.
  - apply then_cmp_eq in E. destruct E as [E1 E2].
    f_equal; [eapply IHt1 | eapply IHt2]; eauto.
  - f_equal. eapply IHt; eauto.
  - f_equal. eapply IHt1; eauto.
  - f_equal. eapply IHt2; eauto.
Qed.

Lemma cmp_antisym t : forall a b, has_type t a = true -> has_type t b = true ->
  cmp t b a = CompOpp (cmp t a b).
Proof.
  induction t; intros v w Hv Hw; inv_val v Hv; inv_val w Hw; simpl;
    try apply Z.compare_antisym; try apply lex_cmp_antisym; try reflexivity.
  - destruct b, b0; reflexivity.
  - rewrite then_cmp_opp, <- N.compare_antisym, <- lex_cmp_antisym. reflexivity.
  - rewrite then_cmp_opp, <- N.compare_antisym.
    destruct (curve_idx c ?= curve_idx c0)%N eqn:E.
    + apply N.compare_eq, curve_idx_inj in E. subst. rewrite N.compare_refl. simpl. apply key_cmp_antisym.
    + rewrite (N.compare_antisym (curve_idx c) (curve_idx c0)), E. reflexivity.
    + rewrite (N.compare_antisym (curve_idx c) (curve_idx c0)), E. reflexivity.
  - rewrite !then_cmp_opp, <- N.compare_antisym, <- !lex_cmp_antisym. reflexivity.
  - rewrite then_cmp_opp, <- IHt1, <- IHt2 by assumption. reflexivity.
  - auto.
  - auto.
  - auto.
Qed.

Lemma cmp_eq_l t a b c : has_type t a = true -> has_type t b = true ->
  cmp t a b = Eq -> cmp t a c = cmp t b c.
Proof. intros Ha Hb E. apply cmp_eq in E; try assumption. subst. reflexivity. Qed.

Lemma cmp_eq_r t a b c : has_type t b = true -> has_type t c = true ->
  cmp t b c = Eq -> cmp t a c = cmp t a b.
Proof. intros Hb Hc E. apply cmp_eq in E; try assumption. subst. reflexivity. Qed.

Lemma cmp_trans t : forall a b c, has_type t a = true -> has_type t b = true -> has_type t c = true ->
  cmp t a b = Lt -> cmp t b c = Lt -> cmp t a c = Lt.
Proof.
  induction t; intros u v w Hu Hv Hw; inv_val u Hu; inv_val v Hv; inv_val w Hw; simpl;
    try apply Zcmp_trans; try apply lex_cmp_trans; try discriminate; try (intros; reflexivity).
  - apply bool_cmp_trans.
  - apply then_cmp_trans;
      [apply Ncmp_trans | apply Ncmp_eq_l | apply Ncmp_eq_r | apply lex_cmp_trans].
  - intros A B.
    destruct (curve_idx c ?= curve_idx c0)%N eqn:E1; simpl in A; try discriminate;
      destruct (curve_idx c0 ?= curve_idx c1)%N eqn:E2; simpl in B; try discriminate.
    + apply N.compare_eq, curve_idx_inj in E1. apply N.compare_eq, curve_idx_inj in E2. subst.
      rewrite N.compare_refl. simpl. eapply key_cmp_trans; eauto.
    + apply N.compare_eq, curve_idx_inj in E1. subst. rewrite E2. reflexivity.
    + apply N.compare_eq, curve_idx_inj in E2. subst. rewrite E1. reflexivity.
    + rewrite (Ncmp_trans _ _ _ E1 E2). reflexivity.
  - apply then_cmp_trans; [apply Ncmp_trans | apply Ncmp_eq_l | apply Ncmp_eq_r |].
    apply then_cmp_trans; [apply lex_cmp_trans | apply lex_cmp_eq_l | apply lex_cmp_eq_r | apply lex_cmp_trans].
  - apply then_cmp_trans.
    + apply IHt1; assumption.
    + apply cmp_eq_l; assumption.
    + apply cmp_eq_r; assumption.
    + apply IHt2; assumption.
  - apply IHt; assumption.
  - apply IHt1; assumption.
  - apply IHt2; assumption.
Qed.

Lemma cmp_total t a b : has_type t a = true -> has_type t b = true ->
  cmp t a b = Lt \/ a = b \/ cmp t b a = Lt.
Proof.
  intros Ha Hb. destruct (cmp t a b) eqn:E.
  - right. left. eapply cmp_eq; eauto.
  - left. reflexivity.
  - right. right. rewrite (cmp_antisym t a b Ha Hb), E. reflexivity.
Qed.

Lemma cmp_eq_iff t a b : has_type t a = true -> has_type t b = true -> (cmp t a b = Eq <-> a = b).
Proof.
  intros Ha Hb. split.
  - apply cmp_eq; assumption.
  - intros <-. apply cmp_refl, Ha.
Qed.

(* ------------------------------------------------------------------ the oracle laws *)

(* What the theorems assume of the base58check texts: on key hashes and chain ids the
   text order *is* the (scheme, payload) order (equal-length base58 strings under prefixes
   tz1 < tz2 < tz3 < tz4 / Net compare like the numbers they denote, C09); on keys and
   addresses the text determines (kind, payload), and an address text contains no '%'. *)
Record texts_ok (T : texts) : Prop := {
  kh_order : forall c h c' h', length h = 20 -> length h' = 20 ->
     lex_cmp (kh_txt T c h) (kh_txt T c' h') = then_cmp (N.compare (curve_idx c) (curve_idx c')) (lex_cmp h h');
  cid_order : forall x y, length x = 4 -> length y = 4 ->
     lex_cmp (cid_txt T x) (cid_txt T y) = lex_cmp x y;
  key_inj : forall c p c' p', length p = key_len c -> length p' = key_len c' ->
     key_txt T c p = key_txt T c' p' -> c = c' /\ p = p';
  addr_inj : forall k h k' h', length h = 20 -> length h' = 20 ->
     addr_txt T k h = addr_txt T k' h' -> k = k' /\ h = h';
  addr_no_pct : forall k h, ~ In pct (addr_txt T k h)
}.

Lemma len_is_true n b : len_is n b = true -> length b = n.
Proof. unfold len_is. apply Nat.eqb_eq. Qed.

(* splitting "text%entrypoint" at the first '%' is unambiguous *)
Lemma addr_split a : forall b (e e' : option bytes),
  ~ In pct a -> ~ In pct b ->
  a ++ match e with None => [] | Some x => pct :: x end =
  b ++ match e' with None => [] | Some x => pct :: x end ->
  a = b /\ e = e'.
Proof.
  induction a as [|x a IH]; intros [|y b] e e' Ha Hb H; simpl in *.
  - destruct e, e'; try discriminate; split; try reflexivity. injection H as ->. reflexivity.
  - destruct e; try discriminate. injection H as <- _. exfalso. apply Hb. left. reflexivity.
  - destruct e'; try discriminate. injection H as -> _. exfalso. apply Ha. left. reflexivity.
  - injection H as -> H. apply IH in H.
    + destruct H as [-> ->]. split; reflexivity.
    + intro X. apply Ha. right. exact X.
    + intro X. apply Hb. right. exact X.
Qed.

Lemma bool_eq_by_iff (x y : bool) (P : Prop) : (x = true <-> P) -> (y = true <-> P) -> x = y.
Proof. intros [A B] [C D]. destruct x, y; try reflexivity.
  - assert (false = true) by (apply D, A; reflexivity). discriminate.
  - assert (false = true) by (apply B, C; reflexivity). discriminate.
Qed.

Lemma is_eq_iff c : is_eq c = true <-> c = Eq.
Proof. destruct c; simpl; split; congruence. Qed.

(* ------------------------------------------------------------------ forged addresses order like (kind, hash) *)

Lemma forge_addr_order k h k' h' : length h = length h' ->
  lex_cmp (forge_addr k h) (forge_addr k' h') = then_cmp (N.compare (akind_idx k) (akind_idx k')) (lex_cmp h h').
Proof.
  intro L.
  destruct k as [[]| | |], k' as [[]| | |]; simpl; try reflexivity; apply lex_cmp_app_tail, L.
Qed.

Lemma tuple2_ltb_spec a1 a2 b1 b2 :
  tuple2_ltb a1 a2 b1 b2 = is_lt (then_cmp (lex_cmp a1 b1) (lex_cmp a2 b2)).
Proof.
  unfold tuple2_ltb, lex_ltb. rewrite bytes_eqb_lex. destruct (lex_cmp a1 b1); reflexivity.
Qed.

Lemma then_cmp_assoc a b c : then_cmp (then_cmp a b) c = then_cmp a (then_cmp b c).
Proof. destruct a; reflexivity. Qed.

(* ------------------------------------------------------------------ pytezos' __eq__ / __lt__ compute cmp *)

Section PyOk.
  Variable T : texts.
  Hypothesis TOK : texts_ok T.

  Lemma py_eq_lt_spec t : forall a b, has_type t a = true -> has_type t b = true ->
    py_eq T a b = is_eq (cmp t a b) /\ py_lt T a b = is_lt (cmp t a b).
  Proof.
    induction t; intros v w Hv Hw; inv_val v Hv; inv_val w Hw;
      repeat match goal with H : len_is _ _ = true |- _ => apply len_is_true in H end;
      simpl.
    - (* int *) split; [apply Z.eqb_compare | unfold Z.ltb; destruct (z ?= z0)%Z; reflexivity].
    - (* nat *) split; [apply Z.eqb_compare | unfold Z.ltb; destruct (z ?= z0)%Z; reflexivity].
    - (* string *) split; [apply bytes_eqb_lex | reflexivity].
    - (* bytes *) split; [apply bytes_eqb_lex | reflexivity].
    - (* mutez *) split; [apply Z.eqb_compare | unfold Z.ltb; destruct (z ?= z0)%Z; reflexivity].
    - (* bool *) destruct b, b0; split; reflexivity.
    - (* timestamp *) split; [apply Z.eqb_compare | unfold Z.ltb; destruct (z ?= z0)%Z; reflexivity].
    - (* unit *) split; reflexivity.
    - (* key_hash: string comparison of the texts *)
      unfold lex_ltb. rewrite bytes_eqb_lex, (kh_order T TOK) by assumption. split; reflexivity.
    - (* key *)
      split.
      + apply bool_eq_by_iff with (P := VKey c p = VKey c0 p0).
        * rewrite bytes_eqb_spec. split.
          -- intro E. apply (key_inj T TOK) in E; try assumption. destruct E as [-> ->]. reflexivity.
          -- intro E. injection E as -> ->. reflexivity.
        * rewrite is_eq_iff. split.
          -- intro E. apply then_cmp_eq in E. destruct E as [E1 E2].
             apply N.compare_eq, curve_idx_inj in E1. subst. apply key_cmp_eq in E2. subst. reflexivity.
          -- intro E. injection E as -> ->. rewrite N.compare_refl. simpl. apply key_cmp_refl.
      + unfold N.ltb. rewrite (N.compare_antisym (curve_idx c) (curve_idx c0)).
        destruct (curve_idx c ?= curve_idx c0)%N eqn:E; simpl; try reflexivity.
        unfold py_key_lt. rewrite tuple2_ltb_spec. unfold key_cmp.
        destruct c; simpl; rewrite ?then_cmp_Eq_r; reflexivity.
    - (* signature *) split; [apply bytes_eqb_lex | reflexivity].
    - (* chain_id *)
      unfold lex_ltb. rewrite bytes_eqb_lex, (cid_order T TOK) by assumption. split; reflexivity.
    - (* address *)
      split.
      + apply bool_eq_by_iff with (P := VAddr k h ep = VAddr k0 h0 ep0).
        * rewrite bytes_eqb_spec. unfold addr_str. split.
          -- intro E. apply addr_split in E; try apply (addr_no_pct T TOK).
             destruct E as [E ->]. apply (addr_inj T TOK) in E; try assumption.
             destruct E as [-> ->]. reflexivity.
          -- intro E. injection E as -> -> ->. reflexivity.
        * rewrite is_eq_iff. split.
          -- intro E. apply then_cmp_eq in E. destruct E as [E1 E2]. apply then_cmp_eq in E2.
             destruct E2 as [E2 E3]. apply N.compare_eq, akind_idx_inj in E1.
             apply lex_cmp_eq in E2, E3. apply ep_name_inj in E3; try assumption. subst. reflexivity.
          -- intro E. injection E as -> -> ->. rewrite N.compare_refl, !lex_cmp_refl. reflexivity.
      + rewrite tuple2_ltb_spec, forge_addr_order by congruence.
        rewrite !sort_ep_name by assumption. rewrite then_cmp_assoc. reflexivity.
    - (* pair *)
      destruct (IHt1 v1 w1) as [E1 L1]; try assumption.
      destruct (IHt2 v2 w2) as [E2 L2]; try assumption.
      rewrite E1, E2, L1, L2.
      destruct (cmp t1 v1 w1), (cmp t2 v2 w2); split; reflexivity.
    - (* option *) split; reflexivity.
    - split; reflexivity.
    - split; reflexivity.
    - apply IHt; assumption.
    - (* or *) apply IHt1; assumption.
    - split; reflexivity.
    - split; reflexivity.
    - apply IHt2; assumption.
  Qed.

  Lemma py_compare_is_cmp t a b : has_type t a = true -> has_type t b = true ->
    py_compare T a b = cmp t a b.
  Proof.
    intros Ha Hb. unfold py_compare.
    destruct (py_eq_lt_spec t a b Ha Hb) as [-> ->].
    destruct (cmp t a b); reflexivity.
  Qed.

  Lemma py_eq_iff t a b : has_type t a = true -> has_type t b = true ->
    (py_eq T a b = true <-> a = b).
  Proof.
    intros Ha Hb. destruct (py_eq_lt_spec t a b Ha Hb) as [-> _].
    rewrite is_eq_iff. apply cmp_eq_iff; assumption.
  Qed.

  Lemma py_lt_iff t a b : has_type t a = true -> has_type t b = true ->
    (py_lt T a b = true <-> cmp t a b = Lt).
  Proof.
    intros Ha Hb. destruct (py_eq_lt_spec t a b Ha Hb) as [_ ->].
    destruct (cmp t a b); simpl; split; congruence.
  Qed.
End PyOk.

(* the order is not vacuous on any comparable type except never: every other type has a value *)
Fixpoint witness (t : cty) : option val :=
  match t with
  | TInt | TNat | TMutez | TTimestamp => Some (VInt 0)
  | TString => Some (VStr [])
  | TBytes => Some (VByt [])
  | TBool => Some (VBool false)
  | TUnit => Some VUnit
  | TNever => None
  | TKeyHash => Some (VKeyHash Ed (repeat x00 20))
  | TKey => Some (VKey Ed (repeat x00 32))
  | TSignature => Some (VSig (repeat x00 64))
  | TChainId => Some (VChainId (repeat x00 4))
  | TAddress => Some (VAddr AKT (repeat x00 20) None)
  | TPair a b => match witness a, witness b with Some x, Some y => Some (VPair x y) | _, _ => None end
  | TOption _ => Some VNone
  | TOr a b => match witness a, witness b with
               | Some x, _ => Some (VLeft x) | None, Some y => Some (VRight y) | None, None => None end
  end.

Lemma witness_typed t : forall v, witness t = Some v -> has_type t v = true.
Proof.
  induction t; simpl; intros v H; try (injection H as <-; reflexivity); try discriminate.
  - destruct (witness t1) as [x|]; try discriminate. destruct (witness t2) as [y|]; try discriminate.
    injection H as <-. simpl. rewrite IHt1, IHt2; reflexivity.
  - destruct (witness t1) as [x|].
    + injection H as <-. simpl. apply IHt1. reflexivity.
    + destruct (witness t2) as [y|]; try discriminate. injection H as <-. simpl. apply IHt2. reflexivity.
Qed.

Lemma never_empty v : has_type TNever v = false.
Proof. destruct v; reflexivity. Qed.

(* ------------------------------------------------------------------ ordered collections of comparable values *)

(* The keys of a set / map / big_map of key type [t] are the well-typed values of [t];
   on them pytezos' [==] and [<] satisfy the hypotheses of Proofs/Collections_proofs.v. *)
From Coq Require Import Sorted Eqdep_dec.
From PV Require Import Base.Result Michelson.Collections Proofs.Collections_proofs.

Section Typed.
  Variable T : texts.
  Hypothesis TOK : texts_ok T.
  Variable t : cty.

  Definition typed : Type := { v : val | has_type t v = true }.
  Definition tv (x : typed) : val := proj1_sig x.
  Definition t_eqb (a b : typed) : bool := py_eq T (tv a) (tv b).
  Definition t_ltb (a b : typed) : bool := py_lt T (tv a) (tv b).
  Definition cmp_lt (a b : typed) : Prop := cmp t (tv a) (tv b) = Lt.

  Lemma tv_typed (a : typed) : has_type t (tv a) = true.
  Proof. destruct a as [v p]. exact p. Qed.

  Lemma typed_ext (a b : typed) : tv a = tv b -> a = b.
  Proof.
    destruct a as [va pa], b as [vb pb]. simpl. intros ->. f_equal.
    apply UIP_dec, Bool.bool_dec.
  Qed.

  Lemma t_eqb_spec a b : t_eqb a b = true <-> a = b.
  Proof.
    unfold t_eqb. rewrite (py_eq_iff T TOK t) by apply tv_typed. split.
    - apply typed_ext.
    - intros ->. reflexivity.
  Qed.

  Lemma t_ltb_lt a b : t_ltb a b = true <-> cmp_lt a b.
  Proof. unfold t_ltb, cmp_lt. apply (py_lt_iff T TOK t); apply tv_typed. Qed.

  Lemma t_ltb_irrefl a : t_ltb a a = false.
  Proof.
    destruct (t_ltb a a) eqn:E; [|reflexivity]. apply t_ltb_lt in E. unfold cmp_lt in E.
    rewrite cmp_refl in E by apply tv_typed. discriminate.
  Qed.

  Lemma t_ltb_trans a b c : t_ltb a b = true -> t_ltb b c = true -> t_ltb a c = true.
  Proof. rewrite !t_ltb_lt. unfold cmp_lt. apply cmp_trans; apply tv_typed. Qed.

  Lemma t_ltb_total a b : a = b \/ t_ltb a b = true \/ t_ltb b a = true.
  Proof.
    rewrite !t_ltb_lt. unfold cmp_lt.
    destruct (cmp_total t (tv a) (tv b) (tv_typed a) (tv_typed b)) as [H|[H|H]]; [tauto | | tauto].
    left. apply typed_ext, H.
  Qed.

  Lemma SS_cmp l : SS typed t_ltb l <-> StronglySorted cmp_lt l.
  Proof.
    unfold SS. split; intro H; induction H; constructor; try assumption;
      (eapply Forall_impl; [|eassumption]); intros x Hx; apply t_ltb_lt, Hx.
  Qed.

  (* literals (check_constraints) are accepted exactly when strictly cmp-increasing *)
  Lemma literal_is_cmp l : check_constraints t_eqb t_ltb l = true <-> StronglySorted cmp_lt l.
  Proof.
    rewrite <- SS_cmp.
    apply (check_constraints_SS typed t_eqb t_ltb t_eqb_spec t_ltb_irrefl t_ltb_trans t_ltb_total).
  Qed.

  (* sets built by any history of UPDATEs and literals iterate in strictly increasing cmp order *)
  Lemma set_is_cmp_sorted ops : StronglySorted cmp_lt (set_run t_eqb t_ltb ops).
  Proof.
    apply SS_cmp.
    apply (set_history_sorted typed t_eqb t_ltb t_eqb_spec t_ltb_irrefl t_ltb_trans t_ltb_total).
  Qed.

  (* ... and so do the keys of maps *)
  Lemma map_is_cmp_sorted (V : Type) (ops : list (map_op typed V)) :
    StronglySorted cmp_lt (keys (map_run t_eqb t_ltb ops)).
  Proof.
    apply SS_cmp.
    apply (map_history_sorted typed V t_eqb t_ltb t_eqb_spec t_ltb_irrefl t_ltb_trans t_ltb_total).
  Qed.

  (* deduplication: an element is present after an UPDATE true exactly once, at its cmp position *)
  Lemma set_add_is_cmp x s : StronglySorted cmp_lt s ->
    StronglySorted cmp_lt (set_add t_eqb t_ltb x s) /\
    (forall y, In y (set_add t_eqb t_ltb x s) <-> y = x \/ In y s) /\ NoDup (set_add t_eqb t_ltb x s).
  Proof.
    intro S. apply SS_cmp in S.
    pose proof (set_add_SS typed t_eqb t_ltb t_eqb_spec t_ltb_irrefl t_ltb_trans t_ltb_total x s S) as S'.
    split; [apply SS_cmp, S'|]. split.
    - apply (set_add_In typed t_eqb t_ltb t_eqb_spec).
    - apply (SS_NoDup typed t_ltb t_ltb_irrefl), S'.
  Qed.
End Typed.

(* ------------------------------------------------------------------ [texts_ok] is satisfiable *)

(* A toy text encoding with the required laws (fixed-width, scheme byte first; address hashes are
   escaped so that no '%' occurs).  It shows the hypotheses of the theorems are consistent and
   serves the refutation example below; the real base58check texts are supplied by the harness. *)
Definition akind_byte (k : akind) : byte :=
  match k with AImpl c => curve_byte c | AKT => x04 | ATxr => x05 | ASr => x06 end.

Definition esc (b : byte) : bytes :=
  if byte_eqb b x25 then [x24; x01] else if byte_eqb b x24 then [x24; x00] else [b].

Definition demo_texts : texts :=
  {| kh_txt := fun c h => curve_byte c :: h;
     key_txt := fun c p => curve_byte c :: p;
     cid_txt := fun x => x;
     addr_txt := fun k h => akind_byte k :: flat_map esc h |}.

Lemma curve_byte_inj c c' : curve_byte c = curve_byte c' -> c = c'.
Proof. destruct c, c'; simpl; intro H; try reflexivity; discriminate. Qed.

Lemma akind_byte_inj k k' : akind_byte k = akind_byte k' -> k = k'.
Proof.
  destruct k as [[]| | |], k' as [[]| | |]; simpl; intro H; try reflexivity; discriminate.
Qed.

Lemma byte_eqb_false a b : byte_eqb a b = false -> a <> b.
Proof. intros H E. apply byte_eqb_spec in E. congruence. Qed.

Lemma esc_prefix b b' R R' : esc b ++ R = esc b' ++ R' -> b = b' /\ R = R'.
Proof.
  unfold esc.
  destruct (byte_eqb b x25) eqn:A; destruct (byte_eqb b' x25) eqn:A';
    try (apply byte_eqb_spec in A); try (apply byte_eqb_spec in A');
    try destruct (byte_eqb b x24) eqn:B; try destruct (byte_eqb b' x24) eqn:B';
    try (apply byte_eqb_spec in B); try (apply byte_eqb_spec in B');
    simpl; intro H; injection H; intros; subst; try discriminate;
    try (split; reflexivity);
    try (apply byte_eqb_false in B; congruence); try (apply byte_eqb_false in B'; congruence).
Qed.

Lemma flat_esc_inj h : forall h', flat_map esc h = flat_map esc h' -> h = h'.
Proof.
  induction h as [|b h IH]; intros [|b' h']; simpl; intro H.
  - reflexivity.
  - exfalso. unfold esc in H. destruct (byte_eqb b' x25); [discriminate|]. destruct (byte_eqb b' x24); discriminate.
  - exfalso. unfold esc in H. destruct (byte_eqb b x25); [discriminate|]. destruct (byte_eqb b x24); discriminate.
  - apply esc_prefix in H. destruct H as [-> H]. f_equal. apply IH, H.
Qed.

Lemma esc_no_pct b : ~ In pct (esc b).
Proof.
  unfold esc, pct. destruct (byte_eqb b x25) eqn:A.
  - simpl. intros [X|[X|[]]]; discriminate.
  - destruct (byte_eqb b x24) eqn:B; simpl.
    + intros [X|[X|[]]]; discriminate.
    + intros [X|[]]. apply byte_eqb_false in A. congruence.
Qed.

Lemma demo_texts_ok : texts_ok demo_texts.
Proof.
  constructor; simpl.
  - intros c h c' h' _ _. destruct c, c'; reflexivity.
  - reflexivity.
  - intros c p c' p' _ _ H. injection H as H1 H2. apply curve_byte_inj in H1. tauto.
  - intros k h k' h' _ _ H. injection H as H1 H2. apply akind_byte_inj in H1. apply flat_esc_inj in H2. tauto.
  - intros k h [X|X].
    + destruct k as [[]| | |]; discriminate.
    + apply in_flat_map in X. destruct X as [b [_ X]]. exact (esc_no_pct b X).
Qed.

(* known finding address-empty-entrypoint: "A%" against "A" — unequal, yet neither is smaller *)
Lemma empty_entrypoint_refuted :
  exists T a b, texts_ok T /\ a <> b /\ py_compare T a b = Gt /\ py_compare T b a = Gt /\
    has_type TAddress b = true /\ has_type TAddress a = false.
Proof.
  exists demo_texts, (VAddr AKT (repeat x11 20) (Some [])), (VAddr AKT (repeat x11 20) None).
  split; [exact demo_texts_ok|]. split; [discriminate|]. vm_compute. repeat split; reflexivity.
Qed.

(* ------------------------------------------------------------------ back to raw values
   The correspondence run evaluates the collection model on raw [val]s with [py_eq T]/[py_lt T];
   the order laws hold on the subtype [typed t].  Erasure (Collections_proofs, Section Erase)
   transfers the results to every history whose keys are well-typed. *)
Section Raw.
  Variable T : texts.
  Hypothesis TOK : texts_ok T.
  Variable t : cty.

  Definition typed_val (v : val) : Prop := has_type t v = true.
  Definition raw_lt (a b : val) : Prop := cmp t a b = Lt.

  Lemma lift_vals l : Forall typed_val l -> exists l' : list (typed t), map (tv t) l' = l.
  Proof.
    induction 1 as [|v l Hv _ [l' IH]]; [exists []; reflexivity|].
    exists (exist _ v Hv :: l'). simpl. rewrite IH. reflexivity.
  Qed.

  Definition set_op_typed (o : set_op val) : Prop :=
    match o with SUpdate x _ => typed_val x | SLiteral l => Forall typed_val l end.

  Lemma lift_set_ops ops : Forall set_op_typed ops ->
    exists ops' : list (set_op (typed t)), map (erase_set_op val (typed t) (tv t)) ops' = ops.
  Proof.
    induction 1 as [|o ops Ho _ [ops' IH]]; [exists []; reflexivity|].
    destruct o as [x b|l]; simpl in Ho.
    - exists (SUpdate (exist _ x Ho) b :: ops'). simpl. rewrite IH. reflexivity.
    - destruct (lift_vals l Ho) as [l' Hl]. exists (SLiteral l' :: ops'). simpl. rewrite IH, Hl. reflexivity.
  Qed.

  Lemma raw_set_sorted ops : Forall set_op_typed ops ->
    StronglySorted raw_lt (set_run (py_eq T) (py_lt T) ops) /\
    Forall typed_val (set_run (py_eq T) (py_lt T) ops).
  Proof.
    intro F. destruct (lift_set_ops ops F) as [ops' <-].
    rewrite <- (erase_set_run val (typed t) (tv t) (py_eq T) (py_lt T) ops'). split.
    - apply StronglySorted_map with (R' := cmp_lt t); [intros a b H; exact H|].
      exact (set_is_cmp_sorted T TOK t ops').
    - apply Forall_forall. intros v Hv. apply in_map_iff in Hv. destruct Hv as [x [<- _]]. apply tv_typed.
  Qed.

  Definition map_op_typed {V} (o : map_op val V) : Prop :=
    match o with
    | MUpdate k _ => typed_val k
    | MGetAndUpdate k _ => typed_val k
    | MMap _ => True
    | MLiteral l => Forall typed_val (keys l)
    end.

  Lemma lift_elts {V} (l : list (val * V)) : Forall typed_val (keys l) ->
    exists l' : list (typed t * V), map (fun kv => (tv t (fst kv), snd kv)) l' = l.
  Proof.
    induction l as [|[k v] l IH]; simpl; intro F; [exists []; reflexivity|].
    inversion F as [|? ? Hk Hl]; subst. destruct (IH Hl) as [l' E].
    exists ((exist _ k Hk, v) :: l'). simpl. rewrite E. reflexivity.
  Qed.

  Lemma lift_map_ops {V} (ops : list (map_op val V)) : Forall map_op_typed ops ->
    exists ops' : list (map_op (typed t) V), Forall2 (mop_rel val (typed t) V (tv t)) ops' ops.
  Proof.
    induction 1 as [|o ops Ho _ [ops' IH]]; [exists []; constructor|].
    destruct o as [k vo|k vo|phi|l]; simpl in Ho.
    - exists (MUpdate (exist _ k Ho) vo :: ops'). constructor; [|exact IH].
      apply (MR_upd val (typed t) V (tv t) (exist _ k Ho) vo).
    - exists (MGetAndUpdate (exist _ k Ho) vo :: ops'). constructor; [|exact IH].
      apply (MR_gau val (typed t) V (tv t) (exist _ k Ho) vo).
    - exists (MMap (fun k' v => phi (tv t k') v) :: ops'). constructor; [|exact IH]. apply MR_map.
    - destruct (lift_elts l Ho) as [l' <-]. exists (MLiteral l' :: ops'). constructor; [|exact IH]. apply MR_lit.
  Qed.

  Lemma raw_map_sorted {V} (ops : list (map_op val V)) : Forall map_op_typed ops ->
    StronglySorted raw_lt (keys (map_run (py_eq T) (py_lt T) ops)) /\
    Forall typed_val (keys (map_run (py_eq T) (py_lt T) ops)).
  Proof.
    intro F. destruct (lift_map_ops ops F) as [ops' R].
    rewrite <- (erase_map_run val (typed t) V (tv t) (py_eq T) (py_lt T) ops' ops R).
    rewrite (erase_keys val (typed t) V (tv t)). split.
    - apply StronglySorted_map with (R' := cmp_lt t); [intros a b H; exact H|].
      exact (map_is_cmp_sorted T TOK t V ops').
    - apply Forall_forall. intros v Hv. apply in_map_iff in Hv. destruct Hv as [x [<- _]]. apply tv_typed.
  Qed.

  (* literals on raw values *)
  Lemma raw_literal l : Forall typed_val l ->
    (check_constraints (py_eq T) (py_lt T) l = true <-> StronglySorted raw_lt l).
  Proof.
    intro F. destruct (lift_vals l F) as [l' <-].
    rewrite <- (erase_check val (typed t) (tv t) (py_eq T) (py_lt T) l').
    rewrite (literal_is_cmp T TOK t l'). split.
    - apply StronglySorted_map. intros a b H; exact H.
    - clear F. intro S. induction l' as [|x l' IH]; [constructor|]. simpl in S. inversion S as [|? ? S1 F1]; subst.
      constructor; [apply IH, S1|].
      rewrite Forall_forall in *. intros y Hy. apply F1. apply in_map, Hy.
  Qed.
End Raw.

(* ------------------------------------------------------------------ concrete base58check texts order like their payloads *)
Section Concrete.
  Local Open Scope N_scope.

  (* comparing two numbers written in a positional system: the leading digit decides, then the rest *)
  Lemma pos_cmp B q r q' r' : r < B -> r' < B ->
    (q * B + r ?= q' * B + r') = match q ?= q' with Eq => r ?= r' | c => c end.
  Proof.
    intros Hr Hr'. destruct (N.compare_spec q q') as [E|L|G].
    - subst. destruct (N.compare_spec r r') as [E|L|G]; [subst; apply N.compare_refl | |].
      + apply N.compare_lt_iff. lia.
      + apply N.compare_gt_iff. lia.
    - apply N.compare_lt_iff. assert ((q + 1) * B <= q' * B) by (apply N.mul_le_mono_r; lia). lia.
    - apply N.compare_gt_iff. assert ((q' + 1) * B <= q * B) by (apply N.mul_le_mono_r; lia). lia.
  Qed.

  (* the alphabet is in increasing ASCII order *)
  Definition digits58 : list N := map N.of_nat (seq 0 58).

  Lemma char_mono_all :
    forallb (fun d => forallb (fun e =>
      match Byte.to_N (b58_char d) ?= Byte.to_N (b58_char e), d ?= e with
      | Eq, Eq | Lt, Lt | Gt, Gt => true | _, _ => false end) digits58) digits58 = true.
  Proof. vm_compute. reflexivity. Qed.

  Lemma in_digits58 d : d < 58 -> In d digits58.
  Proof.
    intro H. unfold digits58. apply in_map_iff. exists (N.to_nat d). split; [apply N2Nat.id|].
    apply in_seq. lia.
  Qed.

  Lemma char_mono d e : d < 58 -> e < 58 ->
    (Byte.to_N (b58_char d) ?= Byte.to_N (b58_char e)) = (d ?= e).
  Proof.
    intros Hd He. pose proof char_mono_all as A. rewrite forallb_forall in A.
    specialize (A d (in_digits58 d Hd)). rewrite forallb_forall in A. specialize (A e (in_digits58 e He)).
    destruct (Byte.to_N (b58_char d) ?= Byte.to_N (b58_char e)), (d ?= e); try reflexivity; discriminate.
  Qed.

  Lemma b58_fixed_order len : forall n m, n < 58 ^ N.of_nat len -> m < 58 ^ N.of_nat len ->
    lex_cmp (b58_fixed len n) (b58_fixed len m) = (n ?= m).
  Proof.
    induction len as [|l IH]; intros n m Hn Hm.
    - simpl in *. assert (n = 0) by lia. assert (m = 0) by lia. subst. reflexivity.
    - rewrite Nat2N.inj_succ, N.pow_succ_r' in Hn, Hm.
      set (B := 58 ^ N.of_nat l) in *.
      assert (HB : 0 < B) by (apply N.neq_0_lt_0, N.pow_nonzero; discriminate).
      cbn [b58_fixed]. fold B. cbn [lex_cmp].
      assert (Q : n / B < 58) by (apply N.div_lt_upper_bound; lia).
      assert (Q' : m / B < 58) by (apply N.div_lt_upper_bound; lia).
      assert (R : n mod B < B) by (apply N.mod_lt; lia).
      assert (R' : m mod B < B) by (apply N.mod_lt; lia).
      rewrite char_mono by assumption. rewrite IH by assumption.
      rewrite (N.div_mod n B) at 3 by lia. rewrite (N.div_mod m B) at 3 by lia.
      rewrite (N.mul_comm B (n / B)), (N.mul_comm B (m / B)).
      symmetry. apply pos_cmp; assumption.
  Qed.

  Lemma nb_lt l : nb l < 256 ^ N.of_nat (length l).
  Proof.
    induction l as [|x l IH]; simpl length; [simpl; lia|].
    rewrite Nat2N.inj_succ, N.pow_succ_r'. cbn [nb]. pose proof (to_N_lt_256 x).
    assert ((Byte.to_N x + 1) * 256 ^ N.of_nat (length l) <= 256 * 256 ^ N.of_nat (length l))
      by (apply N.mul_le_mono_r; lia). lia.
  Qed.

  Lemma nb_order a : forall b, length a = length b -> (nb a ?= nb b) = lex_cmp a b.
  Proof.
    induction a as [|x a IH]; intros [|y b] L; try discriminate; [reflexivity|].
    injection L as L. cbn [nb lex_cmp]. rewrite L.
    rewrite pos_cmp; [|rewrite <- L; apply nb_lt | apply nb_lt].
    rewrite (IH b L). reflexivity.
  Qed.

  Lemma nb_app a b : nb (a ++ b) = nb a * 256 ^ N.of_nat (length b) + nb b.
  Proof.
    induction a as [|x a IH]; [simpl; lia|].
    cbn [app nb]. rewrite IH, app_length, Nat2N.inj_add, N.pow_add_r. lia.
  Qed.

  Lemma lex_cmp_app a : forall a' b b', length a = length a' ->
    lex_cmp (a ++ b) (a' ++ b') = then_cmp (lex_cmp a a') (lex_cmp b b').
  Proof.
    induction a as [|x a IH]; intros [|y a'] b b' L; try discriminate; [reflexivity|].
    injection L as L. simpl. destruct (Byte.to_N x ?= Byte.to_N y); try reflexivity. apply IH, L.
  Qed.

  Variable ck : bytes -> bytes.
  Hypothesis ck_len : forall b, length (ck b) = 4%nat.

  Lemma kh_prefix_order c c' : lex_cmp (kh_prefix c) (kh_prefix c') = (curve_idx c ?= curve_idx c').
  Proof. destruct c, c'; reflexivity. Qed.

  Lemma kh_number_bound c h : length h = 20%nat ->
    nb ((kh_prefix c ++ h) ++ ck (kh_prefix c ++ h)) < 58 ^ 36.
  Proof.
    intro L. rewrite <- app_assoc, nb_app.
    pose proof (nb_lt (h ++ ck (kh_prefix c ++ h))) as X.
    rewrite app_length, L, ck_len in *. simpl Nat.add in *.
    assert (P : nb (kh_prefix c) <= 434598) by (destruct c; vm_compute; discriminate).
    assert (C : 434599 * 256 ^ N.of_nat 24 <= 58 ^ 36) by (vm_compute; discriminate).
    assert ((nb (kh_prefix c) + 1) * 256 ^ N.of_nat 24 <= 434599 * 256 ^ N.of_nat 24)
      by (apply N.mul_le_mono_r; lia). lia.
  Qed.

  (* key hashes: the text order IS the (scheme, hash) order — the law [kh_order] of texts_ok *)
  Lemma kh_text_order c h c' h' : length h = 20%nat -> length h' = 20%nat ->
    lex_cmp (kh_text ck c h) (kh_text ck c' h') = then_cmp (curve_idx c ?= curve_idx c') (lex_cmp h h').
  Proof.
    intros L L'. unfold kh_text.
    rewrite (b58_fixed_order 36) by (apply kh_number_bound; assumption).
    rewrite nb_order by (rewrite !app_length, !ck_len, L, L'; destruct c, c'; reflexivity).
    rewrite lex_cmp_app by (rewrite !app_length, L, L'; destruct c, c'; reflexivity).
    rewrite lex_cmp_app by (destruct c, c'; reflexivity).
    rewrite kh_prefix_order.
    destruct (curve_idx c ?= curve_idx c') eqn:E; try reflexivity. simpl.
    destruct (lex_cmp h h') eqn:F; try reflexivity. simpl.
    apply N.compare_eq, curve_idx_inj in E. apply lex_cmp_eq in F. subst. apply lex_cmp_refl.
  Qed.

  Lemma cid_number_bound x : length x = 4%nat ->
    nb ((cid_prefix ++ x) ++ ck (cid_prefix ++ x)) < 58 ^ 15.
  Proof.
    intro L. rewrite <- app_assoc, nb_app.
    pose proof (nb_lt (x ++ ck (cid_prefix ++ x))) as X.
    rewrite app_length, L, ck_len in *. simpl Nat.add in *.
    assert (P : nb cid_prefix = 5722624) by (vm_compute; reflexivity).
    assert (C : 5722625 * 256 ^ N.of_nat 8 <= 58 ^ 15) by (vm_compute; discriminate).
    rewrite P. lia.
  Qed.

  Lemma cid_text_order x y : length x = 4%nat -> length y = 4%nat ->
    lex_cmp (cid_text ck x) (cid_text ck y) = lex_cmp x y.
  Proof.
    intros L L'. unfold cid_text.
    rewrite (b58_fixed_order 15) by (apply cid_number_bound; assumption).
    rewrite nb_order by (rewrite !app_length, !ck_len, L, L'; reflexivity).
    rewrite lex_cmp_app by (rewrite !app_length, L, L'; reflexivity).
    rewrite lex_cmp_app by reflexivity. rewrite lex_cmp_refl. simpl.
    destruct (lex_cmp x y) eqn:F; try reflexivity. simpl.
    apply lex_cmp_eq in F. subst. apply lex_cmp_refl.
  Qed.
End Concrete.
