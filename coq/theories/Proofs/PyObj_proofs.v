(* Proofs/PyObj_proofs.v — lemmas about Michelson/PyObj.v (property C12). *)
From Coq Require Import List ZArith NArith Bool Arith Lia.
From Coq.Strings Require Import Byte.
From PV Require Import Base.Bytes Base.Result Michelson.PyObj.
Import ListNotations.
Local Open Scope list_scope.

(* ---- equalities ------------------------------------------------------------------------------------- *)
Lemma bytes_eqb_refl (a : bytes) : bytes_eqb a a = true.
Proof. apply bytes_eqb_spec. reflexivity. Qed.

Lemma bytes_eqb_false (a b : bytes) : bytes_eqb a b = false <-> a <> b.
Proof.
  split.
  - intros H E. subst. rewrite bytes_eqb_refl in H. discriminate.
  - intros H. destruct (bytes_eqb a b) eqn:E; [|reflexivity]. apply bytes_eqb_spec in E. contradiction.
Qed.

Lemma mem_name_In k l : mem_name k l = true <-> In k l.
Proof.
  induction l as [|x r IH]; simpl.
  - split; [discriminate|contradiction].
  - rewrite orb_true_iff, IH, bytes_eqb_spec. split; intros [H|H]; auto.
Qed.

Lemma mem_name_false k l : mem_name k l = false <-> ~ In k l.
Proof. rewrite <- mem_name_In. destruct (mem_name k l); intuition congruence. Qed.

Lemma nodup_names_NoDup l : nodup_names l = true <-> NoDup l.
Proof.
  induction l as [|x r IH]; simpl.
  - split; [constructor|reflexivity].
  - rewrite andb_true_iff, negb_true_iff, mem_name_false, IH. split.
    + intros [H1 H2]. constructor; assumption.
    + intros H. inversion H; subst. split; assumption.
Qed.

(* induction principle for the nested type pyobj *)
Section PyInd.
  Variable Q : pyobj -> Prop.
  Hypothesis HInt : forall z, Q (PInt z).
  Hypothesis HStr : forall s, Q (PStr s).
  Hypothesis HBytes : forall b, Q (PBytes b).
  Hypothesis HBool : forall b, Q (PBool b).
  Hypothesis HNone : Q PNone.
  Hypothesis HUnit : Q PUnit.
  Hypothesis HTuple : forall l, Forall Q l -> Q (PTuple l).
  Hypothesis HList : forall l, Forall Q l -> Q (PList l).
  Hypothesis HDict : forall l, Forall (fun kv => Q (fst kv) /\ Q (snd kv)) l -> Q (PDict l).

  Fixpoint pyobj_ind' (o : pyobj) : Q o :=
    match o with
    | PInt z => HInt z | PStr s => HStr s | PBytes b => HBytes b | PBool b => HBool b
    | PNone => HNone | PUnit => HUnit
    | PTuple l => HTuple l ((fix go (l : list pyobj) : Forall Q l :=
                               match l with [] => Forall_nil _ | x :: r => Forall_cons x (pyobj_ind' x) (go r) end) l)
    | PList l => HList l ((fix go (l : list pyobj) : Forall Q l :=
                             match l with [] => Forall_nil _ | x :: r => Forall_cons x (pyobj_ind' x) (go r) end) l)
    | PDict l => HDict l ((fix go (l : list (pyobj * pyobj)) : Forall (fun kv => Q (fst kv) /\ Q (snd kv)) l :=
                             match l with
                             | [] => Forall_nil _
                             | kv :: r => Forall_cons kv (conj (pyobj_ind' (fst kv)) (pyobj_ind' (snd kv))) (go r)
                             end) l)
    end.
End PyInd.

Lemma pyobj_eqb_true : forall a b, pyobj_eqb a b = true -> a = b.
Proof.
  induction a using pyobj_ind'; intros b0 E; destruct b0; simpl in E; try discriminate.
  - apply Z.eqb_eq in E. congruence.
  - apply bytes_eqb_spec in E. congruence.
  - apply bytes_eqb_spec in E. congruence.
  - apply Bool.eqb_prop in E. congruence.
  - reflexivity.
  - reflexivity.
  - f_equal. revert l0 E. induction H as [|x r Hx Hr IH]; intros [|y s] E; try discriminate; [reflexivity|].
    apply andb_true_iff in E. destruct E as [E1 E2]. f_equal; [apply Hx, E1|apply IH, E2].
  - f_equal. revert l0 E. induction H as [|x r Hx Hr IH]; intros [|y s] E; try discriminate; [reflexivity|].
    apply andb_true_iff in E. destruct E as [E1 E2]. f_equal; [apply Hx, E1|apply IH, E2].
  - f_equal. revert l0 E. induction H as [|[k v] r [Hk Hv] Hr IH]; intros [|[k' v'] s] E; try discriminate; [reflexivity|].
    apply andb_true_iff in E. destruct E as [E12 E3]. apply andb_true_iff in E12. destruct E12 as [E1 E2].
    simpl in Hk, Hv. f_equal; [f_equal; [apply Hk, E1|apply Hv, E2]|apply IH, E3].
Qed.

Lemma pyobj_eqb_PStr a b : pyobj_eqb (PStr a) (PStr b) = bytes_eqb a b.
Proof. reflexivity. Qed.

(* ---- Python dicts -------------------------------------------------------------------------------------- *)
(* every key differs (for pyobj_eqb) from every other key *)
Definition keys_distinct (d : list (pyobj * pyobj)) : Prop :=
  forall i j kv1 kv2, nth_error d i = Some kv1 -> nth_error d j = Some kv2 -> i <> j ->
                      pyobj_eqb (fst kv1) (fst kv2) = false.

Lemma pydict_set_fresh d k v :
  (forall kv, In kv d -> pyobj_eqb k (fst kv) = false) -> pydict_set d k v = d ++ [(k, v)].
Proof.
  induction d as [|[k' v'] r IH]; simpl; intros H; [reflexivity|].
  pose proof (H (k', v') (or_introl eq_refl)) as E. simpl in E. rewrite E. rewrite IH; [reflexivity|].
  intros kv Hin. apply H. right. assumption.
Qed.

Lemma keys_distinct_tail kv d : keys_distinct (kv :: d) -> keys_distinct d.
Proof. intros H i j a b Ha Hb Hij. apply (H (S i) (S j) a b); simpl; auto. Qed.

Lemma pydict_of_distinct_acc : forall items acc,
  keys_distinct (acc ++ items) -> fold_left (fun d kv => pydict_set d (fst kv) (snd kv)) items acc = acc ++ items.
Proof.
  induction items as [|[k v] r IH]; intros acc H; simpl.
  - rewrite app_nil_r. reflexivity.
  - rewrite pydict_set_fresh.
    + rewrite IH; rewrite <- app_assoc; simpl; [reflexivity|assumption].
    + intros kv Hin. apply In_nth_error in Hin. destruct Hin as [i Hi].
      apply (H (length acc) i (k, v) kv).
      * rewrite nth_error_app2 by lia. rewrite Nat.sub_diag. reflexivity.
      * rewrite nth_error_app1; [assumption|]. apply nth_error_Some. congruence.
      * assert (i < length acc) by (apply nth_error_Some; congruence). lia.
Qed.

Lemma pydict_of_distinct items : keys_distinct items -> pydict_of items = items.
Proof. intros H. unfold pydict_of. rewrite pydict_of_distinct_acc; [reflexivity|assumption]. Qed.

Lemma keys_distinct_names ns items :
  NoDup ns -> keys_distinct (combine (map PStr ns) items).
Proof.
  intros Hnd i j [k1 v1] [k2 v2] H1 H2 Hij. simpl.
  assert (F : forall i k v, nth_error (combine (map PStr ns) items) i = Some (k, v) ->
                            exists n, nth_error ns i = Some n /\ k = PStr n).
  { clear. intros i. revert ns items. induction i as [|i IH]; intros [|n ns] [|o items] k v H; simpl in *; try discriminate.
    - injection H as <- <-. eauto.
    - eapply IH. eassumption. }
  destruct (F _ _ _ H1) as [n1 [E1 ->]]. destruct (F _ _ _ H2) as [n2 [E2 ->]].
  rewrite pyobj_eqb_PStr. apply bytes_eqb_false. intros ->.
  apply Hij. eapply NoDup_nth_error; eauto. apply nth_error_Some. congruence. congruence.
Qed.

Lemma pydict_get_combine : forall pre ipre n ns o items,
  length pre = length ipre -> ~ In n pre ->
  pydict_get (combine (map PStr (pre ++ n :: ns)) (ipre ++ o :: items)) (PStr n) = Some o.
Proof.
  induction pre as [|p pre IH]; intros [|ip ipre] n ns o items Hl Hni; simpl in *; try discriminate.
  - rewrite bytes_eqb_refl. reflexivity.
  - destruct (bytes_eqb n p) eqn:E.
    + apply bytes_eqb_spec in E. subst. exfalso. apply Hni. left. reflexivity.
    + apply IH; [lia|]. intros H. apply Hni. right. assumption.
Qed.

Lemma dict_items_ok : forall ns items pre ipre,
  length pre = length ipre -> length ns = length items -> NoDup (pre ++ ns) ->
  dict_items ns (combine (map PStr (pre ++ ns)) (ipre ++ items)) = Ok items.
Proof.
  induction ns as [|n ns IH]; intros [|o items] pre ipre Hl Hl2 Hnd; simpl in *; try discriminate; [reflexivity|].
  assert (Hn : ~ In n ns /\ ~ In n pre).
  { apply NoDup_remove_2 in Hnd. rewrite in_app_iff in Hnd. tauto. }
  destruct Hn as [Hn1 Hn2].
  apply mem_name_false in Hn1. rewrite Hn1.
  rewrite pydict_get_combine by assumption.
  specialize (IH items (pre ++ [n]) (ipre ++ [o])).
  rewrite <- !app_assoc in IH. simpl in IH. rewrite IH; [reflexivity| | |assumption].
  - rewrite !app_length. simpl. lia.
  - lia.
Qed.

Lemma key_known_combine ns (items : list pyobj) :
  forallb (fun kv : pyobj * pyobj => key_known ns (fst kv)) (combine (map PStr ns) items) = true.
Proof.
  apply forallb_forall. intros [k v] Hin. apply in_combine_l in Hin. apply in_map_iff in Hin.
  destruct Hin as [n [<- Hn]]. simpl. apply mem_name_In. assumption.
Qed.

(* ---- last_index ---------------------------------------------------------------------------------------- *)
Lemma last_index_notin : forall names k i found, ~ In k names -> last_index k i names found = found.
Proof.
  induction names as [|n r IH]; intros k i found H; simpl; [reflexivity|].
  destruct (bytes_eqb k n) eqn:E.
  - apply bytes_eqb_spec in E. subst. exfalso. apply H. left. reflexivity.
  - apply IH. intros H'. apply H. right. assumption.
Qed.

Lemma last_index_nth : forall names j k i found,
  NoDup names -> nth_error names j = Some k -> last_index k i names found = Some (i + j).
Proof.
  induction names as [|n r IH]; intros [|j] k i found Hnd Hn; simpl in *; try discriminate.
  - injection Hn as ->. rewrite bytes_eqb_refl. inversion Hnd; subst.
    rewrite last_index_notin by assumption. f_equal. lia.
  - inversion Hnd; subst. destruct (bytes_eqb k n) eqn:E.
    + apply bytes_eqb_spec in E. subst. exfalso. apply H1. eapply nth_error_In. eassumption.
    + rewrite (IH j k (S i) found) by assumption. f_equal. lia.
Qed.

(* ---- sorting an already sorted list ---------------------------------------------------------------------- *)
Lemma sort_by_sorted {A} (key : A -> mval) : forall l, sorted_by key l = true -> sort_by key l = l.
Proof.
  induction l as [|x r IH]; intros H; simpl; [reflexivity|].
  destruct r as [|y r']; [reflexivity|].
  simpl in H. apply andb_true_iff in H. destruct H as [H1 H2].
  rewrite IH by exact H2. simpl. rewrite H1. reflexivity.
Qed.

(* ---- map_result -------------------------------------------------------------------------------------------- *)
Lemma map_result_ok {A B} (f : A -> result B) (g : A -> B) l :
  (forall x, In x l -> f x = Ok (g x)) -> map_result f l = Ok (map g l).
Proof.
  induction l as [|x r IH]; intros H; simpl; [reflexivity|].
  rewrite (H x (or_introl eq_refl)). simpl. rewrite IH; [reflexivity|].
  intros y Hy. apply H. right. assumption.
Qed.

Lemma map_result_ex {A B} (f : A -> result B) l :
  (forall x, In x l -> exists y, f x = Ok y) ->
  exists ys, map_result f l = Ok ys /\ length ys = length l /\
             forall i x, nth_error l i = Some x -> exists y, nth_error ys i = Some y /\ f x = Ok y.
Proof.
  induction l as [|x r IH]; intros H; simpl.
  - exists []. split; [reflexivity|]. split; [reflexivity|]. intros [|i] x Hx; discriminate.
  - destruct (H x (or_introl eq_refl)) as [y Hy]. rewrite Hy. simpl.
    destruct IH as [ys [E [Hl Hn]]]; [intros z Hz; apply H; right; assumption|].
    rewrite E. simpl. exists (y :: ys). split; [reflexivity|]. split; [simpl; lia|].
    intros [|i] x' Hx'; simpl in *.
    + injection Hx' as <-. eauto.
    + apply Hn. assumption.
Qed.

Lemma map_result_inv {A B} (f : A -> result B) (h : B -> result A) : forall l ys,
  map_result f l = Ok ys ->
  (forall x y, In x l -> f x = Ok y -> h y = Ok x) ->
  map_result h ys = Ok l.
Proof.
  induction l as [|x r IH]; intros ys H Hinv; simpl in H.
  - injection H as <-. reflexivity.
  - destruct (f x) as [y|] eqn:Ey; simpl in H; [|discriminate].
    destruct (map_result f r) as [ys'|] eqn:Er; simpl in H; [|discriminate].
    injection H as <-. simpl. rewrite (Hinv x y (or_introl eq_refl) Ey). simpl.
    rewrite (IH ys' eq_refl); [reflexivity|]. intros x' y' Hx'. apply Hinv. right. assumption.
Qed.

Lemma map_result_In {A B} (f : A -> result B) : forall l ys y,
  map_result f l = Ok ys -> In y ys -> exists x, In x l /\ f x = Ok y.
Proof.
  induction l as [|x r IH]; intros ys y H Hin; simpl in H.
  - injection H as <-. contradiction.
  - destruct (f x) as [y0|] eqn:Ey; simpl in H; [|discriminate].
    destruct (map_result f r) as [ys'|] eqn:Er; simpl in H; [|discriminate].
    injection H as <-. destruct Hin as [<-|Hin].
    + exists x. split; [left; reflexivity|assumption].
    + destruct (IH ys' y eq_refl Hin) as [x' [Hx' Hf]]. exists x'. split; [right; assumption|assumption].
Qed.

(* ---- layouts --------------------------------------------------------------------------------------------- *)
Lemma layout_keys_length : forall args i res, length (fst (layout_keys i res args)) = length args.
Proof.
  induction args as [|t r IH]; intros i res; simpl; [reflexivity|].
  destruct (explicit_key t) as [k|].
  - destruct (mem_name k res); simpl; rewrite IH; reflexivity.
  - simpl. rewrite IH. reflexivity.
Qed.

Lemma all_names_length args : length (all_names args) = length args.
Proof. apply layout_keys_length. Qed.

Lemma layout_names_some infer args ns : layout_names infer args = Some ns -> ns = all_names args.
Proof.
  unfold layout_names, all_names. destruct (snd (layout_keys 0 [] args)); [destruct infer|]; congruence.
Qed.

Lemma pair_leaves_at_length : forall t p, length (pair_leaves_at p t) = pair_count t.
Proof.
  induction t; intros p; simpl; try reflexivity.
  destruct (unnamed fn tn); [|reflexivity]. rewrite app_length, IHt1, IHt2. reflexivity.
Qed.

Lemma pair_leaves_length a b : length (map snd (pair_leaves a b)) = pair_count a + pair_count b.
Proof. unfold pair_leaves. rewrite map_length, app_length, !pair_leaves_at_length. reflexivity. Qed.

Lemma or_leaves_at_length : forall t p, length (or_leaves_at p t) = or_count t.
Proof.
  induction t; intros p; simpl; try reflexivity. rewrite app_length, IHt1, IHt2. reflexivity.
Qed.

Lemma or_leaves_length a b : length (map snd (or_leaves a b)) = or_count a + or_count b.
Proof. unfold or_leaves. rewrite map_length, app_length, !or_leaves_at_length. reflexivity. Qed.

Lemma or_count_pos t : 0 < or_count t.
Proof. induction t; simpl; lia. Qed.

(* ---- single-object conversions and unfolding equations ------------------------------------------------------ *)
Definition to1 (cmp : bool) (a : aty) (x : mval) : result pyobj := one (conv CNone cmp a x).
Definition from1 (a : aty) (o : pyobj) : result mval :=
  let* r := unconv CNone a 0 [o] in match snd r with [] => Ok (fst r) | _ :: _ => Reject end.
Definition to_kv (k e : aty) (kv : mval * mval) : result (pyobj * pyobj) :=
  let* ko := to1 true k (fst kv) in let* vo := to1 false e (snd kv) in Ok (ko, vo).
Definition from_kv (k e : aty) (kv : pyobj * pyobj) : result (mval * mval) :=
  let* rk := unconv CNone k 0 [fst kv] in
  let* rv := unconv CNone e 0 [snd kv] in
  match snd rk, snd rv with [], [] => Ok (fst rk, fst rv) | _, _ => Reject end.

Lemma to_py_to1 cmp t v : to_py_cmp cmp t v = to1 cmp t v.
Proof. reflexivity. Qed.
Lemma from_py_from1 t o : from_py t o = from1 t o.
Proof. reflexivity. Qed.

Lemma conv_pair c cmp fn tn a b x y :
  conv c cmp (TPair fn tn a b) (VPair x y) =
  let* ra := conv CPair cmp a x in
  let* rb := conv CPair cmp b y in
  let items := snd ra ++ snd rb in
  if is_cpair c && unnamed fn tn then Ok (0, items)
  else single (pair_obj cmp (layout_names false (map snd (pair_leaves a b))) items).
Proof. reflexivity. Qed.

Lemma conv_option_some c cmp fn tn a x :
  conv c cmp (TOption fn tn a) (VSome x) = let* o := to1 cmp a x in single o.
Proof. reflexivity. Qed.

Lemma conv_list c fn tn a l :
  conv c false (TList fn tn a) (VSeq l) = let* os := map_result (to1 false a) l in single (PList os).
Proof. reflexivity. Qed.

Lemma conv_set c fn tn a l :
  conv c false (TSet fn tn a) (VSeq l) = let* os := map_result (to1 true a) l in single (PList os).
Proof. reflexivity. Qed.

Lemma conv_map c fn tn k e l :
  conv c false (TMap fn tn k e) (VMap l) = let* d := map_result (to_kv k e) l in single (PDict (pydict_of d)).
Proof. reflexivity. Qed.

Lemma conv_bigmap c fn tn k e l :
  conv c false (TBigMap fn tn k e) (VMap l) = let* d := map_result (to_kv k e) l in single (PDict (pydict_of d)).
Proof. reflexivity. Qed.

Lemma unconv_pair c fn tn a b idx items :
  unconv c (TPair fn tn a b) idx items =
  let flat := is_cpair c && unnamed fn tn in
  let* st := if flat then Ok (items, [])
             else match items with
                  | o :: rest =>
                      let* its := pair_items (layout_names false (map snd (pair_leaves a b)))
                                             (pair_count a + pair_count b) o in Ok (its, rest)
                  | [] => Reject
                  end in
  let* ra := unconv CPair a 0 (fst st) in
  let* rb := unconv CPair b 0 (snd ra) in
  if flat then Ok (VPair (fst ra) (fst rb), snd rb)
  else match snd rb with [] => Ok (VPair (fst ra) (fst rb), snd st) | _ :: _ => Reject end.
Proof. reflexivity. Qed.

Lemma unconv_or c fn tn a b idx items :
  unconv c (TOr fn tn a b) idx items =
  let flat := is_cor c in
  let* st := if flat then Ok (idx, items, [])
             else match items with
                  | o :: rest =>
                      let* ia := or_select (all_units a && all_units b) (all_names (map snd (or_leaves a b))) o in
                      Ok (fst ia, [snd ia], rest)
                  | [] => Reject
                  end in
  let i := fst (fst st) in
  let* r := if i <? or_count a
            then let* r := unconv COr a i (snd (fst st)) in Ok (VLeft (fst r), snd r)
            else let* r := unconv COr b (i - or_count a) (snd (fst st)) in Ok (VRight (fst r), snd r) in
  if flat then Ok r
  else match snd r with [] => Ok (fst r, snd st) | _ :: _ => Reject end.
Proof. reflexivity. Qed.

Lemma unconv_option c fn tn a idx o rest :
  o <> PNone ->
  unconv c (TOption fn tn a) idx (o :: rest) = let* x := from1 a o in Ok (VSome x, rest).
Proof.
  intros H. unfold from1.
  destruct o; try congruence; cbn [unconv];
    (match goal with |- context [unconv CNone a 0 ?l] => destruct (unconv CNone a 0 l) as [[x [|? ?]]|] end; reflexivity).
Qed.

Lemma unconv_list c fn tn a idx l rest :
  unconv c (TList fn tn a) idx (PList l :: rest) = let* vs := map_result (from1 a) l in Ok (VSeq vs, rest).
Proof. reflexivity. Qed.

Lemma unconv_set c fn tn a idx l rest :
  unconv c (TSet fn tn a) idx (PList l :: rest) =
  if negb (forallb hashable l) || has_dup l then Reject
  else let* vs := map_result (from1 a) l in Ok (VSeq (sort_by (fun x => x) vs), rest).
Proof. reflexivity. Qed.

Lemma unconv_map c fn tn k e idx d rest :
  unconv c (TMap fn tn k e) idx (PDict d :: rest) =
  let* kvs := map_result (from_kv k e) d in Ok (VMap (sort_by fst kvs), rest).
Proof. reflexivity. Qed.

Lemma unconv_bigmap c fn tn k e idx d rest :
  unconv c (TBigMap fn tn k e) idx (PDict d :: rest) =
  let* kvs := map_result (from_kv k e) d in Ok (VMap (sort_by fst kvs), rest).
Proof. reflexivity. Qed.

Lemma conv_or c cmp fn tn a b v :
  conv c cmp (TOr fn tn a b) v =
  let* r := match v with
            | VLeft x => conv COr cmp a x
            | VRight y => let* r := conv COr cmp b y in Ok (or_count a + fst r, snd r)
            | _ => Reject
            end in
  if is_cor c then Ok r
  else match snd r, nth_error (all_names (map snd (or_leaves a b))) (fst r) with
       | [o], Some key => single (or_obj cmp (all_units a && all_units b) key o)
       | _, _ => Reject
       end.
Proof. reflexivity. Qed.

(* ---- the invariant of the round trip -------------------------------------------------------------------------- *)
Definition good (c : ctxk) (cmp : bool) (t : aty) (v : mval) : Prop :=
  exists i os, conv c cmp t v = Ok (i, os) /\
  match c with
  | COr => exists o, os = [o] /\ i < or_count t /\ (all_units t = true -> o = PUnit) /\
           forall rest, unconv COr t i (o :: rest) = Ok (v, rest)
  | CPair => length os = pair_count t /\ forall rest, unconv CPair t 0 (os ++ rest) = Ok (v, rest)
  | CNone => exists o, os = [o] /\ (o = PNone -> v = VNone) /\
             forall idx rest, unconv CNone t idx (o :: rest) = Ok (v, rest)
  end.

Lemma good_single c cmp t v o :
  (c = CPair -> pair_count t = 1) ->
  (c = COr -> or_count t = 1 /\ (all_units t = true -> o = PUnit)) ->
  conv c cmp t v = Ok (0, [o]) ->
  (o = PNone -> v = VNone) ->
  (forall idx rest, unconv c t idx (o :: rest) = Ok (v, rest)) ->
  good c cmp t v.
Proof.
  intros Hp Ho Hc Hn Hu. exists 0, [o]. split; [assumption|]. destruct c.
  - exists o. auto.
  - split; [rewrite Hp; reflexivity|]. intros rest. apply Hu.
  - destruct (Ho eq_refl) as [H1 H2]. exists o. split; [reflexivity|]. split; [lia|]. split; [assumption|].
    intros rest. apply Hu.
Qed.

Lemma good_to_from cmp a x : good CNone cmp a x ->
  exists o, to1 cmp a x = Ok o /\ from1 a o = Ok x /\ (o = PNone -> x = VNone).
Proof.
  intros [i [os [Hc [o [-> [Hn Hu]]]]]]. exists o. unfold to1, from1. rewrite Hc. simpl.
  rewrite (Hu 0 []). simpl. auto.
Qed.

(* ---- has_some_none ----------------------------------------------------------------------------------------------- *)
Lemma hsn_some x : has_some_none (VSome x) = false -> x <> VNone /\ has_some_none x = false.
Proof. destruct x; simpl; intros H; try discriminate; split; try discriminate; assumption. Qed.

Lemma hsn_pair x y : has_some_none (VPair x y) = false -> has_some_none x = false /\ has_some_none y = false.
Proof. simpl. apply orb_false_iff. Qed.

Lemma hsn_seq l : has_some_none (VSeq l) = false -> forall x, In x l -> has_some_none x = false.
Proof.
  simpl. induction l as [|y r IH]; intros H x Hin; [contradiction|].
  apply orb_false_iff in H. destruct H as [H1 H2]. destruct Hin as [<-|Hin]; [assumption|]. apply IH; assumption.
Qed.

Lemma hsn_map l : has_some_none (VMap l) = false ->
  forall kv, In kv l -> has_some_none (fst kv) = false /\ has_some_none (snd kv) = false.
Proof.
  simpl. induction l as [|[k e] r IH]; intros H kv Hin; [contradiction|].
  apply orb_false_iff in H. destruct H as [H12 H3]. apply orb_false_iff in H12. destruct H12 as [H1 H2].
  destruct Hin as [<-|Hin]; [split; assumption|]. apply IH; assumption.
Qed.

(* ---- hashability of comparable renderings ----------------------------------------------------------------------------- *)
Lemma hashable_tuple l : hashable (PTuple l) = forallb hashable l.
Proof. simpl. induction l as [|x r IH]; simpl; [reflexivity|]. rewrite IH. reflexivity. Qed.

Lemma conv_hashable : forall t c v i os, conv c true t v = Ok (i, os) -> forallb hashable os = true.
Proof.
  induction t; intros c v i os H.
  - cbn [conv] in H. destruct (scalar_to k v) as [o|] eqn:E; simpl in H; [|discriminate].
    injection H as <- <-. destruct k, v; simpl in E; try discriminate; injection E as <-; reflexivity.
  - destruct v; try discriminate. rewrite conv_pair in H.
    destruct (conv CPair true t1 v1) as [[ia osa]|] eqn:Ea; simpl in H; [|discriminate].
    destruct (conv CPair true t2 v2) as [[ib osb]|] eqn:Eb; simpl in H; [|discriminate].
    pose proof (IHt1 _ _ _ _ Ea) as Ha. pose proof (IHt2 _ _ _ _ Eb) as Hb.
    assert (Hab : forallb hashable (osa ++ osb) = true) by (rewrite forallb_app, Ha, Hb; reflexivity).
    destruct (is_cpair c && unnamed fn tn).
    + injection H as <- <-. assumption.
    + unfold single in H. injection H as <- <-. simpl.
      destruct (layout_names false (map snd (pair_leaves t1 t2))); unfold pair_obj;
        rewrite hashable_tuple, Hab; reflexivity.
  - cbn [conv] in H.
    destruct v; try discriminate.
    + destruct (conv COr true t1 v) as [[j os1]|] eqn:E; simpl in H; [|discriminate].
      pose proof (IHt1 _ _ _ _ E) as H1.
      destruct (is_cor c); [injection H as <- <-; assumption|].
      destruct os1 as [|o [|? ?]]; try discriminate.
      destruct (nth_error (all_names (map snd (or_leaves t1 t2))) j); [|discriminate].
      unfold single in H. injection H as <- <-. unfold or_obj. simpl in H1.
      destruct (all_units t1 && all_units t2); [reflexivity|]. simpl. rewrite andb_true_r in H1. rewrite H1. reflexivity.
    + destruct (conv COr true t2 v) as [[j os1]|] eqn:E; simpl in H; [|discriminate].
      pose proof (IHt2 _ _ _ _ E) as H1.
      destruct (is_cor c); [injection H as <- <-; assumption|].
      destruct os1 as [|o [|? ?]]; try discriminate. simpl in H.
      destruct (nth_error (all_names (map snd (or_leaves t1 t2))) (or_count t1 + j)); [|discriminate].
      unfold single in H. injection H as <- <-. unfold or_obj. simpl in H1.
      destruct (all_units t1 && all_units t2); [reflexivity|]. simpl. rewrite andb_true_r in H1. rewrite H1. reflexivity.
  - destruct v; try discriminate.
    + rewrite conv_option_some in H. unfold to1, one in H.
      destruct (conv CNone true t v) as [[j os1]|] eqn:E; simpl in H; [|discriminate].
      destruct os1 as [|o [|? ?]]; try discriminate. simpl in H. injection H as <- <-.
      apply (IHt _ _ _ _ E).
    + cbn [conv] in H. injection H as <- <-. reflexivity.
  - discriminate.
  - discriminate.
  - discriminate.
  - cbn [conv] in H. destruct v; try discriminate. injection H as <- <-. reflexivity.
Qed.

(* ---- no duplicates among the converted elements ------------------------------------------------------------------------ *)
Lemma map_result_nth {A B} (f : A -> result B) : forall l ys i y,
  map_result f l = Ok ys -> nth_error ys i = Some y -> exists x, nth_error l i = Some x /\ f x = Ok y.
Proof.
  induction l as [|x r IH]; intros ys i y H Hn; simpl in H.
  - injection H as <-. destruct i; discriminate.
  - destruct (f x) as [y0|] eqn:Ey; simpl in H; [|discriminate].
    destruct (map_result f r) as [ys'|] eqn:Er; simpl in H; [|discriminate].
    injection H as <-. destruct i as [|i]; simpl in *.
    + injection Hn as <-. eauto.
    + eapply IH; eauto.
Qed.

Lemma has_dup_false {A} (f : A -> result pyobj) (h : pyobj -> result A) : forall l os,
  map_result f l = Ok os ->
  (forall x y, In x l -> f x = Ok y -> h y = Ok x) ->
  NoDup l -> has_dup os = false.
Proof.
  induction l as [|x r IH]; intros os H Hinv Hnd; simpl in H.
  - injection H as <-. reflexivity.
  - destruct (f x) as [y|] eqn:Ey; simpl in H; [|discriminate].
    destruct (map_result f r) as [ys|] eqn:Er; simpl in H; [|discriminate].
    injection H as <-. inversion Hnd as [|? ? Hni Hnd']; subst. simpl.
    rewrite (IH ys eq_refl); [|intros x' y' Hx'; apply Hinv; right; assumption|assumption].
    rewrite orb_false_r. destruct (existsb (pyobj_eqb y) ys) eqn:Ee; [|reflexivity].
    exfalso. apply existsb_exists in Ee. destruct Ee as [y' [Hy' Heq]]. apply pyobj_eqb_true in Heq. subst y'.
    destruct (map_result_In _ _ _ _ Er Hy') as [x' [Hx' Hf']].
    pose proof (Hinv x y (or_introl eq_refl) Ey) as H1.
    pose proof (Hinv x' y (or_intror Hx') Hf') as H2.
    rewrite H1 in H2. injection H2 as ->. contradiction.
Qed.

Lemma keys_distinct_kv k e : forall l d,
  map_result (to_kv k e) l = Ok d ->
  (forall kv ko, In kv l -> to1 true k (fst kv) = Ok ko -> from1 k ko = Ok (fst kv)) ->
  NoDup (map fst l) -> keys_distinct d.
Proof.
  intros l d Hm Hinv Hnd i j [k1 v1] [k2 v2] H1 H2 Hij. simpl.
  destruct (pyobj_eqb k1 k2) eqn:E; [|reflexivity]. exfalso. apply pyobj_eqb_true in E. subst k2.
  destruct (map_result_nth _ _ _ _ _ Hm H1) as [kv1 [N1 F1]].
  destruct (map_result_nth _ _ _ _ _ Hm H2) as [kv2 [N2 F2]].
  unfold to_kv in F1, F2.
  destruct (to1 true k (fst kv1)) as [ko1|] eqn:T1; simpl in F1; [|discriminate].
  destruct (to1 false e (snd kv1)) as [vo1|]; simpl in F1; [|discriminate]. injection F1 as -> ->.
  destruct (to1 true k (fst kv2)) as [ko2|] eqn:T2; simpl in F2; [|discriminate].
  destruct (to1 false e (snd kv2)) as [vo2|]; simpl in F2; [|discriminate]. injection F2 as -> ->.
  pose proof (Hinv kv1 k1 (nth_error_In _ _ N1) T1) as I1.
  pose proof (Hinv kv2 k1 (nth_error_In _ _ N2) T2) as I2.
  rewrite I1 in I2. injection I2 as Efst.
  apply Hij. apply (NoDup_nth_error (map fst l)); [assumption| |].
  - rewrite map_length. apply nth_error_Some. congruence.
  - rewrite !nth_error_map, N1, N2. simpl. congruence.
Qed.

Lemma scalar_rt k v : has_type (TScalar None None k) v ->
  exists o, scalar_to k v = Ok o /\ scalar_from k o = Ok v /\ o <> PNone /\ (k = KUnit -> o = PUnit).
Proof.
  destruct k, v; simpl; intros H; try contradiction.
  - exists (PInt z). simpl. apply Z.leb_le in H. rewrite H. repeat split; congruence.
  - exists (PInt z). repeat split; congruence.
  - exists (PStr s). simpl. rewrite H. repeat split; congruence.
  - exists (PBytes b). repeat split; congruence.
  - exists (PBool b). repeat split; congruence.
  - exists PUnit. repeat split; congruence.
Qed.

Lemma has_type_scalar_annot fn tn k v : has_type (TScalar fn tn k) v <-> has_type (TScalar None None k) v.
Proof. destruct k, v; simpl; tauto. Qed.

(* elementwise facts used by the collection cases *)
Lemma elems_rt cmp a l :
  (forall x, In x l -> good CNone cmp a x) ->
  exists os, map_result (to1 cmp a) l = Ok os /\
             (forall x y, In x l -> to1 cmp a x = Ok y -> from1 a y = Ok x) /\
             map_result (from1 a) os = Ok l.
Proof.
  intros Hg.
  assert (Hex : forall x, In x l -> exists y, to1 cmp a x = Ok y).
  { intros x Hx. destruct (good_to_from _ _ _ (Hg x Hx)) as [o [H1 _]]. eauto. }
  destruct (map_result_ex _ _ Hex) as [os [Hos _]].
  assert (Hinv : forall x y, In x l -> to1 cmp a x = Ok y -> from1 a y = Ok x).
  { intros x y Hx Hy. destruct (good_to_from _ _ _ (Hg x Hx)) as [o [H1 [H2 _]]]. congruence. }
  exists os. split; [assumption|]. split; [assumption|]. eapply map_result_inv; eassumption.
Qed.

Lemma kvs_rt k e l :
  (forall kv, In kv l -> good CNone true k (fst kv) /\ good CNone false e (snd kv)) ->
  exists d, map_result (to_kv k e) l = Ok d /\
            (forall kv ko, In kv l -> to1 true k (fst kv) = Ok ko -> from1 k ko = Ok (fst kv)) /\
            map_result (from_kv k e) d = Ok l.
Proof.
  intros Hg.
  assert (Hex : forall kv, In kv l -> exists y, to_kv k e kv = Ok y).
  { intros kv Hx. destruct (Hg kv Hx) as [G1 G2].
    destruct (good_to_from _ _ _ G1) as [ko [H1 _]]. destruct (good_to_from _ _ _ G2) as [vo [H2 _]].
    exists (ko, vo). unfold to_kv. rewrite H1, H2. reflexivity. }
  destruct (map_result_ex _ _ Hex) as [d [Hd _]].
  exists d. split; [assumption|]. split.
  - intros kv ko Hx Hy. destruct (Hg kv Hx) as [G1 _]. destruct (good_to_from _ _ _ G1) as [o [H1 [H2 _]]]. congruence.
  - eapply map_result_inv; [eassumption|]. intros [kk ee] [ko vo] Hx Hy. destruct (Hg _ Hx) as [G1 G2]. simpl in *.
    destruct G1 as [i1 [os1 [C1 [o1 [-> [_ U1]]]]]]. destruct G2 as [i2 [os2 [C2 [o2 [-> [_ U2]]]]]].
    unfold to_kv, to1 in Hy. simpl in Hy. rewrite C1, C2 in Hy. simpl in Hy. injection Hy as <- <-.
    unfold from_kv. simpl. rewrite (U1 0 []), (U2 0 []). reflexivity.
Qed.

(* ---- the round trip, for every context ------------------------------------------------------------------------------------ *)
Lemma roundtrip_good : forall t,
  valid_ty t = true ->
  forall c cmp v, (cmp = true -> comparable t = true) ->
  has_type t v -> has_some_none v = false -> names_ok c t = true -> good c cmp t v.
Proof.
  induction t as [fn tn k|fn tn a IHa b IHb|fn tn a IHa b IHb|fn tn a IHa|fn tn a IHa|fn tn a IHa
                  |fn tn k IHk e IHe|fn tn k IHk e IHe];
    intros Hval c cmp v Hcmp Ht Hs Hn.
  - (* scalar *)
    apply has_type_scalar_annot in Ht. destruct (scalar_rt _ _ Ht) as [o [H1 [H2 [H3 H4]]]].
    apply good_single with (o := o).
    + reflexivity.
    + intros _. split; [reflexivity|]. destruct k; try discriminate. auto.
    + cbn [conv]. rewrite H1. reflexivity.
    + congruence.
    + intros idx rest. cbn [unconv]. rewrite H2. reflexivity.
  - (* pair *)
    destruct v as [| | | | |x y| | | | | | |]; simpl in Ht; try contradiction. destruct Ht as [Hta Htb].
    apply hsn_pair in Hs. destruct Hs as [Hsa Hsb].
    simpl in Hval. apply andb_true_iff in Hval. destruct Hval as [Hva Hvb].
    cbn [names_ok] in Hn. apply andb_true_iff in Hn. destruct Hn as [Hn12 Hn3].
    apply andb_true_iff in Hn12. destruct Hn12 as [Hna Hnb].
    assert (Hca : cmp = true -> comparable a = true).
    { intros E. specialize (Hcmp E). simpl in Hcmp. apply andb_true_iff in Hcmp. tauto. }
    assert (Hcb : cmp = true -> comparable b = true).
    { intros E. specialize (Hcmp E). simpl in Hcmp. apply andb_true_iff in Hcmp. tauto. }
    destruct (IHa Hva CPair cmp x Hca Hta Hsa Hna) as [ia [osa [Ca [La Ua]]]].
    destruct (IHb Hvb CPair cmp y Hcb Htb Hsb Hnb) as [ib [osb [Cb [Lb Ub]]]].
    destruct (is_cpair c && unnamed fn tn) eqn:Eflat.
    + (* merged into the parent pair *)
      apply andb_true_iff in Eflat. destruct Eflat as [Ec Eu]. destruct c; try discriminate.
      exists 0, (osa ++ osb). split.
      * rewrite conv_pair, Ca, Cb. simpl. rewrite Eu. reflexivity.
      * split; [rewrite app_length, La, Lb; simpl; rewrite Eu; reflexivity|].
        intros rest. rewrite unconv_pair. simpl. rewrite Eu. simpl.
        rewrite <- app_assoc, Ua. simpl. rewrite Ub. reflexivity.
    + (* owner of a layout *)
      apply nodup_names_NoDup in Hn3.
      set (leaves := map snd (pair_leaves a b)) in *.
      set (o := pair_obj cmp (layout_names false leaves) (osa ++ osb)).
      assert (Hconv : conv c cmp (TPair fn tn a b) (VPair x y) = Ok (0, [o])).
      { rewrite conv_pair, Ca, Cb. simpl. rewrite Eflat. reflexivity. }
      assert (Hitems : pair_items (layout_names false leaves) (pair_count a + pair_count b) o = Ok (osa ++ osb)).
      { unfold o, pair_obj.
        assert (Hlen : length (osa ++ osb) = pair_count a + pair_count b) by (rewrite app_length; congruence).
        destruct (layout_names false leaves) as [ns|] eqn:El.
        - destruct cmp.
          + simpl. rewrite Hlen, Nat.eqb_refl. reflexivity.
          + apply layout_names_some in El. subst ns.
            rewrite pydict_of_distinct by (apply keys_distinct_names; assumption).
            simpl. rewrite key_known_combine.
            apply (dict_items_ok (all_names leaves) (osa ++ osb) [] []); [reflexivity| |assumption].
            rewrite all_names_length. unfold leaves. rewrite pair_leaves_length. congruence.
        - simpl. rewrite Hlen, Nat.eqb_refl. reflexivity. }
      assert (Hun : forall c', is_cpair c' && unnamed fn tn = false -> forall idx rest,
                    unconv c' (TPair fn tn a b) idx (o :: rest) = Ok (VPair x y, rest)).
      { intros c' Ef idx rest. rewrite unconv_pair. cbv zeta. rewrite Ef. fold leaves. rewrite Hitems. simpl.
        rewrite Ua. simpl. rewrite <- (app_nil_r osb), Ub. reflexivity. }
      assert (Hne : o <> PNone).
      { unfold o, pair_obj. destruct (layout_names false leaves); [destruct cmp|]; discriminate. }
      apply good_single with (o := o).
      * intros ->. simpl. simpl in Eflat. rewrite Eflat. reflexivity.
      * intros ->. split; [reflexivity|]. simpl. discriminate.
      * assumption.
      * intros E. contradiction.
      * apply Hun. assumption.
  - (* union *)
    simpl in Hval. apply andb_true_iff in Hval. destruct Hval as [Hva Hvb].
    cbn [names_ok] in Hn. apply andb_true_iff in Hn. destruct Hn as [Hn12 Hn3].
    apply andb_true_iff in Hn12. destruct Hn12 as [Hna Hnb].
    assert (Hca : cmp = true -> comparable a = true).
    { intros E. specialize (Hcmp E). simpl in Hcmp. apply andb_true_iff in Hcmp. tauto. }
    assert (Hcb : cmp = true -> comparable b = true).
    { intros E. specialize (Hcmp E). simpl in Hcmp. apply andb_true_iff in Hcmp. tauto. }
    set (names := all_names (map snd (or_leaves a b))) in *.
    assert (Hwalk : exists j o,
      match v with
      | VLeft x => conv COr cmp a x
      | VRight y => let* r := conv COr cmp b y in Ok (or_count a + fst r, snd r)
      | _ => Reject
      end = Ok (j, [o]) /\
      j < or_count a + or_count b /\ (all_units a && all_units b = true -> o = PUnit) /\
      forall rest,
        (if j <? or_count a
         then let* r := unconv COr a j (o :: rest) in Ok (VLeft (fst r), snd r)
         else let* r := unconv COr b (j - or_count a) (o :: rest) in Ok (VRight (fst r), snd r)) = Ok (v, rest)).
    { destruct v as [| | | | | |x|y| | | | |]; simpl in Ht; try contradiction.
      - destruct (IHa Hva COr cmp x Hca Ht Hs Hna) as [i [os [Cx [o [-> [Li [Ux Ue]]]]]]].
        exists i, o. split; [assumption|]. split; [lia|]. split.
        + intros E. apply andb_true_iff in E. apply Ux. tauto.
        + intros rest. apply Nat.ltb_lt in Li. rewrite Li, Ue. reflexivity.
      - destruct (IHb Hvb COr cmp y Hcb Ht Hs Hnb) as [i [os [Cy [o [-> [Li [Uy Ue]]]]]]].
        exists (or_count a + i), o. split; [rewrite Cy; reflexivity|]. split; [lia|]. split.
        + intros E. apply andb_true_iff in E. apply Uy. tauto.
        + intros rest. assert (El : (or_count a + i <? or_count a) = false) by (apply Nat.ltb_ge; lia).
          rewrite El. replace (or_count a + i - or_count a) with i by lia. rewrite Ue. reflexivity. }
    destruct Hwalk as [j [o [Hw [Hj [Hunit Hback]]]]].
    destruct (is_cor c) eqn:Ec.
    + destruct c; try discriminate.
      exists j, [o]. split; [rewrite conv_or, Hw; reflexivity|].
      exists o. split; [reflexivity|]. split; [simpl; assumption|]. split; [simpl; assumption|].
      intros rest. rewrite unconv_or. simpl. rewrite (Hback rest). reflexivity.
    + apply nodup_names_NoDup in Hn3.
      assert (Hkey : exists key, nth_error names j = Some key).
      { destruct (nth_error names j) eqn:E; [eauto|]. apply nth_error_None in E.
        unfold names in E. rewrite all_names_length, or_leaves_length in E. lia. }
      destruct Hkey as [key Hkey].
      set (enum := all_units a && all_units b) in *.
      set (obj := or_obj cmp enum key o).
      assert (Hsel : or_select enum names obj = Ok (j, o)).
      { unfold obj, or_obj, or_select.
        pose proof (last_index_nth names j key 0 None Hn3 Hkey) as Hli. simpl in Hli.
        destruct enum eqn:Ee.
        - simpl. rewrite Hli. rewrite (Hunit eq_refl). reflexivity.
        - destruct cmp; simpl; rewrite Hli; reflexivity. }
      assert (Hne : obj <> PNone).
      { unfold obj, or_obj. destruct enum; [discriminate|]. destruct cmp; discriminate. }
      apply good_single with (o := obj).
      * intros _. reflexivity.
      * intros ->. discriminate.
      * rewrite conv_or, Hw. simpl. rewrite Ec. fold names. rewrite Hkey. reflexivity.
      * intros E. contradiction.
      * intros idx rest. rewrite unconv_or. cbv zeta. rewrite Ec. fold names. fold enum. rewrite Hsel. simpl.
        rewrite (Hback []). reflexivity.
  - (* option *)
    destruct v as [| | | | | | | |x| | | |]; simpl in Ht; try contradiction.
    + apply hsn_some in Hs. destruct Hs as [Hx Hsx]. simpl in Hval.
      assert (Hca : cmp = true -> comparable a = true) by (intros E; apply (Hcmp E)).
      destruct (good_to_from _ _ _ (IHa Hval CNone cmp x Hca Ht Hsx Hn)) as [o [T1 [F1 N1]]].
      assert (Hne : o <> PNone) by (intros E; apply Hx, N1, E).
      apply good_single with (o := o).
      * reflexivity.
      * intros _. split; [reflexivity|]. simpl. discriminate.
      * rewrite conv_option_some, T1. reflexivity.
      * intros E. contradiction.
      * intros idx rest. rewrite unconv_option by assumption. rewrite F1. reflexivity.
    + apply good_single with (o := PNone).
      * reflexivity.
      * intros _. split; [reflexivity|]. simpl. discriminate.
      * reflexivity.
      * reflexivity.
      * reflexivity.
  - (* list *)
    destruct cmp; [specialize (Hcmp eq_refl); discriminate|].
    destruct v as [| | | | | | | | | |l| |]; simpl in Ht; try contradiction.
    simpl in Hval.
    destruct (elems_rt false a l) as [os [Hto [_ Hfrom]]].
    { intros x Hx. apply IHa; [assumption|discriminate| | |assumption].
      - rewrite Forall_forall in Ht. apply Ht, Hx.
      - eapply hsn_seq; eassumption. }
    apply good_single with (o := PList os).
    + reflexivity.
    + intros _. split; [reflexivity|]. simpl. discriminate.
    + rewrite conv_list, Hto. reflexivity.
    + discriminate.
    + intros idx rest. rewrite unconv_list, Hfrom. reflexivity.
  - (* set *)
    destruct cmp; [specialize (Hcmp eq_refl); discriminate|].
    destruct v as [| | | | | | | | | |l| |]; simpl in Ht; try contradiction.
    destruct Ht as [Hall [Hnd Hsorted]].
    simpl in Hval. apply andb_true_iff in Hval. destruct Hval as [Hcomp Hva].
    destruct (elems_rt true a l) as [os [Hto [Hinv Hfrom]]].
    { intros x Hx. apply IHa; [assumption|intros _; assumption| | |assumption].
      - rewrite Forall_forall in Hall. apply Hall, Hx.
      - eapply hsn_seq; eassumption. }
    assert (Hh : forallb hashable os = true).
    { apply forallb_forall. intros o Ho. destruct (map_result_In _ _ _ _ Hto Ho) as [x [Hx Hf]].
      unfold to1, one in Hf. destruct (conv CNone true a x) as [[i os1]|] eqn:E; simpl in Hf; [|discriminate].
      destruct os1 as [|o1 [|? ?]]; try discriminate. injection Hf as <-.
      pose proof (conv_hashable _ _ _ _ _ E) as H1. simpl in H1. rewrite andb_true_r in H1. assumption. }
    apply good_single with (o := PList os).
    + reflexivity.
    + intros _. split; [reflexivity|]. simpl. discriminate.
    + rewrite conv_set, Hto. reflexivity.
    + discriminate.
    + intros idx rest. rewrite unconv_set, Hh. simpl.
      rewrite (has_dup_false _ _ _ _ Hto Hinv Hnd), Hfrom. simpl.
      rewrite sort_by_sorted by assumption. reflexivity.
  - (* map *)
    destruct cmp; [specialize (Hcmp eq_refl); discriminate|].
    destruct v as [| | | | | | | | | | |l|]; simpl in Ht; try contradiction.
    destruct Ht as [Hall [Hnd Hsorted]].
    simpl in Hval. apply andb_true_iff in Hval. destruct Hval as [Hval1 Hve].
    apply andb_true_iff in Hval1. destruct Hval1 as [Hcomp Hvk].
    cbn [names_ok] in Hn. apply andb_true_iff in Hn. destruct Hn as [Hnk Hne].
    destruct (kvs_rt k e l) as [d [Hto [Hinv Hfrom]]].
    { intros kv Hx. rewrite Forall_forall in Hall. destruct (Hall kv Hx) as [T1 T2].
      destruct (hsn_map _ Hs kv Hx) as [S1 S2]. split.
      - apply IHk; [assumption|intros _; assumption|assumption|assumption|assumption].
      - apply IHe; [assumption|discriminate|assumption|assumption|assumption]. }
    apply good_single with (o := PDict d).
    + reflexivity.
    + intros _. split; [reflexivity|]. simpl. discriminate.
    + rewrite conv_map, Hto. simpl. rewrite pydict_of_distinct; [reflexivity|].
      eapply keys_distinct_kv; eassumption.
    + discriminate.
    + intros idx rest. rewrite unconv_map, Hfrom. simpl. rewrite sort_by_sorted by assumption. reflexivity.
  - (* big_map *)
    destruct v as [| | | | | | | | | | |l|p]; simpl in Ht; try contradiction.
    + destruct cmp; [specialize (Hcmp eq_refl); discriminate|].
      destruct Ht as [Hall [Hnd Hsorted]].
      simpl in Hval. apply andb_true_iff in Hval. destruct Hval as [Hval1 Hve].
      apply andb_true_iff in Hval1. destruct Hval1 as [Hcomp Hvk].
      cbn [names_ok] in Hn. apply andb_true_iff in Hn. destruct Hn as [Hnk Hne].
      destruct (kvs_rt k e l) as [d [Hto [Hinv Hfrom]]].
      { intros kv Hx. rewrite Forall_forall in Hall. destruct (Hall kv Hx) as [T1 T2].
        destruct (hsn_map _ Hs kv Hx) as [S1 S2]. split.
        - apply IHk; [assumption|intros _; assumption|assumption|assumption|assumption].
        - apply IHe; [assumption|discriminate|assumption|assumption|assumption]. }
      apply good_single with (o := PDict d).
      * reflexivity.
      * intros _. split; [reflexivity|]. simpl. discriminate.
      * rewrite conv_bigmap, Hto. simpl. rewrite pydict_of_distinct; [reflexivity|].
        eapply keys_distinct_kv; eassumption.
      * discriminate.
      * intros idx rest. rewrite unconv_bigmap, Hfrom. simpl. rewrite sort_by_sorted by assumption. reflexivity.
    + apply good_single with (o := PInt p).
      * reflexivity.
      * intros _. split; [reflexivity|]. simpl. discriminate.
      * reflexivity.
      * discriminate.
      * reflexivity.
Qed.

(* ---- corollaries ------------------------------------------------------------------------------------------------------ *)
Lemma roundtrip_cmp cmp t v :
  valid_ty t = true -> (cmp = true -> comparable t = true) ->
  has_type t v -> has_some_none v = false -> names_ok CNone t = true ->
  exists o, to_py_cmp cmp t v = Ok o /\ from_py t o = Ok v.
Proof.
  intros Hv Hc Ht Hs Hn.
  destruct (good_to_from _ _ _ (roundtrip_good t Hv CNone cmp v Hc Ht Hs Hn)) as [o [H1 [H2 _]]].
  exists o. split; assumption.
Qed.

Lemma roundtrip t v :
  valid_ty t = true -> has_type t v -> has_some_none v = false -> names_ok CNone t = true ->
  exists o, to_py t v = Ok o /\ from_py t o = Ok v.
Proof. intros Hv. apply roundtrip_cmp; [assumption|discriminate]. Qed.

(* decode (encode o) = o for every object in the image of decode *)
Lemma encode_decode t v o :
  valid_ty t = true -> has_type t v -> has_some_none v = false -> names_ok CNone t = true ->
  to_py t v = Ok o ->
  exists v', from_py t o = Ok v' /\ to_py t v' = Ok o.
Proof.
  intros Hv Ht Hs Hn Ho. destruct (roundtrip t v Hv Ht Hs Hn) as [o' [H1 H2]].
  rewrite Ho in H1. injection H1 as <-. exists v. split; assumption.
Qed.

(* the conversion is injective (distinct values never share a Python object) *)
Lemma to_py_injective t v1 v2 o :
  valid_ty t = true -> names_ok CNone t = true ->
  has_type t v1 -> has_some_none v1 = false -> has_type t v2 -> has_some_none v2 = false ->
  to_py t v1 = Ok o -> to_py t v2 = Ok o -> v1 = v2.
Proof.
  intros Hv Hn T1 S1 T2 S2 O1 O2.
  destruct (roundtrip t v1 Hv T1 S1 Hn) as [o1 [A1 B1]]. destruct (roundtrip t v2 Hv T2 S2 Hn) as [o2 [A2 B2]].
  rewrite O1 in A1. rewrite O2 in A2. injection A1 as <-. injection A2 as <-. congruence.
Qed.

(* the keys of a converted record are the layout keys of the type, in order: they do not depend on the value *)
Lemma pair_keys fn tn a b v o ns :
  valid_ty (TPair fn tn a b) = true -> has_type (TPair fn tn a b) v -> has_some_none v = false ->
  names_ok CNone (TPair fn tn a b) = true ->
  layout_names false (map snd (pair_leaves a b)) = Some ns ->
  to_py (TPair fn tn a b) v = Ok o ->
  exists items, o = PDict (combine (map PStr ns) items) /\ length items = length ns /\ NoDup ns.
Proof.
  intros Hval Ht Hs Hn Hl Ho.
  destruct v as [| | | | |x y| | | | | | |]; simpl in Ht; try contradiction. destruct Ht as [Hta Htb].
  apply hsn_pair in Hs. destruct Hs as [Hsa Hsb].
  simpl in Hval. apply andb_true_iff in Hval. destruct Hval as [Hva Hvb].
  cbn [names_ok] in Hn. apply andb_true_iff in Hn. destruct Hn as [Hn12 Hn3].
  apply andb_true_iff in Hn12. destruct Hn12 as [Hna Hnb]. simpl in Hn3. apply nodup_names_NoDup in Hn3.
  destruct (roundtrip_good a Hva CPair false x ltac:(discriminate) Hta Hsa Hna) as [ia [osa [Ca [La _]]]].
  destruct (roundtrip_good b Hvb CPair false y ltac:(discriminate) Htb Hsb Hnb) as [ib [osb [Cb [Lb _]]]].
  unfold to_py, to_py_cmp in Ho. rewrite conv_pair, Ca, Cb in Ho. simpl in Ho. rewrite Hl in Ho.
  injection Ho as <-. pose proof (layout_names_some _ _ _ Hl) as ->.
  exists (osa ++ osb). rewrite pydict_of_distinct by (apply keys_distinct_names; assumption).
  split; [reflexivity|]. split; [|assumption].
  rewrite all_names_length, pair_leaves_length, app_length. congruence.
Qed.

(* ---- the known findings, as computations ---------------------------------------------------------------------------- *)
Definition kf14_type : aty := TOption None None (TOption None None (TScalar None None KNat)).
Definition kf14_value : mval := VSome VNone.

Lemma kf14_refuted :
  valid_ty kf14_type = true /\ has_type kf14_type kf14_value /\ names_ok CNone kf14_type = true /\
  has_some_none kf14_value = true /\
  to_py kf14_type kf14_value = Ok PNone /\ from_py kf14_type PNone = Ok VNone.
Proof. vm_compute. repeat split; reflexivity. Qed.

Definition nat_1 : name := [x6e; x61; x74; x5f; x31].   (* "nat_1" *)
Definition kf30_pair : aty := TPair None None (TScalar (Some nat_1) None KNat) (TScalar None None KNat).
Definition kf30_or : aty := TOr None None (TScalar (Some nat_1) None KNat) (TScalar None None KNat).

Lemma kf30_pair_refuted :
  valid_ty kf30_pair = true /\ has_type kf30_pair (VPair (VInt 1) (VInt 2)) /\
  has_some_none (VPair (VInt 1) (VInt 2)) = false /\ names_ok CNone kf30_pair = false /\
  all_names (map snd (pair_leaves (TScalar (Some nat_1) None KNat) (TScalar None None KNat))) = [nat_1; nat_1] /\
  to_py kf30_pair (VPair (VInt 1) (VInt 2)) = Ok (PDict [(PStr nat_1, PInt 2)]) /\
  from_py kf30_pair (PDict [(PStr nat_1, PInt 2)]) = Reject.
Proof. repeat split; try (vm_compute; reflexivity); simpl; lia. Qed.

Lemma kf30_or_refuted :
  valid_ty kf30_or = true /\ has_type kf30_or (VLeft (VInt 5)) /\ names_ok CNone kf30_or = false /\
  to_py kf30_or (VLeft (VInt 5)) = Ok (PDict [(PStr nat_1, PInt 5)]) /\
  from_py kf30_or (PDict [(PStr nat_1, PInt 5)]) = Ok (VRight (VInt 5)).
Proof. repeat split; try (vm_compute; reflexivity); simpl; lia. Qed.

(* ---- generated names <prim>_<index> are injective in the index ------------------------------------------------------ *)
Definition digit_val (b : byte) : nat := N.to_nat (Byte.to_N b) - 48.
Fixpoint digits_val (acc : nat) (l : bytes) : nat :=
  match l with [] => acc | d :: r => digits_val (10 * acc + digit_val d) r end.

Lemma digit_val_digit n : n < 10 -> digit_val (digit n) = n.
Proof. intros H. do 10 (destruct n as [|n]; [reflexivity|]). lia. Qed.

Lemma digit_not_underscore n : n < 10 -> digit n <> x5f.
Proof. intros H. do 10 (destruct n as [|n]; [discriminate|]). lia. Qed.

Lemma dec_digits_val : forall fuel n acc, n < fuel -> digits_val 0 (dec_digits fuel n acc) = digits_val n acc.
Proof.
  induction fuel as [|f IH]; intros n acc H; [lia|]. cbn [dec_digits].
  pose proof (Nat.mod_upper_bound n 10 ltac:(lia)) as Hm.
  pose proof (Nat.div_mod n 10 ltac:(lia)) as Hd.
  destruct (n / 10 =? 0) eqn:E.
  - apply Nat.eqb_eq in E. cbn [digits_val]. rewrite digit_val_digit by assumption. f_equal. lia.
  - apply Nat.eqb_neq in E. rewrite IH by lia. cbn [digits_val]. rewrite digit_val_digit by assumption. f_equal. lia.
Qed.

Lemma str_of_nat_inj i j : str_of_nat i = str_of_nat j -> i = j.
Proof.
  intros H. apply (f_equal (digits_val 0)) in H. unfold str_of_nat in H.
  rewrite !dec_digits_val in H by lia. exact H.
Qed.

Lemma dec_digits_no_underscore : forall fuel n acc, ~ In x5f acc -> ~ In x5f (dec_digits fuel n acc).
Proof.
  induction fuel as [|f IH]; intros n acc H; [assumption|]. cbn [dec_digits].
  assert (H' : ~ In x5f (digit (n mod 10) :: acc)).
  { intros [E|E]; [|contradiction]. apply (digit_not_underscore (n mod 10)); [|assumption].
    apply Nat.mod_upper_bound. lia. }
  destruct (n / 10 =? 0); [assumption|]. apply IH. assumption.
Qed.

Lemma split_last {A} (x : A) : forall l1 l2 r1 r2,
  l1 ++ x :: r1 = l2 ++ x :: r2 -> ~ In x r1 -> ~ In x r2 -> l1 = l2 /\ r1 = r2.
Proof.
  induction l1 as [|a l1 IH]; intros [|b l2] r1 r2 H H1 H2; simpl in H.
  - injection H as ->. auto.
  - injection H as <- ->. exfalso. apply H1. apply in_or_app. right. left. reflexivity.
  - injection H as -> <-. exfalso. apply H2. apply in_or_app. right. left. reflexivity.
  - injection H as -> H. destruct (IH _ _ _ H H1 H2) as [-> ->]. auto.
Qed.

Lemma gen_name_inj t i t' j : gen_name t i = gen_name t' j -> i = j.
Proof.
  unfold gen_name. intros H. apply split_last in H.
  - apply str_of_nat_inj. tauto.
  - apply dec_digits_no_underscore. auto.
  - apply dec_digits_no_underscore. auto.
Qed.

(* ---- uniqueness of layout keys ---------------------------------------------------------------------------------------- *)
Lemma layout_keys_nodup : forall args i res,
  (forall p q t k t', nth_error args p = Some t -> explicit_key t = Some k ->
                      nth_error args q = Some t' -> k <> gen_name t' (i + q)) ->
  NoDup (fst (layout_keys i res args)) /\
  (forall n, In n (fst (layout_keys i res args)) ->
     (exists q t', nth_error args q = Some t' /\ n = gen_name t' (i + q)) \/
     (~ In n res /\ exists p t, nth_error args p = Some t /\ explicit_key t = Some n)).
Proof.
  induction args as [|t rest IH]; intros i res H; simpl.
  - split; [constructor|]. intros n [].
  - assert (Hrest : forall p q t0 k t', nth_error rest p = Some t0 -> explicit_key t0 = Some k ->
                      nth_error rest q = Some t' -> k <> gen_name t' (S i + q)).
    { intros p q t0 k t' Hp Hk Hq. replace (S i + q) with (i + S q) by lia. apply (H (S p) (S q) t0 k t'); assumption. }
    assert (Hgen : forall res', NoDup (gen_name t i :: fst (layout_keys (S i) res' rest)) /\
              (forall n, In n (gen_name t i :: fst (layout_keys (S i) res' rest)) ->
                 (exists q t', nth_error (t :: rest) q = Some t' /\ n = gen_name t' (i + q)) \/
                 (~ In n res' /\ exists p t0, nth_error (t :: rest) p = Some t0 /\ explicit_key t0 = Some n))).
    { intros res'. destruct (IH (S i) res' Hrest) as [Hnd Hin]. split.
      - constructor; [|assumption]. intros Hg. destruct (Hin _ Hg) as [[q [t' [Hq E]]]|[_ [p [t0 [Hp Hk]]]]].
        + apply gen_name_inj in E. lia.
        + apply (H (S p) 0 t0 (gen_name t i) t); simpl; try assumption; try reflexivity. f_equal. lia.
      - intros n [<-|Hn].
        + left. exists 0, t. split; [reflexivity|]. f_equal. lia.
        + destruct (Hin _ Hn) as [[q [t' [Hq E]]]|[Hni [p [t0 [Hp Hk]]]]].
          * left. exists (S q), t'. split; [assumption|]. rewrite E. f_equal. lia.
          * right. split; [assumption|]. exists (S p), t0. auto. }
    destruct (explicit_key t) as [k|] eqn:Ek.
    + destruct (mem_name k res) eqn:Em; simpl.
      * apply Hgen.
      * destruct (IH (S i) (k :: res) Hrest) as [Hnd Hin]. apply mem_name_false in Em. split.
        -- constructor; [|assumption]. intros Hk. destruct (Hin _ Hk) as [[q [t' [Hq E]]]|[Hni _]].
           ++ apply (H 0 (S q) t k t'); simpl; try assumption; try reflexivity. rewrite E. f_equal. lia.
           ++ apply Hni. left. reflexivity.
        -- intros n [<-|Hn].
           ++ right. split; [assumption|]. exists 0, t. auto.
           ++ destruct (Hin _ Hn) as [[q [t' [Hq E]]]|[Hni [p [t0 [Hp Hk]]]]].
              ** left. exists (S q), t'. split; [assumption|]. rewrite E. f_equal. lia.
              ** right. split; [intros Hr; apply Hni; right; assumption|]. exists (S p), t0. auto.
    + simpl. apply Hgen.
Qed.

Lemma all_names_nodup args :
  (forall i j t k, nth_error args i = Some t -> explicit_key t = Some k ->
                   forall t', nth_error args j = Some t' -> k <> gen_name t' j) ->
  NoDup (all_names args).
Proof.
  intros H. unfold all_names. apply layout_keys_nodup. intros p q t k t' Hp Hk Hq. simpl. exact (H p q t k Hp Hk t' Hq).
Qed.
