(* Proofs/RefSem_proofs.v — sanity lemmas about the reference semantics. *)
From Coq Require Import List ZArith Bool Arith Lia.
From PV Require Import Base.Bytes Michelson.Instr Michelson.RefSem.
Import ListNotations.
Local Open Scope Z_scope.

(* EDIV returns the Euclidean quotient and remainder *)
Lemma euclid_spec a b : b <> 0 -> a = b * euclid_q a b + euclid_r a b /\ 0 <= euclid_r a b < Z.abs b.
Proof.
  intros Hb. unfold euclid_q, euclid_r.
  assert (Ha : Z.abs b <> 0) by lia.
  pose proof (Z.div_mod a (Z.abs b) Ha) as Hdm.
  pose proof (Z.mod_pos_bound a (Z.abs b)) as Hp.
  split; [|lia].
  rewrite Z.mul_assoc. replace (b * Z.sgn b) with (Z.abs b); [exact Hdm|].
  symmetry. apply Z.sgn_abs.
Qed.

Lemma small_multiple y k lo hi : y < 0 -> y * hi < y * k < y * lo -> lo < k < hi.
Proof.
  intros Hy [H1 H2]. split.
  - destruct (Z_lt_le_dec lo k); [assumption|]. assert (y * lo <= y * k) by (apply Z.mul_le_mono_nonpos_l; lia). lia.
  - destruct (Z_lt_le_dec k hi); [assumption|]. assert (y * k <= y * hi) by (apply Z.mul_le_mono_nonpos_l; lia). lia.
Qed.

Lemma small_multiple_pos y k lo hi : 0 < y -> y * lo < y * k < y * hi -> lo < k < hi.
Proof.
  intros Hy [H1 H2]. split.
  - destruct (Z_lt_le_dec lo k); [assumption|]. assert (y * k <= y * lo) by (apply Z.mul_le_mono_nonneg_l; lia). lia.
  - destruct (Z_lt_le_dec k hi); [assumption|]. assert (y * hi <= y * k) by (apply Z.mul_le_mono_nonneg_l; lia). lia.
Qed.

(* Python's  q, r = divmod(x, y); if r < 0: r += abs(y); q += 1  computes the same pair *)
Lemma ediv_agree x y : y <> 0 ->
  let q := x / y in let r := x mod y in
  (if r <? 0 then q + 1 else q) = euclid_q x y /\
  (if r <? 0 then r + Z.abs y else r) = euclid_r x y /\
  0 <= euclid_r x y.
Proof.
  intros Hy. cbv zeta.
  destruct (euclid_spec x y Hy) as [Hdm Hpos].
  pose proof (Z.div_mod x y Hy) as Hfl.
  pose proof (Z.mod_pos_bound x y) as Hp. pose proof (Z.mod_neg_bound x y) as Hn.
  remember (euclid_q x y) as qe. remember (euclid_r x y) as re.
  remember (x / y) as q. remember (x mod y) as r. clear Heqqe Heqre Heqq Heqr.
  assert (Hk : y * (qe - q) = r - re) by lia.
  remember (qe - q) as k.
  destruct (r <? 0) eqn:E; [apply Z.ltb_lt in E | apply Z.ltb_ge in E].
  - assert (H : y < 0) by lia. specialize (Hn H).
    assert (0 < k < 2) by (apply (small_multiple y); lia).
    assert (k = 1) by lia. subst k. split; [lia|]. split; lia.
  - destruct (Z_lt_le_dec 0 y) as [Hy'|Hy'].
    + specialize (Hp Hy'). assert (-1 < k < 1) by (apply (small_multiple_pos y); lia).
      assert (k = 0) by lia. subst k. split; [lia|]. split; lia.
    + assert (H : y < 0) by lia. specialize (Hn H). assert (r = 0) by lia.
      assert (-1 < k < 1) by (apply (small_multiple y); lia).
      assert (k = 0) by lia. subst k. split; [lia|]. split; lia.
Qed.

Lemma euclid_q_nonneg x y : 0 <= x -> 0 < y -> 0 <= euclid_q x y.
Proof.
  intros Hx Hy. unfold euclid_q. rewrite Z.sgn_pos by assumption. rewrite Z.abs_eq by lia.
  rewrite Z.mul_1_l. apply Z.div_pos; lia.
Qed.

Lemma euclid_q_le x y : 0 <= x -> 0 < y -> euclid_q x y <= x.
Proof.
  intros Hx Hy. unfold euclid_q. rewrite Z.sgn_pos by assumption. rewrite Z.abs_eq by lia. rewrite Z.mul_1_l.
  apply Z.div_le_upper_bound; [assumption|]. nia.
Qed.

Lemma euclid_r_le x y : 0 <= x -> 0 < y -> euclid_r x y <= x.
Proof. intros Hx Hy. unfold euclid_r. rewrite Z.abs_eq by lia. apply Z.mod_le; assumption. Qed.
